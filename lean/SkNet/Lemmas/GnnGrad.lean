/-
The gradient methods of the model are the closed forms of the specification (`Jᵀ d`, soft-max minus one-hot,
sigmoid minus target), and these are the derivatives of `⟨d, output⟩` and of `n ·` the mean losses.
-/
import SkNet.Lemmas.GnnDeriv

namespace SkNet.Gnn
open SkNet Mat Finset

theorem softmaxFn_congr (c : Nat) (s s' : Nat → ℝ) (h : ∀ k, k < c → s k = s' k) (k : Nat) (hk : k < c) :
    Spec.softmaxFn c s k = Spec.softmaxFn c s' k :=
  actFn_congr .softmax c s s' h k hk

theorem jac_congr (a : Act) (c : Nat) (s s' : Nat → ℝ) (h : ∀ k, k < c → s k = s' k) (l k : Nat)
    (hl : l < c) (hk : k < c) : Spec.jac a c s l k = Spec.jac a c s' l k := by
  cases a with
  | identity => rfl
  | relu => simp only [Spec.jac, h k hk]
  | sigmoid => simp only [Spec.jac, actFn_congr .sigmoid c s s' h k hk]
  | softmax => simp only [Spec.jac, softmaxFn_congr c s s' h l hl, softmaxFn_congr c s s' h k hk]

/-- the rows of a tabulated matrix, read back -/
theorem get_row_eq (n c : Nat) (s : Nat → Nat → ℝ) (i : Nat) (hi : i < n) :
    ∀ k, k < c → (fun j => (mk' n c s).get i j) k = s i k :=
  fun _ hk => get_mk'_of_lt s hi hk

/-- **`activation.gradient(signal, direction)` is `Jᵀ d`** with the Jacobian of the specification -/
theorem actGradient_eq_spec (a : Act) (n c : Nat) (s dd : Nat → Nat → ℝ) :
    actGradient a (mk' n c s) (mk' n c dd) = .ok (Spec.actGradient a (mk' n c s) (mk' n c dd)) := by
  unfold actGradient Spec.actGradient
  simp only [mk'_r, mk'_c, ne_eq, not_true_eq_false, or_self, ite_false]
  cases a with
  | identity =>
    simp only []
    congr 1
    apply mk'_congr
    intro i hi k hk
    rw [sumTo_eq]
    simp only [Spec.jac, ite_mul, one_mul, zero_mul]
    rw [Finset.sum_ite_eq']
    simp only [mem_range, hk, if_true]
    exact (get_mk'_of_lt dd hi hk).symm
  | relu =>
    simp only []
    congr 1
    apply mk'_congr
    intro i hi k hk
    rw [sumTo_eq]
    simp only [Spec.jac, ite_mul, zero_mul]
    rw [Finset.sum_ite_eq']
    simp only [mem_range, hk, if_true]
    split_ifs <;> simp
  | sigmoid =>
    simp only []
    congr 1
    apply mk'_congr
    intro i hi k hk
    rw [sumTo_eq]
    simp only [Spec.jac, ite_mul, zero_mul]
    rw [Finset.sum_ite_eq']
    simp only [mem_range, hk, if_true]
    rfl
  | softmax =>
    simp only []
    congr 1
    apply mk'_congr
    intro i hi k hk
    rw [row_mk' n c s i hi, softmaxRow_tab c (s i) k hk, sumTo_eq, sumTo_eq]
    have hrow := get_row_eq n c s i hi
    have e1 : ∀ l ∈ range c, (softmaxRow (tab c fun j => s i j)).getD l 0 * (mk' n c dd).get i l
        = Spec.softmaxFn c (s i) l * dd i l := by
      intro l hl
      rw [softmaxRow_tab c (s i) l (mem_range.mp hl), get_mk'_of_lt dd hi (mem_range.mp hl)]
    have e2 : ∀ l ∈ range c, Spec.jac .softmax c (fun j => (mk' n c s).get i j) l k * (mk' n c dd).get i l
        = Spec.softmaxFn c (s i) l * (if l = k then 1 else 0) * dd i l
          - Spec.softmaxFn c (s i) k * (Spec.softmaxFn c (s i) l * dd i l) := by
      intro l hl
      rw [jac_congr .softmax c _ (s i) hrow l k (mem_range.mp hl) hk, get_mk'_of_lt dd hi (mem_range.mp hl)]
      simp only [Spec.jac]
      ring
    rw [Finset.sum_congr rfl e1, Finset.sum_congr rfl e2, Finset.sum_sub_distrib, ← Finset.mul_sum,
      get_mk'_of_lt dd hi hk]
    simp only [mul_ite, mul_one, mul_zero, ite_mul, zero_mul]
    rw [Finset.sum_ite_eq']
    simp only [mem_range, hk, if_true]
    ring

/-- **the gradient method is the derivative of `⟨direction, output⟩`**: for every entry `(i, k)` of the signal,
`gradient[i, k] = ∂/∂ signal[i, k] Σ_l direction[i, l] · output[i, l]` (ReLU: away from 0). -/
theorem actGradient_hasDerivAt (a : Act) (n c : Nat) (s dd : Nat → Nat → ℝ) (i k : Nat) (hi : i < n) (hk : k < c)
    (hrelu : a = .relu → s i k ≠ 0) :
    HasDerivAt (fun t => ∑ l ∈ range c, dd i l * Spec.actFn a c (Function.update (s i) k t) l)
      ((Spec.actGradient a (mk' n c s) (mk' n c dd)).get i k) (s i k) := by
  have h := HasDerivAt.fun_sum (u := range c)
    (A := fun l t => dd i l * Spec.actFn a c (Function.update (s i) k t) l)
    (A' := fun l => dd i l * Spec.jac a c (s i) l k) (x := s i k)
    (fun l _ => (jac_hasDerivAt a c (s i) l k hk hrelu).const_mul (dd i l))
  refine h.congr_deriv ?_
  unfold Spec.actGradient
  simp only [mk'_r, mk'_c]
  rw [get_mk'_of_lt _ hi hk, sumTo_eq]
  apply Finset.sum_congr rfl
  intro l hl
  rw [jac_congr a c _ (s i) (get_row_eq n c s i hi) l k (mem_range.mp hl) hk,
    get_mk'_of_lt dd hi (mem_range.mp hl)]
  ring

/-! ### losses on the whole signal matrix -/

/-- the signal with entry `(i0, k)` replaced by `t` -/
noncomputable def updRow (s : Nat → Nat → ℝ) (i0 k : Nat) (t : ℝ) : Nat → Nat → ℝ :=
  Function.update s i0 (Function.update (s i0) k t)

theorem updRow_self (s : Nat → Nat → ℝ) (i0 k : Nat) (t : ℝ) : updRow s i0 k t i0 = Function.update (s i0) k t := by
  unfold updRow
  rw [Function.update_self]

theorem updRow_of_ne (s : Nat → Nat → ℝ) (i0 k : Nat) (t : ℝ) {i : Nat} (h : i ≠ i0) : updRow s i0 k t i = s i := by
  unfold updRow
  rw [Function.update_of_ne h]

theorem updRow_same (s : Nat → Nat → ℝ) (i0 k : Nat) : updRow s i0 k (s i0 k) = s := by
  unfold updRow
  rw [Function.update_eq_self, Function.update_eq_self]

/-- `n ·` mean cross-entropy as a sum over the samples -/
theorem n_mul_ceLoss (n c : Nat) (f : Nat → Nat → ℝ) (labels : List Nat) (hn : 0 < n)
    (hlab : ∀ i, i < n → labels.getD i 0 < c) :
    (n : ℝ) * Spec.ceLoss (mk' n c f) labels =
      ∑ i ∈ range n, - Real.log (Spec.softmaxFn c (f i) (labels.getD i 0)) := by
  unfold Spec.ceLoss
  simp only [mk'_r, mk'_c, num_nat, num_log]
  have hn' : (n : ℝ) ≠ 0 := Nat.cast_ne_zero.mpr (Nat.pos_iff_ne_zero.mp hn)
  rw [mul_div_cancel₀ _ hn', sumTo_eq, ← Finset.sum_neg_distrib]
  apply Finset.sum_congr rfl
  intro i hi
  have hi' := mem_range.mp hi
  rw [softmaxFn_congr c _ (f i) (get_row_eq n c f i hi') _ (hlab i hi')]

/-- **`CrossEntropy.loss_gradient` is `n ·` the derivative of the mean loss**: for every entry `(i0, k)` of the
signal, `∂/∂ signal[i0, k] (n · mean_i (−log softmax(signal[i])[labels[i]])) = softmax(signal[i0])[k] − 1{labels[i0] = k}` -/
theorem ceLoss_hasDerivAt (n c : Nat) (s : Nat → Nat → ℝ) (labels : List Nat) (hn : 0 < n)
    (hlab : ∀ i, i < n → labels.getD i 0 < c) (i0 k : Nat) (hi : i0 < n) (hk : k < c) :
    HasDerivAt (fun t => (n : ℝ) * Spec.ceLoss (mk' n c (updRow s i0 k t)) labels)
      ((Spec.ceGradient (mk' n c s) labels).get i0 k) (s i0 k) := by
  have hfun : (fun t => (n : ℝ) * Spec.ceLoss (mk' n c (updRow s i0 k t)) labels) =
      fun t => ∑ i ∈ range n, - Real.log (Spec.softmaxFn c (updRow s i0 k t i) (labels.getD i 0)) := by
    funext t
    exact n_mul_ceLoss n c _ labels hn hlab
  rw [hfun]
  have h := HasDerivAt.fun_sum (u := range n)
    (A := fun i t => - Real.log (Spec.softmaxFn c (updRow s i0 k t i) (labels.getD i 0)))
    (A' := fun i => if i = i0 then
      Spec.softmaxFn c (s i0) k - (if labels.getD i0 0 = k then 1 else 0) else 0) (x := s i0 k)
    (by
      intro i _
      by_cases h : i = i0
      · subst h
        simp only [if_true, updRow_self]
        exact ce_row_hasDerivAt c (s i) (labels.getD i 0) k (hlab i hi) hk
      · simp only [if_neg h, updRow_of_ne s i0 k _ h]
        exact hasDerivAt_const _ _)
  refine h.congr_deriv ?_
  rw [Finset.sum_ite_eq']
  simp only [mem_range, hi, if_true]
  unfold Spec.ceGradient
  simp only [mk'_r, mk'_c]
  rw [get_mk'_of_lt _ hi hk, softmaxFn_congr c _ (s i0) (get_row_eq n c s i0 hi) k hk]

/-- one term of the binary cross-entropy: `−log σ(x)` for a positive target, `−log(1 − σ(x))` otherwise -/
noncomputable def bceTerm (x : ℝ) (target : Bool) : ℝ :=
  if target then - Real.log (Real.sigmoid x) else - Real.log (1 - Real.sigmoid x)

/-- the target of channel `k` of sample `i`: `label > 0` with one channel, `label = k` with several -/
def bceTarget (c : Nat) (labels : List Nat) (i k : Nat) : Bool :=
  if c = 1 then decide (labels.getD i 0 > 0) else decide (labels.getD i 0 = k)

theorem bceTerm_hasDerivAt (x : ℝ) (target : Bool) :
    HasDerivAt (fun t => bceTerm t target) (Real.sigmoid x - (if target then 1 else 0)) x := by
  cases target with
  | true =>
    simp only [bceTerm, if_true]
    exact bce_pos_hasDerivAt x
  | false =>
    simp only [bceTerm, Bool.false_eq_true, if_false, sub_zero]
    exact bce_neg_hasDerivAt x

theorem n_mul_bceLoss (n c : Nat) (f : Nat → Nat → ℝ) (labels : List Nat) (hn : 0 < n) :
    (n : ℝ) * Spec.bceLoss (mk' n c f) labels =
      ∑ i ∈ range n, ∑ k ∈ range c, bceTerm (f i k) (bceTarget c labels i k) := by
  unfold Spec.bceLoss
  simp only [mk'_r, mk'_c, num_nat, num_log]
  have hn' : (n : ℝ) ≠ 0 := Nat.cast_ne_zero.mpr (Nat.pos_iff_ne_zero.mp hn)
  rw [mul_div_cancel₀ _ hn', sumTo_eq]
  apply Finset.sum_congr rfl
  intro i hi
  rw [sumTo_eq]
  apply Finset.sum_congr rfl
  intro k hk
  rw [sigmoid_spec_eq, get_mk'_of_lt f (mem_range.mp hi) (mem_range.mp hk)]
  unfold bceTerm bceTarget
  by_cases hc : c = 1
  · simp only [hc, if_true]
  · simp only [hc, if_false]

/-- **`BinaryCrossEntropy.loss_gradient` (repaired) is `n ·` the derivative of the mean loss**: for every entry
`(i0, k0)`, `∂/∂ signal[i0, k0] (n · mean binary cross-entropy) = σ(signal[i0, k0]) − target(i0, k0)`, the target
being `label > 0` with one channel and `label = k0` with several. -/
theorem bceLoss_hasDerivAt (n c : Nat) (s : Nat → Nat → ℝ) (labels : List Nat) (hn : 0 < n)
    (i0 k0 : Nat) (hi : i0 < n) (hk : k0 < c) :
    HasDerivAt (fun t => (n : ℝ) * Spec.bceLoss (mk' n c (updRow s i0 k0 t)) labels)
      ((Spec.bceGradient (mk' n c s) labels).get i0 k0) (s i0 k0) := by
  have hfun : (fun t => (n : ℝ) * Spec.bceLoss (mk' n c (updRow s i0 k0 t)) labels) =
      fun t => ∑ i ∈ range n, ∑ k ∈ range c, bceTerm (updRow s i0 k0 t i k) (bceTarget c labels i k) := by
    funext t
    exact n_mul_bceLoss n c _ labels hn
  rw [hfun]
  have hinner : HasDerivAt (fun t => ∑ k ∈ range c, bceTerm (Function.update (s i0) k0 t k) (bceTarget c labels i0 k))
      (∑ k ∈ range c, if k = k0 then
        Real.sigmoid (s i0 k0) - (if bceTarget c labels i0 k0 then 1 else 0) else 0) (s i0 k0) := by
    apply HasDerivAt.fun_sum
    intro k _
    by_cases h : k = k0
    · subst h
      simp only [if_true, Function.update_self]
      exact bceTerm_hasDerivAt (s i0 k) _
    · simp only [if_neg h, Function.update_of_ne h]
      exact hasDerivAt_const _ _
  have h := HasDerivAt.fun_sum (u := range n)
    (A := fun i t => ∑ k ∈ range c, bceTerm (updRow s i0 k0 t i k) (bceTarget c labels i k))
    (A' := fun i => if i = i0 then ∑ k ∈ range c, (if k = k0 then
        Real.sigmoid (s i0 k0) - (if bceTarget c labels i0 k0 then 1 else 0) else 0) else 0) (x := s i0 k0)
    (by
      intro i _
      by_cases h : i = i0
      · subst h
        simp only [if_true, updRow_self]
        exact hinner
      · simp only [if_neg h, updRow_of_ne s i0 k0 _ h]
        exact hasDerivAt_const _ _)
  refine h.congr_deriv ?_
  rw [Finset.sum_ite_eq', Finset.sum_ite_eq']
  simp only [mem_range, hi, hk, if_true]
  unfold Spec.bceGradient
  simp only [mk'_r, mk'_c]
  rw [get_mk'_of_lt _ hi hk, sigmoid_spec_eq, get_mk'_of_lt s hi hk]
  congr 1
  unfold bceTarget
  by_cases hc : c = 1
  · simp only [hc, if_true, decide_eq_true_eq]
  · simp only [hc, if_false, decide_eq_true_eq]

end SkNet.Gnn
