/-
`vote_update` (repaired kernel) stays within its buffers (property C17): the checked model
`SkNet/Model/KernelsVote.lean` never fails on a well-formed square CSR matrix, a label vector of `n` cells and an
update index of nodes, and returns what the unchecked model of C13 returns.

The points that matter (the shape of defect F2): `data` is read at the edge position `j` (not at the node `jj`);
the two scratch vectors are filled in lockstep and read below their common size; `votes` has
`n_labels = max(labels) + 1` cells and is only ever indexed by labels that occur in `labels`, a set that a sweep
never enlarges.
-/
import SkNet.Model.KernelsVote
import SkNet.Lemmas.KernelsHeap
import SkNet.Lemmas.Vote

set_option linter.unusedSimpArgs false

namespace SkNet.KVote
open SkNet SkNet.Vote
open SkNet.KHeap (KErr ok_bind pure_eq_ok)

theorem rdL_ok {l : List Int} {i : Nat} (h : i < l.length) : rdL l i = .ok (l.getD i (-1)) := by simp [rdL, h]
theorem rdR_ok {l : List Rat} {i : Nat} (h : i < l.length) : rdR l i = .ok (l.getD i 0) := by simp [rdR, h]
theorem rdA_ok {a : Array Nat} {i : Nat} (h : i < a.size) : rdA a i = .ok (a.getD i 0) := by simp [rdA, h]
theorem rdAR_ok {a : Array Rat} {i : Nat} (h : i < a.size) : rdAR a i = .ok (a.getD i 0) := by simp [rdAR, h]

/-- what `vote_update` may assume of the CSR arrays: `n + 1` row pointers, rows ending inside `indices`,
    one weight per stored index, column indices `< n` -/
structure CsrOK (c : Csr Rat) (n : Nat) : Prop where
  lenPtr : c.indptr.size = n + 1
  rowEnd : ∀ i, i < n → c.indptr.getD (i + 1) 0 ≤ c.indices.size
  lenData : c.data.size = c.indices.size
  colLt : ∀ p, p < c.indices.size → c.indices.getD p 0 < n

/-- every label that is `≥ 0` is an index of `votes` -/
def InR (labels : List Int) (K : Nat) : Prop := ∀ x ∈ labels, 0 ≤ x → x.toNat < K

theorem getD_mem_labels {l : List Int} {i : Nat} (h : i < l.length) : l.getD i (-1) ∈ l := by
  rw [List.getD_eq_getElem?_getD, List.getElem?_eq_getElem h]
  simp

/-! ### first loop -/

theorem neighLoop?_ok {c : Csr Rat} {n : Nat} (hc : CsrOK c n) (labels : List Int) (hl : labels.length = n) :
    ∀ ps : List Nat, (∀ p ∈ ps, p < c.indices.size) →
      neighLoop? c labels ps =
        .ok (ps.map fun p => (labels.getD (c.indices.getD p 0) (-1), c.data.getD p 0)) := by
  intro ps
  induction ps with
  | nil => intro _; rfl
  | cons p ps ih =>
    intro h
    have hp := h p (List.mem_cons_self ..)
    simp only [neighLoop?]
    rw [rdA_ok hp]; simp only [ok_bind, pure_bind]
    rw [rdL_ok (by rw [hl]; exact hc.colLt p hp)]; simp only [ok_bind, pure_bind]
    rw [rdAR_ok (by rw [hc.lenData]; exact hp)]; simp only [ok_bind, pure_bind]
    rw [ih (fun q hq => h q (List.mem_cons_of_mem _ hq))]; simp only [ok_bind, pure_bind]
    rfl

theorem neigh?_ok {c : Csr Rat} {n : Nat} (hc : CsrOK c n) (labels : List Int) (hl : labels.length = n)
    {i : Nat} (hi : i < n) : neigh? c labels i = .ok (neigh c labels i) := by
  unfold neigh?
  rw [rdA_ok (by rw [hc.lenPtr]; omega)]; simp only [ok_bind, pure_bind]
  rw [rdA_ok (by rw [hc.lenPtr]; omega)]; simp only [ok_bind, pure_bind]
  rw [neighLoop?_ok hc labels hl]
  · rfl
  · intro p hp
    simp only [List.mem_map, List.mem_range] at hp
    obtain ⟨t, ht, rfl⟩ := hp
    have := hc.rowEnd i hi
    omega

/-- the labels of the neighbours come from the label vector -/
theorem neigh_fst_mem {c : Csr Rat} {n : Nat} (hc : CsrOK c n) (labels : List Int) (hl : labels.length = n)
    {i : Nat} (hi : i < n) : ∀ q ∈ neigh c labels i, q.1 ∈ labels := by
  intro q hq
  simp only [neigh, Csr.rowRange, List.mem_map, List.mem_range] at hq
  obtain ⟨p, ⟨t, ht, rfl⟩, rfl⟩ := hq
  apply getD_mem_labels
  rw [hl]
  apply hc.colLt
  have := hc.rowEnd i hi
  omega

/-! ### second loop: the scratch vectors are read below their common size, `votes` at a label -/

theorem getD_append_map_fst (pre ps : List (Int × Rat)) (x : Int × Rat) :
    ((pre ++ x :: ps).map (·.1)).getD pre.length (-1) = x.1 := by
  simp [List.getD_eq_getElem?_getD, List.getElem?_append_right]

theorem getD_append_map_snd (pre ps : List (Int × Rat)) (x : Int × Rat) :
    ((pre ++ x :: ps).map (·.2)).getD pre.length 0 = x.2 := by
  simp [List.getD_eq_getElem?_getD, List.getElem?_append_right]

theorem accFrom?_ok (K : Nat) :
    ∀ (ps pre : List (Int × Rat)) (a : Acc), a.votes.length = K → (∀ q ∈ ps, 0 ≤ q.1 → q.1.toNat < K) →
      accFrom? ((pre ++ ps).map (·.1)) ((pre ++ ps).map (·.2)) ps.length pre.length a = .ok (ps.foldl accStep a) := by
  intro ps
  induction ps with
  | nil => intro pre a _ _; rfl
  | cons x ps ih =>
    intro pre a ha hps
    have hlen1 : pre.length < ((pre ++ x :: ps).map (·.1)).length := by simp
    have hlen2 : pre.length < ((pre ++ x :: ps).map (·.2)).length := by simp
    have hrec := ih (pre ++ [x]) (accStep a x) (by
      unfold accStep; split <;> simp [ha]) (fun q hq => hps q (List.mem_cons_of_mem _ hq))
    simp only [List.append_assoc, List.singleton_append, List.length_append, List.length_singleton] at hrec
    simp only [List.length_cons, accFrom?, List.foldl_cons]
    rw [rdL_ok hlen1, getD_append_map_fst]; simp only [ok_bind, pure_bind]
    by_cases h0 : 0 ≤ x.1
    · have hx := hps x (List.mem_cons_self ..) h0
      rw [if_pos h0]
      rw [rdR_ok hlen2, getD_append_map_snd]; simp only [ok_bind, pure_bind]
      rw [rdR_ok (by rw [ha]; exact hx)]; simp only [ok_bind, pure_bind]
      have e : accStep a x = { uniq := setInsert x.1 a.uniq,
                               votes := a.votes.set x.1.toNat (a.votes.getD x.1.toNat 0 + x.2) } := by
        simp [accStep, h0]
      rw [← e]
      exact hrec
    · rw [if_neg h0]
      have e : accStep a x = a := by simp [accStep, h0]
      rw [e] at hrec ⊢
      exact hrec

/-! ### third loop -/

theorem selLoop?_ok (K : Nat) :
    ∀ (u : List Int) (s : Sel), s.votes.length = K → (∀ l ∈ u, 0 ≤ l ∧ l.toNat < K) →
      selLoop? u s = .ok (u.foldl selStep s) := by
  intro u
  induction u with
  | nil => intro s _ _; rfl
  | cons l ls ih =>
    intro s hs hu
    obtain ⟨h0, hl⟩ := hu l (List.mem_cons_self ..)
    simp only [selLoop?, List.foldl_cons]
    rw [if_pos h0]
    rw [rdR_ok (by rw [hs]; exact hl)]; simp only [ok_bind, pure_bind]
    exact ih _ (by simp [selStep, hs]) (fun x hx => hu x (List.mem_cons_of_mem _ hx))

/-! ### one node, the sweep, the kernel -/

/-- bounds invariant of the sweep: `votes` keeps its `K` cells, `labels` its `n` cells, and no label outside the
    initial ones `L0` ever appears -/
structure BInv (L0 : List Int) (K n : Nat) (st : St) : Prop where
  vlen : st.votes.length = K
  llen : st.labels.length = n
  sub : ∀ x ∈ st.labels, x ∈ L0

theorem selFold_label_mem (u : List Int) (s : Sel) : (u.foldl selStep s).label = s.label ∨ (u.foldl selStep s).label ∈ u := by
  induction u generalizing s with
  | nil => exact Or.inl rfl
  | cons x xs ih =>
    simp only [List.foldl_cons]
    rcases ih (selStep s x) with h | h
    · rw [h]
      simp only [selStep]
      split
      · exact Or.inr (List.mem_cons_self ..)
      · exact Or.inl rfl
    · exact Or.inr (List.mem_cons_of_mem _ h)

theorem voteNode?_ok {c : Csr Rat} {n : Nat} (hc : CsrOK c n) {L0 : List Int} {K : Nat} (hK : InR L0 K)
    {st : St} (inv : BInv L0 K n st) {i : Nat} (hi : i < n) :
    voteNode? c st i = .ok (voteNode c st i) ∧ BInv L0 K n (voteNode c st i) := by
  have hfst := neigh_fst_mem hc st.labels inv.llen hi
  have hacc : ∀ q ∈ neigh c st.labels i, 0 ≤ q.1 → q.1.toNat < K :=
    fun q hq h0 => hK q.1 (inv.sub _ (hfst q hq)) h0
  have huniq : ∀ l ∈ (accumulate (neigh c st.labels i) st.votes).uniq, 0 ≤ l ∧ l.toNat < K ∧ l ∈ st.labels := by
    intro l hl
    unfold accumulate at hl
    rw [accFold_uniq] at hl
    rcases hl with hl | ⟨h0, w, hw⟩
    · simp at hl
    · exact ⟨h0, hacc _ hw h0, hfst _ hw⟩
  have hvl : (accumulate (neigh c st.labels i) st.votes).votes.length = K := by
    unfold accumulate; rw [accFold_length]; exact inv.vlen
  refine ⟨?_, ?_⟩
  · unfold voteNode?
    rw [neigh?_ok hc st.labels inv.llen hi]; simp only [ok_bind, pure_bind]
    have := accFrom?_ok K (neigh c st.labels i) [] ⟨[], st.votes⟩ inv.vlen hacc
    simp only [List.nil_append, List.length_nil] at this
    rw [List.length_map, this]; simp only [ok_bind, pure_bind]
    rw [rdL_ok (by rw [inv.llen]; exact hi)]; simp only [ok_bind, pure_bind]
    have hA : List.foldl accStep ⟨[], st.votes⟩ (neigh c st.labels i) = accumulate (neigh c st.labels i) st.votes := rfl
    rw [hA]
    rw [selLoop?_ok K (accumulate (neigh c st.labels i) st.votes).uniq
      ⟨st.labels.getD i (-1), -1, (accumulate (neigh c st.labels i) st.votes).votes⟩ hvl
      (fun l hl => ⟨(huniq l hl).1, (huniq l hl).2.1⟩)]; simp only [ok_bind, pure_bind]
    rfl
  · refine ⟨?_, by rw [voteNode_labels]; simp [inv.llen], ?_⟩
    · show (select _ _ _).votes.length = K
      unfold select
      rw [selFold_length]
      exact hvl
    · intro x hx
      rw [voteNode_labels] at hx
      rcases List.mem_or_eq_of_mem_set hx with hx | rfl
      · exact inv.sub x hx
      · unfold chosen select
        rcases selFold_label_mem (accumulate (neigh c st.labels i) st.votes).uniq
            ⟨st.labels.getD i (-1), -1, (accumulate (neigh c st.labels i) st.votes).votes⟩ with h | h
        · rw [h]
          exact inv.sub _ (getD_mem_labels (by rw [inv.llen]; exact hi))
        · exact inv.sub _ (huniq _ h).2.2

theorem sweep?_ok {c : Csr Rat} {n : Nat} (hc : CsrOK c n) {L0 : List Int} {K : Nat} (hK : InR L0 K) :
    ∀ (index : List Nat) (st : St), BInv L0 K n st → (∀ i ∈ index, i < n) →
      sweep? c index st = .ok (sweep c st index) ∧ BInv L0 K n (sweep c st index) := by
  intro index
  induction index with
  | nil => intro st inv _; exact ⟨rfl, inv⟩
  | cons i is ih =>
    intro st inv hidx
    obtain ⟨e1, e2⟩ := voteNode?_ok hc hK inv (hidx i (List.mem_cons_self ..))
    obtain ⟨r1, r2⟩ := ih _ e2 (fun j hj => hidx j (List.mem_cons_of_mem _ hj))
    refine ⟨?_, by simpa [sweep] using r2⟩
    simp only [sweep?, sweep, List.foldl_cons]
    rw [e1]; simp only [ok_bind, pure_bind]
    exact r1

theorem nLabels_step_inR : ∀ (l : List Int) (m : Nat), (∀ x ∈ l, 0 ≤ x → x.toNat < l.foldl nLabelsStep m) ∧
    m ≤ l.foldl nLabelsStep m := by
  intro l
  induction l with
  | nil => intro m; exact ⟨by intro x hx; simp at hx, Nat.le_refl _⟩
  | cons a r ih =>
    intro m
    obtain ⟨h1, h2⟩ := ih (nLabelsStep m a)
    simp only [List.foldl_cons]
    refine ⟨?_, ?_⟩
    · intro x hx h0
      rcases List.mem_cons.mp hx with rfl | hx
      · have : x.toNat < nLabelsStep m x := by
          unfold nLabelsStep
          split <;> omega
        omega
      · exact h1 x hx h0
    · have : m ≤ nLabelsStep m a := by
        unfold nLabelsStep
        split <;> omega
      omega

/-- `votes` is sized by the largest label -/
theorem nLabels_inR (labels : List Int) : InR labels (nLabels labels) :=
  (nLabels_step_inR labels 0).1

/-- **`vote_update` stays within its buffers**: on a well-formed square CSR matrix, with `n` labels and an update
    index of nodes, the checked model returns — no access outside `indptr`, `indices`, `data`, `labels`, the two
    scratch vectors or `votes` — and it returns what the unchecked model of C13 returns. -/
theorem voteUpdate?_ok {c : Csr Rat} {n : Nat} (hc : CsrOK c n) (labels : List Int) (hl : labels.length = n)
    (index : List Nat) (hidx : ∀ i ∈ index, i < n) :
    voteUpdate? c labels index = .ok (voteUpdate c labels index) := by
  obtain ⟨e1, _⟩ := sweep?_ok hc (nLabels_inR labels) index ⟨labels, List.replicate (nLabels labels) 0⟩
    ⟨by simp, hl, fun _ hx => hx⟩ hidx
  unfold voteUpdate? voteUpdate
  rw [e1]
  rfl

/-! ### the shared well-formedness predicate implies what the kernels assume -/

theorem wf_mono (a : Array Nat) (n : Nat)
    (h : ∀ i, i < n → a.getD i 0 ≤ a.getD (i + 1) 0) : ∀ j, j ≤ n → ∀ i, i ≤ j → a.getD i 0 ≤ a.getD j 0 := by
  intro j
  induction j with
  | zero => intro _ i hi; have : i = 0 := by omega
            subst this; exact Nat.le_refl _
  | succ j ih =>
    intro hj i hi
    by_cases e : i = j + 1
    · subst e; exact Nat.le_refl _
    · exact Nat.le_trans (ih (by omega) i (by omega)) (h j (by omega))

/-- `Csr.WF` (what scipy guarantees of a constructed matrix) on a square matrix gives `CsrOK` -/
theorem csrOK_of_wf (c : Csr Rat) (h : c.WF = true) (hsq : c.nRow = c.nCol) : CsrOK c c.nRow := by
  simp only [Csr.WF, Bool.and_eq_true, beq_iff_eq, List.all_eq_true, List.mem_range, decide_eq_true_eq,
    Array.all_eq_true] at h
  obtain ⟨⟨⟨⟨⟨h1, _⟩, h3⟩, h4⟩, h5⟩, h6⟩ := h
  refine ⟨h1, ?_, h4.symm, ?_⟩
  · intro i hi
    rw [← h3]
    exact wf_mono c.indptr c.nRow h5 c.nRow (Nat.le_refl _) (i + 1) (by omega)
  · intro p hp
    have := h6 p hp
    rw [hsq]
    simpa [Array.getD, hp] using this

/-! ### the C `int` bound of `n_labels = labels[i] + 1` -/

/-- two's-complement wrap of a C `int` -/
def wrap32 (z : Int) : Int := (z + 2 ^ 31) % 2 ^ 32 - 2 ^ 31

theorem nLabels_step_lt : ∀ (l : List Int) (m : Nat), (m : Int) < 2 ^ 31 → (∀ x ∈ l, x < 2 ^ 31 - 1) →
    ((l.foldl nLabelsStep m : Nat) : Int) < 2 ^ 31 := by
  intro l
  induction l with
  | nil => intro m hm _; exact hm
  | cons a r ih =>
    intro m hm hl
    simp only [List.foldl_cons]
    apply ih
    · unfold nLabelsStep
      have ha := hl a (List.mem_cons_self ..)
      split
      · rename_i h
        have : 0 ≤ a + 1 := by omega
        rw [Int.toNat_of_nonneg this]
        omega
      · exact hm
    · intro x hx; exact hl x (List.mem_cons_of_mem _ hx)

/-- with all labels below `INT32_MAX` the size of `votes` is a C `int` (no wrap in `labels[i] + 1`) -/
theorem nLabels_lt_int32 (labels : List Int) (h : ∀ l ∈ labels, l < 2 ^ 31 - 1) : (nLabels labels : Int) < 2 ^ 31 := by
  unfold nLabels
  exact nLabels_step_lt labels 0 (by decide) h

end SkNet.KVote
