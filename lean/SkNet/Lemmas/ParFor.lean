/-
Lemmas about the parallel-loop semantics of `SkNet/Model/ParFor.lean` (core only, no Mathlib):
the interleaving invariant, `raceFree_sound`, completeness of the sequential schedule, soundness of the
descriptor check, the lost-update witness.
-/
import SkNet.Model.ParFor

namespace SkNet.ParFor

/-- The interleaving invariant: registers of every iteration, and memory on the footprint of every iteration,
    are what that iteration would have produced running alone from the initial memory. -/
structure PInv (prog : Nat → List Ev) (m0 : Mem) (c : Cfg) : Prop where
  regs : ∀ t, c.regs t = (solo (prog t) m0 (c.pc t)).2
  foot : ∀ t l, touches (prog t) l → c.mem l = (solo (prog t) m0 (c.pc t)).1 l
  rest : ∀ l, (∀ t, ¬ writes (prog t) l) → c.mem l = m0 l

theorem inv_init (prog) (m0 : Mem) : PInv prog m0 (Cfg.init m0) :=
  ⟨fun _ => rfl, fun _ _ _ => rfl, fun _ _ => rfl⟩

theorem inv_step (prog) (hrf : RaceFree prog) (m0 : Mem) (c : Cfg) (h : PInv prog m0 c) (t : Nat) :
    PInv prog m0 (step prog c t) := by
  unfold step
  cases he : (prog t)[c.pc t]? with
  | none => simpa using h
  | some e =>
    have hmem : e ∈ prog t := List.mem_of_getElem? he
    have hsolo : solo (prog t) m0 (c.pc t + 1)
        = execEv e (solo (prog t) m0 (c.pc t)).1 (solo (prog t) m0 (c.pc t)).2 := by
      simp [solo, he]
    cases e with
    | load l =>
      have htl : touches (prog t) l := ⟨_, hmem, rfl⟩
      simp only [execEv]
      refine ⟨?_, ?_, ?_⟩
      · intro u
        by_cases hu : u = t
        · subst hu; simp [upd, hsolo, execEv, h.regs u, h.foot u l htl]
        · simp [upd, hu, h.regs u]
      · intro u l' hl'
        by_cases hu : u = t
        · subst hu; simp [upd, hsolo, execEv, h.foot u l' hl']
        · simp [upd, hu, h.foot u l' hl']
      · exact h.rest
    | store l f =>
      have hwl : writes (prog t) l := ⟨_, hmem, rfl, rfl⟩
      simp only [execEv]
      refine ⟨?_, ?_, ?_⟩
      · intro u
        by_cases hu : u = t
        · subst hu; simp [upd, hsolo, execEv, h.regs u]
        · simp [upd, hu, h.regs u]
      · intro u l' hl'
        by_cases hu : u = t
        · subst hu
          simp only [upd, hsolo, execEv, if_true]
          by_cases hll : l' = l
          · simp [hll, h.regs u]
          · simp [hll, h.foot u l' hl']
        · have hne : l' ≠ l := by
            intro hll; subst hll
            exact hrf t u l' (fun e => hu e.symm) hwl hl'
          simp [upd, hu, hne, h.foot u l' hl']
      · intro l' hl'
        have hne : l' ≠ l := by
          intro hll; subst hll; exact hl' t hwl
        simp [upd, hne, h.rest l' hl']

theorem inv_run (prog) (hrf : RaceFree prog) (m0 : Mem) (s : List Nat) (c : Cfg) (h : PInv prog m0 c) :
    PInv prog m0 (run prog c s) := by
  induction s generalizing c with
  | nil => exact h
  | cons t s ih => exact ih _ (inv_step prog hrf m0 c h t)

/-- Two schedules that advanced every iteration equally far end in the same memory, everywhere. -/
theorem raceFree_mem_eq (prog) (hrf : RaceFree prog) (m0 : Mem) (s₁ s₂ : List Nat)
    (hpc : ∀ t, (run prog (Cfg.init m0) s₁).pc t = (run prog (Cfg.init m0) s₂).pc t) (l : Loc) :
    (run prog (Cfg.init m0) s₁).mem l = (run prog (Cfg.init m0) s₂).mem l := by
  have i₁ := inv_run prog hrf m0 s₁ _ (inv_init prog m0)
  have i₂ := inv_run prog hrf m0 s₂ _ (inv_init prog m0)
  by_cases hw : ∃ t, writes (prog t) l
  · obtain ⟨t, e, he, _, hl⟩ := hw
    have ht : touches (prog t) l := ⟨e, he, hl⟩
    rw [i₁.foot t l ht, i₂.foot t l ht, hpc t]
  · have hn : ∀ t, ¬ writes (prog t) l := fun t h => hw ⟨t, h⟩
    rw [i₁.rest l hn, i₂.rest l hn]

/-! ### program counters -/

theorem step_pc_self (prog) (c : Cfg) (t : Nat) :
    (step prog c t).pc t = if c.pc t < (prog t).length then c.pc t + 1 else c.pc t := by
  unfold step
  cases he : (prog t)[c.pc t]? with
  | none =>
    have : ¬ c.pc t < (prog t).length := by
      intro hlt
      have := List.getElem?_eq_getElem hlt
      rw [this] at he; cases he
    simp [this]
  | some e =>
    have hlt : c.pc t < (prog t).length := by
      rcases Nat.lt_or_ge (c.pc t) (prog t).length with h | h
      · exact h
      · rw [List.getElem?_eq_none h] at he; cases he
    simp [upd, hlt]

theorem step_pc_other (prog) (c : Cfg) (t u : Nat) (h : u ≠ t) : (step prog c t).pc u = c.pc u := by
  unfold step
  cases (prog t)[c.pc t]? with
  | none => rfl
  | some e => simp [upd, h]

theorem step_pc_le (prog) (c : Cfg) (t : Nat) (h : ∀ u, c.pc u ≤ (prog u).length) :
    ∀ u, (step prog c t).pc u ≤ (prog u).length := by
  intro u
  by_cases hu : u = t
  · subst hu
    rw [step_pc_self]
    split
    · omega
    · exact h u
  · rw [step_pc_other prog c t u hu]; exact h u

theorem run_pc_le (prog) (s : List Nat) (c : Cfg) (h : ∀ u, c.pc u ≤ (prog u).length) :
    ∀ u, (run prog c s).pc u ≤ (prog u).length := by
  induction s generalizing c with
  | nil => exact h
  | cons t s ih => exact ih _ (step_pc_le prog c t h)

theorem run_append (prog) (c : Cfg) (s₁ s₂ : List Nat) :
    run prog c (s₁ ++ s₂) = run prog (run prog c s₁) s₂ := by
  simp [run, List.foldl_append]

/-- letting iteration `t` step `k` times -/
theorem run_replicate_pc_self (prog) (t : Nat) (k : Nat) (c : Cfg) :
    (run prog c (List.replicate k t)).pc t = min (c.pc t + k) (max (c.pc t) (prog t).length) := by
  induction k generalizing c with
  | zero => simp [run]; omega
  | succ k ih =>
    have : run prog c (List.replicate (k+1) t) = run prog (step prog c t) (List.replicate k t) := by
      simp [run, List.replicate_succ]
    rw [this, ih, step_pc_self]
    split <;> omega

theorem run_replicate_pc_other (prog) (t u : Nat) (h : u ≠ t) (k : Nat) (c : Cfg) :
    (run prog c (List.replicate k t)).pc u = c.pc u := by
  induction k generalizing c with
  | zero => simp [run]
  | succ k ih =>
    have : run prog c (List.replicate (k+1) t) = run prog (step prog c t) (List.replicate k t) := by
      simp [run, List.replicate_succ]
    rw [this, ih, step_pc_other prog c t u h]

theorem seqSched_succ (prog) (n : Nat) :
    seqSched prog (n+1) = seqSched prog n ++ List.replicate (prog n).length n := by
  simp [seqSched, List.range_succ, List.flatMap_append]

/-- after the sequential schedule of `n` iterations: the first `n` are finished, the others untouched -/
theorem seqSched_pc (prog) (m0 : Mem) (n : Nat) :
    ∀ t, (run prog (Cfg.init m0) (seqSched prog n)).pc t = if t < n then (prog t).length else 0 := by
  induction n with
  | zero => intro t; simp [seqSched, run, Cfg.init]
  | succ n ih =>
    intro t
    rw [seqSched_succ, run_append]
    by_cases ht : t = n
    · subst ht
      rw [run_replicate_pc_self, ih]
      simp
    · rw [run_replicate_pc_other prog n t ht, ih]
      by_cases h1 : t < n
      · simp [h1, Nat.lt_succ_of_lt h1]
      · have : ¬ t < n + 1 := by omega
        simp [h1, this]

theorem seqSched_complete (prog) (m0 : Mem) (n : Nat) :
    Complete prog n (run prog (Cfg.init m0) (seqSched prog n)) := by
  intro t ht
  rw [seqSched_pc]; simp [ht]

/-! ### soundness of the descriptor check -/

theorem storeOff_of_mem (l : Loop) (arr : String) (k : Nat) (h : l.storeOff arr = some k) :
    Acc.store arr (.own k) ∈ l.accs := by
  unfold Loop.storeOff at h
  obtain ⟨a, ha, hk⟩ := List.exists_of_findSome?_eq_some h
  cases a with
  | store arr' i =>
    cases i with
    | own k' =>
      simp only at hk
      split at hk
      · rename_i heq
        cases hk; subst heq; exact ha
      · cases hk
    | fixed _ => cases hk
    | indirect _ => cases hk
  | _ => cases hk

theorem mem_storedArrays (l : Loop) (arr : String) (i : Idx) (h : Acc.store arr i ∈ l.accs) :
    arr ∈ l.storedArrays := by
  unfold Loop.storedArrays
  rw [List.mem_filterMap]
  exact ⟨_, h, rfl⟩

/-- A store event of a conforming loop whose descriptor passes the check is at `(arr, i + k)` where `k` is the
    array's store offset. -/
theorem store_event_own (l : Loop) (hl : l.raceFree = true) (fx) (i : Nat) (a : Acc) (ha : a ∈ l.accs)
    (loc : Loc) (f) (hc : Conforms fx i a (.store loc f)) :
    ∃ k, l.storeOff loc.1 = some k ∧ loc = (loc.1, i + k) := by
  have hok : l.siteOk a = true := by
    unfold Loop.raceFree at hl
    exact List.all_eq_true.mp hl a ha
  cases a with
  | store arr idx =>
    simp only [Loop.siteOk] at hok
    cases hso : l.storeOff arr with
    | none => simp [hso] at hok
    | some k =>
      simp only [hso, beq_iff_eq] at hok
      subst hok
      simp only [Conforms] at hc
      subst hc
      exact ⟨k, hso, rfl⟩
  | load arr idx => cases idx <;> simp [Conforms] at hc
  | priv _ => simp [Conforms] at hc
  | reduction _ _ _ => simp [Conforms] at hc
  | method _ _ _ => simp [Conforms] at hc
  | call _ _ => simp [Conforms] at hc
  | unknown _ => simp [Conforms] at hc

/-- Any event of a conforming loop (checked descriptor) on an array that the loop stores to is at `(arr, i + k)`. -/
theorem event_on_stored_own (l : Loop) (hl : l.raceFree = true) (fx) (i : Nat) (a : Acc) (ha : a ∈ l.accs)
    (e : Ev) (hc : Conforms fx i a e) (k : Nat) (hso : l.storeOff e.loc.1 = some k) :
    e.loc = (e.loc.1, i + k) := by
  have hok : l.siteOk a = true := by
    unfold Loop.raceFree at hl
    exact List.all_eq_true.mp hl a ha
  have hstored : e.loc.1 ∈ l.storedArrays := mem_storedArrays l _ _ (storeOff_of_mem l _ k hso)
  cases e with
  | store loc f =>
    obtain ⟨k', hk', hloc⟩ := store_event_own l hl fx i a ha loc f hc
    simp only [Ev.loc] at hso ⊢
    rw [hso] at hk'; cases hk'; exact hloc
  | load loc =>
    simp only [Ev.loc] at hso hstored ⊢
    cases a with
    | load arr idx =>
      have harr : loc.1 = arr := by
        cases idx <;> simp only [Conforms] at hc
        · rw [hc]
        · rw [hc]
        · exact hc
      subst harr
      simp only [Loop.siteOk, hso] at hok
      have hcont : l.storedArrays.contains loc.1 = true := by
        simpa [List.contains_iff_mem] using hstored
      simp only [hcont, Bool.not_true, Bool.false_or, beq_iff_eq] at hok
      subst hok
      simp only [Conforms] at hc
      rw [hc]
    | store arr idx => cases idx <;> simp [Conforms] at hc
    | priv _ => simp [Conforms] at hc
    | reduction _ _ _ => simp [Conforms] at hc
    | method _ _ _ => simp [Conforms] at hc
    | call _ _ => simp [Conforms] at hc
    | unknown _ => simp [Conforms] at hc

/-- **Soundness of the descriptor check.** -/
theorem desc_raceFree (l : Loop) (hl : l.raceFree = true) (fx : String → Nat) (prog : Nat → List Ev)
    (hconf : ConformsTo l fx prog) : RaceFree prog := by
  intro t u loc htu hw ht
  obtain ⟨e, he, hst, hloc⟩ := hw
  obtain ⟨e', he', hloc'⟩ := ht
  obtain ⟨a, ha, hc⟩ := hconf t e he
  obtain ⟨a', ha', hc'⟩ := hconf u e' he'
  cases e with
  | load _ => simp [Ev.isStore] at hst
  | store sl f =>
    simp only [Ev.loc] at hloc
    subst hloc
    obtain ⟨k, hso, hsl⟩ := store_event_own l hl fx t a ha sl f hc
    have h2 := event_on_stored_own l hl fx u a' ha' e' hc' k (by rw [hloc']; exact hso)
    rw [hloc'] at h2
    rw [hsl] at h2
    have : t + k = u + k := by
      have := congrArg Prod.snd h2
      simpa using this
    omega

/-! ### the lost update -/

theorem lostUpdate_outcomes :
    (run lostUpdateProg (Cfg.init fun _ => 0) [0, 0, 1, 1]).mem ("fluid", 0) = 2 ∧
    (run lostUpdateProg (Cfg.init fun _ => 0) [0, 1, 0, 1]).mem ("fluid", 0) = 1 := by decide

theorem lostUpdate_not_raceFree : ¬ RaceFree lostUpdateProg := by
  intro h
  exact h 0 1 ("fluid", 0) (by decide)
    ⟨.store ("fluid", 0) (addF 1), by simp [lostUpdateProg], rfl, rfl⟩
    ⟨.load ("fluid", 0), by simp [lostUpdateProg], rfl⟩


/-! ### the executable race check coincides with `RaceFree` on a finite loop -/

theorem raceFreeB_of_raceFree (prog : Nat → List Ev) (n : Nat) (h : RaceFree prog) : raceFreeB prog n = true := by
  unfold raceFreeB
  simp only [List.all_eq_true, List.mem_range, Bool.or_eq_true, beq_iff_eq, Bool.not_eq_true', bne_iff_ne]
  intro t _ u _
  by_cases htu : t = u
  · exact Or.inl htu
  · right
    intro e he
    cases hs : e.isStore with
    | false => exact Or.inl rfl
    | true =>
      right
      intro e' he' heq
      exact h t u e.loc htu ⟨e, he, hs, rfl⟩ ⟨e', he', heq⟩

theorem raceFree_of_raceFreeB (prog : Nat → List Ev) (n : Nat) (hn : ∀ t, n ≤ t → prog t = [])
    (h : raceFreeB prog n = true) : RaceFree prog := by
  unfold raceFreeB at h
  simp only [List.all_eq_true, List.mem_range, Bool.or_eq_true, beq_iff_eq, Bool.not_eq_true', bne_iff_ne] at h
  intro t u l htu hw ht
  obtain ⟨e, he, hst, hl⟩ := hw
  obtain ⟨e', he', hl'⟩ := ht
  have htn : t < n := by
    rcases Nat.lt_or_ge t n with h1 | h1
    · exact h1
    · rw [hn t h1] at he; cases he
  have hun : u < n := by
    rcases Nat.lt_or_ge u n with h1 | h1
    · exact h1
    · rw [hn u h1] at he'; cases he'
  rcases h t htn u hun with h1 | h1
  · exact htu h1
  · rcases h1 e he with h2 | h2
    · rw [hst] at h2; cases h2
    · exact h2 e' he' (by rw [hl', hl])

/-! ### registers: what an iteration computed does not depend on the schedule either -/

theorem raceFree_regs_eq (prog) (hrf : RaceFree prog) (m0 : Mem) (s₁ s₂ : List Nat) (t : Nat)
    (hpc : (run prog (Cfg.init m0) s₁).pc t = (run prog (Cfg.init m0) s₂).pc t) :
    (run prog (Cfg.init m0) s₁).regs t = (run prog (Cfg.init m0) s₂).regs t := by
  have i₁ := inv_run prog hrf m0 s₁ _ (inv_init prog m0)
  have i₂ := inv_run prog hrf m0 s₂ _ (inv_init prog m0)
  rw [i₁.regs t, i₂.regs t, hpc]

/-! ### an in-place update through an indirect index is a lost update waiting to happen -/

/-- two iterations executing `arr[0] += 1` -/
def lostUpdateOn (arr : String) : Nat → List Ev := fun t =>
  if t < 2 then [.load (arr, 0), .store (arr, 0) (addF 1)] else []

theorem lostUpdateOn_outcomes (arr : String) :
    (run (lostUpdateOn arr) (Cfg.init fun _ => 0) [0, 0, 1, 1]).mem (arr, 0) = 2 ∧
    (run (lostUpdateOn arr) (Cfg.init fun _ => 0) [0, 1, 0, 1]).mem (arr, 0) = 1 := by
  constructor <;>
    simp [run, step, lostUpdateOn, execEv, upd, Cfg.init, addF]

theorem lostUpdateOn_complete (arr : String) (s : List Nat) (hs : s = [0, 0, 1, 1] ∨ s = [0, 1, 0, 1]) :
    Complete (lostUpdateOn arr) 2 (run (lostUpdateOn arr) (Cfg.init fun _ => 0) s) := by
  intro t ht
  have : t = 0 ∨ t = 1 := by omega
  rcases hs with rfl | rfl <;> rcases this with rfl | rfl <;>
    simp [run, step, lostUpdateOn, execEv, upd, Cfg.init]

/-! ### folds -/

theorem foldl_add_eq (init : Int) (xs : List Int) : xs.foldl (· + ·) init = init + xs.foldl (· + ·) 0 := by
  induction xs generalizing init with
  | nil => simp
  | cons x xs ih =>
    simp only [List.foldl_cons]
    rw [ih (init + x), ih (0 + x)]
    omega

end SkNet.ParFor

namespace SkNet.ParFor

/-! ### tightness of the descriptor check: a rejected access pattern has a racy instance -/

/-- element `c` is one that index class `idx` may denote at iteration `i` -/
def instAt (fx : String → Nat) (i : Nat) (idx : Idx) (c : Nat) : Prop :=
  match idx with
  | .own k => c = i + k
  | .fixed x => c = fx x
  | .indirect _ => True

theorem conforms_load (fx) (i : Nat) (arr : String) (idx : Idx) (c : Nat) (h : instAt fx i idx c) :
    Conforms fx i (.load arr idx) (.load (arr, c)) := by
  cases idx <;> simp_all [Conforms, instAt]

theorem conforms_store (fx) (i : Nat) (arr : String) (idx : Idx) (c : Nat) (f) (h : instAt fx i idx c) :
    Conforms fx i (.store arr idx) (.store (arr, c) f) := by
  cases idx <;> simp_all [Conforms, instAt]

/-- Two index classes that are not "the loop variable plus the same constant" can denote the same element in two
    different iterations. -/
theorem exists_collision (ia ib : Idx) (h : ¬ ∃ k, ia = .own k ∧ ib = .own k) :
    ∃ (fx : String → Nat) (T U c : Nat), T ≠ U ∧ instAt fx T ia c ∧ instAt fx U ib c := by
  cases ia with
  | own k' =>
    cases ib with
    | own k =>
      have hne : k' ≠ k := fun e => h ⟨k, by rw [e], rfl⟩
      exact ⟨fun _ => 0, k, k', k + k', fun e => hne e.symm, by simp [instAt], by simp [instAt]; omega⟩
    | fixed x => exact ⟨fun _ => k', 0, 1, k', by decide, by simp [instAt], by simp [instAt]⟩
    | indirect x => exact ⟨fun _ => 0, 0, 1, k', by decide, by simp [instAt], by simp [instAt]⟩
  | fixed x' =>
    cases ib with
    | own k => exact ⟨fun _ => k + 1, 0, 1, k + 1, by decide, by simp [instAt], by simp [instAt]; omega⟩
    | fixed x => exact ⟨fun _ => 0, 0, 1, 0, by decide, by simp [instAt], by simp [instAt]⟩
    | indirect x => exact ⟨fun _ => 0, 0, 1, 0, by decide, by simp [instAt], by simp [instAt]⟩
  | indirect x' =>
    cases ib with
    | own k => exact ⟨fun _ => 0, 0, 1, 1 + k, by decide, by simp [instAt], by simp [instAt]⟩
    | fixed x => exact ⟨fun _ => 0, 0, 1, 0, by decide, by simp [instAt], by simp [instAt]⟩
    | indirect x => exact ⟨fun _ => 0, 0, 1, 0, by decide, by simp [instAt], by simp [instAt]⟩

/-- iteration `T` executes `eT`, iteration `U` executes `eU`, nothing else happens -/
def twoIter (T U : Nat) (eT eU : Ev) : Nat → List Ev :=
  fun i => if i = T then [eT] else if i = U then [eU] else []

theorem twoIter_conforms (l : Loop) (fx) (T U : Nat) (eT eU : Ev)
    (hT : ∃ a ∈ l.accs, Conforms fx T a eT) (hU : ∃ a ∈ l.accs, Conforms fx U a eU) :
    ConformsTo l fx (twoIter T U eT eU) := by
  intro i e he
  unfold twoIter at he
  split at he
  · rename_i h; subst h
    simp only [List.mem_cons, List.not_mem_nil, or_false] at he
    subst he; exact hT
  · split at he
    · rename_i h; subst h
      simp only [List.mem_cons, List.not_mem_nil, or_false] at he
      subst he; exact hU
    · simp at he

theorem twoIter_race (T U : Nat) (hTU : T ≠ U) (loc : Loc) (f) (eU : Ev) (hloc : eU.loc = loc) :
    ¬ RaceFree (twoIter T U (.store loc f) eU) := by
  intro h
  refine h T U loc hTU ⟨.store loc f, by simp [twoIter], rfl, rfl⟩ ⟨eU, ?_, hloc⟩
  have : U ≠ T := fun e => hTU e.symm
  simp [twoIter, this]

theorem twoIter_race' (T U : Nat) (hTU : T ≠ U) (loc : Loc) (f) (eT : Ev) (hloc : eT.loc = loc) :
    ¬ RaceFree (twoIter T U eT (.store loc f)) := by
  intro h
  have hUT : U ≠ T := fun e => hTU e.symm
  refine h U T loc hUT ⟨.store loc f, by simp [twoIter, hUT], rfl, rfl⟩ ⟨eT, by simp [twoIter], hloc⟩

theorem exists_store_of_stored (l : Loop) (arr : String) (h : arr ∈ l.storedArrays) :
    ∃ idx, Acc.store arr idx ∈ l.accs := by
  unfold Loop.storedArrays at h
  rw [List.mem_filterMap] at h
  obtain ⟨a, ha, hs⟩ := h
  cases a <;> simp at hs
  rename_i arr' idx
  subst hs
  exact ⟨idx, ha⟩

theorem storeOff_none_not_own (l : Loop) (arr : String) (k : Nat) (hn : l.storeOff arr = none)
    (h : Acc.store arr (.own k) ∈ l.accs) : False := by
  unfold Loop.storeOff at hn
  rw [List.findSome?_eq_none_iff] at hn
  have := hn _ h
  simp at this

end SkNet.ParFor

namespace SkNet.ParFor

theorem exists_bad_site (l : Loop) (h : l.raceFree = false) : ∃ a ∈ l.accs, l.siteOk a = false := by
  unfold Loop.raceFree at h
  rw [List.all_eq_false] at h
  obtain ⟨a, ha, hs⟩ := h
  exact ⟨a, ha, by simpa using hs⟩

/-- **Tightness of the descriptor check.** If a descriptor is rejected because of an array access (every site that
    is not an array access passes on its own), some loop conforming to it has a race. -/
theorem desc_raceFree_tight_aux (l : Loop) (hother : ∀ a ∈ l.accs, a.arr? = none → l.siteOk a = true)
    (h : l.raceFree = false) : ∃ (fx : String → Nat) (prog : Nat → List Ev), ConformsTo l fx prog ∧ ¬ RaceFree prog := by
  obtain ⟨a, ha, hbad⟩ := exists_bad_site l h
  cases a with
  | load arr i =>
    simp only [Loop.siteOk, Bool.or_eq_false_iff, Bool.not_eq_false'] at hbad
    obtain ⟨hst, hm⟩ := hbad
    have hstored : arr ∈ l.storedArrays := by simpa [List.contains_iff_mem] using hst
    cases hso : l.storeOff arr with
    | some k =>
      rw [hso] at hm
      have hne : i ≠ .own k := by simpa using hm
      have hb := storeOff_of_mem l arr k hso
      obtain ⟨fx, T, U, c, hTU, hiT, hiU⟩ := exists_collision i (.own k)
        (by rintro ⟨k0, h1, h2⟩; cases h2; exact hne h1)
      exact ⟨fx, twoIter T U (.load (arr, c)) (.store (arr, c) (fun _ => 0)),
        twoIter_conforms l fx T U _ _ ⟨_, ha, conforms_load fx T arr i c hiT⟩
          ⟨_, hb, conforms_store fx U arr (.own k) c _ hiU⟩,
        twoIter_race' T U hTU (arr, c) _ _ rfl⟩
    | none =>
      obtain ⟨ib, hb⟩ := exists_store_of_stored l arr hstored
      have hnot : ¬ ∃ k, i = .own k ∧ ib = .own k := by
        rintro ⟨k, _, h2⟩
        subst h2
        exact storeOff_none_not_own l arr k hso hb
      obtain ⟨fx, T, U, c, hTU, hiT, hiU⟩ := exists_collision i ib hnot
      exact ⟨fx, twoIter T U (.load (arr, c)) (.store (arr, c) (fun _ => 0)),
        twoIter_conforms l fx T U _ _ ⟨_, ha, conforms_load fx T arr i c hiT⟩
          ⟨_, hb, conforms_store fx U arr ib c _ hiU⟩,
        twoIter_race' T U hTU (arr, c) _ _ rfl⟩
  | store arr i =>
    simp only [Loop.siteOk] at hbad
    cases hso : l.storeOff arr with
    | some k =>
      rw [hso] at hbad
      have hne : i ≠ .own k := by simpa using hbad
      have hb := storeOff_of_mem l arr k hso
      obtain ⟨fx, T, U, c, hTU, hiT, hiU⟩ := exists_collision i (.own k)
        (by rintro ⟨k0, h1, h2⟩; cases h2; exact hne h1)
      exact ⟨fx, twoIter T U (.store (arr, c) (fun _ => 0)) (.store (arr, c) (fun _ => 1)),
        twoIter_conforms l fx T U _ _ ⟨_, ha, conforms_store fx T arr i c _ hiT⟩
          ⟨_, hb, conforms_store fx U arr (.own k) c _ hiU⟩,
        twoIter_race T U hTU (arr, c) _ _ rfl⟩
    | none =>
      have hnot : ¬ ∃ k, i = .own k ∧ i = .own k := by
        rintro ⟨k, h1, _⟩
        subst h1
        exact storeOff_none_not_own l arr k hso ha
      obtain ⟨fx, T, U, c, hTU, hiT, hiU⟩ := exists_collision i i hnot
      exact ⟨fx, twoIter T U (.store (arr, c) (fun _ => 0)) (.store (arr, c) (fun _ => 1)),
        twoIter_conforms l fx T U _ _ ⟨_, ha, conforms_store fx T arr i c _ hiT⟩
          ⟨_, ha, conforms_store fx U arr i c _ hiU⟩,
        twoIter_race T U hTU (arr, c) _ _ rfl⟩
  | priv v => have := hother _ ha rfl; rw [this] at hbad; cases hbad
  | reduction v op ex => have := hother _ ha rfl; rw [this] at hbad; cases hbad
  | method o m mu => have := hother _ ha rfl; rw [this] at hbad; cases hbad
  | call f p => have := hother _ ha rfl; rw [this] at hbad; cases hbad
  | unknown w => have := hother _ ha rfl; rw [this] at hbad; cases hbad

end SkNet.ParFor
