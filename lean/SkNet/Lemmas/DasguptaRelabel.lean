/- Dasgupta's cost by its definition is unchanged when the nodes (the leaves of the dendrogram) are renumbered. -/
import SkNet.Lemmas.DasguptaDef
import SkNet.Lemmas.Static
import SkNet.Lemmas.WLEquiv
import Mathlib.Data.List.Induction

set_option linter.unusedSimpArgs false
set_option linter.unusedVariables false

namespace SkNet.HMetrics
open SkNet SkNet.Dendro SkNet.Agg SkNet.Cut
open SkNet.WL (IsPerm map_perm_range)

variable {α : Type}

theorem isPerm_symm {n : Nat} {π πinv : Nat → Nat} (hp : IsPerm n π πinv) : IsPerm n πinv π :=
  ⟨hp.lt_inv, hp.lt, hp.right, hp.left⟩

/-! ### sums along a permutation -/

theorem S_perm {l1 l2 : List Nat} (h : l1.Perm l2) (f : Nat → ℚ) : S l1 f = S l2 f := by
  induction h with
  | nil => rfl
  | cons x _ ih => rw [S_cons, S_cons, ih]
  | swap x y l => simp only [S_cons]; ring
  | trans _ _ ih1 ih2 => rw [ih1, ih2]

theorem S_map (l : List Nat) (g : Nat → Nat) (f : Nat → ℚ) : S (l.map g) f = S l (fun x => f (g x)) := by
  unfold S; rw [List.map_map]; rfl

theorem S_reindex {n : Nat} {π πinv : Nat → Nat} (hp : IsPerm n π πinv) (f : Nat → ℚ) :
    S (List.range n) (fun x => f (π x)) = S (List.range n) f := by
  rw [← S_map]; exact S_perm (map_perm_range hp) f

theorem S_reindex2 {n : Nat} {π πinv : Nat → Nat} (hp : IsPerm n π πinv) (f : Nat → Nat → ℚ) :
    S (List.range n) (fun u => S (List.range n) (fun v => f (π u) (π v))) =
      S (List.range n) (fun u => S (List.range n) (fun v => f u v)) := by
  have h1 : S (List.range n) (fun u => S (List.range n) (fun v => f (π u) (π v))) =
      S (List.range n) (fun u => S (List.range n) (fun v => f (π u) v)) :=
    S_congr (fun u _ => S_reindex hp (fun v => f (π u) v))
  rw [h1]
  exact S_reindex hp (fun u => S (List.range n) (fun v => f u v))

/-! ### the renumbering of node ids -/

theorem renLeaf_lt {n : Nat} {π : Nat → Nat} {x : Nat} (h : x < n) : renLeaf n π x = π x := by
  unfold renLeaf; rw [if_pos h]

theorem renLeaf_ge {n : Nat} {π : Nat → Nat} {x : Nat} (h : ¬ x < n) : renLeaf n π x = x := by
  unfold renLeaf; rw [if_neg h]

theorem renLeaf_bound {n : Nat} {π πinv : Nat → Nat} (hp : IsPerm n π πinv) {x t : Nat} (h : x < n + t) :
    renLeaf n π x < n + t := by
  by_cases hx : x < n
  · rw [renLeaf_lt hx]; have := hp.lt x hx; omega
  · rw [renLeaf_ge hx]; exact h

theorem renLeaf_lt_iff {n : Nat} {π πinv : Nat → Nat} (hp : IsPerm n π πinv) (x : Nat) :
    renLeaf n π x < n ↔ x < n := by
  by_cases hx : x < n
  · rw [renLeaf_lt hx]; exact ⟨fun _ => hx, fun _ => hp.lt x hx⟩
  · rw [renLeaf_ge hx]

theorem renLeaf_inj {n : Nat} {π πinv : Nat → Nat} (hp : IsPerm n π πinv) {x y : Nat}
    (h : renLeaf n π x = renLeaf n π y) : x = y := by
  by_cases hx : x < n
  · by_cases hy : y < n
    · rw [renLeaf_lt hx, renLeaf_lt hy] at h
      rw [← hp.left x hx, ← hp.left y hy, h]
    · rw [renLeaf_lt hx, renLeaf_ge hy] at h
      have := hp.lt x hx; omega
  · by_cases hy : y < n
    · rw [renLeaf_ge hx, renLeaf_lt hy] at h
      have := hp.lt y hy; omega
    · rw [renLeaf_ge hx, renLeaf_ge hy] at h; exact h

/-! ### the renumbered matrix -/

theorem relabelMat_get (n : Nat) (πinv : Nat → Nat) (a : Mat) (i j : Nat) :
    (relabelMat n πinv a).get i j = if i < n ∧ j < n then a.get (πinv i) (πinv j) else 0 := by
  unfold relabelMat
  show ((tab n fun i => tab n fun j => a.get (πinv i) (πinv j)).getD i []).getD j 0 = _
  simp only [tab_getD]
  by_cases hi : i < n
  · simp only [hi, if_true, tab_getD, true_and]
  · simp [hi]

theorem relabelMat_get_perm {n : Nat} {π πinv : Nat → Nat} (hp : IsPerm n π πinv) (a : Mat) {u v : Nat}
    (hu : u < n) (hv : v < n) : (relabelMat n πinv a).get (π u) (π v) = a.get u v := by
  rw [relabelMat_get, if_pos ⟨hp.lt u hu, hp.lt v hv⟩, hp.left u hu, hp.left v hv]

theorem relabelMat_square (n : Nat) (πinv : Nat → Nat) (a : Mat) : Square n (relabelMat n πinv a) := by
  refine ⟨by simp [relabelMat], ?_⟩
  intro r hr
  simp only [relabelMat, tab, List.mem_map, List.mem_range] at hr
  obtain ⟨i, _, rfl⟩ := hr
  simp

theorem total_relabel {n : Nat} {π πinv : Nat → Nat} (hp : IsPerm n π πinv) {a b : Mat} (ha : Square n a)
    (hb : Square n b) (hab : ∀ u v, u < n → v < n → b.get (π u) (π v) = a.get u v) : b.total = a.total := by
  rw [total_square hb, total_square ha]
  refine (S_reindex2 hp (fun i j => b.get i j)).symm.trans ?_
  apply S_congr; intro u hu
  apply S_congr; intro v hv
  exact hab u v (List.mem_range.mp hu) (List.mem_range.mp hv)

theorem symmetrize_relabel {n : Nat} {π πinv : Nat → Nat} (hp : IsPerm n π πinv) (a : Mat) {u v : Nat}
    (hu : u < n) (hv : v < n) :
    (symmetrize n (relabelMat n πinv a)).get (π u) (π v) = (symmetrize n a).get u v := by
  rw [symmetrize_get, symmetrize_get, if_pos ⟨hp.lt u hu, hp.lt v hv⟩, if_pos ⟨hu, hv⟩,
    relabelMat_get_perm hp a hu hv, relabelMat_get_perm hp a hv hu]

theorem probsRow_relabel {n : Nat} {π πinv : Nat → Nat} (hp : IsPerm n π πinv) (degree : Bool) {a : Mat}
    (ha : Square n a) {x : Nat} (hx : x < n) :
    (probsRow degree n (relabelMat n πinv a)).getD (π x) 0 = (probsRow degree n a).getD x 0 := by
  rw [probsRow_getD _ _ _ _ (hp.lt x hx), probsRow_getD _ _ _ _ hx,
    total_relabel hp ha (relabelMat_square n πinv a) (fun u v hu hv => relabelMat_get_perm hp a hu hv)]
  by_cases hd : degree = true
  · simp only [hd, if_true]
    congr 1
    rw [← S_reindex hp (fun j => (relabelMat n πinv a).get (π x) j)]
    apply S_congr; intro v hv
    exact relabelMat_get_perm hp a hx (List.mem_range.mp hv)
  · simp [hd]

theorem probsCol_relabel {n : Nat} {π πinv : Nat → Nat} (hp : IsPerm n π πinv) (degree : Bool) {a : Mat}
    (ha : Square n a) {x : Nat} (hx : x < n) :
    (probsCol degree n (relabelMat n πinv a)).getD (π x) 0 = (probsCol degree n a).getD x 0 := by
  rw [probsCol_getD _ _ _ _ (hp.lt x hx), probsCol_getD _ _ _ _ hx,
    total_relabel hp ha (relabelMat_square n πinv a) (fun u v hu hv => relabelMat_get_perm hp a hu hv)]
  by_cases hd : degree = true
  · simp only [hd, if_true]
    congr 1
    rw [← S_reindex hp (fun i => (relabelMat n πinv a).get i (π x))]
    apply S_congr; intro v hv
    exact relabelMat_get_perm hp a (List.mem_range.mp hv) hx
  · simp [hd]

/-! ### the renumbered dendrogram -/

theorem relabelDendro_length (n : Nat) (π : Nat → Nat) (D : Dendro α) : (relabelDendro n π D).length = D.length := by
  simp [relabelDendro]

theorem relabelDendro_get (n : Nat) (π : Nat → Nat) (D : Dendro α) (t : Nat) :
    (relabelDendro n π D)[t]? = (D[t]?).map (relabelRow n π) := by
  simp [relabelDendro]

/-- leaf lists of the renumbered dendrogram, and the range of the leaves -/
theorem leaves_relabel {n : Nat} {π πinv : Nat → Nat} (hp : IsPerm n π πinv) : ∀ (D : Dendro α),
    (∀ t r, D[t]? = some r → r.i < n + t ∧ r.j < n + t) → ∀ x, x < n + D.length →
    leaves n (relabelDendro n π D) (renLeaf n π x) = (leaves n D x).map π ∧ ∀ u ∈ leaves n D x, u < n := by
  intro D
  induction D using List.reverseRecOn with
  | nil =>
    intro _ x hx
    simp only [List.length_nil, Nat.add_zero] at hx
    rw [leaves_leaf n _ hx, renLeaf_lt hx, leaves_leaf n _ (hp.lt x hx)]
    exact ⟨rfl, by intro u hu; simp at hu; omega⟩
  | append_singleton pre r ih =>
    intro hb x hx
    have hb' : ∀ t r', pre[t]? = some r' → r'.i < n + t ∧ r'.j < n + t := by
      intro t r' ht
      have hlt := (List.getElem?_eq_some_iff.mp ht).1
      exact hb t r' (by rw [List.getElem?_append_left hlt]; exact ht)
    have hr := hb pre.length r (by rw [List.getElem?_append_right (Nat.le_refl _)]; simp)
    have hmap : relabelDendro n π (pre ++ [r]) = relabelDendro n π pre ++ [relabelRow n π r] := by
      simp [relabelDendro]
    simp only [List.length_append, List.length_cons, List.length_nil] at hx
    by_cases hxl : x < n + pre.length
    · obtain ⟨h1, h2⟩ := ih hb' x hxl
      rw [hmap, leaves_append_lt n _ _ (by rw [relabelDendro_length]; exact renLeaf_bound hp hxl),
        leaves_append_lt n pre _ hxl]
      exact ⟨h1, h2⟩
    · have hxe : x = n + pre.length := by omega
      subst hxe
      have hge : ¬ n + pre.length < n := by omega
      obtain ⟨hi1, hi2⟩ := ih hb' r.i hr.1
      obtain ⟨hj1, hj2⟩ := ih hb' r.j hr.2
      rw [renLeaf_ge hge, hmap]
      have e : n + pre.length = n + (relabelDendro n π pre).length := by rw [relabelDendro_length]
      rw [e, leaves_new, ← e, leaves_new]
      refine ⟨?_, ?_⟩
      · show leaves n (relabelDendro n π pre) (renLeaf n π r.i) ++ leaves n (relabelDendro n π pre) (renLeaf n π r.j) = _
        rw [hi1, hj1, List.map_append]
      · intro u hu
        rcases List.mem_append.mp hu with h | h
        · exact hi2 u h
        · exact hj2 u h

theorem valid_bounds {n : Nat} {D : Dendro α} (hv : ValidDendro n D = true) :
    ∀ t r, D[t]? = some r → r.i < n + t ∧ r.j < n + t := by
  intro t r ht
  have hs := static_of_valid (w := List.replicate n 1) hv
  have := hs.bound t r ht
  simp only [List.length_replicate] at this
  exact ⟨this.1, this.2.1⟩

theorem find?_congr_mem {β : Type} {l : List β} {p q : β → Bool} (h : ∀ x ∈ l, p x = q x) :
    l.find? p = l.find? q := by
  induction l with
  | nil => rfl
  | cons a as ih =>
    simp only [List.find?_cons, h a List.mem_cons_self]
    rw [ih (fun x hx => h x (List.mem_cons_of_mem _ hx))]

theorem contains_map_perm {n : Nat} {π πinv : Nat → Nat} (hp : IsPerm n π πinv) {l : List Nat}
    (hl : ∀ u ∈ l, u < n) {u : Nat} (hu : u < n) : (l.map π).contains (π u) = l.contains u := by
  rw [Bool.eq_iff_iff]
  simp only [List.contains_iff_mem, List.mem_map]
  constructor
  · rintro ⟨w, hw, e⟩
    have : w = u := by rw [← hp.left w (hl w hw), ← hp.left u hu, e]
    rw [← this]; exact hw
  · intro h; exact ⟨u, h, rfl⟩

theorem lcaRow_relabel {n : Nat} {π πinv : Nat → Nat} (hp : IsPerm n π πinv) {D : Dendro α}
    (hv : ValidDendro n D = true) {u v : Nat} (hu : u < n) (hv' : v < n) :
    lcaRow n (relabelDendro n π D) (π u) (π v) = lcaRow n D u v := by
  unfold lcaRow
  rw [relabelDendro_length]
  apply find?_congr_mem
  intro t ht
  simp only [List.mem_range] at ht
  have hge : ¬ n + t < n := by omega
  obtain ⟨h1, h2⟩ := leaves_relabel hp D (valid_bounds hv) (n + t) (by omega)
  rw [renLeaf_ge hge] at h1
  simp only [h1, contains_map_perm hp h2 hu, contains_map_perm hp h2 hv']

theorem clusterWeight_relabel {n : Nat} {π πinv : Nat → Nat} (hp : IsPerm n π πinv) (degree : Bool) {a : Mat}
    (ha : Square n a) {D : Dendro α} (hv : ValidDendro n D = true) {t : Nat} (ht : t < D.length) :
    clusterWeight degree n (relabelMat n πinv a) (relabelDendro n π D) t = clusterWeight degree n a D t := by
  have hge : ¬ n + t < n := by omega
  obtain ⟨h1, h2⟩ := leaves_relabel hp D (valid_bounds hv) (n + t) (by omega)
  rw [renLeaf_ge hge] at h1
  unfold clusterWeight
  simp only [h1, List.map_map]
  congr 1
  apply List.map_congr_left
  intro x hx
  simp only [Function.comp]
  rw [probsRow_relabel hp degree ha (h2 x hx), probsCol_relabel hp degree ha (h2 x hx)]

/-- **the cost of the definition is invariant under renumbering** -/
theorem dasguptaDef_relabel {n : Nat} {π πinv : Nat → Nat} (hp : IsPerm n π πinv) (degree : Bool) {a : Mat}
    (ha : Square n a) {D : Dendro α} (hv : ValidDendro n D = true) :
    dasguptaDef degree n (relabelMat n πinv a) (relabelDendro n π D) = dasguptaDef degree n a D := by
  have htot : (symmetrize n (relabelMat n πinv a)).total = (symmetrize n a).total :=
    total_relabel hp (symmetrize_square n a) (symmetrize_square n _) (fun u v hu hv => symmetrize_relabel hp a hu hv)
  unfold dasguptaDef
  simp only []
  rw [sumR_eq_sum, sumR_eq_sum, sum_flatMap_map, sum_flatMap_map]
  refine (S_reindex2 hp (fun u v => match lcaRow n (relabelDendro n π D) u v with
      | some t => (symmetrize n (relabelMat n πinv a)).get u v / (symmetrize n (relabelMat n πinv a)).total *
          clusterWeight degree n (relabelMat n πinv a) (relabelDendro n π D) t
      | none => 0)).symm.trans ?_
  apply S_congr; intro u hu
  apply S_congr; intro v hv'
  simp only [List.mem_range] at hu hv'
  simp only [lcaRow_relabel hp hv hu hv', symmetrize_relabel hp a hu hv', htot]
  cases h : lcaRow n D u v with
  | none => rfl
  | some t =>
    have ht : t < D.length := ((find?_range _ _ _).mp h).1
    simp only [clusterWeight_relabel hp degree ha hv ht]

/-! ### the renumbered dendrogram is valid -/

theorem childList_relabel (n : Nat) (π : Nat → Nat) (D : Dendro α) :
    childList (relabelDendro n π D) = (childList D).map (renLeaf n π) := by
  unfold childList relabelDendro
  induction D with
  | nil => rfl
  | cons r rs ih =>
    simp only [List.map_cons, List.flatMap_cons, List.map_append, ih]
    rfl

theorem relabel_valid {n : Nat} {π πinv : Nat → Nat} (hp : IsPerm n π πinv) {D : Dendro α}
    (hv : ValidDendro n D = true) : ValidDendro n (relabelDendro n π D) = true := by
  have hs := static_of_valid (w := List.replicate n 1) hv
  apply valid_of_static
  have hsz : ∀ x, szW (List.replicate n 1) (relabelDendro n π D) (renLeaf n π x) = szW (List.replicate n 1) D x := by
    intro x
    unfold szW
    simp only [List.length_replicate]
    by_cases hx : x < n
    · have := hp.lt x hx
      rw [renLeaf_lt hx]
      simp [hx, this, List.getD_eq_getElem?_getD]
    · rw [renLeaf_ge hx]
      simp only [hx, if_false, relabelDendro_get, Option.map_map]
      cases D[x - n]? <;> rfl
  refine ⟨by rw [relabelDendro_length]; exact hs.len, ?_, ?_, ?_⟩
  · intro t r' ht
    rw [relabelDendro_get] at ht
    cases hr : D[t]? with
    | none => simp [hr] at ht
    | some r =>
      simp only [hr, Option.map_some, Option.some.injEq] at ht
      subst ht
      obtain ⟨h1, h2, h3⟩ := hs.bound t r hr
      simp only [List.length_replicate] at h1 h2 ⊢
      exact ⟨renLeaf_bound hp h1, renLeaf_bound hp h2, fun e => h3 (renLeaf_inj hp e)⟩
  · rw [childList_relabel]
    exact SkNet.WL.nodup_map_on (fun x _ y _ e => renLeaf_inj hp e) hs.nodup
  · intro t r' ht
    rw [relabelDendro_get] at ht
    cases hr : D[t]? with
    | none => simp [hr] at ht
    | some r =>
      simp only [hr, Option.map_some, Option.some.injEq] at ht
      subst ht
      show r.s = szW _ _ (renLeaf n π r.i) + szW _ _ (renLeaf n π r.j)
      rw [hsz, hsz]
      exact hs.size t r hr

end SkNet.HMetrics
