/- The heights of the runs (`Ht`: rationals and `+inf`) are linearly ordered, with the very `<` and decision procedure
   the models are run with: the theorems stated for `[LinearOrder α]` apply to the functions the driver executes. -/
import SkNet.Model.Dendro
import Mathlib.Algebra.Order.Field.Rat

namespace SkNet.Dendro.Ht
open SkNet SkNet.Dendro

theorem lt_fin (x y : ℚ) : (Ht.fin x < Ht.fin y) ↔ x < y := Iff.rfl
theorem not_lt_inf (a : Ht) : ¬ (Ht.inf < a) := fun h => by cases h

theorem lt_irrefl' (a : Ht) : ¬ a < a := by
  cases a with
  | fin x => exact lt_irrefl x
  | inf => exact not_lt_inf _

theorem lt_trans' {a b c : Ht} (h1 : a < b) (h2 : b < c) : a < c := by
  cases a with
  | inf => exact absurd h1 (not_lt_inf _)
  | fin x =>
    cases b with
    | inf => exact absurd h2 (not_lt_inf _)
    | fin y =>
      cases c with
      | inf => exact trivial
      | fin z =>
        have a1 : x < y := h1
        have a2 : y < z := h2
        exact (lt_trans a1 a2 : x < z)

theorem lt_tri (a b : Ht) : a < b ∨ a = b ∨ b < a := by
  cases a with
  | fin x =>
    cases b with
    | fin y =>
      rcases lt_trichotomy x y with h | h | h
      · exact Or.inl h
      · exact Or.inr (Or.inl (by rw [h]))
      · exact Or.inr (Or.inr h)
    | inf => exact Or.inl trivial
  | inf =>
    cases b with
    | fin y => exact Or.inr (Or.inr trivial)
    | inf => exact Or.inr (Or.inl rfl)

instance instLinearOrderHt : LinearOrder Ht where
  le a b := ¬ b < a
  lt a b := a < b
  le_refl a := lt_irrefl' a
  le_trans a b c hab hbc := by
    intro hca
    rcases lt_tri a b with h | h | h
    · exact hbc (lt_trans' hca h)
    · subst h; exact hbc hca
    · exact hab h
  lt_iff_le_not_ge a b := by
    constructor
    · intro h
      refine ⟨fun hba => lt_irrefl' a (lt_trans' h hba), fun hn => hn h⟩
    · rintro ⟨_, h2⟩
      rcases lt_tri a b with h | h | h
      · exact h
      · subst h; exact absurd (lt_irrefl' a) h2
      · exact absurd (fun hab => lt_irrefl' a (lt_trans' hab h)) h2
  le_antisymm a b hab hba := by
    rcases lt_tri a b with h | h | h
    · exact absurd h hba
    · exact h
    · exact absurd h hab
  le_total a b := by
    rcases lt_tri a b with h | h | h
    · exact Or.inl (fun hba => lt_irrefl' a (lt_trans' h hba))
    · subst h; exact Or.inl (lt_irrefl' a)
    · exact Or.inr (fun hab => lt_irrefl' a (lt_trans' hab h))
  toDecidableLE := fun a b => inferInstanceAs (Decidable (¬ b < a))
  toDecidableLT := Ht.instDecidableLT
  toDecidableEq := inferInstance

/-- the order of the theorems is the order of the runs -/
example : (instLinearOrderHt.toLT : LT Ht) = Ht.instLT := rfl

end SkNet.Dendro.Ht
