/-
Bridge between the list-based model of Model/Rank.lean (at `α := ℚ`) and sums over `Finset.range`:
what each model function computes, coordinate by coordinate.
-/
import SkNet.Model.Rank
import SkNet.Spec.Rank
import SkNet.Lemmas.RankL1

open Finset

namespace SkNet.Rank

/-! ### lists and sums -/

theorem map_range_sum (n : ℕ) (f : ℕ → ℚ) : ((List.range n).map f).sum = ∑ i ∈ range n, f i := by
  induction n with
  | zero => simp
  | succ k ih => rw [List.range_succ, List.map_append, List.sum_append, ih, sum_range_succ]; simp

theorem sumTo_eq (n : ℕ) (f : ℕ → ℚ) : RankSpec.sumTo n f = ∑ i ∈ range n, f i := map_range_sum n f

theorem list_sum_eq (x : List ℚ) : x.sum = ∑ i ∈ range x.length, x.getD i 0 := by
  induction x with
  | nil => simp
  | cons a t ih =>
    rw [List.sum_cons, List.length_cons, sum_range_succ', ih]
    simp [add_comm]

theorem vsum_eq (x : List ℚ) : vsum x = ∑ i ∈ range x.length, x.getD i 0 := list_sum_eq x

theorem vsum_tab (n : ℕ) (f : ℕ → ℚ) : vsum (tab n f) = ∑ i ∈ range n, f i := by
  unfold vsum tab; exact map_range_sum n f

theorem absS_eq (x : ℚ) : absS x = |x| := by
  unfold absS
  split
  · rename_i h; rw [abs_of_neg h]; ring
  · rename_i h; rw [abs_of_nonneg (not_lt.mp h)]

theorem l1dist_eq (n : ℕ) (x y : List ℚ) : l1dist n x y = ∑ i ∈ range n, |x.getD i 0 - y.getD i 0| := by
  unfold l1dist
  rw [map_range_sum]
  exact sum_congr rfl fun i _ => absS_eq _

theorem normalizeV_getD (n : ℕ) (x : List ℚ) (i : ℕ) :
    (normalizeV n x).getD i 0 = if i < n then x.getD i 0 / x.sum else 0 := by
  simp only [normalizeV, vsum, tab_getD]

@[simp] theorem normalizeV_length (n : ℕ) (x : List ℚ) : (normalizeV n x).length = n := by
  unfold normalizeV; simp

/-! ### the transition matrix of `normalize` -/

/-- every stored value is non-negative -/
def Graph.Nonneg (g : Graph ℚ) : Prop := ∀ i, ∀ p ∈ g.row i, 0 ≤ p.2

/-- every stored column index is in range -/
def Graph.InRange (g : Graph ℚ) : Prop := ∀ i, ∀ p ∈ g.row i, p.1 < g.n

theorem sum_filter_col (n : ℕ) (row : List (ℕ × ℚ)) (h : ∀ p ∈ row, p.1 < n) :
    ∑ j ∈ range n, ((row.filter fun p => p.1 == j).map fun p => p.2).sum = (row.map fun p => p.2).sum := by
  induction row with
  | nil => simp
  | cons p t ih =>
    have hp : p.1 < n := h p (by simp)
    have ht : ∀ q ∈ t, q.1 < n := fun q hq => h q (by simp [hq])
    have : ∀ j, (((p :: t).filter fun q => q.1 == j).map fun q => q.2).sum
        = (if p.1 = j then p.2 else 0) + ((t.filter fun q => q.1 == j).map fun q => q.2).sum := by
      intro j
      by_cases hj : p.1 = j
      · simp [hj]
      · simp [hj]
    simp only [this, sum_add_distrib, ih ht, List.map_cons, List.sum_cons]
    congr 1
    rw [sum_ite_eq]
    simp [hp]

theorem entry_nonneg {g : Graph ℚ} (hg : g.Nonneg) (i j : ℕ) : 0 ≤ entry g i j := by
  unfold entry
  apply List.sum_nonneg
  intro x hx
  simp only [List.mem_map, List.mem_filter] at hx
  obtain ⟨p, ⟨hp, _⟩, rfl⟩ := hx
  exact hg i p hp

theorem sum_entry {g : Graph ℚ} (hr : g.InRange) (i : ℕ) : ∑ j ∈ range g.n, entry g i j = rowSum g i := by
  unfold entry rowSum
  exact sum_filter_col g.n (g.row i) (hr i)

theorem norm1_eq_rowSum {g : Graph ℚ} (hg : g.Nonneg) (i : ℕ) : norm1 g i = rowSum g i := by
  unfold norm1 rowSum
  congr 1
  apply List.map_congr_left
  intro p hp
  rw [absS_eq, abs_of_nonneg (hg i p hp)]

theorem rowSum_nonneg {g : Graph ℚ} (hg : g.Nonneg) (i : ℕ) : 0 ≤ rowSum g i := by
  unfold rowSum
  apply List.sum_nonneg
  intro x hx
  simp only [List.mem_map] at hx
  obtain ⟨p, hp, rfl⟩ := hx
  exact hg i p hp

theorem trans_nonneg {g : Graph ℚ} (hg : g.Nonneg) (i j : ℕ) : 0 ≤ trans g i j := by
  unfold trans
  split
  · rename_i h
    exact mul_nonneg (div_nonneg zero_le_one (le_of_lt h)) (entry_nonneg hg i j)
  · exact le_refl _

/-- a row of `normalize(adjacency)` sums to 1, or to 0 for a node without out-weight -/
theorem sum_trans {g : Graph ℚ} (hg : g.Nonneg) (hr : g.InRange) (i : ℕ) :
    ∑ j ∈ range g.n, trans g i j = if 0 < rowSum g i then 1 else 0 := by
  unfold trans
  rw [norm1_eq_rowSum hg]
  split
  · rename_i h
    rw [← mul_sum, sum_entry hr, one_div, inv_mul_cancel₀ (ne_of_gt h)]
  · simp

theorem trans_subStoch {g : Graph ℚ} (hg : g.Nonneg) (hr : g.InRange) : RankL1.SubStoch g.n (trans g) where
  nonneg := trans_nonneg hg
  row_le := by
    intro i
    rw [sum_trans hg hr]
    split <;> norm_num

end SkNet.Rank
