/-
Termination of `optimize_refine_core` (`while increase:` of the Leiden refinement) in exact arithmetic (property C17),
on the model of C06 (`refineLoop`), for **every** outcome of `rand()`.

A node only moves to a refined cluster whose `delta_local` is strictly positive, and — the refined partition being
a refinement of the clusters (`RefInv`), the neighbour loop restricted to the node's own cluster sees the whole link
towards each candidate — that `delta_local` is exactly the change of the objective `Q` of the refined partition
(`delta_move` of C06).  A pass that sets `increase` therefore strictly increases `Q`: no refined label vector is
met twice, `K^n + 1` passes suffice.
-/
import SkNet.Lemmas.ModularityLoop
import SkNet.Lemmas.ModularityRefine
import SkNet.Lemmas.TerminateLouvain
import SkNet.Lemmas.ModularityFit
import SkNet.Lemmas.ModularityLeiden
import SkNet.Lemmas.ModularityPre

namespace SkNet.Terminate
open SkNet SkNet.Modularity Finset

/-! ### the neighbour loop of the refinement is the Louvain neighbour loop on the filtered row -/

theorem rNbr_fold_filter (labels refined : List Nat) (label : Nat) (row : List (Nat × Rat)) (acc : List Rat × List Nat) :
    row.foldl (rNbrStep labels refined label) acc
      = (row.filter fun e => labels.getD e.1 0 == label).foldl (nbrStep refined) acc := by
  induction row generalizing acc with
  | nil => rfl
  | cons e r ih =>
    simp only [List.foldl_cons, List.filter_cons]
    by_cases hc : (labels.getD e.1 0 == label) = true
    · rw [if_pos hc, List.foldl_cons, ← ih]
      congr 1
      simp only [rNbrStep, hc, if_true, nbrStep]
    · rw [if_neg hc, ← ih]
      congr 1
      simp only [rNbrStep, hc]
      rfl

theorem rowLink_filter (lab : Nat → Nat) (row : List (Nat × Rat)) (p : Nat × Rat → Bool) (x : Nat)
    (h : ∀ e ∈ row, lab e.1 = x → p e = true) : rowLink lab (row.filter p) x = rowLink lab row x := by
  induction row with
  | nil => rfl
  | cons e r ih =>
    have ih' := ih fun e' he' => h e' (List.mem_cons_of_mem _ he')
    simp only [List.filter_cons]
    by_cases hp : p e = true
    · rw [if_pos hp]
      simp only [rowLink, List.map_cons, List.sum_cons] at ih' ⊢
      rw [ih']
    · rw [if_neg hp]
      have hne : lab e.1 ≠ x := fun hx => hp (h e (List.mem_cons_self ..) hx)
      simp only [rowLink, List.map_cons, List.sum_cons, hne, if_false, zero_add] at ih' ⊢
      exact ih'

/-! ### the loop over the candidate clusters: a selected cluster has a strictly positive gain -/

theorem rTarget_fold (res outW inW delta : Rat) (inCl outCl : List Rat) (ts : List Nat) (s : List Nat)
    (cw : List Rat) (hnd : ts.Nodup) (hb : ∀ t ∈ ts, t < cw.length) :
    (ts.foldl (rTargetStep res outW inW delta inCl outCl) (s, cw)).2.length = cw.length ∧
    (∀ x, (ts.foldl (rTargetStep res outW inW delta inCl outCl) (s, cw)).2.getD x 0
        = if x ∈ ts then 0 else cw.getD x 0) ∧
    (∀ x, x ∈ (ts.foldl (rTargetStep res outW inW delta inCl outCl) (s, cw)).1 →
        x ∈ s ∨ (x ∈ ts ∧ 0 < joinAt res outW inW delta inCl outCl cw x)) := by
  induction ts generalizing s cw with
  | nil => simp
  | cons t ts ih =>
    have ht : t < cw.length := hb t List.mem_cons_self
    have hnd' := List.nodup_cons.mp hnd
    have hstep : rTargetStep res outW inW delta inCl outCl (s, cw) t =
        (if 0 < joinAt res outW inW delta inCl outCl cw t then (setInsert t s, cw.set t 0) else (s, cw.set t 0)) := by
      simp only [rTargetStep, lt_rat, zero_rat, decide_eq_true_eq, joinAt]
      rfl
    have hjoin : ∀ t' ∈ ts, joinAt res outW inW delta inCl outCl (cw.set t 0) t'
        = joinAt res outW inW delta inCl outCl cw t' := by
      intro t' ht'
      have hne : t ≠ t' := fun h => hnd'.1 (h ▸ ht')
      simp only [joinAt, getD_set, hne, false_and, if_false]
    simp only [List.foldl_cons]
    rw [hstep]
    have hb' : ∀ t' ∈ ts, t' < (cw.set t 0).length := by
      intro t' ht'; simp only [List.length_set]; exact hb t' (List.mem_cons_of_mem _ ht')
    split
    · rename_i hpos
      obtain ⟨i1, i2, i3⟩ := ih (setInsert t s) (cw.set t 0) hnd'.2 hb'
      refine ⟨by rw [i1]; simp, ?_, ?_⟩
      · intro x
        rw [i2 x]
        by_cases hx : x ∈ ts
        · simp [hx]
        · simp only [hx, if_false, List.mem_cons, or_false, getD_set]
          by_cases hxt : x = t
          · subst hxt; simp [ht]
          · simp [hxt, Ne.symm hxt]
      · intro x hx
        rcases i3 x hx with h | ⟨h1, h2⟩
        · rcases (mem_setInsert t x s).mp h with rfl | h
          · exact Or.inr ⟨List.mem_cons_self, hpos⟩
          · exact Or.inl h
        · exact Or.inr ⟨List.mem_cons_of_mem _ h1, by rw [← hjoin x h1]; exact h2⟩
    · obtain ⟨i1, i2, i3⟩ := ih s (cw.set t 0) hnd'.2 hb'
      refine ⟨by rw [i1]; simp, ?_, ?_⟩
      · intro x
        rw [i2 x]
        by_cases hx : x ∈ ts
        · simp [hx]
        · simp only [hx, if_false, List.mem_cons, or_false, getD_set]
          by_cases hxt : x = t
          · subst hxt; simp [ht]
          · simp [hxt, Ne.symm hxt]
      · intro x hx
        rcases i3 x hx with h | ⟨h1, h2⟩
        · exact Or.inl h
        · exact Or.inr ⟨List.mem_cons_of_mem _ h1, by rw [← hjoin x h1]; exact h2⟩

/-! ### one node of the refinement -/

/-- invariant of the refinement between two nodes (`K` = number of slots of the cluster arrays) -/
structure RInv (g : Graph Rat) (K : Nat) (labels : List Nat) (st : RSt Rat) : Prop where
  ref : RefInv g.n labels st.refined
  bound : ∀ i, i < g.n → labOf st.refined i < K
  lenO : st.outCl.length = K
  lenI : st.inCl.length = K
  lenC : st.cw.length = K
  cwZero : ∀ x, st.cw.getD x 0 = 0
  volO : ∀ x, x < K → st.outCl.getD x 0 = vol g.n g.outW (labOf st.refined) x
  volI : ∀ x, x < K → st.inCl.getD x 0 = vol g.n g.inW (labOf st.refined) x

theorem rNodeStep_spec (g : Graph Rat) (hg : GraphOK g) (res : Rat) (K : Nat) (labels : List Nat) (st : RSt Rat)
    (flag : Bool) (rands : List Nat) (hinv : RInv g K labels st) (i : Nat) (hi : i < g.n) :
    RInv g K labels (rNodeStep g res labels (st, flag, rands) i).1 ∧
    (((rNodeStep g res labels (st, flag, rands) i).1.refined = st.refined ∧
        (rNodeStep g res labels (st, flag, rands) i).2.1 = flag) ∨
      (QG g res st.refined < QG g res (rNodeStep g res labels (st, flag, rands) i).1.refined ∧
        (rNodeStep g res labels (st, flag, rands) i).2.1 = true)) := by
  set label := labels.getD i 0 with hlabel
  set lref := st.refined.getD i 0 with hlref
  set row' := (g.row i).filter (fun e => labels.getD e.1 0 == label) with hrow'
  have hrow'sub : ∀ e ∈ row', e ∈ g.row i ∧ labels.getD e.1 0 = label := by
    intro e he
    simp only [hrow', List.mem_filter, beq_iff_eq] at he
    exact he
  have hlen := hinv.ref.len
  have hb : ∀ e ∈ row', st.refined.getD e.1 0 < st.cw.length := by
    intro e he
    rw [hinv.lenC]
    exact hinv.bound e.1 (hg.cols i hi e (hrow'sub e he).1)
  obtain ⟨nlen, nget, nmem, nsorted⟩ := nbrLoop_spec st.refined row' st.cw hb
  have hnbeq : (g.row i).foldl (rNbrStep labels st.refined label) (st.cw, []) = nbrLoop st.refined row' st.cw := by
    rw [rNbr_fold_filter]; rfl
  have hcw : ∀ x, (nbrLoop st.refined row' st.cw).1.getD x 0 = rowLink (labOf st.refined) row' x := by
    intro x; rw [nget x, hinv.cwZero x, zero_add]
  have hlrefK : lref < K := hinv.bound i hi
  have hzero : ∀ x, x ∉ (nbrLoop st.refined row' st.cw).2 → (nbrLoop st.refined row' st.cw).1.getD x 0 = 0 := by
    intro x hx
    rw [hcw x]
    exact rowLink_zero _ _ _ fun e he h => hx ((nmem x).mpr ⟨e, he, h⟩)
  generalize hr : rNodeStep g res labels (st, flag, rands) i = r
  simp only [rNodeStep, ← hlabel, ← hlref, hnbeq] at hr
  split at hr
  · -- no candidate
    rename_i hemp
    subst hr
    have hnone : ∀ x, x ≠ lref → x ∉ (nbrLoop st.refined row' st.cw).2 := by
      intro x hx hmem
      have : x ∈ setErase lref (nbrLoop st.refined row' st.cw).2 := (mem_setErase _ _ _).mpr ⟨hmem, hx⟩
      rw [List.isEmpty_iff.mp hemp] at this
      exact absurd this List.not_mem_nil
    refine ⟨⟨hinv.ref, hinv.bound, hinv.lenO, hinv.lenI, by simp [nlen, hinv.lenC], ?_, hinv.volO, hinv.volI⟩,
      Or.inl ⟨rfl, rfl⟩⟩
    intro x
    simp only [zero_rat, getD_set]
    by_cases hx : lref = x
    · subst hx
      rw [if_pos ⟨rfl, by rw [nlen, hinv.lenC]; exact hlrefK⟩]
    · simp only [hx, false_and, if_false]
      exact hzero x (hnone x (Ne.symm hx))
  · have hts_sorted := setErase_sorted lref _ nsorted
    have hts_nodup : (setErase lref (nbrLoop st.refined row' st.cw).2).Nodup :=
      hts_sorted.imp (fun h => Nat.ne_of_lt h)
    have hts_bound : ∀ t ∈ setErase lref (nbrLoop st.refined row' st.cw).2,
        t < (nbrLoop st.refined row' st.cw).1.length := by
      intro t ht
      obtain ⟨e, he, hte⟩ := (nmem t).mp ((mem_setErase _ _ _).mp ht).1
      rw [nlen, hinv.lenC, ← hte]
      exact hinv.bound e.1 (hg.cols i hi e (hrow'sub e he).1)
    obtain ⟨tlen, tget, tsel⟩ := rTarget_fold res (g.outW i) (g.inW i)
      (leaveDelta res (g.outW i) (g.inW i) (g.selfLoop i)
        ((nbrLoop st.refined row' st.cw).1.getD lref Scalar.zero)
        (st.inCl.getD lref Scalar.zero) (st.outCl.getD lref Scalar.zero))
      st.inCl st.outCl (setErase lref (nbrLoop st.refined row' st.cw).2) []
      (nbrLoop st.refined row' st.cw).1 hts_nodup hts_bound
    simp only [zero_rat] at hr tget tsel tlen
    generalize hR : List.foldl
        (rTargetStep res (g.outW i) (g.inW i)
          (leaveDelta res (g.outW i) (g.inW i) (g.selfLoop i)
            ((nbrLoop st.refined row' st.cw).1.getD lref 0)
            (st.inCl.getD lref 0) (st.outCl.getD lref 0))
          st.inCl st.outCl)
        ([], (nbrLoop st.refined row' st.cw).1)
        (setErase lref (nbrLoop st.refined row' st.cw).2) = R at hr tget tsel tlen
    have hcwz : ∀ x, (R.2.set lref 0).getD x 0 = 0 := by
      intro x
      rw [getD_set]
      by_cases hx : lref = x
      · subst hx
        rw [if_pos ⟨rfl, by rw [tlen, nlen, hinv.lenC]; exact hlrefK⟩]
      · simp only [hx, false_and, if_false]
        rw [tget x]
        by_cases hxt : x ∈ setErase lref (nbrLoop st.refined row' st.cw).2
        · rw [if_pos hxt]
        · rw [if_neg hxt]
          exact hzero x fun hmem => hxt ((mem_setErase _ _ _).mpr ⟨hmem, Ne.symm hx⟩)
    have hcwl : (R.2.set lref 0).length = K := by simp [tlen, nlen, hinv.lenC]
    split at hr
    · -- no candidate with a positive gain
      subst hr
      exact ⟨⟨hinv.ref, hinv.bound, hinv.lenO, hinv.lenI, hcwl, hcwz, hinv.volO, hinv.volI⟩, Or.inl ⟨rfl, rfl⟩⟩
    · -- the node moves to the picked cluster
      rename_i hne
      subst hr
      have hne' : R.1 ≠ [] := by
        intro h; apply hne; rw [h]; rfl
      set t := pick (rands.headD 0) R.1 with ht
      have hmem := pick_mem (rands.headD 0) _ hne'
      rw [← ht] at hmem
      rcases tsel t hmem with h | ⟨hcand, hpos⟩
      · exact absurd h List.not_mem_nil
      obtain ⟨htmem, htne⟩ := (mem_setErase _ _ _).mp hcand
      obtain ⟨e, he, hte⟩ := (nmem t).mp htmem
      obtain ⟨heRow, heLab⟩ := hrow'sub e he
      have he1 : e.1 < g.n := hg.cols i hi e heRow
      have htK : t < K := by rw [← hte]; exact hinv.bound e.1 he1
      have hi' : i < st.refined.length := by rw [hlen]; exact hi
      have hmw := fun x => moveWeights_getD (g.outW i) (g.inW i) lref t st.outCl st.inCl K hinv.lenO hinv.lenI
        hlrefK htK htne x
      -- the filtered row carries the whole link towards `lref` and towards `t`
      have hlinkFull : ∀ x, link g.n (adj g) (labOf st.refined) i x = rowLink (labOf st.refined) (g.row i) x := by
        intro x
        unfold link adj
        exact (rowLink_eq_link g.n _ _ x (hg.cols i hi)).symm
      have hfilt : ∀ x, (∀ e' ∈ g.row i, labOf st.refined e'.1 = x → labels.getD e'.1 0 = label) →
          rowLink (labOf st.refined) row' x = rowLink (labOf st.refined) (g.row i) x := by
        intro x hx
        exact rowLink_filter _ _ _ x fun e' he' hxe => by simpa using hx e' he' hxe
      have hL1 : rowLink (labOf st.refined) row' lref = link g.n (adj g) (labOf st.refined) i lref := by
        rw [hlinkFull, hfilt]
        intro e' he' hxe
        exact hinv.ref.refines e'.1 i (hg.cols i hi e' he') hi hxe
      have hL2 : rowLink (labOf st.refined) row' t = link g.n (adj g) (labOf st.refined) i t := by
        rw [hlinkFull, hfilt]
        intro e' he' hxe
        have := hinv.ref.refines e'.1 e.1 (hg.cols i hi e' he') he1 (by rw [hxe]; exact hte.symm)
        show labOf labels e'.1 = label
        rw [this]
        exact heLab
      have hneq : labOf st.refined i ≠ t := fun h => htne h.symm
      have hgain : joinAt res (g.outW i) (g.inW i)
          (leaveDelta res (g.outW i) (g.inW i) (g.selfLoop i) ((nbrLoop st.refined row' st.cw).1.getD lref 0)
            (st.inCl.getD lref 0) (st.outCl.getD lref 0))
          st.inCl st.outCl (nbrLoop st.refined row' st.cw).1 t
          = QG g res (st.refined.set i t) - QG g res st.refined := by
        unfold QG
        rw [labOf_set _ _ _ hi', delta_move g.n (adj g) hg.sym g.outW g.inW res (labOf st.refined) i hi t hneq]
        simp only [joinAt, joinDelta, leaveDelta, two_rat]
        rw [hcw t, hcw lref, hinv.volI _ htK, hinv.volO _ htK, hinv.volI _ hlrefK, hinv.volO _ hlrefK,
          hg.self i hi, hL1, hL2]
      have hQ : QG g res st.refined < QG g res (st.refined.set i t) := by linarith
      refine ⟨⟨?_, ?_, (hmw 0).2.2.1, (hmw 0).2.2.2, hcwl, hcwz, ?_, ?_⟩, Or.inr ⟨hQ, rfl⟩⟩
      · have := refInv_set g.n labels st.refined hinv.ref i e.1 hi he1 heLab
        rw [hte] at this
        exact this
      · intro j hj
        show labOf (st.refined.set i t) j < K
        rw [labOf_set _ _ _ hi', Function.update_apply]
        split
        · exact htK
        · exact hinv.bound j hj
      · intro x hx
        show (moveWeights (g.outW i) (g.inW i) lref t st.outCl st.inCl).1.getD x 0 = _
        rw [(hmw x).1, hinv.volO x hx]
        show _ = vol g.n g.outW (labOf (st.refined.set i t)) x
        rw [labOf_set _ _ _ hi', vol_update _ _ _ _ _ _ hi]
      · intro x hx
        show (moveWeights (g.outW i) (g.inW i) lref t st.outCl st.inCl).2.getD x 0 = _
        rw [(hmw x).2.1, hinv.volI x hx]
        show _ = vol g.n g.inW (labOf (st.refined.set i t)) x
        rw [labOf_set _ _ _ hi', vol_update _ _ _ _ _ _ hi]

/-! ### one pass, the loop -/

theorem rFold_gain (g : Graph Rat) (hg : GraphOK g) (res : Rat) (K : Nat) (labels : List Nat) :
    ∀ (idx : List Nat), (∀ i ∈ idx, i < g.n) → ∀ (st : RSt Rat) (flag : Bool) (rands : List Nat), RInv g K labels st →
      RInv g K labels (idx.foldl (rNodeStep g res labels) (st, flag, rands)).1 ∧
      QG g res st.refined ≤ QG g res (idx.foldl (rNodeStep g res labels) (st, flag, rands)).1.refined ∧
      ((idx.foldl (rNodeStep g res labels) (st, flag, rands)).2.1 = true → flag = false →
        QG g res st.refined < QG g res (idx.foldl (rNodeStep g res labels) (st, flag, rands)).1.refined) := by
  intro idx
  induction idx with
  | nil => intro _ st flag rands hinv; exact ⟨hinv, le_refl _, fun h1 h2 => by simp_all⟩
  | cons i r ih =>
    intro hidx st flag rands hinv
    have hi := hidx i List.mem_cons_self
    obtain ⟨s1, s2⟩ := rNodeStep_spec g hg res K labels st flag rands hinv i hi
    simp only [List.foldl_cons]
    rcases hp : rNodeStep g res labels (st, flag, rands) i with ⟨st', flag', rands'⟩
    rw [hp] at s1 s2
    simp only at s1 s2
    obtain ⟨k1, k2, k3⟩ := ih (fun j hj => hidx j (List.mem_cons_of_mem _ hj)) st' flag' rands' s1
    rcases s2 with ⟨e1, e2⟩ | ⟨e1, e2⟩
    · rw [e1] at k2 k3
      exact ⟨k1, k2, fun h1 h2 => k3 h1 (by rw [e2]; exact h2)⟩
    · exact ⟨k1, le_trans (le_of_lt e1) k2, fun _ _ => lt_of_lt_of_le e1 k2⟩

/-- **`optimize_refine_core` terminates in exact arithmetic, for every outcome of `rand()`**: the
    `while increase` loop ends within `K^n + 1` passes. -/
theorem refineLoop_terminates (g : Graph Rat) (hg : GraphOK g) (res : Rat) (K : Nat) (labels : List Nat) :
    ∀ (fuel : Nat) (st : RSt Rat) (rands : List Nat) (seen : List (List Nat)), RInv g K labels st →
      seen.Nodup → (∀ l ∈ seen, l ∈ allLabelLists K g.n) → (∀ l ∈ seen, QG g res l < QG g res st.refined) →
      K ^ g.n + 1 ≤ fuel + seen.length →
      refineLoop g res labels fuel st rands ≠ none := by
  intro fuel
  induction fuel with
  | zero =>
    intro st rands seen _ hn hs _ hlen
    have := (List.subperm_of_subset hn (fun x hx => hs x hx)).length_le
    rw [length_allLabelLists] at this
    omega
  | succ fuel ih =>
    intro st rands seen hinv hn hs hq hlen
    obtain ⟨p1, p2, p3⟩ := rFold_gain g hg res K labels (List.range g.n) (fun i hi => List.mem_range.mp hi)
      st false rands hinv
    simp only [refineLoop]
    split
    · rename_i hflag
      have hQ := p3 hflag rfl
      have hmemU : st.refined ∈ allLabelLists K g.n := by
        apply mem_allLabelLists _ _ _ hinv.ref.len
        intro x hx
        obtain ⟨k, hk, rfl⟩ := List.getElem_of_mem hx
        have := hinv.bound k (by rw [← hinv.ref.len]; exact hk)
        simpa [labOf, List.getD_eq_getElem?_getD, List.getElem?_eq_getElem hk] using this
      have hnot : st.refined ∉ seen := fun hm => lt_irrefl _ (hq _ hm)
      refine ih _ _ (st.refined :: seen) p1 (List.nodup_cons.mpr ⟨hnot, hn⟩) ?_ ?_ ?_
      · intro l hl
        rcases List.mem_cons.mp hl with rfl | hl
        · exact hmemU
        · exact hs l hl
      · intro l hl
        rcases List.mem_cons.mp hl with rfl | hl
        · exact hQ
        · exact lt_trans (hq l hl) hQ
      · simp only [List.length_cons]
        omega
    · simp

/-- the loop without the pass cap (`refineLoop`, the reference loop of C06) ends within `K^n + 1` passes: the cap
    `n + 1` of the compiled kernel (`refineCapped`) is not what ends the loop in exact arithmetic within that budget -/
theorem refineCore_terminates (g : Graph Rat) (hg : GraphOK g) (res : Rat) (K : Nat) (labels : List Nat)
    (st : RSt Rat) (hinv : RInv g K labels st) (rands : List Nat) (fuel : Nat) (hf : K ^ g.n + 1 ≤ fuel) :
    refineLoop g res labels fuel st rands ≠ none :=
  refineLoop_terminates g hg res K labels fuel st rands [] hinv List.nodup_nil
    (by intro l hl; simp at hl) (by intro l hl; simp at hl) (by simpa using hf)

/-- the start of `Leiden._optimize_refine`: singletons, the node weights as cluster weights, zero scratch -/
theorem rinv_singletons (lv : Level) (hlv : LevelOK lv) (labels : List Nat) :
    RInv lv.graph lv.n labels
      { refined := arange lv.n, outCl := lv.outW, inCl := lv.inW, cw := tab lv.n fun _ => 0 } := by
  have hc := coreInv_singletons lv hlv
  refine ⟨⟨hc.len, ?_⟩, hc.bound, hc.lenO, hc.lenI, hc.lenC, hc.cwZero, hc.volO, hc.volI⟩
  intro u v hu hv huv
  have hu' : labOf (arange lv.n) u = u := labOf_range lv.n u hu
  have hv' : labOf (arange lv.n) v = v := labOf_range lv.n v hv
  have : u = v := by
    have h := huv
    simp only [Level.graph] at h
    rw [hu', hv'] at h
    exact h
  rw [this]

/-- **`Leiden._optimize_refine` terminates** (exact arithmetic, loop without the pass cap, from the start state of
    the wrapper), whatever `rand()` returns -/
theorem leidenRefine_terminates (lv : Level) (hlv : LevelOK lv) (res : Rat) (labels : List Nat) (rands : List Nat)
    (fuel : Nat) (hf : lv.n ^ lv.n + 1 ≤ fuel) :
    refineLoop lv.graph res labels fuel
      { refined := arange lv.n, outCl := lv.outW, inCl := lv.inW, cw := tab lv.n fun _ => 0 } rands ≠ none :=
  refineCore_terminates lv.graph hlv.graphOK res lv.n labels _ (rinv_singletons lv hlv labels) rands fuel hf

/-! ### the outer loop of `Leiden.fit` with its progress condition (/repo b2c73765) -/

theorem nLabels_uniqueInverse_le_length (l : List Nat) : nLabels (uniqueInverse l) ≤ l.length := by
  let D := l.foldl (fun s x => setInsert x s) []
  have hD : D.Pairwise (· < ·) := distinct_sorted l [] List.Pairwise.nil
  have hmem : ∀ y, y ∈ D ↔ y ∈ l := by
    intro y
    have := distinct_fold l [] y
    simpa using this
  have hnd : D.Nodup := hD.imp (fun h => Nat.ne_of_lt h)
  have hDlen : D.length ≤ l.length :=
    (List.subperm_of_subset hnd (fun y hy => (hmem y).mp hy)).length_le
  have hrank : ∀ r ∈ uniqueInverse l, r < D.length := by
    intro r hr
    simp only [uniqueInverse, List.mem_map] at hr
    obtain ⟨y, hy, rfl⟩ := hr
    apply List.length_filter_lt_length_iff_exists.mpr
    exact ⟨y, (hmem y).mpr hy, by simp⟩
  have := nLabels_le (uniqueInverse l) D.length hrank
  omega

/-- **The outer loop of `Leiden.fit` terminates** — for every tolerance, whatever the increase reported by the
    kernel is (so also under float32 noise: the argument does not look at it): since /repo b2c73765 a round that
    continues has merged at least one node (`ar.2.n ≠ lv.n`), and the aggregate of `n` refined labels never has more
    than `n` nodes; both kernels return by their pass caps.  `n + 1` rounds suffice. -/
theorem leidenLoop_terminates (res tolOpt tolAgg : Rat) (nAgg : Int) :
    ∀ (fuel count : Nat) (lv : Level) (labels memb : List Nat) (incs : List Rat) (rands : List (List Nat)),
      LevelOK lv → lv.n + 1 ≤ fuel →
      leidenLoop res tolOpt tolAgg nAgg fuel count lv labels memb incs rands ≠ none := by
  intro fuel
  induction fuel with
  | zero => intro count lv labels memb incs rands _ hf; omega
  | succ f ih =>
    intro count lv labels memb incs rands hlv hf
    simp only [leidenLoop]
    cases hopt : leidenOptimize lv res tolOpt labels with
    | none => simp [leidenOptimize] at hopt
    | some r =>
      obtain ⟨labels1, inc⟩ := r
      simp only
      cases href : leidenRefine lv res 0 (uniqueInverse labels1) (rands.headD []) with
      | none => simp [leidenRefine, refineCore] at href
      | some rr =>
        obtain ⟨refined0, rest⟩ := rr
        simp only
        split
        · simp
        · rename_i hstop
          simp only [Bool.or_eq_true, beq_iff_eq, decide_eq_true_eq, not_or, aggregateRefine] at hstop
          obtain ⟨⟨⟨-, hne⟩, -⟩, -⟩ := hstop
          have hinv := leiden_refine lv hlv res 0 (uniqueInverse labels1) (rands.headD []) refined0 rest href
          have hlen : (uniqueInverse refined0).length = lv.n := hinv.len
          have hle : (aggregate (uniqueInverse refined0) lv).n ≤ lv.n := by
            show nLabels (uniqueInverse refined0) ≤ lv.n
            have := nLabels_uniqueInverse_le_length refined0
            rw [uniqueInverse_length] at hlen
            omega
          have hlt : (aggregate (uniqueInverse refined0) lv).n < lv.n := by omega
          exact ih _ _ _ _ _ _ (aggregate_levelOK _ lv hlv hlen) (by simp only [aggregateRefine]; omega)

/-- **`Leiden.fit` terminates**: once the input is accepted, `n + 1` aggregation rounds are never exhausted, for every
    tolerance and every sequence of `rand()` values. -/
theorem leidenFit_terminates (kind : Kind) (res tolOpt tolAgg : Rat) (nAgg : Int) (nRow nCol nnz : Nat)
    (B : Nat → Nat → Rat) (fb : Bool) (rands : List (List Nat)) (lv : Level)
    (hpre : preProcess kind nRow nCol nnz B fb = .ok lv) (outerFuel : Nat) (hf : lv.n + 1 ≤ outerFuel) :
    leidenFit kind res tolOpt tolAgg nAgg nRow nCol nnz B fb outerFuel rands ≠ .ok none := by
  obtain ⟨w, _, hlv⟩ := preProcess_ok kind nRow nCol nnz B fb lv hpre
  have hok : LevelOK lv := by rw [hlv]; exact symLevel_levelOK _ _ _ _
  unfold leidenFit
  rw [hpre]
  simp only
  intro h
  have h' : leidenLoop res tolOpt tolAgg nAgg outerFuel 0 lv (arange lv.n) (arange lv.n) [] rands = none := by
    injection h
  exact leidenLoop_terminates res tolOpt tolAgg nAgg outerFuel 0 lv (arange lv.n) (arange lv.n) [] rands hok hf h'

end SkNet.Terminate
