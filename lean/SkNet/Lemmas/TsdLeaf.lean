/- The sampling distributions of `tree_sampling_divergence` read on the leaves: `edge_sampling[t]` and
   `node_sampling[t]` are the masses, under the edge distribution and under the product of the node distributions,
   of the pairs of nodes whose first common merge is `t` (rational part; the inequalities are in `TsdReal`). -/
import SkNet.Lemmas.DasguptaDef

set_option linter.unusedSimpArgs false
set_option linter.unusedVariables false

namespace SkNet.HMetrics
open SkNet SkNet.Dendro SkNet.Agg SkNet.Cut

variable {α : Type}

/-! ### the mass of the pairs separated by a merge -/

/-- mass under `P` of the ordered pairs of leaves separated by row `t` (and of the pairs inside a leaf merged there) -/
def pairAt (n : Nat) (P : Nat → Nat → ℚ) (D : Dendro α) (t : Nat) : ℚ :=
  match D[t]? with
  | none => 0
  | some r =>
    B P (leaves n D r.i) (leaves n D r.j) + B P (leaves n D r.j) (leaves n D r.i) +
      (if r.i < n then B P (leaves n D r.i) (leaves n D r.i) else 0) +
      (if r.j < n then B P (leaves n D r.j) (leaves n D r.j) else 0)

theorem pairAt_eq {n : Nat} (P : Nat → Nat → ℚ) {pre : Dendro α} {r : Row α}
    {rs : Dendro α} (hv : ValidDendro n (pre ++ r :: rs) = true) :
    pairAt n P (pre ++ r :: rs) pre.length =
      S (List.range n) (fun u => S (List.range n) (fun v =>
        if lcaRow n (pre ++ r :: rs) u v = some pre.length then P u v else 0)) := by
  obtain ⟨st, hc, hh, hr⟩ := hist_at hv
  obtain ⟨hbi, hbj, hne, _, _⟩ := valid_row hv
  have hli : leaves n (pre ++ r :: rs) r.i = leaves n pre r.i := leaves_append_lt n pre _ hbi
  have hlj : leaves n (pre ++ r :: rs) r.j = leaves n pre r.j := leaves_append_lt n pre _ hbj
  have hmi := Dict.get?_some_mem hr.ci
  have hmj := Dict.get?_some_mem hr.cj
  have hndi : (leaves n pre r.i).Nodup := cinv_nodup_val hc hmi
  have hndj : (leaves n pre r.j).Nodup := cinv_nodup_val hc hmj
  have hlti : ∀ x ∈ leaves n pre r.i, x < n := cinv_lt hc hmi
  have hltj : ∀ x ∈ leaves n pre r.j, x < n := cinv_lt hc hmj
  have hdisj : ∀ x, x ∈ leaves n pre r.i → x ∉ leaves n pre r.j := cinv_disjoint hc hmi hmj hne
  have hrow : (pre ++ r :: rs)[pre.length]? = some r := by
    rw [List.getElem?_append_right (Nat.le_refl _)]; simp
  unfold pairAt
  rw [hrow]
  simp only [hli, hlj]
  have hcond : ∀ u v, (if lcaRow n (pre ++ r :: rs) u v = some pre.length then P u v else 0) =
      (if u ∈ leaves n pre r.i ∧ v ∈ leaves n pre r.j then P u v else 0) +
      (if u ∈ leaves n pre r.j ∧ v ∈ leaves n pre r.i then P u v else 0) +
      (if r.i < n then (if u ∈ leaves n pre r.i ∧ v ∈ leaves n pre r.i then P u v else 0) else 0) +
      (if r.j < n then (if u ∈ leaves n pre r.j ∧ v ∈ leaves n pre r.j then P u v else 0) else 0) := by
    intro u v
    have hiff := lca_iff hv u v
    rw [hli, hlj] at hiff
    have du := hdisj u
    have dv := hdisj v
    by_cases a1 : u ∈ leaves n pre r.i <;> by_cases a2 : v ∈ leaves n pre r.i <;>
      by_cases a3 : u ∈ leaves n pre r.j <;> by_cases a4 : v ∈ leaves n pre r.j <;>
      by_cases a5 : r.i < n <;> by_cases a6 : r.j < n <;> simp_all
  simp only [hcond, S_add]
  rw [B_indicator P n _ _ hndi hndj hlti hltj, B_indicator P n _ _ hndj hndi hltj hlti]
  have h3 : S (List.range n) (fun u => S (List.range n) (fun v =>
      if r.i < n then (if u ∈ leaves n pre r.i ∧ v ∈ leaves n pre r.i then P u v else 0) else 0)) =
      (if r.i < n then B P (leaves n pre r.i) (leaves n pre r.i) else 0) := by
    by_cases h : r.i < n
    · simp only [h, if_true]; exact B_indicator P n _ _ hndi hndi hlti hlti
    · simp [h, S_zero]
  have h4 : S (List.range n) (fun u => S (List.range n) (fun v =>
      if r.j < n then (if u ∈ leaves n pre r.j ∧ v ∈ leaves n pre r.j then P u v else 0) else 0)) =
      (if r.j < n then B P (leaves n pre r.j) (leaves n pre r.j) else 0) := by
    by_cases h : r.j < n
    · simp only [h, if_true]; exact B_indicator P n _ _ hndj hndj hltj hltj
    · simp [h, S_zero]
  rw [h3, h4]

theorem B_transpose (P : Nat → Nat → ℚ) (a b : List Nat) : B (fun u v => P v u) a b = B P b a := by
  unfold B; rw [S_comm]

theorem B_add_div (f g : Nat → Nat → ℚ) (c : ℚ) (a b : List Nat) :
    B (fun u v => (f u v + g u v) / c) a b = (B f a b + B g a b) / c := by
  unfold B
  simp only [S_div, S_add]

theorem S_mul_left (l : List Nat) (f : Nat → ℚ) (c : ℚ) : S l (fun x => c * f x) = c * S l f := by
  induction l with
  | nil => simp [S]
  | cons a as ih => rw [S_cons, S_cons, ih]; ring

theorem B_prod (wr wc : Nat → ℚ) (a b : List Nat) : B (fun u v => wr u * wc v) a b = S a wr * S b wc := by
  unfold B
  simp only [S_mul_left, S_mul_right]

/-- `edge_sampling[t]` for a symmetric kernel -/
theorem edgeAt_eq_pairAt {n : Nat} {P : Nat → Nat → ℚ} (hP : ∀ u v, P u v = P v u) (D : Dendro α) (t : Nat) :
    edgeAt n P D t = pairAt n P D t := by
  unfold edgeAt pairAt
  cases D[t]? with
  | none => rfl
  | some r =>
    simp only
    rw [B_symm P hP (leaves n D r.j) (leaves n D r.i)]
    ring

/-- the symmetrised kernel has the same pair masses as the kernel itself -/
theorem pairAt_symmetrized (n : Nat) (A : Nat → Nat → ℚ) (D : Dendro α) (t : Nat) :
    pairAt n (fun u v => (A u v + A v u) / 2) D t = pairAt n A D t := by
  unfold pairAt
  cases D[t]? with
  | none => rfl
  | some r =>
    simp only
    simp only [B_add_div A (fun u v => A v u) 2, B_transpose]
    by_cases hi : r.i < n <;> by_cases hj : r.j < n <;> simp only [hi, hj, if_true, if_false] <;> ring

/-! ### `node_sampling[t]` -/

theorem samplingOf_node (n : Nat) (g : AggGraph ℚ) {i j : Nat} (hij : i ≠ j) :
    (samplingOf n g i j).2 =
      wOf g.outW i * wOf g.inW j + wOf g.outW j * wOf g.inW i +
        (if i < n then wOf g.outW i * wOf g.inW i else 0) + (if j < n then wOf g.outW j * wOf g.inW j else 0) := by
  unfold samplingOf
  simp only [hij, if_false, List.foldl_cons, List.foldl_nil]
  by_cases hi : i < n <;> by_cases hj : j < n <;> simp only [hi, hj, if_true, if_false] <;> ring

/-- `node_sampling[t]` read on the leaves of the dendrogram `D` -/
def nodeAt (n : Nat) (wr wc : Nat → ℚ) (D : Dendro α) (t : Nat) : ℚ :=
  match D[t]? with
  | none => 0
  | some r =>
    S (leaves n D r.i) wr * S (leaves n D r.j) wc + S (leaves n D r.j) wr * S (leaves n D r.i) wc +
      (if r.i < n then S (leaves n D r.i) wr * S (leaves n D r.i) wc else 0) +
      (if r.j < n then S (leaves n D r.j) wr * S (leaves n D r.j) wc else 0)

theorem nodeAt_eq_pairAt (n : Nat) (wr wc : Nat → ℚ) (D : Dendro α) (t : Nat) :
    nodeAt n wr wc D t = pairAt n (fun u v => wr u * wc v) D t := by
  unfold nodeAt pairAt
  cases D[t]? with
  | none => rfl
  | some r => simp only [B_prod]

theorem samplingLoop_node {n : Nat} {P : Nat → Nat → ℚ} {wr wc : Nat → ℚ} (D : Dendro α) :
    ∀ (rs pre : Dendro α) (g : AggGraph ℚ) (st : Dict (List Nat)) (acc : Sampling),
      D = pre ++ rs → JInv n pre.length g → LeafInv n P wr wc pre g st →
      validLoop n pre.length rs (sizesOf st) = true →
      acc.node = (List.range pre.length).map (nodeAt n wr wc D) →
      (samplingLoop n rs g acc).node = (List.range D.length).map (nodeAt n wr wc D) := by
  intro rs
  induction rs with
  | nil =>
    intro pre g st acc hD _ _ _ he
    have : D.length = pre.length := by rw [hD]; simp
    rw [this]
    exact he
  | cons r rs ih =>
    intro pre g st acc hD hJ hLf hv he
    have hl : (pre ++ [r]).length = pre.length + 1 := by simp
    have hD' : D = (pre ++ [r]) ++ rs := by simp [hD]
    unfold validLoop at hv
    simp only [get?_sizesOf] at hv
    cases hi : st.get? r.i with
    | none => simp [hi] at hv
    | some ci =>
      cases hj : st.get? r.j with
      | none => simp [hi, hj] at hv
      | some cj =>
        simp only [hi, hj, Option.map_some, Bool.and_eq_true, bne_iff_ne, ne_eq, beq_iff_eq] at hv
        obtain ⟨⟨hne, hs⟩, hrest⟩ := hv
        have hsz : ((Dict.erase (Dict.erase (sizesOf st) r.i) r.j).set (n + pre.length) r.s) =
            sizesOf (merged n st pre.length r.i r.j ci cj) := by
          unfold merged
          rw [erase_sizesOf, erase_sizesOf, hs, ← List.length_append, set_sizesOf]
        rw [hsz, ← hl] at hrest
        have hki : r.i ∈ Dict.keys g.outW := by rw [hLf.keysSt]; exact Dict.get?_some_key_mem hi
        have hkj : r.j ∈ Dict.keys g.outW := by rw [hLf.keysSt]; exact Dict.get?_some_key_mem hj
        have hbi := hJ.bound _ hki
        have hbj := hJ.bound _ hkj
        obtain ⟨hJ', _, _, _, _⟩ := jinv_step hJ hki hkj hne
        have hLf' := leafInv_step hJ hLf hi hj hne
        have hrow : D[pre.length]? = some r := by
          rw [hD, List.getElem?_append_right (Nat.le_refl _)]; simp
        have hli : leaves n D r.i = leaves n pre r.i := by rw [hD]; exact leaves_append_lt n pre _ hbi
        have hlj : leaves n D r.j = leaves n pre r.j := by rw [hD]; exact leaves_append_lt n pre _ hbj
        have hnode : (samplingOf n g r.i r.j).2 = nodeAt n wr wc D pre.length := by
          obtain ⟨vi, hvi⟩ := keys_get? hki
          obtain ⟨vj, hvj⟩ := keys_get? hkj
          obtain ⟨ui, hui⟩ := keys_get? (d := g.inW) (by rw [hJ.keysEq]; exact hki)
          obtain ⟨uj, huj⟩ := keys_get? (d := g.inW) (by rw [hJ.keysEq]; exact hkj)
          rw [samplingOf_node n g hne]
          unfold nodeAt wOf
          rw [hrow]
          simp only [hvi, hvj, hui, huj, Option.getD_some, hli, hlj]
          rw [← hLf.outLeaf r.i vi hvi, ← hLf.outLeaf r.j vj hvj, ← hLf.inLeaf r.i ui hui, ← hLf.inLeaf r.j uj huj]
        unfold samplingLoop
        rw [← hl] at hJ'
        refine ih (pre ++ [r]) _ _ _ hD' hJ' hLf' hrest ?_
        simp only [hl, List.range_succ, List.map_append, List.map_cons, List.map_nil, he, hnode]

/-! ### every pair of leaves has a first common merge, and it does not depend on the order of the pair -/

theorem lcaRow_symm (n : Nat) (D : Dendro α) (u v : Nat) : lcaRow n D u v = lcaRow n D v u := by
  unfold lcaRow
  congr 1
  funext t
  exact Bool.and_comm _ _

/-- the last row of a valid dendrogram contains every leaf -/
theorem root_leaves {n : Nat} {pre : Dendro α} {r : Row α} (hv : ValidDendro n (pre ++ [r]) = true) :
    ∀ u, u < n → u ∈ leaves n (pre ++ [r]) (n + pre.length) := by
  have hlen := valid_length hv
  obtain ⟨st, _, hc, hr, hcount⟩ := valid_at (rs := []) hv
  have hc1 := cinv_merge hc r hr.ci hr.cj hr.ne
  have hl1 := length_merged hc hr.ci hr.cj hr.ne
  have hst : st.length = 2 := by
    simp only [List.length_append, List.length_cons, List.length_nil] at hlen
    omega
  obtain ⟨p0, hp0⟩ : ∃ p0, merged n st pre.length r.i r.j (leaves n pre r.i) (leaves n pre r.j) = [p0] := by
    match hm : merged n st pre.length r.i r.j (leaves n pre r.i) (leaves n pre r.j), hl1 with
    | [p], _ => exact ⟨p, rfl⟩
    | [], h => simp at h; omega
    | _ :: _ :: _, h => simp at h; omega
  have hnew : (merged n st pre.length r.i r.j (leaves n pre r.i) (leaves n pre r.j)).get? (n + pre.length) =
      some (leaves n pre r.i ++ leaves n pre r.j) := by
    unfold merged; rw [Dict.get?_set]; simp
  have hmem := Dict.get?_some_mem hnew
  rw [hp0] at hmem
  simp only [List.mem_cons, List.not_mem_nil, or_false] at hmem
  have hperm := hc1.perm
  rw [hp0, ← hmem] at hperm
  simp only [Dict.values, List.map_cons, List.map_nil, List.flatten_cons, List.flatten_nil, List.append_nil] at hperm
  intro u hu
  rw [leaves_new]
  exact hperm.mem_iff.mpr (List.mem_range.mpr hu)

theorem lca_total {n : Nat} {D : Dendro α} (hn : 2 ≤ n) (hv : ValidDendro n D = true) {u v : Nat} (hu : u < n)
    (hv' : v < n) : ∃ t, t < D.length ∧ lcaRow n D u v = some t := by
  have hlen := valid_length hv
  obtain ⟨pre, r, hD⟩ : ∃ pre r, D = pre ++ [r] := by
    rcases List.eq_nil_or_concat D with h | ⟨pre, r, h⟩
    · subst h; simp at hlen; omega
    · exact ⟨pre, r, by rw [h, List.concat_eq_append]⟩
  subst hD
  have hroot := root_leaves hv
  have hsome : (lcaRow n (pre ++ [r]) u v).isSome = true := by
    unfold lcaRow
    rw [List.find?_isSome]
    refine ⟨pre.length, by simp, ?_⟩
    simp only [Bool.and_eq_true, List.contains_iff_mem]
    exact ⟨hroot u hu, hroot v hv'⟩
  obtain ⟨t, ht⟩ := Option.isSome_iff_exists.mp hsome
  exact ⟨t, ((find?_range _ _ _).mp ht).1, ht⟩

end SkNet.HMetrics
