/-
UTF-8: the strict decoder of Spec/Xml.lean reads back what `utf8Encode` (Model/Xml.lean) wrote, and every string
made of XML characters can be encoded.  So the file a drawing is written to decodes to the returned string.
-/
import SkNet.Lemmas.XmlParse

namespace SkNet.Svg

theorem utf8Cp_decode (c : Nat) (b rest : List Nat) (f : Nat) (h : utf8Cp c = some b) :
    utf8DecodeF (f + 1) (b ++ rest) = (utf8DecodeF f rest).map (c :: ·) := by
  unfold utf8Cp at h
  split at h
  · -- one byte
    rename_i h1
    simp only [Option.some.injEq] at h
    subst h
    simp [utf8DecodeF, h1]
  split at h
  · -- two bytes
    rename_i h1 h2
    simp only [Option.some.injEq] at h
    subst h
    have a1 : ¬ (0xC0 + c / 64 < 0x80) := by omega
    have a2 : 0xC2 ≤ 0xC0 + c / 64 ∧ 0xC0 + c / 64 ≤ 0xDF := by omega
    have a3 : isCont (0x80 + c % 64) = true := by simp [isCont]; omega
    have a4 : (0xC0 + c / 64 - 0xC0) * 64 + (0x80 + c % 64 - 0x80) = c := by omega
    simp only [List.cons_append, List.nil_append, utf8DecodeF, a1, a2, a3, a4, if_false, if_true, and_self]
  split at h
  · simp at h
  split at h
  · -- three bytes
    rename_i h1 h2 h3 h4
    simp only [Option.some.injEq] at h
    subst h
    have a1 : ¬ (0xE0 + c / 4096 < 0x80) := by omega
    have a2 : ¬ (0xC2 ≤ 0xE0 + c / 4096 ∧ 0xE0 + c / 4096 ≤ 0xDF) := by omega
    have a3 : 0xE0 ≤ 0xE0 + c / 4096 ∧ 0xE0 + c / 4096 ≤ 0xEF := by omega
    have a4 : isCont (0x80 + c / 64 % 64) = true := by simp [isCont]; omega
    have a5 : isCont (0x80 + c % 64) = true := by simp [isCont]; omega
    have a6 : (0xE0 + c / 4096 - 0xE0) * 4096 + (0x80 + c / 64 % 64 - 0x80) * 64 + (0x80 + c % 64 - 0x80) = c := by
      omega
    simp only [List.cons_append, List.nil_append, utf8DecodeF, a1, a2, a3, a4, a5, a6, if_false, if_true, and_self,
      true_and]
    have a7 : 0x800 ≤ c ∧ ¬ (0xD800 ≤ c ∧ c ≤ 0xDFFF) := ⟨by omega, h3⟩
    simp only [a7, not_false_eq_true, and_self, if_true]
  split at h
  · -- four bytes
    rename_i h1 h2 h3 h4 h5
    simp only [Option.some.injEq] at h
    subst h
    have a1 : ¬ (0xF0 + c / 262144 < 0x80) := by omega
    have a2 : ¬ (0xC2 ≤ 0xF0 + c / 262144 ∧ 0xF0 + c / 262144 ≤ 0xDF) := by omega
    have a3 : ¬ (0xE0 ≤ 0xF0 + c / 262144 ∧ 0xF0 + c / 262144 ≤ 0xEF) := by omega
    have a4 : 0xF0 ≤ 0xF0 + c / 262144 ∧ 0xF0 + c / 262144 ≤ 0xF4 := by omega
    have a5 : isCont (0x80 + c / 4096 % 64) = true := by simp [isCont]; omega
    have a6 : isCont (0x80 + c / 64 % 64) = true := by simp [isCont]; omega
    have a7 : isCont (0x80 + c % 64) = true := by simp [isCont]; omega
    have a8 : (0xF0 + c / 262144 - 0xF0) * 262144 + (0x80 + c / 4096 % 64 - 0x80) * 4096 +
        (0x80 + c / 64 % 64 - 0x80) * 64 + (0x80 + c % 64 - 0x80) = c := by omega
    simp only [List.cons_append, List.nil_append, utf8DecodeF, a1, a2, a3, a4, a5, a6, a7, a8, if_false, if_true,
      and_self, true_and]
    have a9 : 0x10000 ≤ c ∧ c < 0x110000 := by omega
    simp only [a9, and_self, if_true]
  · simp at h

theorem utf8Cp_length (c : Nat) (b : List Nat) (h : utf8Cp c = some b) : 1 ≤ b.length := by
  unfold utf8Cp at h
  repeat' split at h
  all_goals first
    | (simp at h; done)
    | (simp only [Option.some.injEq] at h; subst h; simp)

theorem utf8_decode_encode (s : PyStr) : ∀ (bytes : List Nat), utf8Encode s = some bytes →
    s.length ≤ bytes.length ∧ ∀ f, s.length < f → utf8DecodeF f bytes = some s := by
  induction s with
  | nil =>
    intro bytes h
    simp only [utf8Encode, Option.some.injEq] at h
    subst h
    refine ⟨by simp, fun f hf => ?_⟩
    obtain ⟨f', rfl⟩ : ∃ f', f = f' + 1 := ⟨f - 1, by simp at hf; omega⟩
    rfl
  | cons c s ih =>
    intro bytes h
    simp only [utf8Encode] at h
    split at h
    · rename_i b r hb hr
      simp only [Option.some.injEq] at h
      subst h
      obtain ⟨h1, h2⟩ := ih r hr
      have hl := utf8Cp_length c b hb
      refine ⟨by simp; omega, fun f hf => ?_⟩
      obtain ⟨f', rfl⟩ : ∃ f', f = f' + 1 := ⟨f - 1, by simp at hf; omega⟩
      rw [utf8Cp_decode c b r f' hb, h2 f' (by simp at hf; omega)]
      rfl
    · simp at h

/-- the strict decoder reads back what the encoder wrote -/
theorem utf8_roundtrip (s : PyStr) (bytes : List Nat) (h : utf8Encode s = some bytes) :
    utf8Decode bytes = some s := by
  obtain ⟨h1, h2⟩ := utf8_decode_encode s bytes h
  exact h2 _ (by omega)

theorem utf8Cp_xml (c : Nat) (h : isXmlChar c = true) : ∃ b, utf8Cp c = some b := by
  simp only [isXmlChar, Bool.or_eq_true, beq_iff_eq, Bool.and_eq_true, decide_eq_true_eq] at h
  unfold utf8Cp
  repeat' split
  all_goals first
    | exact ⟨_, rfl⟩
    | (exfalso; omega)

/-- a string of XML characters can always be written -/
theorem utf8Encode_xml (s : PyStr) (h : s.all isXmlChar = true) : ∃ bytes, utf8Encode s = some bytes := by
  induction s with
  | nil => exact ⟨[], rfl⟩
  | cons c s ih =>
    simp only [List.all_cons, Bool.and_eq_true] at h
    obtain ⟨b, hb⟩ := utf8Cp_xml c h.1
    obtain ⟨r, hr⟩ := ih h.2
    exact ⟨b ++ r, by simp [utf8Encode, hb, hr]⟩

/-! ### a rendered document consists of XML characters -/

theorem isWs_xml {c : Nat} (h : isWs c = true) : isXmlChar c = true := by
  simp only [isWs, Bool.or_eq_true, beq_iff_eq] at h
  rcases h with ((h | h) | h) | h <;> subst h <;> decide

theorem isNameChar_xml {c : Nat} (h : isNameChar c = true) : isXmlChar c = true := by
  simp only [isNameChar, isNameStart, Bool.or_eq_true, Bool.and_eq_true, decide_eq_true_eq, beq_iff_eq] at h
  simp only [isXmlChar, Bool.or_eq_true, beq_iff_eq, Bool.and_eq_true, decide_eq_true_eq]
  omega

theorem all_xml_of_all {p : Nat → Bool} (hp : ∀ c, p c = true → isXmlChar c = true) {l : PyStr}
    (h : l.all p = true) : l.all isXmlChar = true := by
  rw [List.all_eq_true] at h ⊢
  exact fun c hc => hp c (h c hc)

theorem isHexDigit_xml {c : Nat} (h : isHexDigit c = true) : isXmlChar c = true := by
  simp only [isHexDigit, isDigit, Bool.or_eq_true, Bool.and_eq_true, decide_eq_true_eq] at h
  simp only [isXmlChar, Bool.or_eq_true, beq_iff_eq, Bool.and_eq_true, decide_eq_true_eq]
  omega

theorem isDigit_xml {c : Nat} (h : isDigit c = true) : isXmlChar c = true := by
  simp only [isDigit, Bool.and_eq_true, decide_eq_true_eq] at h
  simp only [isXmlChar, Bool.or_eq_true, beq_iff_eq, Bool.and_eq_true, decide_eq_true_eq]
  omega

theorem refOk_xml {b : PyStr} (h : refOk b = true) : b.all isXmlChar = true := by
  unfold refOk at h
  simp only [Bool.or_eq_true, beq_iff_eq] at h
  rcases h with ((((h | h) | h) | h) | h) | h
  · subst h; decide
  · subst h; decide
  · subst h; decide
  · subst h; decide
  · subst h; decide
  · split at h
    · rename_i ds
      simp only [Bool.and_eq_true] at h
      have := all_xml_of_all (fun c => isHexDigit_xml) h.1.2
      simp only [List.all_cons, this, Bool.and_true]
      decide
    · rename_i ds _
      simp only [Bool.and_eq_true] at h
      have := all_xml_of_all (fun c => isDigit_xml) h.1.2
      simp only [List.all_cons, this, Bool.and_true]
      decide
    · simp at h

theorem valOk_xml {q : Nat} {v : PyStr} (h : ValOk q v) : v.all isXmlChar = true := by
  induction h with
  | nil => rfl
  | chr c r h1 _ _ _ _ ih => simp [h1, ih]
  | ref b r h1 _ _ ih =>
    have hb := refOk_xml h1
    simp only [List.all_cons, List.all_append, hb, ih, Bool.and_true, Bool.true_and]
    decide

theorem nameOk_xml {n : PyStr} (h : nameOk n = true) : n.all isXmlChar = true :=
  all_xml_of_all (fun _ => isNameChar_xml) (nameOk_all h)

theorem renderAttrs_xml {as : List Attr} (h : as.all attrLexOk = true) : (renderAttrs as).all isXmlChar = true := by
  induction as with
  | nil => rfl
  | cons a as ih =>
    simp only [List.all_cons, Bool.and_eq_true] at h
    obtain ⟨ha, has⟩ := h
    simp only [attrLexOk, Bool.and_eq_true, Bool.or_eq_true, beq_iff_eq] at ha
    obtain ⟨⟨⟨⟨_, hsep⟩, hkey⟩, hq⟩, hval⟩ := ha
    have h1 := all_xml_of_all (fun _ => isWs_xml) hsep
    have h2 := nameOk_xml hkey
    have h3 : a.val.all isXmlChar = true := valOk_xml (ValOk.of_check _ _ hval)
    have h4 : isXmlChar a.q = true := by rcases hq with h | h <;> rw [h] <;> decide
    simp only [renderAttrs, renderAttr, List.all_append, List.all_cons, List.all_nil, h1, h2, h3, h4, ih has,
      Bool.and_true, Bool.true_and]
    decide

theorem renderPiece_xml {p : Piece} (h : pieceLexOk p = true) : (renderPiece p).all isXmlChar = true := by
  cases p with
  | otag n as t =>
    simp only [pieceLexOk, Bool.and_eq_true] at h
    have h1 := nameOk_xml h.1.1
    have h2 := renderAttrs_xml h.1.2
    have h3 := all_xml_of_all (fun _ => isWs_xml) h.2
    simp only [renderPiece, List.all_cons, List.all_append, List.all_nil, h1, h2, h3, Bool.and_true, Bool.true_and]
    decide
  | etag n as t =>
    simp only [pieceLexOk, Bool.and_eq_true] at h
    have h1 := nameOk_xml h.1.1
    have h2 := renderAttrs_xml h.1.2
    have h3 := all_xml_of_all (fun _ => isWs_xml) h.2
    simp only [renderPiece, List.all_cons, List.all_append, List.all_nil, h1, h2, h3, Bool.and_true, Bool.true_and]
    decide
  | ctag n t =>
    simp only [pieceLexOk, Bool.and_eq_true] at h
    have h1 := nameOk_xml h.1
    have h3 := all_xml_of_all (fun _ => isWs_xml) h.2
    simp only [renderPiece, List.all_cons, List.all_append, List.all_nil, h1, h3, Bool.and_true, Bool.true_and]
    decide
  | chr c =>
    simp only [pieceLexOk, textCharOk, Bool.and_eq_true] at h
    simp [renderPiece, h.1.1.1]
  | ref b =>
    simp only [pieceLexOk, Bool.and_eq_true] at h
    have h1 := refOk_xml h.1
    simp only [renderPiece, List.all_cons, List.all_append, List.all_nil, h1, Bool.and_true, Bool.true_and]
    decide

theorem render_xml {ps : List Piece} (h : piecesLexOk ps = true) : (render ps).all isXmlChar = true := by
  induction ps with
  | nil => rfl
  | cons p ps ih =>
    simp only [piecesLexOk, List.all_cons, Bool.and_eq_true] at h
    simp only [render, List.all_append, renderPiece_xml h.1, Bool.true_and]
    exact ih h.2

/-- a lexically sound document can always be written, and the file decodes to the rendered string -/
theorem render_file (ps : List Piece) (h : piecesLexOk ps = true) :
    ∃ bytes, utf8Encode (render ps) = some bytes ∧ utf8Decode bytes = some (render ps) := by
  obtain ⟨bytes, hb⟩ := utf8Encode_xml _ (render_xml h)
  exact ⟨bytes, hb, utf8_roundtrip _ _ hb⟩

end SkNet.Svg
