/-
The aggregation loop of `Louvain.fit` keeps a well-formed membership: invariant over the levels (C05).
-/
import SkNet.Lemmas.ClusteringMember
import SkNet.Lemmas.ClusteringUnshuffle

namespace SkNet.Clustering

/-- contract of the Louvain kernel (`optimize_core` mutates and returns the label array it was given):
    one label per node of the current level -/
def KernelLen (kernel : Nat → Nat → List Int × Bool) : Prop :=
  ∀ count n, (kernel count n).1.length = n

/-- `a'` is a coarsening of `a`: positions with equal labels in `a` have equal labels in `a'` -/
def Coarser (a a' : List Nat) : Prop :=
  a.length = a'.length ∧ ∀ i j : Nat, a[i]? = a[j]? → a'[i]? = a'[j]?

theorem Coarser.refl (a : List Nat) : Coarser a a := ⟨rfl, fun _ _ h => h⟩

theorem Coarser.trans {a b c : List Nat} (h1 : Coarser a b) (h2 : Coarser b c) : Coarser a c :=
  ⟨h1.1.trans h2.1, fun i j h => h2.2 i j (h1.2 i j h)⟩

theorem unique_length_pos {l : List Int} (h : l ≠ []) : 0 < (unique l).length := by
  cases l with
  | nil => exact absurd rfl h
  | cons x xs =>
    have : x ∈ unique (x :: xs) := mem_unique.mpr (by simp)
    exact List.length_pos_of_mem this

/-- one round of the loop, as an equation on label vectors -/
theorem louvain_step {raw : List Int} {a : List Nat} {n : Nat} (hn : 0 < n) (hraw : raw.length = n)
    (ha : Contiguous a n) :
    ∃ a' k, 0 < k ∧ k = (unique raw).length ∧
      getMembership ((inverse raw).map Int.ofNat) none = .ok (ofLabels (inverse raw) k) ∧
      dot (ofLabels a n) (ofLabels (inverse raw) k) = .ok (ofLabels a' k) ∧
      a'.length = a.length ∧ Contiguous a' k ∧ Coarser a a' := by
  have hne : raw ≠ [] := by intro h; subst h; simp at hraw; omega
  have hne' : inverse raw ≠ [] := by
    intro h; have := inverse_length raw; rw [h] at this; exact hne (List.eq_nil_of_length_eq_zero this.symm)
  have hc := inverse_contiguous raw
  have hk := nLabels_of_contiguous hc
  refine ⟨a.map fun x => (inverse raw).getD x 0, (unique raw).length, unique_length_pos hne, rfl, ?_, ?_, ?_, ?_, ?_⟩
  · rw [getMembership_ofNat hne', hk]
  · apply dot_ofLabels
    · rw [inverse_length, hraw]
    · intro x hx; rw [inverse_length, hraw]; exact ha.1 x hx
  · simp
  · exact compose_contiguous ha hc (by rw [inverse_length, hraw])
  · exact ⟨by simp, fun i j h => compose_coarser h⟩

/-- ★ invariant of the loop of `Louvain.fit`: it never raises; when it stops the membership matrix is the
    one-hot matrix of a labelling of the original nodes with labels exactly `0..k-1`, coarser than the
    labelling it started the round with. -/
theorem louvainLoop_spec {kernel : Nat → Nat → List Int × Bool} {nAgg : Int} (hk : KernelLen kernel) :
    ∀ (fuel count n : Nat) (a : List Nat), 0 < n → Contiguous a n →
      louvainLoop kernel nAgg fuel count n (ofLabels a n) = .ok none ∨
      ∃ a' k count', louvainLoop kernel nAgg fuel count n (ofLabels a n) = .ok (some (ofLabels a' k, count')) ∧
        a'.length = a.length ∧ 0 < k ∧ Contiguous a' k ∧ Coarser a a' := by
  intro fuel
  induction fuel with
  | zero => intro count n a _ _; left; rfl
  | succ fuel ih =>
    intro count n a hn ha
    obtain ⟨a', k, hkpos, hkeq, hgm, hdot, hlen, hcont, hco⟩ :=
      louvain_step hn (hk (count + 1) n) ha
    unfold louvainLoop
    simp only [hgm, hdot, bind, Except.bind, pure, Except.pure]
    have hncol : (ofLabels (inverse (kernel (count + 1) n).1) k).nCol = k := rfl
    rw [hncol]
    split
    · right
      exact ⟨a', k, count + 1, rfl, hlen, hkpos, hcont, hco⟩
    · rcases ih (count + 1) k a' hkpos hcont with h | ⟨a'', k'', c'', h, hl'', hp'', hc'', hco''⟩
      · left; exact h
      · right
        exact ⟨a'', k'', c'', h, hl''.trans hlen, hp'', hc'', hco.trans hco''⟩

/-- with a positive `n_aggregations` the loop needs at most `n_aggregations` rounds: that much fuel suffices -/
theorem louvainLoop_fuel_nAgg {kernel : Nat → Nat → List Int × Bool} {nAgg : Int} (hk : KernelLen kernel) :
    ∀ (fuel count n : Nat) (a : List Nat), 0 < n → Contiguous a n → (count : Int) < nAgg →
      nAgg ≤ (count : Int) + fuel →
      louvainLoop kernel nAgg fuel count n (ofLabels a n) ≠ .ok none := by
  intro fuel
  induction fuel with
  | zero => intro count n a _ _ h1 h2; omega
  | succ fuel ih =>
    intro count n a hn ha h1 h2
    obtain ⟨a', k, hkpos, hkeq, hgm, hdot, hlen, hcont, hco⟩ :=
      louvain_step hn (hk (count + 1) n) ha
    unfold louvainLoop
    simp only [hgm, hdot, bind, Except.bind, pure, Except.pure]
    have hncol : (ofLabels (inverse (kernel (count + 1) n).1) k).nCol = k := rfl
    rw [hncol]
    split
    · intro h; cases h
    · rename_i hstop
      have hne : ((count + 1 : Nat) : Int) ≠ nAgg := by
        intro he
        apply hstop
        simp [he]
      exact ih (count + 1) k a' hkpos hcont (by omega) (by omega)

/-- second clause of the kernel contract, true of `optimize_core` when `tol_aggregation ≥ 0` (C17,
    `louvain_outer_terminates`: a round with `increase > 0` makes some node leave its singleton, whose label then
    disappears): if the kernel returns pairwise distinct labels (no merge), then `increase ≤ tol_aggregation` -/
def NoMergeStops (kernel : Nat → Nat → List Int × Bool) : Prop :=
  ∀ count n, (unique (kernel count n).1).length = n → (kernel count n).2 = true

theorem unique_length_le (l : List Int) : (unique l).length ≤ l.length :=
  (List.subperm_of_subset (unique_nodup l) (fun _ hx => mem_unique.mp hx)).length_le

/-- ★ under the two clauses of the kernel contract the loop of `Louvain.fit` stops by itself, whatever
    `n_aggregations` is (the default `-1` included): every round that does not stop strictly decreases the number of
    nodes, so as many rounds as there are nodes suffice -/
theorem louvainLoop_fuel {kernel : Nat → Nat → List Int × Bool} {nAgg : Int} (hk : KernelLen kernel)
    (hs : NoMergeStops kernel) :
    ∀ (fuel count n : Nat) (a : List Nat), 0 < n → Contiguous a n → n ≤ fuel →
      louvainLoop kernel nAgg fuel count n (ofLabels a n) ≠ .ok none := by
  intro fuel
  induction fuel with
  | zero => intro count n a hn _ h; omega
  | succ fuel ih =>
    intro count n a hn ha hf
    obtain ⟨a', k, hkpos, hkeq, hgm, hdot, hlen, hcont, hco⟩ :=
      louvain_step hn (hk (count + 1) n) ha
    unfold louvainLoop
    simp only [hgm, hdot, bind, Except.bind, pure, Except.pure]
    have hncol : (ofLabels (inverse (kernel (count + 1) n).1) k).nCol = k := rfl
    rw [hncol]
    split
    · intro h; cases h
    · rename_i hstop
      have hflag : (kernel (count + 1) n).2 = false := by
        cases hfl : (kernel (count + 1) n).2 with
        | false => rfl
        | true => exfalso; apply hstop; simp [hfl]
      have hle : k ≤ n := by
        rw [hkeq]; have := unique_length_le (kernel (count + 1) n).1; rw [hk (count + 1) n] at this; exact this
      have hne : k ≠ n := by
        intro he
        have := hs (count + 1) n (by rw [← hkeq, he])
        rw [hflag] at this; cases this
      exact ih (count + 1) k a' hkpos hcont (by omega)

end SkNet.Clustering
