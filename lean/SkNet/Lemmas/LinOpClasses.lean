/-
C15 lemmas: Normalizer, Laplacian, CoNeighbor — products equal the products by their dense matrices,
the constructors give the documented matrices, the operations are the dense operations.
-/
import SkNet.Lemmas.LinOpFormat

namespace SkNet.LinOp
open SkNet

theorem sumTo_const (n : Nat) (c : Rat) : sumTo n (fun _ => c) = (n : Rat) * c := by
  induction n with
  | zero => simp
  | succ n ih => rw [sumTo_succ, ih]; push_cast; ring

theorem vsum_tab (n : Nat) (f : Nat → Rat) : vsum (tab n f) = sumTo n f := by
  unfold vsum
  rw [tab_length]
  apply sumTo_congr; intro k hk
  simp [hk]

/-! ### Normalizer -/

namespace Normalizer

@[simp] theorem dense_nRow (n : Normalizer) : n.dense.nRow = n.adj.nRow := rfl
@[simp] theorem dense_nCol (n : Normalizer) : n.dense.nCol = n.adj.nCol := rfl

theorem get_dense (n : Normalizer) {i j : Nat} (hi : i < n.adj.nRow) (hj : j < n.adj.nCol) :
    n.dense.get i j = vget n.normDiag i * (n.adj.get i j + if n.reg > 0 then n.reg / (n.adj.nCol : Rat) else 0) := by
  unfold dense; rw [Mat.get_ofFn]; simp [hi, hj]

theorem matvec_length (n : Normalizer) (v : Vec) : (n.matvec v).length = n.adj.nRow := by
  unfold matvec; simp

/-- **`_matvec` of a Normalizer is the product by its dense matrix** -/
theorem matvec_eq_dense (n : Normalizer) (v : Vec) (hv : v.length = n.adj.nCol) :
    n.matvec v = n.dense.mulVec v := by
  apply vec_ext (by rw [matvec_length]; simp)
  intro i hi
  rw [matvec_length] at hi
  rw [Mat.vget_mulVec, dense_nCol]
  have e : sumTo n.adj.nCol (fun j => n.dense.get i j * vget v j)
      = sumTo n.adj.nCol (fun j => vget n.normDiag i *
          (n.adj.get i j * vget v j + (if n.reg > 0 then n.reg / (n.adj.nCol : Rat) else 0) * vget v j)) := by
    apply sumTo_congr; intro j hj
    rw [get_dense n hi hj]; ring
  rw [e, sumTo_mul_left, sumTo_add, sumTo_mul_left]
  unfold matvec
  simp only [vget_tab, hi, if_true]
  by_cases hr : n.reg > 0
  · simp only [hr, if_true, vget_tab, hi, Mat.vget_mulVec]
    unfold vmean vsum
    rw [hv]; ring
  · simp only [hr, if_false, Mat.vget_mulVec]; ring

theorem rmatvec_length (n : Normalizer) (v : Vec) : (n.rmatvec v).length = n.adj.nCol := by
  unfold rmatvec
  by_cases hr : n.reg > 0 <;> simp [hr]

/-- **`_rmatvec` of a Normalizer is the product by the transposed dense matrix** -/
theorem rmatvec_eq_dense (n : Normalizer) (v : Vec) : n.rmatvec v = n.dense.transpose.mulVec v := by
  apply vec_ext (by rw [rmatvec_length]; simp)
  intro j hj
  rw [rmatvec_length] at hj
  rw [Mat.vget_mulVec]
  simp only [Mat.transpose_nCol, dense_nRow, Mat.get_transpose]
  have e : sumTo n.adj.nRow (fun i => n.dense.get i j * vget v i)
      = sumTo n.adj.nRow (fun i => n.adj.get i j * (vget n.normDiag i * vget v i)
          + (if n.reg > 0 then n.reg / (n.adj.nCol : Rat) else 0) * (vget n.normDiag i * vget v i)) := by
    apply sumTo_congr; intro i hi
    rw [get_dense n hi hj]; ring
  rw [e, sumTo_add, sumTo_mul_left]
  unfold rmatvec
  have hwl : (tab n.adj.nRow fun i => vget n.normDiag i * vget v i).length = n.adj.nRow := by simp
  have hw : ∀ i, i < n.adj.nRow →
      vget (tab n.adj.nRow fun i => vget n.normDiag i * vget v i) i = vget n.normDiag i * vget v i := by
    intro i hi; simp [hi]
  generalize (tab n.adj.nRow fun i => vget n.normDiag i * vget v i) = w at hwl hw
  have hs : sumTo n.adj.nRow (fun i => n.adj.get i j * vget w i)
      = sumTo n.adj.nRow (fun i => n.adj.get i j * (vget n.normDiag i * vget v i)) :=
    sumTo_congr (fun i hi => by rw [hw i hi])
  have hsum : vsum w = sumTo n.adj.nRow (fun i => vget n.normDiag i * vget v i) := by
    unfold vsum; rw [hwl]; exact sumTo_congr (fun i hi => hw i hi)
  by_cases hr : n.reg > 0
  · simp only [hr, if_true]
    rw [vget_tab, if_pos hj, Mat.vget_mulVec]
    simp only [Mat.transpose_nCol, Mat.get_transpose]
    rw [hs, hsum]; ring
  · simp only [hr, if_false]
    rw [Mat.vget_mulVec]
    simp only [Mat.transpose_nCol, Mat.get_transpose]
    rw [hs]; ring

/-- **2-d branch of `_matvec`** -/
theorem matmat_eqv_dense (n : Normalizer) (x : Mat) (hx : x.nRow = n.adj.nCol) :
    Mat.Eqv (n.matmat x) (n.dense.mul x) := by
  refine ⟨rfl, rfl, fun i k => ?_⟩
  unfold matmat
  rw [Mat.get_ofFn, Mat.get_mul, dense_nCol]
  by_cases hik : i < n.adj.nRow ∧ k < x.nCol
  · obtain ⟨hi, hk⟩ := hik
    simp only [hi, hk, and_self, if_true]
    have e : sumTo n.adj.nCol (fun j => n.dense.get i j * x.get j k)
        = sumTo n.adj.nCol (fun j => vget n.normDiag i *
            (n.adj.get i j * x.get j k + (if n.reg > 0 then n.reg / (n.adj.nCol : Rat) else 0) * x.get j k)) := by
      apply sumTo_congr; intro j hj
      rw [get_dense n hi hj]; ring
    rw [e, sumTo_mul_left, sumTo_add, sumTo_mul_left]
    by_cases hr : n.reg > 0
    · simp only [hr, if_true, Mat.get_ofFn, hi, hk, and_self, Mat.get_mul]
      unfold Mat.col
      rw [vsum_tab, hx]; ring
    · simp only [hr, if_false, Mat.get_mul]; ring
  · simp only [hik, if_false]
    symm; apply sumTo_eq_zero; intro j _
    by_cases hi : i < n.adj.nRow
    · have hk : x.nCol ≤ k := Nat.le_of_not_lt (fun c => hik ⟨hi, c⟩)
      rw [Mat.get_of_col_ge j hk]; ring
    · rw [Mat.get_of_row_ge j (by simpa using Nat.le_of_not_lt hi)]; ring

/-- **2-d branch of `_rmatvec`** -/
theorem rmatmat_eqv_dense (n : Normalizer) (x : Mat) : Mat.Eqv (n.rmatmat x) (n.dense.transpose.mul x) := by
  have hshape : (n.rmatmat x).nRow = n.adj.nCol ∧ (n.rmatmat x).nCol = x.nCol := by
    unfold rmatmat; by_cases hr : n.reg > 0 <;> simp [hr]
  refine ⟨hshape.1, hshape.2, fun j k => ?_⟩
  by_cases hjk : j < n.adj.nCol ∧ k < x.nCol
  · obtain ⟨hj, hk⟩ := hjk
    rw [Mat.get_mul]
    simp only [Mat.transpose_nCol, dense_nRow, Mat.get_transpose]
    have e : sumTo n.adj.nRow (fun i => n.dense.get i j * x.get i k)
        = sumTo n.adj.nRow (fun i => n.adj.get i j * (vget n.normDiag i * x.get i k)
            + (if n.reg > 0 then n.reg / (n.adj.nCol : Rat) else 0) * (vget n.normDiag i * x.get i k)) := by
      apply sumTo_congr; intro i hi
      rw [get_dense n hi hj]; ring
    rw [e, sumTo_add, sumTo_mul_left]
    unfold rmatmat
    have hwr : (Mat.ofFn n.adj.nRow x.nCol fun i k => vget n.normDiag i * x.get i k).nRow = n.adj.nRow := rfl
    have hw : ∀ i, i < n.adj.nRow →
        (Mat.ofFn n.adj.nRow x.nCol fun i k => vget n.normDiag i * x.get i k).get i k
          = vget n.normDiag i * x.get i k := by
      intro i hi; rw [Mat.get_ofFn]; simp [hi, hk]
    generalize (Mat.ofFn n.adj.nRow x.nCol fun i k => vget n.normDiag i * x.get i k) = w at hwr hw
    have hs : sumTo n.adj.nRow (fun i => n.adj.get i j * w.get i k)
        = sumTo n.adj.nRow (fun i => n.adj.get i j * (vget n.normDiag i * x.get i k)) :=
      sumTo_congr (fun i hi => by rw [hw i hi])
    have hc : vsum (w.col k) = sumTo n.adj.nRow (fun i => vget n.normDiag i * x.get i k) := by
      unfold Mat.col
      rw [vsum_tab, hwr]
      exact sumTo_congr (fun i hi => hw i hi)
    by_cases hr : n.reg > 0
    · simp only [hr, if_true]
      rw [Mat.get_ofFn, if_pos ⟨hj, hk⟩, Mat.get_mul]
      simp only [Mat.transpose_nCol, Mat.get_transpose]
      rw [hs, hc]; ring
    · simp only [hr, if_false]
      rw [Mat.get_mul]
      simp only [Mat.transpose_nCol, Mat.get_transpose]
      rw [hs]; ring
  · rw [Mat.get_of_not_lt (by rw [hshape.1, hshape.2]; exact hjk),
      Mat.get_of_not_lt (by simpa using hjk)]

/-- **the constructor gives `D⁺ (A + reg/n 1 1ᵀ)`**, `D = diag((A + reg/n 1 1ᵀ) 1)`, for `reg ≥ 0` -/
theorem init_dense (a : Mat) (reg : Rat) (hreg : 0 ≤ reg) :
    Mat.Eqv (init a reg).dense (rowNormalized (regularized a reg)) := by
  refine ⟨rfl, rfl, fun i j => ?_⟩
  by_cases hij : i < a.nRow ∧ j < a.nCol
  · obtain ⟨hi, hj⟩ := hij
    have hn : (a.nCol : Rat) ≠ 0 := by
      have : 0 < a.nCol := by omega
      exact_mod_cast (Nat.pos_iff_ne_zero.mp this)
    rw [get_dense _ (by exact hi) (by exact hj)]
    unfold rowNormalized
    rw [Mat.get_scaleRows]
    unfold init
    simp only [vget_pinvVec, vget_tab, hi, if_true]
    have hrs : vget (regularized a reg).rowSums i = vget a.rowSums i + reg := by
      unfold Mat.rowSums regularized
      rw [Mat.vget_mulVec, Mat.vget_mulVec]
      simp only [Mat.add_nCol]
      have : sumTo a.nCol (fun k => (a.add (Mat.const a.nRow a.nCol (reg / (a.nCol : Rat)))).get i k * vget (ones a.nCol) k)
          = sumTo a.nCol (fun k => a.get i k * vget (ones a.nCol) k + reg / (a.nCol : Rat)) := by
        apply sumTo_congr; intro k hk
        rw [Mat.get_add (by simp) (by simp)]
        simp [hi, hk]
      rw [this, sumTo_add, sumTo_const, mul_comm, div_mul_cancel₀ _ hn]
    rw [hrs]
    unfold regularized
    rw [Mat.get_add (by simp) (by simp)]
    simp only [Mat.get_const, hi, hj, and_self, if_true]
    by_cases hr : reg > 0
    · simp [hr]
    · have : reg = 0 := le_antisymm (not_lt.mp hr) hreg
      subst this; simp
  · rw [Mat.get_of_not_lt (a := (init a reg).dense) (by show ¬ (i < a.nRow ∧ j < a.nCol); exact hij),
      Mat.get_of_not_lt (a := rowNormalized (regularized a reg)) (by show ¬ (i < a.nRow ∧ j < a.nCol); exact hij)]

end Normalizer
end SkNet.LinOp
