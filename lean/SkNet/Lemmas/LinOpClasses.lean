/-
C15 lemmas: Normalizer, Laplacian, CoNeighbor — products equal the products by their dense matrices,
the constructors give the documented matrices, the operations are the dense operations.
-/
import SkNet.Lemmas.LinOpFormat

namespace SkNet.LinOp
open SkNet

theorem sumTo_const (n : Nat) (c : Rat) : sumTo n (fun _ => c) = (n : Rat) * c := by
  induction n with
  | zero => simp
  | succ n ih => rw [sumTo_succ, ih]; push_cast; ring

theorem vsum_tab (n : Nat) (f : Nat → Rat) : vsum (tab n f) = sumTo n f := by
  unfold vsum
  rw [tab_length]
  apply sumTo_congr; intro k hk
  simp [hk]

/-- row sums of the regularised matrix: `(A + reg/n 1 1ᵀ) 1 = A 1 + reg` -/
theorem rowSums_regularized (a : Mat) (reg : Rat) {i : Nat} (hi : i < a.nRow) (hn : a.nCol ≠ 0) :
    vget (regularized a reg).rowSums i = vget a.rowSums i + reg := by
  have hn' : (a.nCol : Rat) ≠ 0 := by exact_mod_cast hn
  unfold Mat.rowSums regularized
  rw [Mat.vget_mulVec, Mat.vget_mulVec]
  simp only [Mat.add_nCol]
  have : sumTo a.nCol (fun k => (a.add (Mat.const a.nRow a.nCol (reg / (a.nCol : Rat)))).get i k * vget (ones a.nCol) k)
      = sumTo a.nCol (fun k => a.get i k * vget (ones a.nCol) k + reg / (a.nCol : Rat)) := by
    apply sumTo_congr; intro k hk
    rw [Mat.get_add (by simp) (by simp)]
    simp [hi, hk]
  rw [this, sumTo_add, sumTo_const, mul_comm, div_mul_cancel₀ _ hn']

theorem get_regularized (a : Mat) (reg : Rat) {i j : Nat} (hi : i < a.nRow) (hj : j < a.nCol) :
    (regularized a reg).get i j = a.get i j + reg / (a.nCol : Rat) := by
  unfold regularized
  rw [Mat.get_add (by simp) (by simp)]
  simp [hi, hj]

/-- `diag(w) · A · diag(w)` by entries -/
theorem get_diag_mul_diag (w : Vec) (a : Mat) (hsq : a.nCol = a.nRow) {i j : Nat} (hi : i < a.nRow) (hj : j < a.nRow) :
    ((Mat.diag a.nRow w).mul (a.mul (Mat.diag a.nRow w))).get i j = vget w i * a.get i j * vget w j := by
  rw [Mat.get_mul, Mat.diag_nCol]
  simp only [Mat.get_diag, Mat.get_mul, hsq]
  rw [show (fun k => (if i < a.nRow ∧ i = k then vget w i else 0) *
            sumTo a.nRow (fun l => a.get k l * if l < a.nRow ∧ l = j then vget w l else 0))
        = (fun k => if i = k then vget w i *
            sumTo a.nRow (fun l => a.get k l * if l < a.nRow ∧ l = j then vget w l else 0) else 0) from by
      funext k
      by_cases h1 : i = k
      · subst h1; simp [hi]
      · simp [h1]]
  rw [sumTo_ite_eq', if_pos hi]
  rw [show (fun l => a.get i l * if l < a.nRow ∧ l = j then vget w l else 0)
        = (fun l => if l = j then a.get i l * vget w l else 0) from by
      funext l
      by_cases h1 : l = j
      · subst h1; simp [hj]
      · simp [h1]]
  rw [sumTo_ite_eq, if_pos hj]
  ring

/-! ### Normalizer -/

namespace Normalizer

@[simp] theorem dense_nRow (n : Normalizer) : n.dense.nRow = n.adj.nRow := rfl
@[simp] theorem dense_nCol (n : Normalizer) : n.dense.nCol = n.adj.nCol := rfl

theorem get_dense (n : Normalizer) {i j : Nat} (hi : i < n.adj.nRow) (hj : j < n.adj.nCol) :
    n.dense.get i j = vget n.normDiag i * (n.adj.get i j + if n.reg ≠ 0 then n.reg / (n.adj.nCol : Rat) else 0) := by
  unfold dense; rw [Mat.get_ofFn]; simp [hi, hj]

theorem matvec_length (n : Normalizer) (v : Vec) : (n.matvec v).length = n.adj.nRow := by
  unfold matvec; simp

/-- **`_matvec` of a Normalizer is the product by its dense matrix** -/
theorem matvec_eq_dense (n : Normalizer) (v : Vec) (hv : v.length = n.adj.nCol) :
    n.matvec v = n.dense.mulVec v := by
  apply vec_ext (by rw [matvec_length]; simp)
  intro i hi
  rw [matvec_length] at hi
  rw [Mat.vget_mulVec, dense_nCol]
  have e : sumTo n.adj.nCol (fun j => n.dense.get i j * vget v j)
      = sumTo n.adj.nCol (fun j => vget n.normDiag i *
          (n.adj.get i j * vget v j + (if n.reg ≠ 0 then n.reg / (n.adj.nCol : Rat) else 0) * vget v j)) := by
    apply sumTo_congr; intro j hj
    rw [get_dense n hi hj]; ring
  rw [e, sumTo_mul_left, sumTo_add, sumTo_mul_left]
  unfold matvec
  simp only [vget_tab, hi, if_true]
  by_cases hr : n.reg ≠ 0
  · simp only [if_pos hr, if_true, vget_tab, hi, Mat.vget_mulVec]
    unfold vmean vsum
    rw [hv]; ring
  · simp only [if_neg hr, Mat.vget_mulVec]; ring

theorem rmatvec_length (n : Normalizer) (v : Vec) : (n.rmatvec v).length = n.adj.nCol := by
  unfold rmatvec
  by_cases hr : n.reg ≠ 0 <;> simp [hr]

/-- **`_rmatvec` of a Normalizer is the product by the transposed dense matrix** -/
theorem rmatvec_eq_dense (n : Normalizer) (v : Vec) : n.rmatvec v = n.dense.transpose.mulVec v := by
  apply vec_ext (by rw [rmatvec_length]; simp)
  intro j hj
  rw [rmatvec_length] at hj
  rw [Mat.vget_mulVec]
  simp only [Mat.transpose_nCol, dense_nRow, Mat.get_transpose]
  have e : sumTo n.adj.nRow (fun i => n.dense.get i j * vget v i)
      = sumTo n.adj.nRow (fun i => n.adj.get i j * (vget n.normDiag i * vget v i)
          + (if n.reg ≠ 0 then n.reg / (n.adj.nCol : Rat) else 0) * (vget n.normDiag i * vget v i)) := by
    apply sumTo_congr; intro i hi
    rw [get_dense n hi hj]; ring
  rw [e, sumTo_add, sumTo_mul_left]
  unfold rmatvec
  have hwl : (tab n.adj.nRow fun i => vget n.normDiag i * vget v i).length = n.adj.nRow := by simp
  have hw : ∀ i, i < n.adj.nRow →
      vget (tab n.adj.nRow fun i => vget n.normDiag i * vget v i) i = vget n.normDiag i * vget v i := by
    intro i hi; simp [hi]
  generalize (tab n.adj.nRow fun i => vget n.normDiag i * vget v i) = w at hwl hw
  have hs : sumTo n.adj.nRow (fun i => n.adj.get i j * vget w i)
      = sumTo n.adj.nRow (fun i => n.adj.get i j * (vget n.normDiag i * vget v i)) :=
    sumTo_congr (fun i hi => by rw [hw i hi])
  have hsum : vsum w = sumTo n.adj.nRow (fun i => vget n.normDiag i * vget v i) := by
    unfold vsum; rw [hwl]; exact sumTo_congr (fun i hi => hw i hi)
  by_cases hr : n.reg ≠ 0
  · simp only [if_pos hr]
    rw [vget_tab, if_pos hj, Mat.vget_mulVec]
    simp only [Mat.transpose_nCol, Mat.get_transpose]
    rw [hs, hsum]; ring
  · simp only [if_neg hr]
    rw [Mat.vget_mulVec]
    simp only [Mat.transpose_nCol, Mat.get_transpose]
    rw [hs]; ring

/-- **2-d branch of `_matvec`** -/
theorem matmat_eqv_dense (n : Normalizer) (x : Mat) (hx : x.nRow = n.adj.nCol) :
    Mat.Eqv (n.matmat x) (n.dense.mul x) := by
  refine ⟨rfl, rfl, fun i k => ?_⟩
  unfold matmat
  rw [Mat.get_ofFn, Mat.get_mul, dense_nCol]
  by_cases hik : i < n.adj.nRow ∧ k < x.nCol
  · obtain ⟨hi, hk⟩ := hik
    simp only [hi, hk, and_self, if_true]
    have e : sumTo n.adj.nCol (fun j => n.dense.get i j * x.get j k)
        = sumTo n.adj.nCol (fun j => vget n.normDiag i *
            (n.adj.get i j * x.get j k + (if n.reg ≠ 0 then n.reg / (n.adj.nCol : Rat) else 0) * x.get j k)) := by
      apply sumTo_congr; intro j hj
      rw [get_dense n hi hj]; ring
    rw [e, sumTo_mul_left, sumTo_add, sumTo_mul_left]
    by_cases hr : n.reg ≠ 0
    · simp only [if_pos hr, if_true, Mat.get_ofFn, hi, hk, and_self, Mat.get_mul]
      unfold Mat.col
      rw [vsum_tab, hx]; ring
    · simp only [if_neg hr, Mat.get_mul]; ring
  · simp only [hik, if_false]
    symm; apply sumTo_eq_zero; intro j _
    by_cases hi : i < n.adj.nRow
    · have hk : x.nCol ≤ k := Nat.le_of_not_lt (fun c => hik ⟨hi, c⟩)
      rw [Mat.get_of_col_ge j hk]; ring
    · rw [Mat.get_of_row_ge j (by simpa using Nat.le_of_not_lt hi)]; ring

/-- **2-d branch of `_rmatvec`** -/
theorem rmatmat_eqv_dense (n : Normalizer) (x : Mat) : Mat.Eqv (n.rmatmat x) (n.dense.transpose.mul x) := by
  have hshape : (n.rmatmat x).nRow = n.adj.nCol ∧ (n.rmatmat x).nCol = x.nCol := by
    unfold rmatmat; by_cases hr : n.reg ≠ 0 <;> simp [hr]
  refine ⟨hshape.1, hshape.2, fun j k => ?_⟩
  by_cases hjk : j < n.adj.nCol ∧ k < x.nCol
  · obtain ⟨hj, hk⟩ := hjk
    rw [Mat.get_mul]
    simp only [Mat.transpose_nCol, dense_nRow, Mat.get_transpose]
    have e : sumTo n.adj.nRow (fun i => n.dense.get i j * x.get i k)
        = sumTo n.adj.nRow (fun i => n.adj.get i j * (vget n.normDiag i * x.get i k)
            + (if n.reg ≠ 0 then n.reg / (n.adj.nCol : Rat) else 0) * (vget n.normDiag i * x.get i k)) := by
      apply sumTo_congr; intro i hi
      rw [get_dense n hi hj]; ring
    rw [e, sumTo_add, sumTo_mul_left]
    unfold rmatmat
    have hwr : (Mat.ofFn n.adj.nRow x.nCol fun i k => vget n.normDiag i * x.get i k).nRow = n.adj.nRow := rfl
    have hw : ∀ i, i < n.adj.nRow →
        (Mat.ofFn n.adj.nRow x.nCol fun i k => vget n.normDiag i * x.get i k).get i k
          = vget n.normDiag i * x.get i k := by
      intro i hi; rw [Mat.get_ofFn]; simp [hi, hk]
    generalize (Mat.ofFn n.adj.nRow x.nCol fun i k => vget n.normDiag i * x.get i k) = w at hwr hw
    have hs : sumTo n.adj.nRow (fun i => n.adj.get i j * w.get i k)
        = sumTo n.adj.nRow (fun i => n.adj.get i j * (vget n.normDiag i * x.get i k)) :=
      sumTo_congr (fun i hi => by rw [hw i hi])
    have hc : vsum (w.col k) = sumTo n.adj.nRow (fun i => vget n.normDiag i * x.get i k) := by
      unfold Mat.col
      rw [vsum_tab, hwr]
      exact sumTo_congr (fun i hi => hw i hi)
    by_cases hr : n.reg ≠ 0
    · simp only [if_pos hr]
      rw [Mat.get_ofFn, if_pos ⟨hj, hk⟩, Mat.get_mul]
      simp only [Mat.transpose_nCol, Mat.get_transpose]
      rw [hs, hc]; ring
    · simp only [if_neg hr]
      rw [Mat.get_mul]
      simp only [Mat.transpose_nCol, Mat.get_transpose]
      rw [hs]; ring
  · rw [Mat.get_of_not_lt (by rw [hshape.1, hshape.2]; exact hjk),
      Mat.get_of_not_lt (by simpa using hjk)]

/-- **the constructor gives `D⁺ (A + reg/n 1 1ᵀ)`**, `D = diag((A + reg/n 1 1ᵀ) 1)`, for every `reg` -/
theorem init_dense (a : Mat) (reg : Rat) :
    Mat.Eqv (init a reg).dense (rowNormalized (regularized a reg)) := by
  refine ⟨rfl, rfl, fun i j => ?_⟩
  by_cases hij : i < a.nRow ∧ j < a.nCol
  · obtain ⟨hi, hj⟩ := hij
    have hn : (a.nCol : Rat) ≠ 0 := by
      have : 0 < a.nCol := by omega
      exact_mod_cast (Nat.pos_iff_ne_zero.mp this)
    rw [get_dense _ (by exact hi) (by exact hj)]
    unfold rowNormalized
    rw [Mat.get_scaleRows]
    unfold init
    simp only [vget_pinvVec, vget_tab, hi, if_true]
    have hrs := rowSums_regularized a reg hi (by omega : a.nCol ≠ 0)
    rw [hrs]
    unfold regularized
    rw [Mat.get_add (by simp) (by simp)]
    simp only [Mat.get_const, hi, hj, and_self, if_true]
    by_cases hr : reg ≠ 0
    · simp [hr]
    · have : reg = 0 := not_not.mp hr
      subst this; simp
  · rw [Mat.get_of_not_lt (a := (init a reg).dense) (by show ¬ (i < a.nRow ∧ j < a.nCol); exact hij),
      Mat.get_of_not_lt (a := rowNormalized (regularized a reg)) (by show ¬ (i < a.nRow ∧ j < a.nCol); exact hij)]

end Normalizer
/-! ### Laplacian -/

namespace Laplacian

@[simp] theorem dense_nRow (l : Laplacian) : l.dense.nRow = l.lap.nRow := rfl
@[simp] theorem dense_nCol (l : Laplacian) : l.dense.nCol = l.lap.nRow := rfl

theorem get_dense (l : Laplacian) {i j : Nat} (hi : i < l.lap.nRow) (hj : j < l.lap.nRow) :
    l.dense.get i j = vget l.dvec i * (l.lap.get i j +
      (if l.reg ≠ 0 then l.reg * ((if i = j then 1 else 0) - 1 / (l.lap.nRow : Rat)) else 0)) * vget l.dvec j := by
  unfold dense; rw [Mat.get_ofFn]; simp [hi, hj]

/-- `scale` multiplies by `dvec` (the identity when the Laplacian is not normalised) -/
theorem vget_scale (l : Laplacian) (v : Vec) (hv : v.length = l.lap.nRow) (i : Nat) :
    vget (l.scale v) i = vget l.dvec i * vget v i := by
  unfold scale dvec
  cases l.normDiag with
  | some d =>
    simp only [vget_tab]
    by_cases h : i < l.lap.nRow
    · simp [h]
    · have hz : vget v i = 0 := vget_of_ge (by omega)
      simp [h, hz]
  | none =>
    simp only [vget_ones]
    by_cases h : i < l.lap.nRow
    · simp [h]
    · have hz : vget v i = 0 := vget_of_ge (by omega)
      simp [h, hz]

theorem scale_length (l : Laplacian) (v : Vec) (hv : v.length = l.lap.nRow) : (l.scale v).length = l.lap.nRow := by
  unfold scale
  cases l.normDiag with
  | some d => simp
  | none => simpa using hv

/-- **`_matvec` of a Laplacian is the product by its dense matrix** (square `laplacian` attribute) -/
theorem matvec_eq_dense (l : Laplacian) (v : Vec) (hsq : l.lap.nCol = l.lap.nRow) (hv : v.length = l.lap.nRow) :
    l.matvec v = l.dense.mulVec v := by
  have hl1 := scale_length l v hv
  have hp : ∀ w : Vec, w.length = l.lap.nRow → (l.scale w).length = l.lap.nRow := fun w hw => scale_length l w hw
  have hlen : (l.matvec v).length = l.lap.nRow := by
    unfold matvec
    by_cases hr : l.reg ≠ 0
    · simp only [if_pos hr]; exact hp _ (by simp)
    · simp only [if_neg hr]; exact hp _ (by simp)
  apply vec_ext (by rw [hlen]; simp)
  intro i hi
  rw [hlen] at hi
  rw [Mat.vget_mulVec, dense_nCol]
  have e : sumTo l.lap.nRow (fun j => l.dense.get i j * vget v j)
      = sumTo l.lap.nRow (fun j => vget l.dvec i * (l.lap.get i j * (vget l.dvec j * vget v j)
          + (if l.reg ≠ 0 then l.reg * ((if i = j then vget l.dvec j * vget v j else 0)
              - 1 / (l.lap.nRow : Rat) * (vget l.dvec j * vget v j)) else 0))) := by
    apply sumTo_congr; intro j hj
    rw [get_dense l hi hj]
    by_cases hr : l.reg ≠ 0 <;> by_cases hij : i = j <;> simp [hr, hij] <;> ring
  rw [e, sumTo_mul_left, sumTo_add]
  unfold matvec
  by_cases hr : l.reg ≠ 0
  · simp only [if_pos hr]
    rw [vget_scale l _ (by simp), vget_tab, if_pos hi, Mat.vget_mulVec, hsq, sumTo_mul_left, sumTo_sub,
      sumTo_ite_eq', if_pos hi, sumTo_mul_left]
    have e2 : sumTo l.lap.nRow (fun j => l.lap.get i j * vget (l.scale v) j)
        = sumTo l.lap.nRow (fun j => l.lap.get i j * (vget l.dvec j * vget v j)) :=
      sumTo_congr (fun j _ => by rw [vget_scale l v hv])
    have e3 : vmean (l.scale v) = 1 / (l.lap.nRow : Rat) * sumTo l.lap.nRow (fun j => vget l.dvec j * vget v j) := by
      unfold vmean vsum
      rw [hl1]
      rw [sumTo_congr (fun j _ => vget_scale l v hv j)]
      ring
    rw [e2, e3, vget_scale l v hv]
  · simp only [if_neg hr]
    rw [vget_scale l _ (by simp), Mat.vget_mulVec, hsq]
    have e2 : sumTo l.lap.nRow (fun j => l.lap.get i j * vget (l.scale v) j)
        = sumTo l.lap.nRow (fun j => l.lap.get i j * (vget l.dvec j * vget v j)) :=
      sumTo_congr (fun j _ => by rw [vget_scale l v hv])
    rw [e2]; simp

theorem dvec_transpose (l : Laplacian) (hsq : l.lap.nCol = l.lap.nRow) : l.transpose.dvec = l.dvec := by
  unfold dvec transpose
  cases l.normDiag with
  | some d => rfl
  | none => simp [hsq]

/-- **the transposed Laplacian denotes the transposed matrix** -/
theorem transpose_dense (l : Laplacian) (hsq : l.lap.nCol = l.lap.nRow) :
    Mat.Eqv l.transpose.dense l.dense.transpose := by
  have hn : l.transpose.lap.nRow = l.lap.nRow := hsq
  refine ⟨hn, hn, fun i j => ?_⟩
  rw [Mat.get_transpose]
  by_cases hij : i < l.lap.nRow ∧ j < l.lap.nRow
  · obtain ⟨hi, hj⟩ := hij
    rw [get_dense _ (by rw [hn]; exact hi) (by rw [hn]; exact hj), get_dense _ hj hi, dvec_transpose l hsq, hn]
    have e1 : l.transpose.lap.get i j = l.lap.get j i := by show l.lap.transpose.get i j = _; simp
    have e2 : l.transpose.reg = l.reg := rfl
    rw [e1, e2]
    by_cases hr : l.reg ≠ 0 <;> by_cases h : i = j
    · subst h; simp [hr]
    · have h' : ¬ j = i := fun e => h e.symm
      simp [hr, h, h']; ring
    · subst h; simp [hr]
    · simp [hr]; ring
  · rw [Mat.get_of_not_lt (a := l.transpose.dense) (by show ¬ (i < l.transpose.lap.nRow ∧ j < l.transpose.lap.nRow); rw [hn]; exact hij),
      Mat.get_of_not_lt (a := l.dense) (by show ¬ (j < l.lap.nRow ∧ i < l.lap.nRow); exact fun c => hij ⟨c.2, c.1⟩)]

theorem init_square {a : Mat} {reg : Rat} {nz : Bool} {sq : Vec} {l : Laplacian}
    (h : init a reg nz sq = .ok l) : l.lap.nCol = l.lap.nRow ∧ l.lap.nRow = a.nRow ∧ a.nCol = a.nRow := by
  unfold init at h
  split at h
  · cases h
  · rename_i hsq
    have hsq' : a.nRow = a.nCol := not_not.mp hsq
    cases h
    exact ⟨by simp [hsq'], rfl, hsq'.symm⟩

/-- the unnormalised regularised Laplacian `D' - A'`, `A' = A + reg/n 1 1ᵀ`, `D' = diag(A' 1)` -/
def regLap (a : Mat) (reg : Rat) : Mat :=
  (Mat.diag a.nRow (regularized a reg).rowSums).sub (regularized a reg)

theorem get_regLap (a : Mat) (reg : Rat) (hsq : a.nCol = a.nRow) {i j : Nat} (hi : i < a.nRow) (hj : j < a.nRow) :
    (regLap a reg).get i j = (if i = j then vget a.rowSums i + reg else 0) - (a.get i j + reg / (a.nRow : Rat)) := by
  unfold regLap
  rw [Mat.get_sub (by simp [regularized]) (by simp [regularized, hsq]), Mat.get_diag,
    get_regularized a reg hi (by omega), hsq]
  by_cases h : i = j
  · subst h
    simp only [hi, and_self, if_true]
    rw [rowSums_regularized a reg hi (by omega)]
  · simp [h]

/-- **the constructor gives the documented matrix**: `D' - A'` for the regularised adjacency, and
    `N (D' - A') N` with `N = diag(1/sqrt)⁺` when normalised (`sq` = the square roots, external), for every `reg` -/
theorem init_dense {a : Mat} {reg : Rat} {nz : Bool} {sq : Vec} {l : Laplacian}
    (h : init a reg nz sq = .ok l) :
    Mat.Eqv l.dense (if nz then (Mat.diag a.nRow (pinvVec sq)).mul ((regLap a reg).mul (Mat.diag a.nRow (pinvVec sq)))
      else regLap a reg) := by
  obtain ⟨-, hn, hsq⟩ := init_square h
  unfold init at h
  split at h
  · cases h
  · cases h
    have hshape : ∀ m : Mat, m = (if nz then (Mat.diag a.nRow (pinvVec sq)).mul ((regLap a reg).mul (Mat.diag a.nRow (pinvVec sq)))
        else regLap a reg) → m.nRow = a.nRow ∧ m.nCol = a.nRow := by
      intro m hm; subst hm
      cases nz <;> simp [regLap]
    obtain ⟨hr, hc⟩ := hshape _ rfl
    refine ⟨by rw [hr]; rfl, by rw [hc]; rfl, fun i j => ?_⟩
    by_cases hij : i < a.nRow ∧ j < a.nRow
    · obtain ⟨hi, hj⟩ := hij
      rw [get_dense _ (by exact hi) (by exact hj)]
      have hlap : ((Mat.diag a.nRow (a.mulVec (ones a.nRow))).sub a).get i j
          = (if i = j then vget a.rowSums i else 0) - a.get i j := by
        have hw : a.mulVec (ones a.nRow) = a.rowSums := by unfold Mat.rowSums; rw [hsq]
        rw [Mat.get_sub (by simp) (by simp [hsq]), Mat.get_diag, hw]
        by_cases e : i = j
        · subst e; simp only [hi, and_self, if_true]
        · simp only [e, and_false, if_false]
      have hK : (if reg ≠ 0 then reg * ((if i = j then 1 else 0) - 1 / (a.nRow : Rat)) else 0)
          = reg * ((if i = j then 1 else 0) - 1 / (a.nRow : Rat)) := by
        by_cases hr : reg ≠ 0
        · simp [hr]
        · have : reg = 0 := not_not.mp hr
          subst this; simp
      show vget (Laplacian.dvec _) i * (_ + _) * vget (Laplacian.dvec _) j = _
      simp only [Mat.diag_nRow, Mat.sub_nRow]
      rw [hlap, hK]
      cases nz with
      | false =>
        simp only [Bool.false_eq_true, if_false]
        rw [get_regLap a reg hsq hi hj]
        unfold dvec
        simp only [vget_ones, Mat.sub_nRow, Mat.diag_nRow, hi, hj, if_true]
        by_cases e : i = j
        · subst e; simp only [if_true]; ring
        · simp only [e, if_false]; ring
      | true =>
        simp only [if_true]
        have := get_diag_mul_diag (pinvVec sq) (regLap a reg) (by simp [regLap, regularized, hsq]) (i := i) (j := j)
          (by simpa [regLap] using hi) (by simpa [regLap] using hj)
        simp only [regLap, Mat.sub_nRow, Mat.diag_nRow] at this
        rw [show (Mat.diag a.nRow (pinvVec sq)).mul
              (((Mat.diag a.nRow (regularized a reg).rowSums).sub (regularized a reg)).mul (Mat.diag a.nRow (pinvVec sq)))
            = (Mat.diag a.nRow (pinvVec sq)).mul ((regLap a reg).mul (Mat.diag a.nRow (pinvVec sq))) from rfl] at this
        rw [this]
        have := get_regLap a reg hsq hi hj
        simp only [regLap] at this
        rw [this]
        unfold dvec
        simp only
        by_cases e : i = j
        · subst e; simp only [if_true]; ring
        · simp only [e, if_false]; ring
    · rw [Mat.get_of_not_lt (by exact hij), Mat.get_of_not_lt (by rw [hr, hc]; exact hij)]

end Laplacian

/-! ### CoNeighbor -/

namespace CoNeighbor

/-- inner dimensions of `backward · forward` agree (kept by every operation) -/
def WF (c : CoNeighbor) : Prop := c.backward.nCol = c.forward.nRow

/-- **`_matvec` of a CoNeighbor is the product by `backward · forward`** -/
theorem matvec_eq_dense (c : CoNeighbor) (v : Vec) : c.matvec v = c.dense.mulVec v := by
  unfold matvec dense
  rw [Mat.mulVec_mul]

theorem matmat_eqv_dense (c : CoNeighbor) (x : Mat) : Mat.Eqv (c.backward.mul (c.forward.mul x)) (c.dense.mul x) :=
  (Mat.mul_assoc c.backward c.forward x).symm

theorem init_ok {a : Mat} {nz : Bool} {c : CoNeighbor} (h : init a nz = .ok c) :
    c = ⟨a, if nz then normalize1 a.transpose else a.transpose⟩ := by
  unfold init at h
  split at h
  · cases h
  · cases h; rfl

theorem init_wf {a : Mat} {nz : Bool} {c : CoNeighbor} (h : init a nz = .ok c) : c.WF := by
  rw [init_ok h]; unfold WF
  cases nz <;> simp [normalize1, scaleRows]

/-- **the constructor gives `A F⁺ Aᵀ`** (`F` = column sums of `|A|` when normalised, else the identity) -/
theorem init_dense {a : Mat} {nz : Bool} {c : CoNeighbor} (h : init a nz = .ok c) :
    Mat.Eqv c.dense (if nz then a.mul ((Mat.diag a.nCol (pinvVec (colAbsSums a))).mul a.transpose)
      else a.mul a.transpose) := by
  rw [init_ok h]
  cases nz with
  | false => exact Mat.Eqv.refl _
  | true =>
    simp only [if_true]
    unfold dense
    apply Mat.Eqv.mul (Mat.Eqv.refl a)
    unfold normalize1 norms1 colAbsSums
    exact (Mat.diag_mul _ a.transpose).symm

theorem mul_dense (c : CoNeighbor) (k : Rat) : (c.mul k).WF = c.WF ∧ Mat.Eqv (c.mul k).dense (c.dense.smul k) :=
  ⟨rfl, Mat.mul_smul k c.backward c.forward⟩

theorem neg_dense (c : CoNeighbor) : Mat.Eqv c.neg.dense c.dense.neg := by
  refine (Mat.mul_smul (-1) c.backward c.forward).trans ⟨rfl, rfl, fun i j => ?_⟩
  rw [Mat.get_smul, Mat.get_neg]
  show -1 * c.dense.get i j = - c.dense.get i j
  ring

theorem transpose_wf {c : CoNeighbor} (h : c.WF) : c.transpose.WF := by
  unfold WF transpose at *; simp [h]

theorem transpose_dense {c : CoNeighbor} (h : c.WF) : Mat.Eqv c.transpose.dense c.dense.transpose :=
  (Mat.transpose_mul c.backward c.forward h).symm

theorem leftDot_dense {m : Mat} {c t : CoNeighbor} (hw : c.WF) (h : leftDot m c = .ok t) :
    t.WF ∧ m.nCol = c.backward.nRow ∧ Mat.Eqv t.dense (m.mul c.dense) := by
  unfold leftDot at h
  obtain ⟨b, hb, h⟩ := bind_eq_ok h
  obtain ⟨hd, rfl⟩ := Mat.mul?_ok hb
  have := pure_eq_ok h
  subst this
  exact ⟨hw, hd, Mat.mul_assoc m c.backward c.forward⟩

theorem rightDot_dense {m : Mat} {c t : CoNeighbor} (hw : c.WF) (h : c.rightDot m = .ok t) :
    t.WF ∧ c.forward.nCol = m.nRow ∧ Mat.Eqv t.dense (c.dense.mul m) := by
  unfold rightDot at h
  obtain ⟨f, hf, h⟩ := bind_eq_ok h
  obtain ⟨hd, rfl⟩ := Mat.mul?_ok hf
  have := pure_eq_ok h
  subst this
  exact ⟨hw, hd, (Mat.mul_assoc c.backward c.forward m).symm⟩

end CoNeighbor

end SkNet.LinOp
