/-
C11 helper lemmas: `Σ_v deg v (deg v - 1)` over the degrees above one is twice the number of connected triples.
-/
import SkNet.Lemmas.TopologyCliques
import SkNet.Lemmas.TopologyMerge

set_option linter.unusedSimpArgs false

namespace SkNet.Topology

theorem foldl_add_sum (l : List Nat) (a : Nat) : l.foldl (· + ·) a = a + l.sum := by
  induction l generalizing a with
  | nil => simp
  | cons x xs ih => rw [List.foldl_cons, ih]; simp; omega

theorem choose_one_length (l : List Nat) : (choose 1 l).length = l.length := by
  induction l with
  | nil => rfl
  | cons x xs ih => simp [choose, choose_zero, ih]

/-- `2 · C(m, 2) = m (m - 1)` for the number of pairs of a list of length `m` -/
theorem choose_two_length (l : List Nat) : 2 * (choose 2 l).length = l.length * (l.length - 1) := by
  induction l with
  | nil => rfl
  | cons x xs ih =>
    simp only [choose, List.length_append, List.length_map, choose_one_length, List.length_cons]
    rw [Nat.mul_add, ih]
    cases xs.length with
    | zero => simp
    | succ m => simp [Nat.mul_add, Nat.add_mul]; omega

theorem sum_filter_deg (l : List Nat) :
    ((l.filter (1 < ·)).map fun d => d * (d - 1)).sum = (l.map fun d => d * (d - 1)).sum := by
  induction l with
  | nil => rfl
  | cons d ds ih =>
    rw [List.filter_cons]
    by_cases h : 1 < d
    · simp [h, ih]
    · have : d * (d - 1) = 0 := by
        have : d = 0 ∨ d = 1 := by omega
        rcases this with rfl | rfl <;> rfl
      simp [h, ih, this]

theorem symDegrees_eq (n : Nat) (val : Nat → Nat → Rat) :
    symDegrees n val = (List.range n).map fun i => (nbrs n (symEdge val) i).length := rfl

/-- the denominator of the code is twice the number of connected triples -/
theorem twiceEdgePairs_eq (n : Nat) (val : Nat → Nat → Rat) :
    twiceEdgePairs (symDegrees n val) = 2 * tripleCount n (symEdge val) := by
  unfold twiceEdgePairs tripleCount
  rw [foldl_add_sum, foldl_add_sum, Nat.zero_add, Nat.zero_add, sum_filter_deg, symDegrees_eq, List.map_map]
  generalize List.range n = l
  induction l with
  | nil => rfl
  | cons v vs ih =>
    simp only [List.map_cons, List.sum_cons, Function.comp] at ih ⊢
    rw [ih, Nat.mul_add, choose_two_length]

/-- `Σ_v deg v (deg v - 1)` is twice the number of connected triples -/
theorem sum_degree_products (n : Nat) (adj : Nat → Nat → Bool) :
    (((List.range n).map fun v => (nbrs n adj v).length).map fun d => d * (d - 1)).foldl (fun a b => a + b) 0 =
      2 * tripleCount n adj := by
  unfold tripleCount
  have h1 : ∀ (l : List Nat) (a : Nat), l.foldl (fun a b => a + b) a = a + l.sum := foldl_add_sum
  rw [h1, foldl_add_sum, Nat.zero_add, Nat.zero_add, List.map_map]
  generalize List.range n = l
  induction l with
  | nil => rfl
  | cons v vs ih =>
    simp only [List.map_cons, List.sum_cons, Function.comp] at ih ⊢
    rw [ih, Nat.mul_add, choose_two_length]

end SkNet.Topology
