/-
C11: the list-based brute-force clique count of the specification is the textbook count — the number of
`k`-element subsets of the node set whose members are pairwise adjacent (Mathlib `Finset.powersetCard`).
-/
import SkNet.Lemmas.TopologyCliques
import Mathlib.Data.Finset.Powerset
import Mathlib.Data.Finset.Card
import Mathlib.Data.List.Range

namespace SkNet.Topology

open Finset

/-- pairwise adjacency of a node set (smaller node first) -/
def CliqueSet (adj : Nat → Nat → Bool) (s : Finset Nat) : Prop := ∀ a ∈ s, ∀ b ∈ s, a < b → adj a b = true

instance (adj : Nat → Nat → Bool) (s : Finset Nat) : Decidable (CliqueSet adj s) := by
  unfold CliqueSet; infer_instance

theorem cliqueSet_insert (adj : Nat → Nat → Bool) (x : Nat) (t : Finset Nat) (hx : ∀ b ∈ t, x < b) :
    CliqueSet adj (insert x t) ↔ (∀ b ∈ t, adj x b = true) ∧ CliqueSet adj t := by
  unfold CliqueSet
  constructor
  · intro h
    refine ⟨fun b hb => h x (mem_insert_self x t) b (mem_insert_of_mem hb) (hx b hb), ?_⟩
    intro a ha b hb hab
    exact h a (mem_insert_of_mem ha) b (mem_insert_of_mem hb) hab
  · rintro ⟨h1, h2⟩ a ha b hb hab
    rcases mem_insert.1 ha with rfl | ha'
    · rcases mem_insert.1 hb with rfl | hb'
      · omega
      · exact h1 b hb'
    · rcases mem_insert.1 hb with rfl | hb'
      · have := hx a ha'; omega
      · exact h2 a ha' b hb' hab

theorem cliqueCountOn_eq_card (adj : Nat → Nat → Bool) :
    ∀ (k : Nat) (l : List Nat), l.Pairwise (· < ·) →
      cliqueCountOn adj k l = ((l.toFinset.powersetCard k).filter (CliqueSet adj)).card := by
  intro k
  induction k with
  | zero =>
    intro l _
    rw [cliqueCountOn_zero, powersetCard_zero]
    rfl
  | succ k ihk =>
    intro l
    induction l with
    | nil => intro _; rw [cliqueCountOn_nil]; rfl
    | cons x xs ihl =>
      intro hs
      rw [List.pairwise_cons] at hs
      have hx : x ∉ xs.toFinset := by
        rw [List.mem_toFinset]; intro h; have := hs.1 x h; omega
      rw [cliqueCountOn_cons, List.toFinset_cons, powersetCard_succ_insert hx, filter_union,
        card_union_of_disjoint, ihl hs.2, Nat.add_comm]
      · congr 1
        rw [ihk (xs.filter (adj x)) (hs.2.filter _)]
        -- sets containing `x` correspond to `k`-subsets of the neighbours of `x` among `xs`
        rw [filter_image, card_image_of_injOn]
        · congr 1
          ext t
          simp only [mem_filter, mem_powersetCard, List.toFinset_filter]
          constructor
          · rintro ⟨⟨hsub, hc⟩, hcl⟩
            have hsub' : t ⊆ xs.toFinset := fun b hb => (mem_filter.1 (hsub hb)).1
            refine ⟨⟨hsub', hc⟩, ?_⟩
            rw [cliqueSet_insert adj x t (fun b hb => hs.1 b (List.mem_toFinset.1 (hsub' hb)))]
            exact ⟨fun b hb => (mem_filter.1 (hsub hb)).2, hcl⟩
          · rintro ⟨⟨hsub, hc⟩, hcl⟩
            rw [cliqueSet_insert adj x t (fun b hb => hs.1 b (List.mem_toFinset.1 (hsub hb)))] at hcl
            exact ⟨⟨fun b hb => mem_filter.2 ⟨hsub hb, hcl.1 b hb⟩, hc⟩, hcl.2⟩
        · intro t ht u hu htu
          have h1 : x ∉ t := fun h => hx ((mem_powersetCard.1 (mem_filter.1 ht).1).1 h)
          have h2 : x ∉ u := fun h => hx ((mem_powersetCard.1 (mem_filter.1 hu).1).1 h)
          have := congrArg (fun s => s.erase x) htu
          simpa [erase_insert h1, erase_insert h2] using this
      · rw [disjoint_left]
        intro s h1 h2
        have hs1 : s ⊆ xs.toFinset := (mem_powersetCard.1 (mem_filter.1 h1).1).1
        obtain ⟨t, _, rfl⟩ := mem_image.1 (mem_filter.1 h2).1
        exact hx (hs1 (mem_insert_self x t))

/-- the specification's clique count is the number of `k`-subsets of `{0, …, n-1}` that are pairwise adjacent -/
theorem cliqueCount_eq_card (n : Nat) (adj : Nat → Nat → Bool) (k : Nat) :
    cliqueCount n adj k = (((Finset.range n).powersetCard k).filter (CliqueSet adj)).card := by
  unfold cliqueCount
  have hr : (List.range n).toFinset = Finset.range n := by
    ext a; simp
  rw [cliqueCountOn_eq_card adj k (List.range n) List.pairwise_lt_range, hr]

end SkNet.Topology
