/-
What the solver models of Model/Rank.lean compute, in terms of the ℓ1 vocabulary of RankL1 / RankPR:
the damped transposed transition operator, the Ruffini–Horner solver (`rh_close`), Katz.
-/
import SkNet.Lemmas.RankHorner
import SkNet.Lemmas.RankPR

open Finset

namespace SkNet.Rank
open SkNet.RankSpec SkNet.RankL1

/-- the vector a list stands for -/
def vec (l : List ℚ) : ℕ → ℚ := fun i => l.getD i 0

/-- matrix of `damping_factor * normalize(adjacency).T` -/
def dampedM (g : Graph ℚ) (a : ℚ) (i j : ℕ) : ℚ := a * trans g j i

theorem surferA_eq (g : Graph ℚ) (a : ℚ) (x : List ℚ) (i : ℕ) :
    surferA g a x i = a * PT g.n (trans g) (vec x) i := by
  unfold surferA PT vec
  rw [map_range_sum, mul_sum]
  apply sum_congr rfl; intro j _; ring

theorem dampedT_actsAs (g : Graph ℚ) (a : ℚ) : ActsAs g.n (dampedT g a) (dampedM g a) := by
  intro l i hi
  unfold dampedT dampedM
  rw [tab_getD, if_pos hi, surferA, map_range_sum]

theorem matVec_dampedM (g : Graph ℚ) (a : ℚ) (x : ℕ → ℚ) (i : ℕ) :
    matVec g.n (dampedM g a) x i = a * PT g.n (trans g) x i := by
  rw [matVec_eq]; unfold dampedM PT
  rw [mul_sum]; apply sum_congr rfl; intro j _; ring

/-- `‖(a Pᵀ)ᵏ x‖₁ ≤ aᵏ ‖x‖₁` -/
theorem l1_matPow_le {g : Graph ℚ} (hP : SubStoch g.n (trans g)) {a : ℚ} (ha : 0 ≤ a) (x : ℕ → ℚ) (k : ℕ) :
    l1 g.n (matPow g.n (dampedM g a) k x) ≤ a ^ k * l1 g.n x := by
  induction k with
  | zero => simp [matPow]
  | succ k ih =>
    have e : l1 g.n (matPow g.n (dampedM g a) (k+1) x)
        = a * l1 g.n (PT g.n (trans g) (matPow g.n (dampedM g a) k x)) := by
      unfold l1
      rw [mul_sum]
      apply sum_congr rfl; intro i _
      show |matVec g.n (dampedM g a) (matPow g.n (dampedM g a) k x) i| = _
      rw [matVec_dampedM, abs_mul, abs_of_nonneg ha]
    rw [e, pow_succ]
    have h1 := l1_PT_le hP (matPow g.n (dampedM g a) k x)
    have h2 := mul_le_mul_of_nonneg_left (h1.trans ih) ha
    calc a * l1 g.n (PT g.n (trans g) (matPow g.n (dampedM g a) k x)) ≤ a * (a ^ k * l1 g.n x) := h2
      _ = a ^ k * a * l1 g.n x := by ring

theorem matPow_nonneg {g : Graph ℚ} (hg : g.Nonneg) {a : ℚ} (ha : 0 ≤ a) {x : ℕ → ℚ} (hx : ∀ i, 0 ≤ x i)
    (k : ℕ) : ∀ i, 0 ≤ matPow g.n (dampedM g a) k x i := by
  induction k with
  | zero => exact hx
  | succ k ih =>
    intro i
    show 0 ≤ matVec g.n (dampedM g a) (matPow g.n (dampedM g a) k x) i
    rw [matVec_eq]
    exact sum_nonneg fun j _ => mul_nonneg (mul_nonneg ha (trans_nonneg hg j i)) (ih j)

/-- the truncated Neumann series `S_K = Σ_{k ≤ K} (a Pᵀ)ᵏ y` -/
def neumann (g : Graph ℚ) (a : ℚ) (y : ℕ → ℚ) (K : ℕ) (i : ℕ) : ℚ :=
  ∑ k ∈ range (K + 1), matPow g.n (dampedM g a) k y i

theorem polyApply_ones (g : Graph ℚ) (a : ℚ) (y : ℕ → ℚ) (K : ℕ) (i : ℕ) :
    polyApply g.n (dampedM g a) (List.replicate (K + 1) 1) y i = neumann g a y K i := by
  rw [polyApply_eq, List.length_replicate]
  apply sum_congr rfl; intro k hk
  have hk' : k < K + 1 := mem_range.mp hk
  simp [List.getD_eq_getElem?_getD, List.getElem?_replicate, hk']

/-- `S_K − a Pᵀ S_K = y − (a Pᵀ)^{K+1} y` -/
theorem neumann_residual (g : Graph ℚ) (a : ℚ) (y : ℕ → ℚ) (K : ℕ) (i : ℕ) :
    neumann g a y K i - a * PT g.n (trans g) (neumann g a y K) i = y i - matPow g.n (dampedM g a) (K + 1) y i := by
  have h1 : a * PT g.n (trans g) (neumann g a y K) i = ∑ k ∈ range (K + 1), matPow g.n (dampedM g a) (k + 1) y i := by
    rw [← matVec_dampedM, matVec_eq]
    unfold neumann
    simp only [mul_sum]
    rw [sum_comm]
    apply sum_congr rfl; intro k _
    show _ = matVec g.n (dampedM g a) (matPow g.n (dampedM g a) k y) i
    rw [matVec_eq]
  rw [h1]
  unfold neumann
  rw [sum_range_succ' (fun k => matPow g.n (dampedM g a) k y i) K, sum_range_succ (fun k => matPow g.n (dampedM g a) (k+1) y i) K]
  simp only [matPow]
  ring

/-- what `solver='RH'` computes before the normalisation -/
theorem rhScores_eq (g : Graph ℚ) (a : ℚ) (y : List ℚ) (K : ℕ) :
    ∀ i, i < g.n → (rhScores g a y K).getD i 0 = neumann g a (vec y) K i := by
  intro i hi
  unfold rhScores
  cases h : horner g.n (dampedT g a) (List.replicate (K + 1) 1) y with
  | none =>
    exfalso
    unfold horner at h
    rw [List.reverse_replicate, List.replicate_succ] at h
    simp at h
  | some s =>
    simp only
    rw [horner_eq_polyApply g.n (dampedM g a) (dampedT g a) (dampedT_actsAs g a) _ y s h i hi]
    exact polyApply_ones g a (vec y) K i

end SkNet.Rank
