/-
The concrete selection `smallestK` used by the `run` lines of the nearest-neighbour models satisfies the contract
`IsSmallestK` under which the theorems about `np.argpartition` are stated.
-/
import SkNet.Lemmas.ClassifyRows
import Mathlib.Data.List.Perm.Basic
import Mathlib.Data.List.Nodup

namespace SkNet.Classify

attribute [-simp] List.getD_eq_getElem?_getD

theorem insertByKey_perm (key : Nat → Rat) (p : Nat) (l : List Nat) : (insertByKey key p l).Perm (p :: l) := by
  induction l with
  | nil => exact List.Perm.refl _
  | cons q qs ih =>
    simp only [insertByKey]
    split
    · exact List.Perm.refl _
    · exact (List.Perm.cons q ih).trans (List.Perm.swap p q qs)

theorem insertByKey_sorted (key : Nat → Rat) (p : Nat) (l : List Nat)
    (h : l.Pairwise fun a b => key a ≤ key b) : (insertByKey key p l).Pairwise fun a b => key a ≤ key b := by
  induction l with
  | nil => simp [insertByKey]
  | cons q qs ih =>
    have hq := List.pairwise_cons.mp h
    simp only [insertByKey]
    split
    · rename_i hle
      refine List.pairwise_cons.mpr ⟨?_, h⟩
      intro b hb
      rcases List.mem_cons.mp hb with rfl | hb
      · exact hle
      · exact le_trans hle (hq.1 b hb)
    · rename_i hnle
      refine List.pairwise_cons.mpr ⟨?_, ih hq.2⟩
      intro b hb
      have := (insertByKey_perm key p qs).subset hb
      rcases List.mem_cons.mp this with rfl | hb'
      · exact le_of_lt (not_le.mp hnle)
      · exact hq.1 b hb'

theorem sortPositions_perm (key : Nat → Rat) (l : List Nat) : (l.foldr (insertByKey key) []).Perm l := by
  induction l with
  | nil => exact List.Perm.refl _
  | cons x xs ih =>
    simp only [List.foldr_cons]
    exact (insertByKey_perm key x _).trans (List.Perm.cons x ih)

theorem sortPositions_sorted (key : Nat → Rat) (l : List Nat) :
    (l.foldr (insertByKey key) []).Pairwise fun a b => key a ≤ key b := by
  induction l with
  | nil => exact List.Pairwise.nil
  | cons x xs ih =>
    simp only [List.foldr_cons]
    exact insertByKey_sorted key x _ ih

/-- ★ `smallestK` returns `k` distinct positions of smallest keys: it satisfies the contract of
    `np.argpartition(keys, k)[:k]` -/
theorem smallestK_spec (keys : List Rat) (k : Nat) (hk : k ≤ keys.length) :
    IsSmallestK keys k (smallestK keys k) = true := by
  set key : Nat → Rat := fun i => keys.getD i 0 with hkey
  set sorted := (List.range keys.length).foldr (insertByKey key) [] with hsorted
  have hperm : sorted.Perm (List.range keys.length) := sortPositions_perm key _
  have hsort : sorted.Pairwise fun a b => key a ≤ key b := sortPositions_sorted key _
  have hlen : sorted.length = keys.length := by rw [hperm.length_eq]; simp
  have hnd : sorted.Nodup := hperm.nodup_iff.mpr List.nodup_range
  have hsel : smallestK keys k = sorted.take k := rfl
  unfold IsSmallestK
  rw [hsel]
  simp only [Bool.and_eq_true, beq_iff_eq, List.all_eq_true, decide_eq_true_eq, List.mem_range,
    Bool.or_eq_true, List.contains_iff_mem, decide_eq_true_eq]
  refine ⟨⟨⟨?_, ?_⟩, ?_⟩, ?_⟩
  · rw [List.length_take]
    omega
  · have : (sorted.take k).Nodup := hnd.sublist (List.take_sublist k sorted)
    simpa using this
  · intro p hp
    have := hperm.subset (List.mem_of_mem_take hp)
    exact List.mem_range.mp this
  · intro p hp q hq
    by_cases hqt : q ∈ sorted.take k
    · exact Or.inl hqt
    · right
      have hqs : q ∈ sorted := hperm.symm.subset (List.mem_range.mpr hq)
      rw [← List.take_append_drop k sorted] at hqs hsort
      have hqd : q ∈ sorted.drop k := by
        rcases List.mem_append.mp hqs with h | h
        · exact absurd h hqt
        · exact h
      exact (List.pairwise_append.mp hsort).2.2 p hp q hqd

end SkNet.Classify
