/-
Termination of the outer loop of `Louvain.fit` (`while not stop:` — optimise, aggregate, repeat) in exact arithmetic
(property C17), on the model of C06 (`louvainLoopCapped`: the chain that mirrors the compiled kernels).

A level that does not stop the loop has `increase > tol_aggregation ≥ 0`, so at least one node left its singleton:
its label is then carried by no node at all (labels are only ever copied from a neighbour), the number of distinct
labels is at most `n - 1`, and the aggregated graph has strictly fewer nodes.  The model runs the loop with
`n + 1` units of fuel: they suffice.  (`pow_self_mono` is kept for users of the uncapped kernel loop.)
-/
import SkNet.Lemmas.TerminateLouvain
import SkNet.Lemmas.ModularityLeiden
import SkNet.Lemmas.ModularityPre

namespace SkNet.Terminate
open SkNet SkNet.Modularity

/-- along `JoinSteps` from the singletons either nothing has changed or some label is carried by no node -/
theorem joinSteps_missing {g : Graph Rat} (hg : GraphOK g) {l : List Nat} (h : JoinSteps g (arange g.n) l) :
    l.length = g.n ∧ (l = arange g.n ∨ ∃ x, x < g.n ∧ x ∉ l) := by
  generalize ha : arange g.n = a at h
  induction h with
  | refl => subst ha; exact ⟨by simp [arange], Or.inl rfl⟩
  | step i e _ hi he ih =>
    rename_i l' _
    obtain ⟨hlen, hcase⟩ := ih
    have he1 : e.1 < g.n := hg.cols i hi e he
    refine ⟨by simp [hlen], ?_⟩
    rcases hcase with heq | ⟨x, hx, hxn⟩
    · -- still the singletons: node `i` takes the label `e.1`
      rw [heq, ← ha]
      have hlab : labOf (arange g.n) e.1 = e.1 := labOf_range g.n e.1 he1
      rw [hlab]
      by_cases hie : e.1 = i
      · left
        rw [hie]
        apply List.ext_getElem (by simp)
        intro k hk1 hk2
        simp only [arange, List.getElem_set, List.getElem_range]
        split <;> omega
      · right
        refine ⟨i, hi, ?_⟩
        intro hmem
        obtain ⟨k, hk, hval⟩ := List.getElem_of_mem hmem
        simp only [arange, List.getElem_set, List.getElem_range] at hval
        split at hval <;> omega
    · right
      refine ⟨x, hx, ?_⟩
      intro hmem
      rcases List.mem_or_eq_of_mem_set hmem with h1 | h1
      · exact hxn h1
      · apply hxn
        rw [h1]
        have : e.1 < l'.length := by rw [hlen]; exact he1
        simp [labOf, List.getD_eq_getElem?_getD, List.getElem?_eq_getElem this]

/-- a label vector of length `n` over `{0..n-1}` that misses a value has fewer than `n` distinct labels -/
theorem nLabels_uniqueInverse_lt (l : List Nat) (n : Nat) (hlt : ∀ y ∈ l, y < n) (x : Nat) (hx : x < n)
    (hxn : x ∉ l) : nLabels (uniqueInverse l) < n := by
  let D := l.foldl (fun s x => setInsert x s) []
  have hD : D.Pairwise (· < ·) := distinct_sorted l [] List.Pairwise.nil
  have hmem : ∀ y, y ∈ D ↔ y ∈ l := by
    intro y
    have := distinct_fold l [] y
    simpa using this
  have hnd : D.Nodup := hD.imp (fun h => Nat.ne_of_lt h)
  have hsub : D ⊆ (List.range n).erase x := by
    intro y hy
    have hyl := (hmem y).mp hy
    rw [List.mem_erase_of_ne (by rintro rfl; exact hxn hyl)]
    exact List.mem_range.mpr (hlt y hyl)
  have hDlen : D.length ≤ n - 1 := by
    have := (List.subperm_of_subset hnd hsub).length_le
    rw [List.length_erase_of_mem (List.mem_range.mpr hx), List.length_range] at this
    exact this
  have hrank : ∀ r ∈ uniqueInverse l, r < D.length := by
    intro r hr
    simp only [uniqueInverse, List.mem_map] at hr
    obtain ⟨y, hy, rfl⟩ := hr
    have hyD : y ∈ D := (hmem y).mpr hy
    apply List.length_filter_lt_length_iff_exists.mpr
    exact ⟨y, hyD, by simp⟩
  have := nLabels_le (uniqueInverse l) D.length hrank
  omega

theorem pow_self_mono {a b : Nat} (h : a ≤ b) : a ^ a ≤ b ^ b := by
  by_cases hb : b = 0
  · subst hb
    have : a = 0 := by omega
    subst this
    exact Nat.le_refl _
  · calc a ^ a ≤ b ^ a := Nat.pow_le_pow_left h a
      _ ≤ b ^ b := Nat.pow_le_pow_right (by omega) h

/-! ### the loop as compiled now (the kernel bounds its passes: `optimizeCoreCapped`, /repo 244a467f) -/

/-- **The outer loop of `Louvain.fit` as compiled** (`louvainLoopCapped`: the kernel returns after at most `n + 1`
    passes whatever the arithmetic does, so no budget for it appears) never exhausts its `n + 1` rounds when
    `tol_aggregation ≥ 0`: the returned increase is still exactly the change of `Q` (`optimizeCoreCapped_spec`), so a
    round that continues has moved a node out of its singleton and the aggregated graph is strictly smaller. -/
theorem louvainLoopCapped_terminates (res tolOpt tolAgg : Rat) (htolAgg : 0 ≤ tolAgg) (nAgg : Int) :
    ∀ (fuel count : Nat) (lv : Level) (memb : List Nat) (incs : List Rat), LevelOK lv → lv.n + 1 ≤ fuel →
      louvainLoopCapped res tolOpt tolAgg nAgg fuel count lv memb incs ≠ none := by
  intro fuel
  induction fuel with
  | zero => intro count lv memb incs _ hf; omega
  | succ f ih =>
    intro count lv memb incs hlv hf
    simp only [louvainLoopCapped]
    cases hopt : louvainOptimizeCapped lv res tolOpt (arange lv.n) with
    | none => simp [louvainOptimizeCapped] at hopt
    | some r =>
      obtain ⟨labels1, inc⟩ := r
      simp only
      split
      · simp
      · rename_i hstop
        simp only [Bool.or_eq_true, decide_eq_true_eq, not_or] at hstop
        obtain ⟨⟨-, hinc⟩, -⟩ := hstop
        have hspec := optimizeCoreCapped_spec lv.graph hlv.graphOK res tolOpt lv.n
          { labels := arange lv.n, outCl := lv.outW, inCl := lv.inW, cw := tab lv.n fun _ => 0 }
          (coreInv_singletons lv hlv)
        have heq : optimizeCoreCapped lv.graph res tolOpt
            { labels := arange lv.n, outCl := lv.outW, inCl := lv.inW, cw := tab lv.n fun _ => 0 } = (labels1, inc) := by
          simpa [louvainOptimizeCapped] using hopt
        rw [heq] at hspec
        obtain ⟨s1, s2, s3, s4, s5⟩ := hspec
        obtain ⟨g1, g2, g3, g4, -⟩ := louvain_level_capped lv hlv res tolOpt labels1 inc hopt
        have hpos : 0 < inc := lt_of_le_of_lt htolAgg (not_le.mp hinc)
        have hne : labels1 ≠ arange lv.n := by
          intro e
          simp only at s1
          rw [e] at s1
          have : inc = 0 := by rw [s1]; ring
          linarith
        obtain ⟨hlen, hcase⟩ := joinSteps_missing hlv.graphOK s3
        rcases hcase with e | ⟨x, hx, hxn⟩
        · exact absurd e hne
        · have hlt : ∀ y ∈ labels1, y < lv.n := by
            intro y hy
            obtain ⟨k, hk, rfl⟩ := List.getElem_of_mem hy
            have := s5 k (by rw [← s4]; exact hk)
            simpa [labOf, List.getD_eq_getElem?_getD, List.getElem?_eq_getElem hk] using this
          have hsmall : (aggregate (uniqueInverse labels1) lv).n < lv.n :=
            nLabels_uniqueInverse_lt labels1 lv.n hlt x hx hxn
          exact ih _ _ _ _ g4 (by omega)

/-- **`Louvain.fit` as compiled terminates** (over ℚ): once the input is accepted, for every `tol_optimization`
    (the pass cap makes the kernel total) and every `tol_aggregation ≥ 0` the model returns. -/
theorem louvainFitCapped_terminates (kind : Kind) (res tolOpt tolAgg : Rat) (htolAgg : 0 ≤ tolAgg) (nAgg : Int)
    (nRow nCol nnz : Nat) (B : Nat → Nat → Rat) (fb : Bool) :
    louvainFitCapped kind res tolOpt tolAgg nAgg nRow nCol nnz B fb ≠ .ok none := by
  unfold louvainFitCapped louvainFitAdj
  cases hpre : preProcessAdj kind (kindAdj kind nRow nCol B fb).1 (kindAdj kind nRow nCol B fb).2 nnz with
  | error e => simp
  | ok lv =>
    obtain ⟨w, _, hlv⟩ := preProcessAdj_ok _ _ _ _ lv hpre
    have hok : LevelOK lv := by rw [hlv]; exact symLevel_levelOK _ _ _ _
    simp only
    intro h
    have h' : louvainLoopCapped res tolOpt tolAgg nAgg (lv.n + 1) 0 lv (arange lv.n) [] = none := by
      injection h
    exact louvainLoopCapped_terminates res tolOpt tolAgg htolAgg nAgg (lv.n + 1) 0 lv (arange lv.n) [] hok
      (Nat.le_refl _) h'

end SkNet.Terminate
