/-
`Leiden.fit` in exact arithmetic, for every oracle of the random choices: the partition it tracks (the coarse
clusters of `optimize_core`, carried through the aggregation by the refined clusters) has an objective that
exceeds the objective of the singletons by exactly the sum of the logged increases.
-/
import SkNet.Lemmas.ModularityRefine

namespace SkNet.Modularity
open Finset

/-! ### compact labels: `np.unique(…, return_inverse=True)` uses every value below the number of labels -/

theorem distinct_sorted (l s : List Nat) (hs : s.Pairwise (· < ·)) :
    (l.foldl (fun s x => setInsert x s) s).Pairwise (· < ·) := by
  induction l generalizing s with
  | nil => exact hs
  | cons a r ih => exact ih _ (setInsert_sorted a s hs)

theorem sorted_rank (D : List Nat) (hD : D.Pairwise (· < ·)) (j : Nat) (hj : j < D.length) :
    (D.filter (· < D[j])).length = j := by
  induction D generalizing j with
  | nil => simp at hj
  | cons z t ih =>
    have hz := List.pairwise_cons.mp hD
    cases j with
    | zero =>
      simp only [List.getElem_cons_zero]
      have : (z :: t).filter (· < z) = [] := by
        apply List.filter_eq_nil_iff.mpr
        intro a ha
        rcases List.mem_cons.mp ha with rfl | ha
        · simp
        · have := hz.1 a ha
          simp only [decide_eq_true_eq]; omega
      rw [this]; rfl
    | succ j' =>
      have hj' : j' < t.length := by simpa using hj
      simp only [List.getElem_cons_succ]
      have hlt : z < t[j'] := hz.1 _ (List.getElem_mem hj')
      rw [List.filter_cons, if_pos (by simpa using hlt), List.length_cons, ih hz.2 j' hj']

theorem nLabels_le (l : List Nat) (m : Nat) (h : ∀ x ∈ l, x < m) : nLabels l ≤ m := by
  have key : ∀ (l : List Nat) (init : Nat), init ≤ m → (∀ x ∈ l, x < m) →
      l.foldl (fun m x => max m (x + 1)) init ≤ m := by
    intro l
    induction l with
    | nil => intro init hi _; exact hi
    | cons a r ih =>
      intro init hi hl
      simp only [List.foldl_cons]
      refine ih _ ?_ fun x hx => hl x (List.mem_cons_of_mem _ hx)
      have := hl a List.mem_cons_self
      omega
  exact key l 0 (Nat.zero_le _) h

theorem uniqueInverse_onto (l : List Nat) (r : Nat) (hr : r < nLabels (uniqueInverse l)) :
    ∃ u, u < l.length ∧ labOf (uniqueInverse l) u = r := by
  have hD : (l.foldl (fun s x => setInsert x s) []).Pairwise (· < ·) := distinct_sorted l [] List.Pairwise.nil
  have hmem := distinct_fold l []
  -- the rank of a member of `l` is its position in the sorted list of distinct values
  have hrank : ∀ x ∈ l, ∃ j, ∃ hj : j < (l.foldl (fun s x => setInsert x s) []).length,
      (l.foldl (fun s x => setInsert x s) [])[j] = x ∧
      ((l.foldl (fun s x => setInsert x s) []).filter (· < x)).length = j := by
    intro x hx
    have hxD : x ∈ l.foldl (fun s x => setInsert x s) [] := (hmem x).mpr (Or.inr hx)
    obtain ⟨j, hj, hjx⟩ := List.getElem_of_mem hxD
    exact ⟨j, hj, hjx, by rw [← hjx]; exact sorted_rank _ hD j hj⟩
  have hbound : nLabels (uniqueInverse l) ≤ (l.foldl (fun s x => setInsert x s) []).length := by
    apply nLabels_le
    intro y hy
    unfold uniqueInverse at hy
    simp only [List.mem_map] at hy
    obtain ⟨x, hx, rfl⟩ := hy
    obtain ⟨j, hj, -, hjr⟩ := hrank x hx
    rw [hjr]; exact hj
  have hrD : r < (l.foldl (fun s x => setInsert x s) []).length := lt_of_lt_of_le hr hbound
  have hxl : (l.foldl (fun s x => setInsert x s) [])[r] ∈ l := by
    rcases (hmem _).mp (List.getElem_mem hrD) with h | h
    · exact absurd h List.not_mem_nil
    · exact h
  obtain ⟨u, hu, hux⟩ := List.getElem_of_mem hxl
  refine ⟨u, hu, ?_⟩
  unfold uniqueInverse
  simp only
  rw [labOf_map _ _ _ hu]
  have : labOf l u = (l.foldl (fun s x => setInsert x s) [])[r] := by
    unfold labOf
    rw [List.getD_eq_getElem?_getD, List.getElem?_eq_getElem hu]
    exact hux
  rw [this]
  exact sorted_rank _ hD r hrD

/-! ### `labels_ = membership_refined.T.dot(membership).indices` -/

theorem foldl_setInsert_const (f : Nat → Nat) (ℓ : Nat) (M : List Nat) (hM : M ≠ []) (h : ∀ i ∈ M, f i = ℓ) :
    M.foldl (fun s i => setInsert (f i) s) [] = [ℓ] := by
  have keep : ∀ M : List Nat, (∀ i ∈ M, f i = ℓ) → M.foldl (fun s i => setInsert (f i) s) [ℓ] = [ℓ] := by
    intro M
    induction M with
    | nil => intro _; rfl
    | cons a r ih =>
      intro h
      simp only [List.foldl_cons, h a List.mem_cons_self]
      have : setInsert ℓ [ℓ] = [ℓ] := by simp [setInsert]
      rw [this]
      exact ih fun i hi => h i (List.mem_cons_of_mem _ hi)
  cases M with
  | nil => exact absurd rfl hM
  | cons a r =>
    simp only [List.foldl_cons, h a List.mem_cons_self]
    have : setInsert ℓ [] = [ℓ] := by simp [setInsert]
    rw [this]
    exact keep r fun i hi => h i (List.mem_cons_of_mem _ hi)

theorem flatMap_singletons (k : Nat) (G : Nat → List Nat) (h : ∀ r, r < k → ∃ ℓ, G r = [ℓ]) :
    (List.range k).flatMap G = (List.range k).map fun r => (G r).headD 0 := by
  induction k with
  | zero => simp
  | succ k ih =>
    obtain ⟨ℓ, hℓ⟩ := h k (Nat.lt_succ_self k)
    rw [List.range_succ, List.flatMap_append, List.map_append, ih fun r hr => h r (Nat.lt_succ_of_lt hr)]
    simp [hℓ]

theorem refinedToLabels_spec (n : Nat) (labels refined : List Nat) (hlen : labels.length = n)
    (hinv : RefInv n labels refined)
    (honto : ∀ r, r < nLabels refined → ∃ u, u < n ∧ labOf refined u = r) :
    (refinedToLabels labels refined).length = nLabels refined ∧
    ∀ u, u < n → labOf (refinedToLabels labels refined) (labOf refined u) = labOf labels u := by
  -- every refined cluster contributes exactly the label of its members
  have hG : ∀ r, r < nLabels refined → ∀ u, u < n → labOf refined u = r →
      ((List.range labels.length).filter (fun i => refined.getD i 0 == r)).foldl
        (fun s i => setInsert (labels.getD i 0) s) [] = [labOf labels u] := by
    intro r _ u hu hur
    apply foldl_setInsert_const
    · intro hnil
      have : u ∈ (List.range labels.length).filter (fun i => refined.getD i 0 == r) := by
        rw [List.mem_filter]
        exact ⟨List.mem_range.mpr (by rw [hlen]; exact hu), beq_iff_eq.mpr hur⟩
      rw [hnil] at this
      exact absurd this List.not_mem_nil
    · intro i hi
      rw [List.mem_filter] at hi
      have hi1 : i < n := by rw [← hlen]; exact List.mem_range.mp hi.1
      have hi2 : labOf refined i = r := beq_iff_eq.mp hi.2
      exact hinv.refines i u hi1 hu (hi2.trans hur.symm)
  have hsing : ∀ r, r < nLabels refined → ∃ ℓ,
      ((List.range labels.length).filter (fun i => refined.getD i 0 == r)).foldl
        (fun s i => setInsert (labels.getD i 0) s) [] = [ℓ] := by
    intro r hr
    obtain ⟨u, hu, hur⟩ := honto r hr
    exact ⟨_, hG r hr u hu hur⟩
  have heq := flatMap_singletons (nLabels refined) _ hsing
  unfold refinedToLabels
  rw [heq]
  refine ⟨by simp, ?_⟩
  intro u hu
  have hr : labOf refined u < nLabels refined := labOf_lt_nLabels refined u (by rw [hinv.len]; exact hu)
  rw [labOf_map _ _ _ (by simpa using hr), labOf_range _ _ hr, hG _ hr u hu rfl]
  rfl

/-! ### one call of `Leiden._optimize` -/

theorem coreInv_labels (lv : Level) (hlv : LevelOK lv) (labels : List Nat) (hlen : labels.length = lv.n) :
    CoreInv lv.graph (nLabels labels)
      { labels := labels, outCl := tab (nLabels labels) (aggVec labels lv.outW),
        inCl := tab (nLabels labels) (aggVec labels lv.inW), cw := tab (nLabels labels) fun _ => 0 } where
  len := hlen
  bound := fun i hi => labOf_lt_nLabels labels i (by rw [hlen]; exact hi)
  lenO := by simp
  lenI := by simp
  lenC := by simp
  cwZero := fun x => by
    show (tab (nLabels labels) fun _ => (0 : Rat)).getD x 0 = 0
    rw [tab_getD]; split <;> rfl
  volO := fun x hx => by
    show (tab (nLabels labels) (aggVec labels lv.outW)).getD x 0 = _
    rw [tab_getD, if_pos hx, aggVec_eq, hlv.lenO]
    rfl
  volI := fun x hx => by
    show (tab (nLabels labels) (aggVec labels lv.inW)).getD x 0 = _
    rw [tab_getD, if_pos hx, aggVec_eq, hlv.lenI]
    rfl

theorem leiden_level (lv : Level) (hlv : LevelOK lv) (res tolOpt : Rat) (labels : List Nat)
    (hlen : labels.length = lv.n) (labels1 : List Nat) (inc : Rat)
    (h : leidenOptimize lv res tolOpt labels = some (labels1, inc)) :
    0 ≤ inc ∧ (uniqueInverse labels1).length = lv.n ∧
    QL lv res (uniqueInverse labels1) = QL lv res labels + inc := by
  unfold leidenOptimize at h
  simp only [Option.some.injEq] at h
  obtain ⟨h1, h2, -, h4, -⟩ := optimizeCoreCapped_spec lv.graph hlv.graphOK res tolOpt (nLabels labels) _
    (coreInv_labels lv hlv labels hlen)
  rw [h] at h1 h2 h4
  simp only at h1 h2 h4
  have hlen1 : labels1.length = lv.n := h4
  refine ⟨h2, by rw [uniqueInverse_length, hlen1], ?_⟩
  have hQ : QL lv res (uniqueInverse labels1) = QL lv res labels1 := by
    refine Q_partition_congr _ _ _ _ _ _ _ fun u v hu hv => ?_
    exact uniqueInverse_iff labels1 u v (by rw [hlen1]; exact hu) (by rw [hlen1]; exact hv)
  rw [hQ]
  have : inc = QL lv res labels1 - QL lv res labels := h1
  linarith

/-- the refinement of one aggregation, made compact: it refines the clusters and uses every label -/
theorem leiden_refine (lv : Level) (hlv : LevelOK lv) (res : Rat) (coreFuel : Nat) (labels2 : List Nat)
    (rands refined rest : List Nat) (h : leidenRefine lv res coreFuel labels2 rands = some (refined, rest)) :
    RefInv lv.n labels2 (uniqueInverse refined) := by
  have h0 : RefInv lv.graph.n labels2 (arange lv.n) := by
    refine ⟨by simp [arange, Level.graph], ?_⟩
    intro u v hu hv huv
    have hu' : u < lv.n := hu
    have hv' : v < lv.n := hv
    rw [show arange lv.n = List.range lv.n from rfl, labOf_range _ _ hu', labOf_range _ _ hv'] at huv
    rw [huv]
  obtain ⟨k1, -⟩ := refineCore_spec lv.graph hlv.graphOK.cols res labels2 coreFuel _ rands h0 refined rest h
  have hl : refined.length = lv.n := k1.len
  refine ⟨by rw [uniqueInverse_length, hl], ?_⟩
  intro u v hu hv huv
  exact k1.refines u v hu hv ((uniqueInverse_iff refined u v (by rw [hl]; exact hu) (by rw [hl]; exact hv)).mp huv)

/-! ### the loop -/

theorem leidenLoop_spec (res tolOpt tolAgg : Rat) (nAgg : Int) (lv0 : Level) :
    ∀ (fuel count : Nat) (lv : Level) (labels memb : List Nat) (incs : List Rat) (rands : List (List Nat))
      (out : FitOut),
      LevelOK lv → labels.length = lv.n → memb.length = lv0.n → (∀ u, u < lv0.n → labOf memb u < lv.n) →
      (∀ c' : Nat → Nat, Q lv.n (adj lv.graph) lv.graph.outW lv.graph.inW res c'
          = Q lv0.n (adj lv0.graph) lv0.graph.outW lv0.graph.inW res (fun u => c' (labOf memb u))) →
      leidenLoop res tolOpt tolAgg nAgg fuel count lv labels memb incs rands = some out →
      ∃ extra : List Rat, out.increases = incs ++ extra ∧ (∀ x ∈ extra, 0 ≤ x) ∧
        out.labels.length = lv0.n ∧ QL lv0 res out.labels = QL lv res labels + extra.sum := by
  intro fuel
  induction fuel with
  | zero => intro count lv labels memb incs rands out _ _ _ _ _ h; simp [leidenLoop] at h
  | succ f ih =>
    intro count lv labels memb incs rands out hlv hlen hmlen hmb hQ h
    simp only [leidenLoop] at h
    split at h
    · cases h
    · rename_i labels1 inc hopt
      obtain ⟨g1, g2, g3⟩ := leiden_level lv hlv res tolOpt labels hlen labels1 inc hopt
      split at h
      · cases h
      · rename_i refined rest href
        have hrinv := leiden_refine lv hlv res 0 (uniqueInverse labels1) _ refined rest href
        have hrlen : (uniqueInverse refined).length = lv.n := hrinv.len
        split at h
        · -- the loop stops: the coarse clusters of this aggregation are returned
          simp only [Option.some.injEq] at h
          subst h
          refine ⟨[inc], rfl, by simpa using g1, by simp [hmlen], ?_⟩
          have e1 : QL lv0 res (memb.map fun x => (uniqueInverse labels1).getD x 0)
              = QL lv res (uniqueInverse labels1) := by
            show Q lv0.n _ _ _ res _ = Q lv.n _ _ _ res _
            rw [hQ (labOf (uniqueInverse labels1))]
            exact Q_congr _ _ _ _ _ _ _ fun u hu => labOf_map memb _ u (by rw [hmlen]; exact hu)
          rw [e1, g3]; simp
        · -- the loop goes on with the graph aggregated by the refined clusters
          have hspec := refinedToLabels_spec lv.n (uniqueInverse labels1) (uniqueInverse refined) g2 hrinv
            (fun r hr => by
              obtain ⟨u, hu, hur⟩ := uniqueInverse_onto refined r hr
              refine ⟨u, ?_, hur⟩
              rw [← hrlen, uniqueInverse_length]; exact hu)
          have hmlen' : (memb.map fun x => (uniqueInverse refined).getD x 0).length = lv0.n := by simp [hmlen]
          have hcomp : ∀ u, u < lv0.n →
              labOf (memb.map fun x => (uniqueInverse refined).getD x 0) u
                = labOf (uniqueInverse refined) (labOf memb u) :=
            fun u hu => labOf_map memb _ u (by rw [hmlen]; exact hu)
          have hmb' : ∀ u, u < lv0.n → labOf (memb.map fun x => (uniqueInverse refined).getD x 0) u
              < (aggregate (uniqueInverse refined) lv).n := by
            intro u hu
            rw [hcomp u hu]
            exact labOf_lt_nLabels _ _ (by rw [hrlen]; exact hmb u hu)
          have hQ' : ∀ c' : Nat → Nat,
              Q (aggregate (uniqueInverse refined) lv).n (adj (aggregate (uniqueInverse refined) lv).graph)
                  (aggregate (uniqueInverse refined) lv).graph.outW (aggregate (uniqueInverse refined) lv).graph.inW res c'
                = Q lv0.n (adj lv0.graph) lv0.graph.outW lv0.graph.inW res
                    (fun u => c' (labOf (memb.map fun x => (uniqueInverse refined).getD x 0) u)) := by
            intro c'
            rw [aggregate_Q _ lv hlv hrlen res c', hQ]
            exact Q_congr _ _ _ _ _ _ _ fun u hu => by rw [hcomp u hu]
          obtain ⟨extra, k1, k2, k3, k4⟩ := ih _ (aggregate (uniqueInverse refined) lv)
            (refinedToLabels (uniqueInverse labels1) (uniqueInverse refined)) _ _ _ out
            (aggregate_levelOK _ lv hlv hrlen) hspec.1 hmlen' hmb' hQ' h
          refine ⟨inc :: extra, by rw [k1]; simp, ?_, k3, ?_⟩
          · intro x hx
            rcases List.mem_cons.mp hx with rfl | hx
            · exact g1
            · exact k2 x hx
          · have e2 : QL (aggregate (uniqueInverse refined) lv) res
                (refinedToLabels (uniqueInverse labels1) (uniqueInverse refined))
                = QL lv res (uniqueInverse labels1) := by
              show Q (aggregate (uniqueInverse refined) lv).n _ _ _ res _ = Q lv.n _ _ _ res _
              rw [aggregate_Q _ lv hlv hrlen res]
              exact Q_congr _ _ _ _ _ _ _ fun u hu => hspec.2 u hu
            rw [k4, e2, g3, List.sum_cons]; ring

/-- **Leiden.fit, exact arithmetic, every oracle.** -/
theorem leidenFit_spec (kind : Kind) (res tolOpt tolAgg : Rat) (nAgg : Int) (nRow nCol nnz : Nat)
    (B : Nat → Nat → Rat) (fb : Bool) (outerFuel : Nat) (rands : List (List Nat)) (out : FitOut)
    (h : leidenFit kind res tolOpt tolAgg nAgg nRow nCol nnz B fb outerFuel rands = .ok (some out)) :
    out.labels.length = (kindAdj kind nRow nCol B fb).1 ∧
    objective kind (kindAdj kind nRow nCol B fb).1 (kindAdj kind nRow nCol B fb).2 res (labOf out.labels)
      = objective kind (kindAdj kind nRow nCol B fb).1 (kindAdj kind nRow nCol B fb).2 res (fun u => u)
        + out.increases.sum ∧
    ∀ x ∈ out.increases, 0 ≤ x := by
  unfold leidenFit at h
  split at h
  · cases h
  · rename_i lv hlv
    simp only [Except.ok.injEq] at h
    obtain ⟨w, hw, rfl⟩ := preProcess_ok _ _ _ _ _ _ _ hlv
    have hOK := symLevel_levelOK (kindAdj kind nRow nCol B fb).1 (kindAdj kind nRow nCol B fb).2 w.1 w.2
    obtain ⟨extra, k1, k2, k3, k4⟩ := leidenLoop_spec res tolOpt tolAgg nAgg _ _ 0 _
      (arange (kindAdj kind nRow nCol B fb).1) (arange (kindAdj kind nRow nCol B fb).1) [] rands out hOK
      (by simp [arange, symLevel]) (by simp [arange, symLevel])
      (fun u hu => by
        show labOf (List.range (kindAdj kind nRow nCol B fb).1) u < (kindAdj kind nRow nCol B fb).1
        rw [labOf_range (kindAdj kind nRow nCol B fb).1 u hu]; exact hu)
      (fun c' => Q_congr _ _ _ _ _ _ _ fun u hu => by
        show c' u = c' (labOf (List.range (kindAdj kind nRow nCol B fb).1) u)
        rw [labOf_range (kindAdj kind nRow nCol B fb).1 u hu]) h
    simp only [List.nil_append] at k1
    refine ⟨k3, ?_, by rw [k1]; exact k2⟩
    have e1 := kindWeights_objective kind _ _ w hw res (labOf out.labels)
    have e2 := kindWeights_objective kind _ _ w hw res (labOf (arange (kindAdj kind nRow nCol B fb).1))
    have e3 : objective kind (kindAdj kind nRow nCol B fb).1 (kindAdj kind nRow nCol B fb).2 res
          (labOf (arange (kindAdj kind nRow nCol B fb).1))
        = objective kind (kindAdj kind nRow nCol B fb).1 (kindAdj kind nRow nCol B fb).2 res (fun u => u) := by
      rw [← e2, ← kindWeights_objective kind _ _ w hw res (fun u => u)]
      exact Q_congr _ _ _ _ _ _ _ fun u hu => labOf_range _ _ hu
    rw [← e1, ← e3, ← e2, k1]
    exact k4

end SkNet.Modularity
