/-
`get_index` (dendrograms.py): whenever it returns, the order of the leaves is a permutation of `0 … n-1`
(every leaf gets a position of its own).  Invariant of the merge loop: the keys of the dict are distinct and
below `n + t`, `n - t` trees are left, and the leaf lists of the trees together are a permutation of the leaves.
-/
import SkNet.Lemmas.SvgWf

namespace SkNet.Svg

/-! ### loops over `range` -/

theorem foldlM_range' {β ε : Type} (P : Nat → β → Prop) (f : β → Nat → Except ε β) (m : Nat) :
    ∀ (s : Nat) (init res : β), P s init →
      (∀ t acc acc', s ≤ t → t < s + m → P t acc → f acc t = .ok acc' → P (t + 1) acc') →
      (List.range' s m).foldlM f init = .ok res → P (s + m) res := by
  induction m with
  | zero =>
    intro s init res h0 _ h
    simp only [List.range'_zero, List.foldlM, pure, Except.pure, Except.ok.injEq] at h
    simpa using h ▸ h0
  | succ m ih =>
    intro s init res h0 hstep h
    simp only [List.range'_succ, List.foldlM, bind, Except.bind] at h
    cases hx : f init s with
    | error e => simp [hx] at h
    | ok acc' =>
      simp only [hx] at h
      have h1 := hstep s init acc' (Nat.le_refl _) (by omega) h0 hx
      have := ih (s + 1) acc' res h1 (fun t acc acc'' hs ht => hstep t acc acc'' (by omega) (by omega)) h
      have e : s + 1 + m = s + (m + 1) := by omega
      exact e ▸ this

theorem foldlM_range {β ε : Type} (P : Nat → β → Prop) (f : β → Nat → Except ε β) (m : Nat) (init res : β)
    (h0 : P 0 init) (hstep : ∀ t acc acc', t < m → P t acc → f acc t = .ok acc' → P (t + 1) acc')
    (h : (List.range m).foldlM f init = .ok res) : P m res := by
  rw [List.range_eq_range'] at h
  have := foldlM_range' P f m 0 init res h0 (fun t acc acc' _ ht => hstep t acc acc' (by omega)) h
  simpa using this

/-! ### the dict operations -/

theorem dpop_eq {α : Type} {d : List (Nat × α)} {k : Nat} {v : α} {d' : List (Nat × α)}
    (h : dpop d k = .ok (v, d')) : (∃ e ∈ d, e.1 = k ∧ e.2 = v) ∧ d' = d.filter (fun e => e.1 ≠ k) := by
  unfold dpop at h
  split at h
  · rename_i k' v' hf
    simp only [Except.ok.injEq, Prod.mk.injEq] at h
    have hm := List.mem_of_find?_eq_some hf
    have hp := List.find?_some hf
    simp only [decide_eq_true_eq] at hp
    exact ⟨⟨(k', v'), hm, hp, h.1⟩, h.2.symm⟩
  · simp at h

/-- removing the entry of key `k` from a dict with distinct keys -/
theorem remove_key (d : List (Nat × List Nat)) (k : Nat) (e : Nat × List Nat) (hnd : (d.map (·.1)).Nodup)
    (he : e ∈ d) (hk : e.1 = k) :
    (d.filter (fun x => x.1 ≠ k)).length + 1 = d.length ∧
    (d.flatMap (·.2)).Perm (e.2 ++ (d.filter (fun x => x.1 ≠ k)).flatMap (·.2)) := by
  induction d with
  | nil => simp at he
  | cons x xs ih =>
    simp only [List.map_cons, List.nodup_cons, List.mem_map, not_exists, not_and] at hnd
    rcases List.mem_cons.mp he with h | h
    · -- the head is the entry: no other entry has key k
      subst h
      have hrest : xs.filter (fun x => decide (x.1 ≠ k)) = xs := by
        apply List.filter_eq_self.mpr
        intro y hy
        have := hnd.1 y hy
        simp only [decide_eq_true_eq]
        intro hyk; exact this (by rw [hyk, hk])
      have hhead : decide (e.1 ≠ k) = false := by simp [hk]
      rw [List.filter_cons, if_neg (by simp [hhead]), hrest]
      exact ⟨rfl, by simp⟩
    · have hxk : x.1 ≠ k := by
        intro hx; exact hnd.1 e h (by rw [hk, hx])
      obtain ⟨h1, h2⟩ := ih hnd.2 h
      have hhead : decide (x.1 ≠ k) = true := by simp [hxk]
      rw [List.filter_cons, if_pos hhead]
      refine ⟨by simp only [List.length_cons]; omega, ?_⟩
      simp only [List.flatMap_cons]
      -- x.2 ++ rest ~ e.2 ++ (x.2 ++ rest')
      exact (List.Perm.append_left x.2 h2).trans (by
        rw [← List.append_assoc, ← List.append_assoc]
        exact List.Perm.append_right _ List.perm_append_comm)

theorem filter_nodup_keys (d : List (Nat × List Nat)) (p : Nat × List Nat → Bool) (hnd : (d.map (·.1)).Nodup) :
    ((d.filter p).map (·.1)).Nodup := by
  induction d with
  | nil => simp
  | cons x xs ih =>
    simp only [List.map_cons, List.nodup_cons, List.mem_map, not_exists, not_and] at hnd
    simp only [List.filter_cons]
    split
    · simp only [List.map_cons, List.nodup_cons, List.mem_map, not_exists, not_and]
      exact ⟨fun y hy => hnd.1 y (List.mem_filter.mp hy).1, ih hnd.2⟩
    · exact ih hnd.2

theorem dset_new {α : Type} (d : List (Nat × α)) (k : Nat) (v : α) (h : ∀ e ∈ d, e.1 ≠ k) : dset d k v = d ++ [(k, v)] := by
  unfold dset
  have : d.any (fun e => decide (e.1 = k)) = false := by
    simp only [List.any_eq_false, decide_eq_true_eq]
    exact h
  simp [this]

/-! ### the invariant of the merge loop -/

structure TreeInv (n t : Nat) (tree : List (Nat × List Nat)) : Prop where
  nodup : (tree.map (·.1)).Nodup
  bound : ∀ e ∈ tree, e.1 < n + t
  len : tree.length + t = n
  perm : (tree.flatMap (·.2)).Perm (List.range n)

theorem treeInv_init (n : Nat) : TreeInv n 0 (tab n fun i => (i, [i])) := by
  refine ⟨?_, ?_, by simp, ?_⟩
  · simp [SkNet.tab, List.map_map, Function.comp_def, List.nodup_range]
  · intro e he
    simp only [SkNet.tab, List.mem_map, List.mem_range] at he
    obtain ⟨i, hi, rfl⟩ := he
    simpa using hi
  · have : (tab n fun i => (i, [i])).flatMap (·.2) = List.range n := by
      simp [SkNet.tab, List.flatMap_map]
    rw [this]

theorem treeInv_step (n : Nat) (merges : List (Nat × Nat)) (reorder : Bool) (t : Nat)
    (tree tree' : List (Nat × List Nat)) (hinv : TreeInv n t tree)
    (h : indexStep n merges reorder tree t = .ok tree') : TreeInv n (t + 1) tree' := by
  unfold indexStep at h
  split at h
  · simp at h
  rename_i left tree1 h1
  split at h
  · simp at h
  rename_i right tree2 h2
  obtain ⟨⟨e1, he1, hk1, hv1⟩, ht1⟩ := dpop_eq h1
  have r1 := remove_key tree _ e1 hinv.nodup he1 hk1
  rw [← ht1, hv1] at r1
  have nd1 : (tree1.map (·.1)).Nodup := ht1 ▸ filter_nodup_keys tree _ hinv.nodup
  obtain ⟨⟨e2, he2, hk2, hv2⟩, ht2⟩ := dpop_eq h2
  have r2 := remove_key tree1 _ e2 nd1 he2 hk2
  rw [← ht2, hv2] at r2
  have nd2 : (tree2.map (·.1)).Nodup := ht2 ▸ filter_nodup_keys tree1 _ nd1
  have sub2 : ∀ e ∈ tree2, e ∈ tree := by
    intro e he
    rw [ht2] at he
    have := (List.mem_filter.mp he).1
    rw [ht1] at this
    exact (List.mem_filter.mp this).1
  have hnew : ∀ e ∈ tree2, e.1 ≠ n + t := fun e he => Nat.ne_of_lt (hinv.bound e (sub2 e he))
  have hperm : (tree.flatMap (·.2)).Perm (left ++ (right ++ tree2.flatMap (·.2))) :=
    r1.2.trans (List.Perm.append_left left r2.2)
  have key : ∀ v : List Nat, v.Perm (left ++ right) → TreeInv n (t + 1) (dset tree2 (n + t) v) := by
    intro v hv
    rw [dset_new tree2 (n + t) v hnew]
    refine ⟨?_, ?_, ?_, ?_⟩
    · simp only [List.map_append, List.map_cons, List.map_nil]
      rw [List.nodup_append]
      refine ⟨nd2, by simp, ?_⟩
      intro a ha b hb
      simp only [List.mem_map] at ha
      obtain ⟨e, he, rfl⟩ := ha
      simp only [List.mem_singleton] at hb
      subst hb
      exact hnew e he
    · intro e he
      rcases List.mem_append.mp he with he | he
      · have := hinv.bound e (sub2 e he); omega
      · simp only [List.mem_singleton] at he; subst he; simp
    · have := hinv.len
      simp only [List.length_append, List.length_cons, List.length_nil]
      omega
    · simp only [List.flatMap_append, List.flatMap_cons, List.flatMap_nil, List.append_nil]
      refine List.Perm.trans ?_ hinv.perm
      refine List.Perm.trans ?_ hperm.symm
      refine List.perm_append_comm.trans ?_
      rw [← List.append_assoc]
      exact List.Perm.append_right _ hv
  split at h
  · simp only [Except.ok.injEq] at h
    exact h ▸ key _ List.perm_append_comm
  · simp only [Except.ok.injEq] at h
    exact h ▸ key _ (List.Perm.refl _)

/-- `get_index`: the order of the leaves is a permutation of `0 … n-1` -/
theorem getIndex_perm (merges : List (Nat × Nat)) (reorder : Bool) (index : List Nat)
    (h : getIndex merges reorder = .ok index) : index.Perm (List.range (merges.length + 1)) := by
  unfold getIndex at h
  simp only at h
  split at h
  · simp at h
  rename_i tree htree
  have hinv := foldlM_range (TreeInv (merges.length + 1)) _ _ _ _ (treeInv_init _)
    (fun t acc acc' _ hacc hstep => treeInv_step _ merges reorder t acc acc' hacc hstep) htree
  split at h
  · rename_i k l rest
    simp only [Except.ok.injEq] at h
    subst h
    have hl := hinv.len
    simp only [Nat.add_sub_cancel, List.length_cons] at hl
    have : rest = [] := by
      cases rest with
      | nil => rfl
      | cons _ _ => simp at hl; omega
    subst this
    simpa using hinv.perm
  · simp at h

theorem getIndex_length (merges : List (Nat × Nat)) (reorder : Bool) (index : List Nat)
    (h : getIndex merges reorder = .ok index) : index.length = merges.length + 1 := by
  have := (getIndex_perm merges reorder index h).length_eq
  simpa using this

end SkNet.Svg
