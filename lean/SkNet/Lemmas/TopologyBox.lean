/-
C11 helper lemmas: reading and writing the cells of the `ListingBox` (functional views, frame lemmas, shape).
-/
import SkNet.Lemmas.TopologyCsr

set_option linter.unusedSimpArgs false

namespace SkNet.Topology

theorem getD_set {α : Type} (l : List α) (i j : Nat) (x d : α) :
    (l.set i x).getD j d = if i = j ∧ i < l.length then x else l.getD j d := by
  rw [List.getD_eq_getElem?_getD, List.getElem?_set, List.getD_eq_getElem?_getD]
  by_cases h : i = j
  · subst h
    by_cases h2 : i < l.length
    · simp [h2]
    · simp [h2, List.getElem?_eq_none (Nat.le_of_not_lt h2)]
  · simp [h]

theorem getD_set_self {α : Type} (l : List α) (i : Nat) (x d : α) (h : i < l.length) :
    (l.set i x).getD i d = x := by
  rw [getD_set]; simp [h]

theorem getD_set_ne {α : Type} (l : List α) (i j : Nat) (x d : α) (h : i ≠ j) :
    (l.set i x).getD j d = l.getD j d := by
  rw [getD_set]; simp [h]

theorem set_getD_self {α : Type} (l : List α) (i : Nat) (d : α) (h : i < l.length) :
    l.set i (l.getD i d) = l := by
  apply List.ext_getElem
  · simp
  · intro j h1 h2
    rw [List.getElem_set]
    by_cases hij : i = j
    · subst hij; simp [List.getD_eq_getElem?_getD, List.getElem?_eq_getElem h]
    · simp [hij]

/-! ### views -/

def Box.nsAt (b : Box) (l : Nat) : Nat := b.ns.getD l 0
def Box.labAt (b : Box) (v : Nat) : Nat := b.lab.getD v 0

/-- the sizes of the arrays of a box made for clique size `k`, `n` nodes, maximal out-degree `m` -/
structure Box.Shape (b : Box) (k n m : Nat) : Prop where
  ns : b.ns.length = k + 1
  degs : b.degrees.length = k + 1
  subs : b.subs.length = k + 1
  lab : b.lab.length = n
  deg : ∀ l, 2 ≤ l → l ≤ k → (b.degrees.getD l []).length = n
  sub : ∀ l, 2 ≤ l → l < k → (b.subs.getD l []).length = m
  subTop : (b.subs.getD k []).length = n

/-! ### `setLab` -/

theorem Box.labAt_setLab (b : Box) (v x w : Nat) (hv : v < b.lab.length) :
    (b.setLab v x).labAt w = if w = v then x else b.labAt w := by
  unfold Box.setLab Box.labAt
  simp only
  rw [getD_set]
  by_cases h : v = w
  · subst h; simp [hv]
  · have : ¬ w = v := fun e => h e.symm
    simp [h, this]

@[simp] theorem Box.deg_setLab (b : Box) (v x l w : Nat) : (b.setLab v x).deg l w = b.deg l w := rfl
@[simp] theorem Box.sub_setLab (b : Box) (v x l i : Nat) : (b.setLab v x).sub l i = b.sub l i := rfl
@[simp] theorem Box.nsAt_setLab (b : Box) (v x l : Nat) : (b.setLab v x).nsAt l = b.nsAt l := rfl

theorem Box.Shape.setLab {b : Box} {k n m : Nat} (h : b.Shape k n m) (v x : Nat) : (b.setLab v x).Shape k n m :=
  { h with lab := by simp [Box.setLab, h.lab] }

/-! ### `setNs` -/

theorem Box.nsAt_setNs (b : Box) (l x l' : Nat) (hl : l < b.ns.length) :
    (b.setNs l x).nsAt l' = if l' = l then x else b.nsAt l' := by
  unfold Box.setNs Box.nsAt
  simp only
  rw [getD_set]
  by_cases h : l = l'
  · subst h; simp [hl]
  · have : ¬ l' = l := fun e => h e.symm
    simp [h, this]

@[simp] theorem Box.deg_setNs (b : Box) (l x l' w : Nat) : (b.setNs l x).deg l' w = b.deg l' w := rfl
@[simp] theorem Box.sub_setNs (b : Box) (l x l' i : Nat) : (b.setNs l x).sub l' i = b.sub l' i := rfl
@[simp] theorem Box.labAt_setNs (b : Box) (l x w : Nat) : (b.setNs l x).labAt w = b.labAt w := rfl

theorem Box.Shape.setNs {b : Box} {k n m : Nat} (h : b.Shape k n m) (l x : Nat) : (b.setNs l x).Shape k n m :=
  { h with ns := by simp [Box.setNs, h.ns] }

/-! ### `setDeg` -/

theorem Box.deg_setDeg (b : Box) (l v x l' v' : Nat) (hl : l < b.degrees.length)
    (hv : v < (b.degrees.getD l []).length) :
    (b.setDeg l v x).deg l' v' = if l' = l ∧ v' = v then x else b.deg l' v' := by
  unfold Box.setDeg Box.deg
  simp only
  rw [getD_set]
  by_cases h : l = l'
  · subst h
    simp only [hl, and_self, if_true, true_and]
    rw [getD_set]
    by_cases h2 : v = v'
    · subst h2; rw [if_pos ⟨rfl, hv⟩, if_pos rfl]
    · have : ¬ v' = v := fun e => h2 e.symm
      simp [h2, this]
  · have : ¬ l' = l := fun e => h e.symm
    simp [h, this]

@[simp] theorem Box.sub_setDeg (b : Box) (l v x l' i : Nat) : (b.setDeg l v x).sub l' i = b.sub l' i := rfl
@[simp] theorem Box.nsAt_setDeg (b : Box) (l v x l' : Nat) : (b.setDeg l v x).nsAt l' = b.nsAt l' := rfl
@[simp] theorem Box.labAt_setDeg (b : Box) (l v x w : Nat) : (b.setDeg l v x).labAt w = b.labAt w := rfl

theorem Box.Shape.setDeg {b : Box} {k n m : Nat} (h : b.Shape k n m) (l v x : Nat) :
    (b.setDeg l v x).Shape k n m := by
  refine { h with degs := by simp [Box.setDeg, h.degs], deg := ?_ }
  intro l' h1 h2
  unfold Box.setDeg
  simp only
  rw [getD_set]
  by_cases e : l = l' ∧ l < b.degrees.length
  · rw [if_pos e, List.length_set]; rw [e.1]; exact h.deg l' h1 h2
  · rw [if_neg e]; exact h.deg l' h1 h2

/-! ### `setSub` -/

theorem Box.sub_setSub (b : Box) (l i x l' i' : Nat) (hl : l < b.subs.length)
    (hi : i < (b.subs.getD l []).length) :
    (b.setSub l i x).sub l' i' = if l' = l ∧ i' = i then x else b.sub l' i' := by
  unfold Box.setSub Box.sub
  simp only
  rw [getD_set]
  by_cases h : l = l'
  · subst h
    simp only [hl, and_self, if_true, true_and]
    rw [getD_set]
    by_cases h2 : i = i'
    · subst h2; rw [if_pos ⟨rfl, hi⟩, if_pos rfl]
    · have : ¬ i' = i := fun e => h2 e.symm
      simp [h2, this]
  · have : ¬ l' = l := fun e => h e.symm
    simp [h, this]

@[simp] theorem Box.deg_setSub (b : Box) (l i x l' w : Nat) : (b.setSub l i x).deg l' w = b.deg l' w := rfl
@[simp] theorem Box.nsAt_setSub (b : Box) (l i x l' : Nat) : (b.setSub l i x).nsAt l' = b.nsAt l' := rfl
@[simp] theorem Box.labAt_setSub (b : Box) (l i x w : Nat) : (b.setSub l i x).labAt w = b.labAt w := rfl

theorem Box.Shape.setSub {b : Box} {k n m : Nat} (h : b.Shape k n m) (l i x : Nat) :
    (b.setSub l i x).Shape k n m := by
  have key : ∀ l', ((b.subs.set l ((b.subs.getD l []).set i x)).getD l' []).length = (b.subs.getD l' []).length := by
    intro l'
    rw [getD_set]
    by_cases e : l = l' ∧ l < b.subs.length
    · rw [if_pos e, List.length_set, e.1]
    · rw [if_neg e]
  refine { h with subs := by simp [Box.setSub, h.subs], sub := ?_, subTop := ?_ }
  · intro l' h1 h2
    show ((b.subs.set l ((b.subs.getD l []).set i x)).getD l' []).length = m
    rw [key]; exact h.sub l' h1 h2
  · show ((b.subs.set l ((b.subs.getD l []).set i x)).getD k []).length = n
    rw [key]; exact h.subTop

end SkNet.Topology
