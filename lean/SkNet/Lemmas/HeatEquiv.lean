/-
Helper lemmas for C14 / C02: renumbering the nodes by a permutation commutes with every step of the heat model
(`normalize`, the matrix of Diffusion, one Dirichlet round, `init_temperatures`), and with harmonicity.
The permutation is a pair of inverse maps (`SkNet.WL.IsPerm`, core-only, shared with C02).
-/
import SkNet.Lemmas.HeatHarmonic
import SkNet.Lemmas.WLEquiv
import Mathlib.Algebra.BigOperators.Group.List.Basic

namespace SkNet.Heat
open SkNet.HeatSpec SkNet.WL

attribute [-simp] List.getD_eq_getElem?_getD

/-! ### sums along a permutation -/

theorem sumTo_eq_list_sum (n : Nat) (f : Nat → Rat) : sumTo n f = ((List.range n).map f).sum := by
  induction n with
  | zero => simp
  | succ n ih => rw [sumTo_succ, ih, List.range_succ]; simp

theorem isPerm_symm {n : Nat} {π πinv : Nat → Nat} (hp : IsPerm n π πinv) : IsPerm n πinv π :=
  ⟨hp.lt_inv, hp.lt, hp.right, hp.left⟩

/-- the sums are over the same multiset -/
theorem sumTo_perm {n : Nat} {π πinv : Nat → Nat} (hp : IsPerm n π πinv) (f : Nat → Rat) :
    sumTo n (fun j => f (π j)) = sumTo n f := by
  rw [sumTo_eq_list_sum, sumTo_eq_list_sum]
  have h : ((List.range n).map fun j => f (π j)) = ((List.range n).map π).map f := by
    rw [List.map_map]; rfl
  rw [h]
  exact ((map_perm_range hp).map f).sum_eq

theorem tab_congr {α : Type} {n : Nat} {f g : Nat → α} (h : ∀ i, i < n → f i = g i) : tab n f = tab n g := by
  unfold tab
  exact List.map_congr_left (fun i hi => h i (List.mem_range.1 hi))

/-! ### renumbered data -/

/-- the matrix of the renumbered graph: node `i` of the new graph is node `πinv i` of the old one -/
def relabelMat (πinv : Nat → Nat) (A : Nat → Nat → Rat) : Nat → Nat → Rat := fun i j => A (πinv i) (πinv j)

/-- a vector renumbered the same way -/
def relabelVec (n : Nat) (πinv : Nat → Nat) (v : List Rat) : List Rat := tab n fun i => v.getD (πinv i) 0

def relabelMask (n : Nat) (πinv : Nat → Nat) (b : List Bool) : List Bool := tab n fun i => b.getD (πinv i) false

@[simp] theorem relabelVec_length (n : Nat) (πinv : Nat → Nat) (v : List Rat) : (relabelVec n πinv v).length = n := by
  simp [relabelVec]

theorem relabelVec_getD {n : Nat} {πinv : Nat → Nat} {v : List Rat} {i : Nat} (hi : i < n) :
    (relabelVec n πinv v).getD i 0 = v.getD (πinv i) 0 := by
  simp [relabelVec, hi]

/-- the entry of the renumbered vector at the new number `π u` of node `u` is the old entry of `u` -/
theorem relabelVec_at {n : Nat} {π πinv : Nat → Nat} (hp : IsPerm n π πinv) (v : List Rat) {u : Nat} (hu : u < n) :
    (relabelVec n πinv v).getD (π u) 0 = v.getD u 0 := by
  rw [relabelVec_getD (hp.lt u hu), hp.left u hu]

theorem relabelMask_getD {n : Nat} {πinv : Nat → Nat} {b : List Bool} {i : Nat} (hi : i < n) :
    (relabelMask n πinv b).getD i false = b.getD (πinv i) false := by
  simp [relabelMask, hi]

/-! ### `normalize` and the Diffusion matrix -/

theorem rowNorm_relabel {n : Nat} {π πinv : Nat → Nat} (hp : IsPerm n π πinv) (A : Nat → Nat → Rat) (i : Nat) :
    rowNorm n (relabelMat πinv A) i = rowNorm n A (πinv i) := by
  unfold rowNorm relabelMat
  exact sumTo_perm (isPerm_symm hp) (fun j => absQ (A (πinv i) j))

theorem normalize_relabel {n : Nat} {π πinv : Nat → Nat} (hp : IsPerm n π πinv) (A : Nat → Nat → Rat) (i j : Nat) :
    normalize n (relabelMat πinv A) i j = normalize n A (πinv i) (πinv j) := by
  unfold normalize
  rw [rowNorm_relabel hp]
  rfl

theorem inv_inj {n : Nat} {π πinv : Nat → Nat} (hp : IsPerm n π πinv) {i j : Nat} (hi : i < n) (hj : j < n) :
    πinv j = πinv i ↔ j = i := by
  constructor
  · intro h
    rw [← hp.right j hj, ← hp.right i hi, h]
  · intro h; rw [h]

theorem diffusionEntry_relabel {n : Nat} {π πinv : Nat → Nat} (hp : IsPerm n π πinv) (A : Nat → Nat → Rat) (α : Rat)
    {i j : Nat} (hi : i < n) (hj : j < n) :
    diffusionEntry n (relabelMat πinv A) α i j = diffusionEntry n A α (πinv i) (πinv j) := by
  rw [diffusionEntry_eq, diffusionEntry_eq]
  have hT : (fun r c => relabelMat πinv A c r) = relabelMat πinv (fun r c => A c r) := rfl
  rw [hT, normalize_relabel hp, rowNorm_relabel hp]
  by_cases hji : j = i
  · have : πinv j = πinv i := (inv_inj hp hi hj).2 hji
    simp [hji]
  · have : ¬ πinv j = πinv i := fun h => hji ((inv_inj hp hi hj).1 h)
    simp [hji, this]

/-! ### one product, one Dirichlet round, the loop -/

/-- a matrix–vector product commutes with renumbering -/
theorem matVec_relabel {n : Nat} {π πinv : Nat → Nat} (hp : IsPerm n π πinv) {f f' : Nat → Nat → Rat}
    (hf : ∀ i j, i < n → j < n → f' i j = f (πinv i) (πinv j)) (v : List Rat) :
    matVec n (mat n n f') (relabelVec n πinv v) = relabelVec n πinv (matVec n (mat n n f) v) := by
  unfold matVec relabelVec
  apply tab_congr
  intro i hi
  have hpi := hp.lt_inv i hi
  rw [tab_getD, if_pos hpi]
  have e1 : sumTo n (fun j => ent (mat n n f') i j * (tab n fun i => v.getD (πinv i) 0).getD j 0)
      = sumTo n (fun j => (fun k => f (πinv i) k * v.getD k 0) (πinv j)) :=
    sumTo_congr (fun j hj => by rw [ent_mat hi hj, hf i j hi hj, tab_getD, if_pos hj])
  have e2 : sumTo n (fun j => ent (mat n n f) (πinv i) j * v.getD j 0)
      = sumTo n (fun k => f (πinv i) k * v.getD k 0) :=
    sumTo_congr (fun j hj => by rw [ent_mat hpi hj])
  rw [e1, e2]
  exact sumTo_perm (isPerm_symm hp) (fun k => f (πinv i) k * v.getD k 0)

theorem dirichletStep_relabel {n : Nat} {π πinv : Nat → Nat} (hp : IsPerm n π πinv) (A : Nat → Nat → Rat)
    (temps : List Rat) (border : List Bool) (v : List Rat) :
    dirichletStep n (mat n n (normalize n (relabelMat πinv A))) (relabelVec n πinv temps)
        (relabelMask n πinv border) (relabelVec n πinv v)
      = relabelVec n πinv (dirichletStep n (mat n n (normalize n A)) temps border v) := by
  have hm := matVec_relabel hp (f := normalize n A) (f' := normalize n (relabelMat πinv A))
    (fun i j _ _ => normalize_relabel hp A i j) v
  unfold dirichletStep
  simp only
  rw [hm]
  unfold relabelVec
  apply tab_congr
  intro i hi
  have hpi := hp.lt_inv i hi
  rw [relabelMask_getD hi]
  simp only [tab_getD, hi, hpi, if_true]

theorem loop_relabel {R : List Rat → List Rat} {step step' : List Rat → List Rat}
    (h : ∀ v, step' (R v) = R (step v)) : ∀ (k : Nat) (v : List Rat), loop step' k (R v) = R (loop step k v)
  | 0, _ => rfl
  | k+1, v => by
    simp only [loop]
    rw [h v]
    exact loop_relabel h k (step v)

/-! ### `init_temperatures` -/

theorem borderOf_relabel {n : Nat} {π πinv : Nat → Nat} (hp : IsPerm n π πinv) {seeds : List Rat}
    (hlen : seeds.length = n) : borderOf (relabelVec n πinv seeds) = relabelMask n πinv (borderOf seeds) := by
  unfold borderOf relabelVec relabelMask tab
  rw [List.map_map]
  apply List.map_congr_left
  intro i hi
  have hpi := hp.lt_inv i (List.mem_range.1 hi)
  have := borderOf_getD (seeds := seeds) (i := πinv i) (hlen ▸ hpi)
  unfold borderOf at this
  rw [this]
  rfl

theorem seedSum_relabel {n : Nat} {π πinv : Nat → Nat} (hp : IsPerm n π πinv) {seeds : List Rat}
    (hlen : seeds.length = n) : seedSum (relabelVec n πinv seeds) = seedSum seeds := by
  unfold seedSum
  rw [relabelVec_length, hlen]
  rw [sumTo_congr (fun i hi => by rw [relabelVec_getD hi] :
    ∀ i, i < n → (if 0 ≤ (relabelVec n πinv seeds).getD i 0 then (relabelVec n πinv seeds).getD i 0 else 0)
      = (fun k => if 0 ≤ seeds.getD k 0 then seeds.getD k 0 else 0) (πinv i))]
  exact sumTo_perm (isPerm_symm hp) (fun k => if 0 ≤ seeds.getD k 0 then seeds.getD k 0 else 0)

theorem seedCount_relabel {n : Nat} {π πinv : Nat → Nat} (hp : IsPerm n π πinv) {seeds : List Rat}
    (hlen : seeds.length = n) : seedCount (relabelVec n πinv seeds) = seedCount seeds := by
  unfold seedCount
  rw [relabelVec_length, hlen]
  rw [sumTo_congr (fun i hi => by rw [relabelVec_getD hi] :
    ∀ i, i < n → (if 0 ≤ (relabelVec n πinv seeds).getD i 0 then (1 : Rat) else 0)
      = (fun k => if 0 ≤ seeds.getD k 0 then (1 : Rat) else 0) (πinv i))]
  exact sumTo_perm (isPerm_symm hp) (fun k => if 0 ≤ seeds.getD k 0 then (1 : Rat) else 0)

theorem initTemperatures_relabel {n : Nat} {π πinv : Nat → Nat} (hp : IsPerm n π πinv) {seeds : List Rat}
    (hlen : seeds.length = n) (init : Option Rat) :
    initTemperatures (relabelVec n πinv seeds) init =
      (initTemperatures seeds init).map fun tb => (relabelVec n πinv tb.1, relabelMask n πinv tb.2) := by
  unfold initTemperatures
  rw [seedSum_relabel hp hlen, seedCount_relabel hp hlen, borderOf_relabel hp hlen, relabelVec_length, hlen]
  have key : ∀ b : Rat,
      (tab n fun i => if (relabelMask n πinv (borderOf seeds)).getD i false then (relabelVec n πinv seeds).getD i 0 else b)
        = relabelVec n πinv (tab n fun i => if (borderOf seeds).getD i false then seeds.getD i 0 else b) := by
    intro b
    unfold relabelVec
    apply tab_congr
    intro i hi
    have hpi := hp.lt_inv i hi
    rw [relabelMask_getD hi]
    simp only [tab_getD, hi, hpi, if_true]
  cases init with
  | some x => simp only [Except.map, key]
  | none =>
    by_cases hc : seedCount seeds = 0
    · simp [hc, Except.map]
    · simp only [hc, if_false, Except.map, key]

/-! ### the prepared problem -/

/-- the prepared problem of the renumbered graph with the renumbered seeds -/
def relabelPrepared (πinv : Nat → Nat) (p : Prepared) : Prepared :=
  ⟨p.n, relabelMat πinv p.adj, relabelVec p.n πinv p.seeds, p.bipartite⟩

theorem fitVector_relabel {π πinv : Nat → Nat} (algo : Algo) (p : Prepared) (hp : IsPerm p.n π πinv)
    (hlen : p.seeds.length = p.n) (init : Option Rat) (k : Nat) (α : Rat) :
    fitVector algo (relabelPrepared πinv p) init k α =
      (fitVector algo p init k α).map (relabelVec p.n πinv) := by
  unfold fitVector
  simp only [relabelPrepared]
  rw [initTemperatures_relabel hp hlen]
  cases ht : initTemperatures p.seeds init with
  | error e => simp [Except.map]
  | ok tb =>
    obtain ⟨temps, border⟩ := tb
    simp only [Except.map]
    cases algo with
    | diffusion =>
      simp only
      congr 1
      exact loop_relabel (R := relabelVec p.n πinv)
        (fun v => matVec_relabel hp (fun i j hi hj => diffusionEntry_relabel hp p.adj α hi hj) v) k temps
    | dirichlet =>
      simp only
      congr 1
      exact loop_relabel (R := relabelVec p.n πinv)
        (fun v => dirichletStep_relabel hp p.adj temps border v) k temps

/-! ### harmonic functions -/

/-- a harmonic function of the renumbered problem, read at the new numbers, is harmonic for the original problem -/
theorem isHarmonic_pullback {n : Nat} {π πinv : Nat → Nat} (hp : IsPerm n π πinv) {w : Nat → Nat → Rat}
    {seed : Nat → Bool} {temp h' : Nat → Rat}
    (H : IsHarmonic n (relabelMat πinv w) (fun i => seed (πinv i)) (fun i => temp (πinv i)) h') :
    IsHarmonic n w seed temp (fun i => h' (π i)) := by
  intro i hi
  have hπ := hp.lt i hi
  have hl := hp.left i hi
  obtain ⟨H1, H2⟩ := H (π i) hπ
  simp only [hl] at H1 H2
  refine ⟨H1, fun hs => ?_⟩
  have e := H2 hs
  rw [total_eq_sumTo, total_eq_sumTo] at e ⊢
  unfold relabelMat at e
  simp only [hl] at e
  have e1 : sumTo n (fun j => w i (πinv j)) = sumTo n (fun j => w i j) := sumTo_perm (isPerm_symm hp) (fun j => w i j)
  have e2 : sumTo n (fun j => w i (πinv j) * h' j) = sumTo n (fun j => w i j * h' (π j)) := by
    rw [← sumTo_perm hp (fun j => w i (πinv j) * h' j)]
    exact sumTo_congr (fun j hj => by simp only [hp.left j hj])
  rw [e1, e2] at e
  exact e

/-- the renumbered harmonic function is harmonic for the renumbered problem -/
theorem isHarmonic_relabel {n : Nat} {π πinv : Nat → Nat} (hp : IsPerm n π πinv) {w : Nat → Nat → Rat}
    {seed : Nat → Bool} {temp h : Nat → Rat} (H : IsHarmonic n w seed temp h) :
    IsHarmonic n (relabelMat πinv w) (fun i => seed (πinv i)) (fun i => temp (πinv i)) (fun i => h (πinv i)) := by
  intro i hi
  obtain ⟨H1, H2⟩ := H (πinv i) (hp.lt_inv i hi)
  refine ⟨H1, fun hs => ?_⟩
  have e := H2 hs
  rw [total_eq_sumTo, total_eq_sumTo] at e ⊢
  unfold relabelMat
  have e1 : sumTo n (fun j => w (πinv i) (πinv j)) = sumTo n (fun j => w (πinv i) j) :=
    sumTo_perm (isPerm_symm hp) (fun j => w (πinv i) j)
  have e2 : sumTo n (fun j => w (πinv i) (πinv j) * h (πinv j)) = sumTo n (fun j => w (πinv i) j * h j) :=
    sumTo_perm (isPerm_symm hp) (fun j => w (πinv i) j * h j)
  rw [e1, e2]
  exact e

end SkNet.Heat
