/-
The un-shuffle of `Louvain._post_processing`: `reverse[index] = arange(n); labels = labels[reverse]` (C05).
-/
import SkNet.Lemmas.ClusteringReindex

namespace SkNet.Clustering

/-! ### `reverse[index] = arange` as a fold of writes -/

def writeAll (ps : List (Nat × Nat)) (r0 : List Nat) : List Nat :=
  ps.foldl (fun r (vj : Nat × Nat) => r.set vj.1 vj.2) r0

theorem writeAll_length (ps : List (Nat × Nat)) (r0 : List Nat) : (writeAll ps r0).length = r0.length := by
  induction ps generalizing r0 with
  | nil => rfl
  | cons p ps ih => simp [writeAll, List.foldl_cons] at ih ⊢; rw [ih]; simp

theorem writeAll_getElem?_of_not_mem {ps : List (Nat × Nat)} {r0 : List Nat} {v : Nat}
    (h : v ∉ ps.map (·.1)) : (writeAll ps r0)[v]? = r0[v]? := by
  induction ps generalizing r0 with
  | nil => rfl
  | cons p ps ih =>
    simp only [List.map_cons, List.mem_cons, not_or] at h
    show (writeAll ps (r0.set p.1 p.2))[v]? = _
    rw [ih h.2, List.getElem?_set_ne (Ne.symm h.1)]

theorem writeAll_getElem?_of_mem {ps : List (Nat × Nat)} {r0 : List Nat} {v j : Nat}
    (hnd : (ps.map (·.1)).Nodup) (hm : (v, j) ∈ ps) (hv : v < r0.length) :
    (writeAll ps r0)[v]? = some j := by
  induction ps generalizing r0 with
  | nil => simp at hm
  | cons p ps ih =>
    simp only [List.map_cons, List.nodup_cons] at hnd
    show (writeAll ps (r0.set p.1 p.2))[v]? = _
    rcases List.mem_cons.mp hm with h | h
    · subst h
      rw [writeAll_getElem?_of_not_mem hnd.1]
      simp [hv]
    · exact ih hnd.2 h (by simpa using hv)

theorem reverseOf_eq (index : List Nat) :
    reverseOf index = writeAll index.zipIdx (List.replicate index.length 0) := rfl

theorem reverseOf_length (index : List Nat) : (reverseOf index).length = index.length := by
  rw [reverseOf_eq, writeAll_length, List.length_replicate]

/-- after `reverse[index] = arange(n)`, `reverse[index[j]] = j` -/
theorem reverseOf_getElem? {index : List Nat} (hnd : index.Nodup) (hlt : ∀ v ∈ index, v < index.length)
    {j : Nat} (hj : j < index.length) : (reverseOf index)[index[j]]? = some j := by
  rw [reverseOf_eq]
  apply writeAll_getElem?_of_mem
  · simpa using hnd
  · rw [List.mem_zipIdx_iff_getElem?]; simp [hj]
  · simpa using hlt _ (List.getElem_mem hj)

/-! ### `labels[reverse]` -/

theorem perm_range_facts {index : List Nat} {n : Nat} (hp : index.Perm (List.range n)) :
    index.Nodup ∧ index.length = n ∧ ∀ v ∈ index, v < index.length := by
  have hl : index.length = n := by rw [hp.length_eq, List.length_range]
  refine ⟨hp.nodup_iff.mpr List.nodup_range, hl, ?_⟩
  intro v hv
  rw [hl]; exact List.mem_range.mp (hp.mem_iff.mp hv)

theorem reverseOf_lt {index : List Nat} {n : Nat} (hp : index.Perm (List.range n)) :
    ∀ r ∈ reverseOf index, r < n := by
  obtain ⟨hnd, hl, hlt⟩ := perm_range_facts hp
  intro r hr
  obtain ⟨a, ha, rfl⟩ := List.getElem_of_mem hr
  rw [reverseOf_length, hl] at ha
  -- position `a` is `index[j]` for some `j`
  have hmem : a ∈ index := hp.mem_iff.mpr (List.mem_range.mpr ha)
  obtain ⟨j, hj, rfl⟩ := List.getElem_of_mem hmem
  have := reverseOf_getElem? hnd hlt hj
  rw [List.getElem?_eq_getElem (by rw [reverseOf_length]; exact hlt _ (List.getElem_mem hj))] at this
  have := Option.some.inj this
  omega

/-- with a permutation for `index` the un-shuffle never raises -/
theorem unshuffle_ok {labels index : List Nat} (hp : index.Perm (List.range labels.length)) :
    unshuffle labels index = .ok ((reverseOf index).map fun r => labels.getD r 0) := by
  obtain ⟨_, _, hlt⟩ := perm_range_facts hp
  unfold unshuffle
  have h1 : index.all (· < index.length) = true := by simpa using hlt
  have h2 : (reverseOf index).all (· < labels.length) = true := by simpa using reverseOf_lt hp
  simp [h1, h2]

/-- ★ original node `index[j]` receives the label computed for its shuffled position `j` -/
theorem unshuffle_getElem? {labels index out : List Nat} (hp : index.Perm (List.range labels.length))
    (h : unshuffle labels index = .ok out) {j : Nat} (hj : j < labels.length) :
    out[index.getD j 0]? = labels[j]? := by
  obtain ⟨hnd, hl, hlt⟩ := perm_range_facts hp
  rw [unshuffle_ok hp] at h
  have h := (Except.ok.inj h).symm
  subst h
  have hj' : j < index.length := by omega
  rw [List.getD_eq_getElem?_getD, List.getElem?_eq_getElem hj', Option.getD_some, List.getElem?_map,
    reverseOf_getElem? hnd hlt hj']
  simp [List.getD_eq_getElem?_getD, hj]

theorem unshuffle_length {labels index out : List Nat} (hp : index.Perm (List.range labels.length))
    (h : unshuffle labels index = .ok out) : out.length = labels.length := by
  rw [unshuffle_ok hp] at h
  have h := (Except.ok.inj h).symm
  subst h
  rw [List.length_map, reverseOf_length, (perm_range_facts hp).2.1]

/-- reading a list through a permutation of its positions permutes it -/
theorem map_getD_perm {out index : List Nat} (hp : index.Perm (List.range out.length)) :
    (index.map fun v => out.getD v 0).Perm out := by
  have : ((List.range out.length).map fun v => out.getD v 0) = out := by
    apply List.ext_getElem
    · simp
    · intro i h1 h2; simp [List.getD_eq_getElem?_getD, h2]
  have h2 := hp.map (fun v => out.getD v 0)
  rwa [this] at h2

/-- ★ the un-shuffle only permutes the label vector: sizes, contiguity and order of sizes are preserved -/
theorem unshuffle_perm {labels index out : List Nat} (hp : index.Perm (List.range labels.length))
    (h : unshuffle labels index = .ok out) : out.Perm labels := by
  have hlen := unshuffle_length hp h
  have hp' : index.Perm (List.range out.length) := hlen ▸ hp
  have e : (index.map fun v => out.getD v 0) = labels := by
    apply List.ext_getElem?
    intro j
    by_cases hj : j < labels.length
    · have hj' : j < index.length := by rw [(perm_range_facts hp).2.1]; exact hj
      have := unshuffle_getElem? hp h hj
      rw [List.getElem?_map, List.getElem?_eq_getElem hj', Option.map_some, ← this]
      have hlt : index.getD j 0 < out.length := by
        rw [hlen, List.getD_eq_getElem?_getD, List.getElem?_eq_getElem hj', Option.getD_some]
        exact (perm_range_facts hp).2.1 ▸ (perm_range_facts hp).2.2 _ (List.getElem_mem hj')
      rw [List.getD_eq_getElem?_getD (l := index), List.getElem?_eq_getElem hj', Option.getD_some] at hlt ⊢
      simp [List.getD_eq_getElem?_getD, hlt]
    · have hj' : ¬ j < index.length := by rw [(perm_range_facts hp).2.1]; exact hj
      simp [List.getElem?_eq_none (Nat.le_of_not_lt hj), List.getElem?_eq_none (Nat.le_of_not_lt hj')]
  exact (e ▸ map_getD_perm hp').symm

/-- ★ the un-shuffle inverts the shuffle: if position `j` of `labels'` holds the label of original node
    `index[j]` (that is how `adjacency[index][:, index]` numbers the nodes), then `labels'[reverse]` gives every
    original node its own label back -/
theorem unshuffle_shuffle {L index : List Nat} (hp : index.Perm (List.range L.length)) :
    unshuffle (index.map fun v => L.getD v 0) index = .ok L := by
  have hlen : (index.map fun v => L.getD v 0).length = L.length := by
    rw [List.length_map, (perm_range_facts hp).2.1]
  have hp' : index.Perm (List.range (index.map fun v => L.getD v 0).length) := hlen ▸ hp
  have hok := unshuffle_ok hp'
  rw [hok]
  congr 1
  apply List.ext_getElem?
  intro v
  by_cases hv : v < L.length
  · -- `v` is `index[j]` for some `j`
    have hmem : v ∈ index := hp.mem_iff.mpr (List.mem_range.mpr hv)
    obtain ⟨j, hj, rfl⟩ := List.getElem_of_mem hmem
    have hj' : j < (index.map fun v => L.getD v 0).length := by rw [List.length_map]; exact hj
    have := unshuffle_getElem? hp' hok hj'
    rw [List.getD_eq_getElem?_getD, List.getElem?_eq_getElem hj, Option.getD_some] at this
    rw [this, List.getElem?_map, List.getElem?_eq_getElem hj, Option.map_some]
    simp [List.getD_eq_getElem?_getD, hv]
  · have h1 : ¬ v < ((reverseOf index).map fun r => (index.map fun v => L.getD v 0).getD r 0).length := by
      rw [List.length_map, reverseOf_length, (perm_range_facts hp).2.1]; exact hv
    rw [List.getElem?_eq_none (Nat.le_of_not_lt h1), List.getElem?_eq_none (Nat.le_of_not_lt hv)]

end SkNet.Clustering
