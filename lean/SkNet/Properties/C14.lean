/- C14 — property theorems (filled below). -/
import SkNet.Model.Heat
import SkNet.Spec.Heat

namespace SkNet.C14
open SkNet SkNet.Heat

theorem sumTo_zero (f : Nat → Rat) : sumTo 0 f = 0 := rfl

end SkNet.C14
