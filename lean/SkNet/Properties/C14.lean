/-
C14 — Heat diffusion obeys the maximum principle and tends to the harmonic solution.

Property theorems about the model `SkNet/Model/Heat.lean` (which mirrors sknetwork/regression/diffusion.py,
regression/base.py, linalg/normalizer.py, utils/values.py and the part of utils/format.py they call, and is tied to
the code by the correspondence harness tools/harness/c14.py).  Specification: `SkNet/Spec/Heat.lean`.
Helper lemmas: `SkNet/Lemmas/Heat*.lean`.  All theorems hold for every graph size and every number of rounds.
-/
import SkNet.Lemmas.HeatValues
import SkNet.Lemmas.HeatHarmonic
import SkNet.Lemmas.HeatConverge
import SkNet.Lemmas.HeatExist
import SkNet.Lemmas.HeatEquiv
import SkNet.Lemmas.HeatGuards
import SkNet.Lemmas.HeatScale

namespace SkNet.C14
open SkNet SkNet.Heat SkNet.HeatSpec

attribute [-simp] List.getD_eq_getElem?_getD

/-! ## normalize -/

/-- **normalize_stochastic**. About the *dense denotation* `A i j` (= sum of the stored entries at `(i,j)`; this is
what the code computes on a CSR matrix in canonical form, and on any CSR matrix whose duplicate entries have the same
sign — with cancelling signed duplicates `get_norms` adds the absolute values of the *stored* entries instead, see the
status file; negative weights are outside C14). For every such matrix and every row `i` of `normalize(matrix)`:
non-negative entries stay non-negative; a non-null row has L1 norm 1 — and sums to 1 when the weights are
non-negative; a null row stays null; and a row is null exactly when all its entries are 0. -/
theorem normalize_stochastic (m : Nat) (A : Nat → Nat → Rat) (i : Nat) :
    (∀ j, 0 ≤ A i j → 0 ≤ normalize m A i j) ∧
    (rowNorm m A i ≠ 0 → sumTo m (fun j => absQ (normalize m A i j)) = 1) ∧
    ((∀ j, j < m → 0 ≤ A i j) → rowNorm m A i ≠ 0 → sumTo m (normalize m A i) = 1) ∧
    (rowNorm m A i = 0 → ∀ j, normalize m A i j = 0) ∧
    (rowNorm m A i = 0 ↔ ∀ j, j < m → A i j = 0) :=
  ⟨fun _ h => normalize_nonneg h, normalize_abs_row_sum, normalize_row_sum, normalize_null_row,
   ⟨rowNorm_eq_zero, fun h => sumTo_eq_zero_of_all_zero (fun j hj => by simp [h j hj, absQ])⟩⟩

/-- Non-vacuity: row 0 of `[[0,1,3],[0,0,0],[2,0,0]]` is normalised to `[0, 1/4, 3/4]`, the null row 1 stays null. -/
example : (List.range 3).map (normalize 3 (fun i j => if i = 0 ∧ j = 1 then 1 else if i = 0 ∧ j = 2 then 3
    else if i = 2 ∧ j = 0 then 2 else 0) 0) = [0, 1/4, 3/4] := by decide +kernel
example : rowNorm 3 (fun i j => if i = 0 ∧ j = 1 then 1 else if i = 0 ∧ j = 2 then 3
    else if i = 2 ∧ j = 0 then 2 else 0) 1 = 0 := by decide +kernel

/-- The matrix iterated by `Diffusion.fit` — `(1-α) I + α (normalize(Aᵀ) + diag(degrees == 0))` — is
row-stochastic for every non-negatively weighted graph (sinks, sources and isolated nodes included) and every
damping factor in `[0,1]`. -/
theorem diffusion_matrix_stochastic (n : Nat) (A : Nat → Nat → Rat) (α : Rat) (hA : ∀ i j, 0 ≤ A i j)
    (h0 : 0 ≤ α) (h1 : α ≤ 1) (i : Nat) (hi : i < n) :
    (∀ j, 0 ≤ diffusionEntry n A α i j) ∧ sumTo n (diffusionEntry n A α i) = 1 :=
  ⟨diffusionEntry_nonneg hA h0 h1 i, diffusionEntry_row_sum hA hi⟩

/-! ## the maximum principle -/

/-- **max_principle (vector form)**. Let `p` be what `get_adjacency_values` produced (adjacency with non-negative
weights, vector of seeds of the right length), `lo ≤ hi` bounds of the seed temperatures (entries `≥ 0` of
`p.seeds`), `init` absent or inside `[lo, hi]`. For Diffusion let the damping factor be in `[0,1]`; for Dirichlet
let every node that is *not* a seed have an outgoing edge (weaker than the property's "every node has an outgoing
edge"). Then after **any** number `k` of rounds every entry of the computed vector lies in `[lo, hi]`. -/
theorem max_principle_vector (algo : Algo) (p : Prepared) (init : Option Rat) (k : Nat) (α lo hi : Rat)
    (v : List Rat) (hlen : p.seeds.length = p.n)
    (hfit : fitVector algo p init k α = .ok v)
    (hA : ∀ i j, 0 ≤ p.adj i j)
    (hseeds : ∀ i, i < p.n → 0 ≤ p.seeds.getD i 0 → lo ≤ p.seeds.getD i 0 ∧ p.seeds.getD i 0 ≤ hi)
    (hinit : ∀ x, init = some x → lo ≤ x ∧ x ≤ hi)
    (hα : algo = .diffusion → 0 ≤ α ∧ α ≤ 1)
    (hsink : algo = .dirichlet → ∀ i, i < p.n → p.seeds.getD i 0 < 0 → ∃ j, j < p.n ∧ p.adj i j ≠ 0) :
    InRange lo hi p.n v := by
  have hrange : ∀ {temps border}, initTemperatures p.seeds init = .ok (temps, border) → InRange lo hi p.n temps := by
    intro temps border ht
    have := initTemperatures_inRange (lo := lo) (hi := hi) ht (by rw [hlen]; exact hseeds) hinit
    rwa [hlen] at this
  cases algo with
  | diffusion =>
    obtain ⟨temps, border, ht, rfl⟩ := fitVector_diffusion_ok hfit
    have htemps := hrange ht
    obtain ⟨h0, h1⟩ := hα rfl
    refine loop_invariant (InRange lo hi p.n) (fun v hv => matVec_inRange (fun i hi => ⟨fun j hj => ?_, ?_⟩) hv) k temps htemps
    · rw [ent_mat hi hj]; exact diffusionEntry_nonneg hA h0 h1 i j
    · rw [sumTo_congr (fun j hj => ent_mat hi hj)]; exact diffusionEntry_row_sum hA hi
  | dirichlet =>
    obtain ⟨temps, border, ht, rfl⟩ := fitVector_dirichlet_ok hfit
    have htemps := hrange ht
    obtain ⟨hb, _⟩ := initTemperatures_ok ht
    subst hb
    refine loop_invariant (InRange lo hi p.n)
      (fun v hv => dirichletStep_inRange (fun i hi hbi => ⟨fun j hj => ?_, ?_⟩) (fun i hi _ => htemps.2 i hi) hv) k temps htemps
    · rw [ent_mat hi hj]; exact normalize_nonneg (hA i j)
    · rw [sumTo_congr (fun j hj => ent_mat hi hj)]
      have hneg : p.seeds.getD i 0 < 0 := by
        by_contra hge
        have := (borderOf_getD_true (hlen ▸ hi)).2 (not_lt.1 hge)
        rw [hbi] at this; cases this
      obtain ⟨j, hj, hne⟩ := hsink rfl i hi hneg
      exact normalize_row_sum (fun j _ => hA i j) (ne_of_gt (rowNorm_pos_of_entry hj hne))

/-- **max_principle**. On every weighted graph (adjacency or biadjacency, routed by `get_adjacency_values`) with
non-negative weights, for every form of the temperatures, every `n_iter`, `init` absent or within the seed range,
damping factor in `[0,1]` (Diffusion) / every non-seed node having an outgoing edge (Dirichlet): whenever `fit`
returns, **all** of `values_`, `values_row_`, `values_col_` lie between the smallest and the largest seed
temperature. -/
theorem max_principle (algo : Algo) (nRow nCol nnz : Nat) (B : Nat → Nat → Rat) (a : Args) (nIter : Int)
    (α lo hi : Rat) (p : Prepared) (out : Out)
    (hprep : getAdjacencyValues nRow nCol nnz B a = .ok p)
    (hfit : fit algo nRow nCol nnz B a nIter α = .ok out)
    (hB : ∀ i j, 0 ≤ B i j)
    (hseeds : ∀ i, i < p.n → 0 ≤ p.seeds.getD i 0 → lo ≤ p.seeds.getD i 0 ∧ p.seeds.getD i 0 ≤ hi)
    (hinit : ∀ x, a.init = some x → lo ≤ x ∧ x ≤ hi)
    (hα : algo = .diffusion → 0 ≤ α ∧ α ≤ 1)
    (hsink : algo = .dirichlet → ∀ i, i < p.n → p.seeds.getD i 0 < 0 → ∃ j, j < p.n ∧ p.adj i j ≠ 0) :
    (∀ x, x ∈ out.values → lo ≤ x ∧ x ≤ hi) ∧
    (∀ r, out.valuesRow = some r → ∀ x, x ∈ r → lo ≤ x ∧ x ≤ hi) ∧
    (∀ c, out.valuesCol = some c → ∀ x, x ∈ c → lo ≤ x ∧ x ≤ hi) := by
  obtain ⟨_, p', v, hp', hv, rfl⟩ := fit_ok hfit
  rw [hprep] at hp'; cases hp'
  have hlen := (getAdjacencyValues_ok hprep).2.1
  have hr := (max_principle_vector algo p a.init nIter.toNat α lo hi v hlen hv
    (getAdjacencyValues_nonneg hprep hB) hseeds hinit hα hsink).mem
  unfold splitVars
  cases p.bipartite with
  | false => exact ⟨hr, fun r h => (by cases h), fun c h => (by cases h)⟩
  | true =>
    refine ⟨fun x hx => hr x (List.mem_of_mem_take hx), fun r h x hx => ?_, fun c h x hx => ?_⟩
    · cases h; exact hr x (List.mem_of_mem_take hx)
    · cases h; exact hr x (List.mem_of_mem_drop hx)

/-- Non-vacuity: the `house` example of the docstrings (5 nodes, seeds {0: 1, 2: 0}) meets the hypotheses with
`lo = 0`, `hi = 1`; both estimators return, and Dirichlet reproduces the documented `[1, 0.54, 0, 0.31, 0.62]` after 10 rounds (two rounds are evaluated here). -/
def houseAdj (i j : Nat) : Rat :=
  if (i, j) ∈ [(0,1),(1,0),(0,4),(4,0),(1,2),(2,1),(1,4),(4,1),(2,3),(3,2),(3,4),(4,3)] then 1 else 0

example : (fit .diffusion 5 5 12 houseAdj { values := .dict [(0, 1), (2, 0)] } 1 (1/2)).toOption.map (·.values)
    = some [3/4, 1/2, 1/4, 3/8, 7/12] := by decide +kernel
example : (fit .dirichlet 5 5 12 houseAdj { values := .dict [(0, 1), (2, 0)] } 2 (1/2)).toOption.map (·.values)
    = some [1, 5/9, 0, 1/3, 7/12] := by decide +kernel

/-- **max_principle (as the property words it)**: every node has an outgoing edge. -/
theorem max_principle_no_sink (algo : Algo) (nRow nCol nnz : Nat) (B : Nat → Nat → Rat) (a : Args) (nIter : Int)
    (α lo hi : Rat) (p : Prepared) (out : Out)
    (hprep : getAdjacencyValues nRow nCol nnz B a = .ok p)
    (hfit : fit algo nRow nCol nnz B a nIter α = .ok out)
    (hB : ∀ i j, 0 ≤ B i j)
    (hout : ∀ i, i < p.n → ∃ j, j < p.n ∧ p.adj i j ≠ 0)
    (hseeds : ∀ i, i < p.n → 0 ≤ p.seeds.getD i 0 → lo ≤ p.seeds.getD i 0 ∧ p.seeds.getD i 0 ≤ hi)
    (hinit : ∀ x, a.init = some x → lo ≤ x ∧ x ≤ hi)
    (hα : 0 ≤ α ∧ α ≤ 1) :
    (∀ x, x ∈ out.values → lo ≤ x ∧ x ≤ hi) ∧
    (∀ r, out.valuesRow = some r → ∀ x, x ∈ r → lo ≤ x ∧ x ≤ hi) ∧
    (∀ c, out.valuesCol = some c → ∀ x, x ∈ c → lo ≤ x ∧ x ≤ hi) :=
  max_principle algo nRow nCol nnz B a nIter α lo hi p out hprep hfit hB hseeds hinit (fun _ => hα)
    (fun _ i hi _ => hout i hi)

/-- The hypothesis on sinks cannot be dropped for Dirichlet: on the path `0 → 1` (node 1 is a sink) with the seed
`{0: 2}` the sink gets temperature 0 after one round, below the smallest initial temperature 2. -/
theorem dirichlet_sink_counterexample :
    (fit .dirichlet 2 2 1 (fun i j => if i = 0 ∧ j = 1 then 1 else 0) { values := .dict [(0, 2)] } 1 0).toOption.map
      (·.values) = some [2, 0] := by decide +kernel

/-! ## boundary values -/

/-- **dirichlet_boundary (vector form)**: after any number of rounds the seeds are returned unchanged. -/
theorem dirichlet_boundary_vector (p : Prepared) (init : Option Rat) (k : Nat) (α : Rat) (v : List Rat)
    (hlen : p.seeds.length = p.n) (hfit : fitVector .dirichlet p init k α = .ok v) :
    v.length = p.n ∧ ∀ i, i < p.n → 0 ≤ p.seeds.getD i 0 → v.getD i 0 = p.seeds.getD i 0 := by
  obtain ⟨temps, border, ht, rfl⟩ := fitVector_dirichlet_ok hfit
  obtain ⟨hb, b, _, htemps⟩ := initTemperatures_ok ht
  subst hb
  have hinv := loop_invariant (step := dirichletStep p.n (mat p.n p.n (normalize p.n p.adj)) temps (borderOf p.seeds))
    (fun v => v.length = p.n ∧ ∀ i, i < p.n → (borderOf p.seeds).getD i false = true → v.getD i 0 = temps.getD i 0)
    (fun v _ => ⟨by simp, fun i hi hbi => by rw [dirichletStep_getD hi, hbi]; rfl⟩) k temps
    ⟨by rw [htemps]; simp [hlen], fun _ _ _ => rfl⟩
  refine ⟨hinv.1, fun i hi hs => ?_⟩
  have hbi := (borderOf_getD_true (hlen ▸ hi)).2 hs
  rw [hinv.2 i hi hbi, htemps]
  simp [hlen, hi, hbi]

/-- **dirichlet_boundary**. `Dirichlet.fit` returns the seed temperatures unchanged at the seeds, for every graph
(sinks and negative weights included), every input form, every `n_iter ≥ 1` and every `init`: in `values_` for an
adjacency matrix, in `values_row_` / `values_col_` (and `values_ = values_row_`) for a biadjacency matrix. -/
theorem dirichlet_boundary (nRow nCol nnz : Nat) (B : Nat → Nat → Rat) (a : Args) (nIter : Int) (α : Rat)
    (p : Prepared) (out : Out)
    (hprep : getAdjacencyValues nRow nCol nnz B a = .ok p)
    (hfit : fit .dirichlet nRow nCol nnz B a nIter α = .ok out) :
    (p.bipartite = false → out.values.length = nRow ∧ out.valuesRow = none ∧ out.valuesCol = none ∧
      ∀ i, i < nRow → 0 ≤ p.seeds.getD i 0 → out.values.getD i 0 = p.seeds.getD i 0) ∧
    (p.bipartite = true → ∃ r c, out.valuesRow = some r ∧ out.valuesCol = some c ∧ out.values = r ∧
      r.length = nRow ∧ c.length = nCol ∧
      (∀ i, i < nRow → 0 ≤ p.seeds.getD i 0 → r.getD i 0 = p.seeds.getD i 0) ∧
      (∀ j, j < nCol → 0 ≤ p.seeds.getD (nRow + j) 0 → c.getD j 0 = p.seeds.getD (nRow + j) 0)) := by
  obtain ⟨_, p', v, hp', hv, rfl⟩ := fit_ok hfit
  rw [hprep] at hp'; cases hp'
  obtain ⟨_, hlen, hbip, hsq⟩ := getAdjacencyValues_ok hprep
  obtain ⟨hvl, hvb⟩ := dirichlet_boundary_vector p a.init nIter.toNat α v hlen hv
  constructor
  · intro hb
    obtain ⟨hn, _, _⟩ := hsq hb
    simp only [splitVars, hb]
    exact ⟨by simp [hvl, hn], rfl, rfl, fun i hi hs => hvb i (hn ▸ hi) hs⟩
  · intro hb
    obtain ⟨hn, _⟩ := hbip hb
    simp only [splitVars, hb, if_true]
    refine ⟨v.take nRow, v.drop nRow, rfl, rfl, rfl, by simp [hvl, hn], by simp [hvl, hn], fun i hi hs => ?_, fun j hj hs => ?_⟩
    · rw [getD_take _ _ _ _ hi]; exact hvb i (by omega) hs
    · rw [getD_drop]; exact hvb (nRow + j) (by omega) hs

/-- Non-vacuity (bipartite): a 2×3 biadjacency matrix with the seeds row 0 ↦ 1/10, column 1 ↦ 2 and `init = 3/10`
(the call of the repository's `test_range`). -/
example : (fit .dirichlet 2 3 4 (fun i j => if (i, j) ∈ [(0,0),(0,1),(1,1),(1,2)] then 1 else 0)
      { valuesRow := .dict [(0, 1/10)], valuesCol := .dict [(1, 2)], init := some (3/10) } 2 0).toOption
    = some ⟨[1/10, 23/20], some [1/10, 23/20], some [1/10, 2, 23/20]⟩ := by decide +kernel

/-! ## temperatures given as array, list or dict -/

/-- **values_honoured (array, list)**: a vector of the right length is taken as it is, whether it comes as an
ndarray or as a list; a wrong length is the documented `ValueError`. -/
theorem values_array_honoured (n : Nat) (l : List Rat) :
    (l.length = n → getValues n (.arr l) (-1) = .ok l ∧ getValues n (.list l) (-1) = .ok l) ∧
    (l.length ≠ n → getValues n (.arr l) (-1) = .error .valueError ∧ getValues n (.list l) (-1) = .error .valueError) := by
  constructor
  · intro h; simp [getValues, h]
  · intro h; simp [getValues, h]

/-- **values_honoured (dict)**: for a non-empty dict `{node: temperature}` with distinct nodes `< n`, every
temperature reaches exactly its node and every other node gets −1 (= "no seed"). -/
theorem values_dict_honoured (n : Nat) (kv : List (Nat × Rat)) (hne : kv ≠ [])
    (hk : ∀ e, e ∈ kv → e.1 < n) (hnd : (kv.map (·.1)).Nodup) :
    ∃ r, getValues n (.dict (toKV kv)) (-1) = .ok r ∧ r.length = n ∧
      (∀ e, e ∈ kv → r.getD e.1 0 = e.2) ∧ (∀ i, i < n → (∀ e, e ∈ kv → e.1 ≠ i) → r.getD i 0 = -1) :=
  getValues_dict_nodup hne hk hnd

/-- Non-vacuity. -/
example : getValues 4 (.dict (toKV [(2, 5), (0, 1/2)])) (-1) = .ok [1/2, -1, 5, -1] := by decide +kernel

/-- **values_honoured (dict, any integer keys)**: with numpy's index rule (`-n ≤ k < n`, negative keys count from
the end) the entry of node `i` is the value of the *last* key denoting `i`, else −1; a key outside the range is
`IndexError`, an empty dict `ValueError`. -/
theorem values_dict_general (n : Nat) (kv : List (Int × Rat)) :
    (∀ r, getValues n (.dict kv) (-1) = .ok r →
      r.length = n ∧ ∀ i, i < n → r.getD i 0 = (lastAt n kv i).getD (-1)) ∧
    (kv = [] → getValues n (.dict kv) (-1) = .error .valueError) ∧
    (kv ≠ [] → (∀ e, e ∈ kv → (pyIndex n e.1).isSome) → ∃ r, getValues n (.dict kv) (-1) = .ok r) := by
  refine ⟨fun r h => getValues_dict h, fun h => by subst h; rfl, fun hne hk => ?_⟩
  unfold getValues
  have : kv.isEmpty = false := by
    cases kv with
    | nil => exact absurd rfl hne
    | cons e rest => rfl
  simp only [this]
  exact assign_ok_of_keys kv _ hk

/-- **values_honoured (the three forms agree)**. The list form and the ndarray form of a vector, and the dict form
and the ndarray form of the same temperatures, are indistinguishable for `get_values` … -/
theorem values_forms_same (n : Nat) :
    (∀ l, SameValues n (.list l) (.arr l)) ∧
    (∀ kv : List (Nat × Rat), kv ≠ [] → (∀ e, e ∈ kv → e.1 < n) → (kv.map (·.1)).Nodup →
      SameValues n (.dict (toKV kv)) (.arr (seedsArray n kv (-1)))) :=
  ⟨sameValues_list_arr n, fun _ hne hk hnd => sameValues_dict_arr hne hk hnd⟩

/-- … and `fit` (Diffusion and Dirichlet, adjacency or biadjacency input) returns the same `values_`,
`values_row_`, `values_col_` for any two calls whose `values`, `values_row`, `values_col` are indistinguishable
in that sense. -/
theorem values_forms_agree (algo : Algo) (nRow nCol nnz : Nat) (B : Nat → Nat → Rat) (a a' : Args) (nIter : Int)
    (α : Rat) (hv : SameValues nRow a.values a'.values) (hr : SameValues nRow a.valuesRow a'.valuesRow)
    (hc : SameValues nCol a.valuesCol a'.valuesCol) (hf : a.forceBipartite = a'.forceBipartite)
    (hi : a.init = a'.init) :
    fit algo nRow nCol nnz B a nIter α = fit algo nRow nCol nnz B a' nIter α :=
  fit_congr hv hr hc hf hi

/-- Non-vacuity: the `house` call with the seeds as dict, as list and as ndarray. -/
example : seedsArray 5 [(0, 1), (2, 0)] (-1) = [1, -1, 0, -1, -1] := by decide +kernel
example : (fit .dirichlet 5 5 12 houseAdj { values := .list [1, -1, 0, -1, -1] } 2 0).toOption
    = (fit .dirichlet 5 5 12 houseAdj { values := .dict [(0, 1), (2, 0)] } 2 0).toOption := by decide +kernel

/-! ## the harmonic solution -/

/-- **harmonic_unique**. On a graph with non-negative weights in which every node reaches a seed along edges of
positive weight (directed graphs included), the function that equals the seed temperatures on the boundary and the
weighted mean of its neighbours elsewhere is unique. -/
theorem harmonic_unique_of_reach (n : Nat) (w : Nat → Nat → Rat) (seed : Nat → Bool) (temp h1 h2 : Nat → Rat)
    (hw : ∀ i j, i < n → j < n → 0 ≤ w i j)
    (hreach : ∀ i, i < n → ∃ t, ReachesSeed n w seed t i)
    (H1 : IsHarmonic n w seed temp h1) (H2 : IsHarmonic n w seed temp h2) :
    ∀ i, i < n → h1 i = h2 i :=
  Heat.harmonic_unique_of_reach hw hreach H1 H2

/-- **harmonic_unique (as the property words it)**: a connected graph with a non-empty boundary. -/
theorem harmonic_unique (n : Nat) (w : Nat → Nat → Rat) (seed : Nat → Bool) (temp h1 h2 : Nat → Rat)
    (hw : ∀ i j, i < n → j < n → 0 ≤ w i j)
    (hconn : Connected n w) (b : Nat) (hb : b < n) (hs : seed b = true)
    (H1 : IsHarmonic n w seed temp h1) (H2 : IsHarmonic n w seed temp h2) :
    ∀ i, i < n → h1 i = h2 i :=
  Heat.harmonic_unique_of_reach hw (connected_reachesSeed hconn hb hs) H1 H2

/-- Non-vacuity: the path 0 – 1 – 2 with weights 1 and 3, seeds `0 ↦ 0`, `2 ↦ 1`: the harmonic function is
`[0, 3/4, 1]`, every node reaches a seed, and the 2-node graph with one edge is connected. -/
def pathW (i j : Nat) : Rat :=
  if (i, j) = (0, 1) ∨ (i, j) = (1, 0) then 1 else if (i, j) = (1, 2) ∨ (i, j) = (2, 1) then 3 else 0

example : IsHarmonic 3 pathW (fun i => i != 1) (fun i => if i = 2 then 1 else 0)
    (fun i => [0, 3/4, 1].getD i 0) := by
  intro i hi
  have : i = 0 ∨ i = 1 ∨ i = 2 := by omega
  rcases this with rfl | rfl | rfl <;> decide +kernel
example : ∀ i, i < 3 → ∃ t, ReachesSeed 3 pathW (fun i => i != 1) t i := by
  intro i hi
  have : i = 0 ∨ i = 1 ∨ i = 2 := by omega
  rcases this with rfl | rfl | rfl
  · exact ⟨0, .here (by omega) rfl⟩
  · exact ⟨1, .step (j := 2) (by omega) (by decide +kernel) (.here (by omega) rfl)⟩
  · exact ⟨0, .here (by omega) rfl⟩
example : Connected 2 (fun i j => if i ≠ j then 1 else 0) := by
  intro i j hi hj
  have hi' : i = 0 ∨ i = 1 := by omega
  have hj' : j = 0 ∨ j = 1 := by omega
  rcases hi' with rfl | rfl <;> rcases hj' with rfl | rfl
  · exact .refl (by omega)
  · exact .head (k := 1) (by omega) (by decide +kernel) (.refl (by omega))
  · exact .head (k := 0) (by omega) (by decide +kernel) (.refl (by omega))
  · exact .refl (by omega)

/-- **Every fixed point of the Dirichlet round is that function** (and conversely): for a vector `v` of length `n`,
non-negative weights and every non-seed node having an outgoing edge,
`values = P.dot(values); values[border] = temperatures[border]` leaves `v` unchanged iff `v` is harmonic. -/
theorem dirichlet_fixed_point_iff_harmonic (n : Nat) (A : Nat → Nat → Rat) (temps : List Rat) (border : List Bool)
    (v : List Rat) (hlen : v.length = n)
    (hA : ∀ i j, i < n → j < n → 0 ≤ A i j)
    (hN : ∀ i, i < n → border.getD i false = false → rowNorm n A i ≠ 0) :
    dirichletStep n (mat n n (normalize n A)) temps border v = v ↔
      IsHarmonic n A (fun i => border.getD i false) (fun i => temps.getD i 0) (fun i => v.getD i 0) :=
  dirichletStep_fixed_iff hlen hA hN

/-- Non-vacuity: `[0, 3/4, 1]` is a fixed point of the round on the weighted path above. -/
example : dirichletStep 3 (mat 3 3 (normalize 3 pathW)) [0, -1, 1] [true, false, true] [0, 3/4, 1] = [0, 3/4, 1] := by
  decide +kernel

/-- **dirichlet_nonexpansive**. Let `h` be harmonic for the boundary values. If a vector is within `M` of `h` at
every node, it still is after any number of Dirichlet rounds: the sup-distance to the harmonic solution never
increases. -/
theorem dirichlet_nonexpansive (n : Nat) (A : Nat → Nat → Rat) (temps : List Rat) (border : List Bool)
    (h : Nat → Rat) (M : Rat) (hn : 0 < n)
    (hA : ∀ i j, i < n → j < n → 0 ≤ A i j)
    (hN : ∀ i, i < n → border.getD i false = false → rowNorm n A i ≠ 0)
    (hH : IsHarmonic n A (fun i => border.getD i false) (fun i => temps.getD i 0) h)
    (k : Nat) (v : List Rat)
    (hv : ∀ i, i < n → absQ (v.getD i 0 - h i) ≤ M) :
    ∀ i, i < n →
      absQ ((loop (dirichletStep n (mat n n (normalize n A)) temps border) k v).getD i 0 - h i) ≤ M := by
  have hinv := loop_invariant (step := dirichletStep n (mat n n (normalize n A)) temps border)
    (fun v => ∀ i, i < n → -M ≤ v.getD i 0 - h i ∧ v.getD i 0 - h i ≤ M)
    (fun v hv => dirichletStep_harmonic_diff hA hN hH hn hv) k v
    (fun i hi => absQ_le_iff.1 (hv i hi))
  exact fun i hi => absQ_le_iff.2 (hinv i hi)

/-- **dirichlet_contracts**. If every node reaches a seed within `T` steps and `δ ∈ (0,1]` bounds from below the
transition probabilities of the edges, then from round `T+1` on the sup-distance of the Dirichlet iterates to the
harmonic function `h` is at most `(1 − δ^T)` times the initial one: a geometric contraction. -/
theorem dirichlet_contracts (n : Nat) (A : Nat → Nat → Rat) (temps : List Rat) (border : List Bool) (h : Nat → Rat)
    (hn : 0 < n)
    (hA : ∀ i j, i < n → j < n → 0 ≤ A i j)
    (hH : IsHarmonic n A (fun i => border.getD i false) (fun i => temps.getD i 0) h)
    (δ : Rat) (hδ0 : 0 < δ) (hδ1 : δ ≤ 1)
    (hδ : ∀ i j, i < n → j < n → 0 < A i j → δ ≤ normalize n A i j)
    (T : Nat) (hT : ∀ i, i < n → ReachesSeed n A (fun i => border.getD i false) T i)
    (M : Rat) (v : List Rat) (hv : ∀ i, i < n → absQ (v.getD i 0 - h i) ≤ M)
    (s : Nat) (hs : T + 1 ≤ s) :
    ∀ i, i < n →
      absQ ((loop (dirichletStep n (mat n n (normalize n A)) temps border) s v).getD i 0 - h i) ≤ (1 - δ ^ T) * M := by
  have hN : ∀ i, i < n → border.getD i false = false → rowNorm n A i ≠ 0 :=
    fun i hi hb => rowNorm_ne_zero_of_reach (hT i hi) hb
  have := contracts_uniform hA hN hH hn hδ0 hδ1 hδ hT (M := M) (v := v) (fun i hi => absQ_le_iff.1 (hv i hi)) s hs
  exact fun i hi => absQ_le_iff.2 (this i hi)

/-- **dirichlet_converges**. On a graph with non-negative weights in which every node reaches a seed (in particular a
connected undirected graph with a non-empty boundary), let `h` be the function equal to the seeds on the boundary
and to the weighted mean of its neighbours elsewhere. Then for every `ε > 0` there is a `K` such that for **every**
`n_iter ≥ K` (and every `init`) the vector computed by `Dirichlet.fit` is within `ε` of `h` at every node. -/
theorem dirichlet_converges (p : Prepared) (init : Option Rat) (α : Rat) (h : Nat → Rat)
    (hlen : p.seeds.length = p.n) (hn : 0 < p.n)
    (hA : ∀ i j, i < p.n → j < p.n → 0 ≤ p.adj i j)
    (hreach : ∀ i, i < p.n → ∃ t, ReachesSeed p.n p.adj (fun i => decide (0 ≤ p.seeds.getD i 0)) t i)
    (hH : IsHarmonic p.n p.adj (fun i => decide (0 ≤ p.seeds.getD i 0)) (fun i => p.seeds.getD i 0) h)
    (ε : Rat) (hε : 0 < ε) :
    ∃ K, ∀ k, K ≤ k → ∀ v, fitVector .dirichlet p init k α = .ok v →
      ∀ i, i < p.n → absQ (v.getD i 0 - h i) ≤ ε :=
  fitVector_converges p init α h hlen hn hA hreach hH ε hε

/-- … and at the level of `fit` on an adjacency matrix: `values_` converges to the harmonic function. -/
theorem dirichlet_fit_converges (n nnz : Nat) (B : Nat → Nat → Rat) (a : Args) (α : Rat) (p : Prepared)
    (h : Nat → Rat) (hprep : getAdjacencyValues n n nnz B a = .ok p) (hbip : p.bipartite = false) (hn : 0 < n)
    (hB : ∀ i j, 0 ≤ B i j)
    (hreach : ∀ i, i < n → ∃ t, ReachesSeed n B (fun i => decide (0 ≤ p.seeds.getD i 0)) t i)
    (hH : IsHarmonic n B (fun i => decide (0 ≤ p.seeds.getD i 0)) (fun i => p.seeds.getD i 0) h)
    (ε : Rat) (hε : 0 < ε) :
    ∃ K : Nat, ∀ nIter : Int, (K : Int) ≤ nIter → ∀ out, fit .dirichlet n n nnz B a nIter α = .ok out →
      ∀ i, i < n → absQ (out.values.getD i 0 - h i) ≤ ε := by
  obtain ⟨_, hlen, _, hsq⟩ := getAdjacencyValues_ok hprep
  obtain ⟨hpn, hadj, _⟩ := hsq hbip
  obtain ⟨K, hK⟩ := dirichlet_converges p a.init α h hlen (hpn ▸ hn) (fun i j _ _ => hadj ▸ hB i j)
    (by rw [hpn, hadj]; exact hreach) (by rw [hpn, hadj]; exact hH) ε hε
  refine ⟨K, fun nIter hk out hfit i hi => ?_⟩
  obtain ⟨_, p', v, hp', hv, rfl⟩ := fit_ok hfit
  rw [hprep] at hp'; cases hp'
  simp only [splitVars, hbip]
  exact hK nIter.toNat (by omega) v hv i (hpn ▸ hi)

/-- Non-vacuity: on the weighted path above with the seeds `0 ↦ 0`, `2 ↦ 1` (dict form) the hypotheses hold with
`h = [0, 3/4, 1]`; 1 round already gives the harmonic value at the only free node. -/
example : (getAdjacencyValues 3 3 4 pathW { values := .dict [(0, 0), (2, 1)] }).toOption.map (·.seeds)
    = some [0, -1, 1] := by decide +kernel
example : (fit .dirichlet 3 3 4 pathW { values := .dict [(0, 0), (2, 1)] } 1 0).toOption.map (·.values)
    = some [0, 3/4, 1] := by decide +kernel

/-- **harmonic_exists_unique**. On a graph with non-negative weights in which every node reaches a seed there is
one and only one function (on the `n` nodes) that equals the seed temperatures on the boundary and the weighted mean
of its neighbours elsewhere. (Existence: the Dirichlet problem is a linear system whose operator is injective by
`harmonic_unique_of_reach`, hence surjective in finite dimension.) -/
theorem harmonic_exists_unique (n : Nat) (w : Nat → Nat → Rat) (seed : Nat → Bool) (temp : Nat → Rat)
    (hw : ∀ i j, i < n → j < n → 0 ≤ w i j)
    (hreach : ∀ i, i < n → ∃ t, ReachesSeed n w seed t i) :
    ∃ h : Nat → Rat, IsHarmonic n w seed temp h ∧
      ∀ h' : Nat → Rat, IsHarmonic n w seed temp h' → ∀ i, i < n → h' i = h i := by
  obtain ⟨h, H⟩ := harmonic_exists_of_reach hw hreach temp
  exact ⟨h, H, fun h' H' => Heat.harmonic_unique_of_reach hw hreach H' H⟩

/-- **The limit clause of C14, in one statement.** Let `p` be a prepared Dirichlet problem (non-negative weights,
every node reaches a seed — e.g. a connected undirected graph with at least one seed). Then there is a function `h`,
equal to the seeds on the boundary and to the weighted mean of its neighbours elsewhere, unique with these two
properties, such that for every `ε > 0` the vector computed by `Dirichlet.fit` is within `ε` of `h` at every node
for all sufficiently large `n_iter` (whatever `init`). -/
theorem dirichlet_converges_to_the_harmonic_solution (p : Prepared) (init : Option Rat) (α : Rat)
    (hlen : p.seeds.length = p.n) (hn : 0 < p.n)
    (hA : ∀ i j, i < p.n → j < p.n → 0 ≤ p.adj i j)
    (hreach : ∀ i, i < p.n → ∃ t, ReachesSeed p.n p.adj (fun i => decide (0 ≤ p.seeds.getD i 0)) t i) :
    ∃ h : Nat → Rat,
      IsHarmonic p.n p.adj (fun i => decide (0 ≤ p.seeds.getD i 0)) (fun i => p.seeds.getD i 0) h ∧
      (∀ h' : Nat → Rat,
        IsHarmonic p.n p.adj (fun i => decide (0 ≤ p.seeds.getD i 0)) (fun i => p.seeds.getD i 0) h' →
        ∀ i, i < p.n → h' i = h i) ∧
      ∀ ε : Rat, 0 < ε → ∃ K, ∀ k, K ≤ k → ∀ v, fitVector .dirichlet p init k α = .ok v →
        ∀ i, i < p.n → absQ (v.getD i 0 - h i) ≤ ε := by
  obtain ⟨h, H, huniq⟩ := harmonic_exists_unique p.n p.adj (fun i => decide (0 ≤ p.seeds.getD i 0))
    (fun i => p.seeds.getD i 0) hA hreach
  exact ⟨h, H, huniq, fun ε hε => dirichlet_converges p init α h hlen hn hA hreach H ε hε⟩

/-- **The limit clause as the property words it**: an adjacency matrix of a *connected* graph (non-negative
weights) with at least one seed. `Dirichlet(n_iter).fit(adjacency, values, init=…).values_` converges, as `n_iter`
grows, to the unique function that equals the seeds on the boundary and the weighted mean of its neighbours
elsewhere. -/
theorem dirichlet_limit_connected (n nnz : Nat) (B : Nat → Nat → Rat) (a : Args) (α : Rat) (p : Prepared)
    (hprep : getAdjacencyValues n n nnz B a = .ok p) (hbip : p.bipartite = false)
    (hB : ∀ i j, 0 ≤ B i j) (hconn : Connected n B)
    (b : Nat) (hb : b < n) (hs : 0 ≤ p.seeds.getD b 0) :
    ∃ h : Nat → Rat,
      IsHarmonic n B (fun i => decide (0 ≤ p.seeds.getD i 0)) (fun i => p.seeds.getD i 0) h ∧
      (∀ h' : Nat → Rat, IsHarmonic n B (fun i => decide (0 ≤ p.seeds.getD i 0)) (fun i => p.seeds.getD i 0) h' →
        ∀ i, i < n → h' i = h i) ∧
      ∀ ε : Rat, 0 < ε → ∃ K : Nat, ∀ nIter : Int, (K : Int) ≤ nIter →
        ∀ out, fit .dirichlet n n nnz B a nIter α = .ok out →
          ∀ i, i < n → absQ (out.values.getD i 0 - h i) ≤ ε := by
  have hreach : ∀ i, i < n → ∃ t, ReachesSeed n B (fun i => decide (0 ≤ p.seeds.getD i 0)) t i :=
    connected_reachesSeed hconn hb (by simpa using hs)
  obtain ⟨h, H, huniq⟩ := harmonic_exists_unique n B (fun i => decide (0 ≤ p.seeds.getD i 0))
    (fun i => p.seeds.getD i 0) (fun i j _ _ => hB i j) hreach
  exact ⟨h, H, huniq, fun ε hε =>
    dirichlet_fit_converges n nnz B a α p h hprep hbip (by omega) hB hreach H ε hε⟩

/-! ## the initial state, and the predicates evaluated by the `spec` lines -/

/-- **init_temperatures**. The initial vector has the length of the seeds vector; a node with a temperature `≥ 0`
starts at that temperature, every other node at `init`, or at the mean of the seed temperatures when `init` is
absent; with no seed and no `init` there is no initial state (the code produces NaN). -/
theorem init_temperatures_spec (seeds : List Rat) (init : Option Rat) :
    (∀ temps border, initTemperatures seeds init = .ok (temps, border) →
      temps.length = seeds.length ∧ border = borderOf seeds ∧
      ∀ i, i < seeds.length →
        (0 ≤ seeds.getD i 0 → temps.getD i 0 = seeds.getD i 0) ∧
        (seeds.getD i 0 < 0 → temps.getD i 0 = (init.getD (seedSum seeds / seedCount seeds)))) ∧
    (init = none → seedCount seeds = 0 → initTemperatures seeds init = .error .nanMean) := by
  constructor
  · intro temps border h
    obtain ⟨hb, b, hbv, rfl⟩ := initTemperatures_ok h
    refine ⟨by simp, hb, fun i hi => ⟨fun hs => ?_, fun hs => ?_⟩⟩
    · have := (borderOf_getD_true hi).2 hs
      simp [hi, this]
    · have : ¬ (borderOf seeds).getD i false = true := fun hbt => by
        have := (borderOf_getD_true hi).1 hbt; linarith
      simp only [tab_getD, hi, if_true, this]
      rcases hbv with rfl | ⟨rfl, _, rfl⟩ <;> rfl
  · intro hi hc
    subst hi
    simp [initTemperatures, hc]

/-- Non-vacuity: seeds `[2, -1, 4, -1]` start at `[2, 3, 4, 3]` (mean 3) or at `[2, 1, 4, 1]` with `init = 1`. -/
example : initTemperatures [2, -1, 4, -1] none = .ok ([2, 3, 4, 3], [true, false, true, false]) := by decide +kernel
example : initTemperatures [2, -1, 4, -1] (some 1) = .ok ([2, 1, 4, 1], [true, false, true, false]) := by decide +kernel

/-- The predicate `c14.spec_maxp` evaluates on an implementation output (with slack 0) **is** the conclusion of
`max_principle`; with a slack `tol ≥ 0` it is implied by it. -/
theorem spec_maxPrinciple_iff (lo hi : Rat) (out : List Rat) :
    (maxPrinciple lo hi 0 out = true ↔ ∀ x, x ∈ out → lo ≤ x ∧ x ≤ hi) ∧
    (∀ tol, 0 ≤ tol → (∀ x, x ∈ out → lo ≤ x ∧ x ≤ hi) → maxPrinciple lo hi tol out = true) := by
  constructor
  · simp [maxPrinciple, within]
  · intro tol htol h
    simp only [maxPrinciple, within, List.all_eq_true, Bool.and_eq_true, decide_eq_true_eq]
    intro x hx
    have hpos : 0 ≤ tol * (1 + absR x) := by
      apply mul_nonneg htol
      unfold absR; split <;> linarith
    constructor <;> linarith [(h x hx).1, (h x hx).2]

/-- The predicate that checks "Dirichlet returns the seeds unchanged" on an implementation output says exactly
that every listed seed `(i, t)` is a position of the output holding `t`. -/
theorem spec_boundaryKept_iff (s : Seeds) (out : List Rat) :
    boundaryKept s out = true ↔ ∀ e, e ∈ s → e.1 < out.length ∧ out.getD e.1 0 = e.2 := by
  simp [boundaryKept]

/-- The executable check `isHarmonicB`, with which the driver verifies the solver's proposal before using it, is
the proposition `IsHarmonic` of the theorems (so by `harmonic_unique` the verified proposal *is* the harmonic
solution). -/
theorem spec_isHarmonicB_iff (n : Nat) (w : Nat → Nat → Rat) (s : Seeds) (h : List Rat) :
    isHarmonicB n w s h = true ↔
      h.length = n ∧ IsHarmonic n w (isSeed s) (fun i => (seedTemp? s i).getD 0) (fun i => h.getD i 0) := by
  unfold isHarmonicB IsHarmonic
  simp only [Bool.and_eq_true, beq_iff_eq, List.all_eq_true, List.mem_range]
  constructor
  · rintro ⟨hl, hall⟩
    refine ⟨hl, fun i hi => ?_⟩
    have := hall i hi
    cases hs : seedTemp? s i with
    | some t =>
      rw [hs] at this
      simp only [beq_iff_eq] at this
      exact ⟨fun _ => by simpa using this, fun hf => by simp [isSeed, hs] at hf⟩
    | none =>
      rw [hs] at this
      simp only [beq_iff_eq] at this
      exact ⟨fun hf => by simp [isSeed, hs] at hf, fun _ => this⟩
  · rintro ⟨hl, hall⟩
    refine ⟨hl, fun i hi => ?_⟩
    cases hs : seedTemp? s i with
    | some t =>
      have := (hall i hi).1 (by simp [isSeed, hs])
      simp only [beq_iff_eq]
      simpa [hs] using this
    | none =>
      have := (hall i hi).2 (by simp [isSeed, hs])
      simp only [beq_iff_eq]
      exact this

/-! ## totality: when `fit` returns -/

/-- **fit_returns**. On a square, non-empty matrix with the temperatures given as a vector of the right length,
`n_iter ≥ 1`, and either an `init` or at least one seed, both estimators return (no error value): the hypotheses of
the theorems above are met by every such call, for every graph. Conversely `n_iter ≤ 0`, an empty matrix and a
vector of the wrong length are refused with `ValueError`, and no seed with no `init` has no result (NaN). -/
theorem fit_returns (algo : Algo) (n nnz : Nat) (B : Nat → Nat → Rat) (l : List Rat) (init : Option Rat)
    (nIter : Int) (α : Rat) :
    (0 < nIter → nnz ≠ 0 → l.length = n → (init.isSome ∨ ∃ i, i < n ∧ 0 ≤ l.getD i 0) →
      ∃ out, fit algo n n nnz B { values := .arr l, init := init } nIter α = .ok out) ∧
    (nIter ≤ 0 → fit algo n n nnz B { values := .arr l, init := init } nIter α = .error .valueError) ∧
    (0 < nIter → nnz = 0 → fit algo n n nnz B { values := .arr l, init := init } nIter α = .error .valueError) ∧
    (0 < nIter → nnz ≠ 0 → l.length ≠ n →
      fit algo n n nnz B { values := .arr l, init := init } nIter α = .error .valueError) ∧
    (0 < nIter → nnz ≠ 0 → l.length = n → init = none → (∀ i, i < n → l.getD i 0 < 0) →
      fit algo n n nnz B { values := .arr l, init := init } nIter α = .error .nanMean) := by
  have hprep : nnz ≠ 0 → l.length = n →
      getAdjacencyValues n n nnz B { values := .arr l, init := init } = .ok ⟨n, B, l, false⟩ := by
    intro h1 h2
    simp [getAdjacencyValues, h1, Values.isNone, getValues, h2]
  refine ⟨fun hk hnnz hl hseed => ?_, fun hk => by simp [fit, hk], fun hk h0 => ?_, fun hk hnnz hl => ?_,
    fun hk hnnz hl hi hneg => ?_⟩
  · have hinit : ∃ tb, initTemperatures l init = .ok tb := by
      unfold initTemperatures
      cases init with
      | some x => exact ⟨_, rfl⟩
      | none =>
        have hc : seedCount l ≠ 0 := by
          rcases hseed with h | ⟨i, hi, hs⟩
          · cases h
          · have hterm := sumTo_ge_term (n := l.length) (f := fun i => if 0 ≤ l.getD i 0 then (1 : Rat) else 0)
              (fun k _ => by split <;> norm_num) (hl ▸ hi)
            simp only [hs, if_true] at hterm
            unfold seedCount
            linarith
        simp only [hc, if_false]
        exact ⟨_, rfl⟩
    obtain ⟨⟨temps, border⟩, ht⟩ := hinit
    have hnk : ¬ nIter ≤ 0 := by omega
    cases algo <;> simp [fit, hnk, hprep hnnz hl, fitVector, ht]
  · have hnk : ¬ nIter ≤ 0 := by omega
    simp [fit, hnk, getAdjacencyValues, h0]
  · have hnk : ¬ nIter ≤ 0 := by omega
    simp [fit, hnk, getAdjacencyValues, hnnz, Values.isNone, getValues, hl]
  · have hnk : ¬ nIter ≤ 0 := by omega
    have hc : seedCount l = 0 := by
      unfold seedCount
      apply sumTo_eq_zero_of_all_zero
      intro i hi
      have := hneg i (hl ▸ hi)
      simp [not_le.2 this]
    subst hi
    simp [fit, hnk, hprep hnnz hl, fitVector, initTemperatures, hc]

/-- **dirichlet_fit_converges (adjacency or biadjacency input)**: for every routing of `get_adjacency_values`, the
vector that `_split_vars` cuts into `values_` / `values_row_` / `values_col_` converges to the harmonic function of
the graph the estimator runs on (the block graph `[[0,B],[Bᵀ,0]]` for a biadjacency matrix). -/
theorem dirichlet_fit_converges_general (nRow nCol nnz : Nat) (B : Nat → Nat → Rat) (a : Args) (α : Rat)
    (p : Prepared) (h : Nat → Rat) (hprep : getAdjacencyValues nRow nCol nnz B a = .ok p) (hn : 0 < p.n)
    (hB : ∀ i j, 0 ≤ B i j)
    (hreach : ∀ i, i < p.n → ∃ t, ReachesSeed p.n p.adj (fun i => decide (0 ≤ p.seeds.getD i 0)) t i)
    (hH : IsHarmonic p.n p.adj (fun i => decide (0 ≤ p.seeds.getD i 0)) (fun i => p.seeds.getD i 0) h)
    (ε : Rat) (hε : 0 < ε) :
    ∃ K : Nat, ∀ nIter : Int, (K : Int) ≤ nIter → ∀ out, fit .dirichlet nRow nCol nnz B a nIter α = .ok out →
      ∃ v, out = splitVars p.bipartite nRow v ∧ v.length = p.n ∧
        ∀ i, i < p.n → absQ (v.getD i 0 - h i) ≤ ε := by
  have hlen := (getAdjacencyValues_ok hprep).2.1
  have hA := getAdjacencyValues_nonneg hprep hB
  obtain ⟨K, hK⟩ := dirichlet_converges p a.init α h hlen hn (fun i j _ _ => hA i j) hreach hH ε hε
  refine ⟨K, fun nIter hk out hfit => ?_⟩
  obtain ⟨_, p', v, hp', hv, rfl⟩ := fit_ok hfit
  rw [hprep] at hp'; cases hp'
  exact ⟨v, rfl, (dirichlet_boundary_vector p a.init nIter.toNat α v hlen hv).1,
    hK nIter.toNat (by omega) v hv⟩

/-! ## end to end: from the dict handed in to the values handed back -/

/-- **Dirichlet returns the seed temperatures unchanged at the seeds (adjacency matrix, dict input)**: for every
square matrix (any weights, sinks included), every dict `{node: temperature}` with distinct nodes `< n`, every
`init`, `n_iter`: whenever `fit` returns, `values_[i] = t` for every entry `i: t` of the dict with `t ≥ 0`. -/
theorem dirichlet_returns_seeds_dict (n nnz : Nat) (B : Nat → Nat → Rat) (kv : List (Nat × Rat))
    (init : Option Rat) (nIter : Int) (α : Rat) (out : Out)
    (hne : kv ≠ []) (hk : ∀ e, e ∈ kv → e.1 < n) (hnd : (kv.map (·.1)).Nodup)
    (hfit : fit .dirichlet n n nnz B { values := .dict (toKV kv), init := init } nIter α = .ok out) :
    out.values.length = n ∧ ∀ e, e ∈ kv → 0 ≤ e.2 → out.values.getD e.1 0 = e.2 := by
  obtain ⟨r, hr, _, hin, _⟩ := getValues_dict_nodup (d := -1) hne hk hnd
  obtain ⟨_, p, v, hp, _, _⟩ := fit_ok hfit
  have hnnz := (getAdjacencyValues_ok hp).1
  have hp' : getAdjacencyValues n n nnz B { values := .dict (toKV kv), init := init } = .ok ⟨n, B, r, false⟩ := by
    simp [getAdjacencyValues, hnnz, Values.isNone, hr]
  have hb := (dirichlet_boundary n n nnz B _ nIter α ⟨n, B, r, false⟩ out hp' hfit).1 rfl
  exact ⟨hb.1, fun e he hpos => by
    have := hb.2.2.2 e.1 (hk e he) (by simp only; rw [hin e he]; exact hpos)
    simp only at this
    rw [this, hin e he]⟩

/-- **… and for a biadjacency matrix with `values_row` and `values_col` given as dicts**: `values_row_[i] = t` for
every row entry `i: t ≥ 0`, `values_col_[j] = t` for every column entry `j: t ≥ 0`, and `values_ = values_row_`. -/
theorem dirichlet_returns_seeds_bipartite_dict (nRow nCol nnz : Nat) (B : Nat → Nat → Rat)
    (kvR kvC : List (Nat × Rat)) (init : Option Rat) (fb : Bool) (nIter : Int) (α : Rat) (out : Out)
    (hneR : kvR ≠ []) (hkR : ∀ e, e ∈ kvR → e.1 < nRow) (hndR : (kvR.map (·.1)).Nodup)
    (hneC : kvC ≠ []) (hkC : ∀ e, e ∈ kvC → e.1 < nCol) (hndC : (kvC.map (·.1)).Nodup)
    (hfit : fit .dirichlet nRow nCol nnz B
      { valuesRow := .dict (toKV kvR), valuesCol := .dict (toKV kvC), init := init, forceBipartite := fb }
      nIter α = .ok out) :
    ∃ r c, out.valuesRow = some r ∧ out.valuesCol = some c ∧ out.values = r ∧ r.length = nRow ∧ c.length = nCol ∧
      (∀ e, e ∈ kvR → 0 ≤ e.2 → r.getD e.1 0 = e.2) ∧ (∀ e, e ∈ kvC → 0 ≤ e.2 → c.getD e.1 0 = e.2) := by
  obtain ⟨sr, hsr, hlr, hinR, _⟩ := getValues_dict_nodup (d := -1) hneR hkR hndR
  obtain ⟨sc, hsc, hlc, hinC, _⟩ := getValues_dict_nodup (d := -1) hneC hkC hndC
  obtain ⟨_, p, v, hp, _, _⟩ := fit_ok hfit
  have hnnz := (getAdjacencyValues_ok hp).1
  have hp' : getAdjacencyValues nRow nCol nnz B
      { valuesRow := .dict (toKV kvR), valuesCol := .dict (toKV kvC), init := init, forceBipartite := fb }
      = .ok ⟨nRow + nCol, blockMat nRow B, sr ++ sc, true⟩ := by
    simp [getAdjacencyValues, hnnz, Values.isNone, stackValues, hsr, hsc]
  obtain ⟨r, c, h1, h2, h3, h4, h5, hrow, hcol⟩ :=
    (dirichlet_boundary nRow nCol nnz B _ nIter α ⟨nRow + nCol, blockMat nRow B, sr ++ sc, true⟩ out hp' hfit).2 rfl
  have hgetR : ∀ i, i < nRow → (sr ++ sc).getD i 0 = sr.getD i 0 := by
    intro i hi
    simp [List.getD_eq_getElem?_getD, List.getElem?_append_left (hlr ▸ hi)]
  have hgetC : ∀ j, (sr ++ sc).getD (nRow + j) 0 = sc.getD j 0 := by
    intro j
    simp [List.getD_eq_getElem?_getD, List.getElem?_append_right (by omega : sr.length ≤ nRow + j), hlr]
  refine ⟨r, c, h1, h2, h3, h4, h5, fun e he hpos => ?_, fun e he hpos => ?_⟩
  · have := hrow e.1 (hkR e he) (by simp only; rw [hgetR _ (hkR e he), hinR e he]; exact hpos)
    simp only at this
    rw [this, hgetR _ (hkR e he), hinR e he]
  · have := hcol e.1 (hkC e he) (by simp only; rw [hgetC, hinC e he]; exact hpos)
    simp only at this
    rw [this, hgetC, hinC e he]

/-- **The maximum principle, end to end, for a dict of temperatures on an adjacency matrix.** Non-negative weights,
a dict `{node: temperature}` with distinct nodes `< n` whose temperatures `≥ 0` lie in `[lo, hi]`, `init` absent or
in `[lo, hi]`, damping in `[0,1]` (Diffusion) / every node without a temperature `≥ 0` has an outgoing edge
(Dirichlet): for every `n_iter`, every entry of `values_` lies in `[lo, hi]`. -/
theorem max_principle_dict (algo : Algo) (n nnz : Nat) (B : Nat → Nat → Rat) (kv : List (Nat × Rat))
    (init : Option Rat) (nIter : Int) (α lo hi : Rat) (out : Out)
    (hne : kv ≠ []) (hk : ∀ e, e ∈ kv → e.1 < n) (hnd : (kv.map (·.1)).Nodup)
    (hB : ∀ i j, 0 ≤ B i j)
    (hkv : ∀ e, e ∈ kv → 0 ≤ e.2 → lo ≤ e.2 ∧ e.2 ≤ hi)
    (hinit : ∀ x, init = some x → lo ≤ x ∧ x ≤ hi)
    (hα : algo = .diffusion → 0 ≤ α ∧ α ≤ 1)
    (hsink : algo = .dirichlet → ∀ i, i < n → (∀ e, e ∈ kv → e.1 = i → e.2 < 0) → ∃ j, j < n ∧ B i j ≠ 0)
    (hfit : fit algo n n nnz B { values := .dict (toKV kv), init := init } nIter α = .ok out) :
    ∀ x, x ∈ out.values → lo ≤ x ∧ x ≤ hi := by
  obtain ⟨r, hr, _, hin, hout⟩ := getValues_dict_nodup (d := -1) hne hk hnd
  obtain ⟨_, p, v, hp, _, _⟩ := fit_ok hfit
  have hnnz := (getAdjacencyValues_ok hp).1
  have hp' : getAdjacencyValues n n nnz B { values := .dict (toKV kv), init := init } = .ok ⟨n, B, r, false⟩ := by
    simp [getAdjacencyValues, hnnz, Values.isNone, hr]
  have hentry : ∀ i, i < n → (∃ e, e ∈ kv ∧ e.1 = i ∧ r.getD i 0 = e.2) ∨
      ((∀ e, e ∈ kv → e.1 ≠ i) ∧ r.getD i 0 = -1) := by
    intro i hi
    by_cases hex : ∃ e, e ∈ kv ∧ e.1 = i
    · obtain ⟨e, he, hei⟩ := hex
      exact Or.inl ⟨e, he, hei, by rw [← hei]; exact hin e he⟩
    · have hno : ∀ e, e ∈ kv → e.1 ≠ i := fun e he hei => hex ⟨e, he, hei⟩
      exact Or.inr ⟨hno, hout i hi hno⟩
  refine (max_principle algo n n nnz B _ nIter α lo hi ⟨n, B, r, false⟩ out hp' hfit hB ?_ hinit hα ?_).1
  · intro i hi hpos
    simp only at hi hpos ⊢
    rcases hentry i hi with ⟨e, he, _, hre⟩ | ⟨_, hre⟩
    · rw [hre] at hpos ⊢; exact hkv e he hpos
    · rw [hre] at hpos; norm_num at hpos
  · intro halgo i hi hneg
    simp only at hi hneg ⊢
    refine hsink halgo i hi (fun e he hei => ?_)
    rcases hentry i hi with ⟨e', he', hei', hre⟩ | ⟨hno, _⟩
    · -- distinct keys: e = e'
      have : r.getD i 0 = e.2 := by rw [← hei]; exact hin e he
      rw [this] at hneg; exact hneg
    · exact absurd hei (hno e he)

/-- Non-vacuity: the `house` call meets these hypotheses with `lo = 0`, `hi = 1` (every node has an edge). -/
example : ∀ i, i < 5 → ∃ j, j < 5 ∧ houseAdj i j ≠ 0 := by
  intro i hi
  have : i = 0 ∨ i = 1 ∨ i = 2 ∨ i = 3 ∨ i = 4 := by omega
  rcases this with rfl | rfl | rfl | rfl | rfl
  · exact ⟨1, by omega, by decide +kernel⟩
  · exact ⟨0, by omega, by decide +kernel⟩
  · exact ⟨1, by omega, by decide +kernel⟩
  · exact ⟨2, by omega, by decide +kernel⟩
  · exact ⟨0, by omega, by decide +kernel⟩

/-- **The documented update of Diffusion** `T ← (1-α) T + α P T`: one product with the matrix that `Diffusion.fit`
builds is, at every node `i`, `(1-α)·T_i + α·(weighted mean of T over the predecessors of i)`, and a node without
predecessor keeps its temperature. (`P = normalize(Aᵀ)`: weights `A_ji / Σ_k |A_ki|`.) -/
theorem diffusion_step_formula (n : Nat) (A : Nat → Nat → Rat) (α : Rat) (v : List Rat) (i : Nat) (hi : i < n) :
    (matVec n (mat n n (diffusionEntry n A α)) v).getD i 0 =
      (1 - α) * v.getD i 0 +
      α * (if rowNorm n (fun r c => A c r) i = 0 then v.getD i 0
           else sumTo n fun j => normalize n (fun r c => A c r) i j * v.getD j 0) := by
  rw [matVec_getD hi, sumTo_congr (fun j hj => by rw [ent_mat hi hj, diffusionEntry_eq])]
  have hsplit : ∀ j, j < n →
      ((1 - α) * (if j = i then 1 else 0) +
        α * (normalize n (fun r c => A c r) i j +
          (if j = i then (if rowNorm n (fun r c => A c r) i = 0 then 1 else 0) else 0))) * v.getD j 0 =
      (1 - α) * (if j = i then v.getD i 0 else 0) +
        (α * (normalize n (fun r c => A c r) i j * v.getD j 0) +
         α * (if j = i then (if rowNorm n (fun r c => A c r) i = 0 then v.getD i 0 else 0) else 0)) := by
    intro j _
    by_cases hji : j = i
    · subst hji
      by_cases hd : rowNorm n (fun r c => A c r) j = 0 <;> simp [hd] <;> ring
    · simp [hji]; ring
  rw [sumTo_congr hsplit, sumTo_add, sumTo_add, sumTo_mul_left, sumTo_mul_left, sumTo_mul_left,
    sumTo_single, sumTo_single]
  simp only [hi, if_true]
  by_cases hd : rowNorm n (fun r c => A c r) i = 0
  · rw [sumTo_eq_zero_of_all_zero (fun j _ => by rw [normalize_null_row hd]; ring)]
    simp [hd]
  · simp [hd]

/-- Non-vacuity: one round on `0 → 1` (weight 1) with `α = 1/4`, `T = [8, 4]`: node 0 has no predecessor and keeps 8,
node 1 moves a quarter of the way to its predecessor's temperature. -/
example : matVec 2 (mat 2 2 (diffusionEntry 2 (fun i j => if i = 0 ∧ j = 1 then 1 else 0) (1/4))) [8, 4] = [8, 5] := by
  decide +kernel

/-- **The model meets the predicates of its own `spec` lines**: under the hypotheses of `max_principle`, the
executable predicate `maxPrinciple` (any slack `tol ≥ 0`, in particular 0) is `true` on every output of the model —
so an implementation that agrees with the model on a `run` line can fail the `spec` line only through rounding. -/
theorem model_meets_spec_maxp (algo : Algo) (nRow nCol nnz : Nat) (B : Nat → Nat → Rat) (a : Args) (nIter : Int)
    (α lo hi tol : Rat) (p : Prepared) (out : Out) (htol : 0 ≤ tol)
    (hprep : getAdjacencyValues nRow nCol nnz B a = .ok p)
    (hfit : fit algo nRow nCol nnz B a nIter α = .ok out)
    (hB : ∀ i j, 0 ≤ B i j)
    (hseeds : ∀ i, i < p.n → 0 ≤ p.seeds.getD i 0 → lo ≤ p.seeds.getD i 0 ∧ p.seeds.getD i 0 ≤ hi)
    (hinit : ∀ x, a.init = some x → lo ≤ x ∧ x ≤ hi)
    (hα : algo = .diffusion → 0 ≤ α ∧ α ≤ 1)
    (hsink : algo = .dirichlet → ∀ i, i < p.n → p.seeds.getD i 0 < 0 → ∃ j, j < p.n ∧ p.adj i j ≠ 0) :
    maxPrinciple lo hi tol out.values = true ∧
    (∀ r, out.valuesRow = some r → maxPrinciple lo hi tol r = true) ∧
    (∀ c, out.valuesCol = some c → maxPrinciple lo hi tol c = true) := by
  obtain ⟨h1, h2, h3⟩ := max_principle algo nRow nCol nnz B a nIter α lo hi p out hprep hfit hB hseeds hinit hα hsink
  exact ⟨(spec_maxPrinciple_iff lo hi _).2 tol htol h1,
    fun r hr => (spec_maxPrinciple_iff lo hi _).2 tol htol (h2 r hr),
    fun c hc => (spec_maxPrinciple_iff lo hi _).2 tol htol (h3 c hc)⟩

/-! ## renumbering the nodes (the C02 clause for Diffusion and Dirichlet) -/

/-- **diffusion_equivariant**. For every `n`, every permutation `π` of `{0..n-1}` (pair of inverse maps), every
graph, every seeds vector, `init`, damping factor and **every** `n_iter`: `Diffusion` on the renumbered graph
(`A' i j = A (πinv i) (πinv j)`) with the renumbered seeds returns the renumbered values — errors included — i.e.
`values'(π v) = values(v)` for every node `v`. (Induction on the iteration; one step is a row-normalised
matrix–vector product whose sums run over the same multiset.) -/
theorem diffusion_equivariant (p : Prepared) (π πinv : Nat → Nat) (hp : WL.IsPerm p.n π πinv)
    (hlen : p.seeds.length = p.n) (init : Option Rat) (k : Nat) (α : Rat) :
    fitVector .diffusion (relabelPrepared πinv p) init k α =
      (fitVector .diffusion p init k α).map (relabelVec p.n πinv) ∧
    ∀ v, fitVector .diffusion p init k α = .ok v →
      ∃ v', fitVector .diffusion (relabelPrepared πinv p) init k α = .ok v' ∧ v'.length = p.n ∧
        ∀ u, u < p.n → v'.getD (π u) 0 = v.getD u 0 := by
  have h := fitVector_relabel .diffusion p hp hlen init k α
  refine ⟨h, fun v hv => ⟨relabelVec p.n πinv v, by rw [h, hv]; rfl, by simp, fun u hu => relabelVec_at hp v hu⟩⟩

/-- **dirichlet_equivariant**: the same for `Dirichlet` (boundary re-imposed after every round), every `n_iter`. -/
theorem dirichlet_equivariant (p : Prepared) (π πinv : Nat → Nat) (hp : WL.IsPerm p.n π πinv)
    (hlen : p.seeds.length = p.n) (init : Option Rat) (k : Nat) (α : Rat) :
    fitVector .dirichlet (relabelPrepared πinv p) init k α =
      (fitVector .dirichlet p init k α).map (relabelVec p.n πinv) ∧
    ∀ v, fitVector .dirichlet p init k α = .ok v →
      ∃ v', fitVector .dirichlet (relabelPrepared πinv p) init k α = .ok v' ∧ v'.length = p.n ∧
        ∀ u, u < p.n → v'.getD (π u) 0 = v.getD u 0 := by
  have h := fitVector_relabel .dirichlet p hp hlen init k α
  refine ⟨h, fun v hv => ⟨relabelVec p.n πinv v, by rw [h, hv]; rfl, by simp, fun u hu => relabelVec_at hp v hu⟩⟩

/-- **fit_equivariant (adjacency matrix, temperatures as a vector)**: at the level of `fit`, for both estimators:
the renumbered matrix with the renumbered vector gives `values_` renumbered (and the same error otherwise). -/
theorem fit_equivariant_array (algo : Algo) (n nnz : Nat) (B : Nat → Nat → Rat) (l : List Rat) (init : Option Rat)
    (nIter : Int) (α : Rat) (π πinv : Nat → Nat) (hp : WL.IsPerm n π πinv) (hl : l.length = n) :
    fit algo n n nnz (relabelMat πinv B) { values := .arr (relabelVec n πinv l), init := init } nIter α =
      (fit algo n n nnz B { values := .arr l, init := init } nIter α).map
        fun o => ⟨relabelVec n πinv o.values, none, none⟩ := by
  unfold fit
  by_cases hk : nIter ≤ 0
  · simp [hk, Except.map]
  · simp only [hk, if_false]
    by_cases hnnz : nnz = 0
    · simp [getAdjacencyValues, hnnz, Except.map]
    · have e1 : getAdjacencyValues n n nnz B { values := .arr l, init := init } = .ok ⟨n, B, l, false⟩ := by
        simp [getAdjacencyValues, hnnz, Values.isNone, getValues, hl]
      have e2 : getAdjacencyValues n n nnz (relabelMat πinv B) { values := .arr (relabelVec n πinv l), init := init }
          = .ok (relabelPrepared πinv ⟨n, B, l, false⟩) := by
        simp [getAdjacencyValues, hnnz, Values.isNone, getValues, relabelPrepared]
      rw [e1, e2]
      simp only
      rw [fitVector_relabel algo ⟨n, B, l, false⟩ hp hl]
      cases fitVector algo ⟨n, B, l, false⟩ init nIter.toNat α with
      | error e => simp [Except.map]
      | ok v => simp [Except.map, splitVars, relabelPrepared]

/-- **The harmonic limit is equivariant too**: if `h` is the harmonic function of a problem in which every node
reaches a seed and `h'` is harmonic for the renumbered problem, then `h'(π v) = h(v)` for every node `v`; and the
renumbered `h` *is* harmonic for the renumbered problem. -/
theorem harmonic_limit_equivariant (n : Nat) (w : Nat → Nat → Rat) (seed : Nat → Bool) (temp h h' : Nat → Rat)
    (π πinv : Nat → Nat) (hp : WL.IsPerm n π πinv)
    (hw : ∀ i j, i < n → j < n → 0 ≤ w i j)
    (hreach : ∀ i, i < n → ∃ t, ReachesSeed n w seed t i)
    (H : IsHarmonic n w seed temp h) :
    IsHarmonic n (relabelMat πinv w) (fun i => seed (πinv i)) (fun i => temp (πinv i)) (fun i => h (πinv i)) ∧
    (IsHarmonic n (relabelMat πinv w) (fun i => seed (πinv i)) (fun i => temp (πinv i)) h' →
      ∀ v, v < n → h' (π v) = h v) :=
  ⟨isHarmonic_relabel hp H, fun H' v hv =>
    Heat.harmonic_unique_of_reach hw hreach (isHarmonic_pullback hp H') H v hv⟩

/-- Non-vacuity: the rotation `v ↦ v+1 mod 3` on the weighted path 0 – 1 – 2 with seeds `[0, -1, 1]`: two Dirichlet
rounds and three Diffusion rounds on the renumbered problem return the renumbered values. -/
theorem rot3_isPerm : WL.IsPerm 3 (fun i => (i + 1) % 3) (fun i => (i + 2) % 3) := by
  refine ⟨fun i hi => Nat.mod_lt _ (by omega), fun i hi => Nat.mod_lt _ (by omega), fun i hi => ?_, fun i hi => ?_⟩ <;>
  · have : i = 0 ∨ i = 1 ∨ i = 2 := by omega
    rcases this with rfl | rfl | rfl <;> rfl

example : relabelVec 3 (fun i => (i + 2) % 3) [0, -1, 1] = [1, 0, -1] := by decide +kernel
example : (fitVector .dirichlet (relabelPrepared (fun i => (i + 2) % 3) ⟨3, pathW, [0, -1, 1], false⟩) none 2 0).toOption
    = some [1, 0, 3/4] ∧
    (fitVector .dirichlet ⟨3, pathW, [0, -1, 1], false⟩ none 2 0).toOption = some [0, 3/4, 1] := by decide +kernel
example : (fitVector .diffusion (relabelPrepared (fun i => (i + 2) % 3) ⟨3, pathW, [0, -1, 1], false⟩) none 3 (1/2)).toOption
    = (fitVector .diffusion ⟨3, pathW, [0, -1, 1], false⟩ none 3 (1/2)).toOption.map
        (relabelVec 3 (fun i => (i + 2) % 3)) := by decide +kernel

/-! ## soundness of the spec-line guards, non-vacuity of the contraction, the bipartite limit -/

/-- **The guards of the harmonic spec lines are sound.** When the driver's executable guards answer `true`
(non-negative weights, every node reaches a seed) and its executable check `isHarmonicB` accepts the solver's
proposal `h`, then `h` is harmonic in the sense of the theorems and every harmonic function for these boundary
values coincides with it on the `n` nodes: the spec line compares the implementation with *the* harmonic solution. -/
theorem spec_harmonic_guards_sound (n : Nat) (w : Nat → Nat → Rat) (s : Seeds) (h : List Rat)
    (hg1 : nonnegW n w = true) (hg2 : allReachSeed n w s = true) (hh : isHarmonicB n w s h = true) :
    IsHarmonic n w (isSeed s) (fun i => (seedTemp? s i).getD 0) (fun i => h.getD i 0) ∧
    ∀ h' : Nat → Rat, IsHarmonic n w (isSeed s) (fun i => (seedTemp? s i).getD 0) h' →
      ∀ i, i < n → h' i = h.getD i 0 := by
  have H := ((spec_isHarmonicB_iff n w s h).1 hh).2
  exact ⟨H, fun h' H' => Heat.harmonic_unique_of_reach (nonnegW_sound hg1) (allReachSeed_sound hg2) H' H⟩

/-- Non-vacuity: the guards and the check accept the weighted path with seeds `0 ↦ 0`, `2 ↦ 1` and `[0, 3/4, 1]`. -/
example : nonnegW 3 pathW = true ∧ allReachSeed 3 pathW [(0, 0), (2, 1)] = true ∧
    isHarmonicB 3 pathW [(0, 0), (2, 1)] [0, 3/4, 1] = true := by decide +kernel

/-- Non-vacuity of `dirichlet_nonexpansive` / `dirichlet_contracts`: on the weighted path 0 – 1 – 2 (weights 1, 3) with
boundary `[true, false, true]` and temperatures `[0, ·, 1]` the hypotheses hold with `h = [0, 3/4, 1]`, `δ = 1/4`,
`T = 1`; starting from `[0, 0, 1]` (distance 3/4) one round already reaches `h`. -/
example : IsHarmonic 3 pathW (fun i => [true, false, true].getD i false) (fun i => [0, -1, 1].getD i 0)
    (fun i => [0, 3/4, 1].getD i 0) := by
  intro i hi
  have : i = 0 ∨ i = 1 ∨ i = 2 := by omega
  rcases this with rfl | rfl | rfl <;> decide +kernel
example : ∀ i j, i < 3 → j < 3 → 0 < pathW i j → (1/4 : Rat) ≤ normalize 3 pathW i j := by
  intro i j hi hj
  have h1 : i = 0 ∨ i = 1 ∨ i = 2 := by omega
  have h2 : j = 0 ∨ j = 1 ∨ j = 2 := by omega
  rcases h1 with rfl | rfl | rfl <;> rcases h2 with rfl | rfl | rfl <;> decide +kernel
example : ∀ i, i < 3 → ReachesSeed 3 pathW (fun i => [true, false, true].getD i false) 1 i := by
  intro i hi
  have : i = 0 ∨ i = 1 ∨ i = 2 := by omega
  rcases this with rfl | rfl | rfl
  · exact .here (by omega) rfl
  · exact .step (j := 2) (by omega) (by decide +kernel) (.here (by omega) rfl)
  · exact .here (by omega) rfl
example : loop (dirichletStep 3 (mat 3 3 (normalize 3 pathW)) [0, -1, 1] [true, false, true]) 2 [0, 0, 1] = [0, 3/4, 1] := by
  decide +kernel

/-- **The limit clause for a biadjacency matrix**: when the bipartite graph `[[0,B],[Bᵀ,0]]` is connected (non-negative
weights) and at least one row or column carries a temperature, `values_row_` and `values_col_` of `Dirichlet` converge,
as `n_iter` grows, to the unique harmonic function of that graph (rows first, then columns). -/
theorem dirichlet_limit_connected_bipartite (nRow nCol nnz : Nat) (B : Nat → Nat → Rat) (a : Args) (α : Rat)
    (p : Prepared) (hprep : getAdjacencyValues nRow nCol nnz B a = .ok p) (hbip : p.bipartite = true)
    (hB : ∀ i j, 0 ≤ B i j) (hconn : Connected (nRow + nCol) (blockMat nRow B))
    (b : Nat) (hb : b < nRow + nCol) (hs : 0 ≤ p.seeds.getD b 0) :
    ∃ h : Nat → Rat,
      IsHarmonic (nRow + nCol) (blockMat nRow B) (fun i => decide (0 ≤ p.seeds.getD i 0)) (fun i => p.seeds.getD i 0) h ∧
      (∀ h' : Nat → Rat, IsHarmonic (nRow + nCol) (blockMat nRow B) (fun i => decide (0 ≤ p.seeds.getD i 0))
          (fun i => p.seeds.getD i 0) h' → ∀ i, i < nRow + nCol → h' i = h i) ∧
      ∀ ε : Rat, 0 < ε → ∃ K : Nat, ∀ nIter : Int, (K : Int) ≤ nIter →
        ∀ out, fit .dirichlet nRow nCol nnz B a nIter α = .ok out →
          ∃ r c, out.valuesRow = some r ∧ out.valuesCol = some c ∧ out.values = r ∧
            (∀ i, i < nRow → absQ (r.getD i 0 - h i) ≤ ε) ∧ (∀ j, j < nCol → absQ (c.getD j 0 - h (nRow + j)) ≤ ε) := by
  obtain ⟨_, _, hb1, _⟩ := getAdjacencyValues_ok hprep
  obtain ⟨hpn, hadj⟩ := hb1 hbip
  have hw : ∀ i j, i < nRow + nCol → j < nRow + nCol → 0 ≤ blockMat nRow B i j := fun i j _ _ => blockMat_nonneg hB i j
  have hreach : ∀ i, i < nRow + nCol → ∃ t, ReachesSeed (nRow + nCol) (blockMat nRow B)
      (fun i => decide (0 ≤ p.seeds.getD i 0)) t i := connected_reachesSeed hconn hb (by simpa using hs)
  obtain ⟨h, H, huniq⟩ := harmonic_exists_unique (nRow + nCol) (blockMat nRow B) (fun i => decide (0 ≤ p.seeds.getD i 0))
    (fun i => p.seeds.getD i 0) hw hreach
  refine ⟨h, H, huniq, fun ε hε => ?_⟩
  obtain ⟨K, hK⟩ := dirichlet_fit_converges_general nRow nCol nnz B a α p h hprep (by omega) hB
    (by rw [hpn, hadj]; exact hreach) (by rw [hpn, hadj]; exact H) ε hε
  refine ⟨K, fun nIter hk out hfit => ?_⟩
  obtain ⟨v, rfl, hvl, hv⟩ := hK nIter hk out hfit
  simp only [splitVars, hbip, if_true]
  refine ⟨v.take nRow, v.drop nRow, rfl, rfl, rfl, fun i hi => ?_, fun j hj => ?_⟩
  · rw [getD_take _ _ _ _ hi]; exact hv i (by omega)
  · rw [getD_drop]; exact hv (nRow + j) (by omega)

/-- Non-vacuity of `dirichlet_limit_connected_bipartite`: the 1×1 biadjacency matrix `[[2]]` with `values_row = {0: 3}`:
the routing is bipartite with seeds `[3, −1]`, the block graph on 2 nodes is connected, and `fit` returns. -/
example : (getAdjacencyValues 1 1 1 (fun _ _ => 2) { valuesRow := .dict [(0, 3)] }).toOption.map
    (fun p => (p.n, p.seeds, p.bipartite)) = some (2, [3, -1], true) := by decide +kernel
example : Connected 2 (blockMat 1 (fun _ _ => 2)) := by
  intro i j hi hj
  have hi' : i = 0 ∨ i = 1 := by omega
  have hj' : j = 0 ∨ j = 1 := by omega
  rcases hi' with rfl | rfl <;> rcases hj' with rfl | rfl
  · exact .refl (by omega)
  · exact .head (k := 1) (by omega) (by decide +kernel) (.refl (by omega))
  · exact .head (k := 0) (by omega) (by decide +kernel) (.refl (by omega))
  · exact .refl (by omega)
example : (fit .dirichlet 1 1 1 (fun _ _ => 2) { valuesRow := .dict [(0, 3)] } 5 0).toOption
    = some ⟨[3], some [3], some [3]⟩ := by decide +kernel

/-- **fit_returns (dict form)**: on a square non-empty matrix, a non-empty dict with distinct nodes `< n`, `n_iter ≥ 1`
and either an `init` or an entry with a temperature `≥ 0`: both estimators return. -/
theorem fit_returns_dict (algo : Algo) (n nnz : Nat) (B : Nat → Nat → Rat) (kv : List (Nat × Rat)) (init : Option Rat)
    (nIter : Int) (α : Rat) (hne : kv ≠ []) (hk : ∀ e, e ∈ kv → e.1 < n) (hnd : (kv.map (·.1)).Nodup)
    (hpos : 0 < nIter) (hnnz : nnz ≠ 0) (hseed : init.isSome ∨ ∃ e, e ∈ kv ∧ 0 ≤ e.2) :
    ∃ out, fit algo n n nnz B { values := .dict (toKV kv), init := init } nIter α = .ok out := by
  have hsame := sameValues_dict_arr (n := n) hne hk hnd
  have hc := fit_congr (algo := algo) (nRow := n) (nCol := n) (nnz := nnz) (B := B) (nIter := nIter) (α := α)
    (a := { values := .dict (toKV kv), init := init }) (a' := { values := .arr (seedsArray n kv (-1)), init := init })
    hsame (SameValues.refl n .none) (SameValues.refl n .none) rfl rfl
  rw [hc]
  refine (fit_returns algo n nnz B (seedsArray n kv (-1)) init nIter α).1 hpos hnnz (by simp [seedsArray]) ?_
  rcases hseed with h | ⟨e, he, hpos'⟩
  · exact Or.inl h
  · right
    refine ⟨e.1, hk e he, ?_⟩
    obtain ⟨r, hr, _, hin, _⟩ := getValues_dict_nodup (d := -1) hne hk hnd
    have harr := getValues_dict_eq_array (d := -1) hne hk hnd
    rw [hr] at harr
    cases harr
    rw [hin e he]; exact hpos'

/-! ## scale invariance -/

/-- **fit_scale_invariant**. Multiplying every weight by the same `c > 0` (1e-9, 1e+12, …) changes nothing:
`normalize(c·A) = normalize(A)` — a row is null only if all its weights are 0, however small they are — so both
estimators return the same `values_`, `values_row_`, `values_col_` (and the same errors) for the rescaled graph, for
every input form, `init`, damping factor and `n_iter`. -/
theorem fit_scale_invariant (c : Rat) (hc : 0 < c) (algo : Algo) (nRow nCol nnz : Nat) (B : Nat → Nat → Rat) (a : Args)
    (nIter : Int) (α : Rat) :
    normalize nCol (fun i j => c * B i j) = normalize nCol B ∧
    fit algo nRow nCol nnz (fun i j => c * B i j) a nIter α = fit algo nRow nCol nnz B a nIter α :=
  ⟨normalize_scale hc nCol B, fit_scale hc algo nRow nCol nnz B a nIter α⟩

/-- Non-vacuity: the weighted path with all weights multiplied by 10⁻⁹, and a node attached by an edge of weight
2·10⁻⁹ next to weights of order 1: its row of `normalize` is not null and Dirichlet gives it its neighbour's value. -/
example : (fit .dirichlet 3 3 4 (fun i j => (1 / 1000000000) * pathW i j) { values := .dict [(0, 0), (2, 1)] } 2 0).toOption.map
    (·.values) = some [0, 3/4, 1] := by decide +kernel
example : (fit .dirichlet 3 3 4 (fun i j => if (i, j) = (0, 1) ∨ (i, j) = (1, 0) then 1
      else if (i, j) = (1, 2) ∨ (i, j) = (2, 1) then 2 / 1000000000 else 0) { values := .dict [(0, 1), (1, 2)] } 3 0).toOption.map
    (·.values) = some [1, 2, 2] := by decide +kernel

end SkNet.C14
