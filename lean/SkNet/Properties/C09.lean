/-
C09 — Spectral and SVD embeddings satisfy the equations that define them.

All theorems are about the executable model `SkNet/Model/Embedding.lean` (the one the driver runs with `Float`
against the implementation on every check), for an arbitrary linearly ordered field `α` (ℚ, ℝ, …).  The two
non-field functions of the code enter as the record `F : Fn α` (`F.sqrt`, `F.pow`); what the theorems need of them
is stated as hypotheses on the values they are actually applied to (`F.sqrt d * F.sqrt d = d` …), so that the
examples can instantiate them over ℚ.  ARPACK is the parameter `solver`; its contract (`IsEigenpairs`,
`IsSingularTriplets`) is a hypothesis and is checked on every captured solver output by the `contract` lines.
-/
import Mathlib.Algebra.Order.Field.Rat
import Mathlib.Analysis.Real.Sqrt
import Mathlib.Analysis.SpecialFunctions.Pow.Real
import Mathlib.Data.Matrix.Mul
import Mathlib.Algebra.BigOperators.Fin
import SkNet.Lemmas.EmbeddingSpectral
import SkNet.Lemmas.EmbeddingNormalize
import SkNet.Lemmas.EmbeddingGsvd
import SkNet.Lemmas.EmbeddingRp
import SkNet.Lemmas.EmbeddingLouvain
import SkNet.Lemmas.EmbeddingConnected

set_option linter.unusedSectionVars false

open Finset

namespace SkNet.C09
open SkNet SkNet.Embedding

variable {α : Type} [Field α] [LinearOrder α] [IsStrictOrderedRing α]

/-! ### automatic regularisation only when disconnected -/

/-- **`regularization_rule`**: the Laplacian / multiplier is regularised iff the parameter is positive, or it is
    negative and the graph is not (strongly) connected; the factor then is the parameter, resp. its absolute value. -/
theorem regularization_rule (reg : α) (connected : Bool) :
    (0 < getRegularization reg connected ↔ (0 < reg ∨ (reg < 0 ∧ connected = false))) ∧
    (0 < reg → getRegularization reg connected = reg) ∧
    (reg < 0 → connected = false → getRegularization reg connected = -reg) ∧
    (reg < 0 → connected = true → getRegularization reg connected = 0) := by
  unfold getRegularization absv
  refine ⟨?_, ?_, ?_, ?_⟩
  · by_cases h : reg < 0
    · cases connected
      · simp [h]
      · simp [h]; exact le_of_lt h
    · simp [h]
  · intro h; simp [not_lt.mpr (le_of_lt h)]
  · intro h hc; simp [h, hc]
  · intro h hc; simp [h, hc]

/-- **the connectivity test is exact**: `stronglyConnected n a` (relaxation rounds from node 0 in the graph and in the
    reversed graph, `n` rounds each) answers `true` iff every node reaches every node along non-zero entries. -/
theorem stronglyConnected_iff (n : Nat) (hn : 0 < n) (a : Mat α) :
    stronglyConnected n a = true ↔ ∀ u v, u < n → v < n → Reach n (nzEdge a) u v :=
  ⟨fun h u v hu hv => stronglyConnected_sound n hn a h u v hu hv, stronglyConnected_complete n hn a⟩

/-- **`regularization_rule` on the graph**: `Spectral.fit` / `RandomProjection.fit` regularise iff the parameter is
    positive, or it is negative and some node does not reach some other node. -/
theorem regularization_rule_graph (n : Nat) (hn : 0 < n) (a : Mat α) (reg : α) :
    0 < getRegularization reg (stronglyConnected n a) ↔
      (0 < reg ∨ (reg < 0 ∧ ∃ u v, u < n ∧ v < n ∧ ¬ Reach n (nzEdge a) u v)) := by
  rw [(regularization_rule reg (stronglyConnected n a)).1]
  have hiff := stronglyConnected_iff n hn a
  constructor
  · rintro (h | ⟨h, hc⟩)
    · exact Or.inl h
    · refine Or.inr ⟨h, ?_⟩
      by_contra hne
      have : stronglyConnected n a = true := hiff.mpr fun u v hu hv => by
        by_contra hr
        exact hne ⟨u, v, hu, hv, hr⟩
      rw [this] at hc; cases hc
  · rintro (h | ⟨h, u, v, hu, hv, hr⟩)
    · exact Or.inl h
    · refine Or.inr ⟨h, ?_⟩
      cases hsc : stronglyConnected n a
      · rfl
      · exact absurd (hiff.mp hsc u v hu hv) hr

/-- **specification and model apply the same regularisation**: the effective regularisation computed by the
    specification (Warshall closure, used by the `spec` lines) is the one `_get_regularization` of the model computes
    (relaxation rounds) — both decide reachability exactly. -/
theorem effectiveReg_eq (n : Nat) (hn : 0 < n) (a : Mat α) (reg : α) :
    Spec.effectiveReg n a reg = getRegularization reg (stronglyConnected n a) ∧
    (Spec.stronglyConnected n a = true ↔ ∀ u v, u < n → v < n → Reach n (nzEdge a) u v) := by
  have heq := spec_stronglyConnected_eq n hn a
  constructor
  · unfold Spec.effectiveReg getRegularization absv
    rw [heq]
    by_cases h : reg < 0
    · simp only [h, if_true]
      cases stronglyConnected n a <;> simp
    · simp only [h, if_false]
  · rw [heq]; exact stronglyConnected_iff n hn a

example : stronglyConnected 3 ([[0, 1, 0], [0, 0, 1], [1, 0, 0]] : Mat ℚ) = true ∧
    stronglyConnected 3 ([[0, 1, 0], [0, 0, 1], [0, 0, 0]] : Mat ℚ) = false := by decide +kernel

example : getRegularization (-1 : ℚ) false = 1 ∧ getRegularization (-1 : ℚ) true = 0 ∧
    getRegularization (2 : ℚ) false = 2 := by decide

/-! ### normalisation -/

/-- **`normalize_unit`**: after `normalize(·, p=2)` every row with a non-zero entry has squared Euclidean norm 1
    and every null row stays null (`F.sqrt` has to square back on the squared norm of the row). -/
theorem normalize_unit (F : Fn α) (n k : Nat) (m : Mat α) (i : Nat) (hi : i < n)
    (hsq : F.sqrt (sqNorm k m i) * F.sqrt (sqNorm k m i) = sqNorm k m i) :
    ((∃ j, j < k ∧ mget m i j ≠ 0) → sqNorm k (normalize2 F n k m) i = 1) ∧
    ((∀ j, j < k → mget m i j = 0) → ∀ j, mget (normalize2 F n k m) i j = 0) :=
  ⟨normalize2_nonnull_unit F n k m i hi hsq, normalize2_null_of_null F n k m i⟩

/-! ### the Laplacian operator -/

/-- **`laplacian_operator_denote`**: `Laplacian(adjacency, reg, normalized).dot(x)` of the model is
    `(D_reg − A_reg) x`, resp. `S (D_reg − A_reg) S x` with `S = diag(norm_diag)`, where
    `A_reg = A + reg·11ᵀ/n` and `D_reg = diag(A_reg 1)` are the matrices of the specification. -/
theorem laplacian_operator_denote (F : Fn α) (n : Nat) (hn : 0 < n) (a : Mat α) (reg : α)
    (x : Vec α) (i : Nat) (hi : i < n) :
    vget (lapMatvec (lapInit F n a reg false) a x) i = Spec.lapApply n a reg (vget x) i ∧
    vget (lapMatvec (lapInit F n a reg true) a x) i
      = vget (lapInit F n a reg true).normDiag i
        * Spec.lapApply n a reg (fun j => vget (lapInit F n a reg true).normDiag j * vget x j) i ∧
    vget (lapInit F n a reg true).normDiag i = pinv (F.sqrt (Spec.degReg n a reg i)) := by
  refine ⟨lapMatvec_plain F n hn a reg x i hi, lapMatvec_normalized F n hn a reg x i hi, ?_⟩
  rw [lapInit_normDiag F n a reg i hi, degReg_eq n hn]

/-! ### the graph `Spectral.fit` works on -/

/-- **routing and symmetry** (`get_adjacency(allow_directed=False)`): the input is treated as a biadjacency matrix iff
    this is forced, or it is not square, or it is not symmetric; the adjacency matrix handed to the Laplacian is then
    `[[0,B],[Bᵀ,0]]`, otherwise the input itself — in both cases a symmetric matrix (what `eigsh` presupposes). -/
theorem spectral_adjacency_symmetric (nRow nCol : Nat) (b : Mat α) (fb : Bool) :
    ((getAdjacency nRow nCol b false fb).1 = true ↔ (fb = true ∨ nRow ≠ nCol ∨ isSymmetric nRow b = false)) ∧
    (getAdjacency nRow nCol b false fb).2.1 = (if (getAdjacency nRow nCol b false fb).1 then nRow + nCol else nRow) ∧
    ∀ i j, i < (getAdjacency nRow nCol b false fb).2.1 → j < (getAdjacency nRow nCol b false fb).2.1 →
      mget (getAdjacency nRow nCol b false fb).2.2 i j = mget (getAdjacency nRow nCol b false fb).2.2 j i := by
  unfold getAdjacency
  by_cases hb : (fb || nRow != nCol || !(false || isSymmetric nRow b)) = true
  · simp only [hb, if_true]
    refine ⟨?_, by simp, ?_⟩
    · simp only [true_iff]
      simp only [Bool.or_eq_true, bne_iff_ne, ne_eq, Bool.not_eq_true', Bool.false_or] at hb
      rcases hb with (h | h) | h
      · exact Or.inl h
      · exact Or.inr (Or.inl h)
      · exact Or.inr (Or.inr h)
    · intro i j hi hj
      simp only [blockAdj, mget_mkMat, hi, hj, if_true]
      by_cases h1 : i < nRow <;> by_cases h2 : j < nRow <;> simp [h1, h2]
  · simp only [hb, if_false, Bool.false_eq_true]
    simp only [Bool.or_eq_true, bne_iff_ne, ne_eq, Bool.not_eq_true', Bool.false_or, not_or, Bool.not_eq_false,
      not_not] at hb
    obtain ⟨⟨h1, h2⟩, h3⟩ := hb
    refine ⟨?_, by simp, ?_⟩
    · constructor
      · intro h; cases h
      · rintro (h | h | h)
        · exact absurd h h1
        · exact absurd h2 h
        · rw [h3] at h; cases h
    · intro i j hi hj
      unfold isSymmetric at h3
      rw [List.all_eq_true] at h3
      have := h3 i (List.mem_range.mpr hi)
      rw [List.all_eq_true] at this
      exact beq_iff_eq.mp (this j (List.mem_range.mpr hj))

/-- **the Laplacian of a symmetric matrix is self-adjoint** (`Laplacian._transpose` returns the operator itself, and
    `eigsh` is given a symmetric operator): `⟨y, L x⟩ = ⟨x, L y⟩` for `L = D_reg − A_reg` when `A` is symmetric. -/
theorem laplacian_self_adjoint (n : Nat) (a : Mat α) (reg : α) (hsym : ∀ i j, i < n → j < n → mget a i j = mget a j i)
    (x y : Nat → α) :
    ∑ i ∈ range n, y i * Spec.lapApply n a reg x i = ∑ i ∈ range n, x i * Spec.lapApply n a reg y i := by
  simp only [Spec.lapApply, sumN_eq_sum, mul_sub, Finset.sum_sub_distrib, Finset.mul_sum]
  congr 1
  · exact Finset.sum_congr rfl fun i _ => by ring
  · rw [Finset.sum_comm]
    refine Finset.sum_congr rfl fun i hi => Finset.sum_congr rfl fun j hj => ?_
    simp only [Spec.aReg]
    rw [hsym j i (Finset.mem_range.mp hj) (Finset.mem_range.mp hi)]
    ring

/-- **the trivial pair**: on a node of non-zero (regularised) degree the constant vector is reproduced by the
    transition matrix, and it is annihilated by the Laplacian — `(1, 1)` resp. `(0, 1)` is the pair that the
    documentation calls "the first", the one `Spectral` skips. -/
theorem trivial_pair (n : Nat) (a : Mat α) (reg : α) (i : Nat) :
    (Spec.degReg n a reg i ≠ 0 → Spec.transApply n a reg (fun _ => 1) i = 1) ∧
    Spec.lapApply n a reg (fun _ => 1) i = 0 := by
  constructor
  · intro hd
    simp only [Spec.transApply, mul_one]
    change pinv (Spec.degReg n a reg i) * Spec.degReg n a reg i = 1
    exact pinv_mul_self hd
  · simp only [Spec.lapApply, mul_one]
    change Spec.degReg n a reg i - Spec.degReg n a reg i = 0
    ring

/-- **a non-trivial pair is orthogonal to the trivial one**: on a symmetric graph without node of zero (regularised)
    degree, an eigenvector of `P = D_reg⁻¹A_reg` for an eigenvalue `λ ≠ 1` satisfies `Σ_i d_i v_i = 0`, and an
    eigenvector of `L = D_reg − A_reg` for `λ ≠ 0` satisfies `Σ_i v_i = 0` (this is what the spec lines test to see that
    the skipped pair is the trivial one). -/
theorem nontrivial_pair_orthogonal (n : Nat) (a : Mat α) (reg : α)
    (hsym : ∀ i j, i < n → j < n → mget a i j = mget a j i) (v : Nat → α) (lam : α) :
    ((∀ i, i < n → Spec.degReg n a reg i ≠ 0) → (∀ i, i < n → Spec.transApply n a reg v i = lam * v i) → lam ≠ 1 →
      ∑ i ∈ range n, Spec.degReg n a reg i * v i = 0) ∧
    ((∀ i, i < n → Spec.lapApply n a reg v i = lam * v i) → lam ≠ 0 → ∑ i ∈ range n, v i = 0) := by
  have hsymR : ∀ i j, i < n → j < n → Spec.aReg n a reg i j = Spec.aReg n a reg j i := by
    intro i j hi hj; simp only [Spec.aReg]; rw [hsym i j hi hj]
  -- column sums of A_reg are its row sums
  have hcol : ∑ i ∈ range n, ∑ j ∈ range n, Spec.aReg n a reg i j * v j
      = ∑ j ∈ range n, Spec.degReg n a reg j * v j := by
    rw [Finset.sum_comm]
    refine Finset.sum_congr rfl fun j hj => ?_
    simp only [Spec.degReg, sumN_eq_sum, Finset.sum_mul]
    exact Finset.sum_congr rfl fun i hi => by
      rw [hsymR i j (Finset.mem_range.mp hi) (Finset.mem_range.mp hj)]
  constructor
  · intro hd heig hne
    have h1 : ∑ i ∈ range n, Spec.degReg n a reg i * (lam * v i)
        = ∑ i ∈ range n, ∑ j ∈ range n, Spec.aReg n a reg i j * v j := by
      refine Finset.sum_congr rfl fun i hi => ?_
      have hi' := Finset.mem_range.mp hi
      rw [← heig i hi', Spec.transApply, sumN_eq_sum, ← mul_assoc, mul_comm (Spec.degReg n a reg i),
        pinv_mul_self (hd i hi'), one_mul]
    rw [hcol] at h1
    have h3 : lam * ∑ i ∈ range n, Spec.degReg n a reg i * v i = ∑ i ∈ range n, Spec.degReg n a reg i * v i := by
      rw [Finset.mul_sum]
      refine Eq.trans ?_ h1
      exact Finset.sum_congr rfl fun i _ => by ring
    have h2 : (lam - 1) * ∑ i ∈ range n, Spec.degReg n a reg i * v i = 0 := by
      rw [sub_mul, one_mul, h3, sub_self]
    rcases mul_eq_zero.mp h2 with h | h
    · exact absurd (sub_eq_zero.mp h) hne
    · exact h
  · intro heig hne
    have h1 : ∑ i ∈ range n, lam * v i = 0 := by
      have : ∑ i ∈ range n, lam * v i = ∑ i ∈ range n, Spec.lapApply n a reg v i :=
        Finset.sum_congr rfl fun i hi => (heig i (Finset.mem_range.mp hi)).symm
      rw [this]
      simp only [Spec.lapApply, sumN_eq_sum, Finset.sum_sub_distrib]
      rw [hcol]; ring
    rw [← Finset.mul_sum] at h1
    rcases mul_eq_zero.mp h1 with h | h
    · exact absurd h hne
    · exact h

/-! ### Spectral -/

section spectral
variable (F : Fn α) (nRow nCol : Nat) (b : Mat α) (nnz : Nat) (fb : Bool) (nc : Int) (regParam : α) (nm : Bool)
  (solver : LapOp α → Mat α → Nat → Vec α × Mat α)

/-- number of nodes of the graph `Spectral.fit` works on (rows + columns on the bipartite route) -/
abbrev spN : Nat := (getAdjacency nRow nCol b false fb).2.1
/-- its adjacency matrix (`[[0,B],[Bᵀ,0]]` on the bipartite route) -/
abbrev spAdj : Mat α := (getAdjacency nRow nCol b false fb).2.2
/-- the regularisation actually applied -/
abbrev spReg : α := getRegularization regParam (stronglyConnected (spN nRow nCol b fb) (spAdj nRow nCol b fb))
/-- the operator handed to the solver -/
abbrev spOp (rw : Bool) : LapOp α := lapInit F (spN nRow nCol b fb) (spAdj nRow nCol b fb) (spReg nRow nCol b fb regParam) rw
/-- number of pairs asked from the solver -/
abbrev spK : Nat := (spectralK nc (spN nRow nCol b fb)).toNat
/-- what the solver returned -/
abbrev spSol (rw : Bool) : Vec α × Mat α :=
  solver (spOp F nRow nCol b fb regParam rw) (spAdj nRow nCol b fb) (spK nRow nCol b fb nc)

/-- a successful `Spectral.fit` is `spectralPost` of the solver output on a graph with at least two nodes -/
theorem spectralFit_ok (rw : Bool) {out : SpectralOut α}
    (h : spectralFit F nRow nCol b nnz fb nc rw regParam nm solver = .ok out) :
    2 ≤ spN nRow nCol b fb ∧
    out.eigenvalues = (spectralPost F (spN nRow nCol b fb) (spOp F nRow nCol b fb regParam rw) rw nm
        (spSol F nRow nCol b fb nc regParam solver rw).1 (spSol F nRow nCol b fb nc regParam solver rw).2).1 ∧
    out.eigenvectors = (spectralPost F (spN nRow nCol b fb) (spOp F nRow nCol b fb regParam rw) rw nm
        (spSol F nRow nCol b fb nc regParam solver rw).1 (spSol F nRow nCol b fb nc regParam solver rw).2).2.1 := by
  unfold spectralFit at h
  split at h
  · cases h
  · dsimp only at h
    split at h
    · cases h
    · rename_i hk
      have hout := Except.ok.inj h
      refine ⟨?_, ?_, ?_⟩
      · have : 0 < spectralK nc (spN nRow nCol b fb) := by
          simpa using hk
        unfold spectralK checkNComponents at this
        split at this <;> omega
      · rw [← hout]; unfold spectralResult; split <;> rfl
      · rw [← hout]; unfold spectralResult; split <;> rfl

/-- **C09 / Spectral, `decomposition='rw'`.**  If `fit` succeeds and the solver output satisfies its contract for
    the operator it was given, every returned pair is an eigenpair of the (regularised) random-walk transition
    matrix `P = D⁻¹(A + α 11ᵀ/n)` of the graph: `P · eigenvectors_[:, c] = eigenvalues_[c] · eigenvectors_[:, c]`. -/
theorem spectral_rw_eigen {out : SpectralOut α}
    (h : spectralFit F nRow nCol b nnz fb nc true regParam nm solver = .ok out)
    (hsq : ∀ i, i < spN nRow nCol b fb →
      let d := (∑ j ∈ range (spN nRow nCol b fb), mget (spAdj nRow nCol b fb) i j) + spReg nRow nCol b fb regParam
      F.sqrt d * F.sqrt d = d)
    (hsol : IsEigenpairs (spOp F nRow nCol b fb regParam true) (spAdj nRow nCol b fb)
      (spSol F nRow nCol b fb nc regParam solver true).1 (spSol F nRow nCol b fb nc regParam solver true).2)
    (c : Nat) (hc : c < out.eigenvalues.length) (i : Nat) (hi : i < spN nRow nCol b fb) :
    Spec.transApply (spN nRow nCol b fb) (spAdj nRow nCol b fb) (spReg nRow nCol b fb regParam)
        (fun j => mget out.eigenvectors j c) i
      = vget out.eigenvalues c * mget out.eigenvectors i c := by
  obtain ⟨hn, hval, hvec⟩ := spectralFit_ok F nRow nCol b nnz fb nc regParam nm solver true h
  rw [hval] at hc ⊢
  rw [hvec]
  exact spectralPost_rw_eigen F _ (by omega) _ _ nm hsq _ _ hsol c hc i hi

/-- the regularised random-walk transition matrix `D_reg⁺ (A + α 11ᵀ/n)` as a Mathlib matrix -/
def transitionMatrix (n : Nat) (a : Mat α) (reg : α) : Matrix (Fin n) (Fin n) α :=
  Matrix.of fun i j => pinv (Spec.degReg n a reg i) * Spec.aReg n a reg i j

/-- the regularised Laplacian `D_reg − A_reg` as a Mathlib matrix -/
def laplacianMatrix (n : Nat) (a : Mat α) (reg : α) : Matrix (Fin n) (Fin n) α :=
  Matrix.of fun i j => (if i = j then Spec.degReg n a reg i else 0) - Spec.aReg n a reg i j

theorem transApply_eq_mulVec (n : Nat) (a : Mat α) (reg : α) (v : Nat → α) (i : Fin n) :
    Spec.transApply n a reg v i = (transitionMatrix n a reg).mulVec (fun j : Fin n => v j) i := by
  simp only [Spec.transApply, transitionMatrix, Matrix.mulVec, dotProduct, Matrix.of_apply, sumN_eq_sum,
    Finset.mul_sum, Fin.sum_univ_eq_sum_range (fun j => pinv (Spec.degReg n a reg i) * Spec.aReg n a reg i j * v j) n]
  exact Finset.sum_congr rfl fun j _ => by ring

theorem lapApply_eq_mulVec (n : Nat) (a : Mat α) (reg : α) (v : Nat → α) (i : Fin n) :
    Spec.lapApply n a reg v i = (laplacianMatrix n a reg).mulVec (fun j : Fin n => v j) i := by
  simp only [Spec.lapApply, laplacianMatrix, Matrix.mulVec, dotProduct, Matrix.of_apply, sumN_eq_sum, sub_mul,
    Finset.sum_sub_distrib, ite_mul, zero_mul]
  rw [Finset.sum_ite_eq Finset.univ i, if_pos (Finset.mem_univ i),
    Fin.sum_univ_eq_sum_range (fun j => Spec.aReg n a reg i j * v j) n]

/-- **C09 / Spectral in matrix form.**  The columns of `eigenvectors_` are eigenvectors of the Mathlib matrix
    `P = D_reg⁺(A + α11ᵀ/n)`: `P *ᵥ v_c = eigenvalues_[c] • v_c`. -/
theorem spectral_rw_eigen_matrix {out : SpectralOut α}
    (h : spectralFit F nRow nCol b nnz fb nc true regParam nm solver = .ok out)
    (hsq : ∀ i, i < spN nRow nCol b fb →
      let d := (∑ j ∈ range (spN nRow nCol b fb), mget (spAdj nRow nCol b fb) i j) + spReg nRow nCol b fb regParam
      F.sqrt d * F.sqrt d = d)
    (hsol : IsEigenpairs (spOp F nRow nCol b fb regParam true) (spAdj nRow nCol b fb)
      (spSol F nRow nCol b fb nc regParam solver true).1 (spSol F nRow nCol b fb nc regParam solver true).2)
    (c : Nat) (hc : c < out.eigenvalues.length) :
    (transitionMatrix (spN nRow nCol b fb) (spAdj nRow nCol b fb) (spReg nRow nCol b fb regParam)).mulVec
        (fun j : Fin (spN nRow nCol b fb) => mget out.eigenvectors j c)
      = vget out.eigenvalues c • (fun i : Fin (spN nRow nCol b fb) => mget out.eigenvectors i c) := by
  funext i
  rw [← transApply_eq_mulVec _ _ _ (fun j => mget out.eigenvectors j c) i]
  exact spectral_rw_eigen F nRow nCol b nnz fb nc regParam nm solver h hsq hsol c hc i i.isLt

/-- **C09 / Spectral, `decomposition='laplacian'`.**  Same for the (regularised) Laplacian `L = D − A`. -/
theorem spectral_laplacian_eigen {out : SpectralOut α}
    (h : spectralFit F nRow nCol b nnz fb nc false regParam nm solver = .ok out)
    (hsol : IsEigenpairs (spOp F nRow nCol b fb regParam false) (spAdj nRow nCol b fb)
      (spSol F nRow nCol b fb nc regParam solver false).1 (spSol F nRow nCol b fb nc regParam solver false).2)
    (c : Nat) (hc : c < out.eigenvalues.length) (i : Nat) (hi : i < spN nRow nCol b fb) :
    Spec.lapApply (spN nRow nCol b fb) (spAdj nRow nCol b fb) (spReg nRow nCol b fb regParam)
        (fun j => mget out.eigenvectors j c) i
      = vget out.eigenvalues c * mget out.eigenvectors i c := by
  obtain ⟨hn, hval, hvec⟩ := spectralFit_ok F nRow nCol b nnz fb nc regParam nm solver false h
  rw [hval] at hc ⊢
  rw [hvec]
  exact spectralPost_laplacian_eigen F _ (by omega) _ _ nm _ _ hsol c hc i hi

/-- **C09 / Spectral in matrix form, Laplacian.** `L *ᵥ v_c = eigenvalues_[c] • v_c` for `L = D_reg − A_reg`. -/
theorem spectral_laplacian_eigen_matrix {out : SpectralOut α}
    (h : spectralFit F nRow nCol b nnz fb nc false regParam nm solver = .ok out)
    (hsol : IsEigenpairs (spOp F nRow nCol b fb regParam false) (spAdj nRow nCol b fb)
      (spSol F nRow nCol b fb nc regParam solver false).1 (spSol F nRow nCol b fb nc regParam solver false).2)
    (c : Nat) (hc : c < out.eigenvalues.length) :
    (laplacianMatrix (spN nRow nCol b fb) (spAdj nRow nCol b fb) (spReg nRow nCol b fb regParam)).mulVec
        (fun j : Fin (spN nRow nCol b fb) => mget out.eigenvectors j c)
      = vget out.eigenvalues c • (fun i : Fin (spN nRow nCol b fb) => mget out.eigenvectors i c) := by
  funext i
  rw [← lapApply_eq_mulVec _ _ _ (fun j => mget out.eigenvectors j c) i]
  exact spectral_laplacian_eigen F nRow nCol b nnz fb nc regParam nm solver h hsol c hc i i.isLt

/-- **C09 / Spectral, order and the skipped pair.**  `eigenvalues_` is in increasing order for the Laplacian and in
    decreasing order for the random walk; exactly one solver pair is not returned. -/
theorem spectral_order (rw : Bool) {out : SpectralOut α}
    (h : spectralFit F nRow nCol b nnz fb nc rw regParam nm solver = .ok out) :
    (if rw then out.eigenvalues.Pairwise (· ≥ ·) else out.eigenvalues.Pairwise (· ≤ ·)) ∧
    out.eigenvalues.length = (spSol F nRow nCol b fb nc regParam solver rw).1.length - 1 := by
  obtain ⟨_, hval, _⟩ := spectralFit_ok F nRow nCol b nnz fb nc regParam nm solver rw h
  rw [hval]
  refine ⟨?_, spectralPost_length F _ _ rw nm _ _⟩
  cases rw
  · simpa using spectralPost_order_laplacian F _ _ nm _ _
  · simpa using spectralPost_order_rw F _ _ nm _ _

/-- (unfolding of the model, used below) the embedding is `normalize2` of the matrix of eigenvectors when `normalized` -/
theorem spectral_embedding (rw : Bool) (op : LapOp α) (n : Nat) (values : Vec α) (vectors : Mat α) :
    (spectralPost F n op rw nm values vectors).2.2
      = if nm then normalize2 F n (spectralPost F n op rw nm values vectors).1.length
                    (spectralPost F n op rw nm values vectors).2.1
        else (spectralPost F n op rw nm values vectors).2.1 := by
  cases rw <;> cases nm <;> simp [spectralPost]

/-- **C09 / Spectral, the embedding**: entry by entry, the (full, rows then columns) embedding is the matrix
    `eigenvectors_` with every row divided by its Euclidean norm (`Spec.normalizedEntry`: null rows stay null) when
    `normalized`, and `eigenvectors_` itself otherwise. -/
theorem spectral_embedding_spec (rw : Bool) (op : LapOp α) (n : Nat) (values : Vec α) (vectors : Mat α)
    (i c : Nat) (hi : i < n) (hc : c < (spectralPost F n op rw nm values vectors).1.length) :
    mget (spectralPost F n op rw nm values vectors).2.2 i c
      = if nm then Spec.normalizedEntry F (spectralPost F n op rw nm values vectors).1.length
                    (spectralPost F n op rw nm values vectors).2.1 i c
        else mget (spectralPost F n op rw nm values vectors).2.1 i c := by
  rw [spectral_embedding F nm rw op n values vectors]
  cases nm
  · simp
  · simp only [if_true]
    exact normalize2_eq_normalizedEntry F n _ _ i c hi hc

/-- **C09 / Spectral, the vectors keep their normalisation**: when no regularised degree is zero, the
    degree-weighted products of the returned `eigenvectors_` (random-walk decomposition, `v = D^{-1/2}u`) are the
    Euclidean products of the solver's vectors — an orthonormal solver output gives `Σ_i d_i v_ic v_ic' = δ_cc'`. -/
theorem spectral_rw_dorthonormal (n : Nat) (a : Mat α) (reg : α)
    (hsq : ∀ i, i < n → F.sqrt ((∑ j ∈ range n, mget a i j) + reg) * F.sqrt ((∑ j ∈ range n, mget a i j) + reg)
                        = (∑ j ∈ range n, mget a i j) + reg)
    (hpos : ∀ i, i < n → F.sqrt ((∑ j ∈ range n, mget a i j) + reg) ≠ 0)
    (values : Vec α) (vectors : Mat α) (c c' : Nat)
    (hc : c < (spectralPost F n (lapInit F n a reg true) true nm values vectors).1.length)
    (hc' : c' < (spectralPost F n (lapInit F n a reg true) true nm values vectors).1.length) :
    ∑ i ∈ range n, ((∑ j ∈ range n, mget a i j) + reg)
        * mget (spectralPost F n (lapInit F n a reg true) true nm values vectors).2.1 i c
        * mget (spectralPost F n (lapInit F n a reg true) true nm values vectors).2.1 i c'
      = ∑ i ∈ range n, mget vectors i (((argsort values).drop 1).getD c 0)
          * mget vectors i (((argsort values).drop 1).getD c' 0) := by
  have hlen : c < ((argsort values).drop 1).length := by
    have := hc; simp only [spectralPost, if_true, List.length_map] at this; exact this
  have hlen' : c' < ((argsort values).drop 1).length := by
    have := hc'; simp only [spectralPost, if_true, List.length_map] at this; exact this
  refine Finset.sum_congr rfl fun i hi => ?_
  have hi' := Finset.mem_range.mp hi
  simp only [spectralPost, if_true]
  rw [mget_mkMat_lt _ hi' hlen, mget_mkMat_lt _ hi' hlen', mget_selectCols n vectors _ i c hi' hlen,
    mget_selectCols n vectors _ i c' hi' hlen', lapInit_normDiag F n a reg i hi']
  exact dinner_of_sqrt (hsq i hi') (hpos i hi') _ _

/-- **C09 / Spectral, unit norm.**  With `normalized=True` every row of the embedding whose eigenvector row is
    non-null has Euclidean norm 1, and a null row (isolated node without regularisation) stays null. -/
theorem spectral_unit_norm (rw : Bool) (op : LapOp α) (n : Nat) (values : Vec α) (vectors : Mat α) (i : Nat) (hi : i < n)
    (hsq : let kk := (spectralPost F n op rw true values vectors).1.length
           let e := (spectralPost F n op rw true values vectors).2.1
           F.sqrt (sqNorm kk e i) * F.sqrt (sqNorm kk e i) = sqNorm kk e i) :
    let kk := (spectralPost F n op rw true values vectors).1.length
    let e := (spectralPost F n op rw true values vectors).2.1
    let emb := (spectralPost F n op rw true values vectors).2.2
    ((∃ c, c < kk ∧ mget e i c ≠ 0) → sqNorm kk emb i = 1) ∧ ((∀ c, c < kk → mget e i c = 0) → ∀ c, mget emb i c = 0) := by
  intro kk e emb
  have hemb : emb = normalize2 F n kk e := by
    have := spectral_embedding F true rw op n values vectors
    simpa using this
  rw [hemb]
  exact normalize_unit F n kk e i hi hsq

/-- on the adjacency route (`bipartite` false) `embedding_` is the full embedding of `spectralPost`, so that
    `spectral_embedding_spec` / `spectral_unit_norm` speak about the public attribute -/
theorem spectral_embedding_fit (rw : Bool) {out : SpectralOut α}
    (h : spectralFit F nRow nCol b nnz fb nc rw regParam nm solver = .ok out)
    (hb : (getAdjacency nRow nCol b false fb).1 = false) :
    out.embedding = (spectralPost F (spN nRow nCol b fb) (spOp F nRow nCol b fb regParam rw) rw nm
        (spSol F nRow nCol b fb nc regParam solver rw).1 (spSol F nRow nCol b fb nc regParam solver rw).2).2.2 ∧
    out.embeddingRow = none ∧ out.embeddingCol = none := by
  unfold spectralFit at h
  split at h
  · cases h
  · dsimp only at h
    split at h
    · cases h
    · have hout := Except.ok.inj h
      rw [← hout]
      unfold spectralResult
      simp only [hb, Bool.false_eq_true, if_false]
      refine ⟨?_, ?_, ?_⟩ <;> first | rfl | trivial

/-- **`_split_vars`**: on the bipartite route `embedding_row_` is the block of the first `n_row` rows of the full
    embedding and `embedding_col_` the remaining rows; `embedding_` is `embedding_row_`. -/
theorem spectral_split_vars (rw : Bool) {out : SpectralOut α}
    (h : spectralFit F nRow nCol b nnz fb nc rw regParam nm solver = .ok out)
    (hb : (getAdjacency nRow nCol b false fb).1 = true) :
    let full := (spectralPost F (spN nRow nCol b fb) (spOp F nRow nCol b fb regParam rw) rw nm
        (spSol F nRow nCol b fb nc regParam solver rw).1 (spSol F nRow nCol b fb nc regParam solver rw).2).2.2
    (∀ r, out.embeddingRow = some r → out.embedding = r ∧ ∀ i j, i < nRow → mget r i j = mget full i j) ∧
    (∀ cm, out.embeddingCol = some cm → ∀ i j, mget cm i j = mget full (nRow + i) j) ∧
    out.embeddingRow ≠ none ∧ out.embeddingCol ≠ none := by
  intro full
  unfold spectralFit at h
  split at h
  · cases h
  · dsimp only at h
    split at h
    · cases h
    · have hout := Except.ok.inj h
      rw [← hout]
      unfold spectralResult
      simp only [hb, if_true]
      refine ⟨?_, ?_, by simp, by simp⟩
      · intro r hr
        have hr' := Option.some.inj hr
        rw [← hr']
        exact ⟨rfl, fun i j hi => mget_take _ nRow i j hi⟩
      · intro cm hcm
        have hcm' := Option.some.inj hcm
        rw [← hcm']
        exact fun i j => mget_drop _ nRow i j

end spectral

instance (op : LapOp α) (a : Mat α) (values : Vec α) (vectors : Mat α) :
    Decidable (IsEigenpairs op a values vectors) := by unfold IsEigenpairs; infer_instance

instance (m : SLR α) (sv : Vec α) (u v : Mat α) : Decidable (IsSingularTriplets m sv u v) := by
  unfold IsSingularTriplets; infer_instance

/-- **the pair that `Spectral.fit` skips is a smallest one** of the solver output (`np.argsort(values)[1:]`), and the
    kept positions with the skipped one are exactly the positions of the solver output, each once. -/
theorem spectral_skips_smallest (values : Vec α) (hv : 0 < values.length) :
    ∃ i0, argsort values = i0 :: (argsort values).drop 1 ∧ i0 < values.length ∧
      (∀ c ∈ (argsort values).drop 1, vget values i0 ≤ vget values c) ∧
      (argsort values).Nodup ∧ ∀ x, x ∈ argsort values ↔ x < values.length :=
  argsort_skips_smallest values hv

/-- a rational "square root" that is exact on the values used by the examples -/
def sqrtQ (x : ℚ) : ℚ := if x = 25 then 5 else if x = 4 then 2 else if x = 1 then 1 else 0

example : sqNorm 2 (normalize2 ⟨sqrtQ, fun x _ => x⟩ 2 2 [[3, 4], [0, 0]]) 0 = 1 ∧
    mget (normalize2 ⟨sqrtQ, fun x _ => x⟩ 2 2 [[3, 4], [0, 0]]) 1 1 = (0 : ℚ) := by
  decide +kernel

/-- scalar functions of the rational examples: `sqrt` exact on 1, 4, 25; `pow x 0 = 1`, `pow x y = x` otherwise -/
def Fq : Fn ℚ := ⟨sqrtQ, fun x y => if y = 0 then 1 else x⟩

/-- the triangle with weights 2 (regularised degrees 4 = 2²) -/
def k3 : Mat ℚ := [[0, 2, 2], [2, 0, 2], [2, 2, 0]]
/-- eigenpairs `(0, D^{1/2}1)`, `(3/2, (1,−1,0))` of its normalised Laplacian, as a solver would return them -/
def solK3 : LapOp ℚ → Mat ℚ → Nat → Vec ℚ × Mat ℚ := fun _ _ _ => ([0, 3/2], [[1, 1], [1, -1], [1, 0]])

/-- non-vacuity of `spectral_rw_eigen` / `spectral_order`: `fit` succeeds on the triangle, the contract and the
    square-root hypothesis hold, the returned pair is `(1 − 3/2, D^{-1/2}(1,−1,0))`. -/
example :
    (spectralFit Fq 3 3 k3 6 false 1 true (-1) false solK3).toOption.map (fun o => (o.eigenvalues, o.eigenvectors))
      = some ([-1/2], [[1/2], [-1/2], [0]]) ∧
    IsEigenpairs (spOp Fq 3 3 k3 false (-1) true) (spAdj 3 3 k3 false)
      (spSol Fq 3 3 k3 false 1 (-1) solK3 true).1 (spSol Fq 3 3 k3 false 1 (-1) solK3 true).2 ∧
    (∀ i, i < 3 → Fq.sqrt ((∑ j ∈ range 3, mget k3 i j) + 0) * Fq.sqrt ((∑ j ∈ range 3, mget k3 i j) + 0)
        = (∑ j ∈ range 3, mget k3 i j) + 0) := by
  decide +kernel

/-- two disjoint edges of weight 2: disconnected, so `regularization = -2` is applied as `2` (regularised degrees 4) -/
def twoEdges : Mat ℚ := [[0, 2, 0, 0], [2, 0, 0, 0], [0, 0, 0, 2], [0, 0, 2, 0]]
/-- eigenpairs `(0, D^{1/2}1)`, `(1/2, (1,1,−1,−1))` of the normalised regularised Laplacian -/
def solTwoEdges : LapOp ℚ → Mat ℚ → Nat → Vec ℚ × Mat ℚ := fun _ _ _ => ([0, 1/2], [[1, 1], [1, 1], [1, -1], [1, -1]])

/-- non-vacuity on the regularised branch (disconnected graph, negative parameter): the fit succeeds and is regularised,
    the contract and the square-root hypothesis hold, the returned pair is `(1 − 1/2, D^{-1/2}(1,1,−1,−1))`. -/
example :
    (spectralFit Fq 4 4 twoEdges 4 false 1 true (-2) false solTwoEdges).toOption.map
        (fun o => (o.regularized, o.eigenvalues, o.eigenvectors))
      = some (true, [1/2], [[1/2], [1/2], [-1/2], [-1/2]]) ∧
    spReg 4 4 twoEdges false (-2 : ℚ) = 2 ∧
    IsEigenpairs (spOp Fq 4 4 twoEdges false (-2) true) (spAdj 4 4 twoEdges false)
      (spSol Fq 4 4 twoEdges false 1 (-2) solTwoEdges true).1 (spSol Fq 4 4 twoEdges false 1 (-2) solTwoEdges true).2 ∧
    (∀ i, i < 4 → Fq.sqrt ((∑ j ∈ range 4, mget twoEdges i j) + 2) * Fq.sqrt ((∑ j ∈ range 4, mget twoEdges i j) + 2)
        = (∑ j ∈ range 4, mget twoEdges i j) + 2) := by
  decide +kernel

/-- non-vacuity of `nontrivial_pair_orthogonal` and of `hpos` in `spectral_rw_dorthonormal` on the weighted triangle:
    `(−1/2, (1,−1,0))` is an eigenpair of `P`, no degree is zero, and `Σ d_i v_i = 0` indeed -/
example :
    (∀ i, i < 3 → Spec.degReg 3 k3 (0 : ℚ) i ≠ 0) ∧
    (∀ i, i < 3 → Spec.transApply 3 k3 (0 : ℚ) (fun j => mget [[1], [-1], [0]] j 0) i
        = (-1/2) * mget [[1], [-1], [0]] i 0) ∧
    (∀ i, i < 3 → Fq.sqrt ((∑ j ∈ range 3, mget k3 i j) + 0) ≠ 0) ∧
    (∀ x : ℚ, x ∈ [0, 1, 2, 4] → Fq.pow x 0 = 1) := by
  decide +kernel

/-! ### GSVD / SVD -/

section gsvd
variable (F : Fn α) (nRow nCol : Nat) (a : Mat α) (nnz : Nat) (p : GsvdParams α)
  (solver : SLR α → Nat → Vec α × Mat α × Mat α)

/-- the operator `GSVD.fit` hands to the solver -/
abbrev gsOp : SLR α := (gsvdOperator F nRow nCol a p).2.2.2.2
/-- number of triplets asked from the solver -/
abbrev gsK : Nat := (gsvdK p.nComponents nRow nCol).toNat
/-- what the solver returned -/
abbrev gsSol : Vec α × Mat α × Mat α := solver (gsOp F nRow nCol a p) (gsK nRow nCol p)
/-- the fitted state -/
abbrev gsOut : GsvdOut α :=
  gsvdPost F nRow nCol p (gsK nRow nCol p) (gsvdOperator F nRow nCol a p).2.2.1 (gsvdOperator F nRow nCol a p).2.2.2.1
    (gsvdOperator F nRow nCol a p).2.1 (gsSol F nRow nCol a p solver).1 (gsSol F nRow nCol a p solver).2.1
    (gsSol F nRow nCol a p solver).2.2

/-- a successful `GSVD.fit` is `gsvdPost` of the solver output, on a matrix with at least two rows and columns -/
theorem gsvdFit_ok {out : GsvdOut α} (h : gsvdFit F nRow nCol a nnz p solver = .ok out) :
    2 ≤ nRow ∧ 2 ≤ nCol ∧ out = gsOut F nRow nCol a p solver := by
  unfold gsvdFit at h
  split at h
  · cases h
  · dsimp only at h
    split at h
    · cases h
    · rename_i hk
      have hout := Except.ok.inj h
      have hk' : 0 < gsvdK p.nComponents nRow nCol ∧ gsvdK p.nComponents nRow nCol < ((min nRow nCol : Nat) : Int) := by
        constructor
        · by_contra hc; exact hk (Or.inl (not_lt.mp hc))
        · by_contra hc; exact hk (Or.inr (not_lt.mp hc))
      refine ⟨?_, ?_, hout.symm⟩ <;> omega

/-- **`gsvd_operator_denote`**: the matrix whose triplets `GSVD.fit` asks for is `D₁^{-α₁}(A + α 11ᵀ/n_col)D₂^{-α₂}`
    with `D₁ = diag(A_reg 1)`, `D₂ = diag(A_regᵀ 1)` (pseudo-inverses of the powers); `SVD` is `α₁ = α₂ = 0`. -/
theorem gsvd_operator_denote (hc : 0 < nCol) (i j : Nat) (hi : i < nRow) (hj : j < nCol) :
    (gsOp F nRow nCol a p).entry i j
      = Spec.gsvdEntry F nRow nCol a (p.regularization.getD 0) p.factorRow p.factorCol i j :=
  gsvdOperator_entry F nRow nCol a p hc i j hi hj

/-- (unfolding of the model, used below; the statement in terms of the specification is `gsvd_embedding`)
    `embedding_row_` / `embedding_col_` as `normalize2` of the raw products with the model's own `diag_row`, `diag_col`;
    `singular_values_` is in decreasing order and has as many entries as the solver returned. -/
theorem gsvd_embedding_raw {out : GsvdOut α} (h : gsvdFit F nRow nCol a nnz p solver = .ok out) :
    let sol := gsSol F nRow nCol a p solver
    let dr := (gsvdOperator F nRow nCol a p).2.2.1
    let dc := (gsvdOperator F nRow nCol a p).2.2.2.1
    let wc := (gsvdOperator F nRow nCol a p).2.1
    let rowRaw := mkMat nRow sol.1.length (gsvdRowRaw F nRow nCol p (gsK nRow nCol p) dr dc wc sol.1 sol.2.1 sol.2.2)
    let colRaw := mkMat nCol sol.1.length (gsvdColRaw F nRow nCol p (gsK nRow nCol p) dr dc wc sol.1 sol.2.1 sol.2.2)
    out.embeddingRow = (if p.normalized then normalize2 F nRow sol.1.length rowRaw else rowRaw) ∧
    out.embeddingCol = (if p.normalized then normalize2 F nCol sol.1.length colRaw else colRaw) ∧
    out.singularValues.Pairwise (· ≥ ·) ∧ out.singularValues.length = sol.1.length := by
  obtain ⟨_, _, hout⟩ := gsvdFit_ok F nRow nCol a nnz p solver h
  rw [hout]
  exact ⟨(gsvdPost_embedding F nRow nCol p _ _ _ _ _ _ _).1, (gsvdPost_embedding F nRow nCol p _ _ _ _ _ _ _).2,
    gsvdPost_order F nRow nCol p _ _ _ _ _ _ _, gsvdPost_sv_length F nRow nCol p _ _ _ _ _ _ _⟩

/-- **`gsvd_embedding`**: after a successful fit, entry by entry and with the *specification's* weights
    (`D₁ = diag(A_reg 1)`, `D₂ = diag(A_regᵀ 1)`, `A_reg = A + α 11ᵀ/n_col`):
    `embedding_row_ = D₁^{-α₁} U Σ^{1−α}` and `embedding_col_ = D₂^{-α₂} V Σ^{α}` with `U, Σ, V` the public
    `singular_vectors_left_`, `singular_values_`, `singular_vectors_right_`, every row divided by its norm when
    `normalized` (`Spec.normalizedEntry`); `singular_values_` is in decreasing order. -/
theorem gsvd_embedding {out : GsvdOut α} (h : gsvdFit F nRow nCol a nnz p solver = .ok out) :
    let r := p.regularization.getD 0
    let k := out.singularValues.length
    let rowRaw := mkMat nRow k fun i c => pinv (F.pow (Spec.gsvdWeightRow nCol a r i) p.factorRow) * mget out.left i c
        * F.pow (vget out.singularValues c) (1 - p.factorSingular)
    let colRaw := mkMat nCol k fun j c => pinv (F.pow (Spec.gsvdWeightCol nRow nCol a r j) p.factorCol) * mget out.right j c
        * F.pow (vget out.singularValues c) p.factorSingular
    (∀ i c, i < nRow → c < k →
      mget out.embeddingRow i c = if p.normalized then Spec.normalizedEntry F k rowRaw i c else mget rowRaw i c) ∧
    (∀ j c, j < nCol → c < k →
      mget out.embeddingCol j c = if p.normalized then Spec.normalizedEntry F k colRaw j c else mget colRaw j c) ∧
    out.singularValues.Pairwise (· ≥ ·) := by
  intro r k rowRaw colRaw
  obtain ⟨_, hcol2, hout⟩ := gsvdFit_ok F nRow nCol a nnz p solver h
  obtain ⟨hrow, hcolm, hord, hlen⟩ := gsvd_embedding_raw F nRow nCol a nnz p solver h
  have hc0 : 0 < nCol := by omega
  have hk : k = (gsSol F nRow nCol a p solver).1.length := hlen
  -- the raw matrices of the model are the raw matrices of the specification
  have hrowEq : mkMat nRow (gsSol F nRow nCol a p solver).1.length
        (gsvdRowRaw F nRow nCol p (gsK nRow nCol p) (gsvdOperator F nRow nCol a p).2.2.1
          (gsvdOperator F nRow nCol a p).2.2.2.1 (gsvdOperator F nRow nCol a p).2.1 (gsSol F nRow nCol a p solver).1
          (gsSol F nRow nCol a p solver).2.1 (gsSol F nRow nCol a p solver).2.2) = rowRaw := by
    rw [← hk]
    refine mkMat_congr fun i hi c _ => ?_
    unfold gsvdRowRaw
    rw [gsvd_diagRow F nRow nCol a p hc0 i hi, hout]
    ring
  have hcolEq : mkMat nCol (gsSol F nRow nCol a p solver).1.length
        (gsvdColRaw F nRow nCol p (gsK nRow nCol p) (gsvdOperator F nRow nCol a p).2.2.1
          (gsvdOperator F nRow nCol a p).2.2.2.1 (gsvdOperator F nRow nCol a p).2.1 (gsSol F nRow nCol a p solver).1
          (gsSol F nRow nCol a p solver).2.1 (gsSol F nRow nCol a p solver).2.2) = colRaw := by
    rw [← hk]
    refine mkMat_congr fun j hj c _ => ?_
    unfold gsvdColRaw
    rw [gsvd_diagCol F nRow nCol a p hc0 j hj, hout]
    ring
  rw [hrowEq, ← hk] at hrow
  rw [hcolEq, ← hk] at hcolm
  refine ⟨?_, ?_, hord⟩
  · intro i c hi hc
    rw [hrow]
    cases p.normalized
    · simp
    · simp only [if_true]; exact normalize2_eq_normalizedEntry F nRow k rowRaw i c hi hc
  · intro j c hj hc
    rw [hcolm]
    cases p.normalized
    · simp
    · simp only [if_true]; exact normalize2_eq_normalizedEntry F nCol k colRaw j c hj hc

/-- **`SVD` is `GSVD` with `α₁ = α₂ = 0`**: if `pow x 0 = 1` (true for `np.power` and `Real.rpow`), the matrix whose
    triplets `SVD.fit` returns is the regularised matrix `A + α 11ᵀ/n_col` itself. -/
theorem svd_operator_denote (hp0 : ∀ x, F.pow x 0 = 1) (hfr : p.factorRow = 0) (hfc : p.factorCol = 0)
    (i j : Nat) :
    Spec.gsvdEntry F nRow nCol a (p.regularization.getD 0) p.factorRow p.factorCol i j
      = Spec.aReg nCol a (p.regularization.getD 0) i j := by
  have h1 : pinv (1 : α) = 1 := by simp [pinv]
  unfold Spec.gsvdEntry
  rw [hfr, hfc, hp0, hp0, h1]
  ring

/-- **`gsvd_predict_row`** (fit level).  After a successful fit whose solver output satisfies the contract,
    `predict` accepts every batch `x` of `nVec` vectors without negative entry (an empty row — an isolated node — included),
    and if row `r` of the batch is row `i` of the fitted matrix, row `r` of the answer is the embedding of that row: `predict(A[i]) = embedding_row_[i]`, with or without regularisation and
    normalisation.
    `pow` has to split the returned singular values (`σ^{1−α} σ^{α} = σ`, `σ^{α} ≠ 0`, i.e. `σ > 0`). -/
theorem gsvd_predict_row {out : GsvdOut α} (h : gsvdFit F nRow nCol a nnz p solver = .ok out)
    (hsol : IsSingularTriplets (gsOp F nRow nCol a p) (gsSol F nRow nCol a p solver).1
      (gsSol F nRow nCol a p solver).2.1 (gsSol F nRow nCol a p solver).2.2)
    (hpow : ∀ c, c < (gsSol F nRow nCol a p solver).1.length →
      let s := vget (gsSol F nRow nCol a p solver).1 c
      F.pow s (1 - p.factorSingular) * F.pow s p.factorSingular = s ∧ F.pow s p.factorSingular ≠ 0)
    (i : Nat) (hi : i < nRow) (nVec r : Nat) (hr : r < nVec) (x : Mat α)
    (hx : ∀ j, j < nCol → mget x r j = mget a i j)
    (hnn : ∀ i j, i < nVec → j < nCol → 0 ≤ mget x i j)
    (c : Nat) (hc : c < out.singularValues.length) :
    ∃ e, gsvdPredict F p nCol out.singularValues out.right out.weightsCol nVec nCol x = .ok e ∧
      mget e r c = mget out.embeddingRow i c := by
  obtain ⟨_, hcol, hout⟩ := gsvdFit_ok F nRow nCol a nnz p solver h
  refine ⟨gsvdPredictCore F p nCol out.singularValues out.right out.weightsCol nVec x, ?_, ?_⟩
  · unfold gsvdPredict
    rw [predictRefused_eq_false nCol nVec x hnn]
    rfl
  have hlen : out.singularValues.length = (gsSol F nRow nCol a p solver).1.length := by
    rw [hout]; exact gsvdPost_sv_length F nRow nCol p _ _ _ _ _ _ _
  rw [hout]
  exact Embedding.gsvd_predict_row F nRow nCol a p _ _ _ _ (by omega) hsol i hi nVec r hr x hx hpow c
    (by rw [← hlen]; exact hc)

/-- **C09 / GSVD, SVD: the returned triplets.**  After a successful fit whose solver output satisfies the contract,
    `(singular_values_[c], singular_vectors_left_[:, c], singular_vectors_right_[:, c])` are singular triplets of
    `M = D₁^{-α₁}(A + α 11ᵀ/n_col)D₂^{-α₂}`: `M v = σ u` and `Mᵀ u = σ v`, entry by entry with the matrix of the
    specification. -/
theorem gsvd_triplets {out : GsvdOut α} (h : gsvdFit F nRow nCol a nnz p solver = .ok out)
    (hsol : IsSingularTriplets (gsOp F nRow nCol a p) (gsSol F nRow nCol a p solver).1
      (gsSol F nRow nCol a p solver).2.1 (gsSol F nRow nCol a p solver).2.2)
    (c : Nat) (hc : c < out.singularValues.length) :
    (∀ i, i < nRow →
      ∑ j ∈ range nCol, Spec.gsvdEntry F nRow nCol a (p.regularization.getD 0) p.factorRow p.factorCol i j
          * mget out.right j c = vget out.singularValues c * mget out.left i c) ∧
    (∀ j, j < nCol →
      ∑ i ∈ range nRow, Spec.gsvdEntry F nRow nCol a (p.regularization.getD 0) p.factorRow p.factorCol i j
          * mget out.left i c = vget out.singularValues c * mget out.right j c) := by
  obtain ⟨_, hcol, hout⟩ := gsvdFit_ok F nRow nCol a nnz p solver h
  have hshape := gsvdOperator_shape F nRow nCol a p
  have ht := gsvdPost_triplets F nRow nCol p (gsK nRow nCol p) (gsvdOperator F nRow nCol a p).2.2.1
    (gsvdOperator F nRow nCol a p).2.2.2.1 (gsvdOperator F nRow nCol a p).2.1 _ _ _ (gsOp F nRow nCol a p)
    hshape.1 hshape.2 hsol
  subst hout
  obtain ⟨h1, h2⟩ := ht c hc
  constructor
  · intro i hi
    have := h1 i (by rw [hshape.1]; exact hi)
    rw [hshape.2] at this
    rw [← this]
    exact Finset.sum_congr rfl fun j hj => by
      rw [gsvd_operator_denote F nRow nCol a p (by omega) i j hi (Finset.mem_range.mp hj)]
  · intro j hj
    have := h2 j (by rw [hshape.2]; exact hj)
    rw [hshape.1] at this
    rw [← this]
    exact Finset.sum_congr rfl fun i hi => by
      rw [gsvd_operator_denote F nRow nCol a p (by omega) i j (Finset.mem_range.mp hi) hj]

/-- **C09 / GSVD, SVD, unit norm.**  With `normalized=True` every row of `embedding_row_` whose un-normalised
    embedding is non-null has Euclidean norm 1; null rows stay null (stated for `embedding_row_`; `embedding_col_` goes through
    the same `normalize2`, see `gsvd_embedding`). -/
theorem gsvd_unit_norm {out : GsvdOut α} (h : gsvdFit F nRow nCol a nnz p solver = .ok out) (hnm : p.normalized = true)
    (i : Nat) (hi : i < nRow) :
    let sol := gsSol F nRow nCol a p solver
    let rowRaw := mkMat nRow sol.1.length (gsvdRowRaw F nRow nCol p (gsK nRow nCol p) (gsvdOperator F nRow nCol a p).2.2.1
      (gsvdOperator F nRow nCol a p).2.2.2.1 (gsvdOperator F nRow nCol a p).2.1 sol.1 sol.2.1 sol.2.2)
    F.sqrt (sqNorm sol.1.length rowRaw i) * F.sqrt (sqNorm sol.1.length rowRaw i) = sqNorm sol.1.length rowRaw i →
    ((∃ c, c < sol.1.length ∧ mget rowRaw i c ≠ 0) → sqNorm sol.1.length out.embeddingRow i = 1) ∧
    ((∀ c, c < sol.1.length → mget rowRaw i c = 0) → ∀ c, mget out.embeddingRow i c = 0) := by
  intro sol rowRaw hsq
  have := (gsvd_embedding_raw F nRow nCol a nnz p solver h).1
  simp only [hnm, if_true] at this
  rw [this]
  exact normalize_unit F nRow sol.1.length rowRaw i hi hsq

end gsvd

/-- **`LanczosSVD.fit`**: the exposed triplets are those of `svds` ordered by decreasing singular value -/
theorem lanczosSvd_order (nRow nCol : Nat) (s : Vec α) (uu vt : Mat α) :
    (lanczosSvdPost nRow nCol uu s vt).1.Pairwise (· ≥ ·) ∧ (lanczosSvdPost nRow nCol uu s vt).1.length = s.length :=
  lanczosSvdPost_order nRow nCol s uu vt

/-- a 2×2 example with rational triplets: `SVD` (`α₁ = α₂ = α = 0`) of `diag(2,1)`, top triplet `(2, e₀, e₀)` -/
def pSvd : GsvdParams ℚ := { nComponents := 1, regularization := none, factorRow := 0, factorCol := 0,
                             factorSingular := 0, normalized := true }
def d21 : Mat ℚ := [[2, 0], [0, 1]]
def solD21 : SLR ℚ → Nat → Vec ℚ × Mat ℚ × Mat ℚ := fun _ _ => ([2], [[1], [0]], [[1], [0]])

/-- non-vacuity of `gsvd_predict_row` / `gsvd_embedding`: the fit succeeds, the contract and the `pow` hypothesis hold,
    and `predict` of row 0 succeeds (with the value `embedding_row_[0] = [1]`). -/
example :
    (gsvdFit Fq 2 2 d21 2 pSvd solD21).toOption.map (·.embeddingRow) = some [[1], [0]] ∧
    IsSingularTriplets (gsOp Fq 2 2 d21 pSvd) (gsSol Fq 2 2 d21 pSvd solD21).1 (gsSol Fq 2 2 d21 pSvd solD21).2.1
      (gsSol Fq 2 2 d21 pSvd solD21).2.2 ∧
    (Fq.pow 2 (1 - 0) * Fq.pow 2 0 = 2 ∧ Fq.pow 2 0 ≠ 0) ∧
    (gsvdPredict Fq pSvd 2 [2] [[1], [0]] (gsvdOperator Fq 2 2 d21 pSvd).2.1 1 2 [[2, 0]]).toOption = some [[1]] := by
  decide +kernel

/-! ### PCA -/

section pca
variable (F : Fn α) (nRow nCol : Nat) (a : Mat α) (nnz : Nat) (nc : Int) (nm : Bool)
  (solver : SLR α → Nat → Vec α × Mat α × Mat α)

/-- what the solver returned to `PCA.fit` -/
abbrev pcaSol : Vec α × Mat α × Mat α := solver (pcaOperator nRow nCol a) nc.toNat

/-- a successful `PCA.fit` -/
theorem pcaFit_ok {out : PcaOut α} (h : pcaFit F nRow nCol a nnz nc nm solver = .ok out) :
    2 ≤ nRow ∧ 2 ≤ nCol ∧
    out = pcaPost F nRow nCol nm (pcaMeans nRow nCol a) (pcaSol nRow nCol a nc solver).1
            (pcaSol nRow nCol a nc solver).2.1 (pcaSol nRow nCol a nc solver).2.2 := by
  unfold pcaFit at h
  split at h
  · cases h
  · split at h
    · cases h
    · rename_i hk
      have hout := Except.ok.inj h
      have hk' : 0 < nc ∧ nc < ((min nRow nCol : Nat) : Int) := by
        constructor
        · by_contra hc; exact hk (Or.inl (not_lt.mp hc))
        · by_contra hc; exact hk (Or.inr (not_lt.mp hc))
      refine ⟨?_, ?_, hout.symm⟩ <;> omega

/-- **`pca_centred_denote`**: the operator handed to the solver (`SparseLR(A, (−1, μ))`) is the column-centred matrix
    `A − 1μᵀ`, `μ_j` the mean of column `j`; its columns sum to zero; applying it through `SparseLR._matvec` is the
    product with that matrix. -/
theorem pca_centred_denote (hr : 0 < nRow) (i j : Nat) (hi : i < nRow) (hj : j < nCol) (x : Vec α) :
    (pcaOperator nRow nCol a).entry i j = Spec.centredEntry nRow a i j ∧
    ∑ r ∈ range nRow, Spec.centredEntry nRow a r j = 0 ∧
    vget ((pcaOperator nRow nCol a).matvec x) i = ∑ c ∈ range nCol, (pcaOperator nRow nCol a).entry i c * vget x c :=
  ⟨pcaOperator_entry nRow nCol a i j hi hj, centred_colsum_zero nRow a hr j,
   by rw [pcaOperator_eq]; exact matvec_rank1_entry nRow nCol a _ _ x i hi⟩

/-- **`pca_predict_row`** (fit level): after a successful fit whose solver output satisfies the contract with non-zero
    singular values, `predict(A[i]) = embedding_row_[i]`, with or without normalisation; the embedding is the matrix
    of left singular vectors, row-normalised when `normalized`. -/
theorem pca_predict_row {out : PcaOut α} (h : pcaFit F nRow nCol a nnz nc nm solver = .ok out)
    (hsol : IsSingularTriplets (pcaOperator nRow nCol a) (pcaSol nRow nCol a nc solver).1
      (pcaSol nRow nCol a nc solver).2.1 (pcaSol nRow nCol a nc solver).2.2)
    (hsv : ∀ c, c < (pcaSol nRow nCol a nc solver).1.length → vget (pcaSol nRow nCol a nc solver).1 c ≠ 0)
    (i : Nat) (hi : i < nRow) (nVec r : Nat) (hr : r < nVec) (x : Mat α)
    (hx : ∀ j, j < nCol → mget x r j = mget a i j)
    (hnn : ∀ i j, i < nVec → j < nCol → 0 ≤ mget x i j)
    (c : Nat) (hc : c < out.singularValues.length) :
    (∃ e, pcaPredict F nm nCol out.singularValues out.right out.mean nVec nCol x = .ok e ∧
      mget e r c = mget out.embeddingRow i c) ∧
    out.embeddingRow = (if nm then normalize2 F nRow out.singularValues.length out.left else out.left) := by
  obtain ⟨_, _, hout⟩ := pcaFit_ok F nRow nCol a nnz nc nm solver h
  constructor
  · refine ⟨pcaPredictCore F nm nCol out.singularValues out.right out.mean nVec x, ?_, ?_⟩
    · unfold pcaPredict
      rw [predictRefused_eq_false nCol nVec x hnn]
      rfl
    · rw [hout]
      exact Embedding.pca_predict_row F nRow nCol a _ _ _ nm hsol i hi nVec r hr x hx hsv c (by rw [hout] at hc; exact hc)
  · rw [hout]; rfl

/-- **C09 / PCA, the embedding**: entry by entry `embedding_row_` is the matrix of left singular vectors, every row
    divided by its norm when `normalized` (same for `embedding_col_` and the right singular vectors). -/
theorem pca_embedding {out : PcaOut α} (h : pcaFit F nRow nCol a nnz nc nm solver = .ok out) :
    let k := out.singularValues.length
    (∀ i c, i < nRow → c < k →
      mget out.embeddingRow i c = if nm then Spec.normalizedEntry F k out.left i c else mget out.left i c) ∧
    (∀ j c, j < nCol → c < k →
      mget out.embeddingCol j c = if nm then Spec.normalizedEntry F k out.right j c else mget out.right j c) := by
  intro k
  obtain ⟨_, _, hout⟩ := pcaFit_ok F nRow nCol a nnz nc nm solver h
  subst hout
  constructor
  · intro i c hi hc
    cases nm
    · simp [pcaPost]
    · simp only [pcaPost, if_true]
      exact normalize2_eq_normalizedEntry F nRow _ _ i c hi hc
  · intro j c hj hc
    cases nm
    · simp [pcaPost]
    · simp only [pcaPost, if_true]
      exact normalize2_eq_normalizedEntry F nCol _ _ j c hj hc

/-- **C09 / PCA: triplets and unit norm.**  The public triplets are the solver's, hence (under the contract) singular
    triplets of the centred matrix `A − 1μᵀ` of the specification; with `normalized=True` every non-null row of
    `embedding_row_` has Euclidean norm 1 (stated for the rows; `embedding_col_` goes through the same `normalize2`,
    see `pca_embedding`). -/
theorem pca_triplets_unit {out : PcaOut α} (h : pcaFit F nRow nCol a nnz nc nm solver = .ok out)
    (hsol : IsSingularTriplets (pcaOperator nRow nCol a) (pcaSol nRow nCol a nc solver).1
      (pcaSol nRow nCol a nc solver).2.1 (pcaSol nRow nCol a nc solver).2.2)
    (c : Nat) (hc : c < out.singularValues.length) :
    (∀ i, i < nRow → ∑ j ∈ range nCol, Spec.centredEntry nRow a i j * mget out.right j c
        = vget out.singularValues c * mget out.left i c) ∧
    (∀ j, j < nCol → ∑ i ∈ range nRow, Spec.centredEntry nRow a i j * mget out.left i c
        = vget out.singularValues c * mget out.right j c) ∧
    (nm = true → ∀ i, i < nRow →
      F.sqrt (sqNorm out.singularValues.length out.left i) * F.sqrt (sqNorm out.singularValues.length out.left i)
        = sqNorm out.singularValues.length out.left i →
      (∃ c, c < out.singularValues.length ∧ mget out.left i c ≠ 0) →
      sqNorm out.singularValues.length out.embeddingRow i = 1) := by
  obtain ⟨_, _, hout⟩ := pcaFit_ok F nRow nCol a nnz nc nm solver h
  subst hout
  have hc' : c < (pcaSol nRow nCol a nc solver).1.length := hc
  obtain ⟨h1, h2⟩ := hsol c hc'
  refine ⟨?_, ?_, ?_⟩
  · intro i hi
    have := h1 i hi
    simp only [pcaPost]
    rw [← this]
    exact Finset.sum_congr rfl fun j hj => by
      rw [pcaOperator_entry nRow nCol a i j hi (Finset.mem_range.mp hj)]
  · intro j hj
    have := h2 j hj
    simp only [pcaPost]
    rw [← this]
    exact Finset.sum_congr rfl fun i hi => by
      rw [pcaOperator_entry nRow nCol a i j (Finset.mem_range.mp hi) hj]
  · intro hnm i hi hsq hnn
    simp only [pcaPost, hnm, if_true] at hsq hnn ⊢
    exact (normalize_unit F nRow _ _ i hi hsq).1 hnn

end pca

def eye2 : Mat ℚ := [[1, 0], [0, 1]]
/-- triplet `(1, (1,−1), (1,−1))` of the centred identity (the contract does not ask for unit vectors) -/
def solEye2 : SLR ℚ → Nat → Vec ℚ × Mat ℚ × Mat ℚ := fun _ _ => ([1], [[1], [-1]], [[1], [-1]])

/-- non-vacuity of `pca_predict_row` -/
example :
    (pcaFit Fq 2 2 eye2 2 1 false solEye2).toOption.map (·.embeddingRow) = some [[1], [-1]] ∧
    IsSingularTriplets (pcaOperator 2 2 eye2) (pcaSol 2 2 eye2 1 solEye2).1 (pcaSol 2 2 eye2 1 solEye2).2.1
      (pcaSol 2 2 eye2 1 solEye2).2.2 ∧
    (pcaPredict Fq false 2 [1] [[1], [-1]] (pcaMeans 2 2 eye2) 1 2 [[0, 1]]).toOption = some [[-1]] := by
  decide +kernel

/-! ### RandomProjection -/

/-- **`randomProjection_closed_form`**: the embedding computed by `RandomProjection.fit` on the graph
    `(n, adjacency)` with effective regularisation `reg ≥ 0` is `Σ_{t ≤ K} αᵗ Mᵗ G` (then row-normalised when
    `normalized`), where `M = A + reg·11ᵀ/n` or `M = D_reg⁻¹(A + reg·11ᵀ/n)` (`random_walk`), `G` the random matrix. -/
theorem randomProjection_closed_form (F : Fn α) (n : Nat) (hn : 0 < n) (adjacency : Mat α) (reg alpha : α)
    (K : Nat) (rw nm : Bool) (q : Mat α) :
    let k := (q.getD 0 []).length
    let closed := mkMat n k (Spec.rpClosedForm n (Spec.rpMultiplierEntry n adjacency reg rw) alpha (mget q) K)
    ∀ i c, i < n → c < k →
      mget (rpEmbedding F n adjacency reg alpha K rw nm q) i c
        = mget (if nm then normalize2 F n k closed else closed) i c := by
  intro k closed i c hi hc
  have hraw : ∀ i c, i < n → c < k → mget (rpLoop n k adjacency reg alpha rw K q q).2 i c = mget closed i c := by
    intro i c hi hc
    rw [rpLoop_closed_form n k adjacency reg alpha rw hn q K i c hi hc, mget_mkMat_lt _ hi hc]
  unfold rpEmbedding
  cases nm
  · simp only [Bool.false_eq_true, if_false]
    exact hraw i c hi hc
  · simp only [if_true]
    exact normalize2_row_congr F n n k _ _ i i hi hi (fun c hc => hraw i c hi hc) c hc

/-- **C09 / RandomProjection at fit level.**  A successful `fit` returns the closed form on the graph
    `get_adjacency(input, force_bipartite)` with the effective regularisation, split into row and column blocks on the
    bipartite route; `regularized` says whether a regularisation was applied. -/
theorem randomProjection_fit (F : Fn α) (nRow nCol : Nat) (b : Mat α) (nnz : Nat) (fb : Bool) (alpha : α) (K : Nat)
    (rw : Bool) (regParam : α) (nm : Bool) (g : Nat → Mat α) {out : RpOut α}
    (h : rpFit F nRow nCol b nnz fb alpha K rw regParam nm g = .ok out) :
    let ga := getAdjacency nRow nCol b true fb
    let n := ga.2.1
    let reg := getRegularization regParam (stronglyConnected n ga.2.2)
    let k := ((g n).getD 0 []).length
    let closed := mkMat n k (Spec.rpClosedForm n (Spec.rpMultiplierEntry n ga.2.2 reg rw) alpha (mget (g n)) K)
    let want := if nm then normalize2 F n k closed else closed
    out.regularized = decide (0 < reg) ∧ out.bipartite = ga.1 ∧
    (0 < n → ∀ c, c < k →
      (ga.1 = false → ∀ i, i < n → mget out.embedding i c = mget want i c) ∧
      (ga.1 = true → (∀ i, i < nRow → i < n → mget out.embedding i c = mget want i c) ∧
        ∀ cm, out.embeddingCol = some cm → ∀ i, nRow + i < n → mget cm i c = mget want (nRow + i) c)) := by
  intro ga n reg k closed want
  unfold rpFit at h
  split at h
  · cases h
  · dsimp only at h
    split at h
    · rename_i hb
      have hout := Except.ok.inj h
      rw [← hout]
      refine ⟨rfl, hb.symm, ?_⟩
      intro hn c hc
      have hcf := randomProjection_closed_form F n hn ga.2.2 reg alpha K rw nm (g n)
      refine ⟨fun hf => ?_, fun _ => ⟨?_, ?_⟩⟩
      · rw [hb] at hf; cases hf
      · intro i hi hin
        rw [mget_take _ nRow i c hi]
        exact hcf i c hin hc
      · intro cm hcm i hin
        have := Option.some.inj hcm
        rw [← this, mget_drop]
        exact hcf (nRow + i) c hin hc
    · rename_i hb
      have hout := Except.ok.inj h
      rw [← hout]
      have hb' : ga.1 = false := by simpa using hb
      refine ⟨rfl, hb'.symm, ?_⟩
      intro hn c hc
      have hcf := randomProjection_closed_form F n hn ga.2.2 reg alpha K rw nm (g n)
      refine ⟨fun _ i hi => hcf i c hi hc, fun ht => ?_⟩
      rw [hb'] at ht; cases ht

/-- **C09 / RandomProjection, unit norm**: with `normalized=True` every row of the embedding whose closed form is
    non-null has Euclidean norm 1. -/
theorem randomProjection_unit_norm (F : Fn α) (n : Nat) (hn : 0 < n) (adjacency : Mat α) (reg alpha : α)
    (K : Nat) (rw : Bool) (q : Mat α) (i : Nat) (hi : i < n) :
    let k := (q.getD 0 []).length
    let closed := mkMat n k (Spec.rpClosedForm n (Spec.rpMultiplierEntry n adjacency reg rw) alpha (mget q) K)
    F.sqrt (sqNorm k closed i) * F.sqrt (sqNorm k closed i) = sqNorm k closed i →
    (∃ c, c < k ∧ mget closed i c ≠ 0) →
    sqNorm k (rpEmbedding F n adjacency reg alpha K rw true q) i = 1 := by
  intro k closed hsq hnn
  have hcf := randomProjection_closed_form F n hn adjacency reg alpha K rw true q
  simp only [if_true] at hcf
  have : sqNorm k (rpEmbedding F n adjacency reg alpha K rw true q) i = sqNorm k (normalize2 F n k closed) i := by
    unfold sqNorm
    exact Finset.sum_congr rfl fun c hc => by rw [hcf i c hi (Finset.mem_range.mp hc)]
  rw [this]
  exact (normalize_unit F n k closed i hi hsq).1 hnn

/-- the regularisation handed to the multiplier by `RandomProjection.fit` / `Spectral.fit` is never negative -/
theorem effective_regularization_nonneg (reg : α) (c : Bool) : 0 ≤ getRegularization reg c :=
  getRegularization_nonneg reg c

example : mget (rpEmbedding Fq 2 [[0, 1], [1, 0]] 0 (1/2) 2 false false [[1], [0]]) 0 0 = (5/4 : ℚ) ∧
    Spec.rpClosedForm 2 (Spec.rpMultiplierEntry 2 [[0, 1], [1, 0]] (0:ℚ) false) (1/2) (mget [[1], [0]]) 2 0 0 = 5/4 := by
  decide +kernel

/-! ### LouvainEmbedding -/

/-- **`louvainEmbedding_closed_form`**: entry `(i, c)` of `normalize(A)·membership(labels)` is the share of the
    (absolute) weight of row `i` carried by the columns labelled `c` (0 for a null row). -/
theorem louvainEmbedding_closed_form (n m : Nat) (a : Mat α) (labels : List Int) (i c : Nat) (hi : i < n)
    (hc : c < membershipCols labels) :
    mget (louvainProject n m a labels) i c = Spec.louvainEntry m a labels i c :=
  louvainProject_entry n m a labels i c hi hc

/-- **C09 / LouvainEmbedding at fit level**: for any labels returned by Louvain, a successful `fit` yields
    `embedding_[i][c]` = share of the weight of row `i` carried by the columns whose label in `labels_` is `c`. -/
theorem louvainEmbedding_fit (nRow nCol : Nat) (a : Mat α) (fb : Bool) (ln lr lc : List Nat) (which : Isolated)
    {out : LouvainEmbOut α} (h : louvainEmbFit nRow nCol a fb ln lr lc which = .ok out)
    (i c : Nat) (hi : i < nRow) (hc : c < membershipCols out.labels) :
    mget out.embedding i c = Spec.louvainEntry nCol a out.labels i c :=
  louvainEmbFit_entry nRow nCol a fb ln lr lc which h i c hi hc

/-- **`reindex_labels(which='remove')`** (the default `isolated_nodes`): it always succeeds on a square input; node `v`
    gets label `-1` exactly when its Louvain cluster is a singleton, and two nodes that keep a label share the new label
    exactly when they shared the old one. -/
theorem louvain_reindex_remove (labels : List Nat) :
    ∃ prim : List Int, reindexLabels labels none .remove = .ok (prim, none) ∧ prim.length = labels.length ∧
      ∀ v w, v < labels.length → w < labels.length →
        (prim.getD v 0 = -1 ↔ labelCount labels (labels.getD v 0) ≤ 1) ∧
        (prim.getD v 0 ≠ -1 → prim.getD w 0 ≠ -1 →
          (prim.getD v 0 = prim.getD w 0 ↔ labels.getD v 0 = labels.getD w 0)) := by
  refine ⟨labels.map (fun l => match indexIn (labelsKeep labels) l with | some i => (i : Int) | none => -1),
    rfl, by simp, ?_⟩
  intro v w hv hw
  have hget : ∀ x, x < labels.length →
      (List.map (fun l => match indexIn (labelsKeep labels) l with | some i => (i : Int) | none => -1) labels).getD x 0
        = (match indexIn (labelsKeep labels) (labels.getD x 0) with | some i => (i : Int) | none => -1) := by
    intro x hx
    rw [List.getD_eq_getElem?_getD, List.getD_eq_getElem?_getD, List.getElem?_map, List.getElem?_eq_getElem hx]
    rfl
  have := reindexLabels_remove labels v w
  simp only [] at this
  rw [hget v hv, hget w hw]
  exact this

/-- **C09 / LouvainEmbedding, columns**: on a rectangular input, or a square one with `force_bipartite`,
    `embedding_col_[j][c]` is the share of the weight of column `j` carried by the rows whose re-indexed label is `c`,
    where the re-indexed label of row `i` is the rank of Louvain's row label `lr[i]` among the kept column labels
    (those carried by more than one column) and `-1` when it is not kept. -/
theorem louvainEmbedding_fit_col (nRow nCol : Nat) (a : Mat α) (fb : Bool) (ln lr lc : List Nat) (which : Isolated)
    {out : LouvainEmbOut α} (h : louvainEmbFit nRow nCol a fb ln lr lc which = .ok out)
    (hne : (fb || nRow != nCol) = true) :
    out.labelsRow = reindexSecondary (labelsKeep lc) lr ∧ out.labelsRow.length = lr.length ∧
    ∃ ec, out.embeddingCol = some ec ∧
      ∀ j c, j < nCol → c < membershipCols out.labelsRow →
        mget ec j c = Spec.louvainEntry nRow (mkMat nCol nRow fun j i => mget a i j) out.labelsRow j c :=
  louvainEmbFit_col nRow nCol a fb ln lr lc which h hne

/-- non-vacuity: a 2×3 input, both row labels kept, the column block is not empty -/
example : (louvainEmbFit 2 3 ([[1, 1, 0], [0, 0, 2]] : Mat ℚ) false [] [0, 1] [0, 0, 1] .keep).toOption.map
    (fun o => (o.labelsRow, o.embeddingCol)) = some ([0, -1], some [[1], [1], [0]]) := by decide +kernel

example : (louvainEmbFit 3 3 ([[0, 1, 1], [1, 0, 0], [1, 0, 0]] : Mat ℚ) false [0, 0, 1] [] [] .remove).toOption.map
    (fun o => (o.labels, o.embedding)) = some ([0, 0, -1], [[1/2], [1], [1]]) := by decide +kernel

example : mget (louvainProject 2 3 ([[1, 1, 2], [0, 0, 0]] : Mat ℚ) [0, 1, 1]) 0 1 = 3/4 := by decide +kernel

/-! ### over the reals the hypotheses on `sqrt` and `pow` hold by themselves -/

section real

/-- the scalar functions of the implementation's intended semantics: `np.sqrt`, `np.power` on ℝ -/
noncomputable def Freal : Fn ℝ := ⟨Real.sqrt, fun x y => x ^ y⟩

theorem real_sqrt_sq (d : ℝ) (hd : 0 ≤ d) : Freal.sqrt d * Freal.sqrt d = d := Real.mul_self_sqrt hd

theorem real_pow_split (s a : ℝ) (hs : 0 < s) : Freal.pow s (1 - a) * Freal.pow s a = s ∧ Freal.pow s a ≠ 0 := by
  constructor
  · change s ^ (1 - a) * s ^ a = s
    rw [← Real.rpow_add hs, sub_add_cancel, Real.rpow_one]
  · exact ne_of_gt (Real.rpow_pos_of_pos hs a)

theorem real_pow_zero (x : ℝ) : Freal.pow x 0 = 1 := Real.rpow_zero x

/-- **`normalize_unit` over ℝ**, no side condition: every non-null row becomes a unit vector, null rows stay null. -/
theorem normalize_unit_real (n k : Nat) (m : Mat ℝ) (i : Nat) (hi : i < n) :
    ((∃ j, j < k ∧ mget m i j ≠ 0) → sqNorm k (normalize2 Freal n k m) i = 1) ∧
    ((∀ j, j < k → mget m i j = 0) → ∀ j, mget (normalize2 Freal n k m) i j = 0) :=
  normalize_unit Freal n k m i hi
    (real_sqrt_sq _ (Finset.sum_nonneg fun _ _ => mul_self_nonneg _))

/-- **Spectral over ℝ**: on a graph with non-negative weights the only hypothesis left is the solver contract. -/
theorem spectral_rw_eigen_real (nRow nCol : Nat) (b : Mat ℝ) (nnz : Nat) (fb : Bool) (nc : Int) (regParam : ℝ) (nm : Bool)
    (solver : LapOp ℝ → Mat ℝ → Nat → Vec ℝ × Mat ℝ) {out : SpectralOut ℝ}
    (h : spectralFit Freal nRow nCol b nnz fb nc true regParam nm solver = .ok out)
    (hnn : ∀ i j, 0 ≤ mget (spAdj nRow nCol b fb) i j)
    (hsol : IsEigenpairs (spOp Freal nRow nCol b fb regParam true) (spAdj nRow nCol b fb)
      (spSol Freal nRow nCol b fb nc regParam solver true).1 (spSol Freal nRow nCol b fb nc regParam solver true).2)
    (c : Nat) (hc : c < out.eigenvalues.length) (i : Nat) (hi : i < spN nRow nCol b fb) :
    Spec.transApply (spN nRow nCol b fb) (spAdj nRow nCol b fb) (spReg nRow nCol b fb regParam)
        (fun j => mget out.eigenvectors j c) i
      = vget out.eigenvalues c * mget out.eigenvectors i c :=
  spectral_rw_eigen Freal nRow nCol b nnz fb nc regParam nm solver h
    (fun i _ => real_sqrt_sq _ (add_nonneg (Finset.sum_nonneg fun j _ => hnn i j) (getRegularization_nonneg _ _)))
    hsol c hc i hi

/-- **GSVD / SVD over ℝ**: with positive singular values `predict(A[i]) = embedding_row_[i]` under the solver contract
    alone. -/
theorem gsvd_predict_row_real (nRow nCol : Nat) (a : Mat ℝ) (nnz : Nat) (p : GsvdParams ℝ)
    (solver : SLR ℝ → Nat → Vec ℝ × Mat ℝ × Mat ℝ) {out : GsvdOut ℝ}
    (h : gsvdFit Freal nRow nCol a nnz p solver = .ok out)
    (hsol : IsSingularTriplets (gsOp Freal nRow nCol a p) (gsSol Freal nRow nCol a p solver).1
      (gsSol Freal nRow nCol a p solver).2.1 (gsSol Freal nRow nCol a p solver).2.2)
    (hpos : ∀ c, c < (gsSol Freal nRow nCol a p solver).1.length → 0 < vget (gsSol Freal nRow nCol a p solver).1 c)
    (i : Nat) (hi : i < nRow) (nVec r : Nat) (hr : r < nVec) (x : Mat ℝ)
    (hx : ∀ j, j < nCol → mget x r j = mget a i j)
    (hnn : ∀ i j, i < nVec → j < nCol → 0 ≤ mget x i j)
    (c : Nat) (hc : c < out.singularValues.length) :
    ∃ e, gsvdPredict Freal p nCol out.singularValues out.right out.weightsCol nVec nCol x = .ok e ∧
      mget e r c = mget out.embeddingRow i c :=
  gsvd_predict_row Freal nRow nCol a nnz p solver h hsol
    (fun c hc => real_pow_split _ _ (hpos c hc)) i hi nVec r hr x hx hnn c hc

end real

end SkNet.C09
