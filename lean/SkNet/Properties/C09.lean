/- C09 — property theorems (first step: the regularisation rule; extended below). -/
import SkNet.Model.Embedding
import SkNet.Spec.Embedding

namespace SkNet.C09
open SkNet SkNet.Embedding

/-- `_get_regularization` leaves a non-negative parameter untouched. -/
theorem getRegularization_nonneg (reg : Int) (c : Bool) (h : ¬ reg < 0) :
    getRegularization reg c = reg := by
  simp [getRegularization, h]

end SkNet.C09
