/-
C09 — Spectral and SVD embeddings satisfy the equations that define them.

All theorems are about the executable model `SkNet/Model/Embedding.lean` (the one the driver runs with `Float`
against the implementation on every check), for an arbitrary linearly ordered field `α` (ℚ, ℝ, …).  The two
non-field functions of the code enter as the record `F : Fn α` (`F.sqrt`, `F.pow`); what the theorems need of them
is stated as hypotheses on the values they are actually applied to (`F.sqrt d * F.sqrt d = d` …), so that the
examples can instantiate them over ℚ.  ARPACK is the parameter `solver`; its contract (`IsEigenpairs`,
`IsSingularTriplets`) is a hypothesis and is checked on every captured solver output by the `contract` lines.
-/
import Mathlib.Algebra.Order.Field.Rat
import SkNet.Lemmas.EmbeddingSpectral
import SkNet.Lemmas.EmbeddingNormalize
import SkNet.Lemmas.EmbeddingGsvd
import SkNet.Lemmas.EmbeddingRp
import SkNet.Lemmas.EmbeddingLouvain

set_option linter.unusedSectionVars false

open Finset

namespace SkNet.C09
open SkNet SkNet.Embedding

variable {α : Type} [Field α] [LinearOrder α] [IsStrictOrderedRing α]

/-! ### automatic regularisation only when disconnected -/

/-- **`regularization_rule`**: the Laplacian / multiplier is regularised iff the parameter is positive, or it is
    negative and the graph is not (strongly) connected; the factor then is the parameter, resp. its absolute value. -/
theorem regularization_rule (reg : α) (connected : Bool) :
    (0 < getRegularization reg connected ↔ (0 < reg ∨ (reg < 0 ∧ connected = false))) ∧
    (0 < reg → getRegularization reg connected = reg) ∧
    (reg < 0 → connected = false → getRegularization reg connected = -reg) ∧
    (reg < 0 → connected = true → getRegularization reg connected = 0) := by
  unfold getRegularization absv
  refine ⟨?_, ?_, ?_, ?_⟩
  · by_cases h : reg < 0
    · cases connected
      · simp [h]
      · simp [h]; exact le_of_lt h
    · simp [h]
  · intro h; simp [not_lt.mpr (le_of_lt h)]
  · intro h hc; simp [h, hc]
  · intro h hc; simp [h, hc]

example : getRegularization (-1 : ℚ) false = 1 ∧ getRegularization (-1 : ℚ) true = 0 ∧
    getRegularization (2 : ℚ) false = 2 := by decide

/-! ### the Laplacian operator -/

/-- **`laplacian_operator_denote`**: `Laplacian(adjacency, reg, normalized).dot(x)` of the model is
    `(D_reg − A_reg) x`, resp. `S (D_reg − A_reg) S x` with `S = diag(norm_diag)`, where
    `A_reg = A + reg·11ᵀ/n` and `D_reg = diag(A_reg 1)` are the matrices of the specification. -/
theorem laplacian_operator_denote (F : Fn α) (n : Nat) (hn : 0 < n) (a : Mat α) (reg : α) (hreg : 0 ≤ reg)
    (x : Vec α) (i : Nat) (hi : i < n) :
    vget (lapMatvec (lapInit F n a reg false) a x) i = Spec.lapApply n a reg (vget x) i ∧
    vget (lapMatvec (lapInit F n a reg true) a x) i
      = vget (lapInit F n a reg true).normDiag i
        * Spec.lapApply n a reg (fun j => vget (lapInit F n a reg true).normDiag j * vget x j) i ∧
    vget (lapInit F n a reg true).normDiag i = pinv (F.sqrt (Spec.degReg n a reg i)) := by
  refine ⟨lapMatvec_plain F n hn a reg hreg x i hi, lapMatvec_normalized F n hn a reg hreg x i hi, ?_⟩
  rw [lapInit_normDiag F n a reg i hi, degReg_eq n hn]

/-! ### Spectral -/

section spectral
variable (F : Fn α) (nRow nCol : Nat) (b : Mat α) (nnz : Nat) (fb : Bool) (nc : Int) (regParam : α) (nm : Bool)
  (solver : LapOp α → Mat α → Nat → Vec α × Mat α)

/-- number of nodes of the graph `Spectral.fit` works on (rows + columns on the bipartite route) -/
abbrev spN : Nat := (getAdjacency nRow nCol b false fb).2.1
/-- its adjacency matrix (`[[0,B],[Bᵀ,0]]` on the bipartite route) -/
abbrev spAdj : Mat α := (getAdjacency nRow nCol b false fb).2.2
/-- the regularisation actually applied -/
abbrev spReg : α := getRegularization regParam (stronglyConnected (spN nRow nCol b fb) (spAdj nRow nCol b fb))
/-- the operator handed to the solver -/
abbrev spOp (rw : Bool) : LapOp α := lapInit F (spN nRow nCol b fb) (spAdj nRow nCol b fb) (spReg nRow nCol b fb regParam) rw
/-- number of pairs asked from the solver -/
abbrev spK : Nat := (spectralK nc (spN nRow nCol b fb)).toNat
/-- what the solver returned -/
abbrev spSol (rw : Bool) : Vec α × Mat α :=
  solver (spOp F nRow nCol b fb regParam rw) (spAdj nRow nCol b fb) (spK nRow nCol b fb nc)

/-- a successful `Spectral.fit` is `spectralPost` of the solver output on a graph with at least two nodes -/
theorem spectralFit_ok (rw : Bool) {out : SpectralOut α}
    (h : spectralFit F nRow nCol b nnz fb nc rw regParam nm solver = .ok out) :
    2 ≤ spN nRow nCol b fb ∧
    out.eigenvalues = (spectralPost F (spN nRow nCol b fb) (spOp F nRow nCol b fb regParam rw) rw nm
        (spSol F nRow nCol b fb nc regParam solver rw).1 (spSol F nRow nCol b fb nc regParam solver rw).2).1 ∧
    out.eigenvectors = (spectralPost F (spN nRow nCol b fb) (spOp F nRow nCol b fb regParam rw) rw nm
        (spSol F nRow nCol b fb nc regParam solver rw).1 (spSol F nRow nCol b fb nc regParam solver rw).2).2.1 := by
  unfold spectralFit at h
  split at h
  · cases h
  · dsimp only at h
    split at h
    · cases h
    · rename_i hk
      have hout := Except.ok.inj h
      refine ⟨?_, ?_, ?_⟩
      · have : 0 < spectralK nc (spN nRow nCol b fb) := by
          simpa using hk
        unfold spectralK checkNComponents at this
        split at this <;> omega
      · rw [← hout]; unfold spectralResult; split <;> rfl
      · rw [← hout]; unfold spectralResult; split <;> rfl

/-- **C09 / Spectral, `decomposition='rw'`.**  If `fit` succeeds and the solver output satisfies its contract for
    the operator it was given, every returned pair is an eigenpair of the (regularised) random-walk transition
    matrix `P = D⁻¹(A + α 11ᵀ/n)` of the graph: `P · eigenvectors_[:, c] = eigenvalues_[c] · eigenvectors_[:, c]`. -/
theorem spectral_rw_eigen {out : SpectralOut α}
    (h : spectralFit F nRow nCol b nnz fb nc true regParam nm solver = .ok out)
    (hsq : ∀ i, i < spN nRow nCol b fb →
      let d := (∑ j ∈ range (spN nRow nCol b fb), mget (spAdj nRow nCol b fb) i j) + spReg nRow nCol b fb regParam
      F.sqrt d * F.sqrt d = d)
    (hsol : IsEigenpairs (spOp F nRow nCol b fb regParam true) (spAdj nRow nCol b fb)
      (spSol F nRow nCol b fb nc regParam solver true).1 (spSol F nRow nCol b fb nc regParam solver true).2)
    (c : Nat) (hc : c < out.eigenvalues.length) (i : Nat) (hi : i < spN nRow nCol b fb) :
    Spec.transApply (spN nRow nCol b fb) (spAdj nRow nCol b fb) (spReg nRow nCol b fb regParam)
        (fun j => mget out.eigenvectors j c) i
      = vget out.eigenvalues c * mget out.eigenvectors i c := by
  obtain ⟨hn, hval, hvec⟩ := spectralFit_ok F nRow nCol b nnz fb nc regParam nm solver true h
  rw [hval] at hc ⊢
  rw [hvec]
  exact spectralPost_rw_eigen F _ (by omega) _ _ (getRegularization_nonneg _ _) nm hsq _ _ hsol c hc i hi

/-- **C09 / Spectral, `decomposition='laplacian'`.**  Same for the (regularised) Laplacian `L = D − A`. -/
theorem spectral_laplacian_eigen {out : SpectralOut α}
    (h : spectralFit F nRow nCol b nnz fb nc false regParam nm solver = .ok out)
    (hsol : IsEigenpairs (spOp F nRow nCol b fb regParam false) (spAdj nRow nCol b fb)
      (spSol F nRow nCol b fb nc regParam solver false).1 (spSol F nRow nCol b fb nc regParam solver false).2)
    (c : Nat) (hc : c < out.eigenvalues.length) (i : Nat) (hi : i < spN nRow nCol b fb) :
    Spec.lapApply (spN nRow nCol b fb) (spAdj nRow nCol b fb) (spReg nRow nCol b fb regParam)
        (fun j => mget out.eigenvectors j c) i
      = vget out.eigenvalues c * mget out.eigenvectors i c := by
  obtain ⟨hn, hval, hvec⟩ := spectralFit_ok F nRow nCol b nnz fb nc regParam nm solver false h
  rw [hval] at hc ⊢
  rw [hvec]
  exact spectralPost_laplacian_eigen F _ (by omega) _ _ (getRegularization_nonneg _ _) nm _ _ hsol c hc i hi

/-- **C09 / Spectral, order and the skipped pair.**  `eigenvalues_` is in increasing order for the Laplacian and in
    decreasing order for the random walk; exactly one solver pair is not returned. -/
theorem spectral_order (rw : Bool) {out : SpectralOut α}
    (h : spectralFit F nRow nCol b nnz fb nc rw regParam nm solver = .ok out) :
    (if rw then out.eigenvalues.Pairwise (· ≥ ·) else out.eigenvalues.Pairwise (· ≤ ·)) ∧
    out.eigenvalues.length = (spSol F nRow nCol b fb nc regParam solver rw).1.length - 1 := by
  obtain ⟨_, hval, _⟩ := spectralFit_ok F nRow nCol b nnz fb nc regParam nm solver rw h
  rw [hval]
  refine ⟨?_, spectralPost_length F _ _ rw nm _ _⟩
  cases rw
  · simpa using spectralPost_order_laplacian F _ _ nm _ _
  · simpa using spectralPost_order_rw F _ _ nm _ _

end spectral

/-- **the pair that `Spectral.fit` skips is a smallest one** of the solver output (`np.argsort(values)[1:]`), and the
    kept positions with the skipped one are exactly the positions of the solver output, each once. -/
theorem spectral_skips_smallest (values : Vec α) (hv : 0 < values.length) :
    ∃ i0, argsort values = i0 :: (argsort values).drop 1 ∧ i0 < values.length ∧
      (∀ c ∈ (argsort values).drop 1, vget values i0 ≤ vget values c) ∧
      (argsort values).Nodup ∧ ∀ x, x ∈ argsort values ↔ x < values.length :=
  argsort_skips_smallest values hv

/-! ### normalisation -/

/-- **`normalize_unit`**: after `normalize(·, p=2)` every row with a non-zero entry has squared Euclidean norm 1
    and every null row stays null (`F.sqrt` has to square back on the squared norm of the row). -/
theorem normalize_unit (F : Fn α) (n k : Nat) (m : Mat α) (i : Nat) (hi : i < n)
    (hsq : F.sqrt (sqNorm k m i) * F.sqrt (sqNorm k m i) = sqNorm k m i) :
    ((∃ j, j < k ∧ mget m i j ≠ 0) → sqNorm k (normalize2 F n k m) i = 1) ∧
    ((∀ j, j < k → mget m i j = 0) → ∀ j, mget (normalize2 F n k m) i j = 0) :=
  ⟨normalize2_nonnull_unit F n k m i hi hsq, normalize2_null_of_null F n k m i⟩

/-- a rational "square root" that is exact on the values used by the examples -/
def sqrtQ (x : ℚ) : ℚ := if x = 25 then 5 else if x = 4 then 2 else if x = 1 then 1 else 0

example : sqNorm 2 (normalize2 ⟨sqrtQ, fun x _ => x⟩ 2 2 [[3, 4], [0, 0]]) 0 = 1 ∧
    mget (normalize2 ⟨sqrtQ, fun x _ => x⟩ 2 2 [[3, 4], [0, 0]]) 1 1 = (0 : ℚ) := by
  decide +kernel

end SkNet.C09
