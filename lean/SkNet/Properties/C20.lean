/- C20 — property theorems (filled below). -/
import SkNet.Lemmas.XmlParse
import SkNet.Spec.Svg

namespace SkNet.C20
open SkNet SkNet.Svg

/-- Well-formedness of a rendered document reduces to nesting of its pieces. -/
theorem wf_of_render (ps : List Piece) (h : piecesLexOk ps = true) : wf (render ps) = balanced ps [] false :=
  wf_render ps h

end SkNet.C20
