/-
C20 — drawings are well-formed SVG showing every node and edge once.

Property theorems about the model of sknetwork/visualization (Model/Svg.lean, Model/Xml.lean) and the
specification (Spec/Xml.lean: recogniser `wf` of well-formed XML; Spec/Svg.lean: expected content).
Printed numbers are arbitrary attribute-safe tokens (`SafeNums ν`); names and colour options are arbitrary lists of
code points (the code escapes both since 9c96c7f6 / 997510e6).
-/
import SkNet.Lemmas.SvgFinal
import SkNet.Spec.Svg

set_option linter.unusedSimpArgs false

namespace SkNet.C20
open SkNet SkNet.Svg

/-! ## ★ `render_wf` : a document whose pieces are lexically sound and nested is recognised as well formed -/

/-- Well-formedness of a rendered document is exactly nesting of its pieces: the recogniser reads back the very
    pieces that were rendered (`parseDoc_render`), for every piece list whose names, attribute values and
    character data are lexically sound. -/
theorem render_wf (ps : List Piece) (h : piecesLexOk ps = true) : wf (render ps) = balanced ps [] false :=
  wf_render ps h

/-- The recogniser reads back exactly the rendered pieces. -/
theorem parse_render_roundtrip (ps : List Piece) (h : piecesLexOk ps = true) : parseDoc (render ps) = some ps :=
  parseDoc_render ps h

example : piecesLexOk [.otag py!"svg" [att py!"width" py!"4.5"] [], .chr 10, .etag py!"circle" [] [],
    .otag py!"text" [] [], .ref py!"lt", .chr 233, .ctag py!"text" [], .ctag py!"svg" [], .chr 10] = true := by decide

/-! ## ★ `sanitise_safe` : the text inserted for a name is character data, for every string -/

/-- For *every* string (any code points: markup characters, control characters, lone surrogates, …) the pieces
    `svg_escape` produces are lexically sound character data that can stand inside any element. -/
theorem sanitise_safe (s : PyStr) : Inner (escape s) := escape_inner s

/-- …and so the string itself is accepted by the recogniser as the content of an element. -/
theorem sanitise_wf (s : PyStr) :
    wf (render (.otag py!"text" [] [] :: (escape s ++ [.ctag py!"text" []]))) = true := by
  have hi : Inner (.otag py!"text" [] [] :: (escape s ++ [.ctag py!"text" []])) :=
    Inner.elem (by decide) rfl rfl rfl (escape_inner s)
  have hlex : piecesLexOk (.otag py!"text" [] [] :: (escape s ++ [.ctag py!"text" []])) = true := hi.1
  rw [wf_render _ hlex]
  have := (escape_inner s).2 py!"text" [] [.ctag py!"text" []]
  simp only [balanced, List.isEmpty_nil, Bool.true_and, Bool.and_false, Bool.not_false, attrsUnique] at this ⊢
  rw [this]
  decide

/-- The sanitisers of the pinned tree were **not** safe (F15, repaired by 9c96c7f6): the dendrogram functions
    replaced only `&`, so a name containing `<` was copied into the document … -/
theorem old_dendrogram_sanitiser_unsafe :
    wf (render (.otag py!"text" [] [] :: (oldSanitiseDendro py!"a<b" ++ [.ctag py!"text" []]))) = false := by decide

/-- … and no function removed the characters XML cannot represent (here U+0001 in a graph name). -/
theorem old_graph_sanitiser_unsafe :
    wf (render (.otag py!"text" [] [] :: (oldSanitiseGraph [120, 1, 121] ++ [.ctag py!"text" []]))) = false := by
  decide

/-! ## ★ the returned string is a well-formed XML document, whatever the names -/

/-- `visualize_graph`: for every graph, layout, names (arbitrary code points), labels, scores, membership matrix,
    edge labels, node order, colours (arbitrary code points: they are escaped where they enter an attribute), sizes and
    flags — whenever the function returns, the returned string is a well-formed XML document. -/
theorem visualizeGraph_wf (ν : Nums) (a : GraphArgs) (d : Drawing) (hν : SafeNums ν)
    (h : visualizeGraph ν a = .ok d) : wf (render d.svg) = true := by
  obtain ⟨nodeColors, pos, edges, nodes, text, hpos, hedges, hnodes, htext, h⟩ := visualizeGraph_ok h
  rw [writeFile_svg h]
  have he2 := graphEdgeParts_inner hν a pos hedges
  exact svgDoc_wf hν _ _ (Inner.append (Inner.flatMap _ _ (fun c => svgMarker_inner c))
    (Inner.append he2 (Inner.append (graphNodes_inner hν _ _ _ _ hnodes) (namesText_inner hν _ _ _ _ htext))))

/-- every number printed as `#` (what the correspondence runs use) -/
def νhash : Nums := { tok := fun _ _ _ => [35] }

theorem νhash_safe : SafeNums νhash := fun _ _ _ => (by decide : SafeStr [35])

/-- the stable insertion sort of the model is a permutation of the positions -/
theorem νhash_sort : SortOk νhash := fun d => argsort_perm d

/-- a directed triangle with a coincident pair of nodes, hostile names and colours, labels and an edge label on a
    non-edge -/
def exampleGraph : GraphArgs :=
  { n := 3, entries := [(0, 1, 1), (1, 2, 2), (2, 0, 1)], pos := [(0, 0), (1, 0), (1, 0)],
    names := some [py!"a<", py!"b&\"", [99, 1, 233, 0xD800]], labels := some (.arr [0, -1, 4] true),
    edgeLabels := [(0, 1, 1), (2, 1, 3)], nodeColor := py!"a\"b<", edgeColor := some py!"<&" }

/-- the example is drawn (the function returns, with 43 pieces) -/
example : (match visualizeGraph νhash exampleGraph with | .ok d => d.svg.length | .error _ => 0) = 43 := by
  decide +kernel


/-- `visualize_bigraph`: whenever the function returns, the returned string is a well-formed XML document —
    for every biadjacency matrix, names of rows and columns (arbitrary code points) and options. -/
theorem visualizeBigraph_wf (ν : Nums) (a : BigraphArgs) (d : Drawing) (hν : SafeNums ν)
    (h : visualizeBigraph ν a = .ok d) : wf (render d.svg) = true := by
  obtain ⟨colorsRow, colorsCol, edges, nodesRow, nodesCol, textRow, textCol, hedges, hnr, hnc, htr, htc, h⟩ :=
    visualizeBigraph_ok h
  rw [writeFile_svg h]
  exact svgDoc_wf hν _ _ (Inner.append (bigraphEdges_inner hν a hedges)
    (Inner.append (nodeLoop_inner hν _ _ _ _ hnr) (Inner.append (nodeLoop_inner hν _ _ _ _ hnc)
      (Inner.append (namesText_inner hν _ _ _ _ htr) (namesText_inner hν _ _ _ _ htc)))))

def exampleBigraph : BigraphArgs :=
  { nRow := 1, nCol := 2, entries := [(0, 0, 0), (0, 1, 1)], namesRow := some [py!"<r>"],
    namesCol := some [py!"'", [11, 0xFFFF]], probsCol := some ⟨2, [[(0, 1/2), (1, 1/2)], []]⟩ }

/-- the example is drawn (the function returns, with 26 pieces) -/
example : (match visualizeBigraph νhash exampleBigraph with | .ok d => d.svg.length | .error _ => 0) = 26 := by
  decide +kernel


/-- `visualize_dendrogram` (root on top or on the left): whenever the function returns, the returned string is a
    well-formed XML document — for every dendrogram, leaf names (arbitrary code points) and options. -/
theorem visualizeDendrogram_wf (ν : Nums) (a : DendroArgs) (d : Drawing) (hν : SafeNums ν)
    (h : visualizeDendrogram ν a = .ok d) : wf (render d.svg) = true := by
  unfold visualizeDendrogram at h
  simp only [bind, Except.bind] at h
  split at h
  · simp at h
  rename_i svg hsvg
  obtain ⟨cut, index, text, paths, hcut, hindex, hne, htext, hpaths, rfl⟩ := svgDendrogram_ok hsvg
  rw [writeFile_svg h]
  exact svgDoc_wf hν _ _ (Inner.append (dendroNames_inner hν a index htext)
    (dendroTree_inner hν a cut index hpaths))

def exampleDendro : DendroArgs :=
  { merges := [(0, 1), (2, 3)], cutLabels := some [0, 0, 1], names := some [py!"a<b", py!"b", py!"c&"] }

/-- the example is drawn (the function returns, with 20 pieces) -/
example : (match visualizeDendrogram νhash exampleDendro with | .ok d => d.svg.length | .error _ => 0) = 20 := by
  decide +kernel


/-! ## ★ `counts` : the drawing shows every node, edge and name once -/

/-- `get_index`: whenever it returns, the order of the leaves is a permutation of `0 … n-1` — every leaf is drawn at
    a position of its own (for every list of merges, valid dendrogram or not). -/
theorem getIndex_permutation (merges : List (Nat × Nat)) (reorder : Bool) (index : List Nat)
    (h : getIndex merges reorder = .ok index) : index.Perm (List.range (merges.length + 1)) :=
  getIndex_perm merges reorder index h

example : (match getIndex [(0, 1), (3, 2)] true with | .ok l => l | .error _ => []) = [0, 1, 2] := by decide

/-- `visualize_dendrogram`: whenever it returns, the returned string — read back by the recogniser — is a well-formed
    document with root `svg`, exactly three edge paths per merge, no other shape, and one `text` element per leaf
    `0 … n-1` in this order, the `i`-th showing exactly `names[i]` (characters XML cannot represent shown as U+FFFD). -/
theorem visualizeDendrogram_counts (ν : Nums) (a : DendroArgs) (d : Drawing) (hν : SafeNums ν)
    (h : visualizeDendrogram ν a = .ok d) :
    docMeets (render d.svg) (expectedDendrogram a) = true := by
  unfold visualizeDendrogram at h
  simp only [bind, Except.bind] at h
  split at h
  · simp at h
  rename_i svg hsvg
  obtain ⟨cut, index, text, paths, hcut, hindex, hne, htext, hpaths, rfl⟩ := svgDendrogram_ok hsvg
  rw [writeFile_svg h]
  have hlen := getIndex_length a.merges a.reorder index hindex
  have hi : Inner (text ++ paths) := Inner.append (dendroNames_inner hν a index htext)
    (dendroTree_inner hν a cut index hpaths)
  have hp := dendroTree_shape hpaths
  cases hn : a.names with
  | none =>
    have ht : text = [] := dendroNames_none hn htext
    subst ht
    have := docMeets_svgDoc hν true false [] hi (by simpa using hp)
    simpa [expectedDendrogram, hn, hlen] using this
  | some names =>
    have hs := Shape.append (dendroNames_shape hn htext) hp
    have := docMeets_svgDoc hν true false [] hi hs
    simpa [expectedDendrogram, hn, hlen, Summary.add] using this

/-- the inputs of `visualize_graph` the count statement is about: a membership matrix whose column indices are within
    its shape, a canvas with a non-zero dimension and a non-zero scale, node indices of the stored entries within the
    layout (weights of any sign) -/
structure GraphDomain (a : GraphArgs) : Prop where
  probs : ProbsOk a.probs
  canvas : truthy a.width = true ∨ truthy a.height = true
  scale : a.lay.scale ≠ 0
  indices : ∀ e ∈ a.entries, e.1 < a.pos.length ∧ e.2.1 < a.pos.length

/-- `visualize_graph`: whenever it returns, the returned string — read back by the recogniser — is a well-formed
    document with root `svg` that contains
    * one node shape per *entry of `node_order`* (default: every node once, see `one_shape_per_node`): one `circle`,
      or one sector `path` per label when the node is drawn as a pie chart (more than one stored membership, non-zero
      sum);
    * one edge `path` per *displayed edge*, where a displayed edge is a **stored entry** of non-zero weight (any sign)
      of the adjacency matrix — an undirected edge `{i, j}` stored as the two entries `(i, j)`, `(j, i)` gives two
      paths — or an edge label on a pair without edge (each occurrence); except arrows between two nodes that were
      given the same position.  The coincidence test is the model's: exact rational arithmetic on the rescaled
      positions, which is the same as equality of the given positions (`rescale_keeps_positions_apart`).  The code
      tests the float64 images: the two agree unless distinct positions are closer than the float64 resolution of
      the rescaled layout; such inputs are outside the domain of the model (the harness detects them from the float64
      images and evaluates the specification on the positions as drawn).  `np.argsort` may return any permutation (`SortOk`).
      Which nodes a path joins is *not* part of this statement (it is checked on every run by the geometry spec
      lines, not proved);
    * one `text` element per node `0 … n-1` in this order when names are given, the `i`-th showing exactly `names[i]`
      with every character XML 1.0 cannot represent shown as U+FFFD. -/
theorem visualizeGraph_counts (ν : Nums) (a : GraphArgs) (d : Drawing) (hν : SafeNums ν) (hsort : SortOk ν)
    (hd : GraphDomain a) (h : visualizeGraph ν a = .ok d) :
    docMeets (render d.svg) (expectedGraph a) = true :=
  visualizeGraph_docMeets ν a d hν hsort hd.probs hd.canvas hd.scale
    hd.indices h

example : GraphDomain exampleGraph :=
  ⟨fun p hp => by simp [exampleGraph] at hp,
   Or.inl (by decide), by decide,
   by intro e he; simp [exampleGraph] at he; rcases he with h | h | h <;> subst h <;> decide⟩

/-- The only decision the drawing code takes on numbers, in exact arithmetic: on a canvas with a non-zero dimension
    and a non-zero scale, the rescaled positions of two nodes are equal iff they were given the same position.
    (This is a statement about the rational model of `rescale`. In float64 the images of two distinct positions can
    collide when they are closer than the resolution of the rescaled layout — e.g. `(0,0)` and `(2^-60, 0)` on a
    layout of span 1 —; the tie to the code is claimed only where they do not: the harness computes the float64
    images itself and, where two distinct positions collide, skips the run line and evaluates the specification on
    the positions as drawn.) -/
theorem rescale_keeps_positions_apart (a : GraphArgs) (pos : List (Rat × Rat)) (h : finalPos a = .ok pos)
    (hnd : truthy a.width = true ∨ truthy a.height = true) (hs : a.lay.scale ≠ 0)
    (i j : Nat) (hi : i < a.pos.length) (hj : j < a.pos.length) :
    ((pos.getD j (0, 0)).1 - (pos.getD i (0, 0)).1 = 0 ∧ (pos.getD j (0, 0)).2 - (pos.getD i (0, 0)).2 = 0) ↔
      a.pos.getD i (0, 0) = a.pos.getD j (0, 0) :=
  finalPos_coincide a pos h hnd hs i j hi hj

/-- a signed graph: one stored entry has a negative weight (before the repair b9a209f6 the first edge was not drawn:
    `adjacency > 0` dropped it and `edge_order` was numbered over the positive entries only) -/
def signedGraph : GraphArgs :=
  { n := 3, entries := [(0, 1, -1), (0, 2, 1)], pos := [(0, 0), (1, 0), (2, 1)], directed := some false }

example : GraphDomain signedGraph :=
  ⟨fun p hp => by simp [signedGraph] at hp, Or.inl (by decide), by decide,
   by intro e he; simp [signedGraph] at he; rcases he with h | h <;> subst h <;> decide⟩

example : (match visualizeGraph νhash signedGraph with
    | .ok d => (observed d.svg).edgePaths
    | .error _ => 0) = 2 := by decide +kernel

/-- "one node shape per node": with the default `node_order` (or any permutation of the nodes) the expected circles
    and pie charts together are exactly the `n` nodes.  (With an arbitrary `node_order` — a subset, repeats — the code
    draws one shape per *entry*, which is what `visualizeGraph_counts` states.) -/
theorem one_shape_per_node (a : GraphArgs)
    (h : a.nodeOrder = none ∨ ∃ o, a.nodeOrder = some o ∧ o.Perm (List.range (specN a))) :
    (expectedGraph a).circles + ((List.range (specN a)).filter (isPie a.probs)).length = specN a ∧
    (expectedGraph a).sectors = ((List.range (specN a)).filter (isPie a.probs)).length * ncolsOf a.probs := by
  have hperm : (specOrder a).Perm (List.range (specN a)) := by
    unfold specOrder
    rcases h with h | ⟨o, ho, hp⟩
    · rw [h]; exact List.Perm.refl _
    · rw [ho]; exact hp
  have h1 := (hperm.filter (fun i => !isPie a.probs i)).length_eq
  have h2 := (hperm.filter (fun i => isPie a.probs i)).length_eq
  have hsplit : ∀ l : List Nat, (l.filter fun i => !isPie a.probs i).length + (l.filter (isPie a.probs)).length
      = l.length := by
    intro l
    induction l with
    | nil => rfl
    | cons x xs ih =>
      by_cases hx : isPie a.probs x = true
      · simp [List.filter_cons, hx]; omega
      · simp [List.filter_cons, hx]; omega
  refine ⟨?_, ?_⟩
  · show ((specOrder a).filter fun i => !isPie a.probs i).length + _ = _
    rw [h1]
    simpa using hsplit (List.range (specN a))
  · show ((specOrder a).filter fun i => isPie a.probs i).length * _ = _
    rw [h2]

example : exampleGraph.nodeOrder = none ∨
    ∃ o, exampleGraph.nodeOrder = some o ∧ o.Perm (List.range (specN exampleGraph)) := Or.inl rfl

/-- Every stored entry is drawn when the graph is drawn without arrows (`directed=False`, or a symmetric adjacency with
    `directed=None`): the number of edge paths is the number of stored non-zero entries — twice the number of
    undirected edges plus the loops for a symmetric adjacency — plus one per edge label on a pair without edge. -/
theorem undirected_every_entry_drawn (a : GraphArgs) (h : specDirected a = false) :
    (expectedGraph a).edgePaths =
      if a.displayEdges then
        (specEs a).length + (a.edgeLabels.filter fun l => entryAt (specEs a) l.1.toNat l.2.1.toNat = 0).length
      else 0 := by
  have hs : ∀ i j, shownSpec a i j = true := by intro i j; simp [shownSpec, h]
  unfold expectedGraph
  simp only [hs, Bool.and_true, List.filter_true]

example : specDirected signedGraph = false := by decide

/-- the inputs of `visualize_bigraph` the count statement is about -/
structure BigraphDomain (a : BigraphArgs) : Prop where
  probsRow : ProbsOk a.probsRow
  probsCol : ProbsOk a.probsCol

/-- `visualize_bigraph`: whenever it returns, the returned string — read back by the recogniser — is a well-formed
    document with root `svg` that contains one node shape per row and per column (circle, or one sector per label for
    a pie chart), one edge `path` per stored entry of non-zero weight (any sign) and per edge label on a pair without
    edge, and one `text` element per row name then per column name, each showing exactly its name (characters XML 1.0
    cannot represent shown as U+FFFD). Which nodes a path joins is checked by the geometry spec lines, not proved. -/
theorem visualizeBigraph_counts (ν : Nums) (a : BigraphArgs) (d : Drawing) (hν : SafeNums ν) (hsort : SortOk ν)
    (hd : BigraphDomain a) (h : visualizeBigraph ν a = .ok d) :
    docMeets (render d.svg) (expectedBigraph a) = true :=
  visualizeBigraph_docMeets ν a d hν hsort hd.probsRow hd.probsCol h

example : BigraphDomain exampleBigraph :=
  ⟨fun p hp => by simp [exampleBigraph] at hp,
   by intro p hp row hrow e he
      simp [exampleBigraph] at hp
      subst hp
      simp at hrow
      rcases hrow with h | h <;> subst h <;> simp at he
      rcases he with h | h <;> subst h <;> decide⟩

/-! ## ★ `file_same` : the string written is the string returned -/

/-- Writing a lexically sound document never fails (`UnicodeEncodeError` cannot occur: every character is an XML
    character), and the bytes put on disk, decoded as UTF-8 by a strict decoder, are the returned string.
    (`writeFile` *defines* the file as the UTF-8 encoding of the string, as `open(…, 'w', encoding='utf-8')` does on
    Linux; the content of the theorem is that this encoding exists and round-trips. That the real file has these bytes
    — no newline translation, the path `filename + '.svg'` — is checked by the `spec_file` lines, not proved.) -/
theorem file_same (f : PyStr) (doc : List Piece) (d : Drawing) (hlex : piecesLexOk doc = true)
    (h : writeFile (some f) doc = .ok d) :
    ∃ bytes, d.file = some (f ++ py!".svg", bytes) ∧ utf8Decode bytes = some (render d.svg) :=
  writeFile_file hlex h

/-- The strict UTF-8 decoder reads back what the encoder wrote, for every string. -/
theorem utf8_decode_of_encode (s : PyStr) (bytes : List Nat) (h : utf8Encode s = some bytes) :
    utf8Decode bytes = some s := utf8_roundtrip s bytes h

example : utf8Encode [233, 0x4E2D, 0x1F600, 65] = some [0xC3, 0xA9, 0xE4, 0xB8, 0xAD, 0xF0, 0x9F, 0x98, 0x80, 65] := by
  decide

/-- `visualize_graph(…, filename=f)`: the file `f + '.svg'` holds the UTF-8 bytes of the returned string. -/
theorem visualizeGraph_file_same (ν : Nums) (a : GraphArgs) (d : Drawing) (f : PyStr) (hν : SafeNums ν)
    (hf : a.filename = some f) (h : visualizeGraph ν a = .ok d) :
    ∃ bytes, d.file = some (f ++ py!".svg", bytes) ∧ utf8Decode bytes = some (render d.svg) := by
  obtain ⟨doc, hlex, hw⟩ := visualizeGraph_struct ν a d hν h
  rw [hf] at hw
  exact writeFile_file hlex hw

/-- the example graph written to `f.svg`: the function returns and reports that path -/
example : (match visualizeGraph νhash { exampleGraph with filename := some py!"f" } with
    | .ok d => d.file.map (·.1)
    | .error _ => none) = some py!"f.svg" := by decide +kernel

/-- `visualize_bigraph(…, filename=f)`: the file holds the UTF-8 bytes of the returned string. -/
theorem visualizeBigraph_file_same (ν : Nums) (a : BigraphArgs) (d : Drawing) (f : PyStr) (hν : SafeNums ν)
    (hf : a.filename = some f) (h : visualizeBigraph ν a = .ok d) :
    ∃ bytes, d.file = some (f ++ py!".svg", bytes) ∧ utf8Decode bytes = some (render d.svg) := by
  obtain ⟨doc, hlex, hw⟩ :=
    visualizeBigraph_struct ν a d hν h
  rw [hf] at hw
  exact writeFile_file hlex hw

/-- `visualize_dendrogram(…, filename=f)`: the file holds the UTF-8 bytes of the returned string. -/
theorem visualizeDendrogram_file_same (ν : Nums) (a : DendroArgs) (d : Drawing) (f : PyStr) (hν : SafeNums ν)
    (hf : a.filename = some f) (h : visualizeDendrogram ν a = .ok d) :
    ∃ bytes, d.file = some (f ++ py!".svg", bytes) ∧ utf8Decode bytes = some (render d.svg) := by
  obtain ⟨doc, hlex, hw⟩ := visualizeDendrogram_struct ν a d hν h
  rw [hf] at hw
  exact writeFile_file hlex hw

end SkNet.C20
