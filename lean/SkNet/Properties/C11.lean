/-
C11 — triangle, clique and core computations are exact, sequential or parallel.

Property theorems about the model `SkNet/Model/Topology.lean` (which mirrors triangles.pyx, cliques.pyx,
core.pyx, minheap.pyx, path/dag.py:get_dag) against the specification `SkNet/Spec/Topology.lean`.
-/
import SkNet.Lemmas.TopologyTriangles
import SkNet.Lemmas.TopologyReduce
import SkNet.Lemmas.TopologyClustering
import SkNet.Lemmas.TopologyCliquesTop
import SkNet.Lemmas.TopologyCore
import SkNet.Lemmas.TopologyCoreSpec
import SkNet.Lemmas.TopologyFinset
import SkNet.Lemmas.TopologyParFor
import SkNet.Lemmas.TopologyRelabel
import Mathlib.Tactic.Ring
import Mathlib.Tactic.FieldSimp
import Mathlib.Algebra.Order.Field.Rat

namespace SkNet.C11
open SkNet SkNet.Topology

/-! ### triangles -/

/-- ★ `merge_count`: on strictly increasing slices (sorted, duplicate-free out-lists) the `while` loop of
    `count_local_triangles_from_dag` adds to `n_triangles` the size of the intersection of the two slices
    `indices[i:iEnd]` and `indices[j:jEnd]`. -/
theorem merge_count (indices : List Nat) (iEnd jEnd i j acc : Nat)
    (h1 : (sliceOf indices i iEnd).Pairwise (· < ·)) (h2 : (sliceOf indices j jEnd).Pairwise (· < ·)) :
    mergeLoop indices iEnd jEnd i j acc =
      acc + ((sliceOf indices i iEnd).filter (· ∈ sliceOf indices j jEnd)).length := by
  rw [mergeLoop_eq, mergeL_eq _ _ h1 h2]

example : (sliceOf [1, 2, 3, 2, 3, 9] 0 3).Pairwise (· < ·) ∧ (sliceOf [1, 2, 3, 2, 3, 9] 3 5).Pairwise (· < ·) := by
  decide

/-- `merge_count`, second clause: the loop never reads outside the two slices — replacing every other cell of
    `indices` does not change its value. -/
theorem merge_reads_only_slices (ix ix' : List Nat) (iEnd jEnd i j acc : Nat)
    (h1 : sliceOf ix i iEnd = sliceOf ix' i iEnd) (h2 : sliceOf ix j jEnd = sliceOf ix' j jEnd) :
    mergeLoop ix iEnd jEnd i j acc = mergeLoop ix' iEnd jEnd i j acc :=
  mergeLoop_reads_slices ix ix' iEnd jEnd i j acc h1 h2

example : sliceOf [1, 2, 3, 7] 0 3 = sliceOf [1, 2, 3, 8] 0 3 := by decide

/-- `merge_count`, bounds clause with checked reads: when both windows end inside `indices`, the loop with every
    read checked never fails, and is the loop -/
theorem merge_in_bounds (indices : List Nat) (iEnd jEnd i j acc : Nat)
    (h1 : iEnd ≤ indices.length) (h2 : jEnd ≤ indices.length) :
    mergeLoopChecked indices iEnd jEnd i j acc = some (mergeLoop indices iEnd jEnd i j acc) :=
  mergeLoopChecked_eq indices iEnd jEnd i j acc h1 h2

example : (3 : Nat) ≤ [1, 2, 3, 2, 3, 9].length ∧ (5 : Nat) ≤ [1, 2, 3, 2, 3, 9].length := by decide

/-- …and on the DAG that `get_dag` hands to the kernel every window `[indptr v, indptr (v+1))` ends inside
    `indices`, so every merge of `count_triangles` (and of any caller using out-lists of this DAG) reads in bounds -/
theorem dag_windows_in_bounds (n : Nat) (edge : Nat → Nat → Bool) (order : List Int) (hlen : order.length = n)
    (v : Nat) (hv : v < n) :
    (getDag n edge order).indptr.getD (v+1) 0 ≤ (getDag n edge order).indices.length :=
  (top_level_inv n edge order hlen 2).1.seg_le hv

/-- ★ `triangles_exact` (kernel form): on the DAG that `get_dag` builds from the index order, the sequential
    kernel returns the number of 3-cliques of the graph `adj` — for every `n` and every adjacency predicate. -/
theorem triangles_kernel_exact (n : Nat) (adj : Nat → Nat → Bool) :
    countFromDagSeq (getDag n adj (arange n)).indptr (getDag n adj (arange n)).indices = cliqueCount n adj 3 := by
  rw [countFromDagSeq_indexDag, cliqueCountIn_eq]; rfl

/-- ★ `triangles_exact`: `count_triangles(adjacency)` is the number of 3-cliques of the undirected graph
    `A + Aᵀ ≠ 0` (`symEdge val`), for every square matrix of any size. -/
theorem triangles_exact (n : Nat) (val : Nat → Nat → Rat) :
    countTriangles n n val none = .ok (cliqueCount n (symEdge val) 3) := by
  unfold countTriangles triangleDag
  simp only [bne_self_eq_false, Bool.false_eq_true, if_false]
  exact congrArg _ (triangles_kernel_exact n (symEdge val))

/-- for the 0/1 matrix of a symmetric adjacency predicate the symmetrised graph is the graph itself -/
theorem symEdge_indicator (adj : Nat → Nat → Bool) (hsym : ∀ i j, adj i j = adj j i) (i j : Nat) :
    symEdge (fun i j => if adj i j then 1 else 0) i j = adj i j := by
  unfold symEdge
  simp only []
  rw [hsym j i]
  by_cases h : adj i j = true
  · simp only [h, if_true]
    have : (1 + 1 : Rat) ≠ 0 := by norm_num
    simp [this]
  · simp [h]

/-- `triangles_exact` for an undirected graph given by its symmetric adjacency predicate -/
theorem triangles_exact_undirected (n : Nat) (adj : Nat → Nat → Bool) (hsym : ∀ i j, adj i j = adj j i) :
    countTriangles n n (fun i j => if adj i j then 1 else 0) none = .ok (cliqueCount n adj 3) := by
  rw [triangles_exact]
  congr 2
  funext i j
  exact symEdge_indicator adj hsym i j

example : ∀ i j, (fun i j : Nat => (i + j) % 3 != 0 && i != j) i j = (fun i j : Nat => (i + j) % 3 != 0 && i != j) j i := by
  intro i j; simp [Nat.add_comm, bne_comm]

/-- a non-square matrix is refused (`check_square`) -/
theorem triangles_nonsquare (nRow nCol : Nat) (val : Nat → Nat → Rat) (s : Option Schedule) (h : nRow ≠ nCol) :
    countTriangles nRow nCol val s = .error .valueError := by
  unfold countTriangles
  simp [h]

/-! ### the parallel clause -/

/-- ★ `reduction_schedule_free`: an integer `+` reduction over a `prange` has the value of the sequential loop
    for every assignment of the iterations to threads (any number of threads, any order inside a thread) and
    every tree in which the private copies are combined. -/
theorem reduction_schedule_free (f : Nat → Nat) (n init : Nat) (s : Schedule) (h : s.Valid n) :
    parReduce f s init = (List.range n).foldl (fun acc i => acc + f i) init := by
  rw [parReduce_eq f s n init h, seqReduce_eq]

/-- two schedules give the same value -/
theorem reduction_any_two_schedules (f : Nat → Nat) (n init : Nat) (s s' : Schedule) (h : s.Valid n)
    (h' : s'.Valid n) : parReduce f s init = parReduce f s' init := by
  rw [parReduce_eq f s n init h, parReduce_eq f s' n init h']

/-- a schedule with three threads, iterations out of order, combined as `(t2 + t0) + t1` -/
example : Schedule.Valid ⟨[[4, 0], [1, 3, 5], [2]], .node (.node (.leaf 2) (.leaf 0)) (.leaf 1)⟩ 6 :=
  Schedule.valid_of_validB _ _ (by decide)

/-- ★ the schedule quantifier at the level of atomic loads and stores, *in the model of the loop* (that the compiled
    loop behaves like this model is the reading of the race-free descriptor, not a theorem): each thread owns a private copy of the
    reduction variable, an iteration is a load of that copy followed by a store of the loaded value plus the
    iteration's contribution (`a += x` is a load and a store, not an atomic update). The loop is race-free
    (`ParFor.raceFree_threadProg`), and after *every interleaving* of these events in which all threads finish,
    the private copy of thread `t` holds the sum of the contributions of the iterations given to `t` -/
theorem parallel_interleaving_free (f : Nat → Nat) (parts : List (List Nat)) (s : List Nat)
    (hdone : ∀ t, (ParFor.run (ParFor.threadProg f parts) ParFor.c0 s).pc t = (ParFor.threadProg f parts t).length)
    (t : Nat) :
    (ParFor.run (ParFor.threadProg f parts) ParFor.c0 s).mem t = partialSum f (parts.getD t []) :=
  ParFor.interleaving_free f parts s hdone t

/-- …and combining the private copies in any tree gives `parReduce`, i.e. (by `reduction_schedule_free`) the value
    of the sequential loop, for every valid schedule and every interleaving -/
theorem parallel_region_value (f : Nat → Nat) (n init : Nat) (sch : Schedule) (hv : sch.Valid n) (s : List Nat)
    (hdone : ∀ t, (ParFor.run (ParFor.threadProg f sch.parts) ParFor.c0 s).pc t =
      (ParFor.threadProg f sch.parts t).length) :
    init + sch.comb.eval (fun t => (ParFor.run (ParFor.threadProg f sch.parts) ParFor.c0 s).mem t) =
      (List.range n).foldl (fun acc i => acc + f i) init := by
  rw [ParFor.region_value f sch init s hdone, reduction_schedule_free f n init sch hv]

/-- two threads with iterations `[2, 0]` and `[1]`, events interleaved as t0 t1 t0 t1 t0 t0: a complete interleaving -/
example : ∀ t, (ParFor.run (ParFor.threadProg (fun i => i + 1) [[2, 0], [1]]) ParFor.c0 [0, 1, 0, 1, 0, 0]).pc t =
    (ParFor.threadProg (fun i => i + 1) [[2, 0], [1]] t).length := by
  intro t
  match t with
  | 0 => decide
  | 1 => decide
  | t+2 =>
    have h1 : ParFor.threadProg (fun i => i + 1) [[2, 0], [1]] (t+2) = [] := by simp [ParFor.threadProg]
    rw [h1]
    simp [ParFor.run, ParFor.step, ParFor.threadProg, ParFor.iterEvents, ParFor.c0, ParFor.upd, ParFor.execEv]

/-- the negative side (what the `prange` descriptor guards against, cf. the mutation "shared accumulator instead of
    the reduction" of the status file): if two threads update the *same* location with a load and a store, the
    interleaving load-load-store-store loses an update — witness by evaluation -/
theorem shared_accumulator_is_schedule_dependent :
    (ParFor.run ParFor.sharedProg ParFor.c0 [0, 0, 1, 1]).mem 0 = 2 ∧
      (ParFor.run ParFor.sharedProg ParFor.c0 [0, 1, 0, 1]).mem 0 = 1 ∧ ¬ ParFor.RaceFree ParFor.sharedProg :=
  ⟨ParFor.shared_accumulator_loses_update.1, ParFor.shared_accumulator_loses_update.2,
    ParFor.sharedProg_not_raceFree⟩

/-- OpenMP's `schedule(static)` — the schedule the model runs for the `run` lines of the harness — is a valid
    schedule for every number of iterations and every number of threads (so the hypotheses of the theorems of this
    section are met at every size) -/
theorem static_schedule_valid (n t : Nat) : (staticSchedule n t).Valid n := staticSchedule_valid n t

/-- ★ parallel = sequential: `count_triangles(adjacency, parallelize=True)` returns the sequential count under
    every schedule of the `prange` loop (any number of threads). -/
theorem triangles_parallel_eq_sequential (n : Nat) (val : Nat → Nat → Rat) (s : Schedule) (h : s.Valid n) :
    countTriangles n n val (some s) = countTriangles n n val none := by
  unfold countTriangles
  simp only [bne_self_eq_false, Bool.false_eq_true, if_false]
  congr 1
  unfold countFromDagPar countFromDagSeq triangleDag
  rw [getDag_nodes]
  exact reduction_schedule_free _ n 0 s h

/-- `count_triangles(adjacency, parallelize=True)` is the number of 3-cliques under every schedule -/
theorem triangles_parallel_exact (n : Nat) (val : Nat → Nat → Rat) (s : Schedule) (h : s.Valid n) :
    countTriangles n n val (some s) = .ok (cliqueCount n (symEdge val) 3) := by
  rw [triangles_parallel_eq_sequential n val s h, triangles_exact]

/-- a *test*, not a property theorem: the descriptor of the `prange` loop of triangles.pyx as pinned is a pure
    integer `+` reduction. The live obligation is `c11.prange` of the driver, decided on the descriptor regenerated
    from the source on every run (tools/harness/c11_prange.py). -/
example :
    PrangeDesc.raceFree
      { function := "count_triangles_from_dag", loopVar := "node", reductions := [("+", "n_triangles")],
        reductionTypes := ["long"], otherStores := [], reductionReads := 0,
        callees := [⟨"count_local_triangles_from_dag", true, true, 0, 0⟩] } = true := by
  decide

/-- the same loop with a `double` accumulator is rejected (`+` on floats is not associative) -/
example :
    PrangeDesc.raceFree
      { function := "count_triangles_from_dag", loopVar := "node", reductions := [("+", "n_triangles")],
        reductionTypes := ["double"], otherStores := [], reductionReads := 0,
        callees := [⟨"count_local_triangles_from_dag", true, true, 0, 0⟩] } = false := by
  decide

/-! ### the orientation -/

/-- "orientation of each edge once by a total order": for an order array without ties and without negative entries,
    the DAG built by `get_dag` contains every edge `{i, j}` of a symmetric, loop-free graph in exactly one of the
    two out-lists, and nothing else -/
theorem dag_orients_each_edge_once (n : Nat) (adj : Nat → Nat → Bool) (hsym : ∀ a b, adj a b = adj b a)
    (order : List Int) (hlen : order.length = n)
    (hinj : ∀ a b, a < n → b < n → order.getD a 0 = order.getD b 0 → a = b)
    (hpos : ∀ a, a < n → 0 ≤ order.getD a 0) (i j : Nat) (hi : i < n) (hj : j < n) (hij : i ≠ j) :
    (j ∈ (getDag n adj order).row i ∨ i ∈ (getDag n adj order).row j ↔ adj i j = true) ∧
      ¬ (j ∈ (getDag n adj order).row i ∧ i ∈ (getDag n adj order).row j) := by
  rw [getDag_row n adj order hlen i hi, getDag_row n adj order hlen j hj]
  simp only [List.mem_filter, List.mem_range, keepPred, Bool.and_eq_true, decide_eq_true_eq]
  have h1 := hpos i hi
  have h2 := hpos j hj
  have h3 : order.getD i 0 ≠ order.getD j 0 := fun e => hij (hinj i j hi hj e)
  rw [hsym j i]
  constructor
  · constructor
    · rintro (⟨_, h, _⟩ | ⟨_, h, _⟩) <;> exact h
    · intro h
      by_cases hlt : order.getD i 0 < order.getD j 0
      · exact Or.inl ⟨hj, h, h1, hlt⟩
      · exact Or.inr ⟨hi, h, h2, by omega⟩
  · rintro ⟨⟨_, _, _, h⟩, ⟨_, _, _, h'⟩⟩
    omega

example : ∀ a, a < 3 → ∀ b, b < 3 → ([2, 0, 1] : List Int).getD a 0 = ([2, 0, 1] : List Int).getD b 0 → a = b := by
  decide

/-! ### cliques -/

/-- ★ `cliques_recursive_exact`: for a symmetric adjacency predicate and any rank `r` that is injective on the
    (duplicate-free) candidate list, the recursive count over the orientation `u → y iff adj u y ∧ r u < r y`
    — `#k-cliques = Σ_u #(k−1)-cliques among the out-neighbours of u` — is the brute-force number of `k`-cliques.
    Hence it does not depend on the rank. -/
theorem cliques_recursive_exact (adj : Nat → Nat → Bool) (hsym : ∀ a b, adj a b = adj b a) (r : Nat → Int)
    (k : Nat) (S : List Nat) (hnd : S.Nodup) (hinj : ∀ a ∈ S, ∀ b ∈ S, r a = r b → a = b) :
    orientedCount (orient adj r) k S = cliqueCountOn adj k S :=
  orientedCount_eq adj hsym r k S hnd hinj

example : [3, 0, 2, 1].Nodup ∧ ∀ a ∈ [3, 0, 2, 1], ∀ b ∈ [3, 0, 2, 1],
    (fun v : Nat => (7 - (v : Int))) a = (fun v : Nat => (7 - (v : Int))) b → a = b := by decide

/-- the pruned recursive count used by the spec lines of the harness for the larger graphs is the brute-force
    count -/
theorem cliqueCountIn_eq_cliqueCount (n : Nat) (adj : Nat → Nat → Bool) (k : Nat) :
    cliqueCountIn adj k (List.range n) = cliqueCount n adj k :=
  cliqueCountIn_eq adj k (List.range n)

/-- what the specification counts: `cliqueCount n adj k` is the number of `k`-element subsets of `{0, …, n-1}` whose
    members are pairwise adjacent (Mathlib's `Finset.powersetCard`); for a symmetric `adj`, "pairwise" may be read
    in either direction (`cliqueSet_symm`) -/
theorem cliqueCount_is_textbook (n : Nat) (adj : Nat → Nat → Bool) (k : Nat) :
    cliqueCount n adj k = (((Finset.range n).powersetCard k).filter (CliqueSet adj)).card :=
  cliqueCount_eq_card n adj k

/-- for a symmetric adjacency predicate "pairwise adjacent" does not depend on the direction in which the pairs
    are read -/
theorem cliqueSet_symm (adj : Nat → Nat → Bool) (hsym : ∀ a b, adj a b = adj b a) (s : Finset Nat) :
    CliqueSet adj s ↔ ∀ a ∈ s, ∀ b ∈ s, a ≠ b → adj a b = true := by
  unfold CliqueSet
  constructor
  · intro h a ha b hb hab
    by_cases hlt : a < b
    · exact h a ha b hb hlt
    · rw [hsym]; exact h b hb a ha (by omega)
  · intro h a ha b hb hab
    exact h a ha b hb (by omega)

/-- ★ `cliques_kernel_refines`: the array kernel `count_cliques_from_dag` (in-place reordering of the adjacency
    segments — shared by all the recursive calls —, per-level candidate lists, truncated degrees, labels) started on the box
    of `ListingBox.__cinit__` and the DAG of `get_dag` returns the recursive count of the orientation
    `edge i j ∧ 0 ≤ order i < order j` over all nodes, for every clique size `k ≥ 2`. -/
theorem cliques_kernel_refines (n : Nat) (edge : Nat → Nat → Bool) (order : List Int) (hlen : order.length = n)
    (k : Nat) (hk : 2 ≤ k) :
    (cliquesFrom (getDag n edge order).indptr k (getDag n edge order).indices
        (boxInit (getDag n edge order).indptr k)).1 =
      orientedCount (fun i j => edge i j && keepPred order i j) k (List.range n) :=
  cliquesFrom_getDag n edge order hlen k hk

example : ([2, 0, 1] : List Int).length = 3 ∧ 2 ≤ 3 := by decide

/-- `cliques_kernel_partial` of the plan, now a corollary: when `count_cliques_from_dag` returns, every label of
    the box is back to its value (`k` at the top level), the candidate list, degrees and counters of the calling
    level are untouched, and `indices` — shared with the caller since /repo 63da5b43 — has only been permuted inside
    the level windows of the callee's candidates: each of these windows is a permutation of what it was, every
    other cell is unchanged. These are the permutation / label-restoration invariants of the kernel. -/
theorem cliques_box_restored (indptr : List Nat) (p : Nat → Nat → Bool) (kn n m L : Nat)
    (K : KernelCtx indptr n L m) (c : Nat) (hc : c + 2 ≤ kn) (ix : List Nat) (b : Box)
    (inv : LevelInv indptr p kn n m L (c+2) ix b) :
    Frame (c+2) b (cliquesFrom indptr (c+2) ix b).2.2 ∧ (cliquesFrom indptr (c+2) ix b).2.2.Shape kn n m ∧
      IxPost indptr L (c+2) (subList b (c+2)) b ix (cliquesFrom indptr (c+2) ix b).2.1 :=
  ⟨(cliquesFrom_spec indptr p kn n m L K c hc ix b inv).2.2.1, (cliquesFrom_spec indptr p kn n m L K c hc ix b inv).2.1,
    (cliquesFrom_spec indptr p kn n m L K c hc ix b inv).2.2.2⟩

/-- the hypotheses of `cliques_box_restored` hold at the top level of every run of `count_cliques`: the box of
    `ListingBox.__cinit__` on the DAG of `get_dag` (any graph, any order array of the right length, any `k`) -/
theorem cliques_top_level_invariant (n : Nat) (edge : Nat → Nat → Bool) (order : List Int)
    (hlen : order.length = n) (k : Nat) :
    KernelCtx (getDag n edge order).indptr n (getDag n edge order).indices.length
        (maxDegOf (getDag n edge order).indptr) ∧
      LevelInv (getDag n edge order).indptr (fun i j => edge i j && keepPred order i j) k n
        (maxDegOf (getDag n edge order).indptr) (getDag n edge order).indices.length k
        (getDag n edge order).indices (boxInit (getDag n edge order).indptr k) :=
  ⟨(top_level_inv n edge order hlen k).1, (top_level_inv n edge order hlen k).2.1⟩

/-- ★ `cliques_exact`: on every undirected graph (symmetric adjacency predicate, any size) and for every `k ≥ 2`,
    `count_cliques(adjacency, k)` returns the number of `k`-cliques, whatever permutation of the nodes
    `np.argsort` returned. -/
theorem cliques_exact (n : Nat) (adj : Nat → Nat → Bool) (hsym : ∀ a b, adj a b = adj b a) (k : Nat)
    (hk : 2 ≤ k) (perm : List Nat) (hperm : perm.Perm (List.range n)) :
    countCliquesWith n adj k perm = .ok (cliqueCount n adj k) :=
  countCliquesWith_eq n adj hsym k hk perm (by rw [hperm.length_eq]; simp)
    (hperm.nodup_iff.2 List.nodup_range)

example : ([2, 0, 3, 1] : List Nat).Perm (List.range 4) := by decide

/-- `count_cliques` is independent of the order used for the orientation (`argsort` of the core values) -/
theorem cliques_order_free (n : Nat) (adj : Nat → Nat → Bool) (hsym : ∀ a b, adj a b = adj b a) (k : Nat)
    (hk : 2 ≤ k) (perm perm' : List Nat) (h : perm.Perm (List.range n)) (h' : perm'.Perm (List.range n)) :
    countCliquesWith n adj k perm = countCliquesWith n adj k perm' := by
  rw [cliques_exact n adj hsym k hk perm h, cliques_exact n adj hsym k hk perm' h']

/-- clique sizes below two are refused -/
theorem cliques_refused (n : Nat) (edge : Nat → Nat → Bool) (k : Nat) (perm : List Nat) (hk : k < 2) :
    countCliquesWith n edge k perm = .error .valueError := by
  unfold countCliquesWith; rw [if_pos hk]

/-- the model's stand-in for `np.argsort` returns a permutation of the nodes -/
theorem argsort_is_perm (d : List Int) : (argsort d).Perm (List.range d.length) := argsort_perm d

/-! ### the indexed min-heap and the core decomposition -/

/-- ★ `heap_invariant` (1/4): the empty heap satisfies the invariant (heap order on the live prefix, `pos`
    inverts `val` on it, sizes) -/
theorem heap_invariant_empty (sc : List Int) (n : Nat) : HeapInv (Heap.empty n) sc n := heapInv_empty sc n

/-- ★ `heap_invariant` (2/4): `insert_key` of a node that is not in the heap keeps the invariant and adds
    exactly that node -/
theorem heap_invariant_insert {h : Heap} {sc : List Int} {n k : Nat} (hinv : HeapInv h sc n) (hk : k < n)
    (hnl : ¬ h.live k) :
    HeapInv (h.insertKey k sc) sc n ∧ (h.insertKey k sc).size = h.size + 1 ∧
      ∀ v, (h.insertKey k sc).live v ↔ (h.live v ∨ v = k) :=
  insertKey_spec' hinv hk hnl

example : HeapInv (Heap.empty 3) [5, 1, 4] 3 ∧ 1 < 3 ∧ ¬ (Heap.empty 3).live 1 :=
  ⟨heapInv_empty _ _, by decide, not_live_empty 3 1⟩

/-- ★ `heap_invariant` (3/4): after one key has been lowered, `decrease_key` restores the invariant for the new
    keys and keeps the set of live nodes — also when the node is no longer in the heap and its `pos` entry is
    stale ("stale positions of removed nodes are harmless") -/
theorem heap_invariant_decrease {h : Heap} {sc sc' : List Int} {n j : Nat} (hinv : HeapInv h sc n)
    (hle : sc'.getD j 0 ≤ sc.getD j 0) (hother : ∀ v, v ≠ j → sc'.getD v 0 = sc.getD v 0) :
    HeapInv (h.decreaseKey j sc') sc' n ∧ (h.decreaseKey j sc').size = h.size ∧
      ∀ v, (h.decreaseKey j sc').live v ↔ h.live v :=
  decreaseKey_spec hinv hle hother

example : ([5, 0, 4] : List Int).getD 1 0 ≤ ([5, 1, 4] : List Int).getD 1 0 := by decide

/-- ★ `heap_invariant` (4/4) and `pop_min_is_min`: `pop_min` on a non-empty heap keeps the invariant, removes
    exactly the returned node, and that node has a minimum key among the live nodes -/
theorem pop_min_is_min {h : Heap} {sc : List Int} {n : Nat} (hinv : HeapInv h sc n) (hpos : 0 < h.size) :
    HeapInv (h.popMin sc).2 sc n ∧ (h.popMin sc).2.size = h.size - 1 ∧ h.live (h.popMin sc).1 ∧
      (∀ v, (h.popMin sc).2.live v ↔ (h.live v ∧ v ≠ (h.popMin sc).1)) ∧
      (∀ v, h.live v → sc.getD (h.popMin sc).1 0 ≤ sc.getD v 0) :=
  popMin_spec hinv hpos

example : 0 < ((Heap.empty 3).insertKey 1 [5, 1, 4]).size := by
  have := (insertKey_spec' (heapInv_empty [5, 1, 4] 3) (by decide : 1 < 3) (not_live_empty 3 1)).2.1
  omega

/-- ★ `core_exact`: on the CSR structure of every undirected graph (symmetric adjacency predicate, any size)
    `compute_core` — heap of all nodes keyed by degree, repeated `pop_min`, `core_value = max(core_value, degree)`,
    one `decrease_key` per neighbour — terminates within `n` rounds and labels every node with its core number:
    the largest `c` such that the node lies in a set of nodes that all have at least `c` neighbours in the set. -/
theorem core_exact (n : Nat) (adj : Nat → Nat → Bool) (hsym : ∀ a b, adj a b = adj b a) :
    ∃ labels : List Int, computeCore (csrOfEdge n adj).indptr (csrOfEdge n adj).indices = some labels ∧
      labels.length = n ∧
      ∀ v, v < n → ∃ c : Nat, labels.getD v 0 = (c : Int) ∧ IsCoreNumber n adj v c :=
  computeCore_spec n adj hsym

/-- the `while not mh.empty()` loop never runs out of the fuel `n` of the model -/
theorem coreLoop_fuel (n : Nat) (adj : Nat → Nat → Bool) (hsym : ∀ a b, adj a b = adj b a) :
    computeCore (csrOfEdge n adj).indptr (csrOfEdge n adj).indices ≠ none := by
  obtain ⟨l, h, _⟩ := computeCore_spec n adj hsym
  rw [h]; exact Option.some_ne_none l

/-- the executable specification of the spec lines (`kCore`: exhaustive pruning to a fixed point) is the
    definition: a node is in the `k`-core iff it lies in a node set whose members all have `≥ k` neighbours inside -/
theorem kCore_exact (n : Nat) (adj : Nat → Nat → Bool) (k v : Nat) :
    (kCore n adj k).getD v false = true ↔ InCore n adj k v := kCore_spec n adj k v

/-- `coreNumberSpec` (what `c11.spec_core` evaluates on the implementation's output) is the core number -/
theorem coreNumberSpec_exact (n : Nat) (adj : Nat → Nat → Bool) (v : Nat) (hv : v < n) :
    IsCoreNumber n adj v (coreNumberSpec n adj v) := coreNumberSpec_isCoreNumber n adj v hv

/-- ★ `core_exact` of the kernel `compute_core` for every row order (`IsCsrOf`: every stored entry is an edge, stored
    once, rows in any order — stored zeros and duplicate entries are *not* covered by this statement about the
    kernel; the entry point removes them first, see `get_core_decomposition_exact`):
    termination within `n` rounds and every label is the core number -/
theorem core_exact_csr (n : Nat) (adj : Nat → Nat → Bool) (hsym : ∀ a b, adj a b = adj b a)
    (indptr indices : List Nat) (hcsr : IsCsrOf n adj indptr indices) :
    ∃ labels : List Int, computeCore indptr indices = some labels ∧ labels.length = n ∧
      ∀ v, v < n → ∃ c : Nat, labels.getD v 0 = (c : Int) ∧ IsCoreNumber n adj v c :=
  computeCore_spec_csr n adj hsym indptr indices hcsr

/-- a CSR structure with unsorted rows: the triangle, every row stored in decreasing order -/
example : IsCsrOf 3 (fun a b => a != b) [0, 2, 4, 6] [2, 1, 2, 0, 1, 0] :=
  ⟨by decide, by decide, by decide⟩

/-- ★ `core_exact`, executable form: `get_core_decomposition` returns exactly the table of `coreNumberSpec`,
    for every row order (`IsCsrOf`) -/
theorem core_exact_spec_csr (n : Nat) (adj : Nat → Nat → Bool) (hsym : ∀ a b, adj a b = adj b a)
    (indptr indices : List Nat) (hcsr : IsCsrOf n adj indptr indices) :
    computeCore indptr indices = some (tab n fun v => (coreNumberSpec n adj v : Int)) := by
  obtain ⟨labels, h1, h2, h3⟩ := computeCore_spec_csr n adj hsym indptr indices hcsr
  rw [h1]
  congr 1
  apply List.ext_getElem
  · rw [h2, tab_length]
  · intro i hi1 hi2
    have hi : i < n := by rw [← h2]; exact hi1
    obtain ⟨c, hc1, hc2⟩ := h3 i hi
    have hu := isCoreNumber_unique n adj i c _ hc2 (coreNumberSpec_isCoreNumber n adj i hi)
    have e1 : labels[i] = labels.getD i 0 := by
      rw [List.getD_eq_getElem?_getD, List.getElem?_eq_getElem hi1]; rfl
    have e2 : (tab n fun v => (coreNumberSpec n adj v : Int))[i] =
        (tab n fun v => (coreNumberSpec n adj v : Int)).getD i 0 := by
      rw [List.getD_eq_getElem?_getD, List.getElem?_eq_getElem hi2]; rfl
    rw [e1, e2, hc1, tab_getD, if_pos hi, hu]

/-- `core_exact_spec_csr` on the canonical CSR structure of the graph -/
theorem core_exact_spec (n : Nat) (adj : Nat → Nat → Bool) (hsym : ∀ a b, adj a b = adj b a) :
    computeCore (csrOfEdge n adj).indptr (csrOfEdge n adj).indices =
      some (tab n fun v => (coreNumberSpec n adj v : Int)) :=
  core_exact_spec_csr n adj hsym _ _ (csrOfEdge_isCsrOf n adj)

/-- ★ the kernels of `count_cliques` for every row order (`IsCsrOf`; for stored zeros / duplicates see
    `count_cliques_entry_exact`): whatever order the rows are stored in, the result
    is the number of `k`-cliques -/
theorem count_cliques_exact_csr (n : Nat) (adj : Nat → Nat → Bool) (hsym : ∀ a b, adj a b = adj b a) (k : Nat)
    (hk : 2 ≤ k) (indptr indices : List Nat) (hcsr : IsCsrOf n adj indptr indices) :
    countCliques n ⟨indptr, indices⟩ adj k = .ok (some (cliqueCount n adj k)) := by
  obtain ⟨labels, h1, h2, _⟩ := computeCore_spec_csr n adj hsym indptr indices hcsr
  unfold countCliques
  rw [if_neg (by omega)]
  simp only
  rw [h1]
  simp only
  have hp : (argsort labels).Perm (List.range n) := by rw [← h2]; exact argsort_perm labels
  rw [cliques_exact n adj hsym k hk _ hp]
  rfl

/-- ★ `count_cliques` end to end (core values, `argsort`, `get_dag`, box, kernel): the number of `k`-cliques -/
theorem count_cliques_exact (n : Nat) (adj : Nat → Nat → Bool) (hsym : ∀ a b, adj a b = adj b a) (k : Nat)
    (hk : 2 ≤ k) :
    countCliques n (csrOfEdge n adj) adj k = .ok (some (cliqueCount n adj k)) := by
  obtain ⟨labels, h1, h2, _⟩ := computeCore_spec n adj hsym
  unfold countCliques
  rw [if_neg (by omega), h1]
  simp only
  have hp : (argsort labels).Perm (List.range n) := by rw [← h2]; exact argsort_perm labels
  rw [cliques_exact n adj hsym k hk _ hp]
  rfl

/-- the Python entry points refuse a non-square matrix (`check_square`; in `get_core_decomposition` since the repair
    e18a5a2e of /repo) and a clique size below two, before any kernel runs -/
theorem core_and_cliques_refusals (nRow nCol : Nat) (val : Nat → Nat → Rat) (k : Int) :
    (nRow ≠ nCol → getCoreDecomposition nRow nCol val = .error .valueError) ∧
    (nRow ≠ nCol → countCliquesEntry nRow nCol val k = .error .valueError) ∧
    (k < 2 → countCliquesEntry nRow nCol val k = .error .valueError) := by
  refine ⟨fun h => by simp [getCoreDecomposition, h], fun h => ?_, fun h => by simp [countCliquesEntry, h]⟩
  unfold countCliquesEntry
  by_cases hk : k < 2
  · rw [if_pos hk]
  · rw [if_neg hk]; simp [h]

example : (2 : Nat) ≠ 3 ∧ ((1 : Int) < 2) := by decide

/-- ★ `get_core_decomposition` end to end, whatever the storage: for every matrix whose non-zero entries (duplicate
    entries summed, stored zeros ignored — the canonicalisation of repair 00914a54) are the symmetric adjacency
    predicate `adj`, the result is the table of the core numbers. Stored zeros, duplicate entries, unsorted rows
    and weights do not matter. -/
theorem get_core_decomposition_exact (n : Nat) (adj : Nat → Nat → Bool) (hsym : ∀ a b, adj a b = adj b a)
    (val : Nat → Nat → Rat) (hval : ∀ i j, coreEdge val i j = adj i j) :
    getCoreDecomposition n n val = .ok (some (tab n fun v => (coreNumberSpec n adj v : Int))) := by
  have he : coreEdge val = adj := by funext i j; exact hval i j
  unfold getCoreDecomposition
  simp only [bne_self_eq_false, Bool.false_eq_true, if_false]
  rw [he, core_exact_spec n adj hsym]

/-- weights 2 and 1/2 on a path: `coreEdge` of the matrix is the path -/
example : ∀ i j, coreEdge (fun i j : Nat => if i + 1 = j then (2 : Rat) else if j + 1 = i then (1 / 2 : Rat) else 0) i j =
    (fun i j : Nat => decide (i + 1 = j ∨ j + 1 = i)) i j := by
  intro i j
  unfold coreEdge
  by_cases h1 : i + 1 = j
  · simp [h1]
  · by_cases h2 : j + 1 = i
    · simp [h1, h2]
    · simp [h1, h2]

theorem symEdge_symm (val : Nat → Nat → Rat) (a b : Nat) : symEdge val a b = symEdge val b a := by
  unfold symEdge; rw [Rat.add_comm]

/-- ★ `count_cliques` end to end, for **every square matrix** (directed or not, any weights, any storage): since the
    repair of /repo that symmetrises the input as `count_triangles` does, `count_cliques(adjacency, k)` is the number
    of `k`-cliques of the undirected graph `A + Aᵀ ≠ 0`, for every `k ≥ 2` — no hypothesis on the matrix -/
theorem count_cliques_entry_exact (n : Nat) (val : Nat → Nat → Rat) (k : Nat) (hk : 2 ≤ k) :
    countCliquesEntry n n val (k : Int) = .ok (some (cliqueCount n (symEdge val) k)) := by
  unfold countCliquesEntry
  have h1 : ¬ ((k : Int) < 2) := by omega
  rw [if_neg h1]
  simp only [bne_self_eq_false, Bool.false_eq_true, if_false]
  obtain ⟨labels, hl1, hl2, _⟩ := computeCore_spec n (symEdge val) (symEdge_symm val)
  rw [hl1]
  simp only [Int.toNat_natCast]
  have hp : (argsort labels).Perm (List.range n) := by rw [← hl2]; exact argsort_perm labels
  rw [cliques_exact n (symEdge val) (symEdge_symm val) k hk _ hp]
  rfl

example : (2 : Nat) ≤ 3 := by decide

/-- for an undirected graph given by its symmetric 0/1 matrix this is the number of `k`-cliques of the graph -/
theorem count_cliques_entry_exact_undirected (n : Nat) (adj : Nat → Nat → Bool) (hsym : ∀ a b, adj a b = adj b a)
    (k : Nat) (hk : 2 ≤ k) :
    countCliquesEntry n n (fun i j => if adj i j then 1 else 0) (k : Int) = .ok (some (cliqueCount n adj k)) := by
  rw [count_cliques_entry_exact n _ k hk]
  congr 3
  funext i j
  exact symEdge_indicator adj hsym i j

/-! ### clustering coefficient -/

/-- ★ `clustering_coefficient_eq`: `get_clustering_coefficient` is three times the number of triangles over the
    number of connected triples (and numpy's `nan` exactly when there is no connected triple), sequentially and
    under every schedule of the parallel loop. -/
theorem clustering_coefficient_eq (n : Nat) (val : Nat → Nat → Rat) (s : Option Schedule)
    (h : ∀ sch, s = some sch → sch.Valid n) :
    clusteringCoefficient n n val s = .ok (clusteringSpec n (symEdge val)) := by
  have ht : countTriangles n n val s = .ok (cliqueCount n (symEdge val) 3) := by
    cases s with
    | none => exact triangles_exact n val
    | some sch => exact triangles_parallel_exact n val sch (h sch rfl)
  unfold clusteringCoefficient clusteringSpec
  rw [ht, twiceEdgePairs_eq]
  simp only [bind, Except.bind, pure, Except.pure]
  by_cases h0 : tripleCount n (symEdge val) = 0
  · simp [h0]
  · have h2 : 2 * tripleCount n (symEdge val) ≠ 0 := by omega
    simp only [h2, h0, if_false]
    congr 2
    have hq : (tripleCount n (symEdge val) : Rat) ≠ 0 := by exact_mod_cast h0
    push_cast
    field_simp

example : ∀ sch, (none : Option Schedule) = some sch → sch.Valid 5 := by intro sch h; cases h

example : ∀ sch, some (staticSchedule 5 3) = some sch → sch.Valid 5 := by
  intro sch h; cases h; exact staticSchedule_valid 5 3

/-- the coefficient from the triangle count and the degree sequence alone (what the spec lines evaluate on the hub
    graphs, too large for the brute-force counts) is the specification: `#connected triples = Σ_v C(deg v, 2)` -/
theorem clusteringSpec_from_degrees (n : Nat) (adj : Nat → Nat → Bool) :
    clusteringFromDegrees (cliqueCount n adj 3) ((List.range n).map fun v => (nbrs n adj v).length) =
      clusteringSpec n adj := by
  unfold clusteringFromDegrees clusteringSpec
  have hsum := sum_degree_products n adj
  simp only [hsum]
  by_cases h0 : tripleCount n adj = 0
  · simp [h0]
  · have h2 : 2 * tripleCount n adj ≠ 0 := by omega
    simp only [h2, h0, if_false]
    congr 1
    have hq : (tripleCount n adj : Rat) ≠ 0 := by exact_mod_cast h0
    push_cast
    field_simp

/-! ### renumbering the nodes (for C02)

`π`, `πinv` are inverse bijections of `{0..n-1}` (`SkNet.WL.IsPerm n π πinv`); new node `π v` is old node `v`, so the
renumbered adjacency predicate is `relabel πinv adj i j = adj (πinv i) (πinv j)` and the renumbered matrix is
`fun i j => val (πinv i) (πinv j)`. -/

/-- the rotation of three nodes, used as the non-vacuity witness of this section -/
example : SkNet.WL.IsPerm 3 (fun i => (i + 1) % 3) (fun i => (i + 2) % 3) :=
  ⟨by decide, by decide, by decide, by decide⟩

/-- ★ `cliques_relabel_invariant` (specification level): the number of `k`-cliques of the renumbered graph is the
    number of `k`-cliques of the graph, for every `k` -/
theorem cliques_relabel_invariant_spec {n : Nat} {π πinv : Nat → Nat} (hp : SkNet.WL.IsPerm n π πinv)
    (adj : Nat → Nat → Bool) (hsym : ∀ a b, adj a b = adj b a) (k : Nat) :
    cliqueCount n (relabel πinv adj) k = cliqueCount n adj k :=
  cliqueCount_relabel hp adj hsym k

/-- ★ `triangles_relabel_invariant`: `count_triangles` of the renumbered matrix equals `count_triangles` of the
    matrix — for every square matrix (the symmetrisation `A + Aᵀ` commutes with the renumbering), sequentially and
    under any two valid schedules of the parallel loop -/
theorem triangles_relabel_invariant {n : Nat} {π πinv : Nat → Nat} (hp : SkNet.WL.IsPerm n π πinv)
    (val : Nat → Nat → Rat) (s s' : Option Schedule) (hs : ∀ sch, s = some sch → sch.Valid n)
    (hs' : ∀ sch, s' = some sch → sch.Valid n) :
    countTriangles n n (fun i j => val (πinv i) (πinv j)) s = countTriangles n n val s' := by
  have key : ∀ (w : Nat → Nat → Rat) (t : Option Schedule), (∀ sch, t = some sch → sch.Valid n) →
      countTriangles n n w t = .ok (cliqueCount n (symEdge w) 3) := by
    intro w t ht
    cases t with
    | none => exact triangles_exact n w
    | some sch => exact triangles_parallel_exact n w sch (ht sch rfl)
  rw [key _ s hs, key _ s' hs']
  have hrel : symEdge (fun i j => val (πinv i) (πinv j)) = relabel πinv (symEdge val) := rfl
  have hsym : ∀ a b, symEdge val a b = symEdge val b a := by
    intro a b; unfold symEdge; rw [Rat.add_comm]
  rw [hrel, cliqueCount_relabel hp (symEdge val) hsym 3]

example : ∀ sch, (none : Option Schedule) = some sch → sch.Valid 3 := by intro sch h; cases h

/-- ★ `cliques_relabel_invariant`: `count_cliques(k)` of the renumbered graph equals `count_cliques(k)` of the graph,
    for every `k` (both refuse `k < 2`), whatever row order (`IsCsrOf`) either graph is stored in -/
theorem cliques_relabel_invariant {n : Nat} {π πinv : Nat → Nat} (hp : SkNet.WL.IsPerm n π πinv)
    (adj : Nat → Nat → Bool) (hsym : ∀ a b, adj a b = adj b a) (k : Nat)
    (indptr indices indptr' indices' : List Nat) (hcsr : IsCsrOf n adj indptr indices)
    (hcsr' : IsCsrOf n (relabel πinv adj) indptr' indices') :
    countCliques n ⟨indptr', indices'⟩ (relabel πinv adj) k = countCliques n ⟨indptr, indices⟩ adj k := by
  by_cases hk : 2 ≤ k
  · rw [count_cliques_exact_csr n _ (relabel_symm πinv adj hsym) k hk indptr' indices' hcsr',
      count_cliques_exact_csr n adj hsym k hk indptr indices hcsr, cliqueCount_relabel hp adj hsym k]
  · unfold countCliques
    rw [if_pos (by omega), if_pos (by omega)]

/-- the canonical CSR structures are instances of the hypotheses of `cliques_relabel_invariant` -/
example (n : Nat) (adj : Nat → Nat → Bool) (πinv : Nat → Nat) :
    IsCsrOf n adj (csrOfEdge n adj).indptr (csrOfEdge n adj).indices ∧
      IsCsrOf n (relabel πinv adj) (csrOfEdge n (relabel πinv adj)).indptr (csrOfEdge n (relabel πinv adj)).indices :=
  ⟨csrOfEdge_isCsrOf n adj, csrOfEdge_isCsrOf n _⟩

/-- ★ `core_relabel_equivariant` (specification level): the core number of `π v` in the renumbered graph is the core
    number of `v` in the graph — for the definition (`IsCoreNumber`) and for its executable form -/
theorem core_relabel_equivariant_spec {n : Nat} {π πinv : Nat → Nat} (hp : SkNet.WL.IsPerm n π πinv)
    (adj : Nat → Nat → Bool) (v : Nat) (hv : v < n) :
    (∀ c, IsCoreNumber n (relabel πinv adj) (π v) c ↔ IsCoreNumber n adj v c) ∧
      coreNumberSpec n (relabel πinv adj) (π v) = coreNumberSpec n adj v :=
  ⟨fun c => isCoreNumber_relabel hp adj v c hv, coreNumberSpec_relabel hp adj v hv⟩

/-- ★ `core_relabel_equivariant`: `get_core_decomposition` of the renumbered graph, read at `π v`, is
    `get_core_decomposition` of the graph read at `v`, whatever row order (`IsCsrOf`) either graph is stored in -/
theorem core_relabel_equivariant {n : Nat} {π πinv : Nat → Nat} (hp : SkNet.WL.IsPerm n π πinv)
    (adj : Nat → Nat → Bool) (hsym : ∀ a b, adj a b = adj b a)
    (indptr indices indptr' indices' : List Nat) (hcsr : IsCsrOf n adj indptr indices)
    (hcsr' : IsCsrOf n (relabel πinv adj) indptr' indices') :
    ∃ labels labels' : List Int, computeCore indptr indices = some labels ∧
      computeCore indptr' indices' = some labels' ∧
      ∀ v, v < n → labels'.getD (π v) 0 = labels.getD v 0 := by
  refine ⟨_, _, core_exact_spec_csr n adj hsym indptr indices hcsr,
    core_exact_spec_csr n _ (relabel_symm πinv adj hsym) indptr' indices' hcsr', ?_⟩
  intro v hv
  rw [tab_getD, tab_getD, if_pos (hp.lt v hv), if_pos hv, coreNumberSpec_relabel hp adj v hv]

/-- ★ `cliques_relabel_invariant` at the entry point, for **every square matrix** (digraphs included, any weights):
    `count_cliques(k)` of the renumbered matrix equals `count_cliques(k)` of the matrix, for every `k` -/
theorem count_cliques_entry_relabel_invariant {n : Nat} {π πinv : Nat → Nat} (hp : SkNet.WL.IsPerm n π πinv)
    (val : Nat → Nat → Rat) (k : Int) :
    countCliquesEntry n n (fun i j => val (πinv i) (πinv j)) k = countCliquesEntry n n val k := by
  by_cases hk : k < 2
  · rw [(core_and_cliques_refusals n n _ k).2.2 hk, (core_and_cliques_refusals n n val k).2.2 hk]
  · have hk' : k = ((k.toNat : Nat) : Int) := by omega
    rw [hk', count_cliques_entry_exact n _ k.toNat (by omega), count_cliques_entry_exact n val k.toNat (by omega)]
    have hrel : symEdge (fun i j => val (πinv i) (πinv j)) = relabel πinv (symEdge val) := rfl
    rw [hrel, cliqueCount_relabel hp (symEdge val) (symEdge_symm val) k.toNat]

/-- ★ the clustering coefficient of the renumbered matrix is the clustering coefficient of the matrix (including
    the `nan` case), sequentially and under any two valid schedules -/
theorem clustering_relabel_invariant {n : Nat} {π πinv : Nat → Nat} (hp : SkNet.WL.IsPerm n π πinv)
    (val : Nat → Nat → Rat) (s s' : Option Schedule) (hs : ∀ sch, s = some sch → sch.Valid n)
    (hs' : ∀ sch, s' = some sch → sch.Valid n) :
    clusteringCoefficient n n (fun i j => val (πinv i) (πinv j)) s = clusteringCoefficient n n val s' := by
  rw [clustering_coefficient_eq n _ s hs, clustering_coefficient_eq n val s' hs']
  have hrel : symEdge (fun i j => val (πinv i) (πinv j)) = relabel πinv (symEdge val) := rfl
  have hsym : ∀ a b, symEdge val a b = symEdge val b a := by
    intro a b; unfold symEdge; rw [Rat.add_comm]
  rw [hrel, clusteringSpec_relabel hp (symEdge val) hsym]

/-- the number of connected triples is unchanged as well -/
theorem triples_relabel_invariant {n : Nat} {π πinv : Nat → Nat} (hp : SkNet.WL.IsPerm n π πinv)
    (adj : Nat → Nat → Bool) : tripleCount n (relabel πinv adj) = tripleCount n adj :=
  tripleCount_relabel hp adj

/-! ### the property, assembled -/

/-- the 0/1 adjacency matrix of an adjacency predicate -/
def indicator (adj : Nat → Nat → Bool) (i j : Nat) : Rat := if adj i j then 1 else 0

/-- **C11 on the model**: for every undirected simple graph (any number of nodes `n`, any symmetric, loop-free
    adjacency predicate — the proofs do not use loop-freeness, but with a loop `coreNumberSpec` and `clusteringSpec`
    count the loop as a neighbour and are no longer the quantities the property names)
    `count_triangles` is the number of 3-cliques, sequentially and under every schedule of the parallel loop
    (any number of threads); `count_cliques(k)` is the number of `k`-cliques for every `k ≥ 2`;
    `get_core_decomposition` is the core number of every node (both stated for the Python entry points, what the
    `run` lines execute); `get_clustering_coefficient` is three times the
    triangle count over the number of connected triples (`nan` when there is none), sequentially or in parallel. -/
theorem C11_model (n : Nat) (adj : Nat → Nat → Bool) (hsym : ∀ a b, adj a b = adj b a)
    (_hirr : ∀ a, adj a a = false) :
    countTriangles n n (indicator adj) none = .ok (cliqueCount n adj 3) ∧
    (∀ s : Schedule, s.Valid n → countTriangles n n (indicator adj) (some s) = .ok (cliqueCount n adj 3)) ∧
    (∀ k : Nat, 2 ≤ k → countCliquesEntry n n (indicator adj) (k : Int) = .ok (some (cliqueCount n adj k))) ∧
    getCoreDecomposition n n (indicator adj) = .ok (some (tab n fun v => (coreNumberSpec n adj v : Int))) ∧
    (∀ v, v < n → IsCoreNumber n adj v (coreNumberSpec n adj v)) ∧
    clusteringCoefficient n n (indicator adj) none = .ok (clusteringSpec n adj) ∧
    (∀ s : Schedule, s.Valid n → clusteringCoefficient n n (indicator adj) (some s) = .ok (clusteringSpec n adj)) := by
  have hse : symEdge (indicator adj) = adj := by
    funext i j; exact symEdge_indicator adj hsym i j
  have hce : ∀ i j, coreEdge (indicator adj) i j = adj i j := by
    intro i j
    unfold coreEdge indicator
    by_cases h : adj i j = true
    · simp [h]
    · simp [h]
  refine ⟨triangles_exact_undirected n adj hsym, ?_,
    fun k hk => count_cliques_entry_exact_undirected n adj hsym k hk,
    get_core_decomposition_exact n adj hsym (indicator adj) hce, fun v hv => coreNumberSpec_exact n adj v hv, ?_, ?_⟩
  · intro s hs
    rw [triangles_parallel_exact n (indicator adj) s hs, hse]
  · rw [clustering_coefficient_eq n (indicator adj) none (fun sch h => by cases h), hse]
  · intro s hs
    rw [clustering_coefficient_eq n (indicator adj) (some s) (fun sch h => by cases h; exact hs), hse]

/-- a graph the theorem applies to: the 5-cycle with a chord -/
example : ∀ a b, (fun a b : Nat => (a + 1 = b ∨ b + 1 = a ∨ (a = 0 ∧ b = 4) ∨ (a = 4 ∧ b = 0) ∨
    (a = 0 ∧ b = 2) ∨ (a = 2 ∧ b = 0) : Bool)) a b =
    (fun a b : Nat => (a + 1 = b ∨ b + 1 = a ∨ (a = 0 ∧ b = 4) ∨ (a = 4 ∧ b = 0) ∨
    (a = 0 ∧ b = 2) ∨ (a = 2 ∧ b = 0) : Bool)) b a := by
  intro a b
  simp only [decide_eq_decide]
  omega

end SkNet.C11
