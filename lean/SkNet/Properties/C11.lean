/- C11 — property theorems (filled below). -/
import SkNet.Model.Topology
import SkNet.Spec.Topology

namespace SkNet.C11
open SkNet SkNet.Topology

end SkNet.C11
