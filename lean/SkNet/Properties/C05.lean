/- C05 — property theorems (work in progress: filled below). -/
import SkNet.Model.Clustering
import SkNet.Spec.Clustering

namespace SkNet.C05
open SkNet SkNet.Clustering

theorem identity_rows_length (n : Nat) : (identity n).rows.length = n := by simp [identity]

end SkNet.C05
