/-
C05 — Every clustering is a well-formed partition with consistent secondary outputs.

The theorems are about the model `SkNet/Model/Clustering.lean` (tied to the code on every run by
`tools/harness/c05.py`) and the specification `SkNet/Spec/Clustering.lean`.  They hold for every size,
every label vector the kernels may return, every sorting permutation `np.argsort` may return, every
shuffling permutation and every non-negative weighted input.  Proof details live in `SkNet/Lemmas/Clustering*`.

Parameters (outside this property, see DESIGN 5/C05): the Louvain / Leiden kernels (C06), the propagation
sweeps (C13), PageRank and the random choices of KCenters (C04).  Their contracts are stated next to the
theorems that use them (`KernelLen`, `LeidenContract`, `ChoiceOK`, `IsArgsort`) with an instance each.
-/
import SkNet.Lemmas.ClusteringLeiden
import SkNet.Lemmas.ClusteringSecondary
import SkNet.Lemmas.ClusteringKCenters
import SkNet.Lemmas.ClusteringAggregate
import SkNet.Lemmas.ClusteringCanon
import SkNet.Lemmas.ClusteringPre

namespace SkNet.C05
open SkNet SkNet.Clustering

/-! ## 1. `reindex_labels` — relabelling by decreasing size -/

/-- ★ `reindex_labels` keeps the partition: two nodes share a new label iff they shared a label.
    For *any* permutation `argsort` may return that sorts the negated counts (ties in any order). -/
theorem reindex_same_partition (argsort : List Int → List Nat) (labels : List Int)
    (h : IsArgsort (sizeKey labels) (argsort (sizeKey labels))) :
    SamePartition labels (reindexLabels argsort labels) :=
  reindex_samePartition h

/-- ★ the new labels are exactly `0..k-1`, `k` the number of distinct input labels -/
theorem reindex_contiguous (argsort : List Int → List Nat) (labels : List Int)
    (h : IsArgsort (sizeKey labels) (argsort (sizeKey labels))) :
    Contiguous (reindexLabels argsort labels) (unique labels).length :=
  reindex_contiguous' h

/-- ★ cluster sizes are non-increasing in the new label -/
theorem reindex_sizes_noninc (argsort : List Int → List Nat) (labels : List Int)
    (h : IsArgsort (sizeKey labels) (argsort (sizeKey labels))) :
    SizesNonInc (reindexLabels argsort labels) (unique labels).length :=
  reindex_sizes h

/-- ★ the three together, in the form of the property: `reindex_labels` returns a valid sorted clustering -/
theorem reindex_valid (argsort : List Int → List Nat) (labels : List Int)
    (h : IsArgsort (sizeKey labels) (argsort (sizeKey labels))) :
    ValidClustering labels.length (reindexLabels argsort labels) true :=
  validClustering_of_validK reindex_length (reindex_validK h)

/-- the contract on `argsort` is satisfiable: the stable insertion argsort of the model meets it for every key -/
theorem argsort_contract_inhabited (key : List Int) : IsArgsort key (argsortStable key) :=
  argsortStable_isArgsort key

/-- hence, without hypotheses, for the concrete argsort used by the run lines -/
theorem reindex_stable_valid (labels : List Int) :
    ValidClustering labels.length (reindexLabels argsortStable labels) true ∧
    SamePartition labels (reindexLabels argsortStable labels) :=
  ⟨reindex_valid _ _ (argsortStable_isArgsort _), reindex_same_partition _ _ (argsortStable_isArgsort _)⟩

/-- ★ what `argsort` does on ties cannot matter beyond a permutation of labels among clusters of equal size:
    two valid clusterings sorted by size with the same partition have the same number of labels and the same size
    for every label.  (This is the canonical form in which the harness compares label vectors: partition + sizes.) -/
theorem sorted_clusterings_same_profile {a b : List Nat} {k k' : Nat} (h : SamePartition a b)
    (ha : ValidK a k true) (hb : ValidK b k' true) : k = k' ∧ ∀ c, a.count c = b.count c :=
  sorted_profile_unique h ha hb

/-- in particular the outputs of `reindex_labels` under two different admissible `argsort`s (say numpy's
    introsort and the stable sort of the model) have the same partition and the same size for every label -/
theorem reindex_independent_of_argsort (argsort₁ argsort₂ : List Int → List Nat) (labels : List Int)
    (h₁ : IsArgsort (sizeKey labels) (argsort₁ (sizeKey labels)))
    (h₂ : IsArgsort (sizeKey labels) (argsort₂ (sizeKey labels))) :
    SamePartition (reindexLabels argsort₁ labels) (reindexLabels argsort₂ labels) ∧
    ∀ c, (reindexLabels argsort₁ labels).count c = (reindexLabels argsort₂ labels).count c := by
  have hp : SamePartition (reindexLabels argsort₁ labels) (reindexLabels argsort₂ labels) := by
    have s1 := reindex_samePartition h₁
    have s2 := reindex_samePartition h₂
    refine ⟨s1.1.symm.trans s2.1, fun i hi j hj => ?_⟩
    have hi' : i < labels.length := s1.1 ▸ hi
    have hj' : j < labels.length := s1.1 ▸ hj
    exact (s1.2 i hi' j hj').symm.trans (s2.2 i hi' j hj')
  exact ⟨hp, (sorted_profile_unique hp (reindex_validK h₁) (reindex_validK h₂)).2⟩

-- non-vacuity: a label vector with gaps, a negative label and a tie between sizes
example : reindexLabels argsortStable [7, -2, 7, 3, 3, 7, 9] = [0, 2, 0, 1, 1, 0, 3] := by decide
instance (key : List Int) (p : List Nat) : Decidable (IsArgsort key p) := by unfold IsArgsort; infer_instance
example : IsArgsort (sizeKey [7, -2, 7, 3, 3, 7, 9]) [2, 1, 0, 3] ∧ IsArgsort (sizeKey [7, -2, 7, 3, 3, 7, 9]) [2, 1, 3, 0] := by
  decide

/-! ## 2. the un-shuffle of `_post_processing` -/

/-- ★ after `reverse[index] = arange(n); labels = labels[reverse]`, original node `index[j]` carries the label
    computed for its shuffled position `j` (the shuffled graph is `adjacency[index][:, index]`) -/
theorem unshuffle_correct {labels index out : List Nat} (hp : index.Perm (List.range labels.length))
    (h : unshuffle labels index = .ok out) {j : Nat} (hj : j < labels.length) :
    out[index.getD j 0]? = labels[j]? :=
  unshuffle_getElem? hp h hj

/-- ★ the un-shuffle never raises on a permutation and only permutes the label vector: contiguity of the labels
    and the order of the sizes are preserved -/
theorem unshuffle_preserves_valid {labels index : List Nat} {n : Nat} {sorted : Bool}
    (hp : index.Perm (List.range labels.length)) (hv : ValidClustering n labels sorted) :
    ∃ out, unshuffle labels index = .ok out ∧ out.Perm labels ∧ ValidClustering n out sorted := by
  refine ⟨_, unshuffle_ok hp, unshuffle_perm hp (unshuffle_ok hp), ?_⟩
  have hperm := unshuffle_perm hp (unshuffle_ok hp)
  have hk : ValidK labels (nLabels labels) sorted := ⟨hv.2.1, hv.2.2⟩
  exact validClustering_of_validK (hperm.length_eq.trans hv.1) (hk.of_perm hperm.symm)

/-- ★ the un-shuffle inverts the shuffle `adjacency[index][:, index]` (position `j` stands for node `index[j]`):
    labels given to the shuffled positions come back to their original nodes -/
theorem unshuffle_inverts_shuffle {L index : List Nat} (hp : index.Perm (List.range L.length)) :
    unshuffle (index.map fun v => L.getD v 0) index = .ok L :=
  unshuffle_shuffle hp

example : unshuffle [0, 0, 1, 2] [2, 0, 3, 1] = .ok [0, 2, 0, 1] := by decide
example : ([2, 0, 3, 1] : List Nat).Perm (List.range 4) := by decide

/-! ## 3. membership matrices across aggregation levels -/

/-- ★ a product of one-hot membership matrices is one-hot: `membership.dot(get_membership(labels))` has exactly
    one stored index per row, in row order, namely the label of the row's previous cluster -/
theorem compose_membership_partition {a b : List Nat} (hb : b ≠ []) (ha : ∀ x ∈ a, x < b.length) :
    ∃ mb m, getMembership (b.map Int.ofNat) none = .ok mb ∧
      dot (ofLabels a b.length) mb = .ok m ∧ indices m = a.map fun x => b.getD x 0 := by
  refine ⟨_, _, getMembership_ofNat hb, dot_ofLabels rfl ha, indices_ofLabels _ _⟩

/-- ★ invariant of the loop of `Louvain.fit` (any kernel returning one label per node): no exception; the
    membership matrix stays the one-hot matrix of a labelling with labels exactly `0..k-1` that coarsens the
    previous levels -/
theorem louvain_loop_invariant {kernel : Nat → Nat → List Int × Bool} {nAgg : Int} (hk : KernelLen kernel)
    (fuel count n : Nat) (a : List Nat) (hn : 0 < n) (ha : Contiguous a n) :
    louvainLoop kernel nAgg fuel count n (ofLabels a n) = .ok none ∨
    ∃ a' k count', louvainLoop kernel nAgg fuel count n (ofLabels a n) = .ok (some (ofLabels a' k, count')) ∧
      a'.length = a.length ∧ 0 < k ∧ Contiguous a' k ∧ Coarser a a' :=
  louvainLoop_spec hk fuel count n a hn ha

/-! ## 4. `np.unique(return_inverse)` compaction (propagation, and every aggregation level) -/

/-- ★ compaction yields labels exactly `0..k-1` and keeps the partition -/
theorem compaction_contiguous (raw : List Int) :
    Contiguous (inverse raw) (unique raw).length ∧ SamePartition raw (inverse raw) :=
  ⟨inverse_contiguous raw, inverse_samePartition raw⟩

/-- ★ `PropagationClustering` (after the repair of F9): for any labels left by the sweeps the result is a valid
    clustering, sorted by size when `sort_clusters`, with the partition of the sweeps -/
theorem propagation_valid {argsort : List Int → List Nat} (hs : ∀ key, IsArgsort key (argsort key))
    (raw : List Int) (sortClusters bipartite : Bool) (nRow : Nat) :
    ValidClustering raw.length (allLabels (propagationPost argsort raw sortClusters bipartite nRow)) sortClusters ∧
    SamePartition raw (allLabels (propagationPost argsort raw sortClusters bipartite nRow)) :=
  propagationPost_spec hs raw sortClusters bipartite nRow

/-- F9 (found on the pinned tree, repaired by commit 82bf0bf1): without the relabelling step the output of
    `PropagationClustering(sort_clusters=True)` on the witness (node 0 isolated, edge 1–2: sweeps leave `[0,2,2]`)
    is `[0,1,1]`, which is not sorted by size; with the step it is `[1,0,0]`. -/
theorem f9_witness :
    ¬ ValidClustering 3 (allLabels (splitVars false 3 (inverse [0, 2, 2]))) true ∧
    allLabels (propagationPost argsortStable [0, 2, 2] true false 3) = [1, 0, 0] := by
  decide

/-! ## 5. the whole of `Louvain.fit` / `Leiden.fit` around the kernels -/

/-- ★ Louvain, partial correctness (the left disjunct `.ok none` = "the `fuel` rounds allowed were used up"; it is
    excluded by `louvain_fit_total` under the stop clause of the kernel contract): for every kernel that returns one
    label per node, every sorting `argsort`, every shuffling permutation and every option, the fit does not raise
    and — when the loop stops — `labels_` (rows then columns for a bipartite graph) is a valid clustering of the `N`
    nodes, sorted by size when `sort_clusters` -/
theorem louvain_fit_valid {argsort : List Int → List Nat} (hs : ∀ key, IsArgsort key (argsort key))
    {kernel : Nat → Nat → List Int × Bool} (hk : KernelLen kernel) (nAgg : Int) (fuel : Nat) {N : Nat}
    (hN : 0 < N) (sortClusters shuffle bipartite : Bool) (nRow : Nat) {index : List Nat}
    (hidx : shuffle = true → index.Perm (List.range N)) :
    louvainFit argsort kernel nAgg fuel N index sortClusters shuffle bipartite nRow = .ok none ∨
    ∃ f count, louvainFit argsort kernel nAgg fuel N index sortClusters shuffle bipartite nRow = .ok (some (f, count)) ∧
      ValidClustering N (allLabels f) sortClusters ∧ f = splitVars bipartite nRow (allLabels f) :=
  louvainFit_spec hs hk nAgg fuel hN sortClusters shuffle bipartite nRow hidx

/-- ★ Leiden, partial correctness (see `leiden_fit_total`): same statement; the refinement kernel must keep every refined cluster inside one cluster of the
    partition it refines (`LeidenContract.within`, the statement of C06 about `optimize_refine_core`) -/
theorem leiden_fit_valid {argsort : List Int → List Nat} (hs : ∀ key, IsArgsort key (argsort key))
    {kernel : Nat → List Nat → List Int × Bool} {refine : Nat → List Nat → List Int}
    (hk : LeidenContract kernel refine) (nAgg : Int) (fuel : Nat) {N : Nat}
    (hN : 0 < N) (sortClusters shuffle bipartite : Bool) (nRow : Nat) {index : List Nat}
    (hidx : shuffle = true → index.Perm (List.range N)) :
    leidenFit argsort kernel refine nAgg fuel N index sortClusters shuffle bipartite nRow = .ok none ∨
    ∃ f count, leidenFit argsort kernel refine nAgg fuel N index sortClusters shuffle bipartite nRow
        = .ok (some (f, count)) ∧ ValidClustering N (allLabels f) sortClusters ∧
      f = splitVars bipartite nRow (allLabels f) :=
  leidenFit_spec hs hk nAgg fuel hN sortClusters shuffle bipartite nRow hidx

/-- with a positive `n_aggregations` the fuel `n_aggregations` suffices: the loop of `Louvain.fit` stops by its
    counter (termination in general rests on the kernel's modularity increase — C17) -/
theorem louvain_fuel_suffices {kernel : Nat → Nat → List Int × Bool} {nAgg : Int} (hk : KernelLen kernel)
    {N : Nat} (hN : 0 < N) (hpos : 0 < nAgg) :
    louvainLoop kernel nAgg nAgg.toNat 0 N (identity N) ≠ .ok none := by
  rw [identity_eq]
  exact louvainLoop_fuel_nAgg hk nAgg.toNat 0 N (List.range N) hN
    ⟨fun x hx => List.mem_range.mp hx, fun c hc => List.mem_range.mpr hc⟩ (by simpa using hpos) (by omega)

/-- ★★ total form (no fuel disjunct): under the full kernel contract — one label per node (`KernelLen`) and "no
    merge ⇒ `increase ≤ tol_aggregation`" (`NoMergeStops`, true of `optimize_core` for `tol_aggregation ≥ 0` by C17's
    `louvain_outer_terminates`; false for a negative tolerance, where the real loop does not terminate) — and with as
    many rounds as nodes, `Louvain.fit` returns, for every `n_aggregations` (the default `-1` included) -/
theorem louvain_fit_total {argsort : List Int → List Nat} (hs : ∀ key, IsArgsort key (argsort key))
    {kernel : Nat → Nat → List Int × Bool} (hk : KernelLen kernel) (hst : NoMergeStops kernel) (nAgg : Int)
    {fuel N : Nat} (hN : 0 < N) (hf : N ≤ fuel) (sortClusters shuffle bipartite : Bool) (nRow : Nat)
    {index : List Nat} (hidx : shuffle = true → index.Perm (List.range N)) :
    ∃ f count, louvainFit argsort kernel nAgg fuel N index sortClusters shuffle bipartite nRow = .ok (some (f, count)) ∧
      ValidClustering N (allLabels f) sortClusters ∧ f = splitVars bipartite nRow (allLabels f) :=
  louvainFit_total hs hk hst nAgg hN hf sortClusters shuffle bipartite nRow hidx

/-- ★★ total form for Leiden, under `LeidenContract` alone: since the repair b2c73765 (`stop |= n == n_previous`) a
    round whose refinement merges nothing ends the loop, so every continuing round has strictly fewer nodes and
    `Leiden.fit` returns within as many rounds as nodes — for every `n_aggregations`, every tolerance, whatever the
    stop flags are (before the repair this needed an unproved progress assumption, and `tol_aggregation = 0` could
    loop for ever: corpus of C17) -/
theorem leiden_fit_total {argsort : List Int → List Nat} (hs : ∀ key, IsArgsort key (argsort key))
    {kernel : Nat → List Nat → List Int × Bool} {refine : Nat → List Nat → List Int}
    (hk : LeidenContract kernel refine) (nAgg : Int) {fuel N : Nat}
    (hN : 0 < N) (hf : N ≤ fuel) (sortClusters shuffle bipartite : Bool) (nRow : Nat) {index : List Nat}
    (hidx : shuffle = true → index.Perm (List.range N)) :
    ∃ f count, leidenFit argsort kernel refine nAgg fuel N index sortClusters shuffle bipartite nRow
        = .ok (some (f, count)) ∧
      ValidClustering N (allLabels f) sortClusters ∧ f = splitVars bipartite nRow (allLabels f) :=
  leidenFit_total hs hk nAgg hN hf sortClusters shuffle bipartite nRow hidx

-- the contracts are satisfiable (the example kernels of this file meet them) and not vacuous: an idle kernel that
-- never merges and never raises the flag violates `NoMergeStops`, and the model then runs out of any fuel
example : NoMergeStops (fun _ n => (List.replicate n 0, decide (n ≤ 1))) := by
  intro count n h
  have hle : (unique (List.replicate n (0 : Int))).length ≤ 1 :=
    (List.subperm_of_subset (unique_nodup _) (l₂ := [0]) (fun x hx => by
      have := mem_unique.mp hx
      simp at this
      simp [this.2])).length_le
  simp only at h ⊢
  simp; omega
example : louvainFit argsortStable (fun _ n => ((List.range n).map Int.ofNat, false)) (-1) 50 3 [] true false false 3
    = .ok none := by decide

/-- ★ `_post_processing` alone, with the relation between the final labels and the clusters found: the output
    induces the partition of the composed membership, read through the shuffling permutation -/
theorem post_processing_valid {argsort : List Int → List Nat} (hs : ∀ key, IsArgsort key (argsort key))
    {a : List Nat} {k N : Nat} (hN : a.length = N) (hc : Contiguous a k)
    (sortClusters shuffle bipartite : Bool) (nRow : Nat) {index : List Nat}
    (hidx : shuffle = true → index.Perm (List.range N)) :
    ∃ f, postProcess argsort (ofLabels a k) index sortClusters shuffle bipartite nRow = .ok f ∧
      ValidClustering N (allLabels f) sortClusters ∧
      f = splitVars bipartite nRow (allLabels f) ∧
      ∃ L, SamePartition a L ∧
        (if shuffle then ∀ j, j < N → (allLabels f)[index.getD j 0]? = L[j]? else allLabels f = L) :=
  postProcess_spec hs hN hc sortClusters shuffle bipartite nRow hidx

/-- for a bipartite graph `labels_` is `labels_row_` (length `n_row`) and `labels_col_` holds the other labels -/
theorem split_vars_rows (nRow : Nat) (l : List Nat) (h : nRow ≤ l.length) :
    (splitVars true nRow l).labelsRow = some (splitVars true nRow l).labels ∧
    (splitVars true nRow l).labels.length = nRow ∧
    ∃ c, (splitVars true nRow l).labelsCol = some c ∧ c.length = l.length - nRow :=
  splitVars_bipartite nRow l h

-- non-vacuity of the kernel contracts, and a non-trivial run of the model (two levels, shuffled, sorted)
def exKernel : Nat → Nat → List Int × Bool :=
  fun _ n => ((List.range n).map fun i => (((i + 1) / 2 : Nat) : Int) * 3, decide (n ≤ 3))

example : KernelLen exKernel := fun _ _ => by simp [exKernel]
example : louvainFit argsortStable exKernel (-1) 5 5 [4, 2, 0, 3, 1] true true false 5
    = .ok (some (⟨[0, 0, 0, 0, 1], none, none⟩, 2)) := by decide

-- a multi-level run of the kind the total theorems cover: 9 nodes, fuel = 9, three levels
example : (louvainFit argsortStable exKernel (-1) 9 9 [] true false false 9).map (Option.map (·.2)) = .ok (some 3) := by
  decide

def exLeidenKernel : Nat → List Nat → List Int × Bool :=
  fun count labels => (labels.map fun x => ((x / 2 : Nat) : Int) + 10, decide (2 ≤ count))
def exRefine : Nat → List Nat → List Int := fun _ labels => labels.map Int.ofNat

example : LeidenContract exLeidenKernel exRefine :=
  ⟨fun _ _ => by simp [exLeidenKernel], fun _ _ => by simp [exRefine], fun _ labels i j hi hj h => by
    simp only [exRefine, List.getElem?_map, List.getElem?_eq_getElem hi, List.getElem?_eq_getElem hj,
      Option.map_some, Option.some.injEq] at h ⊢
    exact Int.ofNat.inj h⟩
example : leidenFit argsortStable exLeidenKernel exRefine (-1) 6 6 (List.range 6) true false true 4
    = .ok (some (⟨[0, 0, 0, 0], some [0, 0, 0, 0], some [1, 1]⟩, 2)) := by decide

-- the hypothesis `LeidenContract.within` is needed: a refinement whose clusters {0,1},{2,3} cut across the coarse
-- clusters {0,2},{1,3} makes `membership_refined.T.dot(membership).indices` twice too long, and the next round fails
def badKernel : Nat → List Nat → List Int × Bool :=
  fun c labels => if c = 1 then ([0, 1, 0, 1], false) else (labels.map Int.ofNat, true)
def badRefine : Nat → List Nat → List Int :=
  fun c labels => if c = 1 then [0, 0, 1, 1] else labels.map Int.ofNat
example : leidenFit argsortStable badKernel badRefine (-1) 4 4 (List.range 4) true false false 4 = .error .valueError := by
  decide

/-! ## 6. secondary outputs -/

/-- ★ square input, non-negative weights: `_secondary_outputs` does not raise; every row of `probs_` is
    non-negative and sums to 1 — to 0 exactly when the node has no outgoing weight (`ProbsOK`, tolerance 0);
    `aggregate_` is `k × k` with `aggregate_[x][y] = Σ` of the input weights from cluster `x` to cluster `y`
    (`AggOK`), and its total is the total edge weight. -/
theorem probs_row_sum {a : SpMat} {l : List Nat} (hne : l ≠ []) (hsq : l.length = a.length)
    (hcols : ∀ row ∈ a, ∀ e ∈ row, e.1 < l.length) (hw : ∀ row ∈ a, ∀ e ∈ row, 0 ≤ e.2) (rp ra : Bool) :
    ∃ s, secondarySquare a l.length l rp ra = .ok s ∧
      (if rp then ∃ P, s.probs = some P ∧ ProbsOK a P (nLabels l) 0 else s.probs = none) ∧
      (if ra then ∃ G, s.aggregate = some G ∧ AggOK a l l (nLabels l) G 0 ∧ sumAll G = totalWeight a
       else s.aggregate = none) :=
  secondarySquare_spec hne hsq hcols hw rp ra

/-- ★ biadjacency input: `probs_row_` (= `probs_`) and `probs_col_` are soft memberships of rows and columns over
    the common label space `k = max(max(labels_row_), max(labels_col_)) + 1`; `aggregate_` sums the weights between
    row clusters and column clusters; its total is the total weight. -/
theorem probs_row_sum_bipartite {a : SpMat} {nCol : Nat} {lr lc : List Nat} (hr : lr ≠ []) (hc : lc ≠ [])
    (hlr : lr.length = a.length) (hlc : lc.length = nCol)
    (hcols : ∀ row ∈ a, ∀ e ∈ row, e.1 < nCol) (hw : ∀ row ∈ a, ∀ e ∈ row, 0 ≤ e.2) (rp ra : Bool) :
    ∃ s, secondaryBip a nCol lr lc rp ra = .ok s ∧
      (if rp then ∃ Pr Pc, s.probsRow = some Pr ∧ s.probs = some Pr ∧ s.probsCol = some Pc ∧
          ProbsOK a Pr (nLabels (lr ++ lc)) 0 ∧ ProbsOK (transposeSp a nCol) Pc (nLabels (lr ++ lc)) 0
       else s.probs = none ∧ s.probsRow = none ∧ s.probsCol = none) ∧
      (if ra then ∃ G, s.aggregate = some G ∧ AggOK a lr lc (nLabels (lr ++ lc)) G 0 ∧ sumAll G = totalWeight a
       else s.aggregate = none) := by
  rw [nLabels_append]
  exact secondaryBip_spec hr hc hlr hlc hcols hw rp ra

/-- ★ the value of every entry of `probs_`: the weight from node `i` to cluster `c` over the out-weight of `i` -/
theorem probs_entry_eq (a : SpMat) (labels : List Nat) (k : Nat)
    (hw : ∀ row ∈ a, ∀ e ∈ row, 0 ≤ e.2) (hl : ∀ row ∈ a, ∀ e ∈ row, labels.getD e.1 k < k)
    {i c : Nat} (hi : i < a.length) (hc : c < k) :
    ((normalizeRows (dotMember a labels k)).getD i []).getD c 0 =
      if rowWeight (a.getD i []) = 0 then 0
      else classSum (a.getD i []) (fun e => labels.getD e.1 k) (·.2) c / rowWeight (a.getD i []) :=
  probs_entry a labels k hw hl hi hc

/-- ★ the entry formula on its own -/
theorem aggregate_entry_eq (a : SpMat) (lr lc : List Nat) (k : Nat) (hlen : lr.length = a.length)
    {x y : Nat} (hx : x < k) (hy : y < k) :
    ((memberTDot lr k (dotMember a lc k) k).getD x []).getD y 0 = aggEntry a lr lc k x y :=
  aggregate_entry a lr lc k hlen hx hy

/-- ★ the weights between all pairs of clusters add up to the total weight (labels below `k`) -/
theorem aggregate_total_eq (a : SpMat) (lr lc : List Nat) (k : Nat)
    (hr : ∀ t ∈ triples a, lr.getD t.1 k < k) (hc : ∀ t ∈ triples a, lc.getD t.2.1 k < k) :
    sumR (tab k fun x => sumR (tab k fun y => aggEntry a lr lc k x y)) = totalWeight a :=
  aggregate_total a lr lc k hr hc

-- non-vacuity: a weighted digraph with a sink (row 2) and a self-loop; labels [0,1,0]
def exA : SpMat := [[(1, 2), (0, 1)], [(2, 1/2)], []]
example : secondarySquare exA 3 [0, 1, 0] true true
    = .ok ⟨some [[1/3, 2/3], [1, 0], [0, 0]], none, none, some [[1, 2], [1/2, 0]]⟩ := by decide +kernel
example : (∀ row ∈ exA, ∀ e ∈ row, e.1 < 3) ∧ (∀ row ∈ exA, ∀ e ∈ row, (0 : Rat) ≤ e.2) := by decide +kernel

/-- ★ labels and secondary outputs together (the dispatcher `_secondary_outputs` on what `_split_vars` produced):
    for a valid clustering `L` of the `N` nodes and an input with non-negative weights of matching shape
    (`N × N`; or `n_row × n_col`, `N = n_row + n_col`), `_secondary_outputs` never raises and `SecondaryOK` holds
    (absent when not asked; soft memberships; aggregate = sums between clusters with the total weight). -/
theorem secondary_outputs_valid {a : SpMat} {nCol N : Nat} {L : List Nat} {sorted : Bool} (bipartite : Bool)
    (nRow : Nat) (hv : ValidClustering N L sorted)
    (hshape : if bipartite then a.length = nRow ∧ N = nRow + nCol ∧ 0 < nRow ∧ 0 < nCol
              else a.length = N ∧ nCol = N ∧ 0 < N)
    (hcols : ∀ row ∈ a, ∀ e ∈ row, e.1 < nCol) (hw : ∀ row ∈ a, ∀ e ∈ row, 0 ≤ e.2) (rp ra : Bool) :
    ∃ s, secondary a nCol (splitVars bipartite nRow L) bipartite rp ra = .ok s ∧
      SecondaryOK a nCol (splitVars bipartite nRow L) bipartite rp ra s :=
  secondary_of_valid bipartite nRow hv hshape hcols hw rp ra

/-- ★★ the statement of C05 for Louvain, end to end on the model: whatever the kernel returns (one label per
    node), whatever sorting permutation `argsort` returns, for every shuffling permutation, every option and every
    input with non-negative weights: `fit` does not raise, `labels_` is a valid clustering (sorted by size when
    `sort_clusters`) and the secondary outputs are consistent with it. -/
theorem louvain_outputs_valid {argsort : List Int → List Nat} (hs : ∀ key, IsArgsort key (argsort key))
    {kernel : Nat → Nat → List Int × Bool} (hk : KernelLen kernel) (nAgg : Int) (fuel : Nat) {N : Nat}
    (sortClusters shuffle bipartite : Bool) (nRow : Nat) {index : List Nat}
    (hidx : shuffle = true → index.Perm (List.range N))
    {a : SpMat} {nCol : Nat}
    (hshape : if bipartite then a.length = nRow ∧ N = nRow + nCol ∧ 0 < nRow ∧ 0 < nCol
              else a.length = N ∧ nCol = N ∧ 0 < N)
    (hcols : ∀ row ∈ a, ∀ e ∈ row, e.1 < nCol) (hw : ∀ row ∈ a, ∀ e ∈ row, 0 ≤ e.2) (rp ra : Bool) :
    louvainFit argsort kernel nAgg fuel N index sortClusters shuffle bipartite nRow = .ok none ∨
    ∃ f count s, louvainFit argsort kernel nAgg fuel N index sortClusters shuffle bipartite nRow = .ok (some (f, count)) ∧
      ValidClustering N (allLabels f) sortClusters ∧
      secondary a nCol f bipartite rp ra = .ok s ∧ SecondaryOK a nCol f bipartite rp ra s := by
  have hN : 0 < N := by
    cases bipartite <;> simp at hshape <;> omega
  rcases louvainFit_spec hs hk nAgg fuel hN sortClusters shuffle bipartite nRow hidx with h | ⟨f, c, h, hv, hsplit⟩
  · exact Or.inl h
  · obtain ⟨s, hs1, hs2⟩ := secondary_of_valid bipartite nRow hv hshape hcols hw rp ra
    rw [← hsplit] at hs1 hs2
    exact Or.inr ⟨f, c, s, h, hv, hs1, hs2⟩

/-- ★★ the same for Leiden, in total form (no fuel disjunct): since the repair b2c73765 a continuing round strictly
    shrinks the graph, so with as many rounds as nodes the fit returns (`LeidenContract` is the only assumption on
    the kernels) -/
theorem leiden_outputs_valid {argsort : List Int → List Nat} (hs : ∀ key, IsArgsort key (argsort key))
    {kernel : Nat → List Nat → List Int × Bool} {refine : Nat → List Nat → List Int}
    (hk : LeidenContract kernel refine) (nAgg : Int) {fuel N : Nat} (hf : N ≤ fuel)
    (sortClusters shuffle bipartite : Bool) (nRow : Nat) {index : List Nat}
    (hidx : shuffle = true → index.Perm (List.range N))
    {a : SpMat} {nCol : Nat}
    (hshape : if bipartite then a.length = nRow ∧ N = nRow + nCol ∧ 0 < nRow ∧ 0 < nCol
              else a.length = N ∧ nCol = N ∧ 0 < N)
    (hcols : ∀ row ∈ a, ∀ e ∈ row, e.1 < nCol) (hw : ∀ row ∈ a, ∀ e ∈ row, 0 ≤ e.2) (rp ra : Bool) :
    ∃ f count s, leidenFit argsort kernel refine nAgg fuel N index sortClusters shuffle bipartite nRow
        = .ok (some (f, count)) ∧
      ValidClustering N (allLabels f) sortClusters ∧
      secondary a nCol f bipartite rp ra = .ok s ∧ SecondaryOK a nCol f bipartite rp ra s := by
  have hN : 0 < N := by
    cases bipartite <;> simp at hshape <;> omega
  obtain ⟨f, c, h, hv, hsplit⟩ := leidenFit_total hs hk nAgg hN hf sortClusters shuffle bipartite nRow hidx
  obtain ⟨s, hs1, hs2⟩ := secondary_of_valid bipartite nRow hv hshape hcols hw rp ra
  rw [← hsplit] at hs1 hs2
  exact ⟨f, c, s, h, hv, hs1, hs2⟩

/-- ★★ and for PropagationClustering: for any labels left by the sweeps (one per node of the block adjacency) -/
theorem propagation_outputs_valid {argsort : List Int → List Nat} (hs : ∀ key, IsArgsort key (argsort key))
    (raw : List Int) (sortClusters bipartite : Bool) (nRow : Nat) {a : SpMat} {nCol : Nat}
    (hshape : if bipartite then a.length = nRow ∧ raw.length = nRow + nCol ∧ 0 < nRow ∧ 0 < nCol
              else a.length = raw.length ∧ nCol = raw.length ∧ 0 < raw.length)
    (hcols : ∀ row ∈ a, ∀ e ∈ row, e.1 < nCol) (hw : ∀ row ∈ a, ∀ e ∈ row, 0 ≤ e.2) (rp ra : Bool) :
    ValidClustering raw.length (allLabels (propagationPost argsort raw sortClusters bipartite nRow)) sortClusters ∧
    ∃ s, secondary a nCol (propagationPost argsort raw sortClusters bipartite nRow) bipartite rp ra = .ok s ∧
      SecondaryOK a nCol (propagationPost argsort raw sortClusters bipartite nRow) bipartite rp ra s := by
  have hv := (propagationPost_spec hs raw sortClusters bipartite nRow).1
  refine ⟨hv, ?_⟩
  have hsplit : propagationPost argsort raw sortClusters bipartite nRow =
      splitVars bipartite nRow (allLabels (propagationPost argsort raw sortClusters bipartite nRow)) := by
    conv_rhs => rw [show propagationPost argsort raw sortClusters bipartite nRow =
      splitVars bipartite nRow (sortedLabels argsort sortClusters (inverse raw)) from rfl, allLabels_splitVars]
    rfl
  obtain ⟨s, h1, h2⟩ := secondary_of_valid bipartite nRow hv hshape hcols hw rp ra
  rw [← hsplit] at h1 h2
  exact ⟨s, h1, h2⟩

/-- ★ `postprocess.aggregate_graph` (integer labels, negative ones ignored; `labels_row` alias of `labels`;
    without `labels_col` the row labels are used for the columns): when it returns, the result has
    `max row label + 1` rows and `max column label + 1` columns and entry `(x, y)` is the sum of the input weights
    from the rows labelled `x` to the columns labelled `y` -/
theorem aggregate_graph_entries {a : SpMat} {nCol : Nat} {labels labelsRow labelsCol : Option (List Int)}
    {kr kc : Nat} {g : List (List Rat)}
    (h : aggregateGraph a nCol labels labelsRow labelsCol = .ok (kr, kc, g)) :
    ∃ lr, rowLabelsArg labels labelsRow = some lr ∧
      g.length = kr ∧ ∀ x, x < kr → (g.getD x []).length = kc ∧
        ∀ y, y < kc → (g.getD x []).getD y 0 = aggEntryInt a lr (colLabelsArg labelsCol lr) x y :=
  aggregateGraph_spec h

example : aggregateGraph exA 3 none (some [1, -1, 0]) (some [0, 0, 2]) = .ok (2, 3, [[0, 0, 0], [3, 0, 0]]) := by
  decide +kernel

/-- ★ `get_membership` for arbitrary integer labels: one row per label, a single stored column for a
    non-negative label (inside the shape), an empty row for a negative one -/
theorem get_membership_rows {l : List Int} {k : Option Nat} {m : Membership}
    (h : getMembership l k = .ok m) :
    m.rows.length = l.length ∧
    ∀ i (hi : i < l.length), m.rows.getD i [] = (if 0 ≤ l[i] then [l[i].toNat] else []) ∧
      (0 ≤ l[i] → l[i].toNat < m.nCol) :=
  getMembership_spec h

example : getMembership [2, -1, 0] none = .ok ⟨3, [[2], [], [0]]⟩ ∧ getMembership [2, -1, 0] (some 2) = .error .valueError
    ∧ getMembership [] none = .error .valueError := by decide

/-! ## 6b. from the shape of the input: routing, refusals, row / column vectors -/

/-- shape of what `_split_vars` leaves: for a bipartite graph `labels_ = labels_row_` has one label per row and
    `labels_col_` one per column; otherwise only `labels_` is set -/
theorem split_vars_shape (bip : Bool) (nRow nCol : Nat) (L : List Nat)
    (hlen : L.length = if bip = true then nRow + nCol else nRow) :
    if bip = true then (splitVars bip nRow L).labelsRow = some (splitVars bip nRow L).labels ∧
        (splitVars bip nRow L).labels.length = nRow ∧ ∃ c, (splitVars bip nRow L).labelsCol = some c ∧ c.length = nCol
    else (splitVars bip nRow L).labelsRow = none ∧ (splitVars bip nRow L).labelsCol = none ∧
        (splitVars bip nRow L).labels.length = nRow := by
  cases bip with
  | false => simpa [splitVars] using hlen
  | true =>
    simp only [if_true] at hlen ⊢
    have := splitVars_bipartite nRow L (by omega)
    refine ⟨this.1, this.2.1, ?_⟩
    obtain ⟨c', hc1, hc2⟩ := this.2.2
    exact ⟨c', hc1, by omega⟩

/-- an input without stored entry is refused by Louvain and PropagationClustering (ValueError of `check_format`;
    Leiden: `estimators_refuse_more`; KCenters: `kcenters_estimator_valid`), and an unknown
    `modularity` by Louvain / Leiden -/
theorem estimators_refuse (argsort : List Int → List Nat) (kernel : Nat → Nat → List Int × Bool)
    (sweeps : Nat → List Int) (nAgg : Int) (fuel nRow nCol nnz : Nat) (fb mk : Bool) (index : List Nat) (so sh : Bool) :
    louvainEstimator argsort kernel nAgg fuel nRow nCol 0 fb mk index so sh = .error .valueError ∧
    propagationEstimator argsort sweeps nRow nCol 0 so = .error .valueError ∧
    (0 < nnz → louvainEstimator argsort kernel nAgg fuel nRow nCol nnz fb false index so sh = .error .valueError) := by
  refine ⟨rfl, rfl, ?_⟩
  intro h
  have : (nnz == 0) = false := by simp; omega
  simp [louvainEstimator, routeInput, this]

/-- the same refusals for Leiden, and the refusals of `_pre_processing` computed by the model from the matrix itself
    (`louvainOnMatrix`): an unknown `modularity`, all stored entries zero, a negative degree (per modularity kind:
    `potts` never refuses node weights).  KCenters' refusals are in `kcenters_estimator_valid` (its conclusion lists
    what an accepted input satisfies). -/
theorem estimators_refuse_more (argsort : List Int → List Nat) (kernel : Nat → Nat → List Int × Bool)
    (lk : Nat → List Nat → List Int × Bool) (lr : Nat → List Nat → List Int)
    (nAgg : Int) (fuel nRow nCol : Nat) (fb mk : Bool) (index : List Nat) (so sh : Bool)
    (a : SpMat) (modularity : String) :
    leidenEstimator argsort lk lr nAgg fuel nRow nCol 0 fb mk index so sh = .error .valueError ∧
    (0 < nnzOf a → preProcessingOK a nCol (fb || a.length != nCol) modularity = false →
      louvainOnMatrix argsort kernel nAgg fuel a nCol fb modularity index so sh = .error .valueError ∧
      leidenOnMatrix argsort lk lr nAgg fuel a nCol fb modularity index so sh = .error .valueError) := by
  refine ⟨rfl, ?_⟩
  intro h hpre
  have : (nnzOf a == 0) = false := by simp; omega
  simp [louvainOnMatrix, leidenOnMatrix, louvainEstimator, leidenEstimator, routeInput, this, hpre]

-- the refusals of the node weights, kind by kind (zeros stored; a negative column sum with non-negative row sums)
example : preProcessingOK [[(1, 0)], [(0, 0)], []] 3 false "newman" = false ∧
    preProcessingOK [[(1, 0)], [(0, 0)], []] 3 false "potts" = true ∧
    preProcessingOK [[(1, 2)], [(2, 1)], [(0, -1), (2, 3)]] 3 false "newman" = true ∧
    preProcessingOK [[(1, 2)], [(2, 1)], [(0, -1), (2, 3)]] 3 false "dugue" = false ∧
    preProcessingOK [[(1, 2)], [(2, 1)], [(0, -1), (2, 3)]] 3 false "louvain" = false := by decide +kernel

/-- ★ `_pre_processing` accepts every input with non-negative weights and positive total weight, for the three
    modularity kinds, square or bipartite -/
theorem pre_processing_accepts_nonneg (a : SpMat) (nCol : Nat) (bipartite : Bool) (kind : ModKind)
    (hcols : ∀ row ∈ a, ∀ e ∈ row, e.1 < nCol) (hw : ∀ row ∈ a, ∀ e ∈ row, 0 ≤ e.2)
    (hpos : 0 < totalWeight a) : preWeightsOK a nCol bipartite kind = true :=
  preWeightsOK_of_nonneg a nCol bipartite kind hcols hw hpos

/-- ★ the transposed matrix used for `probs_col_` (and in the specification of `probs_col_`) holds exactly the
    columns of the input, stated on the stored entries `triples a` and not on the model's `transposeSp`: for every
    selection `q` of rows, the selected weights of row `j` of the transposed matrix add up to the weights of the
    stored entries `(i, j, w)` with `q i`; in particular its row weight is the sum of column `j` -/
theorem transpose_rows_are_columns (a : SpMat) (nCol : Nat) {j : Nat} (hj : j < nCol) (q : Nat → Bool) :
    sumR ((((transposeSp a nCol).getD j []).filter fun e => q e.1).map (·.2)) =
      sumR (((triples a).filter fun t => t.2.1 == j && q t.1).map (·.2.2)) ∧
    rowWeight ((transposeSp a nCol).getD j []) = classSum (triples a) (fun t => t.2.1) (·.2.2) j :=
  ⟨transposeSp_row_sum a nCol hj q, rowWeight_transposeSp a nCol hj⟩

/-- ★★ `Louvain.fit` on the input matrix itself, total form: non-negative weights with positive total, a known
    modularity, the full kernel contract, any sorting `argsort`, any shuffle: the fit is not refused, returns, and the
    labels are a valid clustering with consistent secondary outputs. -/
theorem louvain_on_matrix_total {argsort : List Int → List Nat} (hs : ∀ key, IsArgsort key (argsort key))
    {kernel : Nat → Nat → List Int × Bool} (hk : KernelLen kernel) (hst : NoMergeStops kernel) (nAgg : Int)
    {a : SpMat} {nCol : Nat} (forceBipartite : Bool) {modularity : String} {kind : ModKind}
    (hkind : modKind? modularity = some kind)
    (hr : 0 < a.length) (hcols : ∀ row ∈ a, ∀ e ∈ row, e.1 < nCol) (hw : ∀ row ∈ a, ∀ e ∈ row, 0 ≤ e.2)
    (hpos : 0 < totalWeight a) (hnnz : 0 < nnzOf a) (hc : 0 < nCol)
    (sortClusters shuffle : Bool) {index : List Nat}
    (hidx : shuffle = true → index.Perm
      (List.range (if (forceBipartite || a.length != nCol) = true then a.length + nCol else a.length)))
    (rp ra : Bool) :
    let bip := forceBipartite || a.length != nCol
    let N := if bip = true then a.length + nCol else a.length
    ∃ f count s, louvainOnMatrix argsort kernel nAgg N a nCol forceBipartite modularity index sortClusters shuffle
        = .ok (some (f, count)) ∧
      ValidClustering N (allLabels f) sortClusters ∧
      secondary a nCol f bip rp ra = .ok s ∧ SecondaryOK a nCol f bip rp ra s := by
  intro bip N
  have hz : (nnzOf a == 0) = false := by simp; omega
  have hN : 0 < N := by simp only [N]; split <;> omega
  have hpre : preProcessingOK a nCol bip modularity = true := by
    simp only [preProcessingOK, hkind]
    exact preWeightsOK_of_nonneg a nCol bip kind hcols hw hpos
  have heq : louvainOnMatrix argsort kernel nAgg N a nCol forceBipartite modularity index sortClusters shuffle
      = louvainFit argsort kernel nAgg N N index sortClusters shuffle bip a.length := by
    simp only [louvainOnMatrix, louvainEstimator, routeInput, hz]
    simp [bip, N, hpre]
  rw [heq]
  obtain ⟨f, c, h, hv, hsplit⟩ :=
    louvainFit_total hs hk hst nAgg hN (Nat.le_refl N) sortClusters shuffle bip a.length hidx
  have hshape : if bip = true then a.length = a.length ∧ N = a.length + nCol ∧ 0 < a.length ∧ 0 < nCol
      else a.length = N ∧ nCol = N ∧ 0 < N := by
    cases hb : bip with
    | true => simp [N, hb, hr, hc]
    | false =>
      have hsq : a.length = nCol := by
        simp only [bip, Bool.or_eq_false_iff] at hb
        simpa using hb.2
      simp [N, hb, hr, hsq.symm]
  obtain ⟨s, hs1, hs2⟩ := secondary_of_valid bip a.length hv hshape hcols hw rp ra
  rw [← hsplit] at hs1 hs2
  exact ⟨f, c, s, h, hv, hs1, hs2⟩

/-- ★★ `Leiden.fit` on the input matrix itself, total form: non-negative weights with positive total, a known
    modularity, `LeidenContract`, any sorting `argsort`, any shuffle, any tolerance and `n_aggregations`: the fit is not
    refused, returns, and the labels are a valid clustering with consistent secondary outputs. -/
theorem leiden_on_matrix_total {argsort : List Int → List Nat} (hs : ∀ key, IsArgsort key (argsort key))
    {kernel : Nat → List Nat → List Int × Bool} {refine : Nat → List Nat → List Int}
    (hk : LeidenContract kernel refine) (nAgg : Int)
    {a : SpMat} {nCol : Nat} (forceBipartite : Bool) {modularity : String} {kind : ModKind}
    (hkind : modKind? modularity = some kind)
    (hr : 0 < a.length) (hcols : ∀ row ∈ a, ∀ e ∈ row, e.1 < nCol) (hw : ∀ row ∈ a, ∀ e ∈ row, 0 ≤ e.2)
    (hpos : 0 < totalWeight a) (hnnz : 0 < nnzOf a) (hc : 0 < nCol)
    (sortClusters shuffle : Bool) {index : List Nat}
    (hidx : shuffle = true → index.Perm
      (List.range (if (forceBipartite || a.length != nCol) = true then a.length + nCol else a.length)))
    (rp ra : Bool) :
    let bip := forceBipartite || a.length != nCol
    let N := if bip = true then a.length + nCol else a.length
    ∃ f count s, leidenOnMatrix argsort kernel refine nAgg N a nCol forceBipartite modularity index sortClusters
        shuffle = .ok (some (f, count)) ∧
      ValidClustering N (allLabels f) sortClusters ∧
      secondary a nCol f bip rp ra = .ok s ∧ SecondaryOK a nCol f bip rp ra s := by
  intro bip N
  have hz : (nnzOf a == 0) = false := by simp; omega
  have hN : 0 < N := by simp only [N]; split <;> omega
  have hpre : preProcessingOK a nCol bip modularity = true := by
    simp only [preProcessingOK, hkind]
    exact preWeightsOK_of_nonneg a nCol bip kind hcols hw hpos
  have heq : leidenOnMatrix argsort kernel refine nAgg N a nCol forceBipartite modularity index sortClusters shuffle
      = leidenFit argsort kernel refine nAgg N N index sortClusters shuffle bip a.length := by
    simp only [leidenOnMatrix, leidenEstimator, routeInput, hz]
    simp [bip, N, hpre]
  rw [heq]
  obtain ⟨f, c, h, hv, hsplit⟩ :=
    leidenFit_total hs hk nAgg hN (Nat.le_refl N) sortClusters shuffle bip a.length hidx
  have hshape : if bip = true then a.length = a.length ∧ N = a.length + nCol ∧ 0 < a.length ∧ 0 < nCol
      else a.length = N ∧ nCol = N ∧ 0 < N := by
    cases hb : bip with
    | true => simp [N, hb, hr, hc]
    | false =>
      have hsq : a.length = nCol := by
        simp only [bip, Bool.or_eq_false_iff] at hb
        simpa using hb.2
      simp [N, hb, hr, hsq.symm]
  obtain ⟨s, hs1, hs2⟩ := secondary_of_valid bip a.length hv hshape hcols hw rp ra
  rw [← hsplit] at hs1 hs2
  exact ⟨f, c, s, h, hv, hs1, hs2⟩

/-- ★★ `Louvain.fit` from the shape of the input (`n_row × n_col`, at least one stored entry, `_pre_processing` not
    refusing — fifth argument `true`, see `louvainOnMatrix` / `pre_processing_accepts_nonneg`):
    the graph is treated as bipartite iff forced or not square; the fit does not raise; `labels_` — together with
    `labels_col_` when bipartite — is a valid clustering of the `n_row` (resp. `n_row + n_col`) nodes; for a bipartite
    graph `labels_ = labels_row_` has one label per row and `labels_col_` one per column. -/
theorem louvain_estimator_valid {argsort : List Int → List Nat} (hs : ∀ key, IsArgsort key (argsort key))
    {kernel : Nat → Nat → List Int × Bool} (hk : KernelLen kernel) (nAgg : Int) (fuel : Nat)
    {nRow nCol nnz : Nat} (hr : 0 < nRow) (hnnz : 0 < nnz) (forceBipartite : Bool)
    (sortClusters shuffle : Bool) {index : List Nat}
    (hidx : shuffle = true → index.Perm
      (List.range (if (forceBipartite || nRow != nCol) = true then nRow + nCol else nRow))) :
    let bip := forceBipartite || nRow != nCol
    let N := if bip = true then nRow + nCol else nRow
    louvainEstimator argsort kernel nAgg fuel nRow nCol nnz forceBipartite true index sortClusters shuffle = .ok none ∨
    ∃ f count, louvainEstimator argsort kernel nAgg fuel nRow nCol nnz forceBipartite true index sortClusters shuffle
        = .ok (some (f, count)) ∧
      ValidClustering N (allLabels f) sortClusters ∧
      (if bip = true then f.labelsRow = some f.labels ∧ f.labels.length = nRow ∧
          ∃ c, f.labelsCol = some c ∧ c.length = nCol
       else f.labelsRow = none ∧ f.labelsCol = none ∧ f.labels.length = nRow) := by
  intro bip N
  have hz : (nnz == 0) = false := by simp; omega
  have hN : 0 < N := by simp only [N]; split <;> omega
  have heq : louvainEstimator argsort kernel nAgg fuel nRow nCol nnz forceBipartite true index sortClusters shuffle
      = louvainFit argsort kernel nAgg fuel N index sortClusters shuffle bip nRow := by
    simp [louvainEstimator, routeInput, hz, bip, N]
  rw [heq]
  rcases louvainFit_spec hs hk nAgg fuel hN sortClusters shuffle bip nRow hidx with h | ⟨f, c, h, hv, hsplit⟩
  · exact Or.inl h
  · refine Or.inr ⟨f, c, h, hv, ?_⟩
    have hlen : (allLabels f).length = N := hv.1
    rw [hsplit]
    exact split_vars_shape bip nRow nCol (allLabels f) hlen

example : louvainEstimator argsortStable exKernel (-1) 6 2 3 4 false true [4, 2, 0, 3, 1] true true
    = .ok (some (⟨[0, 0], some [0, 0], some [0, 0, 1]⟩, 2)) := by decide

/-- ★★ `Leiden.fit` from the shape of the input, total form (as many rounds as nodes of the adjacency suffice) -/
theorem leiden_estimator_valid {argsort : List Int → List Nat} (hs : ∀ key, IsArgsort key (argsort key))
    {kernel : Nat → List Nat → List Int × Bool} {refine : Nat → List Nat → List Int}
    (hk : LeidenContract kernel refine) (nAgg : Int) {fuel : Nat}
    {nRow nCol nnz : Nat} (hr : 0 < nRow) (hnnz : 0 < nnz) (forceBipartite : Bool)
    (hf : (if (forceBipartite || nRow != nCol) = true then nRow + nCol else nRow) ≤ fuel)
    (sortClusters shuffle : Bool) {index : List Nat}
    (hidx : shuffle = true → index.Perm
      (List.range (if (forceBipartite || nRow != nCol) = true then nRow + nCol else nRow))) :
    let bip := forceBipartite || nRow != nCol
    let N := if bip = true then nRow + nCol else nRow
    ∃ f count, leidenEstimator argsort kernel refine nAgg fuel nRow nCol nnz forceBipartite true index sortClusters
        shuffle = .ok (some (f, count)) ∧
      ValidClustering N (allLabels f) sortClusters ∧
      (if bip = true then f.labelsRow = some f.labels ∧ f.labels.length = nRow ∧
          ∃ c, f.labelsCol = some c ∧ c.length = nCol
       else f.labelsRow = none ∧ f.labelsCol = none ∧ f.labels.length = nRow) := by
  intro bip N
  have hz : (nnz == 0) = false := by simp; omega
  have hN : 0 < N := by simp only [N]; split <;> omega
  have heq : leidenEstimator argsort kernel refine nAgg fuel nRow nCol nnz forceBipartite true index sortClusters
      shuffle = leidenFit argsort kernel refine nAgg fuel N index sortClusters shuffle bip nRow := by
    simp [leidenEstimator, routeInput, hz, bip, N]
  rw [heq]
  obtain ⟨f, c, h, hv, hsplit⟩ := leidenFit_total hs hk nAgg hN hf sortClusters shuffle bip nRow hidx
  refine ⟨f, c, h, hv, ?_⟩
  have hlen : (allLabels f).length = N := hv.1
  rw [hsplit]
  exact split_vars_shape bip nRow nCol (allLabels f) hlen

/-- `_aggregate_refine`: the labels handed to the next round of Leiden
    (`membership_refined.T.dot(membership).indices`) have one entry per refined cluster — the coarse label of its
    members — provided refined clusters lie inside coarse clusters -/
theorem leiden_next_labels {labels refined : List Nat} {kRef : Nat} (hlen : labels.length = refined.length)
    (hc : Contiguous refined kRef)
    (hw : ∀ i j : Nat, i < refined.length → j < refined.length → refined[i]? = refined[j]? → labels[i]? = labels[j]?) :
    (refinedToCoarse labels refined kRef).length = kRef ∧
    ∀ i, i < refined.length → (refinedToCoarse labels refined kRef)[refined.getD i 0]? = labels[i]? :=
  refinedToCoarse_spec hlen hc hw

example : refinedToCoarse [0, 0, 1, 1, 0] [2, 0, 1, 1, 0] 3 = [0, 1, 0] := by decide

/-- ★★ the same for `PropagationClustering.fit`, for any labels the sweeps leave on the nodes of the adjacency -/
theorem propagation_estimator_valid {argsort : List Int → List Nat} (hs : ∀ key, IsArgsort key (argsort key))
    {sweeps : Nat → List Int} (hsw : ∀ n, (sweeps n).length = n)
    {nRow nCol nnz : Nat} (hnnz : 0 < nnz) (sortClusters : Bool) :
    let bip := nRow != nCol
    let N := if bip = true then nRow + nCol else nRow
    ∃ f, propagationEstimator argsort sweeps nRow nCol nnz sortClusters = .ok f ∧
      ValidClustering N (allLabels f) sortClusters ∧
      (if bip = true then f.labelsRow = some f.labels ∧ f.labels.length = nRow ∧
          ∃ c, f.labelsCol = some c ∧ c.length = nCol
       else f.labelsRow = none ∧ f.labelsCol = none ∧ f.labels.length = nRow) := by
  intro bip N
  have hz : (nnz == 0) = false := by simp; omega
  have heq : propagationEstimator argsort sweeps nRow nCol nnz sortClusters
      = .ok (propagationPost argsort (sweeps N) sortClusters bip nRow) := by
    simp [propagationEstimator, routeInput, hz, bip, N]
  refine ⟨_, heq, ?_⟩
  have hv := (propagationPost_spec hs (sweeps N) sortClusters bip nRow).1
  rw [hsw] at hv
  refine ⟨hv, ?_⟩
  have hlen : (allLabels (propagationPost argsort (sweeps N) sortClusters bip nRow)).length = N := hv.1
  have hsplit : propagationPost argsort (sweeps N) sortClusters bip nRow =
      splitVars bip nRow (allLabels (propagationPost argsort (sweeps N) sortClusters bip nRow)) := by
    conv_rhs => rw [show propagationPost argsort (sweeps N) sortClusters bip nRow =
      splitVars bip nRow (sortedLabels argsort sortClusters (inverse (sweeps N))) from rfl, allLabels_splitVars]
    rfl
  rw [hsplit]
  exact split_vars_shape bip nRow nCol _ hlen

/-! ## 7. KCenters -/

/-- ★ `_init_centers`: `n_clusters` distinct centres inside the admissible mask, whatever the random choices and
    the PageRank scores are (the only thing assumed of `np.random.choice` is that it returns an element of the
    non-empty array it is given) -/
theorem kcenters_init_centers {choose : Nat → List Nat → Nat} (hch : ChoiceOK choose) {mask : List Bool} {n : Nat}
    (hn : n ≤ (mask.filter id).length) :
    (initCenters choose mask n).length = n ∧ (initCenters choose mask n).Nodup ∧
    ∀ c ∈ initCenters choose mask n, mask.getD c false = true :=
  initCenters_spec hch hn

/-- the end of `KCenters.fit` *given* the assignment: the centre clauses (`n_clusters` distinct admissible centres,
    split by side) are proved; the label clauses (one label per node, below `n_clusters`) are those assumed of the
    recorded labels in `hruns` and merely pass through `_split_vars`.  The unconditional statement is
    `kcenters_fit_valid` below, where the assignment itself is modelled. -/
theorem kcenters_centers_given_assignment {nClusters nInit : Int} {bipartite : Bool} {nRow nCol : Nat} {pos : CenterPos}
    {runs : List (List Nat × List Nat)} {idxMax : Nat} {k : KFitted}
    (h : kcentersFit nClusters nInit bipartite nRow nCol pos runs idxMax = .ok k)
    (hruns : ∀ mask, maskCenters bipartite nRow nCol pos = .ok mask → ∀ r ∈ runs,
      (∃ choose, ChoiceOK choose ∧ r.1 = initCenters choose mask nClusters.toNat) ∧
      r.2.length = (if bipartite then nRow + nCol else nRow) ∧ ∀ l ∈ r.2, l < nClusters.toNat) :
    KCentersOK bipartite nRow nCol pos nClusters.toNat (allLabelsK k) k.centers ∧
    (bipartite = true → CentersSplitOK nRow pos k.centers k.centersRow k.centersCol) :=
  kcentersFit_spec h hruns

/-- the assignment loop of a restart runs its body exactly once when `max_iter ≥ 1` (the loop never replaces
    `centers`, so the second test `prev_centers == centers` stops it) and never otherwise -/
theorem kcenters_one_assignment (classify : List Nat → List Nat) (maxIter : Int) {centers : List Nat}
    (hne : centers ≠ []) (fuel : Nat) :
    kcentersAssign classify maxIter centers (fuel + 2) none none 0 =
      some (if 1 ≤ maxIter then (some (classify centers), 1) else (none, 0)) :=
  kcentersAssign_eq classify maxIter hne fuel

/-- `KCenters.fit` with restarts and assignment loop, for an *abstract* assignment `classify`: the label clauses are
    the hypothesis `hcl` (for distinct centres); proved here: centres, split, `max_iter ≥ 1`, one assignment per
    restart.  See `kcenters_fit_valid` for the statement without `hcl`. -/
theorem kcenters_fit_given_assignment {nClusters nInit maxIter : Int} {bipartite : Bool} {nRow nCol : Nat}
    {pos : CenterPos}
    {chooseOf : Nat → Nat → List Nat → Nat} {classify : Nat → List Nat → List Nat} {idxMax : Nat}
    {k : KFitted} {calls : Nat}
    (h : kcentersFitFull nClusters nInit maxIter bipartite nRow nCol pos chooseOf classify idxMax = .ok (k, calls))
    (hch : ∀ i, ChoiceOK (chooseOf i))
    (hcl : ∀ i centers, centers.length = nClusters.toNat → centers.Nodup →
      (classify i centers).length = (if bipartite then nRow + nCol else nRow) ∧
      ∀ l ∈ classify i centers, l < nClusters.toNat) :
    KCentersOK bipartite nRow nCol pos nClusters.toNat (allLabelsK k) k.centers ∧
    (bipartite = true → CentersSplitOK nRow pos k.centers k.centersRow k.centersCol) ∧
    1 ≤ maxIter ∧ calls = nInit.toNat :=
  kcentersFitFull_spec h hch (fun mask hchk _ i _ => by
    have hic := initCenters_spec (hch i) (kcentersChecks_ok hchk).2.2.2
    exact hcl i _ hic.1 hic.2.1)

/-- ★ the read-out of `PageRankClassifier` (`labels_unique[np.argmax(scores, axis=1)]` with the classes of the seeds
    `{center: label}`): one label per row of the score matrix, every label below the number of centres — whatever the
    scores are -/
theorem rank_readout_labels {centers : List Nat} {scores : List (List Rat)} {l : List Nat}
    (h : rankReadout centers scores = .ok l) :
    l.length = scores.length ∧ ∀ x ∈ l, x < centers.length :=
  rankReadout_spec h

/-- ★★ the k-centers clause of C05 with *no assumption on the labels*: the assignment is the model's (arg-max
    read-out of an arbitrary score matrix with one row per node of the adjacency — the only thing assumed of
    PageRank, monitored by `contract_scores`).  If `fit` returns: one label per node, every label below `n_clusters`,
    `n_clusters` distinct admissible centres split by side, `max_iter ≥ 1`, one assignment per restart. -/
theorem kcenters_fit_valid {nClusters nInit maxIter : Int} {bipartite : Bool} {nRow nCol : Nat} {pos : CenterPos}
    {chooseOf : Nat → Nat → List Nat → Nat} {scores : Nat → List Nat → List (List Rat)} {idxMax : Nat}
    {k : KFitted} {calls : Nat}
    (h : kcentersFitScores nClusters nInit maxIter bipartite nRow nCol pos chooseOf scores idxMax = .ok (k, calls))
    (hch : ∀ i, ChoiceOK (chooseOf i))
    (hshape : ∀ i centers, (scores i centers).length = (if bipartite then nRow + nCol else nRow)) :
    KCentersOK bipartite nRow nCol pos nClusters.toNat (allLabelsK k) k.centers ∧
    (bipartite = true → CentersSplitOK nRow pos k.centers k.centersRow k.centersCol) ∧
    1 ≤ maxIter ∧ calls = nInit.toNat :=
  kcentersFitScores_spec h hch hshape

/-- ★★ the same from the shape of the input: the routing of `get_adjacency` (bipartite iff forced or not square) and
    the refusals (`n_clusters < 2`, `n_init < 1`, `directed=True` on a non-square input, no stored entry, too many
    clusters for the admissible side, unknown `center_position`) are the model's -/
theorem kcenters_estimator_valid {nClusters nInit maxIter : Int} {directed forceBipartite : Bool}
    {nRow nCol nnz : Nat} {pos : CenterPos} {chooseOf : Nat → Nat → List Nat → Nat}
    {scores : Nat → List Nat → List (List Rat)} {idxMax : Nat} {k : KFitted} {calls : Nat}
    (h : kcentersEstimator nClusters nInit maxIter directed forceBipartite nRow nCol nnz pos chooseOf scores idxMax
      = .ok (k, calls))
    (hch : ∀ i, ChoiceOK (chooseOf i))
    (hshape : ∀ i centers, (scores i centers).length =
      (if (forceBipartite || nRow != nCol) = true then nRow + nCol else nRow)) :
    KCentersOK (forceBipartite || nRow != nCol) nRow nCol pos nClusters.toNat (allLabelsK k) k.centers ∧
    ((forceBipartite || nRow != nCol) = true → CentersSplitOK nRow pos k.centers k.centersRow k.centersCol) ∧
    1 ≤ maxIter ∧ calls = nInit.toNat ∧ 0 < nnz ∧ (directed = true → nRow = nCol) :=
  kcentersEstimator_spec h hch hshape

/-- ★★ total form for k-centers: accepted arguments are accepted.  At least two clusters, at least one restart,
    `max_iter ≥ 1`, `directed` only on a square input, a stored entry, a known `center_position` offering at least
    `n_clusters` admissible nodes (`kcenters_admissible_count` gives their number), an in-range index of the best
    restart (what `np.argmax` returns), any random choices, any score matrices whose rows are no wider than the number
    of centres: `KCenters.fit` *returns*, with one assignment per restart; `kcenters_estimator_valid` then says what. -/
theorem kcenters_estimator_total {nClusters nInit maxIter : Int} {directed forceBipartite : Bool}
    {nRow nCol nnz : Nat} {pos : CenterPos} {chooseOf : Nat → Nat → List Nat → Nat}
    {scores : Nat → List Nat → List (List Rat)} {idxMax : Nat} {mask : List Bool}
    (hnc : 2 ≤ nClusters) (hni : 1 ≤ nInit) (hm : 1 ≤ maxIter) (hdir : directed = true → nRow = nCol)
    (hnnz : 0 < nnz)
    (hmask : maskCenters (forceBipartite || nRow != nCol) nRow nCol pos = .ok mask)
    (hcount : nClusters ≤ ((mask.filter id).length : Int))
    (hidx : idxMax < nInit.toNat) (hch : ∀ i, ChoiceOK (chooseOf i))
    (hwidth : ∀ i centers, ∀ row ∈ scores i centers, row.length ≤ centers.length) :
    ∃ k, kcentersEstimator nClusters nInit maxIter directed forceBipartite nRow nCol nnz pos chooseOf scores idxMax
      = .ok (k, nInit.toNat) :=
  kcentersEstimator_total hnc hni hm hdir hnnz hmask hcount hidx hch hwidth

/-- the number of admissible centres: `n_row` (not bipartite, or `row`), `n_col` (`col`), `n_row + n_col` (`both`) -/
theorem kcenters_admissible_count {bipartite : Bool} {nRow nCol : Nat} {pos : CenterPos} {mask : List Bool}
    (h : maskCenters bipartite nRow nCol pos = .ok mask) :
    (mask.filter id).length =
      (if bipartite then (match pos with | .row => nRow | .col => nCol | _ => nRow + nCol) else nRow) :=
  maskCenters_count h

-- a score row wider than the classes is numpy's IndexError, not a default label
example : rankReadout [3, 5] [[0, 0, 5], [1, 0]] = .error .indexError := by decide +kernel
example : maskCenters true 2 3 .col = .ok [false, false, true, true, true] := by decide

-- non-vacuity: scores of 3 nodes for 2 centres (a tie on the last row goes to the first maximum), and the refusals
example : kcentersEstimator 2 1 20 false false 3 3 4 .row (fun _ t c => c.getD t 0)
    (fun _ _ => [[1, 0], [1/4, 3/4], [1/2, 1/2]]) 0 = .ok (⟨[0, 1, 0], none, none, [0, 2], none, none⟩, 1) := by
  decide +kernel
example : kcentersEstimator 2 1 20 true false 2 3 4 .row (fun _ t c => c.getD t 0) (fun _ _ => []) 0
    = .error .valueError := by decide
example : rankReadout [4, 4] [[1, 0]] = .error .valueError := by decide

example : kcentersFitFull 2 2 20 true 2 3 .col (fun i t cand => cand.getD ((i + t) % cand.length) 0)
    (fun i _ => if i = 0 then [0, 0, 1, 1, 0] else [1, 0, 1, 0, 0]) 1
    = .ok (⟨[1, 0], some [1, 0], some [1, 0, 0], [3, 2], none, some [1, 0]⟩, 2) := by decide
example : ∀ i : Nat, ChoiceOK (fun t cand => cand.getD ((i + t) % cand.length) 0) := by
  intro i t cand h
  have hpos : 0 < cand.length := List.length_pos_iff.mpr h
  have hlt : (i + t) % cand.length < cand.length := Nat.mod_lt _ hpos
  simp only [List.getD_eq_getElem?_getD, List.getElem?_eq_getElem hlt, Option.getD_some]
  exact List.getElem_mem hlt

-- non-vacuity: a choice function (first candidate), a 2x3 biadjacency with centres on both sides
example : ChoiceOK (fun _ cand => cand.headD 0) := by
  intro _ cand h
  cases cand with
  | nil => exact absurd rfl h
  | cons x xs => simp
example : initCenters (fun t cand => cand.getD (2 * t) 0) [true, true, true, true, true] 2 = [0, 3] := by decide
example : kcentersFit 2 1 true 2 3 .both [([0, 3], [0, 0, 1, 1, 0])] 0
    = .ok ⟨[0, 0], some [0, 0], some [1, 1, 0], [0, 3], some [0], some [1]⟩ := by decide

end SkNet.C05
