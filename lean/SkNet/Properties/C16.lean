/-
C16 — same input and seed give the same output on any thread count and fit history.

Theorems about the models of `SkNet/Model/ParFor.lean` and `SkNet/Model/Estimator.lean` (unbounded: any number of
iterations, any schedule, any history, any conforming implementation):

 (A) parallel loops: a race-free loop ends in the same memory and the same private registers under every schedule,
     namely those of the sequential execution (`raceFree_sound`, `raceFree_eq_sequential`, `raceFree_regs`); the
     syntactic check on a generated `prange` descriptor is sound and tight (`desc_raceFree_sound`, `desc_raceFree_tight`,
     `prange_schedule_independent`, `indirect_update_not_deterministic`); an exact (integer) reduction does not depend on
     schedule, chunking or order of combination (`reduction_*`); a float reduction is *not* covered: it fails the generated
     obligation `Loop.deterministic`; the first loop of `push_pagerank`, event for event (`pushInit_*`).
 (B) estimators: history independence for every description passing `coreOK` and every conforming implementation, over
     histories of fits, fits that raised, and `set_params` on parameters stored unchanged (`history_independent`); the same
     for the *flattened* description of an object with its attribute objects, which is what the generated obligation
     `Est.staticOK` checks (`staticOK_implies_flat_coreOK`, `history_independent_flat`, `history_independent_seq`); tightness
     (`coreOK_tight`); `set_params` on a canonicalised parameter is outside: full statement `history_independent_setparams_full`,
     its negation, and the `_partial` theorem; random sources: `rerun_deterministic`, `uncontrolled_source_changes_draws`.
 (C) `check_random_state` as an interpreter of its generated branch table (`check_random_state_private`, `_none_not_global`,
     `_instance_same`).

Witnesses about code that has since been repaired (pinned D-iteration loop, pinned Louvain seeding) are `example`s, not
counted theorems. The obligations on the data generated from the working tree (`Generated/C16T<tree>.lean`) are decided
through the driver on every run and kernel-checked by `Generated/C16T<tree>Ob.lean`.
-/
import SkNet.Lemmas.ParFor
import SkNet.Lemmas.Estimator

namespace SkNet.C16
open SkNet SkNet.ParFor SkNet.Estimator

/-! ## (A) parallel loops -/

/-- **Race freedom ⇒ schedule independence.** If no location stored by one iteration is loaded or stored by
    another, then any two schedules that run the `n` iterations to completion end in the same memory, at every
    location. (Iterations `≥ n` do not exist: `prog t = []`.) -/
theorem raceFree_sound (prog : Nat → List Ev) (hrf : RaceFree prog) (n : Nat) (hn : ∀ t, n ≤ t → prog t = [])
    (m0 : Mem) (s₁ s₂ : List Nat)
    (h₁ : Complete prog n (run prog (Cfg.init m0) s₁)) (h₂ : Complete prog n (run prog (Cfg.init m0) s₂))
    (l : Loc) : (run prog (Cfg.init m0) s₁).mem l = (run prog (Cfg.init m0) s₂).mem l := by
  apply raceFree_mem_eq prog hrf m0 s₁ s₂
  intro t
  rcases Nat.lt_or_ge t n with ht | ht
  · rw [h₁ t ht, h₂ t ht]
  · have hle₁ := run_pc_le prog s₁ (Cfg.init m0) (by intro u; simp [Cfg.init]) t
    have hle₂ := run_pc_le prog s₂ (Cfg.init m0) (by intro u; simp [Cfg.init]) t
    rw [hn t ht] at hle₁ hle₂
    simp at hle₁ hle₂
    rw [hle₁, hle₂]

/-- non-vacuity: two iterations that each update their own element, an interleaved and the sequential schedule -/
example :
    let prog : Nat → List Ev := fun t =>
      if t < 2 then [.load ("a", t), .store ("a", t) (addF 5)] else []
    raceFreeB prog 2 = true ∧
    (run prog (Cfg.init fun _ => 1) [0, 1, 1, 0]).mem ("a", 0) = 6 ∧
    (run prog (Cfg.init fun _ => 1) (seqSched prog 2)).mem ("a", 0) = 6 := by decide

/-- In particular every complete schedule ends in the memory of the sequential execution `0, 1, …, n-1`. -/
theorem raceFree_eq_sequential (prog : Nat → List Ev) (hrf : RaceFree prog) (n : Nat) (hn : ∀ t, n ≤ t → prog t = [])
    (m0 : Mem) (s : List Nat) (h : Complete prog n (run prog (Cfg.init m0) s)) (l : Loc) :
    (run prog (Cfg.init m0) s).mem l = (run prog (Cfg.init m0) (seqSched prog n)).mem l :=
  raceFree_sound prog hrf n hn m0 s (seqSched prog n) h (seqSched_complete prog m0 n) l

/-- **Soundness of the generated descriptor check.** If the descriptor of a `prange` loop passes `Loop.raceFree`
    (every access to an array the body stores to is at `loop variable + k` for one `k`; no mutating method of a
    shared object; no impure call; nothing unclassified) then *every* concrete loop whose events are instances of
    the descriptor's sites — any number of iterations, any values of the indirect indices, any control flow —
    is race free. -/
theorem desc_raceFree_sound (l : Loop) (hl : l.raceFree = true) (fx : String → Nat) (prog : Nat → List Ev)
    (hconf : ConformsTo l fx prog) : RaceFree prog :=
  desc_raceFree l hl fx prog hconf

/-- non-vacuity of `desc_raceFree_sound`: the descriptor passes, and a two-iteration instance conforms -/
example : pushInitLoop.deterministic = true ∧ trianglesLoop.deterministic = true := by decide

/-- a reduction on a C `double` passes the race check (memory is schedule independent) but not the generated obligation
    `Loop.deterministic`: the partial sums are combined in an order that depends on the thread count (the `reduction_*`
    theorems are about exact integer addition only) -/
example : ({ trianglesLoop with accs := [.reduction "total" "+" false] } : Loop).raceFree = true ∧
    ({ trianglesLoop with accs := [.reduction "total" "+" false] } : Loop).deterministic = false := by decide

/-- **Schedule independence of a checked `prange` loop.** -/
theorem prange_schedule_independent (l : Loop) (hl : l.raceFree = true) (fx : String → Nat)
    (prog : Nat → List Ev) (hconf : ConformsTo l fx prog) (n : Nat) (hn : ∀ t, n ≤ t → prog t = [])
    (m0 : Mem) (s : List Nat) (h : Complete prog n (run prog (Cfg.init m0) s)) (loc : Loc) :
    (run prog (Cfg.init m0) s).mem loc = (run prog (Cfg.init m0) (seqSched prog n)).mem loc :=
  raceFree_eq_sequential prog (desc_raceFree l hl fx prog hconf) n hn m0 s h loc



/-- **The descriptor check is tight.** If a descriptor is rejected because of an array access — every site that is
    not an array access (private scalars, reductions, read-only methods, pure calls) passes on its own — then some loop
    that conforms to the descriptor has a race: the check never rejects an access pattern that is safe for all the
    loops it describes. (Together with `desc_raceFree_sound`: on descriptors whose non-array sites are harmless,
    `Loop.raceFree l = true` iff every conforming loop is race free.) -/
theorem desc_raceFree_tight (l : Loop) (hother : ∀ a ∈ l.accs, a.arr? = none → l.siteOk a = true)
    (h : l.raceFree = false) :
    ∃ (fx : String → Nat) (prog : Nat → List Ev), ConformsTo l fx prog ∧ ¬ RaceFree prog :=
  desc_raceFree_tight_aux l hother h

/-- non-vacuity: the pinned D-iteration descriptor is rejected because of `fluid[j]` only -/
example : diterationLoop.raceFree = false ∧
    (diterationLoop.accs.all fun a => a.arr?.isSome || diterationLoop.siteOk a) = true := by decide

/-- **The first `prange` loop of `push_pagerank` conforms to its descriptor**, for every reversed CSR structure
    (any `rev_indptr`, `rev_indices`, well formed or not) and any arithmetic. -/
theorem pushInit_conforms (n : Nat) (ip ix : List Nat) (acc scale : List ParFor.Val → ParFor.Val) :
    ConformsTo pushInitLoop (fun _ => 0) (pushInitProg n ip ix acc scale) := by
  intro v e he
  unfold pushInitProg at he
  split at he
  · unfold pushInitIter at he
    simp only [List.mem_append, List.mem_cons, List.not_mem_nil, or_false, List.mem_flatMap, List.mem_range] at he
    rcases he with (((rfl | rfl) | ⟨k, _, hk⟩) | (rfl | rfl | rfl))
    · exact ⟨.load "rev_indptr" (.own 0), by simp [pushInitLoop], by simp [Conforms]⟩
    · exact ⟨.load "rev_indptr" (.own 1), by simp [pushInitLoop], by simp [Conforms]⟩
    · rcases hk with rfl | rfl | rfl | rfl
      · exact ⟨.load "rev_indices" (.indirect "j"), by simp [pushInitLoop], by simp [Conforms]⟩
      · exact ⟨.load "degrees" (.indirect "neighbor"), by simp [pushInitLoop], by simp [Conforms]⟩
      · exact ⟨.load "residuals" (.own 0), by simp [pushInitLoop], by simp [Conforms]⟩
      · exact ⟨.store "residuals" (.own 0), by simp [pushInitLoop], by simp [Conforms]⟩
    · exact ⟨.load "seeds" (.own 0), by simp [pushInitLoop], by simp [Conforms]⟩
    · exact ⟨.load "residuals" (.own 0), by simp [pushInitLoop], by simp [Conforms]⟩
    · exact ⟨.store "residuals" (.own 0), by simp [pushInitLoop], by simp [Conforms]⟩
  · simp at he

/-- **…hence it computes the same `residuals` under every schedule**: any complete interleaving of the `n` iterations
    ends in the memory of the sequential loop. -/
theorem pushInit_deterministic (n : Nat) (ip ix : List Nat) (acc scale : List ParFor.Val → ParFor.Val) (m0 : Mem)
    (s : List Nat)
    (h : Complete (pushInitProg n ip ix acc scale) n (run (pushInitProg n ip ix acc scale) (Cfg.init m0) s))
    (loc : Loc) :
    (run (pushInitProg n ip ix acc scale) (Cfg.init m0) s).mem loc =
      (run (pushInitProg n ip ix acc scale) (Cfg.init m0) (seqSched (pushInitProg n ip ix acc scale) n)).mem loc := by
  apply prange_schedule_independent pushInitLoop (by decide) (fun _ => 0) _ (pushInit_conforms n ip ix acc scale) n _ m0 s h
  intro t ht
  have : ¬ t < n := by omega
  simp [pushInitProg, this]

/-- non-vacuity: the reversed CSR of the path 0 → 1 → 2 (node 1 has in-neighbour 0, node 2 has in-neighbour 1);
    an interleaved schedule is complete and gives the same `residuals[2]` as the sequential one -/
example :
    let prog := pushInitProg 3 [0, 0, 1, 2] [0, 1] (addF 1) (addF 10)
    (run prog (Cfg.init fun _ => 0) [2, 1, 0, 2, 1, 0, 2, 1, 0, 2, 1, 0, 2, 1, 0, 2, 1, 2, 1, 2, 1, 2, 1]).mem ("residuals", 2) = 11 ∧
    (run prog (Cfg.init fun _ => 0) (seqSched prog 3)).mem ("residuals", 2) = 11 ∧
    (run prog (Cfg.init fun _ => 0) (seqSched prog 3)).mem ("residuals", 0) = 10 := by decide

/-- (witness kept from the pinned tree; the loop was repaired by f865d31a and is no longer generated, so this is an
    `example`, not a counted theorem) The pinned D-iteration sweep was not deterministic: its descriptor fails the check, and the two-iteration loop
    in which both iterations execute `fluid[0] += 1` (a load then a store, both instances of the descriptor's
    `fluid[j]` sites) ends with `fluid[0] = 2` under one schedule and `fluid[0] = 1` under another. -/
example :
    diterationLoop.raceFree = false ∧
    ConformsTo diterationLoop (fun _ => 0) lostUpdateProg ∧
    (run lostUpdateProg (Cfg.init fun _ => 0) [0, 0, 1, 1]).mem ("fluid", 0) = 2 ∧
    (run lostUpdateProg (Cfg.init fun _ => 0) [0, 1, 0, 1]).mem ("fluid", 0) = 1 := by
  refine ⟨by decide, ?_, lostUpdate_outcomes.1, lostUpdate_outcomes.2⟩
  intro i e he
  unfold lostUpdateProg at he
  split at he
  · simp only [List.mem_cons, List.not_mem_nil, or_false] at he
    rcases he with rfl | rfl
    · exact ⟨.load "fluid" (.indirect "j"), by simp [diterationLoop], by simp [Conforms]⟩
    · exact ⟨.store "fluid" (.indirect "j"), by simp [diterationLoop], by simp [Conforms]⟩
  · simp at he

/-- and it is indeed a race in the semantic sense -/
example : ¬ RaceFree lostUpdateProg := lostUpdate_not_raceFree

/-- **Exact reductions do not depend on the order of combination**: any permutation of the per-iteration
    contributions folds to the same value (`n_triangles += …` on a C `long`). -/
theorem reduction_perm (init : Int) (xs ys : List Int) (h : xs.Perm ys) :
    xs.foldl (· + ·) init = ys.foldl (· + ·) init := by
  apply List.Perm.foldl_eq' h
  intro x _ y _ z
  omega

/-- **Exact reductions do not depend on how the iterations are split among threads**: OpenMP gives each thread a
    chunk list, each thread folds its contributions from the neutral element, the partial results are then
    added to the initial value in some order — always the sequential total. -/
theorem reduction_chunks (init : Int) (chunks : List (List Int)) :
    (chunks.map fun c => c.foldl (· + ·) 0).foldl (· + ·) init = chunks.flatten.foldl (· + ·) init := by
  induction chunks generalizing init with
  | nil => simp
  | cons c cs ih =>
    simp only [List.map_cons, List.foldl_cons, List.flatten_cons, List.foldl_append]
    rw [ih]
    congr 1
    rw [foldl_add_eq init c]

example : ([[1, 2], [], [3]].map fun c => c.foldl (· + ·) (0 : Int)).foldl (· + ·) 10 = 16 := by decide


/-- **Any in-place update through an indirect index can lose an update**: if the descriptor of a loop has a load
    and a store of the same array at an indirect index (the sites of `arr[e] += x`), then there is a loop
    conforming to the descriptor — two iterations that both update `arr[0]` — and two complete schedules that end in
    different memories. (Covers `fluid[j] += …` of the pinned D-iteration and `residuals[neighbor] += …` of push.) -/
theorem indirect_update_not_deterministic (l : Loop) (arr e₁ e₂ : String)
    (hl : Acc.load arr (.indirect e₁) ∈ l.accs) (hs : Acc.store arr (.indirect e₂) ∈ l.accs) :
    ∃ (prog : Nat → List Ev) (s₁ s₂ : List Nat) (loc : Loc),
      ConformsTo l (fun _ => 0) prog ∧ (∀ t, 2 ≤ t → prog t = []) ∧
      Complete prog 2 (run prog (Cfg.init fun _ => 0) s₁) ∧ Complete prog 2 (run prog (Cfg.init fun _ => 0) s₂) ∧
      (run prog (Cfg.init fun _ => 0) s₁).mem loc ≠ (run prog (Cfg.init fun _ => 0) s₂).mem loc := by
  refine ⟨lostUpdateOn arr, [0, 0, 1, 1], [0, 1, 0, 1], (arr, 0), ?_, ?_,
    lostUpdateOn_complete arr _ (Or.inl rfl), lostUpdateOn_complete arr _ (Or.inr rfl), ?_⟩
  · intro i ev hev
    unfold lostUpdateOn at hev
    split at hev
    · simp only [List.mem_cons, List.not_mem_nil, or_false] at hev
      rcases hev with rfl | rfl
      · exact ⟨_, hl, by simp [Conforms]⟩
      · exact ⟨_, hs, by simp [Conforms]⟩
    · simp at hev
  · intro t ht
    have : ¬ t < 2 := by omega
    simp [lostUpdateOn, this]
  · rw [(lostUpdateOn_outcomes arr).1, (lostUpdateOn_outcomes arr).2]
    decide

/-- non-vacuity: both pinned racy loops meet the hypotheses, and fail the check -/
example : pushNeighborLoop.raceFree = false ∧ diterationLoop.raceFree = false ∧
    Acc.load "residuals" (.indirect "neighbor") ∈ pushNeighborLoop.accs ∧
    Acc.store "residuals" (.indirect "neighbor") ∈ pushNeighborLoop.accs := by decide

/-- **The executable race check is exact**: on a loop of `n` iterations `raceFreeB` decides `RaceFree`. -/
theorem raceFreeB_iff (prog : Nat → List Ev) (n : Nat) (hn : ∀ t, n ≤ t → prog t = []) :
    raceFreeB prog n = true ↔ RaceFree prog :=
  ⟨raceFree_of_raceFreeB prog n hn, raceFreeB_of_raceFree prog n⟩

/-- **What each iteration computed is schedule independent too**: under any two complete schedules of a race-free
    loop every iteration ends with the same private registers (the values it loaded) — hence the same contribution
    to a reduction variable and the same `lastprivate` values. -/
theorem raceFree_regs (prog : Nat → List Ev) (hrf : RaceFree prog) (n : Nat) (m0 : Mem) (s₁ s₂ : List Nat)
    (h₁ : Complete prog n (run prog (Cfg.init m0) s₁)) (h₂ : Complete prog n (run prog (Cfg.init m0) s₂))
    (t : Nat) (ht : t < n) :
    (run prog (Cfg.init m0) s₁).regs t = (run prog (Cfg.init m0) s₂).regs t :=
  raceFree_regs_eq prog hrf m0 s₁ s₂ t (by rw [h₁ t ht, h₂ t ht])

/-- **Exact reduction of a race-free loop**: with per-iteration contributions computed from the iteration's private
    registers, the reduced value is the same for any two complete schedules, any assignment of iterations to threads
    (`order₁`, `order₂` are permutations of the iterations) and any order of combination. -/
theorem reduction_schedule_independent (prog : Nat → List Ev) (hrf : RaceFree prog) (n : Nat) (m0 : Mem)
    (s₁ s₂ : List Nat)
    (h₁ : Complete prog n (run prog (Cfg.init m0) s₁)) (h₂ : Complete prog n (run prog (Cfg.init m0) s₂))
    (contrib : Nat → List ParFor.Val → Int) (init : Int) (order₁ order₂ : List Nat)
    (hp₁ : order₁.Perm (List.range n)) (hp₂ : order₂.Perm (List.range n)) :
    (order₁.map fun t => contrib t ((run prog (Cfg.init m0) s₁).regs t)).foldl (· + ·) init =
    (order₂.map fun t => contrib t ((run prog (Cfg.init m0) s₂).regs t)).foldl (· + ·) init := by
  have hperm : order₁.Perm order₂ := hp₁.trans hp₂.symm
  have hmap : (order₁.map fun t => contrib t ((run prog (Cfg.init m0) s₁).regs t)) =
      (order₁.map fun t => contrib t ((run prog (Cfg.init m0) s₂).regs t)) := by
    apply List.map_congr_left
    intro t ht
    have htn : t < n := by simpa using (hp₁.mem_iff.mp ht)
    rw [raceFree_regs prog hrf n m0 s₁ s₂ h₁ h₂ t htn]
  rw [hmap]
  exact reduction_perm init _ _ (hperm.map _)

/-! ## (B) estimators -/

section History
variable {Inp : Type}

/-- **History independence.** Let `e` be an estimator description that passes `coreOK` (whatever `fit` may assign
    it assigns on every exit; whatever it reads before assigning it never assigns), and `sem` any implementation
    that conforms to it (it looks only at `readsFirst` and its input — which includes the state of the
    environment's generator —, assigns between `mustWrite` and `mayWrite`, normalises parameters idempotently).
    Then for every history `ops` of `fit` calls on arbitrary inputs, of `fit` calls that *raised* after assigning any
    subset of `mayWrite` (`Op.fitRaise`), and of `set_params` on setable parameters (those `__init__` stores unchanged; for
    the others see `history_independent_setparams_full` below), starting
    from the object built with parameters `p`: `fit` on `x` leaves the object, on every attribute that is not an
    append-only log, exactly as it leaves a freshly constructed object with the current parameters. -/
theorem history_independent (e : Est) (hok : e.coreOK = true) (sem : Sem e Inp) (c0 p : Store)
    (ops : List (Op Inp)) (hops : ∀ op ∈ ops, op.wf e) (x : Inp) (a : String) (ha : a ∉ e.logs) :
    sem.fit (sem.run (e.fresh c0 p) ops) x a = sem.fit (e.fresh c0 (paramsAfter p ops)) x a := by
  have hinv : HInv e sem c0 (sem.run (e.fresh c0 p) ops) (paramsAfter p ops) :=
    hinv_run e sem c0 ops hops _ _ (fun _ _ => rfl)
  have hcore : e.noStale = true ∧ e.readsStable = true := by
    simpa [Est.coreOK, Bool.and_eq_true] using hok
  obtain ⟨hstale, hreads⟩ := hcore
  -- the two normalised stores agree on everything `fit` reads first
  have hagree : ∀ b, b ∈ e.readsFirst →
      sem.normalise (sem.run (e.fresh c0 p) ops) b = sem.normalise (e.fresh c0 (paramsAfter p ops)) b := by
    intro b hb
    have hb' := List.all_eq_true.mp hreads b hb
    have hnm : b ∉ e.mayWrite := by
      simp at hb'
      exact hb'.1
    exact hinv b hnm
  obtain ⟨hwr, hnew⟩ := sem.frame _ _ x hagree
  unfold Sem.fit
  by_cases hin : a ∈ sem.wr (sem.normalise (sem.run (e.fresh c0 p) ops)) x
  · have hin' : a ∈ sem.wr (sem.normalise (e.fresh c0 (paramsAfter p ops))) x := hwr ▸ hin
    simp only [hin, hin', if_true]
    exact hnew a hin
  · have hin' : a ∉ sem.wr (sem.normalise (e.fresh c0 (paramsAfter p ops))) x := hwr ▸ hin
    simp only [hin, hin', if_false]
    have hnm : a ∉ e.mayWrite := by
      intro hm
      have h1 := List.all_eq_true.mp hstale a hm
      simp at h1
      rcases h1 with h1 | h1
      · exact hin (sem.wr_must _ _ a h1)
      · exact ha h1
    exact hinv a hnm

end History


/-- **History independence is compositional.** If a `fit` consists of a first phase conforming to `e₁` (typically the
    `fit` of an attribute object such as `self.solver` or `self._clustering_method`, its attributes carrying a
    prefix) followed by a phase conforming to `e₂` (which may read what the first phase assigned), then the whole
    call conforms to `e₁.seq e₂`; so if the composed description passes `coreOK` — a decidable check — the call is
    history independent. This is the semantic reading of the recursive clause of `Est.historyOK` for attribute
    objects. -/
theorem history_independent_seq {Inp : Type} (e₁ e₂ : Est) (h₁ : e₁.normalised = []) (h₂ : e₂.normalised = [])
    (hok : (e₁.seq e₂).coreOK = true) (sem₁ : Sem e₁ Inp) (sem₂ : Sem e₂ Inp) (c0 p : Store)
    (ops : List (Op Inp)) (hops : ∀ op ∈ ops, op.wf (e₁.seq e₂)) (x : Inp) (a : String)
    (ha : a ∉ (e₁.seq e₂).logs) :
    let both := sem₁.seq sem₂ h₁
    sem₂.fit (sem₁.fit (both.run ((e₁.seq e₂).fresh c0 p) ops) x) x a =
      sem₂.fit (sem₁.fit ((e₁.seq e₂).fresh c0 (paramsAfter p ops)) x) x a := by
  intro both
  have := history_independent (e₁.seq e₂) hok both c0 p ops hops x a ha
  rw [Sem.seq_fit sem₁ sem₂ h₁ h₂, Sem.seq_fit sem₁ sem₂ h₁ h₂] at this
  exact this

/-- the shape of `HITS` / `PCA`: a solver object created by `__init__` whose `fit` overwrites all of its own fitted
    attributes from its parameters, then the estimator reads them -/
def solverPhase : Est :=
  { name := "solver.fit", params := ["solver.tol"], init := [("solver.tol", .param "solver.tol"), ("solver.values_", .const)],
    readsFirst := ["solver.tol"], mayWrite := ["solver.values_"], mustWrite := ["solver.values_"], deep := [], logs := [],
    normalised := [], rng := [], subs := [], blind := [] }

def outerPhase : Est :=
  { name := "fit", params := [], init := [("scores_", .const)],
    readsFirst := ["solver.values_"], mayWrite := ["scores_"], mustWrite := ["scores_"], deep := [], logs := [],
    normalised := [], rng := [], subs := [], blind := [] }

/-- non-vacuity: the composed description passes although the second phase reads an attribute that the call assigns;
    a solver whose `fit` might leave `values_` untouched would not -/
example : (solverPhase.seq outerPhase).coreOK = true ∧ (solverPhase.seq outerPhase).readsFirst = ["solver.tol"] := by
  decide

example : ({ solverPhase with mustWrite := [] }.seq outerPhase).coreOK = false := by decide


/-- **`coreOK` is tight.** If a well-formed description (`mustWrite ⊆ mayWrite`, no log among the attributes read
    first) is rejected, there is an implementation that conforms to it and a one-fit history after which `fit` leaves
    some non-log attribute different from what it leaves on a fresh object: either an attribute that is assigned on one
    input and not on another (it survives the refit), or an attribute that `fit` reads and then overwrites (a counter).
    So the check rejects only descriptions that admit a history-dependent implementation. -/
theorem coreOK_tight (e : Est) (hwf : ∀ b, b ∈ e.mustWrite → b ∈ e.mayWrite)
    (hlogs : ∀ a, a ∈ e.readsFirst → a ∉ e.logs) (h : e.coreOK = false) :
    ∃ (Inp : Type) (sem : Sem e Inp) (ops : List (Op Inp)) (x : Inp) (a : String),
      (∀ op ∈ ops, op.wf e) ∧ a ∉ e.logs ∧
      sem.fit (sem.run (e.fresh (fun _ => 0) (fun _ => 0)) ops) x a ≠
        sem.fit (e.fresh (fun _ => 0) (paramsAfter (fun _ => 0) ops)) x a := by
  unfold Est.coreOK at h
  rw [Bool.and_eq_false_iff] at h
  rcases h with h | h
  · -- a stale attribute
    unfold Est.noStale at h
    rw [List.all_eq_false] at h
    obtain ⟨a, ha, hs⟩ := h
    have hs' : a ∉ e.mustWrite ∧ a ∉ e.logs := by
      simpa [List.contains_iff_mem] using hs
    refine ⟨Bool, staleSem e a hwf ha, [.fit true], false, a, ?_, hs'.2, ?_⟩
    · intro op hop
      simp only [List.mem_cons, List.not_mem_nil, or_false] at hop
      subst hop; trivial
    · exact stale_witness e a hwf ha hs'.1
  · -- an attribute read first and assigned
    unfold Est.readsStable at h
    rw [List.all_eq_false] at h
    obtain ⟨a, ha, hs⟩ := h
    have hnl : a ∉ e.logs := hlogs a ha
    have hm : a ∈ e.mayWrite := by
      have hs' : ¬ a ∈ e.mayWrite → a ∈ e.logs := by simpa [List.contains_iff_mem] using hs
      cases hdec : e.mayWrite.contains a with
      | true => simpa [List.contains_iff_mem] using hdec
      | false =>
        have : a ∉ e.mayWrite := by simpa [List.contains_iff_mem] using hdec
        exact absurd (hs' this) hnl
    refine ⟨Unit, counterSem e a hwf hm ha, [.fit ()], (), a, ?_, hnl, ?_⟩
    · intro op hop
      simp only [List.mem_cons, List.not_mem_nil, or_false] at hop
      subst hop; trivial
    · exact counter_witness e a hwf hm ha

/-- non-vacuity: the pinned Louvain shape is well formed and rejected -/
example : louvainPinned.coreOK = false ∧ (louvainPinned.mustWrite.all fun b => louvainPinned.mayWrite.contains b) = true ∧
    (louvainPinned.readsFirst.all fun a => !(louvainPinned.logs.contains a)) = true := by decide


/-- **Full statement for `set_params`** (every parameter `Algorithm.set_params` accepts, `__init__` canonicalising the
    derived ones with an arbitrary function `canon` while `set_params` stores the raw value). It is **false**
    (`set_params_on_derived_not_history_independent`): what is proved (the `_partial` of this statement) is `history_independent`, where `set_params`
    touches only parameters that `__init__` stores unchanged. The classes that still have derived accepted parameters
    are listed in the evidence (`set_params_on_derived`) and exercised by the harness with non-canonical values. -/
def history_independent_setparams_full : Prop :=
  ∀ (e : Est), e.coreOK = true → ∀ (canon : String → Estimator.Val → Estimator.Val) (sem : Sem e Unit) (c0 p : Store)
    (ops : List (Op Unit)), (∀ op ∈ ops, op.wfAccepted e) → ∀ (a : String), a ∉ e.logs → a ∉ e.acceptedAttrs →
    sem.fit (sem.run (e.freshCanon canon c0 p) ops) () a = sem.fit (e.freshCanon canon c0 (paramsAfter p ops)) () a

/-- **`set_params` on a canonicalised parameter breaks history independence** (the pinned Louvain `modularity`,
    Propagation `n_iter`, RankClassifier `n_jobs`, HITS / PCA `solver`; repaired in /repo by storing the raw argument and
    canonicalising where `fit` uses it, which makes the parameter `setable`): the description passes `coreOK`, the
    operation is accepted, and the implementation that labels with the value of the attribute gives the raw value 3 after
    `set_params`, while the constructor would have stored `canon 3 = 1`. -/
theorem set_params_on_derived_not_history_independent : ¬ history_independent_setparams_full := by
  intro h
  have := h derivedParamShape (by decide) (fun _ v => v % 2) derivedSem (fun _ => 0) (fun _ => 0)
    [.setParam "modularity" 3] (by
      intro op hop
      simp only [List.mem_cons, List.not_mem_nil, or_false] at hop
      subst hop
      exact Or.inr (by decide)) "labels_" (by decide) (by decide)
  revert this
  decide

/-- **The generated obligation of a class implies the hypothesis of `history_independent` for the flattened
    description** — the object together with the attribute objects it refits (`self.solver`, `self._clustering_method`,
    `self.algorithm`), their attributes named `attr.x`, as the phases of `Est.seq` — and for the class's own description. -/
theorem staticOK_implies_flat_coreOK (tbl : List Est) (fuel : Nat) (e : Est) (h : e.staticOK tbl fuel = true) :
    e.coreOK = true ∧ ∃ f, e.flatten tbl fuel = some f ∧ f.coreOK = true := by
  unfold Est.staticOK at h
  rw [Bool.and_eq_true] at h
  refine ⟨historyOK_coreOK tbl fuel e h.1, ?_⟩
  have h2 := h.2
  unfold Est.flatOK at h2
  cases hf : e.flatten tbl fuel with
  | none => simp [hf] at h2
  | some f => exact ⟨f, rfl, by simpa [hf] using h2⟩

/-- … hence history independence of every implementation of the flattened description (built from implementations of
    the phases with `Sem.seq`, see `history_independent_seq`). -/
theorem history_independent_flat {Inp : Type} (tbl : List Est) (fuel : Nat) (e f : Est)
    (hf : e.flatten tbl fuel = some f) (hs : e.staticOK tbl fuel = true) (sem : Sem f Inp) (c0 p : Store)
    (ops : List (Op Inp)) (hops : ∀ op ∈ ops, op.wf f) (x : Inp) (a : String) (ha : a ∉ f.logs) :
    sem.fit (sem.run (f.fresh c0 p) ops) x a = sem.fit (f.fresh c0 (paramsAfter p ops)) x a := by
  obtain ⟨_, f', hf', hok⟩ := staticOK_implies_flat_coreOK tbl fuel e hs
  rw [hf] at hf'
  cases hf'
  exact history_independent f hok sem c0 p ops hops x a ha

/-- the shape of `HITS`: a solver object created by `__init__`, refitted on every path, then read -/
def hitsShape : Est :=
  { name := "HitsShape", params := ["solver"], init := [("solver", .obj "SolverShape"), ("scores_", .const)],
    readsFirst := ["solver"], mayWrite := ["scores_"], mustWrite := ["scores_"], deep := [("solver", "SolverShape")],
    logs := [], normalised := [], rng := [], subs := [], blind := [], deepAlways := ["solver"] }

def solverShape : Est :=
  { name := "SolverShape", params := ["tol"], init := [("tol", .param "tol"), ("values_", .const)],
    readsFirst := ["tol"], mayWrite := ["values_"], mustWrite := ["values_"], deep := [], logs := [],
    normalised := [], rng := [], subs := [], blind := [] }

/-- non-vacuity: the flattened description exists, names the solver's attributes `solver.x`, and passes; a solver that may
    leave `values_` untouched makes the flattened check fail although the class's own lists look fine -/
example : hitsShape.staticOK [hitsShape, solverShape] 3 = true ∧
    (hitsShape.flatten [hitsShape, solverShape] 3).map (·.mustWrite) = some ["solver.values_", "scores_"] := by decide

example : hitsShape.staticOK [hitsShape, { solverShape with mustWrite := [] }] 3 = false := by decide

/-! ### random sources -/

/-- **Same input, same seed, same state of numpy's global generator ⇒ same result, whatever the caller cannot
    control.** For a description all of whose random sources are `ok` (generator created from the seed attribute at
    each fit, from a constant, or numpy's global generator, whose state is part of the input), every implementation
    that draws only through its declared sources (`RSem`) returns the same object for any two values of the
    uncontrollable argument `ent` (operating-system entropy, libc `rand()`, ARPACK's own generator): a rerun in the same
    or in a fresh process gives the same result. -/
theorem rerun_deterministic {Inp : Type} (e : Est) (hok : e.rng.all Rng.ok = true) (sem : RSem e Inp)
    (stream : Estimator.Val → Nat → Estimator.Val) (s : Store) (x : Inp) (g ent ent' : Estimator.Val) :
    sem.fit stream s x g ent = sem.fit stream s x g ent' := by
  unfold RSem.fit
  rw [draws_indep e hok stream s g ent ent']

/-- … and conversely a source that is not `ok` and is not a generator attribute (`entropy`, `cRand`) does change the
    draws with the uncontrollable argument: the classification is tight. (A generator attribute, `atInit`, is a matter
    of the store: it makes `coreOK` fail, see the Louvain witness above.) -/
theorem uncontrolled_source_changes_draws (r : Rng) (hr : r.ok = false) (hinit : ∀ a, r ≠ .atInit a) :
    ∃ (stream : Estimator.Val → Nat → Estimator.Val) (s : Store) (g ent ent' : Estimator.Val) (k : Nat),
      r.draw stream s g ent k ≠ r.draw stream s g ent' k :=
  ⟨fun seed _ => seed, fun _ => 0, 0, 1, 2, 0, draw_entropy_dep r hr hinit⟩

example : (Rng.cRand "leiden_core.optimize_refine_core").ok = false ∧ (Rng.atFit "random_state").ok = true := by decide

/-- an implementation of the repaired Louvain shape in the sense of `RSem`: the label is the first draw of its only
    source (a generator created from the seed attribute) -/
def seededRSem : RSem louvainSeeded Unit where
  wr := fun _ _ _ => ["labels_"]
  new := fun _ _ d => fun _ => d 0 0

/-- non-vacuity of `rerun_deterministic`: the hypothesis holds for the repaired shape, the label is a function of the
    seed (here seed 3, generator `draw`), whatever `ent` is; for the pinned Leiden source (`cRand`) the same
    implementation returns `ent` itself -/
example : louvainSeeded.rng.all Rng.ok = true ∧
    seededRSem.fit (fun s k => draw s k) (fun _ => 3) () 0 11 "labels_" = draw 3 0 ∧
    seededRSem.fit (fun s k => draw s k) (fun _ => 3) () 0 99 "labels_" = draw 3 0 := by decide

example :
    let leidenPinned : Est := { louvainSeeded with rng := [.cRand "optimize_refine_core"] }
    let sem : RSem leidenPinned Unit := { wr := fun _ _ _ => ["labels_"], new := fun _ _ d => fun _ => d 0 0 }
    sem.fit (fun seed _ => seed) (fun _ => 3) () 0 11 "labels_" ≠ sem.fit (fun seed _ => seed) (fun _ => 3) () 0 99 "labels_" := by decide

/-- a conforming implementation of the repaired Louvain shape: the label is the first draw of the generator that
    `fit` creates from the seed parameter -/
def seededSem : Sem louvainSeeded Unit where
  nrm := fun _ v => v
  nrm_idem := fun _ _ => rfl
  nrm_id := fun _ _ _ => rfl
  wr := fun _ _ => ["labels_"]
  new := fun s _ => fun _ => draw (s "random_state") 0
  wr_may := by intro s x a h; simpa [louvainSeeded] using h
  wr_must := by intro s x a h; simpa [louvainSeeded] using h
  frame := by
    intro s s' x h
    refine ⟨rfl, ?_⟩
    intro a _
    simp [h "random_state" (by simp [louvainSeeded])]

/-- non-vacuity of `history_independent`: the repaired shape passes the check, a conforming implementation exists,
    and assigning another seed to the attribute (`est.random_state = 4`; the library's `set_params` itself refuses the names
    `random_state` and `verbose`) is a legal operation of its histories -/
example : louvainSeeded.coreOK = true ∧ "random_state" ∈ louvainSeeded.setable := by decide

example : seededSem.fit (seededSem.run (louvainSeeded.fresh (fun _ => 0) (fun _ => 3)) [.fit (), .setParam "random_state" 4, .fit ()]) () "labels_"
    = seededSem.fit (louvainSeeded.fresh (fun _ => 0) (fun _ => 4)) () "labels_" := by decide

/-- (witness kept from the pinned tree, repaired by 4f075d8e: an `example`, not a counted theorem) The pinned Louvain /
    Leiden seeding — the generator created by `__init__` is the attribute `random_state`, `fit` reads it and advances
    it — fails the check, and `coreOK_tight`'s construction gives an implementation *conforming to that description*
    (`counterSem`) for which a second `fit` differs from the first `fit` of a fresh object. -/
example : louvainPinned.coreOK = false ∧
    ∃ (sem : Sem louvainPinned Unit),
      sem.fit (sem.run (louvainPinned.fresh (fun _ => 0) (fun _ => 0)) [.fit ()]) () "random_state" ≠
        sem.fit (louvainPinned.fresh (fun _ => 0) (fun _ => 0)) () "random_state" :=
  ⟨by decide,
   counterSem louvainPinned "random_state" (by decide) (by decide) (by decide),
   counter_witness louvainPinned "random_state" (by decide) (by decide) (by decide)⟩

/-! ## (C) `check_random_state` -/

/-- **An int seed yields a private generator.** For every branch table that passes `crsOK` (the generated one is
    re-checked on every run), for every seed numpy accepts (`0 ≤ seed < 2^32`, otherwise `RandomState` raises
    ValueError and so does the model) and every world of existing generators (numpy's global one has identity 0): the result is a *new* object
    (its identity is the next unused one: not numpy's global generator 0, not any existing generator), its state is
    `RandomState(seed)`'s — a function of the seed alone —, and the global generator is left untouched. -/
theorem check_random_state_private (b : List (String × String)) (hb : crsOK b = true) (s : Int) (w : World)
    (hw : 0 < w.next) (hs : 0 ≤ s ∧ s < 4294967296) :
    ∃ g w', checkRandomState b (.int s) w = some (.ok (g, w')) ∧
      g.id = w.next ∧ g.id ≠ 0 ∧ g.state = seedState s ∧ w'.globalState = w.globalState := by
  have hint : IntGoal b := by
    unfold crsOK at hb
    simp only [Bool.and_eq_true] at hb
    obtain ⟨⟨⟨h1, _⟩, _⟩, _⟩ := hb
    unfold IntGoal
    split at h1
    · rename_i g w' heq
      rw [heq]
      simpa using h1
    · simp at h1
  refine ⟨_, _, crs_int b hint s w hs, rfl, ?_, rfl, rfl⟩
  simp only; omega


/-- **`None` never yields numpy's global generator**: for every table passing `crsOK` and every world. -/
theorem check_random_state_none_not_global (b : List (String × String)) (hb : crsOK b = true) (w : World)
    (hw : 0 < w.next) :
    ∃ g w', checkRandomState b .none w = some (.ok (g, w')) ∧ g.id ≠ 0 := by
  have hgoal : NoneGoal b := by
    unfold crsOK at hb
    simp only [Bool.and_eq_true] at hb
    obtain ⟨⟨⟨_, h2⟩, _⟩, _⟩ := hb
    unfold NoneGoal
    split at h2
    · rename_i g w' heq
      rw [heq]
      simpa using h2
    · simp at h2
  clear hb
  induction b with
  | nil =>
    unfold NoneGoal checkRandomState at hgoal
    simp at hgoal
  | cons br rest ih =>
    obtain ⟨t, r⟩ := br
    unfold NoneGoal at hgoal
    unfold checkRandomState at hgoal ⊢
    cases hth : testHolds t .none with
    | none => simp [hth] at hgoal
    | some bv =>
      cases bv with
      | true =>
        simp only [hth] at hgoal ⊢
        exact branchResult_none r _ hgoal rfl w hw
      | false =>
        simp only [hth] at hgoal ⊢
        exact ih hgoal

example : ∃ g w', checkRandomState crsPinned .none { globalState := 1, next := 2, entropy := 77 } = some (.ok (g, w')) ∧ g.id ≠ 0 :=
  check_random_state_none_not_global crsPinned (by decide) _ (by decide)


/-- **A generator instance is handed back as it is** (same identity, same state, world unchanged): the caller's
    generator is then consumed across fits *by the caller's choice*; the property quantifies over explicit seeds. -/
theorem check_random_state_instance_same (b : List (String × String)) (hb : crsOK b = true) (g : Gen) (w : World) :
    checkRandomState b (.inst g) w = some (.ok (g, w)) := by
  have hgoal : InstGoal b := by
    unfold crsOK at hb
    simp only [Bool.and_eq_true] at hb
    obtain ⟨⟨⟨_, _⟩, h3⟩, _⟩ := hb
    unfold InstGoal
    split at h3
    · rename_i g' w' heq
      rw [heq]
      simpa using h3
    · simp at h3
  exact crs_inst b hgoal g w

example : louvainSeeded.historyOK [louvainSeeded] 2 = true := by decide

/-- non-vacuity: the pinned table passes, and `check_random_state(42)` in a world with two generators -/
example : crsOK crsPinned = true := by decide
example : checkRandomState crsPinned (.int 42) { globalState := 1, next := 2, entropy := 0 }
    = some (.ok (⟨2, seedState 42⟩, { globalState := 1, next := 3, entropy := 0 })) := by rfl

/-- a table that hands out numpy's global generator for `None` or for an int seed does not pass -/
example : crsOK [("x is None", "global"), ("type(x) == int", "seeded"),
                 ("type(x) == np.random.RandomState", "same"), ("else", "raise:TypeError")] = false := by decide
example : crsOK [("x is None", "entropy"), ("type(x) == int", "global"),
                 ("type(x) == np.random.RandomState", "same"), ("else", "raise:TypeError")] = false := by decide

end SkNet.C16
