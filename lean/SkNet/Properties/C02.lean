/- C02 — placeholder, theorems follow. -/
import SkNet.Model.WL
import SkNet.Spec.WL
namespace SkNet.C02
open SkNet SkNet.WL
theorem nbrs_nil (u : Nat) : nbrs [] u = [] := by simp [nbrs]
end SkNet.C02
