/-
C02 — Renumbering the nodes only renumbers the results.

Theorems about the model of the Weisfeiler-Lehman kernel (`SkNet/Model/WL.lean`, tied to
weisfeiler_lehman_core.pyx by exact `run` lines with numpy's own `powers` array) against colour refinement
specified without hashes, sorting or colour numbers (`SkNet/Spec/WL.lean`), and equivariance under
renumbering for refinement, for the WL partition and for hop distances (C10's model).
Equivariance of the remaining algorithms of the property is evaluated on the implementation by the harness
(f(P A Pᵀ) = P f(A)), and proved per model in the property files of C04, C06, C11, C13, C14 where available.
-/
import SkNet.Lemmas.WLEquiv
import SkNet.Properties.C10
import SkNet.Lemmas.EmbeddingEquiv
import SkNet.Lemmas.WLCollision

namespace SkNet.C02
open SkNet SkNet.WL

attribute [-simp] List.getD_eq_getElem?_getD

/-! ## the kernel against colour refinement -/

/-- **wl_round_refines**. One iteration of the kernel's `while` loop refines exactly one level: if the
current colours group the nodes as round `k` of colour refinement does, the new colours group them as
round `k+1` does — for every graph, with any hash that identifies exactly the permutations of a colour
list (exact arithmetic), any tie order of the sort. -/
theorem wl_round_refines {H : Type} {ops : HashOps H} (hx : ExactOps ops) (adj : List (List Nat))
    (hwf : WFAdj adj) (k : Nat) (labels : List Nat) (hL : Groups adj k labels) :
    Groups adj (k+1) (round ops adj labels).1 :=
  round_groups hx adj hwf k labels hL

/-- **wl_partition_eq_refinement**. `color_weisfeiler_lehman(adjacency)` (default `max_iter`) gives two
nodes the same colour iff colour refinement can never separate them. Covers both ways the loop ends: a
round that changes nothing (then refinement is stable there) and the budget of `n` rounds (refinement is
stable after at most `n-1` rounds: every unstable round creates a class). -/
theorem wl_partition_eq_refinement {H : Type} {ops : HashOps H} (hx : ExactOps ops) (adj : List (List Nat))
    (hwf : WFAdj adj) (u v : Nat) (hu : u < adj.length) (hv : v < adj.length) :
    (colorWL ops adj none).getD u 0 = (colorWL ops adj none).getD v 0 ↔ Inseparable adj u v := by
  have inv0 : WLInv adj 0 (tab adj.length fun _ => 0) := by
    refine ⟨fun a b ha hb => by simp [ha, hb, sameClass], by simp, fun hn => ⟨0, hn, by simp [hn]⟩⟩
  obtain ⟨k', _, hk', inv, hst⟩ :=
    coloring_spec hx adj hwf adj.length 0 (tab adj.length fun _ => 0) true inv0 (fun h => Bool.noConfusion h)
  have hstable : Stable adj k' := by
    by_cases hlt : k' < 0 + adj.length
    · exact hst hlt
    · obtain ⟨j, hj, hsj⟩ := exists_stable adj (by omega)
      have := stable_forever adj hwf j hsj (k' - j)
      have e : j + (k' - j) = k' := by omega
      rw [e] at this; exact this
  have e : colorWL ops adj none = (coloring ops adj adj.length (tab adj.length fun _ => 0) true).1 := rfl
  rw [e, inv.groups u v hu hv]
  exact (inseparable_iff_of_stable adj hwf k' hstable u v hu hv).symm

/-! ### the kernel the code runs: a float hash, which is *not* exact

`wl_partition_eq_refinement` needs `ExactOps ops`: a hash that identifies exactly the permutations of a colour
list. The compiled kernel uses `floatOps`: Σ (−π/3.15)^colour in float64 with the test `|a − b| > 1e-10`. That
instance is not exact, and the full claim about it is false. -/

/-- the claim of the property for the float kernel, with `pw` the `powers` array numpy hands to it -/
def wl_float_partition_eq_refinement_full (pw : Array Float) : Prop :=
  ∀ adj : List (List Nat), WFAdj adj → adj.length ≤ pw.size → ∀ u v, u < adj.length → v < adj.length →
    ((colorWL (floatOps pw) adj none).getD u 0 = (colorWL (floatOps pw) adj none).getD v 0 ↔ Inseparable adj u v)

/-- **wl_float_hash_collision** (negation of the full claim, by a concrete witness). On the 63-node graph
`collisionAdj`, with numpy's own `powers` array, the float kernel stops with nodes 0 and 11 sharing a colour
although two rounds of colour refinement separate them (their neighbourhoods have degrees {1,2⁴,3⁵} and
{11⁵,12⁴,13}: the hashes differ by 2.7e-13 < ε). Replayed on the implementation by the harness on every run
(`corpus/C02.jsonl`, known finding F-C02-wl-hash-collision); `wl_partition_eq_refinement` is the part that is
proved: the kernel with an exact hash. -/
theorem wl_float_hash_collision : ¬ wl_float_partition_eq_refinement_full collisionPowers := by
  intro h
  have := (h collisionAdj collisionAdj_wf (by decide) 0 11 (by decide) (by decide)).1 collision_same_colour 2
  rw [collision_separated] at this
  exact Bool.noConfusion this

/-! ### the evaluators of the `spec` lines are the specification -/

/-- **spec_lines_sound**. What the driver evaluates on the implementation's colours (`groupsAsT`, `stableAtT`,
`groupsAsStable`: memoised tables) is the propositional specification: `Groups adj k`, `Stable adj k`, and
"two nodes share a colour iff refinement can never separate them" — on every well-formed adjacency structure. -/
theorem spec_lines_sound (adj : List (List Nat)) (hwf : WFAdj adj) (labels : List Nat) (k : Nat) :
    (groupsAsT adj k labels = true ↔ Groups adj k labels) ∧
    (stableAtT adj k = true ↔ Stable adj k) ∧
    (groupsAsStable adj labels = true ↔
      ∀ u v, u < adj.length → v < adj.length → (labels.getD u 0 = labels.getD v 0 ↔ Inseparable adj u v)) :=
  ⟨by rw [groupsAsT_eq adj hwf, groupsAs_iff], by rw [stableAtT_eq adj hwf, stableAt_iff],
   groupsAsStable_iff adj hwf labels⟩

/-! ## the exact instance satisfies the hypotheses (non-vacuity; it is also what `c02.wl_exact` runs) -/

/-- the exact instance (hash = sorted list of neighbour colours, lexicographic order) is an `ExactOps` -/
theorem exactOps_exact : ExactOps exactOps where
  hash_iff := sortNat_eq_iff
  lt_irrefl := ltList_irrefl
  lt_trans := ltList_trans
  lt_total := ltList_total
  apart_iff := by intro a b; simp [exactOps]

/-- Non-vacuity on the house graph (0-1, 0-4, 1-2, 1-4, 2-3, 3-4): colours of the exact instance, and the
refinement classes they coincide with. -/
example : colorWL exactOps [[1, 4], [0, 2, 4], [1, 3], [2, 4], [0, 1, 3]] none = [1, 2, 0, 0, 2] := by decide
example : WFAdj [[1, 4], [0, 2, 4], [1, 3], [2, 4], [0, 1, 3]] := wfAdj_of_check _ (by decide)

/-! ## renumbering -/

/-- **refinement is equivariant**: renumbering the nodes renumbers the refinement classes of every round. -/
theorem refinement_equivariant {n : Nat} {π πinv : Nat → Nat} (hp : IsPerm n π πinv) (adj : List (List Nat))
    (hn : adj.length = n) (hwf : WFAdj adj) :
    ∀ k u v, u < n → v < n →
      sameClass (relabelAdj π πinv adj) k (π u) (π v) = sameClass adj k u v := by
  intro k
  induction k with
  | zero => intro u v _ _; rfl
  | succ k ih =>
    intro u v hu hv
    apply Bool.eq_iff_iff.2
    rw [sameClass_succ_iff, sameClass_succ_iff, ih u v hu hv]
    have hlen : (relabelAdj π πinv adj).length = n := by simp [relabelAdj, hn]
    rw [nbrs_relabel hp adj hn u hu, nbrs_relabel hp adj hn v hv]
    have hcount : ∀ (w : Nat), w < n → ∀ l : List Nat, (∀ x ∈ l, x < n) →
        (l.map π).countP (sameClass (relabelAdj π πinv adj) k (π w)) = l.countP (sameClass adj k w) := by
      intro w hw l hl
      rw [List.countP_map]
      apply List.countP_congr
      intro x hx
      simp only [Function.comp]
      rw [ih w x hw (hl x hx)]
    have hwu : ∀ x ∈ nbrs adj u, x < n := fun x hx => hn ▸ hwf u (hn ▸ hu) x hx
    have hwv : ∀ x ∈ nbrs adj v, x < n := fun x hx => hn ▸ hwf v (hn ▸ hv) x hx
    constructor
    · rintro ⟨h1, h2⟩
      refine ⟨h1, fun w hw => ?_⟩
      have hw' : w < n := hn ▸ hw
      have := h2 (π w) (by rw [hlen]; exact hp.lt w hw')
      rw [hcount w hw' _ hwu, hcount w hw' _ hwv] at this
      exact this
    · rintro ⟨h1, h2⟩
      refine ⟨h1, fun w' hw' => ?_⟩
      have hw'n : w' < n := hlen ▸ hw'
      have hw : πinv w' < n := hp.lt_inv w' hw'n
      have := h2 (πinv w') (by rw [hn]; exact hw)
      rw [← hcount (πinv w') hw _ hwu, ← hcount (πinv w') hw _ hwv, hp.right w' hw'n] at this
      exact this

/-- **wl_partition_equivariant**. The Weisfeiler-Lehman colouring of a renumbered graph groups the
renumbered nodes exactly as the colouring of the original graph groups the original nodes. -/
theorem wl_partition_equivariant {H : Type} {ops : HashOps H} (hx : ExactOps ops) {n : Nat} {π πinv : Nat → Nat}
    (hp : IsPerm n π πinv) (adj : List (List Nat)) (hn : adj.length = n) (hwf : WFAdj adj)
    (u v : Nat) (hu : u < n) (hv : v < n) :
    ((colorWL ops (relabelAdj π πinv adj) none).getD (π u) 0 = (colorWL ops (relabelAdj π πinv adj) none).getD (π v) 0) ↔
    ((colorWL ops adj none).getD u 0 = (colorWL ops adj none).getD v 0) := by
  have hlen : (relabelAdj π πinv adj).length = n := by simp [relabelAdj, hn]
  rw [wl_partition_eq_refinement hx _ (wfAdj_relabel hp adj hn hwf) (π u) (π v)
        (by rw [hlen]; exact hp.lt u hu) (by rw [hlen]; exact hp.lt v hv),
      wl_partition_eq_refinement hx adj hwf u v (hn ▸ hu) (hn ▸ hv)]
  unfold Inseparable
  constructor
  · intro h k; rw [← refinement_equivariant hp adj hn hwf k u v hu hv]; exact h k
  · intro h k; rw [refinement_equivariant hp adj hn hwf k u v hu hv]; exact h k

/-- **wl_equivariant**. Renumbering the nodes renumbers the Weisfeiler-Lehman colours — the colour numbers
themselves, for any `max_iter`: the colour of `π u` in the renumbered graph is the colour of `u` in the graph.
(Colours are canonical: they are handed out in sorted order of a key that does not mention node numbers.) -/
theorem wl_equivariant {H : Type} {ops : HashOps H} (hx : ExactOps ops) {n : Nat} {π πinv : Nat → Nat}
    (hp : IsPerm n π πinv) (adj : List (List Nat)) (hn : adj.length = n) (hwf : WFAdj adj)
    (maxIter : Option Nat) (u : Nat) (hu : u < n) :
    (colorWL ops (relabelAdj π πinv adj) maxIter).getD (π u) 0 = (colorWL ops adj maxIter).getD u 0 := by
  unfold colorWL
  simp only [relabelAdj_length, hn]
  have h := coloring_equivariant hx hp adj hn hwf
    (match maxIter with | none => n | some m => if m > n then n else m) 0
    (tab n fun _ => 0) (tab n fun _ => 0) true
    (hn ▸ wlInv_zero adj) (by have := wlInv_zero (relabelAdj π πinv adj); rwa [relabelAdj_length, hn] at this)
    (corr_zero n π hp.lt)
  exact h.1 u hu

/-- **wl_equivariant_any_storage**. The same for *any* stored form of the renumbered graph: `adj'` has, in row
`π u`, the renumbered neighbours of `u` in whatever order (scipy's `P A Pᵀ` re-sorts the rows; `relabelAdj` keeps
the original order) — with an exact hash the order inside a row is irrelevant (`colorWL_sameRows`). For the float
hash this is exactly the summation-order question the twin-graph generator probes. -/
theorem wl_equivariant_any_storage {H : Type} {ops : HashOps H} (hx : ExactOps ops) {n : Nat} {π πinv : Nat → Nat}
    (hp : IsPerm n π πinv) (adj adj' : List (List Nat)) (hn : adj.length = n) (hwf : WFAdj adj)
    (hs : SameRows (relabelAdj π πinv adj) adj') (maxIter : Option Nat) (u : Nat) (hu : u < n) :
    (colorWL ops adj' maxIter).getD (π u) 0 = (colorWL ops adj maxIter).getD u 0 := by
  rw [← colorWL_sameRows hx hs maxIter]
  exact wl_equivariant hx hp adj hn hwf maxIter u hu

/-- Non-vacuity: the rotation `u ↦ u+1 mod 5` is a renumbering, and the house graph stored with sorted rows is a
stored form of its renumbered copy. -/
example : IsPerm 5 (fun u => (u + 1) % 5) (fun u => (u + 4) % 5) ∧
    SameRows (relabelAdj (fun u => (u + 1) % 5) (fun u => (u + 4) % 5) [[1, 4], [0, 2, 4], [1, 3], [2, 4], [0, 1, 3]])
      [[1, 2, 4], [0, 2], [0, 1, 3], [2, 4], [0, 3]] := by
  refine ⟨⟨fun i _ => Nat.mod_lt _ (by decide), fun i _ => Nat.mod_lt _ (by decide), fun i hi => by omega,
    fun i hi => by omega⟩, by decide, fun i hi => ?_⟩
  have : i = 0 ∨ i = 1 ∨ i = 2 ∨ i = 3 ∨ i = 4 := by simp [relabelAdj_length] at hi; omega
  rcases this with rfl | rfl | rfl | rfl | rfl <;> decide

/-- the edge counts compared by `are_isomorphic` agree for a renumbered copy -/
theorem nnz_relabel {n : Nat} {π πinv : Nat → Nat} (hp : IsPerm n π πinv) (adj : List (List Nat))
    (hn : adj.length = n) : nnz (relabelAdj π πinv adj) = nnz adj := by
  unfold nnz
  have e1 : (relabelAdj π πinv adj).map List.length = tab n (fun i => (adj.getD (πinv i) []).length) := by
    simp [relabelAdj, tab, hn, List.map_map, Function.comp_def]
  have e2 : adj.map List.length = tab n (fun i => (adj.getD i []).length) := by
    apply List.ext_getElem?
    intro i
    rw [tab_getElem?, List.getElem?_map]
    by_cases hi : i < n
    · rw [List.getElem?_eq_getElem (hn ▸ hi)]
      simp [hi, List.getD_eq_getElem?_getD, List.getElem?_eq_getElem (hn ▸ hi)]
    · rw [List.getElem?_eq_none (by omega)]; simp [hi]
  rw [e1, e2]
  have hperm : (tab n fun i => (adj.getD (πinv i) []).length).Perm (tab n fun i => (adj.getD i []).length) :=
    tab_perm_of_perm hp _ _ (fun w hw => by rw [hp.left w hw])
  exact hperm.foldl_eq' (fun x _ y _ z => by omega) 0

/-- **areIsomorphic_relabel**. The Weisfeiler-Lehman test never declares a graph non-isomorphic to a
renumbered copy of itself (nor fails on it): for every graph with at least one stored entry (a matrix without any is refused
by `check_format`: `ValueError`, not an answer), every renumbering, every `max_iter`,
`are_isomorphic(G, πG)` returns `True`. -/
theorem areIsomorphic_relabel {H : Type} {ops : HashOps H} (hx : ExactOps ops) {n : Nat} {π πinv : Nat → Nat}
    (hp : IsPerm n π πinv) (adj : List (List Nat)) (hn : adj.length = n) (hpos : 0 < nnz adj) (hwf : WFAdj adj)
    (maxIter : Option Nat) :
    areIsomorphic ops adj (relabelAdj π πinv adj) maxIter = some true := by
  unfold areIsomorphic
  have he : (nnz adj == 0 || nnz (relabelAdj π πinv adj) == 0) = false := by
    rw [nnz_relabel hp adj hn]; simp; omega
  rw [if_neg (by rw [he]; exact Bool.false_ne_true)]
  have hl : (adj.length != (relabelAdj π πinv adj).length) = false := by simp [relabelAdj_length]
  have hz : (nnz adj != nnz (relabelAdj π πinv adj)) = false := by simp [nnz_relabel hp adj hn]
  simp only [hl, hz, Bool.or_self, Bool.false_eq_true, if_false]
  -- the loop keeps the two colourings in correspondence, so the histograms agree at every step
  have hloop : ∀ (m k : Nat) (L L' : List Nat) (c : Bool), WLInv adj k L →
      WLInv (relabelAdj π πinv adj) k L' → Corr n π L L' → L.length = n → L'.length = n →
      isoLoop ops adj (relabelAdj π πinv adj) m L L' c c = some true := by
    intro m
    induction m with
    | zero => intro k L L' c _ _ _ _ _; rfl
    | succ m ih =>
      intro k L L' c inv inv' hc hL hL'
      unfold isoLoop
      cases c with
      | false => rfl
      | true =>
        simp only [Bool.or_self, if_true]
        obtain ⟨h1, h2, k', i1, i2⟩ := coloring_equivariant hx hp adj hn hwf 1 k L L' true inv inv' hc
        have hlen1 : (coloring ops adj 1 L true).1.length = n := by rw [i1.len, hn]
        have hlen2 : (coloring ops (relabelAdj π πinv adj) 1 L' true).1.length = n := by
          rw [i2.len, relabelAdj_length, hn]
        -- the two colour lists are permutations of each other
        have hperm : (coloring ops (relabelAdj π πinv adj) 1 L' true).1.Perm (coloring ops adj 1 L true).1 := by
          have t1 : (coloring ops adj 1 L true).1 = tab n fun i => (coloring ops adj 1 L true).1.getD i 0 := by
            apply List.ext_getElem?
            intro i
            rw [tab_getElem?]
            by_cases hi : i < n
            · simp [hi, List.getD_eq_getElem?_getD, List.getElem?_eq_getElem (hlen1 ▸ hi)]
            · rw [List.getElem?_eq_none (by omega)]; simp [hi]
          have t2 : (coloring ops (relabelAdj π πinv adj) 1 L' true).1
              = tab n fun i => (coloring ops (relabelAdj π πinv adj) 1 L' true).1.getD i 0 := by
            apply List.ext_getElem?
            intro i
            rw [tab_getElem?]
            by_cases hi : i < n
            · simp [hi, List.getD_eq_getElem?_getD, List.getElem?_eq_getElem (hlen2 ▸ hi)]
            · rw [List.getElem?_eq_none (by omega)]; simp [hi]
          rw [t1, t2]
          exact tab_perm_of_perm hp _ _ h1
        have hcounts := counts_perm hperm
        rw [h2]
        simp only [hcounts, bne_self_eq_false, Bool.false_eq_true, if_false]
        exact ih k' _ _ _ i1 i2 h1 hlen1 hlen2
  have := hloop (match maxIter with | none => adj.length | some m => if m > adj.length then adj.length else m) 0
    (tab adj.length fun _ => 0) (tab adj.length fun _ => 0) true (wlInv_zero adj)
    (by have := wlInv_zero (relabelAdj π πinv adj); rwa [relabelAdj_length] at this)
    (hn ▸ corr_zero n π hp.lt) (by simp [hn]) (by simp [hn])
  exact this

/-- **areIsomorphic_relabel_any_storage**. The same with the renumbered copy stored in any row order (what the
relation check feeds: scipy's `P A Pᵀ` has re-sorted rows). -/
theorem areIsomorphic_relabel_any_storage {H : Type} {ops : HashOps H} (hx : ExactOps ops) {n : Nat} {π πinv : Nat → Nat}
    (hp : IsPerm n π πinv) (adj adj' : List (List Nat)) (hn : adj.length = n) (hpos : 0 < nnz adj) (hwf : WFAdj adj)
    (hs : SameRows (relabelAdj π πinv adj) adj') (maxIter : Option Nat) :
    areIsomorphic ops adj adj' maxIter = some true := by
  rw [← areIsomorphic_sameRows hx adj hs maxIter]
  exact areIsomorphic_relabel hx hp adj hn hpos hwf maxIter

/-- Non-vacuity: the house graph and its copy renumbered by the rotation u ↦ u+1 mod 5. -/
example : areIsomorphic exactOps [[1, 4], [0, 2, 4], [1, 3], [2, 4], [0, 1, 3]]
    (relabelAdj (fun u => (u + 1) % 5) (fun u => (u + 4) % 5) [[1, 4], [0, 2, 4], [1, 3], [2, 4], [0, 1, 3]]) none
    = some true := by decide

/-! ## hop distances (model of C10) -/

/-- walks are equivariant: a renumbered graph with renumbered sources has the renumbered walks -/
theorem walk_equivariant {n : Nat} {π πinv : Nat → Nat} (hp : IsPerm n π πinv)
    (edge edge' : Nat → Nat → Bool) (src src' : Nat → Bool)
    (he : ∀ i j, i < n → j < n → edge' (π i) (π j) = edge i j)
    (hs : ∀ i, i < n → src' (π i) = src i) :
    ∀ d v, v < n → (Path.Walk n edge' src' d (π v) ↔ Path.Walk n edge src d v) := by
  intro d
  induction d with
  | zero =>
    intro v hv
    rw [Path.Walk.zero_iff, Path.Walk.zero_iff, hs v hv]
    constructor
    · rintro ⟨_, h⟩; exact ⟨hv, h⟩
    · rintro ⟨_, h⟩; exact ⟨hp.lt v hv, h⟩
  | succ d ih =>
    intro v hv
    rw [Path.Walk.succ_iff, Path.Walk.succ_iff]
    constructor
    · rintro ⟨_, u', hw, he'⟩
      have hu' : u' < n := hw.lt
      have e : u' = π (πinv u') := (hp.right u' hu').symm
      rw [e] at hw he'
      refine ⟨hv, πinv u', (ih _ (hp.lt_inv u' hu')).1 hw, ?_⟩
      rw [← he _ _ (hp.lt_inv u' hu') hv]; exact he'
    · rintro ⟨_, u, hw, he'⟩
      refine ⟨hp.lt v hv, π u, (ih u hw.lt).2 hw, ?_⟩
      rw [he u v hw.lt hv]; exact he'

/-- **dist_equivariant**. Exact hop-distance vectors of a graph and of its renumbered copy (with renumbered
sources) are renumberings of each other: `dist' (π v) = dist v`. With `C10.bfs_exact` this is the
equivariance of `get_distances`, for every graph and every permutation. -/
theorem dist_equivariant {n : Nat} {π πinv : Nat → Nat} (hp : IsPerm n π πinv)
    (edge edge' : Nat → Nat → Bool) (src src' : Nat → Bool)
    (he : ∀ i j, i < n → j < n → edge' (π i) (π j) = edge i j)
    (hs : ∀ i, i < n → src' (π i) = src i)
    (dist dist' : List Int) (hd : Path.Exact n edge src dist) (hd' : Path.Exact n edge' src' dist')
    (v : Nat) (hv : v < n) : dist'.getD (π v) (-1) = dist.getD v (-1) := by
  have hw := walk_equivariant hp edge edge' src src' he hs
  have hdist : ∀ d, Path.IsDist n edge' src' (π v) d ↔ Path.IsDist n edge src v d := by
    intro d
    unfold Path.IsDist
    rw [hw d v hv]
    constructor
    · rintro ⟨h1, h2⟩; exact ⟨h1, fun d' hd' h => h2 d' hd' ((hw d' v hv).2 h)⟩
    · rintro ⟨h1, h2⟩; exact ⟨h1, fun d' hd' h => h2 d' hd' ((hw d' v hv).1 h)⟩
  rcases hd.2 v hv with ⟨d, hdv, hdd⟩ | ⟨hm, hun⟩
  · rw [hdv]
    exact ((C10.exact_entry hd' (hp.lt v hv)).2 d).2 ((hdist d).2 hdd)
  · rw [hm]
    apply ((C10.exact_entry hd' (hp.lt v hv)).1).2
    intro d hwd
    exact hun d ((hw d v hv).1 hwd)

/-- **getDistances_equivariant** (on the model of the code). The frontier loop of `get_distances` (C10's
`distancesFromMask`, which always returns: `C10.bfs_exact`) run on a renumbered graph with the renumbered
source mask returns the renumbered distance vector. -/
theorem getDistances_equivariant {n : Nat} {π πinv : Nat → Nat} (hp : IsPerm n π πinv)
    (edge edge' : Nat → Nat → Bool) (mask mask' : List Bool)
    (he : ∀ i j, i < n → j < n → edge' (π i) (π j) = edge i j)
    (hm : ∀ i, i < n → mask'.getD (π i) false = mask.getD i false) :
    ∃ d d', Path.distancesFromMask n edge mask = some d ∧ Path.distancesFromMask n edge' mask' = some d' ∧
      ∀ v, v < n → d'.getD (π v) (-1) = d.getD v (-1) := by
  obtain ⟨d, hd, hex, _⟩ := C10.bfs_exact n edge mask
  obtain ⟨d', hd', hex', _⟩ := C10.bfs_exact n edge' mask'
  exact ⟨d, d', hd, hd', fun v hv =>
    dist_equivariant hp edge edge' _ _ he hm d d' hex hex' v hv⟩

/-- exact distances are equivariant, stated on the specification: `d` is the hop distance of `π v` in the
renumbered graph iff it is the hop distance of `v` in the original. -/
theorem isDist_equivariant {n : Nat} {π πinv : Nat → Nat} (hp : IsPerm n π πinv)
    (edge edge' : Nat → Nat → Bool) (src src' : Nat → Bool)
    (he : ∀ i j, i < n → j < n → edge' (π i) (π j) = edge i j)
    (hs : ∀ i, i < n → src' (π i) = src i) (v : Nat) (hv : v < n) (d : Nat) :
    Path.IsDist n edge' src' (π v) d ↔ Path.IsDist n edge src v d := by
  have hw := walk_equivariant hp edge edge' src src' he hs
  unfold Path.IsDist
  rw [hw d v hv]
  constructor
  · rintro ⟨h1, h2⟩; exact ⟨h1, fun d' hd' h => h2 d' hd' ((hw d' v hv).2 h)⟩
  · rintro ⟨h1, h2⟩; exact ⟨h1, fun d' hd' h => h2 d' hd' ((hw d' v hv).1 h)⟩

/-- **shortestPathDag_equivariant**. The shortest-path DAG (`get_shortest_path`: `get_dag` applied to the
exact distance vector, C10's model) of a renumbered graph with renumbered sources is the renumbered DAG:
`(π i, π j)` is an edge of the one iff `(i, j)` is an edge of the other — for every graph, every source set
and every permutation. (With `C10.shortestPathDag_exact` and `C10.bfs_exact`.) -/
theorem shortestPathDag_equivariant {n : Nat} {π πinv : Nat → Nat} (hp : IsPerm n π πinv)
    (edge edge' : Nat → Nat → Bool) (src src' : Nat → Bool)
    (he : ∀ i j, i < n → j < n → edge' (π i) (π j) = edge i j)
    (hs : ∀ i, i < n → src' (π i) = src i)
    (dist dist' : List Int) (hd : Path.Exact n edge src dist) (hd' : Path.Exact n edge' src' dist')
    (i j : Nat) (hi : i < n) (hj : j < n) :
    (π i, π j) ∈ Path.pairsOf (Path.getDagEntries (Path.entriesOf n edge') dist') ↔
      (i, j) ∈ Path.pairsOf (Path.getDagEntries (Path.entriesOf n edge) dist) := by
  rw [C10.shortestPathDag_exact n edge' src' dist' hd', C10.shortestPathDag_exact n edge src dist hd]
  have e1 := isDist_equivariant hp edge edge' src src' he hs i hi
  have e2 := isDist_equivariant hp edge edge' src src' he hs j hj
  constructor
  · rintro ⟨_, _, hed, d, h1, h2⟩
    exact ⟨hi, hj, by rw [← he i j hi hj]; exact hed, d, (e1 d).1 h1, (e2 (d+1)).1 h2⟩
  · rintro ⟨_, _, hed, d, h1, h2⟩
    exact ⟨hp.lt i hi, hp.lt j hj, by rw [he i j hi hj]; exact hed, d, (e1 d).2 h1, (e2 (d+1)).2 h2⟩

/-- the renumbered DAG has no other edges: every edge of the DAG of the renumbered graph is the image of an
edge of the DAG of the original (so the two DAGs have equally many edges, renumbered one to one). -/
theorem shortestPathDag_equivariant_onto {n : Nat} {π πinv : Nat → Nat} (hp : IsPerm n π πinv)
    (edge edge' : Nat → Nat → Bool) (src src' : Nat → Bool)
    (he : ∀ i j, i < n → j < n → edge' (π i) (π j) = edge i j)
    (hs : ∀ i, i < n → src' (π i) = src i)
    (dist dist' : List Int) (hd : Path.Exact n edge src dist) (hd' : Path.Exact n edge' src' dist')
    (a b : Nat) (hab : (a, b) ∈ Path.pairsOf (Path.getDagEntries (Path.entriesOf n edge') dist')) :
    ∃ i j, i < n ∧ j < n ∧ a = π i ∧ b = π j ∧
      (i, j) ∈ Path.pairsOf (Path.getDagEntries (Path.entriesOf n edge) dist) := by
  have hab' := hab
  rw [C10.shortestPathDag_exact n edge' src' dist' hd'] at hab'
  obtain ⟨ha, hb, _⟩ := hab'
  refine ⟨πinv a, πinv b, hp.lt_inv a ha, hp.lt_inv b hb, (hp.right a ha).symm, (hp.right b hb).symm, ?_⟩
  rw [← shortestPathDag_equivariant hp edge edge' src src' he hs dist dist' hd hd' _ _
    (hp.lt_inv a ha) (hp.lt_inv b hb), hp.right a ha, hp.right b hb]
  exact hab

/-- Non-vacuity: the path 0 → 1 → 2 with source 0 and its copy renumbered by the rotation `u ↦ u+1 mod 3`. -/
example : Path.pairsOf (Path.getDagEntries (Path.entriesOf 3 fun i j => i + 1 == j) [0, 1, 2]) = [(0, 1), (1, 2)] ∧
    Path.pairsOf (Path.getDagEntries (Path.entriesOf 3 fun i j => (i + 2) % 3 + 1 == (j + 2) % 3) [2, 0, 1])
      = [(1, 2), (2, 0)] := by decide

/-! ## spectra and singular values (operators of C09's specification)

`Spec.lapApply n a reg` is the regularised Laplacian `D − A_reg` that `Spectral(decomposition='laplacian')`
hands to ARPACK, `Spec.transApply` the transition operator `D⁻¹ A_reg` whose eigenvalues `Spectral`
reports for `decomposition='rw'`, `Spec.gsvdEntry` the matrix `D₁^{-α₁} A_reg D₂^{-α₂}` of GSVD / SVD (C09
ties them to the code). Over any field: a renumbering maps eigenpairs to eigenpairs with the same eigenvalue
and singular triplets to singular triplets with the same singular value, in both directions — the spectrum and
the singular values are unchanged, the vectors are renumbered. -/

section spectra
open SkNet.Embedding SkNet.Embedding.Spec SkNet.EmbeddingEquiv
variable {α : Type} [Field α] [DecidableEq α]

/-- an eigenpair on `{0..n-1}` of an operator given by its action -/
def IsEigenpair (n : Nat) (op : (Nat → α) → Nat → α) (lam : α) (v : Nat → α) : Prop :=
  ∀ i, i < n → op v i = lam * v i

/-- `lam` is an eigenvalue: some vector that is not null on `{0..n-1}` is an eigenvector for it -/
def IsEigenvalue (n : Nat) (op : (Nat → α) → Nat → α) (lam : α) : Prop :=
  ∃ v, (∃ i, i < n ∧ v i ≠ 0) ∧ IsEigenpair n op lam v

omit [DecidableEq α] in
theorem eigenpair_relabel {n : Nat} {π πinv : Nat → Nat} (hp : IsPerm n π πinv)
    (op op' : (Nat → α) → Nat → α) {v v' : Nat → α}
    (hop : ∀ i, i < n → op' v' (π i) = op v i) (hv : ∀ i, i < n → v' (π i) = v i) (lam : α) :
    IsEigenpair n op' lam v' ↔ IsEigenpair n op lam v := by
  constructor
  · intro h i hi
    have := h (π i) (hp.lt i hi)
    rwa [hop i hi, hv i hi] at this
  · intro h i' hi'
    have e : i' = π (πinv i') := (hp.right i' hi').symm
    rw [e, hop _ (hp.lt_inv i' hi'), hv _ (hp.lt_inv i' hi')]
    exact h _ (hp.lt_inv i' hi')

/-- **laplacian_eigenpair_relabel**. `(λ, v)` is an eigenpair of the regularised Laplacian of `G` iff
`(λ, v renumbered)` is one of the renumbered graph — every graph, regularisation, permutation. -/
theorem laplacian_eigenpair_relabel {n : Nat} {π πinv : Nat → Nat} (hp : IsPerm n π πinv) {a a' : Mat α}
    (h : Renumbered n n π π a a') (reg lam : α) {v v' : Nat → α} (hv : ∀ i, i < n → v' (π i) = v i) :
    IsEigenpair n (lapApply n a' reg) lam v' ↔ IsEigenpair n (lapApply n a reg) lam v :=
  eigenpair_relabel hp _ _ (fun _ hi => lapApply_relabel hp h reg hv hi) hv lam

/-- the same for the transition operator `D⁻¹ A_reg` (`decomposition='rw'`) -/
theorem transition_eigenpair_relabel {n : Nat} {π πinv : Nat → Nat} (hp : IsPerm n π πinv) {a a' : Mat α}
    (h : Renumbered n n π π a a') (reg lam : α) {v v' : Nat → α} (hv : ∀ i, i < n → v' (π i) = v i) :
    IsEigenpair n (transApply n a' reg) lam v' ↔ IsEigenpair n (transApply n a reg) lam v :=
  eigenpair_relabel hp _ _ (fun _ hi => transApply_relabel hp h reg hv hi) hv lam

/-- **spectrum_relabel_invariant**. The renumbered graph has exactly the eigenvalues of the original, for
the Laplacian and for the transition operator. -/
theorem spectrum_relabel_invariant {n : Nat} {π πinv : Nat → Nat} (hp : IsPerm n π πinv) {a a' : Mat α}
    (h : Renumbered n n π π a a') (reg lam : α) :
    (IsEigenvalue n (lapApply n a' reg) lam ↔ IsEigenvalue n (lapApply n a reg) lam) ∧
    (IsEigenvalue n (transApply n a' reg) lam ↔ IsEigenvalue n (transApply n a reg) lam) := by
  have key : ∀ (op op' : (Nat → α) → Nat → α),
      (∀ v v' : Nat → α, (∀ i, i < n → v' (π i) = v i) → ∀ i, i < n → op' v' (π i) = op v i) →
      (IsEigenvalue n op' lam ↔ IsEigenvalue n op lam) := by
    intro op op' hop
    constructor
    · rintro ⟨v', ⟨i', hi', hne⟩, hev⟩
      refine ⟨fun i => v' (π i), ⟨πinv i', hp.lt_inv i' hi', by simpa [hp.right i' hi'] using hne⟩, ?_⟩
      exact (eigenpair_relabel hp op op' (hop _ v' fun _ _ => rfl) (fun _ _ => rfl) lam).1 hev
    · rintro ⟨v, ⟨i, hi, hne⟩, hev⟩
      have hv : ∀ k, k < n → (fun k => v (πinv k)) (π k) = v k := fun k hk => by simp [hp.left k hk]
      refine ⟨fun k => v (πinv k), ⟨π i, hp.lt i hi, by simpa [hp.left i hi] using hne⟩, ?_⟩
      exact (eigenpair_relabel hp op op' (hop v _ hv) hv lam).2 hev
  exact ⟨key _ _ fun v v' hv i hi => lapApply_relabel hp h reg hv hi,
         key _ _ fun v v' hv i hi => transApply_relabel hp h reg hv hi⟩

/-- **singular_triplet_relabel**. With independent renumberings `π` of the rows and `ρ` of the columns,
`(σ, u, v)` is a singular triplet of the GSVD matrix of `B` iff `(σ, u renumbered by π, v renumbered by ρ)` is
one of the renumbered matrix: the singular values are unchanged. (`fr = fc = 0` with `F.pow x 0 = 1` is
the plain SVD.) -/
theorem singular_triplet_relabel (F : Fn α) {nRow nCol : Nat} {π πinv ρ ρinv : Nat → Nat}
    (hr : IsPerm nRow π πinv) (hc : IsPerm nCol ρ ρinv) {a a' : Mat α} (h : Renumbered nRow nCol π ρ a a')
    (reg fr fc s : α) {u u' v v' : Nat → α}
    (hu : ∀ i, i < nRow → u' (π i) = u i) (hv : ∀ j, j < nCol → v' (ρ j) = v j) :
    IsTriplet nRow nCol (gsvdEntry F nRow nCol a' reg fr fc) s u' v' ↔
      IsTriplet nRow nCol (gsvdEntry F nRow nCol a reg fr fc) s u v := by
  constructor
  · intro ht
    refine isTriplet_relabel_mp (isPerm_symm hr) (isPerm_symm hc) ?_ s ?_ ?_ ht
    · intro i' j' hi' hj'
      have := gsvdEntry_relabel F hr hc h reg fr fc (hr.lt_inv i' hi') (hc.lt_inv j' hj')
      rw [hr.right i' hi', hc.right j' hj'] at this
      exact this.symm
    · intro i' hi'; rw [← hu _ (hr.lt_inv i' hi'), hr.right i' hi']
    · intro j' hj'; rw [← hv _ (hc.lt_inv j' hj'), hc.right j' hj']
  · exact isTriplet_relabel_mp hr hc (fun i j hi hj => gsvdEntry_relabel F hr hc h reg fr fc hi hj) s hu hv

/-- Non-vacuity: the path 0 – 1 – 2 over ℚ, `reg = 0`; `(1, [1, 0, -1])` is an eigenpair of its Laplacian,
and of the copy renumbered by the rotation `u ↦ u+1 mod 3` with the rotated vector. -/
example :
    Renumbered (α := Rat) 3 3 (fun u => (u + 1) % 3) (fun u => (u + 1) % 3)
      [[0, 1, 0], [1, 0, 1], [0, 1, 0]] [[0, 0, 1], [0, 0, 1], [1, 1, 0]] ∧
    IsEigenpair (α := Rat) 3 (lapApply 3 [[0, 1, 0], [1, 0, 1], [0, 1, 0]] 0) 1 (fun i => [1, 0, -1].getD i 0) ∧
    IsEigenpair (α := Rat) 3 (lapApply 3 [[0, 0, 1], [0, 0, 1], [1, 1, 0]] 0) 1 (fun i => [-1, 1, 0].getD i 0) := by
  refine ⟨?_, ?_, ?_⟩
  · intro i j hi hj
    have : i = 0 ∨ i = 1 ∨ i = 2 := by omega
    have : j = 0 ∨ j = 1 ∨ j = 2 := by omega
    rcases ‹i = 0 ∨ i = 1 ∨ i = 2› with rfl | rfl | rfl <;> rcases ‹j = 0 ∨ j = 1 ∨ j = 2› with rfl | rfl | rfl <;>
      decide +kernel
  all_goals
    intro i hi
    have : i = 0 ∨ i = 1 ∨ i = 2 := by omega
    rcases this with rfl | rfl | rfl <;> decide +kernel

end spectra

end SkNet.C02
