/- C12 — property theorems (filled below). -/
import SkNet.Model.Connectivity
import SkNet.Model.Cycles
import SkNet.Spec.Connectivity

namespace SkNet.C12
open SkNet SkNet.Connectivity SkNet.Cycles

/-- the extracted sub-matrix has one row per selected row index -/
theorem subMatrix_length (m : Mat) (r c : List Nat) : (subMatrix m r c).length = r.length := by
  simp [subMatrix]

end SkNet.C12
