/-
C12 — connectivity, bipartiteness and cycle functions describe the graph truthfully.

Property theorems about the models of sknetwork/topology/structure.py (Model/Connectivity.lean) and
cycles.py (Model/Cycles.lean).  `connected_components` of scipy is a parameter; where a theorem needs it,
its contract `IsLabelling` (Spec/Connectivity.lean) is an explicit hypothesis (checked on every run by the
`contract` lines of the harness).
-/
import SkNet.Model.Connectivity
import SkNet.Model.Cycles
import SkNet.Spec.Connectivity
import SkNet.Lemmas.Connectivity
import SkNet.Lemmas.BreakCycles
import SkNet.Lemmas.Bipartite
import SkNet.Lemmas.Reach
import SkNet.Lemmas.GetCycles
import SkNet.Lemmas.Dedup
import SkNet.Lemmas.CyclesFuel
import SkNet.Lemmas.Closure
import SkNet.Lemmas.Complete
import SkNet.Lemmas.BreakInv
import SkNet.Lemmas.BreakAcyclic
import SkNet.Lemmas.BreakDirGlobal
import SkNet.Lemmas.BreakFuel
import SkNet.Lemmas.BreakDist
import SkNet.Lemmas.UndirectedForest
import SkNet.Lemmas.CompleteUnd
import SkNet.Lemmas.SpecSound
import SkNet.Lemmas.TopologyHelpers

namespace SkNet.C12
open SkNet SkNet.Connectivity SkNet.Cycles

/-! ## get_connected_components, is_connected -/

/-- `get_connected_components` hands back exactly scipy's labelling of the adjacency it builds
    (the matrix itself, or the block form `[[0,B],[Bᵀ,0]]` when `force_bipartite` or not square),
    and refuses a matrix without stored entry. -/
theorem getConnectedComponents_eq (cc : CC) (m : Mat) (strong fb : Bool) (labels : List Nat)
    (h : getConnectedComponents cc m strong fb = .ok labels) :
    m.nnz ≠ 0 ∧ labels = cc (if (fb || !m.isSquare) = true then m.block else m) strong := by
  unfold getConnectedComponents at h
  cases hcf : checkFormat m with
  | error e => simp [hcf] at h
  | ok u =>
    simp only [hcf] at h
    cases hga : getAdjacency m fb with
    | error e => simp [hga] at h
    | ok p =>
      obtain ⟨hn, hp⟩ := getAdjacency_ok hga
      simp only [hga] at h
      cases h
      refine ⟨hn, ?_⟩
      rw [hp]
      split <;> rfl

/-- With scipy's contract **for the adjacency that is handed to scipy** (the matrix itself, or its block form), the
    labels returned by `get_connected_components` are equal exactly for nodes of the same weak / strong component of
    that adjacency. (The contract is not assumed of every `Mat`: on an ill-formed one no weak labelling exists.) -/
theorem getConnectedComponents_components (cc : CC) (m : Mat) (strong fb : Bool) (labels : List Nat)
    (h : getConnectedComponents cc m strong fb = .ok labels)
    (hcc : IsLabelling (if (fb || !m.isSquare) = true then m.block else m).nRow
      (if (fb || !m.isSquare) = true then m.block else m).adj strong
      (cc (if (fb || !m.isSquare) = true then m.block else m) strong)) :
    let g := if (fb || !m.isSquare) = true then m.block else m
    labels.length = g.nRow ∧
    ∀ u v, u < g.nRow → v < g.nRow → (labels.getD u 0 = labels.getD v 0 ↔ SameComp g.nRow g.adj strong u v) := by
  intro g
  obtain ⟨_, rfl⟩ := getConnectedComponents_eq cc m strong fb labels h
  exact hcc

example : getConnectedComponents (fun _ _ => [0, 0, 1]) ⟨3, 3, fun i => if i = 0 then [1] else [], fun _ _ => 1⟩ false false
    = .ok [0, 0, 1] := by rfl

/-- ★ `is_connected` is true exactly when all nodes carry one label (and there is a node): with scipy's
    contract, exactly when every two nodes lie in the same weak / strong component. -/
theorem isConnected_iff (cc : CC) (m : Mat) (strong fb : Bool) (b : Bool)
    (h : isConnected cc m strong fb = .ok b)
    (hcc : IsLabelling (if (fb || !m.isSquare) = true then m.block else m).nRow
      (if (fb || !m.isSquare) = true then m.block else m).adj strong
      (cc (if (fb || !m.isSquare) = true then m.block else m) strong)) :
    let g := if (fb || !m.isSquare) = true then m.block else m
    (b = true ↔ 0 < g.nRow ∧ ∀ u v, u < g.nRow → v < g.nRow → SameComp g.nRow g.adj strong u v) := by
  intro g
  unfold isConnected at h
  cases hl : getConnectedComponents cc m strong fb with
  | error e => simp [hl] at h
  | ok labels =>
    simp only [hl] at h
    cases h
    obtain ⟨hlen, hsame⟩ := getConnectedComponents_components cc m strong fb labels hl hcc
    change labels.length = g.nRow at hlen
    rw [beq_iff_eq, npUnique_length_eq_one]
    constructor
    · intro ⟨hne, hall⟩
      refine ⟨?_, fun u v hu hv => ?_⟩
      · rw [← hlen]; exact List.length_pos_iff.mpr hne
      · apply (hsame u v hu hv).mp
        have hu' : u < labels.length := hlen ▸ hu
        have hv' : v < labels.length := hlen ▸ hv
        apply hall
        · simp [List.getD_eq_getElem?_getD, hu']
        · simp [List.getD_eq_getElem?_getD, hv']
    · intro ⟨hpos, hall⟩
      refine ⟨?_, fun a ha c hc => ?_⟩
      · apply List.length_pos_iff.mp; rw [hlen]; exact hpos
      · obtain ⟨u, hu, rfl⟩ := List.getElem_of_mem ha
        obtain ⟨v, hv, rfl⟩ := List.getElem_of_mem hc
        have := (hsame u v (hlen ▸ hu) (hlen ▸ hv)).mpr (hall u v (hlen ▸ hu) (hlen ▸ hv))
        simpa [List.getD_eq_getElem?_getD, hu, hv] using this

example : isConnected (fun _ _ => [0, 0, 1]) ⟨3, 3, fun i => if i = 0 then [1] else [], fun _ _ => 1⟩ false false
    = .ok false := by rfl

/-! ## what the `contract` and `spec_cc` lines certify -/

/-- When the executable check of a `contract_cc` / `spec_cc` line (`isLabellingB`: reachability closure from every
    node, run until a round adds nothing) answers `some true`, the labels satisfy `IsLabelling`, the contract that
    the theorems of this file assume of scipy's `connected_components`. -/
theorem contract_line_certifies (n : Nat) (adj : Nat → List Nat) (hwf : ∀ u, u < n → ∀ v ∈ adj u, v < n)
    (strong : Bool) (labels : List Nat) (h : isLabellingB n adj strong labels = some true) :
    IsLabelling n adj strong labels :=
  isLabellingB_sound hwf strong labels h

example : isLabellingB 3 (fun i => if i = 0 then [1] else []) false [0, 0, 1] = some true := by decide
example : isLabellingB 3 (fun i => if i = 0 then [1] else []) true [0, 1, 2] = some true := by decide

/-- Non-vacuity of `getConnectedComponents_components` / `isConnected_iff`, weak mode (the library default): the graph
    0 → 1, 2 alone with the labelling [0, 0, 1] meets the contract hypothesis (square matrix, not forced bipartite),
    and so does the 1 × 2 biadjacency `[1 0]` in its block form with [0, 1, 0]. -/
def edgeAndNode : Mat := ⟨3, 3, fun i => if i = 0 then [1] else [], fun i j => if i = 0 ∧ j = 1 then 1 else 0⟩

example : IsLabelling (if (false || !edgeAndNode.isSquare) = true then edgeAndNode.block else edgeAndNode).nRow
    (if (false || !edgeAndNode.isSquare) = true then edgeAndNode.block else edgeAndNode).adj false
    ((fun _ _ => [0, 0, 1]) (if (false || !edgeAndNode.isSquare) = true then edgeAndNode.block else edgeAndNode) false) :=
  contract_line_certifies 3 edgeAndNode.adj (by decide) false [0, 0, 1] (by decide)

example : isConnected (fun _ _ => [0, 0, 1]) edgeAndNode false false = .ok false := by rfl

def oneByTwo : Mat := ⟨1, 2, fun _ => [0], fun _ j => if j = 0 then 1 else 0⟩

example : IsLabelling (if (false || !oneByTwo.isSquare) = true then oneByTwo.block else oneByTwo).nRow
    (if (false || !oneByTwo.isSquare) = true then oneByTwo.block else oneByTwo).adj false
    ((fun _ _ => [0, 0, 1]) (if (false || !oneByTwo.isSquare) = true then oneByTwo.block else oneByTwo) false) :=
  contract_line_certifies 3 oneByTwo.block.adj (by decide) false [0, 0, 1] (by decide)

/-- The executable check of a `spec_acyclic` / `spec_cycles` line on a directed graph (`hasCycleB`: some edge whose
    head reaches its tail, by the reachability closure) decides `HasCycle`. -/
theorem specAcyclic_line_certifies (n : Nat) (adj : Nat → List Nat) (hwf : ∀ u, u < n → ∀ v ∈ adj u, v < n)
    (b : Bool) (h : hasCycleB n adj = some b) : b = true ↔ HasCycle n adj :=
  hasCycleB_sound hwf h

example : hasCycleB 3 (fun i => [(i + 1) % 3]) = some true := by decide
example : hasCycleB 3 (fun i => if i < 2 then [i + 1] else []) = some false := by decide

/-- The executable check of a `spec_bip` line (`twoColourableB`: brute force over the `2^n` bit masks) decides
    `TwoColourable`. -/
theorem specBipartite_line_certifies (n : Nat) (adj : Nat → List Nat) (hwf : ∀ u, u < n → ∀ v ∈ adj u, v < n) :
    twoColourableB n adj = true ↔ TwoColourable n adj :=
  twoColourableB_iff hwf

example : twoColourableB 4 (fun i => [(i + 1) % 4, (i + 3) % 4]) = true := by decide
example : twoColourableB 3 (fun i => [(i + 1) % 3, (i + 2) % 3]) = false := by decide

/-! ## get_largest_connected_component -/

/-- ★ `largest_component_induced` (adjacency matrix): the returned index lists, in increasing order, exactly the
    nodes of one label class `L` of the labelling, no class is larger, and the returned matrix is the input
    restricted to the index (rows, then columns). -/
theorem largest_component_induced (cc : CC) (m : Mat) (strong : Bool) (r : Largest)
    (hsq : m.isSquare = true)
    (h : getLargestConnectedComponent cc m strong false = .ok r)
    (hlab : cc m strong ≠ []) :
    let labels := cc m strong
    ∃ L, L ∈ labels ∧ (∀ l, labels.count l ≤ labels.count L) ∧
      (∀ v, v ∈ r.index ↔ v < labels.length ∧ labels.getD v 0 = L) ∧
      r.index.Pairwise (· < ·) ∧ r.index.length = labels.count L ∧
      r.matrix.length = r.index.length ∧ (∀ row ∈ r.matrix, row.length = r.index.length) ∧
      ∀ a b, a < r.index.length → b < r.index.length →
        (r.matrix.getD a []).getD b 0 = m.val (r.index.getD a 0) (r.index.getD b 0) := by
  intro labels
  have hs := getLargest_spec cc m strong false r h
  simp only [hsq, Bool.not_true, Bool.or_false, Bool.false_eq_true, ↓reduceIte, forall_const, false_imp_iff,
    and_true] at hs
  obtain ⟨_, hidx, hmat, _⟩ := hs
  obtain ⟨hL, hmax⟩ := largest_count_max hlab
  refine ⟨_, hL, hmax, ?_, ?_, ?_, ?_, ?_, ?_⟩
  · intro v; rw [hidx]; exact mem_argwhereEq
  · rw [hidx]; exact argwhereEq_sorted _ _
  · rw [hidx]; exact argwhereEq_length _ _
  · rw [hmat]; exact subMatrix_length _ _ _
  · rw [hmat]; exact subMatrix_row_length _ _ _
  · intro a b ha hb
    rw [hmat]; exact subMatrix_getD m _ _ a b ha hb

/-- With scipy's contract the index of `largest_component_induced` is a whole component, and a largest one. -/
theorem largest_component_is_component (n : Nat) (adj : Nat → List Nat) (strong : Bool) (labels index : List Nat) (L : Nat)
    (hc : IsLabelling n adj strong labels) (hL : L ∈ labels)
    (hmax : ∀ l, labels.count l ≤ labels.count L)
    (hidx : ∀ v, v ∈ index ↔ v < labels.length ∧ labels.getD v 0 = L)
    (hlen : index.length = labels.count L) :
    (∃ u, u ∈ index) ∧
    (∀ u ∈ index, ∀ v, v < n → (v ∈ index ↔ SameComp n adj strong u v)) ∧
    (∀ u, u < n → (argwhereEq labels (labels.getD u 0)).length ≤ index.length) := by
  obtain ⟨hn, hsame⟩ := hc
  refine ⟨?_, ?_, ?_⟩
  · obtain ⟨u, hu, rfl⟩ := List.getElem_of_mem hL
    exact ⟨u, (hidx u).mpr ⟨hu, by simp [List.getD_eq_getElem?_getD, hu]⟩⟩
  · intro u hu v hv
    obtain ⟨hul, huL⟩ := (hidx u).mp hu
    rw [hidx, ← hsame u v (hn ▸ hul) hv, huL]
    constructor
    · intro ⟨_, h⟩; exact h.symm
    · intro h; exact ⟨hn ▸ hv, h.symm⟩
  · intro u _
    rw [argwhereEq_length, hlen]; exact hmax _

/-- ★ the largest component of an adjacency matrix is a whole component, and a largest one: `largest_component_induced`
    composed with scipy's contract for the matrix handed to scipy (square input, not forced bipartite). -/
theorem largest_component_square_is_component (cc : CC) (m : Mat) (strong : Bool) (r : Largest)
    (hsq : m.isSquare = true)
    (h : getLargestConnectedComponent cc m strong false = .ok r)
    (hc : IsLabelling m.nRow m.adj strong (cc m strong)) (hpos : 0 < m.nRow) :
    (∃ u, u ∈ r.index) ∧
    (∀ u ∈ r.index, ∀ v, v < m.nRow → (v ∈ r.index ↔ SameComp m.nRow m.adj strong u v)) ∧
    (∀ u, u < m.nRow → (argwhereEq (cc m strong) ((cc m strong).getD u 0)).length ≤ r.index.length) ∧
    r.matrix.length = r.index.length ∧ (∀ row ∈ r.matrix, row.length = r.index.length) ∧
    ∀ a b, a < r.index.length → b < r.index.length →
      (r.matrix.getD a []).getD b 0 = m.val (r.index.getD a 0) (r.index.getD b 0) := by
  have hne : cc m strong ≠ [] := by
    intro hl
    have : (cc m strong).length = 0 := by rw [hl]; rfl
    have := hc.1
    omega
  obtain ⟨L, hL, hmax, hidx, _, hlen, hm1, hm2, hm3⟩ := largest_component_induced cc m strong r hsq h hne
  obtain ⟨c1, c2, c3⟩ := largest_component_is_component m.nRow m.adj strong (cc m strong) r.index L hc hL hmax hidx hlen
  exact ⟨c1, c2, c3, hm1, hm2, hm3⟩

example : (getLargestConnectedComponent (fun _ _ => [1, 0, 1])
      ⟨3, 3, fun i => if i = 0 then [2] else [], fun i j => if i = 0 ∧ j = 2 then 5 else 0⟩ false false).toOption.map (·.index)
    = some [0, 2] := by decide

/-- ★ `largest_component_induced` (biadjacency matrix: `force_bipartite` or not square): the index is the rows of the
    largest label class followed by its columns (both increasing, columns numbered from 0), the matrix is the
    input restricted to these rows and columns. -/
theorem largest_component_induced_bipartite (cc : CC) (m : Mat) (strong fb : Bool) (r : Largest)
    (hb : (fb || !m.isSquare) = true)
    (h : getLargestConnectedComponent cc m strong fb = .ok r)
    (hlen : (cc m.block strong).length = m.nRow + m.nCol) (hrow : 0 < m.nRow + m.nCol) :
    let labels := cc m.block strong
    ∃ L rows cols, r.index = rows ++ cols ∧ r.nIndexRow = rows.length ∧
      L ∈ labels ∧ (∀ l, labels.count l ≤ labels.count L) ∧
      (∀ i, i ∈ rows ↔ i < m.nRow ∧ labels.getD i 0 = L) ∧
      (∀ j, j ∈ cols ↔ j < m.nCol ∧ labels.getD (m.nRow + j) 0 = L) ∧
      rows.Pairwise (· < ·) ∧ cols.Pairwise (· < ·) ∧
      r.matrix.length = rows.length ∧ (∀ row ∈ r.matrix, row.length = cols.length) ∧
      ∀ a b, a < rows.length → b < cols.length →
        (r.matrix.getD a []).getD b 0 = m.val (rows.getD a 0) (cols.getD b 0) := by
  intro labels
  have hs := getLargest_spec cc m strong fb r h
  simp only [hb, ↓reduceIte, forall_const, Bool.true_eq_false, false_imp_iff, true_and] at hs
  obtain ⟨_, hidx, hni, hmat⟩ := hs
  have hlab : labels ≠ [] := by
    intro hl
    have : labels.length = 0 := by rw [hl]; rfl
    have h2 : labels.length = m.nRow + m.nCol := hlen
    omega
  obtain ⟨hL, hmax⟩ := largest_count_max hlab
  refine ⟨_, _, _, hidx, hni, hL, hmax, ?_, ?_, argwhereEq_sorted _ _, argwhereEq_sorted _ _, ?_, ?_, ?_⟩
  · intro i
    rw [mem_argwhereEq]
    have h2 : labels.length = m.nRow + m.nCol := hlen
    simp only [List.length_take, List.getD_eq_getElem?_getD, List.getElem?_take]
    constructor
    · intro ⟨h1, h3⟩
      have : i < m.nRow := by omega
      exact ⟨this, by simpa [this] using h3⟩
    · intro ⟨h1, h3⟩
      exact ⟨by omega, by simpa [h1] using h3⟩
  · intro j
    rw [mem_argwhereEq]
    have h2 : labels.length = m.nRow + m.nCol := hlen
    simp only [List.length_drop, List.getD_eq_getElem?_getD, List.getElem?_drop]
    constructor
    · intro ⟨h1, h3⟩; exact ⟨by omega, h3⟩
    · intro ⟨h1, h3⟩; exact ⟨by omega, h3⟩
  · rw [hmat]; exact subMatrix_length _ _ _
  · rw [hmat]; exact subMatrix_row_length _ _ _
  · intro a b ha hb'
    rw [hmat]; exact subMatrix_getD m _ _ a b ha hb'

/-- ★ the largest component of a biadjacency matrix is a whole component, and a largest one: in the numbering of the
    block graph `[[0,B],[Bᵀ,0]]` (rows first, column `j` is node `nRow + j`) the returned rows and columns
    `rows ++ cols.map (· + nRow)` are exactly the nodes of one weak / strong component (scipy's contract for the block
    adjacency), and no component has more nodes. -/
theorem largest_component_bipartite_is_component (cc : CC) (m : Mat) (strong fb : Bool) (r : Largest)
    (hb : (fb || !m.isSquare) = true)
    (h : getLargestConnectedComponent cc m strong fb = .ok r)
    (hlab : IsLabelling (m.nRow + m.nCol) m.block.adj strong (cc m.block strong)) (hpos : 0 < m.nRow + m.nCol) :
    let labels := cc m.block strong
    let comp := r.index.take r.nIndexRow ++ (r.index.drop r.nIndexRow).map (· + m.nRow)
    (∃ u, u ∈ comp) ∧
    (∀ u ∈ comp, ∀ v, v < m.nRow + m.nCol → (v ∈ comp ↔ SameComp (m.nRow + m.nCol) m.block.adj strong u v)) ∧
    (∀ u, u < m.nRow + m.nCol → (argwhereEq labels (labels.getD u 0)).length ≤ comp.length) := by
  intro labels comp
  have hlen : labels.length = m.nRow + m.nCol := hlab.1
  have hs := getLargest_spec cc m strong fb r h
  simp only [hb, ↓reduceIte, forall_const, Bool.true_eq_false, false_imp_iff, true_and] at hs
  obtain ⟨_, hidx, hni, _⟩ := hs
  have hne : labels ≠ [] := by
    intro hl
    have : labels.length = 0 := by rw [hl]; rfl
    omega
  obtain ⟨hL, hmax⟩ := largest_count_max hne
  -- name the largest label and the two index parts
  generalize hLdef : (npUnique labels).getD (argmax ((npUnique labels).map fun v => labels.count v)) 0 = L at hL hmax
  have hidx' : r.index = argwhereEq (labels.take m.nRow) L ++ argwhereEq (labels.drop m.nRow) L := by
    rw [← hLdef]; exact hidx
  have hni' : r.nIndexRow = (argwhereEq (labels.take m.nRow) L).length := by rw [← hLdef]; exact hni
  have htake : r.index.take r.nIndexRow = argwhereEq (labels.take m.nRow) L := by
    rw [hidx', hni', List.take_left']; rfl
  have hdrop : r.index.drop r.nIndexRow = argwhereEq (labels.drop m.nRow) L := by
    rw [hidx', hni', List.drop_left']; rfl
  have hcomp : comp = argwhereEq (labels.take m.nRow) L ++ (argwhereEq (labels.drop m.nRow) L).map (· + m.nRow) := by
    show r.index.take r.nIndexRow ++ (r.index.drop r.nIndexRow).map (· + m.nRow) = _
    rw [htake, hdrop]
  have hmem : ∀ v, v ∈ comp ↔ v < labels.length ∧ labels.getD v 0 = L := by
    intro v
    rw [hcomp, List.mem_append, List.mem_map]
    simp only [mem_argwhereEq, List.length_take, List.length_drop, List.getD_eq_getElem?_getD, List.getElem?_take,
      List.getElem?_drop]
    constructor
    · rintro (⟨h1, h2⟩ | ⟨j, ⟨h1, h2⟩, rfl⟩)
      · have hv : v < m.nRow := by omega
        exact ⟨by omega, by simpa [hv] using h2⟩
      · exact ⟨by omega, by rw [Nat.add_comm]; exact h2⟩
    · rintro ⟨h1, h2⟩
      by_cases hv : v < m.nRow
      · left; exact ⟨by omega, by simpa [hv] using h2⟩
      · right
        refine ⟨v - m.nRow, ⟨by omega, ?_⟩, by omega⟩
        have : m.nRow + (v - m.nRow) = v := by omega
        rw [this]; exact h2
  have hclen : comp.length = labels.count L := by
    rw [hcomp, List.length_append, List.length_map, argwhereEq_length, argwhereEq_length, count_take_drop]
  exact largest_component_is_component (m.nRow + m.nCol) m.block.adj strong labels comp L hlab hL hmax hmem hclen

example : (getLargestConnectedComponent (fun _ _ => [0, 0, 1]) oneByTwo false false).toOption.map (fun r => (r.index, r.nIndexRow))
    = some ([0, 0], 1) := by decide

/-! ## is_bipartite -/

/-- ★ `isBipartite_iff`: on a symmetric matrix (stored entries = non-zero entries) `is_bipartite` never raises and
    never runs out of fuel; it answers `False` only when the graph has a self-loop or no proper 2-colouring, and
    `True` only for a loop-free graph with a proper 2-colouring (a conflict met by the search contradicts every
    proper colouring: `Lemmas/Bipartite.lean`, invariant `Base.ext`).
    ★ `biadjacency_reassembles`: with `True` come `rows` / `cols` (increasing) that split the nodes into two
    classes without inner entry, and the biadjacency is the input restricted to `rows × cols`: together with
    the symmetry, every entry of the graph is an entry of the biadjacency or of its transpose. -/
theorem isBipartite_iff (m : Mat) (hc : m.Canon) (hs : m.isSymmetric = .ok true) :
    match isBipartite m with
    | .fuel => False
    | .raised _ => False
    | .no => ¬ ((∀ u, u < m.nRow → u ∉ m.adj u) ∧ TwoColourable m.nRow m.adj)
    | .yes b rows cols =>
        (∀ u, u < m.nRow → u ∉ m.adj u) ∧ TwoColourable m.nRow m.adj ∧
        rows.Pairwise (· < ·) ∧ cols.Pairwise (· < ·) ∧
        (∀ v, v < m.nRow → (v ∈ rows ∨ v ∈ cols)) ∧ (∀ v, v ∈ rows → v ∉ cols) ∧
        (∀ v, v ∈ rows ∨ v ∈ cols → v < m.nRow) ∧
        (∀ i ∈ rows, ∀ j ∈ rows, m.val i j = 0) ∧ (∀ i ∈ cols, ∀ j ∈ cols, m.val i j = 0) ∧
        b = subMatrix m rows cols ∧
        ∀ x y, x < rows.length → y < cols.length →
          (b.getD x []).getD y 0 = m.val (rows.getD x 0) (cols.getD y 0) := by
  obtain ⟨hsq, hval⟩ := isSymmetric_true hs
  have hwf := Canon.wf hc hsq
  have hsym := Canon.sym hc hs
  unfold isBipartite
  simp only [hs]
  by_cases hd : ((List.range m.nRow).any fun i => m.val i i != 0) = true
  · simp only [hd, ↓reduceIte]
    intro ⟨hnl, _⟩
    obtain ⟨i, hi, hne⟩ := List.any_eq_true.mp hd
    have hi' := List.mem_range.mp hi
    exact hnl i hi' ((hc i i hi').mpr ⟨hsq ▸ hi', by simpa using hne⟩)
  · simp only [hd, Bool.false_eq_true, ↓reduceIte]
    have hnl : ∀ u, u < m.nRow → u ∉ m.adj u := by
      intro u hu hmem
      apply hd
      exact List.any_eq_true.mpr ⟨u, List.mem_range.mpr hu, by simpa using ((hc u u hu).mp hmem).2⟩
    have hcs := colourSearch_spec hwf hsym
    cases hres : colourSearch m.nRow m.adj with
    | fuel => simp only [hres] at hcs
    | raised e => simp only [hres] at hcs
    | no =>
      simp only [hres] at hcs ⊢
      exact fun h => hcs h.2
    | yes c =>
      simp only [hres] at hcs ⊢
      obtain ⟨hlen, h01, hp⟩ := hcs
      have hmemr : ∀ v k, v ∈ ((List.range c.length).filter fun i => c.getD i (-1) == k) ↔ v < m.nRow ∧ colOf c v = k := by
        intro v k
        rw [List.mem_filter, List.mem_range, hlen]
        simp [colOf]
      have hzero : ∀ (k : Int) i j, i < m.nRow → j < m.nRow → colOf c i = k → colOf c j = k → m.val i j = 0 := by
        intro k i j hi hj hci hcj
        apply Classical.byContradiction
        intro hne
        have hmem : j ∈ m.adj i := (hc i j hi).mpr ⟨hsq ▸ hj, hne⟩
        exact hp i hi j hmem (hcj.trans hci.symm)
      refine ⟨hnl, twoColourable_of_colouring hwf h01 hp, List.Pairwise.filter _ List.pairwise_lt_range,
        List.Pairwise.filter _ List.pairwise_lt_range, ?_, ?_, ?_, ?_, ?_, trivial, ?_⟩
      · intro v hv
        rcases h01 v hv with h | h
        · left; exact (hmemr v 0).mpr ⟨hv, h⟩
        · right; exact (hmemr v 1).mpr ⟨hv, h⟩
      · intro v hv1 hv2
        have h1 := ((hmemr v 0).mp hv1).2
        have h2 := ((hmemr v 1).mp hv2).2
        rw [h1] at h2; exact absurd h2 (by decide)
      · intro v hv
        rcases hv with hv | hv
        · exact ((hmemr v 0).mp hv).1
        · exact ((hmemr v 1).mp hv).1
      · intro i hi j hj
        obtain ⟨hi1, hi2⟩ := (hmemr i 0).mp hi
        obtain ⟨hj1, hj2⟩ := (hmemr j 0).mp hj
        exact hzero 0 i j hi1 hj1 hi2 hj2
      · intro i hi j hj
        obtain ⟨hi1, hi2⟩ := (hmemr i 1).mp hi
        obtain ⟨hj1, hj2⟩ := (hmemr j 1).mp hj
        exact hzero 1 i j hi1 hj1 hi2 hj2
      · intro x y hx hy
        exact subMatrix_getD m _ _ x y hx hy

/-- the square 0-1-2-3: symmetric, stored = non-zero, answered `True` with rows {0,2}, cols {1,3} -/
def squareGraph : Mat :=
  ⟨4, 4, fun i => [(i + 1) % 4, (i + 3) % 4], fun i j => if j = (i + 1) % 4 ∨ j = (i + 3) % 4 then 1 else 0⟩

example : squareGraph.isSymmetric = .ok true := by rfl
example : (match isBipartite squareGraph with | .yes _ rows cols => rows == [0, 2] && cols == [1, 3] | _ => false) = true := by
  rfl
/-- the triangle: answered `False` -/
example : (match isBipartite ⟨3, 3, fun i => [(i + 1) % 3, (i + 2) % 3], fun i j => if i = j then 0 else 1⟩ with
    | .no => true | _ => false) = true := by rfl

/-! ## is_acyclic -/

/-- the contract of `connected_components(adjacency, directed=True, connection='strong', return_labels=False)`:
    the number of distinct labels of a labelling by strong components -/
def IsStrongCount (n : Nat) (adj : Nat → List Nat) (k : Nat) : Prop :=
  ∃ labels, IsLabelling n adj true labels ∧ k = (npUnique labels).length

/-- ★ `isAcyclic_directed_iff`: for a graph taken as directed (flag `True`, or inferred from an asymmetric matrix),
    `is_acyclic` answers `True` exactly when the graph has no directed cycle (self-loops included): no self-loop
    and as many strong components as nodes means that no two distinct nodes are mutually reachable. -/
theorem isAcyclic_directed_iff (nCC : Bool → Nat) (m : Mat) (directed : Option Bool)
    (hc : m.Canon) (hsq : m.nRow = m.nCol) (hnn : m.NonNeg)
    (hd : resolveDirected m directed = .ok true)
    (hcc : IsStrongCount m.nRow m.adj (nCC true)) :
    ∃ b, isAcyclic nCC m directed = .ok b ∧ (b = true ↔ ¬ HasCycle m.nRow m.adj) := by
  have hwf := Canon.wf hc hsq
  obtain ⟨labels, ⟨hlen, hlab⟩, hk⟩ := hcc
  have hguard : (m.nRow != m.nCol) = false := by simp [hsq]
  unfold isAcyclic
  simp only [hd, hguard, Bool.false_eq_true, ↓reduceIte]
  by_cases hl : (selfLoops m).length > 0
  · simp only [hl, ↓reduceIte]
    refine ⟨false, rfl, ?_⟩
    simp only [Bool.false_eq_true, false_iff, Classical.not_not]
    obtain ⟨i, hi⟩ := List.exists_mem_of_length_pos hl
    simp only [selfLoops, List.mem_filter, List.mem_range, decide_eq_true_eq] at hi
    have hmem : i ∈ m.adj i := (hc i i hi.1).mpr ⟨hsq ▸ hi.1, fun h => by rw [h] at hi; exact absurd hi.2 (by decide)⟩
    exact ⟨i, i, hi.1, hmem, Reach.refl i⟩
  · simp only [hl, ↓reduceIte]
    refine ⟨_, rfl, ?_⟩
    have hnoloop : ∀ u, u < m.nRow → u ∉ m.adj u := by
      intro u hu hmem
      apply hl
      apply List.length_pos_of_mem (a := u)
      simp only [selfLoops, List.mem_filter, List.mem_range, decide_eq_true_eq]
      have hne := ((hc u u hu).mp hmem).2
      have h0 := hnn u u
      exact ⟨hu, Rat.lt_of_le_of_ne h0 (Ne.symm hne)⟩
    have hcount : (npUnique labels).length = m.nRow ↔ labels.Nodup := by
      rw [← hlen]; exact npUnique_length_eq_iff_nodup labels
    rw [beq_iff_eq, hk, hcount, nodup_iff_getD_inj, not_hasCycle_iff hwf]
    constructor
    · intro h
      refine ⟨hnoloop, fun u v hu hv huv hvu => ?_⟩
      exact h u v (hlen ▸ hu) (hlen ▸ hv) ((hlab u v hu hv).mpr ⟨huv, hvu⟩)
    · intro ⟨_, h⟩ u v hu hv he
      have hu' : u < m.nRow := hlen ▸ hu
      have hv' : v < m.nRow := hlen ▸ hv
      obtain ⟨huv, hvu⟩ := (hlab u v hu' hv').mp he
      exact h u v hu' hv' huv hvu

/-- the directed 3-cycle has one strong component: `is_acyclic` says `False` -/
example : isAcyclic (fun _ => 1) ⟨3, 3, fun i => [(i + 1) % 3], fun i j => if j = (i + 1) % 3 then 1 else 0⟩ (some true)
    = .ok false := by rfl
/-- the path 0 → 1 → 2 has three strong components: `True` -/
example : isAcyclic (fun _ => 3) ⟨3, 3, fun i => if i < 2 then [i + 1] else [], fun i j => if i < 2 ∧ j = i + 1 then 1 else 0⟩ (some true)
    = .ok true := by rfl

/-- the contract of `connected_components(adjacency, directed=False, …, return_labels=False)`:
    the number of distinct labels of a labelling by the components of the undirected graph -/
def IsWeakCount (n : Nat) (adj : Nat → List Nat) (k : Nat) : Prop :=
  ∃ labels, IsLabelling n adj false labels ∧ k = (npUnique labels).length

/-- ★ `isAcyclic_undirected_iff`: for a graph taken as undirected (flag `False`, or inferred from a symmetric matrix,
    no duplicate entry), with scipy's count of the components, `is_acyclic` answers `True` exactly when the graph has
    no cycle: no self-loop and no simple cycle with three nodes or more. The criterion `n_cc == n_nodes - nnz // 2`
    is the forest formula, proved by adding the edges one at a time to a union-find labelling
    (`Lemmas/UndirectedForest.lean`: components + edges = nodes + closing edges; a closing edge exists iff a cycle does). -/
theorem isAcyclic_undirected_iff (nCC : Bool → Nat) (m : Mat) (directed : Option Bool)
    (hc : m.Canon) (hsq : m.nRow = m.nCol) (hnn : m.NonNeg) (hrows : ∀ i, i < m.nRow → (m.adj i).Nodup)
    (hd : resolveDirected m directed = .ok false)
    (hcc : IsWeakCount m.nRow m.adj (nCC false)) :
    ∃ b, isAcyclic nCC m directed = .ok b ∧ (b = true ↔ ∀ C, ¬ IsSimpleCycle m.nRow m.adj false C) := by
  have hs := resolveDirected_false hd
  obtain ⟨labels, hlab, hk⟩ := hcc
  have hguard : (m.nRow != m.nCol) = false := by simp [hsq]
  unfold isAcyclic
  simp only [hd, hguard, Bool.false_eq_true, ↓reduceIte]
  by_cases hl : (selfLoops m).length > 0
  · simp only [hl, ↓reduceIte]
    refine ⟨false, rfl, ?_⟩
    simp only [Bool.false_eq_true, false_iff]
    obtain ⟨i, hi⟩ := List.exists_mem_of_length_pos hl
    have := selfLoop_cycles_simple m hc hsq false [i] (List.mem_map.mpr ⟨i, hi, rfl⟩)
    exact fun hall => hall [i] this
  · simp only [hl, ↓reduceIte]
    refine ⟨_, rfl, ?_⟩
    have hnoloop : ∀ u, u < m.nRow → u ∉ m.adj u := by
      intro u hu hmem
      apply hl
      apply List.length_pos_of_mem (a := u)
      simp only [selfLoops, List.mem_filter, List.mem_range, decide_eq_true_eq]
      exact ⟨hu, Rat.lt_of_le_of_ne (hnn u u) (Ne.symm ((hc u u hu).mp hmem).2)⟩
    have huok := uok_of_canon hc hsq hs hrows hnoloop
    have hforest := SkNet.UForest.components_eq_iff_forest huok hlab
    rw [beq_iff_eq, hk]
    have hnnz : m.nnz = ((List.range m.nRow).map fun i => (m.adj i).length).sum := rfl
    rw [hnnz, hforest]
    constructor
    · intro hno C hC
      obtain ⟨_, hlt, hcl, hlen⟩ := id hC
      rcases hlen with hf | h1 | h3
      · cases hf
      · match C, h1, hcl, hlt with
        | [v], _, hcl, hlt =>
          have : isChain m.adj ([v] ++ [v]) = true := hcl
          have hv : v ∈ m.adj v := by simpa [isChain] using this
          exact hnoloop v (hlt v (by simp)) hv
      · exact hno ⟨C, hC, h3⟩
    · intro hno ⟨C, hC, _⟩
      exact hno C hC

/-- the path 0 — 1 — 2 has one component and two edges: `True`; the triangle: `False` -/
example : isAcyclic (fun _ => 1) ⟨3, 3, fun i => if i = 1 then [0, 2] else [1], fun i j => if i + j = 1 ∨ i + j = 3 then 1 else 0⟩ none
    = .ok true := by rfl
example : isAcyclic (fun _ => 1) ⟨3, 3, fun i => [(i + 1) % 3, (i + 2) % 3], fun i j => if i = j then 0 else 1⟩ none
    = .ok false := by rfl

/-! ## get_cycles -/

/-- ★ `getCycles_sound` (genuine simple cycles): whatever scipy answered (only the length of its label vector is
    used) and whatever the fuel, every list returned by `get_cycles` is a simple cycle of the graph: distinct
    nodes, each followed by one of its successors and the last one by the first; in an undirected graph it is a
    self-loop or has at least three nodes. -/
theorem getCycles_sound (fuel : Nat) (nCC : Bool → Nat) (labels : Bool → List Nat) (m : Mat)
    (directed : Option Bool) (d : Bool) (cs : List (List Nat))
    (hc : m.Canon) (hsq : m.nRow = m.nCol)
    (hd : resolveDirected m directed = .ok d)
    (hlen : (labels d).length = m.nRow)
    (h : getCyclesWith fuel nCC labels m directed = .ok (some cs)) :
    ∀ c ∈ cs, IsSimpleCycle m.nRow m.adj d c := by
  have hwf := Canon.wf hc hsq
  have h0 := selfLoop_cycles_simple m hc hsq d
  have hguard : (m.nRow != m.nCol) = false := by simp [hsq]
  unfold getCyclesWith at h
  simp only [hd, hguard, Bool.false_eq_true, ↓reduceIte] at h
  split at h
  · cases h; exact h0
  · split at h
    · cases h; exact h0
    · split at h
      · cases h
      · rename_i cycles hcy
        cases h
        have hstarts : ∀ s ∈ (if d = true then (npUnique (labels d)).filter fun v => (labels d).count v > 1
            else npUnique (labels d)).map (firstOfLabel (labels d)), s < m.nRow := by
          intro s hs
          obtain ⟨l, hl, rfl⟩ := List.mem_map.mp hs
          have hl' : l ∈ labels d := by
            split at hl
            · exact mem_npUnique.mp (List.mem_filter.mp hl).1
            · exact mem_npUnique.mp hl
          rw [← hlen]
          exact List.idxOf_lt_length_iff.mpr hl'
        have hall := cyclesFromStarts_inv hwf d fuel _ hstarts _ cycles h0 hcy
        intro c hcm
        rcases dedupCycles_mem d cycles [] [] c hcm with hh | ⟨c0, hc0, rfl⟩
        · cases hh
        · exact isSimpleCycle_rollMin (hall c0 hc0)

/-- ★ `getCycles_sound` (no duplicates): no two returned cycles are the same cycle — equal up to rotation in a
    directed graph, equal as node sets in an undirected graph (the identification `get_cycles` itself uses). -/
theorem getCycles_distinct (fuel : Nat) (nCC : Bool → Nat) (labels : Bool → List Nat) (m : Mat)
    (directed : Option Bool) (d : Bool) (cs : List (List Nat))
    (hc : m.Canon) (hsq : m.nRow = m.nCol)
    (hd : resolveDirected m directed = .ok d)
    (hlen : (labels d).length = m.nRow)
    (h : getCyclesWith fuel nCC labels m directed = .ok (some cs)) :
    cs.Pairwise fun a b => if d = true then ¬ SameRotation a b else ¬ SameNodes a b := by
  have hsimple := getCycles_sound fuel nCC labels m directed d cs hc hsq hd hlen h
  -- the self-loops alone: distinct single nodes
  have hloops : ((selfLoops m).map fun v => [v]).Pairwise
      fun a b => if d = true then ¬ SameRotation a b else ¬ SameNodes a b := by
    rw [List.pairwise_map]
    have hnd : (selfLoops m).Pairwise (· ≠ ·) :=
      List.nodup_iff_pairwise_ne.mp ((List.filter_sublist (l := List.range m.nRow)).nodup List.nodup_range)
    refine hnd.imp ?_
    intro a b hab
    split
    · intro ⟨k, hk, hr⟩
      simp only [List.length_singleton, Nat.lt_one_iff] at hk
      subst hk
      simp [rotate] at hr
      exact hab hr
    · intro ⟨h1, _⟩
      exact hab (by simpa using h1 a (by simp))
  have hguard : (m.nRow != m.nCol) = false := by simp [hsq]
  unfold getCyclesWith at h
  simp only [hd, hguard, Bool.false_eq_true, ↓reduceIte] at h
  split at h
  · cases h; exact hloops
  · split at h
    · cases h; exact hloops
    · split at h
      · cases h
      · rename_i cycles hcy
        cases h
        have hpw := dedupCycles_pairwise d cycles [] [] (by simp) List.Pairwise.nil
        have hmem := dedupCycles_mem d cycles [] []
        -- every returned cycle is duplicate-free with its least node first
        have hgood : ∀ c ∈ dedupCycles d cycles ([], []), c.Nodup ∧ MinFirst c := by
          intro c hcm
          refine ⟨(hsimple c hcm).1, ?_⟩
          rcases hmem c hcm with hh | ⟨c0, _, rfl⟩
          · cases hh
          · apply rollMin_minFirst
            intro hn
            have := (rollMin_ne_nil (c := c0))
            have h3 := (hsimple _ hcm).2.2.1
            rw [hn] at h3
            simp [rollMin, IsClosedChain] at h3
        refine List.Pairwise.imp_of_mem ?_ hpw
        intro a b ha hb hkey
        cases d with
        | true =>
          simp only [↓reduceIte]
          intro hrot
          exact hkey (by simpa [cycleKey] using eq_of_sameRotation (hgood a ha).1 (hgood a ha).2 (hgood b hb).2 hrot)
        | false =>
          simp only [Bool.false_eq_true, ↓reduceIte]
          intro hsame
          exact hkey (by simpa [cycleKey] using sortNat_eq_of_sameNodes (hgood a ha).1 (hgood b hb).1 hsame)

/-- `getCycles_terminates`: the fuel `cyclesFuel m` that `getCycles` hands to the traversal always suffices (the
    stacked simple paths weigh `B^(n - length)`, a pop trades one path for fewer than `B` longer ones): `get_cycles`
    never answers "out of fuel", so `getCycles_sound` / `getCycles_distinct` speak about every run. -/
theorem getCycles_terminates (nCC : Bool → Nat) (labels : Bool → List Nat) (m : Mat)
    (directed : Option Bool) (hc : m.Canon) (hsq : m.nRow = m.nCol)
    (hlen : ∀ d, (labels d).length = m.nRow) :
    getCycles nCC labels m directed ≠ .ok none := by
  have hwf := Canon.wf hc hsq
  unfold getCycles getCyclesWith
  cases hd : resolveDirected m directed with
  | error e => simp
  | ok d =>
    have hguard : (m.nRow != m.nCol) = false := by simp [hsq]
    simp only [hguard, Bool.false_eq_true, ↓reduceIte]
    split
    · simp
    · split
      · simp
      · have hstarts : ∀ s ∈ (if d = true then (npUnique (labels d)).filter fun v => (labels d).count v > 1
            else npUnique (labels d)).map (firstOfLabel (labels d)), s < m.nRow := by
          intro s hs
          obtain ⟨l, hl, rfl⟩ := List.mem_map.mp hs
          have hl' : l ∈ labels d := by
            split at hl
            · exact mem_npUnique.mp (List.mem_filter.mp hl).1
            · exact mem_npUnique.mp hl
          rw [← hlen d]
          exact List.idxOf_lt_length_iff.mpr hl'
        have := cyclesFromStarts_terminates hwf _ (row_length_le_maxOf m) d _ hstarts
          ((selfLoops m).map fun v => [v])
        unfold cyclesFuel
        split
        · rename_i hn; exact absurd hn this
        · simp

/-- ★ `getCycles_complete_directed` ("all of them for a directed graph"): on a directed graph (flag `True`, or
    inferred), with scipy's contract for the strong components, every simple cycle of the graph is returned, up to
    rotation: the cycle lies in one strong component with more than one node (or is a self-loop, recorded first);
    the first node of that component reaches it; the traversal explores every simple path from that node
    (`cyclesLoop_explores`), in particular the one that runs to the cycle and once around it; the duplicate removal
    keeps its rotation with the least node first. -/
theorem getCycles_complete_directed (fuel : Nat) (nCC : Bool → Nat) (labels : Bool → List Nat) (m : Mat)
    (directed : Option Bool) (cs : List (List Nat))
    (hc : m.Canon) (_hsq : m.nRow = m.nCol) (hnn : m.NonNeg)
    (hd : resolveDirected m directed = .ok true)
    (hlab : IsLabelling m.nRow m.adj true (labels true))
    (hn : nCC true = (npUnique (labels true)).length)
    (h : getCyclesWith fuel nCC labels m directed = .ok (some cs)) :
    ∀ C, IsSimpleCycle m.nRow m.adj true C → ∃ d ∈ cs, IsRotation C d := by
  intro C hC
  obtain ⟨hlen, hsame⟩ := hlab
  obtain ⟨hnd, hlt, hcl, _⟩ := id hC
  have hreachC := closedChain_reach hcl
  have hguard : (m.nRow != m.nCol) = false := by simp [_hsq]
  unfold getCyclesWith at h
  simp only [hd, hguard, Bool.true_and, Bool.not_true, Bool.false_and, Bool.false_eq_true, ↓reduceIte] at h
  -- a cycle with two nodes forces two nodes with one label
  have htwo : ∀ c0 c1, c0 ∈ C → c1 ∈ C → c0 ≠ c1 →
      (labels true).getD c0 0 = (labels true).getD c1 0 ∧ c0 < (labels true).length ∧ c1 < (labels true).length := by
    intro c0 c1 h0 h1 _
    have l0 := hlt c0 h0
    have l1 := hlt c1 h1
    exact ⟨(hsame c0 c1 l0 l1).mpr ⟨hreachC c0 h0 c1 h1, hreachC c1 h1 c0 h0⟩, hlen ▸ l0, hlen ▸ l1⟩
  match C, hC, hnd, hlt, hcl, hreachC, htwo with
  | [], _, _, _, hcl, _, _ => exact absurd hcl (by simp [IsClosedChain])
  | [v], _, _, hlt, hcl, _, _ =>
    -- a self-loop: recorded before the traversal
    have hv : v < m.nRow := hlt v (by simp)
    have hmem : v ∈ m.adj v := by
      have : isChain m.adj ([v] ++ [v]) = true := hcl
      simpa [isChain] using this
    have hpos : 0 < m.val v v := Rat.lt_of_le_of_ne (hnn v v) (Ne.symm ((hc v v hv).mp hmem).2)
    have h0 : [v] ∈ (selfLoops m).map fun v => [v] :=
      List.mem_map.mpr ⟨v, by simp [selfLoops, hv, hpos], rfl⟩
    split at h
    · cases h; exact ⟨[v], h0, [], [v], rfl, rfl⟩
    · split at h
      · cases h
      · rename_i cycles hcy
        cases h
        have hin := (cyclesFromStarts_explores m.adj fuel _ _ cycles hcy).1 _ h0
        exact ⟨_, (dedupCycles_complete cycles [] [] (by simp)).2 _ hin, isRotation_rollMin ⟨[], [v], rfl, rfl⟩⟩
  | c0 :: c1 :: t, hC, hnd, hlt, _, hreachC, htwo =>
    have hne : c0 ≠ c1 := by
      intro he; subst he
      simp at hnd
    obtain ⟨heq, hl0, hl1⟩ := htwo c0 c1 (by simp) (by simp) hne
    split at h
    · -- as many strong components as nodes: impossible
      rename_i hcount
      exfalso
      have hcount' : (npUnique (labels true)).length = (labels true).length := by
        rw [hlen, ← hn]; simpa using hcount
      have hndl := (npUnique_length_eq_iff_nodup _).mp hcount'
      exact hne ((nodup_iff_getD_inj _).mp hndl c0 c1 hl0 hl1 heq)
    · split at h
      · cases h
      · rename_i cycles hcy
        cases h
        -- the label of the cycle occurs more than once: its first node is a start of the traversal
        have hL : (labels true).getD c0 0 ∈ labels true := by
          simp [List.getD_eq_getElem?_getD, hl0]
        have hcount : 1 < (labels true).count ((labels true).getD c0 0) := by
          rw [← argwhereEq_length]
          have h1 : c0 ∈ argwhereEq (labels true) ((labels true).getD c0 0) := mem_argwhereEq.mpr ⟨hl0, rfl⟩
          have h2 : c1 ∈ argwhereEq (labels true) ((labels true).getD c0 0) := mem_argwhereEq.mpr ⟨hl1, heq.symm⟩
          have := (nodup_sub_length (u := [c0, c1]) (by simp [hne]) (by
            intro a ha
            simp only [List.mem_cons, List.not_mem_nil, or_false] at ha
            rcases ha with rfl | rfl
            · exact h1
            · exact h2)).1
          have h3 : ([c0, c1] : List Nat).length = 2 := rfl
          omega
        have hstart : firstOfLabel (labels true) ((labels true).getD c0 0) ∈
            ((npUnique (labels true)).filter fun v => (labels true).count v > 1).map (firstOfLabel (labels true)) :=
          List.mem_map.mpr ⟨_, List.mem_filter.mpr ⟨mem_npUnique.mpr hL, by simpa using hcount⟩, rfl⟩
        have hsl : firstOfLabel (labels true) ((labels true).getD c0 0) < (labels true).length :=
          List.idxOf_lt_length_iff.mpr hL
        have hslab : (labels true).getD (firstOfLabel (labels true) ((labels true).getD c0 0)) 0 =
            (labels true).getD c0 0 := by
          have hsl' : List.idxOf ((labels true).getD c0 0) (labels true) < (labels true).length := hsl
          show (labels true).getD (List.idxOf ((labels true).getD c0 0) (labels true)) 0 = _
          rw [List.getD_eq_getElem?_getD, List.getElem?_eq_getElem hsl']
          exact List.getElem_idxOf hsl'
        have hreach : Reach m.adj (firstOfLabel (labels true) ((labels true).getD c0 0)) c0 :=
          ((hsame _ c0 (hlen ▸ hsl) (hlen ▸ hl0)).mp hslab).1
        obtain ⟨d, hdm, hrot⟩ := cycle_found fuel _ _ cycles hcy hstart hC (c := c0) (by simp) hreach
        exact ⟨_, (dedupCycles_complete cycles [] [] (by simp)).2 d hdm, isRotation_rollMin hrot⟩

/-- ★ "none iff acyclic" (directed graph): `get_cycles` returns the empty list exactly when the graph has no
    directed cycle. -/
theorem getCycles_empty_iff_acyclic_directed (fuel : Nat) (nCC : Bool → Nat) (labels : Bool → List Nat) (m : Mat)
    (directed : Option Bool) (cs : List (List Nat))
    (hc : m.Canon) (hsq : m.nRow = m.nCol) (hnn : m.NonNeg)
    (hd : resolveDirected m directed = .ok true)
    (hlab : IsLabelling m.nRow m.adj true (labels true))
    (hn : nCC true = (npUnique (labels true)).length)
    (h : getCyclesWith fuel nCC labels m directed = .ok (some cs)) :
    cs = [] ↔ ¬ HasCycle m.nRow m.adj := by
  have hwf := Canon.wf hc hsq
  constructor
  · intro he hcyc
    obtain ⟨C, hC⟩ := exists_simpleCycle_of_hasCycle hwf hcyc
    obtain ⟨d, hdm, _⟩ := getCycles_complete_directed fuel nCC labels m directed cs hc hsq hnn hd hlab hn h C hC
    rw [he] at hdm; cases hdm
  · intro hno
    cases cs with
    | nil => rfl
    | cons c t =>
      exfalso
      have := getCycles_sound fuel nCC labels m directed true (c :: t) hc hsq hd hlab.1 h c List.mem_cons_self
      exact hno (hasCycle_of_simpleCycle this)

/-- ★ "none iff acyclic" (undirected graph, self-loops allowed, no duplicate entry): with scipy's contract for the
    components, `get_cycles` returns the empty list exactly when the graph has no cycle (no self-loop, no simple cycle
    with three nodes or more). The early return rests on the forest criterion (`Lemmas/UndirectedForest.lean`,
    `no_cycle_of_criterion`), the traversal on its completeness: the first node of a component reaches every cycle
    of the component, and every back edge other than the move to the parent is recorded (`Lemmas/CompleteUnd.lean`). -/
theorem getCycles_empty_iff_acyclic_undirected (fuel : Nat) (nCC : Bool → Nat) (labels : Bool → List Nat) (m : Mat)
    (directed : Option Bool) (cs : List (List Nat))
    (hc : m.Canon) (hsq : m.nRow = m.nCol) (hnn : m.NonNeg) (hrows : ∀ i, i < m.nRow → (m.adj i).Nodup)
    (hd : resolveDirected m directed = .ok false)
    (hlab : IsLabelling m.nRow m.adj false (labels false))
    (hn : nCC false = (npUnique (labels false)).length)
    (h : getCyclesWith fuel nCC labels m directed = .ok (some cs)) :
    cs = [] ↔ ∀ C, ¬ IsSimpleCycle m.nRow m.adj false C := by
  have hs := resolveDirected_false hd
  have hwf := Canon.wf hc hsq
  have hsym := Canon.sym hc hs
  have hsound := getCycles_sound fuel nCC labels m directed false cs hc hsq hd hlab.1 h
  have hloops := selfLoop_cycles_simple m hc hsq false
  -- a cycle of one node is a recorded self-loop
  have hone : ∀ v, IsSimpleCycle m.nRow m.adj false [v] → [v] ∈ (selfLoops m).map fun v => [v] := by
    intro v hC
    obtain ⟨_, hlt, hcl, _⟩ := hC
    have : isChain m.adj ([v] ++ [v]) = true := hcl
    have hmem : v ∈ m.adj v := by simpa [isChain] using this
    have hv := hlt v (by simp)
    refine List.mem_map.mpr ⟨v, ?_, rfl⟩
    simp only [selfLoops, List.mem_filter, List.mem_range, decide_eq_true_eq]
    exact ⟨hv, Rat.lt_of_le_of_ne (hnn v v) (Ne.symm ((hc v v hv).mp hmem).2)⟩
  -- the right-hand side in two parts
  have hsplit : (∀ C, ¬ IsSimpleCycle m.nRow m.adj false C) ↔
      (selfLoops m = [] ∧ ¬ ∃ C, IsSimpleCycle m.nRow m.adj false C ∧ 3 ≤ C.length) := by
    constructor
    · intro hno
      refine ⟨?_, fun ⟨C, hC, _⟩ => hno C hC⟩
      cases hsl : selfLoops m with
      | nil => rfl
      | cons v t => exact absurd (hloops [v] (by rw [hsl]; simp)) (hno [v])
    · intro ⟨hnl, hno3⟩ C hC
      obtain ⟨_, _, _, hlen⟩ := id hC
      rcases hlen with hf | h1 | h3
      · cases hf
      · match C, h1, hC with
        | [v], _, hC =>
          have := hone v hC
          rw [hnl] at this
          cases this
      · exact hno3 ⟨C, hC, h3⟩
  rw [hsplit]
  have hguard : (m.nRow != m.nCol) = false := by simp [hsq]
  unfold getCyclesWith at h
  simp only [hd, hguard, Bool.false_and, Bool.false_eq_true, ↓reduceIte, Bool.not_false, Bool.true_and] at h
  split at h
  · -- early return: the criterion holds
    rename_i hcrit
    cases h
    have hcrit' : ((npUnique (labels false)).length : Int) =
        (m.nRow : Int) - (((((List.range m.nRow).map fun i => (m.adj i).length).sum / 2 : Nat)) : Int) := by
      have : ((nCC false : Int) == (m.nRow : Int) - ((m.nnz / 2 : Nat) : Int)) = true := hcrit
      rw [beq_iff_eq, hn] at this
      exact this
    have hno3 := SkNet.UForest.no_cycle_of_criterion hwf hsym hrows hlab hcrit'
    constructor
    · intro he
      refine ⟨?_, hno3⟩
      cases hsl : selfLoops m with
      | nil => rfl
      | cons v t => rw [hsl] at he; simp at he
    · intro ⟨hnl, _⟩
      rw [hnl]; rfl
  · split at h
    · cases h
    · rename_i cycles hcy
      cases h
      constructor
      · intro he
        have hcyc : cycles = [] := by
          apply Classical.byContradiction
          intro hne
          exact dedupCycles_ne_nil false cycles hne he
        obtain ⟨hkeep, hexp⟩ := cyclesFromStarts_explores_und m.adj fuel _ _ cycles hcy
        refine ⟨?_, ?_⟩
        · cases hsl : selfLoops m with
          | nil => rfl
          | cons v t =>
            have := hkeep [v] (by rw [hsl]; simp)
            rw [hcyc] at this; cases this
        · intro ⟨C, hC, hlen⟩
          -- the first node of the component of the cycle is a start node and reaches it
          obtain ⟨c, t, rfl⟩ : ∃ c t, C = c :: t := by
            cases C with
            | nil => simp at hlen
            | cons c t => exact ⟨c, t, rfl⟩
          have hcn : c < m.nRow := hC.2.1 c List.mem_cons_self
          obtain ⟨hlenl, hsame⟩ := hlab
          have hcl' : c < (labels false).length := hlenl ▸ hcn
          have hL : (labels false).getD c 0 ∈ labels false := by
            simp [List.getD_eq_getElem?_getD, hcl']
          have hsl : firstOfLabel (labels false) ((labels false).getD c 0) < (labels false).length :=
            List.idxOf_lt_length_iff.mpr hL
          have hslab : (labels false).getD (firstOfLabel (labels false) ((labels false).getD c 0)) 0 =
              (labels false).getD c 0 := by
            have hsl' : List.idxOf ((labels false).getD c 0) (labels false) < (labels false).length := hsl
            show (labels false).getD (List.idxOf ((labels false).getD c 0) (labels false)) 0 = _
            rw [List.getD_eq_getElem?_getD, List.getElem?_eq_getElem hsl']
            exact List.getElem_idxOf hsl'
          have hstart : firstOfLabel (labels false) ((labels false).getD c 0) ∈
              (npUnique (labels false)).map (firstOfLabel (labels false)) :=
            List.mem_map.mpr ⟨_, mem_npUnique.mpr hL, rfl⟩
          have hsn := hlenl ▸ hsl
          have hweak := (hsame _ c hsn hcn).mp hslab
          simp only [SameComp, Bool.false_eq_true, ↓reduceIte] at hweak
          have hreach : Reach m.adj (firstOfLabel (labels false) ((labels false).getD c 0)) c := by
            refine SkNet.UForest.reach_congr (weakAdj_wf hwf) ?_ hsn hweak
            intro x hx y hy
            rcases List.mem_append.mp hy with h' | h'
            · exact h'
            · obtain ⟨hyn, hmem⟩ := List.mem_filter.mp h'
              exact hsym y (List.mem_range.mp hyn) x (by simpa using hmem)
          have := cycle_found_und fuel _ _ cycles hcy hstart hC hlen List.mem_cons_self hreach
          exact this hcyc
      · intro ⟨hnl, hno3⟩
        cases hcs : dedupCycles false cycles ([], []) with
        | nil => rfl
        | cons c t =>
          exfalso
          have hC := hsound c (by rw [hcs]; exact List.mem_cons_self)
          exact (hsplit.mpr ⟨hnl, hno3⟩) c hC

/-- the directed square with a chord 1 → 3 (the repository's own test): two cycles, both genuine -/
def chordSquare : Mat :=
  ⟨4, 4, fun i => if i = 1 then [2, 3] else [(i + 1) % 4],
    fun i j => if j = (i + 1) % 4 ∨ (i = 1 ∧ j = 3) then 1 else 0⟩

example : getCycles (fun _ => 1) (fun _ => [0, 0, 0, 0]) chordSquare (some true) = .ok (some [[0, 1, 3], [0, 1, 2, 3]]) := by
  rfl
example : ∀ c ∈ [[0, 1, 3], [0, 1, 2, 3]], IsSimpleCycle 4 chordSquare.adj true c := by decide

/-! ## break_cycles -/

/-- ★ `breakCycles_subgraph`: whatever scipy, the set order and the fuel are, the matrix returned by `break_cycles`
    (when it is not the input itself) has the rows of the input, and each of its entries is an entry of the
    input that is not on the diagonal: a subgraph without self-loops. -/
theorem breakCycles_subgraph (fuel : Nat) (ext : BreakExt) (m : Mat) (root : Option (List Nat))
    (directed : Option Bool) (a : Rows)
    (h : breakCyclesWith fuel ext m root directed = .ok (.rows a)) :
    a.length = m.nRow ∧ ∀ i j, j ∈ a.row i → i < m.nRow ∧ j ∈ m.adj i ∧ j ≠ i := by
  obtain ⟨hlen, hsub⟩ := breakCyclesWith_rows_sub fuel ext m root directed a h
  refine ⟨by rw [hlen]; simp [noLoopRows], fun i j hj => ?_⟩
  exact (mem_noLoopRows m i j).mp (hsub i j hj)

/-- ★ `breakCycles_same_acyclic`: when `break_cycles` takes the early return (`if is_acyclic(adjacency, directed): return
    adjacency`) the matrix it hands back — the input — has no cycle for the resolved flag: no directed cycle when taken
    as directed (scipy's count of the strong components), no self-loop and no simple cycle with three nodes or more
    when taken as undirected (scipy's count of the components, rows without duplicate). -/
theorem breakCycles_same_acyclic (fuel : Nat) (ext : BreakExt) (m : Mat) (root : Option (List Nat))
    (directed : Option Bool) (hc : m.Canon) (hsq : m.nRow = m.nCol) (hnn : m.NonNeg)
    (h : breakCyclesWith fuel ext m root directed = .ok .same) :
    ∃ d, resolveDirected m directed = .ok d ∧
      (d = true → IsStrongCount m.nRow m.adj (ext.nCC true) → ¬ HasCycle m.nRow m.adj) ∧
      (d = false → (∀ i, i < m.nRow → (m.adj i).Nodup) → IsWeakCount m.nRow m.adj (ext.nCC false) →
        ∀ C, ¬ IsSimpleCycle m.nRow m.adj false C) := by
  have hac : isAcyclic ext.nCC m directed = .ok true := by
    unfold breakCyclesWith at h
    split at h
    · cases h
    · assumption
    · split at h
      · cases h
      · split at h
        · cases h
        · split at h
          · cases h
          · unfold breakDirected at h
            simp only at h
            split at h
            · cases h
            · split at h
              · cases h
              · cases h
              · split at h <;> cases h
          · unfold breakUndirected at h
            simp only at h
            split at h <;> cases h
  cases hd : resolveDirected m directed with
  | error e => unfold isAcyclic at hac; simp [hd] at hac
  | ok d =>
    refine ⟨d, rfl, fun hdt hcc => ?_, fun hdf hrows hcc => ?_⟩
    · subst hdt
      obtain ⟨b, hb, hiff⟩ := isAcyclic_directed_iff ext.nCC m directed hc hsq hnn hd hcc
      rw [hac] at hb
      exact hiff.mp (Except.ok.inj hb).symm
    · subst hdf
      obtain ⟨b, hb, hiff⟩ := isAcyclic_undirected_iff ext.nCC m directed hc hsq hnn hrows hd hcc
      rw [hac] at hb
      exact hiff.mp (Except.ok.inj hb).symm

/-- ★ `breakCycles_acyclic` and `breakCycles_reach`, undirected graph (flag `False`, or inferred from a symmetric
    matrix; the branch repaired by `fix:` 14b05e63): with scipy's contract for the components of the loop-free
    graph, whatever the roots and the fuel are, the matrix returned by `break_cycles` is symmetric, joins exactly the
    pairs of nodes the input joins (so every node reachable from a root stays reachable), and has no cycle: no
    self-loop and no simple cycle with three nodes or more.
    (Every removal `cur — nb` happens while the stacked path from `nb` to `cur` is intact —
    `Lemmas/BreakInv.lean` — and when a traversal ends no simple path from its start node has a back edge —
    `Lemmas/BreakAcyclic.lean`; every component contains a start node.) -/
theorem breakCycles_undirected (fuel : Nat) (ext : BreakExt) (m : Mat) (root : Option (List Nat))
    (directed : Option Bool) (a : Rows)
    (hc : m.Canon) (hsq : m.nRow = m.nCol)
    (hd : resolveDirected m directed = .ok false)
    (hlab : IsLabelling m.nRow (noLoopRows m).row false (ext.labelsNoLoop false))
    (h : breakCyclesWith fuel ext m root directed = .ok (.rows a)) :
    a.Symm ∧
    (∀ u v, u < m.nRow → (Reach m.adj u v ↔ Reach a.row u v)) ∧
    ∀ C, ¬ IsSimpleCycle m.nRow a.row false C := by
  have hs := resolveDirected_false hd
  have hwf := Canon.wf hc hsq
  have hsym := Canon.sym hc hs
  -- the loop-free adjacency: symmetric, without self-loop
  have hg0 : UGraph (noLoopRows m) (noLoopRows m) := by
    refine ⟨Rows.Sub.refl _, ?_, fun _ _ h => h, ?_⟩
    · intro u v hv
      obtain ⟨hu, hmem, hne⟩ := (mem_noLoopRows m u v).mp hv
      exact (mem_noLoopRows m v u).mpr ⟨hwf u hu v hmem, hsym u hu v hmem, Ne.symm hne⟩
    · intro u hu
      exact ((mem_noLoopRows m u u).mp hu).2.2 rfl
  -- the run is the undirected branch
  unfold breakCyclesWith at h
  split at h
  · cases h
  · cases h
  · split at h
    · cases h
    · rename_i rootl
      split at h
      · cases h
      · simp only [hd] at h
        unfold breakUndirected at h
        simp only at h
        split at h
        · cases h
        · rename_i aEnd hst
          have hae : aEnd = a := by
            have := Except.ok.inj h
            exact BreakOut.rows.inj this
          subst hae
          obtain ⟨hg, _⟩ := breakStarts_inv fuel _ _ _ hg0 hst
          obtain ⟨_, hdone⟩ := breakStarts_explores fuel _ _ _ hst
          refine ⟨hg.symm, fun u v hu => ?_, fun C hC => ?_⟩
          · rw [reach_noLoop_iff m hwf hu v]
            exact ⟨hg.conn u v, Reach.mono hg.sub.2⟩
          · obtain ⟨hnd, hlt, hcl, hlen⟩ := id hC
            rcases hlen with hf | h1 | h3
            · cases hf
            · -- a self-loop: none is left
              match C, h1, hcl with
              | [v], _, hcl =>
                have : isChain aEnd.row ([v] ++ [v]) = true := hcl
                have hv : v ∈ aEnd.row v := by simpa [isChain] using this
                exact hg.noloop v hv
            · -- three nodes or more: the component's first node is a start node
              obtain ⟨c, t, rfl⟩ : ∃ c t, C = c :: t := by
                cases C with
                | nil => simp at h3
                | cons c t => exact ⟨c, t, rfl⟩
              have hcn : c < m.nRow := hlt c List.mem_cons_self
              obtain ⟨hlenl, hsame⟩ := hlab
              have hcl' : c < (ext.labelsNoLoop false).length := hlenl ▸ hcn
              have hL : (ext.labelsNoLoop false).getD c 0 ∈ ext.labelsNoLoop false := by
                simp [List.getD_eq_getElem?_getD, hcl']
              have hsl : firstOfLabel (ext.labelsNoLoop false) ((ext.labelsNoLoop false).getD c 0) <
                  (ext.labelsNoLoop false).length := List.idxOf_lt_length_iff.mpr hL
              have hslab : (ext.labelsNoLoop false).getD
                  (firstOfLabel (ext.labelsNoLoop false) ((ext.labelsNoLoop false).getD c 0)) 0 =
                  (ext.labelsNoLoop false).getD c 0 := by
                have hsl' : List.idxOf ((ext.labelsNoLoop false).getD c 0) (ext.labelsNoLoop false) <
                    (ext.labelsNoLoop false).length := hsl
                show (ext.labelsNoLoop false).getD (List.idxOf ((ext.labelsNoLoop false).getD c 0)
                  (ext.labelsNoLoop false)) 0 = _
                rw [List.getD_eq_getElem?_getD, List.getElem?_eq_getElem hsl']
                exact List.getElem_idxOf hsl'
              have hstart : firstOfLabel (ext.labelsNoLoop false) ((ext.labelsNoLoop false).getD c 0) ∈
                  rootl ++ firstNodes (ext.labelsNoLoop false) :=
                List.mem_append_right _ (List.mem_map.mpr ⟨_, mem_npUnique.mpr hL, rfl⟩)
              have hsn := hlenl ▸ hsl
              have hweak := (hsame _ c hsn hcn).mp hslab
              simp only [SameComp, Bool.false_eq_true, ↓reduceIte] at hweak
              -- in a symmetric graph the weak component is the component
              have hreach0 : Reach (noLoopRows m).row
                  (firstOfLabel (ext.labelsNoLoop false) ((ext.labelsNoLoop false).getD c 0)) c := by
                refine Reach.mono ?_ hweak
                intro x y hy
                rcases List.mem_append.mp hy with h' | h'
                · exact h'
                · have := (List.mem_filter.mp h').2
                  exact hg0.symm y x (by simpa using this)
              exact no_cycle_of_startDone (hdone _ hstart) hC h3 List.mem_cons_self (hg.conn _ _ hreach0)

/-- ★ `breakCycles_acyclic` and `breakCycles_reach`, directed graph (flag `True`, or inferred from an asymmetric
    matrix): with scipy's contract for the strong components of the loop-free graph, exact hop distances from
    `get_distances` (property C10) and a set order that enumerates the members of a set, whatever the fuel is the
    matrix returned by `break_cycles` has no directed cycle, and every node that some root reaches in the input is
    still reached by some root.
    (Inside a component every removal `cur → nb` happens while the stacked path from a sub-root through `nb` to
    `cur` is stored — `Lemmas/BreakDir.lean`; the sub-roots, closest to the roots, are entered from outside the
    component by an edge that is never removed — `Lemmas/BreakDirGlobal.lean`, `stage`.) -/
theorem breakCycles_directed (fuel : Nat) (ext : BreakExt) (m : Mat) (rootl : List Nat)
    (directed : Option Bool) (a : Rows)
    (hc : m.Canon) (hsq : m.nRow = m.nCol)
    (hd : resolveDirected m directed = .ok true)
    (hlab : IsLabelling m.nRow (noLoopRows m).row true (ext.labelsNoLoop true))
    (hset1 : ∀ l x, x ∈ ext.setOrder l → x ∈ l) (hset2 : ∀ l x, x ∈ l → x ∈ ext.setOrder l)
    (hdist : ∀ d, distancesFrom m (noLoopRows m) rootl = .ok (some d) → IsHopDist (noLoopRows m) m.nRow rootl d)
    (h : breakCyclesWith fuel ext m (some rootl) directed = .ok (.rows a)) :
    ¬ HasCycle m.nRow a.row ∧
    ∀ v, (∃ r ∈ rootl, Reach m.adj r v) → ∃ r ∈ rootl, Reach a.row r v := by
  have hwf := Canon.wf hc hsq
  unfold breakCyclesWith at h
  split at h
  · cases h
  · cases h
  · simp only at h
    split at h
    · cases h
    · rename_i hroot
      simp only [hd] at h
      have hguard : (m.nRow != m.nCol) = false := by simp [hsq]
      unfold breakDirected at h
      simp only [hguard, Bool.false_eq_true, ↓reduceIte] at h
      split at h
      · cases h
      · cases h
      · rename_i d hdd
        split at h
        · cases h
        · rename_i aEnd hrun
          have hae : aEnd = a := BreakOut.rows.inj (Except.ok.inj h)
          subst hae
          have hD := hdist d hdd
          -- the data of the run
          let c : DirCtx := ⟨m.nRow, noLoopRows m, ext.labelsNoLoop true, rootl, d, ext.setOrder⟩
          have hok : c.OK := by
            refine ⟨?_, ?_, hlab, hset1, hset2, hD.reach, hD.zero, hD.pred⟩
            · intro u v hv
              obtain ⟨hu, hmem, _⟩ := (mem_noLoopRows m u v).mp hv
              exact ⟨hu, hwf u hu v hmem⟩
            · intro u hu
              exact ((mem_noLoopRows m u u).mp hu).2.2 rfl
          have hnodup : ((npUnique (ext.labelsNoLoop true)).filter
              fun v => (ext.labelsNoLoop true).count v > 1).Nodup :=
            (List.filter_sublist).nodup (npUnique_nodup _)
          obtain ⟨e1, e2, e3⟩ := DirCtx.breakLabels_spec (c := c) hok fuel _ hnodup (noLoopRows m) aEnd
            (Rows.Sub.refl _) (fun _ _ x y hy _ _ => hy) (fun x y hy _ => hy) (fun v hv => hv) hrun
          refine ⟨?_, ?_⟩
          · -- no cycle
            intro hcyc
            have hwfE : ∀ u, u < m.nRow → ∀ v ∈ aEnd.row u, v < m.nRow :=
              fun u _ v hv => (hok.wf u v (e1.2 u v hv)).2
            obtain ⟨C, hC⟩ := exists_simpleCycle_of_hasCycle hwfE hcyc
            obtain ⟨hnd, hlt, hcl, _⟩ := id hC
            have hreachC := closedChain_reach hcl
            have hreach0 : ∀ u ∈ C, ∀ v ∈ C, Reach (noLoopRows m).row u v :=
              fun u hu v hv => Reach.mono e1.2 (hreachC u hu v hv)
            match C, hC, hnd, hlt, hcl, hreach0 with
            | [], _, _, _, hcl, _ => exact absurd hcl (by simp [IsClosedChain])
            | [v], _, _, _, hcl, _ =>
              have : isChain aEnd.row ([v] ++ [v]) = true := hcl
              have hv : v ∈ aEnd.row v := by simpa [isChain] using this
              exact hok.noloop v (e1.2 v v hv)
            | c0 :: c1 :: t, hC, hnd, hlt, _, hreach0 =>
              have hne : c0 ≠ c1 := by intro he; subst he; simp at hnd
              have l0 := hlt c0 (by simp)
              have l1 := hlt c1 (by simp)
              have heq : c.lab c0 = c.lab c1 :=
                (DirCtx.sameLabel_iff hok l0 l1).mpr ⟨hreach0 c0 (by simp) c1 (by simp), hreach0 c1 (by simp) c0 (by simp)⟩
              have hl0 : c0 < (ext.labelsNoLoop true).length := hlab.1 ▸ l0
              have hl1 : c1 < (ext.labelsNoLoop true).length := hlab.1 ▸ l1
              have hL : c.lab c0 ∈ ext.labelsNoLoop true := by
                simp [DirCtx.lab, c, List.getD_eq_getElem?_getD, hl0]
              have hcount : 1 < (ext.labelsNoLoop true).count (c.lab c0) := by
                rw [← argwhereEq_length]
                have h1 : c0 ∈ argwhereEq (ext.labelsNoLoop true) (c.lab c0) := mem_argwhereEq.mpr ⟨hl0, rfl⟩
                have h2 : c1 ∈ argwhereEq (ext.labelsNoLoop true) (c.lab c0) := mem_argwhereEq.mpr ⟨hl1, heq.symm⟩
                have := (nodup_sub_length (u := [c0, c1]) (by simp [hne]) (by
                  intro x hx
                  simp only [List.mem_cons, List.not_mem_nil, or_false] at hx
                  rcases hx with rfl | rfl
                  · exact h1
                  · exact h2)).1
                have h3 : ([c0, c1] : List Nat).length = 2 := rfl
                omega
              have hLin : c.lab c0 ∈ (npUnique (ext.labelsNoLoop true)).filter
                  fun v => (ext.labelsNoLoop true).count v > 1 :=
                List.mem_filter.mpr ⟨mem_npUnique.mpr hL, by simpa using hcount⟩
              exact e3 _ hLin _ hC ⟨c0, by simp, rfl⟩
          · -- reachability from the roots
            intro v ⟨r, hr, hrv⟩
            have hrn := checkRoot_ok hroot r hr
            exact e2 v ⟨r, hr, (reach_noLoop_iff m hwf hrn v).mp hrv⟩


example : breakCycles { nCC := fun _ => 1, labelsNoLoop := fun _ => [0, 0, 0], setOrder := fun l => sortNat l.eraseDups }
    threeCycle (some [0]) (some true) = .ok (.rows [[1], [2], []]) := by rfl
example : IsLabelling 3 (noLoopRows threeCycle).row true [0, 0, 0] :=
  contract_line_certifies 3 _ (by decide) true _ (by decide)
example : distancesFrom threeCycle (noLoopRows threeCycle) [0] = .ok (some [0, 1, 2]) := by rfl
example : IsHopDist (noLoopRows threeCycle) 3 [0] [0, 1, 2] := by
  have e01 : (1 : Nat) ∈ (noLoopRows threeCycle).row 0 := by decide
  have e12 : (2 : Nat) ∈ (noLoopRows threeCycle).row 1 := by decide
  refine ⟨fun v hv => ?_, fun v hv h0 => ?_, fun v hv hp => ?_⟩
  · match v, hv with
    | 0, _ => exact ⟨fun _ => ⟨0, by simp, Reach.refl _⟩, fun _ => by decide⟩
    | 1, _ => exact ⟨fun _ => ⟨0, by simp, Reach.edge e01⟩, fun _ => by decide⟩
    | 2, _ => exact ⟨fun _ => ⟨0, by simp, (Reach.edge e01).trans (Reach.edge e12)⟩, fun _ => by decide⟩
  · match v, hv, h0 with
    | 0, _, _ => simp
    | 1, _, h0 => exact absurd h0 (by decide)
    | 2, _, h0 => exact absurd h0 (by decide)
  · match v, hv, hp with
    | 0, _, hp => exact absurd hp (by decide)
    | 1, _, _ => exact ⟨0, e01, by decide⟩
    | 2, _, _ => exact ⟨1, e12, by decide⟩

/-- ★ `breakCycles_directed` with the distances discharged by property C10 (`getDistances_plain_exact`: the model of
    `get_distances` returns exact hop distances for in-range sources): only scipy's contract and the set order remain
    as hypotheses. -/
theorem breakCycles_directed_c10 (fuel : Nat) (ext : BreakExt) (m : Mat) (rootl : List Nat)
    (directed : Option Bool) (a : Rows)
    (hc : m.Canon) (hsq : m.nRow = m.nCol)
    (hd : resolveDirected m directed = .ok true)
    (hlab : IsLabelling m.nRow (noLoopRows m).row true (ext.labelsNoLoop true))
    (hset1 : ∀ l x, x ∈ ext.setOrder l → x ∈ l) (hset2 : ∀ l x, x ∈ l → x ∈ ext.setOrder l)
    (h : breakCyclesWith fuel ext m (some rootl) directed = .ok (.rows a)) :
    ¬ HasCycle m.nRow a.row ∧
    ∀ v, (∃ r ∈ rootl, Reach m.adj r v) → ∃ r ∈ rootl, Reach a.row r v := by
  have hwf := Canon.wf hc hsq
  have hwf0 : ∀ u v, v ∈ (noLoopRows m).row u → v < m.nRow := by
    intro u v hv
    obtain ⟨hu, hmem, _⟩ := (mem_noLoopRows m u v).mp hv
    exact hwf u hu v hmem
  -- the roots passed the out-degree test: they are nodes
  have hroot : ∀ r ∈ rootl, r < m.nRow := by
    unfold breakCyclesWith at h
    split at h
    · cases h
    · cases h
    · simp only at h
      split at h
      · cases h
      · rename_i hr; exact checkRoot_ok hr
  obtain ⟨d0, hd0, hD⟩ := distancesFrom_isHopDist m hwf0 rootl hroot
  refine breakCycles_directed fuel ext m rootl directed a hc hsq hd hlab hset1 hset2 ?_ h
  intro d hdd
  rw [hd0] at hdd
  cases hdd
  exact hD

/-- the hypotheses on the set order are met by the order the driver uses (CPython's increasing order of small node
    numbers, `sortNat l.eraseDups`) -/
example : (∀ l x, x ∈ (fun l => sortNat (List.eraseDups l)) l → x ∈ l) ∧
    (∀ l x, x ∈ l → x ∈ (fun l => sortNat (List.eraseDups l)) l) ∧
    (∀ l : List Nat, ((fun l => sortNat (List.eraseDups l)) l).length ≤ l.length) := driverSetOrder_ok

/-- `breakCycles_terminates`: the fuel `breakFuel m` that `breakCycles` hands to its traversals always suffices
    (the loop of `get_distances` itself ends by property C10, `SkNet.C10.getDistances_plain_exact`; the set order must
    not invent or repeat members): `break_cycles` never answers "out of fuel". -/
theorem breakCycles_terminates (ext : BreakExt) (m : Mat) (root : Option (List Nat)) (directed : Option Bool)
    (hc : m.Canon) (hsq : m.nRow = m.nCol)
    (hset1 : ∀ l x, x ∈ ext.setOrder l → x ∈ l) (hset3 : ∀ l, (ext.setOrder l).length ≤ l.length)
    (hlen : ∀ d, (ext.labelsNoLoop d).length = m.nRow) :
    breakCycles ext m root directed ≠ .ok .fuel := by
  have hwf := Canon.wf hc hsq
  obtain ⟨hb1, hb2⟩ := noLoopRows_bounds m hwf
  have hfuel : breakFuel m = (maxOf ((List.range m.nRow).map fun i => (m.adj i).length) + m.nRow + 2) ^ (m.nRow + 1) := rfl
  unfold breakCycles breakCyclesWith
  split
  · simp
  · simp
  · split
    · simp
    · rename_i rootl
      split
      · simp
      · rename_i hroot
        split
        · simp
        · -- directed
          have hguard : (m.nRow != m.nCol) = false := by simp [hsq]
          unfold breakDirected
          simp only [hguard, Bool.false_eq_true, ↓reduceIte]
          obtain ⟨d0, hd0, _⟩ := distancesFrom_isHopDist m hb1 rootl (checkRoot_ok hroot)
          split
          · simp
          · rename_i hnone; rw [hd0] at hnone; cases hnone
          · rename_i d _
            have := breakLabels_terminates (n := m.nRow) ext.setOrder hset1 hset3 (ext.labelsNoLoop true) (hlen true) d
              (maxOf ((List.range m.nRow).map fun i => (m.adj i).length) + m.nRow) (Nat.le_add_left _ _)
              ((npUnique (ext.labelsNoLoop true)).filter fun v => (ext.labelsNoLoop true).count v > 1)
              (noLoopRows m) hb1 hb2
            rw [hfuel]
            split
            · rename_i hn; exact absurd hn this
            · simp
        · -- undirected
          unfold breakUndirected
          simp only
          have hstarts : ∀ s ∈ rootl ++ firstNodes (ext.labelsNoLoop false), s < m.nRow := by
            intro s hs
            rcases List.mem_append.mp hs with h | h
            · exact checkRoot_ok hroot s h
            · obtain ⟨l, hl, rfl⟩ := List.mem_map.mp h
              rw [← hlen false]
              exact List.idxOf_lt_length_iff.mpr (mem_npUnique.mp hl)
          have := breakStarts_terminates (n := m.nRow)
            (maxOf ((List.range m.nRow).map fun i => (m.adj i).length) + m.nRow) _ hstarts (noLoopRows m) hb1 hb2
          rw [hfuel]
          split
          · rename_i hn; exact absurd hn this
          · simp

/-! ### several roots: reachability is kept from the root *set*, not from each root -/

example : twoCycle.Canon := twoCycle_canon

/-- The stronger, per-root reading of "keeps every node reachable from the root reachable": every node that *a given*
    root of the list reaches is still reached by *that* root. -/
def breakCycles_reach_per_root_full : Prop :=
  ∀ (fuel : Nat) (ext : BreakExt) (m : Mat) (rootl : List Nat) (directed : Option Bool) (a : Rows),
    m.Canon → m.nRow = m.nCol → resolveDirected m directed = .ok true →
    IsLabelling m.nRow (noLoopRows m).row true (ext.labelsNoLoop true) →
    (∀ l x, x ∈ ext.setOrder l → x ∈ l) → (∀ l x, x ∈ l → x ∈ ext.setOrder l) →
    breakCyclesWith fuel ext m (some rootl) directed = .ok (.rows a) →
    ∀ r ∈ rootl, ∀ v, Reach m.adj r v → Reach a.row r v

/-- The per-root reading is false on the code as it is (and the property text speaks of "the root"): on the 2-cycle
    0 ⇄ 1 with roots [0, 1] both nodes are sub-roots, the traversal from 1 removes 0 → 1 and only 1 → 0 is kept: node 1
    is no longer reachable from root 0 — it is reachable from the root set, which is what `breakCycles_directed`
    proves. Replayed on the implementation: `break_cycles(csr([[0,1],[1,0]]), [0, 1], True)` returns `[[0,0],[1,0]]`
    (case `union` / degenerate stream of the harness, judged by the root-set reading of `c12.spec_break`). -/
theorem breakCycles_reach_per_root_false : ¬ breakCycles_reach_per_root_full := by
  intro hfull
  have hrun : breakCyclesWith 100 { nCC := fun _ => 1, labelsNoLoop := fun _ => [0, 0], setOrder := id }
      twoCycle (some [0, 1]) (some true) = .ok (.rows [[], [0]]) := by rfl
  have hlab : IsLabelling twoCycle.nRow (noLoopRows twoCycle).row true [0, 0] :=
    contract_line_certifies 2 _ (by decide) true _ (by decide)
  have := hfull 100 { nCC := fun _ => 1, labelsNoLoop := fun _ => [0, 0], setOrder := id } twoCycle [0, 1] (some true)
    [[], [0]] twoCycle_canon rfl rfl hlab (fun _ _ h => h) (fun _ _ h => h) hrun 0 (by simp) 1
    (Reach.edge (by decide))
  -- nothing leaves node 0 in the result
  have hstuck : ∀ v, Reach (Rows.row [[], [0]]) 0 v → v = 0 := by
    intro v hr
    induction hr with
    | refl => rfl
    | tail _ he ih =>
      subst ih
      simp [Rows.row] at he
  exact absurd (hstuck 1 this) (by decide)

/-! ### the input domain is inhabited: the example matrices meet `Canon` / `NonNeg` -/

example : twoCycle.NonNeg := by
  intro i j; show (0 : Rat) ≤ if _ then 1 else 0; split <;> decide

example : threeCycle.Canon := threeCycle_canon

example : threeCycle.NonNeg := by
  intro i j; show (0 : Rat) ≤ if _ then 1 else 0; split <;> decide

example : resolveDirected threeCycle (some true) = .ok true := rfl

/-- a triangle next to the root's component (the witness of finding F-C12-components): with the repaired code the
    model breaks it too -/
def triangleAndEdge : Mat :=
  ⟨5, 5, fun i => if i = 0 then [1, 2] else if i = 1 then [0, 2] else if i = 2 then [0, 1] else if i = 3 then [4] else [3],
    fun i j => if (i < 3 ∧ j < 3 ∧ i ≠ j) ∨ (i = 3 ∧ j = 4) ∨ (i = 4 ∧ j = 3) then 1 else 0⟩

example : breakCycles { nCC := fun _ => 2, labelsNoLoop := fun _ => [0, 0, 0, 1, 1], setOrder := fun l => sortNat l.eraseDups }
    triangleAndEdge (some [3]) none = .ok (.rows [[2], [2], [0, 1], [4], [3]]) := by rfl
example : IsLabelling 5 (noLoopRows triangleAndEdge).row false [0, 0, 0, 1, 1] :=
  contract_line_certifies 5 _ (by decide) false _ (by decide)

end SkNet.C12
