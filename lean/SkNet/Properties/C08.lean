/-
C08 — cuts, aggregation and quality scores agree with the tree they are given.

Theorems about the models `SkNet.Cut.*` / `SkNet.HMetrics.*`, which mirror sknetwork/hierarchy/postprocess.py and
metrics.py and are tied to the code on every run by tools/harness/c08.py.
`n = D.length + 1` is the number of leaves, `leaves n D x` the leaf list of node `x` (`Model/Dendro.lean`).
-/
import SkNet.Lemmas.Labels
import SkNet.Lemmas.Sort
import SkNet.Lemmas.CutExact
import SkNet.Lemmas.Aggregate
import SkNet.Lemmas.Reorder
import SkNet.Lemmas.MergeW
import SkNet.Lemmas.DasguptaInit
import SkNet.Lemmas.DasguptaDef
import SkNet.Lemmas.DasguptaRelabel
import SkNet.Lemmas.Reduce
import SkNet.Lemmas.TsdModel
import SkNet.Lemmas.HtOrder

namespace SkNet.C08
open SkNet SkNet.Dendro SkNet.Cut

variable {α : Type}

/-- What a cut returns, as the statement of C08 puts it: `cl` lists the clusters in label order;
    they partition the leaves, each is non-empty and is exactly the leaf list of one node of the tree,
    node `v` carries the label `p` of the cluster that contains it (so labels are `0 … k-1`), and
    sizes do not increase with the label when `sort_clusters`. -/
structure SubtreeLabelling (n : Nat) (D : Dendro α) (labels : List Nat) (sorted : Bool)
    (cl : List (List Nat)) : Prop where
  partition : cl.flatten.Perm (List.range n)
  subtree : ∀ c ∈ cl, c ≠ [] ∧ ∃ x, x < n + D.length ∧ c = leaves n D x
  length : labels.length = n
  label : ∀ p c, cl[p]? = some c → ∀ v ∈ c, labels.getD v 0 = p
  sorted : sorted = true → cl.Pairwise (fun a b => b.length ≤ a.length)

/-- every leaf has a label below the number of clusters, and the class of label `p` is exactly cluster `p` -/
theorem SubtreeLabelling.label_class {n : Nat} {D : Dendro α} {labels : List Nat} {s : Bool}
    {cl : List (List Nat)} (h : SubtreeLabelling n D labels s cl) {v : Nat} (hv : v < n) :
    labels.getD v 0 < cl.length ∧ ∀ p c, cl[p]? = some c → (labels.getD v 0 = p ↔ v ∈ c) := by
  have hmem : v ∈ cl.flatten := h.partition.mem_iff.mpr (List.mem_range.mpr hv)
  obtain ⟨c0, hc0, hvc0⟩ := List.mem_flatten.mp hmem
  obtain ⟨q, hq, hqe⟩ := List.getElem_of_mem hc0
  have hq' : cl[q]? = some c0 := by rw [List.getElem?_eq_getElem hq, hqe]
  have hlab := h.label q c0 hq' v hvc0
  refine ⟨by omega, ?_⟩
  intro p c hp
  constructor
  · intro e
    have : q = p := by omega
    subst this
    rw [hq'] at hp; cases hp; exact hvc0
  · intro hvc; exact h.label p c hp v hvc

theorem getLabels_ok_labels {D : Dendro α} {st : Dict (List Nat)} {srt retD : Bool}
    {argsort : List Nat → List Nat} {out : CutOut α} (h : getLabels D st srt retD argsort = .ok out) :
    assignAll 0 (orderedClusters st srt argsort) (List.replicate (D.length + 1) 0) = .ok out.labels := by
  unfold getLabels at h
  simp only [bind, Except.bind] at h
  split at h
  · cases h
  · rename_i labels hl
    rw [hl]
    cases retD with
    | false => simp only [Bool.false_eq_true, if_false, pure, Except.pure, Except.ok.injEq] at h; rw [← h]
    | true =>
      simp only [if_true] at h
      split at h
      · cases h
      · simp only [pure, Except.pure, Except.ok.injEq] at h; rw [← h]

/-- `get_labels` on a cluster dict that satisfies the loop invariant returns a subtree labelling. -/
theorem getLabels_subtrees {D : Dendro α} {st : Dict (List Nat)} {srt retD : Bool}
    {argsort : List Nat → List Nat} (hs : SortsDesc argsort) {out : CutOut α}
    (hinv : CInv (D.length + 1) D st) (hne : ∀ p ∈ st, p.2 ≠ [])
    (h : getLabels D st srt retD argsort = .ok out) :
    SubtreeLabelling (D.length + 1) D out.labels srt (orderedClusters st srt argsort) ∧
      (orderedClusters st srt argsort).Perm st.values := by
  have hperm := orderedClusters_perm hs st srt
  have hflat : (orderedClusters st srt argsort).flatten.Perm (List.range (D.length + 1)) :=
    (List.Perm.flatten hperm).trans hinv.perm
  have hlab := getLabels_ok_labels h
  obtain ⟨l', h1, h2, h3, _⟩ := assignAll_spec (orderedClusters st srt argsort) 0
    (List.replicate (D.length + 1) 0)
    (by
      intro c hc v hv
      have : v ∈ (orderedClusters st srt argsort).flatten := List.mem_flatten.mpr ⟨c, hc, hv⟩
      simpa using hflat.mem_iff.mp this)
    (hflat.nodup_iff.mpr List.nodup_range)
  rw [hlab] at h1
  cases h1
  refine ⟨⟨hflat, ?_, by simpa using h2, ?_, ?_⟩, hperm⟩
  · intro c hc
    have hc' : c ∈ st.values := hperm.mem_iff.mp hc
    obtain ⟨p, hp, rfl⟩ := List.mem_map.mp hc'
    refine ⟨hne p hp, p.1, ?_, hinv.leaves p hp⟩
    exact hinv.bound _ (List.mem_map.mpr ⟨p, hp, rfl⟩)
  · intro p c hp v hv
    simpa using h3 p c hp v hv
  · intro e; subst e; exact orderedClusters_sorted hs st

theorem initCluster_nonempty (n : Nat) : ∀ p ∈ initCluster n, p.2 ≠ [] := by
  intro p hp
  simp only [initCluster, List.mem_map] at hp
  obtain ⟨i, _, rfl⟩ := hp
  simp

/-- the merge loop started on the singletons ends in a dict satisfying the invariant, with non-empty clusters -/
theorem mergeLoop_final {n : Nat} {ok : Row α → List Nat → List Nat → Bool} {D : Dendro α}
    {st : Dict (List Nat)} (h : mergeLoop n ok 0 D (initCluster n) = .ok st) :
    CInv n D st ∧ ∀ p ∈ st, p.2 ≠ [] := by
  constructor
  · have := mergeLoop_cinv n ok D [] (initCluster n) st h (cinv_init n)
    simpa using this
  · exact mergeLoop_all n ok (· ≠ []) (by intro r ci cj _ h1 _; simp [h1]) D 0 _ st h (initCluster_nonempty n)

/-! ### the reduced dendrogram (`return_dendrogram=True`) -/

/-- **The dendrogram returned by a cut with `return_dendrogram=True` is valid** (`reducedDendro_valid`), on the model
    of the second half of `get_labels`: for a valid dendrogram `D` and a cluster dict satisfying the invariant of
    the merge loop (what `cut_straight` / `cut_balanced` pass, `mergeLoop_final`), whenever `get_labels` returns,
    the dendrogram `R` it returns is a valid dendrogram over the `k` clusters taken as leaves weighted by their
    sizes (row `t` merges two distinct live clusters, sizes add, `k - 1` rows), its heights are heights of `D` in
    the same order, the cluster sizes sum to `n`, and **every row is a merge of the given tree**: row `u` of `R` has
    the height of a row `t` of `D`, and the nodes below merge `t` are exactly the nodes whose label is a leaf of
    the reduced node `k + u`. The loop itself never fails on such inputs (`SkNet.Cut.reduce_final`). -/
theorem reducedDendro_valid {D : Dendro α} {st : Dict (List Nat)} {srt : Bool} {argsort : List Nat → List Nat}
    (hs : SortsDesc argsort) (hv : ValidDendro (D.length + 1) D = true) (hinv : CInv (D.length + 1) D st)
    (hne : ∀ p ∈ st, p.2 ≠ []) {out : CutOut α} (h : getLabels D st srt true argsort = .ok out) :
    ∃ R, out.dendro = some R ∧
      ValidDendroW ((orderedClusters st srt argsort).map List.length) R = true ∧
      (R.map (fun (q : Row α) => q.h)).Sublist (D.map (fun (q : Row α) => q.h)) ∧
      ((orderedClusters st srt argsort).map List.length).sum = D.length + 1 ∧
      (∀ (u : Nat) (ru : Row α), R[u]? = some ru → ∃ (t : Nat) (rt : Row α), D[t]? = some rt ∧ ru.h = rt.h ∧
        ∀ v, v < D.length + 1 → (v ∈ leaves (D.length + 1) D (D.length + 1 + t) ↔
          out.labels.getD v 0 ∈ leaves (orderedClusters st srt argsort).length R
            ((orderedClusters st srt argsort).length + u))) := by
  obtain ⟨hsl, _⟩ := getLabels_subtrees hs hinv hne h
  have hsum : ((orderedClusters st srt argsort).map List.length).sum = D.length + 1 := by
    rw [← List.length_flatten, hsl.partition.length_eq, List.length_range]
  have hlab : ∀ u, u < D.length + 1 → out.labels.getD u 0 < (orderedClusters st srt argsort).length :=
    fun u hu => (hsl.label_class hu).1
  have hcl : ∀ c, c < (orderedClusters st srt argsort).length →
      ∃ cc, (orderedClusters st srt argsort)[c]? = some cc ∧ cc ∈ orderedClusters st srt argsort := by
    intro c hc
    exact ⟨_, List.getElem?_eq_getElem hc, List.getElem_mem hc⟩
  have hnonempty : ∀ c, c < (orderedClusters st srt argsort).length →
      ∃ u, u < D.length + 1 ∧ out.labels.getD u 0 = c := by
    intro c hc
    obtain ⟨cc, hcc, hmem⟩ := hcl c hc
    obtain ⟨u, hu⟩ := List.exists_mem_of_ne_nil _ (hsl.subtree cc hmem).1
    have : u ∈ (orderedClusters st srt argsort).flatten := List.mem_flatten.mpr ⟨cc, hmem, hu⟩
    have hun : u < D.length + 1 := by simpa using hsl.partition.mem_iff.mp this
    exact ⟨u, hun, hsl.label c cc hcc u hu⟩
  have hcls : ∀ c, c < (orderedClusters st srt argsort).length → ∃ ρ, ρ < D.length + 1 + D.length ∧
      ∀ u, u < D.length + 1 → (out.labels.getD u 0 = c ↔ u ∈ leaves (D.length + 1) D ρ) := by
    intro c hc
    obtain ⟨cc, hcc, hmem⟩ := hcl c hc
    obtain ⟨_, x, hx, hxe⟩ := hsl.subtree cc hmem
    refine ⟨x, hx, ?_⟩
    intro u hu
    rw [← hxe]
    exact (hsl.label_class hu).2 c cc hcc
  have hR0 := rinv_init (α := α) (n := D.length + 1) (lab := fun u => out.labels.getD u 0) rfl hlab hnonempty
  obtain ⟨st', hrun, hvalid, hheights, htie⟩ := reduce_final (List.length_map _) D hv hcls hlab hR0
  have hlen := hsl.length
  unfold getLabels at h
  simp only [bind, Except.bind] at h
  split at h
  · cases h
  · rename_i labels hl
    simp only [if_true] at h
    split at h
    · cases h
    · rename_i stR hred
      simp only [pure, Except.pure, Except.ok.injEq] at h
      subst h
      simp only at hlen hrun
      rw [hlen] at hred
      rw [hrun] at hred
      cases hred
      exact ⟨st'.rows, rfl, hvalid, hheights, hsum, htie⟩

/-! ### the functions return -/

/-- the merge loop fails only on a row whose two children coincide -/
theorem mergeLoop_returns (n : Nat) (ok : Row α → List Nat → List Nat → Bool) :
    ∀ (rows : List (Row α)) (t : Nat) (st : Dict (List Nat)), (∀ r ∈ rows, r.i ≠ r.j) →
      ∃ st', mergeLoop n ok t rows st = .ok st' := by
  intro rows
  induction rows with
  | nil => intro t st _; exact ⟨st, rfl⟩
  | cons r rs ih =>
    intro t st hne
    have hr := hne r List.mem_cons_self
    have hrs : ∀ r' ∈ rs, r'.i ≠ r'.j := fun r' h' => hne r' (List.mem_cons_of_mem _ h')
    unfold mergeLoop
    cases st.get? r.i with
    | none => exact ih _ _ hrs
    | some ci =>
      cases st.get? r.j with
      | none => exact ih _ _ hrs
      | some cj =>
        simp only
        by_cases hok : ok r ci cj = true
        · rw [if_pos hok, if_neg hr]; exact ih _ _ hrs
        · rw [if_neg hok]; exact ih _ _ hrs

theorem valid_rows_ne {n : Nat} {D : Dendro α} (hv : ValidDendro n D = true) : ∀ r ∈ D, r.i ≠ r.j := by
  intro r hr
  have hs := static_of_valid (w := List.replicate n 1) hv
  obtain ⟨t, ht, hte⟩ := List.getElem_of_mem hr
  exact (hs.bound t r (by rw [List.getElem?_eq_getElem ht, hte])).2.2

/-- `get_labels` returns on a valid dendrogram and the cluster dict of a merge loop (with or without the reduced
    dendrogram) -/
theorem getLabels_returns {D : Dendro α} {st : Dict (List Nat)} (srt retD : Bool) {argsort : List Nat → List Nat}
    (hs : SortsDesc argsort) (hv : ValidDendro (D.length + 1) D = true) (hinv : CInv (D.length + 1) D st)
    (hne : ∀ p ∈ st, p.2 ≠ []) : ∃ out, getLabels D st srt retD argsort = .ok out := by
  have hperm := orderedClusters_perm hs st srt
  have hflat : (orderedClusters st srt argsort).flatten.Perm (List.range (D.length + 1)) :=
    (List.Perm.flatten hperm).trans hinv.perm
  obtain ⟨l', h1, h2, _, _⟩ := assignAll_spec (orderedClusters st srt argsort) 0
    (List.replicate (D.length + 1) 0)
    (by
      intro c hc v hv'
      have : v ∈ (orderedClusters st srt argsort).flatten := List.mem_flatten.mpr ⟨c, hc, hv'⟩
      simpa using hflat.mem_iff.mp this)
    (hflat.nodup_iff.mpr List.nodup_range)
  have hfalse : getLabels D st srt false argsort = .ok { labels := l', dendro := none } := by
    unfold getLabels
    simp only [bind, Except.bind, h1, Bool.false_eq_true, if_false, pure, Except.pure]
  cases retD with
  | false => exact ⟨_, hfalse⟩
  | true =>
    obtain ⟨hsl, _⟩ := getLabels_subtrees hs hinv hne hfalse
    simp only at hsl
    have hlab : ∀ u, u < D.length + 1 → l'.getD u 0 < (orderedClusters st srt argsort).length :=
      fun u hu => (hsl.label_class hu).1
    have hcl : ∀ c, c < (orderedClusters st srt argsort).length →
        ∃ cc, (orderedClusters st srt argsort)[c]? = some cc ∧ cc ∈ orderedClusters st srt argsort := by
      intro c hc
      exact ⟨_, List.getElem?_eq_getElem hc, List.getElem_mem hc⟩
    have hnonempty : ∀ c, c < (orderedClusters st srt argsort).length →
        ∃ u, u < D.length + 1 ∧ l'.getD u 0 = c := by
      intro c hc
      obtain ⟨cc, hcc, hmem⟩ := hcl c hc
      obtain ⟨u, hu⟩ := List.exists_mem_of_ne_nil _ (hsl.subtree cc hmem).1
      have : u ∈ (orderedClusters st srt argsort).flatten := List.mem_flatten.mpr ⟨cc, hmem, hu⟩
      have hun : u < D.length + 1 := by simpa using hsl.partition.mem_iff.mp this
      exact ⟨u, hun, hsl.label c cc hcc u hu⟩
    have hcls : ∀ c, c < (orderedClusters st srt argsort).length → ∃ ρ, ρ < D.length + 1 + D.length ∧
        ∀ u, u < D.length + 1 → (l'.getD u 0 = c ↔ u ∈ leaves (D.length + 1) D ρ) := by
      intro c hc
      obtain ⟨cc, hcc, hmem⟩ := hcl c hc
      obtain ⟨_, x, hx, hxe⟩ := hsl.subtree cc hmem
      refine ⟨x, hx, ?_⟩
      intro u hu
      rw [← hxe]
      exact (hsl.label_class hu).2 c cc hcc
    have hR0 := rinv_init (α := α) (n := D.length + 1) (lab := fun u => l'.getD u 0) rfl hlab hnonempty
    obtain ⟨st', hrun, _, _⟩ := reduce_final (List.length_map _) D hv hcls hlab hR0
    have hlen : l'.length = D.length + 1 := by simpa using h2
    refine ⟨{ labels := l', dendro := some st'.rows }, ?_⟩
    unfold getLabels
    simp only [bind, Except.bind, h1, if_true, hlen, hrun, pure, Except.pure]

/-- **cut_balanced returns** for every valid dendrogram over `n` leaves and `2 ≤ max_cluster_size ≤ n`, with or
    without the reduced dendrogram -/
theorem cutBalanced_returns {D : Dendro α} {m : Nat} (srt retD : Bool) {argsort : List Nat → List Nat}
    (hs : SortsDesc argsort) (hv : ValidDendro (D.length + 1) D = true) (hm1 : 2 ≤ m) (hm2 : m ≤ D.length + 1) :
    ∃ out, cutBalanced D m srt retD argsort = .ok out := by
  obtain ⟨st, hst⟩ := mergeLoop_returns (D.length + 1) (fun _ ci cj => decide (ci.length + cj.length ≤ m)) D 0
    (initCluster (D.length + 1)) (valid_rows_ne hv)
  obtain ⟨hinv, hne⟩ := mergeLoop_final hst
  obtain ⟨out, hout⟩ := getLabels_returns srt retD hs hv hinv hne
  refine ⟨out, ?_⟩
  unfold cutBalanced
  have e : (decide (m < 2) || decide (m > D.length + 1)) = false := by
    simp only [Bool.or_eq_false_iff, decide_eq_false_iff_not]; omega
  simp only [bind, Except.bind, e, Bool.false_eq_true, if_false, hst, hout]

/-! ### cut_balanced -/

theorem cutBalanced_unfold {D : Dendro α} {m : Nat} {srt retD : Bool} {argsort : List Nat → List Nat}
    {out : CutOut α} (h : cutBalanced D m srt retD argsort = .ok out) :
    2 ≤ m ∧ m ≤ D.length + 1 ∧ ∃ st,
      mergeLoop (D.length + 1) (fun _ ci cj => decide (ci.length + cj.length ≤ m)) 0 D
        (initCluster (D.length + 1)) = .ok st ∧
      getLabels D st srt retD argsort = .ok out := by
  unfold cutBalanced at h
  simp only [bind, Except.bind, throw, throwThe, MonadExceptOf.throw] at h
  split at h
  · cases h
  · rename_i hm
    simp only [Bool.or_eq_true, decide_eq_true_eq, not_or, Nat.not_lt] at hm
    split at h
    · cases h
    · rename_i st hst
      exact ⟨hm.1, hm.2, st, hst, h⟩

/-- **cut_balanced**: every cluster is exactly the leaf set of one subtree, the clusters partition the leaves,
    labels are `0 … k-1` (by non-increasing size when `sort_clusters`), and no cluster is larger than
    `max_cluster_size`.  For every dendrogram on which the function returns (it raises only for
    `max_cluster_size` outside `2 … n`, or on a row whose two children coincide). -/
theorem cutBalanced_subtrees_cap {D : Dendro α} {m : Nat} {srt retD : Bool} {argsort : List Nat → List Nat}
    (hs : SortsDesc argsort) {out : CutOut α} (h : cutBalanced D m srt retD argsort = .ok out) :
    ∃ cl, SubtreeLabelling (D.length + 1) D out.labels srt cl ∧ ∀ c ∈ cl, c.length ≤ m := by
  obtain ⟨hm1, _, st, hloop, hlab⟩ := cutBalanced_unfold h
  obtain ⟨hinv, hne⟩ := mergeLoop_final hloop
  obtain ⟨hsub, hperm⟩ := getLabels_subtrees hs hinv hne hlab
  refine ⟨_, hsub, ?_⟩
  intro c hc
  have hc' : c ∈ st.values := hperm.mem_iff.mp hc
  obtain ⟨p, hp, rfl⟩ := List.mem_map.mp hc'
  refine mergeLoop_all (D.length + 1) _ (fun c => c.length ≤ m) ?_ D 0 _ st hloop ?_ p hp
  · intro r ci cj hok _ _
    simpa using hok
  · intro p hp
    simp only [initCluster, List.mem_map] at hp
    obtain ⟨i, _, rfl⟩ := hp
    simp; omega

/-- non-vacuity: a 4-leaf dendrogram cut with `max_cluster_size = 2` -/
example : (cutBalanced (α := Nat) [⟨0, 1, 1, 2⟩, ⟨2, 3, 2, 2⟩, ⟨4, 5, 3, 4⟩] 2 true false argsortDesc).toOption.map (·.labels)
    = some [0, 0, 1, 1] := by decide


/-! ### cut_straight -/

section straight
variable [LinearOrder α]

omit [LinearOrder α] in
/-- the test of the repaired `cut_straight` is the predicate of the specification -/
theorem noInversion_eq [LT α] [DecidableLT α] (n : Nat) (D : Dendro α) : noInversion n D = MonoPaths n D := rfl

/-- the dendrogram that is cut is the given one, or its reordering — taken only when no merge is lower than a merge
    it contains -/
theorem cutInput_cases {D0 D : Dendro α} {retD : Bool} (h : cutInput D0 retD = .ok D) :
    D = D0 ∨ (MonoPaths (D0.length + 1) D0 = true ∧ reorderDendrogram D0 = .ok D) := by
  unfold cutInput at h
  split at h
  · split at h
    · rename_i hm
      exact Or.inr ⟨by rw [← noInversion_eq]; exact hm, h⟩
    · simp only [pure, Except.pure, Except.ok.injEq] at h; exact Or.inl h.symm
  · simp only [pure, Except.pure, Except.ok.injEq] at h; exact Or.inl h.symm

theorem cutStraight_unfold {D0 : Dendro α} {nc : Option Nat} {thr : Option α} {srt retD : Bool}
    {argsort : List Nat → List Nat} {out : CutOut α}
    (h : cutStraight D0 nc thr srt retD argsort = .ok out) :
    ∃ D k cut st,
      (D = D0 ∨ (MonoPaths (D0.length + 1) D0 = true ∧ reorderDendrogram D0 = .ok D)) ∧
      effectiveK (D0.length + 1) nc thr = .ok k ∧
      cutHeight D (D0.length + 1) k thr = .ok cut ∧
      mergeLoop (D0.length + 1) (fun r _ _ => belowCut cut r) 0 D (initCluster (D0.length + 1)) = .ok st ∧
      getLabels D st srt retD argsort = .ok out := by
  unfold cutStraight at h
  obtain ⟨D, hD, h⟩ := bind_ok h
  obtain ⟨k, hk, h⟩ := bind_ok h
  obtain ⟨cut, hcut, h⟩ := bind_ok h
  obtain ⟨st, hst, h⟩ := bind_ok h
  exact ⟨D, k, cut, st, cutInput_cases hD, hk, hcut, hst, h⟩

omit [LinearOrder α] in
theorem effectiveK_spec {n : Nat} {nc : Option Nat} {thr : Option α} {k : Nat}
    (h : effectiveK n nc thr = .ok k) :
    (thr = none → k = nc.getD 2) ∧ (nc ≠ none → 1 ≤ k ∧ k ≤ n) := by
  unfold effectiveK at h
  cases nc with
  | none =>
    simp only [pure, Except.pure, Except.ok.injEq] at h
    refine ⟨fun e => by subst e; simpa using h.symm, fun e => absurd rfl e⟩
  | some k' =>
    obtain ⟨u, hu, h⟩ := bind_ok h
    simp only [pure, Except.pure, Except.ok.injEq] at h
    subst h
    unfold checkNClusters at hu
    split at hu
    · cases hu
    · split at hu
      · cases hu
      · exact ⟨fun _ => rfl, fun _ => by omega⟩

/-- **cut_straight**: every cluster is exactly the leaf set of one subtree of the dendrogram that is cut
    (the given one, or its reordering by height when `return_dendrogram` asks for it), the clusters partition
    the leaves, labels are `0 … k-1` (by non-increasing size when `sort_clusters`), and without a threshold
    there are **at least `n_clusters`** clusters (`n_clusters` defaults to 2).
    For every dendrogram on which the function returns. -/
theorem cutStraight_subtrees_count {D0 : Dendro α} {nc : Option Nat} {thr : Option α} {srt retD : Bool}
    {argsort : List Nat → List Nat} (hs : SortsDesc argsort) {out : CutOut α}
    (h : cutStraight D0 nc thr srt retD argsort = .ok out) :
    ∃ D, (D = D0 ∨ reorderDendrogram D0 = .ok D) ∧
      ∃ cl, SubtreeLabelling (D0.length + 1) D out.labels srt cl ∧ (thr = none → nc.getD 2 ≤ cl.length) := by
  obtain ⟨D, k, cut, st, hD0, hk, hcut, hloop, hlab⟩ := cutStraight_unfold h
  have hD : D = D0 ∨ reorderDendrogram D0 = .ok D := hD0.imp id And.right
  have hlen : D.length = D0.length := by
    rcases hD with e | e
    · rw [e]
    · exact reorderDendrogram_length e
  rw [← hlen] at hloop hcut hk
  obtain ⟨hinv, hne⟩ := mergeLoop_final hloop
  obtain ⟨hsub, hperm⟩ := getLabels_subtrees hs hinv hne hlab
  refine ⟨D, hD, _, by rw [← hlen]; exact hsub, ?_⟩
  intro hthr
  subst hthr
  have hcl : (orderedClusters st srt argsort).length = st.length := by
    rw [hperm.length_eq]; simp [Dict.values]
  rw [hcl]
  obtain ⟨hk1, hk2⟩ := effectiveK_spec hk
  rw [← hk1 rfl]
  -- the number of clusters lost is at most the number of rows below the cut
  have hlenloop := mergeLoop_length (D.length + 1) (fun r _ _ => belowCut cut r) (belowCut cut)
    (by intro r _ _ h; exact h) D [] (initCluster (D.length + 1)) st (by simpa using hloop) (cinv_init _)
  have hinit : (initCluster (D.length + 1)).length = D.length + 1 := by simp [initCluster]
  rw [hinit] at hlenloop
  by_cases hone : k > 1
  · simp only [cutHeight, hone, if_true] at hcut
    split at hcut
    · cases hcut
    · rename_i c hc
      simp only [Except.ok.injEq] at hcut
      subst hcut
      have hcount := countP_lt_sortH (D.map (·.h)) _ c hc
      rw [List.countP_map] at hcount
      have hkn : k ≤ D.length + 1 := by
        cases nc with
        | none =>
          -- default 2: the index exists, so there is at least one row
          have : (sortH (D.map (·.h))).length = D.length := by
            rw [(sortH_perm _).length_eq]; simp
          have hlt := (List.getElem?_eq_some_iff.mp hc).1
          have := hk1 rfl
          simp only [Option.getD_none] at this
          omega
        | some k' => exact (hk2 (by simp)).2
      have hcnt : D.countP (belowCut (some c)) ≤ D.length + 1 - k := by
        have : (belowCut (some c) : Row α → Bool) = ((fun x => decide (x < c)) ∘ fun r => r.h) := by
          funext r; rfl
        rw [this]; exact hcount
      omega
  · -- n_clusters = 1: at least one cluster since there is at least one leaf
    have : 0 < st.length := by
      have hp := hinv.perm.length_eq
      simp only [List.length_range] at hp
      rcases st with _ | ⟨p, r⟩
      · simp [Dict.values] at hp
      · simp
    omega

/-- non-vacuity: three clusters asked for, three returned (tied heights would return more) -/
example : (cutStraight (α := Nat) [⟨0, 1, 1, 2⟩, ⟨2, 3, 2, 2⟩, ⟨4, 5, 3, 4⟩] (some 3) none true false argsortDesc).toOption.map (·.labels)
    = some [0, 0, 1, 2] := by decide

example : (cutStraight (α := Nat) [⟨0, 1, 1, 2⟩, ⟨2, 3, 1, 2⟩, ⟨4, 5, 1, 4⟩] (some 2) none true false argsortDesc).toOption.map (·.labels)
    = some [0, 1, 2, 3] := by decide

/-- **cut_straight, exact clauses.**  Let `D` be the dendrogram that is cut.  If `D` is a valid dendrogram whose
    heights never decrease towards the root, then
    * every merge strictly below the cut height is applied: all the leaves below it receive one label — in
      particular every merge strictly below `threshold`, since the cut height is at least the threshold;
    * without a threshold and with pairwise distinct heights there are **exactly** `n_clusters` clusters. -/
theorem cutStraight_exact {D0 : Dendro α} {nc : Option Nat} {thr : Option α} {srt retD : Bool}
    {argsort : List Nat → List Nat} (hs : SortsDesc argsort) {out : CutOut α}
    (h : cutStraight D0 nc thr srt retD argsort = .ok out) :
    ∃ D, (D = D0 ∨ reorderDendrogram D0 = .ok D) ∧
      (ValidDendro (D0.length + 1) D = true → MonoPaths (D0.length + 1) D = true →
        ∃ cl, SubtreeLabelling (D0.length + 1) D out.labels srt cl ∧
          (∀ t r c, D[t]? = some r → thr = some c → r.h < c →
            ∀ v ∈ leaves (D0.length + 1) D (D0.length + 1 + t),
            ∀ w ∈ leaves (D0.length + 1) D (D0.length + 1 + t), out.labels.getD v 0 = out.labels.getD w 0) ∧
          (thr = none → DistinctHeights D = true → cl.length = nc.getD 2)) := by
  obtain ⟨D, k, cut, st, hD0, hk, hcut, hloop, hlab⟩ := cutStraight_unfold h
  have hD : D = D0 ∨ reorderDendrogram D0 = .ok D := hD0.imp id And.right
  have hlen : D.length = D0.length := by
    rcases hD with e | e
    · rw [e]
    · exact reorderDendrogram_length e
  refine ⟨D, hD, ?_⟩
  intro hv hm
  rw [← hlen] at hloop hcut hk hv hm ⊢
  obtain ⟨hinv, hne⟩ := mergeLoop_final hloop
  obtain ⟨hsub, hperm⟩ := getLabels_subtrees hs hinv hne hlab
  obtain ⟨hcount, happlied⟩ := mergeLoop_exact hv hm hloop
  have hcl : (orderedClusters st srt argsort).length = st.length := by
    rw [hperm.length_eq]; simp [Dict.values]
  refine ⟨_, hsub, ?_, ?_⟩
  · -- merges below the threshold
    intro t r c ht hthr hlt v hv' w hw'
    subst hthr
    -- the cut height is at least the threshold
    have hbelow : belowCut cut r = true := by
      unfold cutHeight at hcut
      split at hcut
      · split at hcut
        · cases hcut
        · rename_i c0 _
          simp only [Except.ok.injEq] at hcut
          subst hcut
          simp only [belowCut, decide_eq_true_eq]
          split
          · exact hlt
          · rename_i hge; exact lt_of_lt_of_le hlt (not_lt.mp hge)
      · simp only [Except.ok.injEq] at hcut; subst hcut; rfl
    obtain ⟨p, hp, hsup⟩ := happlied t r ht hbelow
    have hpc : p.2 ∈ orderedClusters st srt argsort :=
      hperm.mem_iff.mpr (List.mem_map.mpr ⟨p, hp, rfl⟩)
    obtain ⟨q, hq, hqe⟩ := List.getElem_of_mem hpc
    have hq' : (orderedClusters st srt argsort)[q]? = some p.2 := by
      rw [List.getElem?_eq_getElem hq, hqe]
    rw [hsub.label q p.2 hq' v (hsup v hv'), hsub.label q p.2 hq' w (hsup w hw')]
  · -- exact count
    intro hthr hdist
    subst hthr
    rw [hcl]
    obtain ⟨hk1, hk2⟩ := effectiveK_spec hk
    rw [← hk1 rfl]
    by_cases hone : k > 1
    · simp only [cutHeight, hone, if_true] at hcut
      split at hcut
      · cases hcut
      · rename_i c hc
        simp only [Except.ok.injEq] at hcut
        subst hcut
        have hcnt := countP_lt_sortH_nodup (D.map (·.h)) (nodup_of_distinctHeights hdist) _ c hc
        rw [List.countP_map] at hcnt
        have hlt := (List.getElem?_eq_some_iff.mp hc).1
        have hsl : (sortH (D.map (·.h))).length = D.length := by
          rw [(sortH_perm _).length_eq]; simp
        have hcnt' : D.countP (belowCut (some c)) = D.length + 1 - k := by
          have : (belowCut (some c) : Row α → Bool) = ((fun x => decide (x < c)) ∘ fun r => r.h) := by
            funext r; rfl
          rw [this]; exact hcnt
        have hkn : k ≤ D.length + 1 := by
          cases nc with
          | none => have := hk1 rfl; simp only [Option.getD_none] at this; omega
          | some k' => exact (hk2 (by simp)).2
        omega
    · -- a single cluster: every row is applied
      have hk1' : k = 1 := by
        cases nc with
        | none => have := hk1 rfl; simp at this; omega
        | some k' => have := (hk2 (by simp)).1; omega
      simp only [cutHeight, hone, if_false, Except.ok.injEq] at hcut
      subst hcut
      have : D.countP (belowCut (none : Option α)) = D.length := by
        rw [List.countP_eq_length]; intro a _; rfl
      omega

/-- non-vacuity of the hypotheses: a valid dendrogram with distinct heights that never decrease towards the
    root, cut in three -/
example : ValidDendro 4 ([⟨0, 1, 1, 2⟩, ⟨2, 3, 2, 2⟩, ⟨4, 5, 3, 4⟩] : Dendro Nat) = true ∧
    MonoPaths 4 ([⟨0, 1, 1, 2⟩, ⟨2, 3, 2, 2⟩, ⟨4, 5, 3, 4⟩] : Dendro Nat) = true ∧
    DistinctHeights ([⟨0, 1, 1, 2⟩, ⟨2, 3, 2, 2⟩, ⟨4, 5, 3, 4⟩] : Dendro Nat) = true := by decide

/-- **Two clauses of C08 are false for `cut_straight` on valid dendrograms with an inversion** (known findings F24b,
    F24c of the code, mirrored by the model): `D = [[0,1,5,2],[2,3,1,3]]` is a valid dendrogram over 3 leaves with
    pairwise distinct heights whose root (height 1) is lower than its child (height 5); on it
    * `cut_straight(D, n_clusters=2)` returns 3 clusters (not exactly `n_clusters` although heights are distinct),
    * `cut_straight(D, threshold=2)` leaves the merge of height 1 < 2 unapplied (its leaves 0, 1, 2 get 3 labels).
    Hence `MonoPaths` in the hypotheses of `cutStraight_exact` and `cutStraight_valid_input` is necessary; the
    executable specification `straightSpec` states the clauses without it and the check reports such inputs as the
    known findings.  (`return_dendrogram=True` raised KeyError on this tree — F24a, repaired: the function returns,
    last conjunct, with the labels and the dendrogram of the un-reordered tree.) -/
theorem cutStraight_inversion_counterexample :
    ValidDendro 3 ([⟨0, 1, 5, 2⟩, ⟨2, 3, 1, 3⟩] : Dendro Nat) = true ∧
    DistinctHeights ([⟨0, 1, 5, 2⟩, ⟨2, 3, 1, 3⟩] : Dendro Nat) = true ∧
    MonoPaths 3 ([⟨0, 1, 5, 2⟩, ⟨2, 3, 1, 3⟩] : Dendro Nat) = false ∧
    (cutStraight (α := Nat) [⟨0, 1, 5, 2⟩, ⟨2, 3, 1, 3⟩] (some 2) none true false argsortDesc).toOption.map (·.labels)
      = some [0, 1, 2] ∧
    (cutStraight (α := Nat) [⟨0, 1, 5, 2⟩, ⟨2, 3, 1, 3⟩] none (some 2) true false argsortDesc).toOption.map (·.labels)
      = some [0, 1, 2] ∧
    (cutStraight (α := Nat) [⟨0, 1, 5, 2⟩, ⟨2, 3, 1, 3⟩] (some 2) none true true argsortDesc).toOption.map
      (fun o => (o.labels, o.dendro)) = some ([0, 1, 2], some [⟨0, 1, 5, 2⟩, ⟨2, 3, 1, 3⟩]) := by
  decide

end straight


/-! ### aggregate_dendrogram -/

/-- after all the merges of a valid dendrogram the root alone is alive, with the `n` leaves -/
theorem aggregate_root_only {D : Dendro α} {n : Nat} (hv : ValidDendro n D = true) :
    [n] = (liveNodes n D (n - 1)).map (fun x => (leaves n D x).length) := by
  have hlen := valid_length hv
  obtain ⟨h1, h2⟩ := liveNodes_weights hv (m := n - 1) (by omega)
  have hl : ((liveNodes n D (n - 1)).map (fun x => (leaves n D x).length)).length = 1 := by
    rw [List.length_map]; omega
  match hw : (liveNodes n D (n - 1)).map (fun x => (leaves n D x).length), hl with
  | [a], _ => rw [hw] at h2; simp at h2; rw [h2]

/-- **aggregate_dendrogram** (`aggregate_valid`): for a valid dendrogram over `n` leaves and `1 ≤ n_clusters ≤ n`, the
    function returns (never raises), the aggregated dendrogram keeps the heights of the last `n_clusters - 1` merges
    and is a valid dendrogram over `n_clusters` leaves weighted by `w`, where `w` — the counts returned with
    `return_counts=True` — is determined: `w[c]` is the number of leaves of the `c`-th (in increasing order of node id)
    cluster alive after the first `n - n_clusters` merges (`liveNodes`), and `w` sums to `n`.
    (False on the pinned tree: F5, repaired.)  Row `u` of the aggregated dendrogram is the merge `n - n_clusters + u`
    of `D`: the leaves below that merge are exactly the leaves of the clusters that are the leaves of the
    aggregated node `n_clusters + u` (last conjunct). -/
theorem aggregate_valid {D : Dendro α} {n k : Nat} (hv : ValidDendro n D = true) (hk1 : 1 ≤ k) (hkn : k ≤ n)
    (cnt : Bool) :
    ∃ out w, aggregateDendrogram D k cnt = .ok out ∧ w.length = k ∧ w.sum = n ∧
      ValidDendroW w out.dendro = true ∧
      out.dendro.map (·.h) = (D.drop (n - k)).map (·.h) ∧ (cnt = true → out.counts = some w) ∧
      w = (liveNodes n D (n - k)).map (fun x => (leaves n D x).length) ∧
      (∀ u, u < k - 1 → ∀ v, v < n → (v ∈ leaves n D (n + (n - k) + u) ↔
        ∃ c ∈ leaves k out.dendro (k + u), v ∈ leaves n D ((liveNodes n D (n - k)).getD c 0))) := by
  by_cases hk2 : 2 ≤ k
  · exact aggregate_ge2 hv hk2 hkn cnt
  · have hk : k = 1 := by omega
    subst hk
    have hlen := valid_length hv
    have hdrop : D.drop (D.length + 1 - 1) = [] := by simp
    have hcount : countOf D (D.length + 1) (2 * (D.length + 1) - 2) = .ok n := by
      unfold countOf
      rcases List.eq_nil_or_concat D with hD | ⟨pre, r, hD⟩
      · subst hD
        have : n = 1 := by simpa using hlen.symm
        simp [this]
      · rw [List.concat_eq_append] at hD
        subst hD
        have hl : (pre ++ [r]).length = pre.length + 1 := by simp
        have e1 : ¬ (2 * ((pre ++ [r]).length + 1) - 2 < (pre ++ [r]).length + 1) := by rw [hl]; omega
        rw [if_neg e1]
        have e2 : 2 * ((pre ++ [r]).length + 1) - 2 - ((pre ++ [r]).length + 1) = pre.length := by rw [hl]; omega
        rw [e2, List.getElem?_append_right (Nat.le_refl _)]
        simp only [Nat.sub_self, List.getElem?_cons_zero]
        rw [valid_last_size hv]
    refine ⟨{ dendro := [], counts := if cnt then some [n] else none }, [n], ?_, rfl, by simp,
      by simp [ValidDendroW, validLoop], ?_, ?_, ?_, by intro u hu; omega⟩
    · unfold aggregateDendrogram
      have e1 : ¬ (1 > D.length + 1) := by omega
      simp only [bind, Except.bind, throw, throwThe, MonadExceptOf.throw, e1, if_false, pure, Except.pure,
        Nat.lt_irrefl, hdrop, List.map_nil, List.append_nil]
      cases cnt with
      | false => simp
      | true =>
        simp only [if_true, List.mapM_cons, List.mapM_nil, hcount, bind, Except.bind, pure, Except.pure]
    · have : n - 1 = D.length := by omega
      simp [this]
    · intro hc; simp [hc]
    · -- a single cluster is alive after all the merges: the root, with the n leaves
      have hres := aggregate_root_only hv
      rw [hres]

/-- non-vacuity, and the witness of the repaired defect F5: 5 leaves aggregated to 3 clusters, one of which is an
    original leaf -/
example : ValidDendro 5 ([⟨0, 1, 1, 2⟩, ⟨2, 3, 2, 2⟩, ⟨4, 5, 3, 3⟩, ⟨6, 7, 4, 5⟩] : Dendro Nat) = true ∧
    (aggregateDendrogram ([⟨0, 1, 1, 2⟩, ⟨2, 3, 2, 2⟩, ⟨4, 5, 3, 3⟩, ⟨6, 7, 4, 5⟩] : Dendro Nat) 3 true).toOption.map
      (fun o => (o.dendro, o.counts)) = some ([⟨0, 1, 3, 3⟩, ⟨2, 3, 4, 5⟩], some [1, 2, 2]) := by decide


/-! ### cut_straight with `return_dendrogram=True`: the reordering does not change the tree -/

section straightReordered
variable [LinearOrder α]

/-- in a valid dendrogram sorted by height, heights never decrease towards the root -/
theorem monoPaths_of_sorted {n : Nat} {D : Dendro α} (hv : ValidDendro n D = true) (hs : heightsSorted D = true) :
    MonoPaths n D = true := by
  have hst := static_of_valid (w := List.replicate n 1) hv
  have hn : (List.replicate n 1).length = n := by simp
  -- sortedness as a statement on positions
  have hpos : ∀ (a b : Nat) (ra rb : Row α), a ≤ b → D[a]? = some ra → D[b]? = some rb → ¬ rb.h < ra.h := by
    intro a b ra rb hab
    induction b generalizing rb with
    | zero =>
      intro ha hb
      have : a = 0 := by omega
      subst this
      rw [ha] at hb; cases hb
      exact lt_irrefl _
    | succ b ih =>
      intro ha hb
      by_cases e : a = b + 1
      · subst e; rw [ha] at hb; cases hb; exact lt_irrefl _
      · have hbl : b + 1 < D.length := (List.getElem?_eq_some_iff.mp hb).1
        have hb' : D[b]? = some D[b] := List.getElem?_eq_getElem (by omega)
        have h1 := ih D[b] (by omega) ha hb'
        -- consecutive rows
        have h2 : ¬ rb.h < D[b].h := by
          unfold heightsSorted at hs
          have hmem : (D[b], rb) ∈ D.zip (D.drop 1) := by
            rw [List.mem_iff_getElem?]
            refine ⟨b, ?_⟩
            rw [List.getElem?_zip_eq_some]
            refine ⟨hb', ?_⟩
            rw [List.getElem?_drop, Nat.add_comm]; exact hb
          have := (List.all_eq_true.mp hs) _ hmem
          simpa using this
        exact fun hlt => h2 (lt_of_lt_of_le hlt (not_lt.mp h1))
  unfold MonoPaths
  rw [List.all_eq_true]
  intro r hr
  obtain ⟨t, ht, hrt⟩ := List.getElem_of_mem hr
  have hrg : D[t]? = some r := by rw [List.getElem?_eq_getElem ht, hrt]
  have hb := hst.bound t r hrg
  rw [hn] at hb
  simp only [Bool.and_eq_true]
  constructor
  · by_cases hi : r.i < n
    · simp [hi]
    · have hc : r.i - n < D.length := by omega
      have := hpos (r.i - n) t D[r.i - n] r (by omega) (List.getElem?_eq_getElem hc) hrg
      simp [hi, List.getElem?_eq_getElem hc, this]
  · by_cases hj : r.j < n
    · simp [hj]
    · have hc : r.j - n < D.length := by omega
      have := hpos (r.j - n) t D[r.j - n] r (by omega) (List.getElem?_eq_getElem hc) hrg
      simp [hj, List.getElem?_eq_getElem hc, this]

/-- **cut_straight on a valid dendrogram whose heights never decrease towards the root, any options**
    (in particular `return_dendrogram=True`, which reorders first): the clusters are leaf sets of subtrees *of the
    dendrogram that was given* (the reordering renames the nodes but keeps every leaf list), every merge strictly
    below the threshold is applied, and with distinct heights and no threshold there are exactly `n_clusters`
    clusters. -/
theorem cutStraight_valid_input {D0 : Dendro α} {nc : Option Nat} {thr : Option α} {srt retD : Bool}
    {argsort : List Nat → List Nat} (hs : SortsDesc argsort) {out : CutOut α}
    (hv : ValidDendro (D0.length + 1) D0 = true) (hm : MonoPaths (D0.length + 1) D0 = true)
    (h : cutStraight D0 nc thr srt retD argsort = .ok out) :
    ∃ cl : List (List Nat), cl.flatten.Perm (List.range (D0.length + 1)) ∧
      (∀ c ∈ cl, c ≠ [] ∧ ∃ x, x < D0.length + 1 + D0.length ∧ c = leaves (D0.length + 1) D0 x) ∧
      out.labels.length = D0.length + 1 ∧
      (∀ p c, cl[p]? = some c → ∀ v ∈ c, out.labels.getD v 0 = p) ∧
      (srt = true → cl.Pairwise (fun a b => b.length ≤ a.length)) ∧
      (thr = none → DistinctHeights D0 = true → cl.length = nc.getD 2) ∧
      (∀ t r c, D0[t]? = some r → thr = some c → r.h < c →
        ∀ v ∈ leaves (D0.length + 1) D0 (D0.length + 1 + t),
        ∀ w ∈ leaves (D0.length + 1) D0 (D0.length + 1 + t), out.labels.getD v 0 = out.labels.getD w 0) := by
  obtain ⟨D, hD, hex⟩ := cutStraight_exact hs h
  rcases hD with e | e
  · subst e
    obtain ⟨cl, hsub, hbelow, hcount⟩ := hex hv hm
    exact ⟨cl, hsub.partition, hsub.subtree, hsub.length, hsub.label, hsub.sorted, hcount, hbelow⟩
  · -- the dendrogram that is cut is the reordering of the given one
    obtain ⟨D', hD', hvD', hsD', hleaves, hrows⟩ := reorder_valid_core hv hm
    rw [e] at hD'
    cases hD'
    have hlenD : D.length = D0.length := reorderDendrogram_length e
    have hmD := monoPaths_of_sorted hvD' hsD'
    obtain ⟨cl, hsub, hbelow, hcount⟩ := hex hvD' hmD
    refine ⟨cl, hsub.partition, ?_, hsub.length, hsub.label, hsub.sorted, ?_, ?_⟩
    rotate_left 2
    · -- the threshold clause, through the renaming: row `t` of the given dendrogram is row `posOf … t` of `D`
      intro t r c ht hthr hlt v hv' w hw
      obtain ⟨r', hr', hh, _⟩ := hrows t r ht
      have htl := (List.getElem?_eq_some_iff.mp ht).1
      have hl := hleaves (D0.length + 1 + t) (by omega)
      have e1 : indexNewOf D0 (D0.length + 1 + t) = D0.length + 1 + posOf (lexsortIdx D0) t := by
        unfold indexNewOf
        have : ¬ (D0.length + 1 + t < D0.length + 1) := by omega
        simp only [this, if_false, Nat.add_sub_cancel_left]
      rw [e1] at hl
      rw [← hl] at hv' hw
      exact hbelow (posOf (lexsortIdx D0) t) r' c hr' hthr (by rw [hh]; exact hlt) v hv' w hw
    · intro c hc
      obtain ⟨hne, x, hx, rfl⟩ := hsub.subtree c hc
      refine ⟨hne, ?_⟩
      -- x is the new name of some node y of the given dendrogram
      rw [hlenD] at hx
      by_cases hxn : x < D0.length + 1
      · refine ⟨x, hx, ?_⟩
        have := hleaves x hx
        have e1 : indexNewOf D0 x = x := by unfold indexNewOf; simp [hxn]
        rw [e1] at this; exact this
      · -- x = n + p, p a position of the sorted order
        have hp : x - (D0.length + 1) < (lexsortIdx D0).length := by
          rw [(lexsortIdx_perm D0).length_eq]; simp; omega
        let t := (lexsortIdx D0)[x - (D0.length + 1)]
        have ht : t < D0.length := mem_lexsortIdx.mp (List.getElem_mem hp)
        refine ⟨D0.length + 1 + t, by omega, ?_⟩
        have := hleaves (D0.length + 1 + t) (by omega)
        have e1 : indexNewOf D0 (D0.length + 1 + t) = x := by
          unfold indexNewOf posOf
          have : ¬ (D0.length + 1 + t < D0.length + 1) := by omega
          simp only [this, if_false, Nat.add_sub_cancel_left]
          rw [idxOf_of_getElem (nodup_lexsortIdx D0) (List.getElem?_eq_getElem hp)]
          omega
        rw [e1] at this; exact this
    · intro hthr hdist
      refine hcount hthr ?_
      -- the reordered dendrogram has the same heights, hence distinct ones
      unfold DistinctHeights at hdist ⊢
      rw [List.all_eq_true] at hdist ⊢
      intro a ha
      rw [List.all_eq_true]
      intro b hb
      rw [List.mem_range, hlenD] at ha hb
      by_cases hab : a = b
      · simp [hab]
      · -- rows a and b of D come from distinct rows of D0
        have hpa : a < (lexsortIdx D0).length := by rw [(lexsortIdx_perm D0).length_eq]; simpa using ha
        have hpb : b < (lexsortIdx D0).length := by rw [(lexsortIdx_perm D0).length_eq]; simpa using hb
        obtain ⟨ra, hra, hga⟩ := reorder_get (List.getElem?_eq_getElem hpa)
        obtain ⟨rb, hrb, hgb⟩ := reorder_get (List.getElem?_eq_getElem hpb)
        have hta := mem_lexsortIdx.mp (List.getElem_mem hpa)
        have htb := mem_lexsortIdx.mp (List.getElem_mem hpb)
        have hne : (lexsortIdx D0)[a] ≠ (lexsortIdx D0)[b] := by
          intro e'
          have h1 := idxOf_of_getElem (nodup_lexsortIdx D0) (List.getElem?_eq_getElem hpa)
          have h2 := idxOf_of_getElem (nodup_lexsortIdx D0) (List.getElem?_eq_getElem hpb)
          rw [e'] at h1; omega
        have h1 := hdist _ (List.mem_range.mpr hta)
        have h2 := (List.all_eq_true.mp h1) _ (List.mem_range.mpr htb)
        have hbne : ((lexsortIdx D0)[a] == (lexsortIdx D0)[b]) = false := by simpa using hne
        simp only [hbne, Bool.false_or, hra, hrb] at h2
        have hDeq := reorder_eq e
        have hDa : D[a]? = some (renameRow D0 ra) := by rw [hDeq]; exact hga
        have hDb : D[b]? = some (renameRow D0 rb) := by rw [hDeq]; exact hgb
        have habf : (a == b) = false := by simpa using hab
        simp only [habf, Bool.false_or, hDa, hDb]
        exact h2

/-- **cut_straight with `return_dendrogram=True`** on a valid dendrogram (repaired code: a tree with an inversion is
    not reordered, F24a): the dendrogram returned is a valid dendrogram over the returned clusters (as leaves weighted by their
    sizes, which sum to `n`), and its heights are heights of the dendrogram that was cut (the given one, reordered by
    height if it was not sorted), in the same order. -/
theorem cutStraight_dendro_valid {D0 : Dendro α} {nc : Option Nat} {thr : Option α} {srt : Bool}
    {argsort : List Nat → List Nat} (hs : SortsDesc argsort) {out : CutOut α}
    (hv : ValidDendro (D0.length + 1) D0 = true)
    (h : cutStraight D0 nc thr srt true argsort = .ok out) :
    ∃ D cl R, (D = D0 ∨ reorderDendrogram D0 = .ok D) ∧
      SubtreeLabelling (D0.length + 1) D out.labels srt cl ∧ out.dendro = some R ∧
      ValidDendroW (cl.map List.length) R = true ∧
      (R.map (fun (q : Row α) => q.h)).Sublist (D.map (fun (q : Row α) => q.h)) ∧
      (cl.map List.length).sum = D0.length + 1 ∧
      (∀ (u : Nat) (ru : Row α), R[u]? = some ru → ∃ (t : Nat) (rt : Row α), D[t]? = some rt ∧ ru.h = rt.h ∧
        ∀ v, v < D0.length + 1 → (v ∈ leaves (D0.length + 1) D (D0.length + 1 + t) ↔
          out.labels.getD v 0 ∈ leaves cl.length R (cl.length + u))) := by
  obtain ⟨D, k, cut, st, hD0, _, _, hloop, hlab⟩ := cutStraight_unfold h
  have hD : D = D0 ∨ reorderDendrogram D0 = .ok D := hD0.imp id And.right
  have hlen : D.length = D0.length := by
    rcases hD with e | e
    · rw [e]
    · exact reorderDendrogram_length e
  have hvD : ValidDendro (D0.length + 1) D = true := by
    rcases hD0 with e | ⟨hm, e⟩
    · rw [e]; exact hv
    · obtain ⟨D', hD', hvD', _⟩ := reorder_valid_core hv hm
      rw [e] at hD'
      cases hD'
      exact hvD'
  rw [← hlen] at hloop hvD ⊢
  obtain ⟨hinv, hne⟩ := mergeLoop_final hloop
  obtain ⟨hsub, _⟩ := getLabels_subtrees hs hinv hne hlab
  obtain ⟨R, h1, h2, h3, h4, h5⟩ := reducedDendro_valid hs hvD hinv hne hlab
  exact ⟨D, _, R, hD, hsub, h1, h2, h3, h4, h5⟩

/-- non-vacuity: two clusters {0,1}, {2,3}; the reduced dendrogram has the single row (0, 1, 3, 4) -/
example : (cutStraight (α := Nat) [⟨0, 1, 1, 2⟩, ⟨2, 3, 2, 2⟩, ⟨4, 5, 3, 4⟩] (some 2) none true true
      argsortDesc).toOption.map (·.dendro) = some (some [⟨0, 1, 3, 4⟩]) ∧
    ValidDendroW [2, 2] ([⟨0, 1, 3, 4⟩] : Dendro Nat) = true := by
  refine ⟨by decide, by decide⟩

/-- the theorems of this section at the height type of the runs, `Ht` = rationals and `+inf` (`SkNet.Dendro.Ht`
    is linearly ordered by the `<` the driver uses: Lemmas/HtOrder.lean): a dendrogram whose last merge joins two
    connected components at infinite height, as Paris returns them; two clusters asked for, exactly two returned -/
example (out : CutOut Ht)
    (h : cutStraight (α := Ht) [⟨0, 1, .fin 1, 2⟩, ⟨2, 3, .fin 2, 2⟩, ⟨4, 5, .inf, 4⟩] (some 2) none true true
      argsortDesc = .ok out) :
    ∃ cl : List (List Nat), cl.flatten.Perm (List.range 4) ∧ out.labels.length = 4 ∧ cl.length = 2 := by
  obtain ⟨cl, h1, _, h3, _, _, h6, _⟩ := cutStraight_valid_input (α := Ht) argsortDesc_sortsDesc (by decide) (by decide) h
  exact ⟨cl, h1, h3, h6 rfl (by decide)⟩

example : (cutStraight (α := Ht) [⟨0, 1, .fin 1, 2⟩, ⟨2, 3, .fin 2, 2⟩, ⟨4, 5, .inf, 4⟩] (some 2) none true true
      argsortDesc).toOption.map (·.labels) = some [0, 0, 1, 1] := by decide

/-- **cut_straight returns** for every valid dendrogram over `n` leaves when `n_clusters` is given in `1 … n`, or
    omitted with a threshold, or omitted altogether with `n ≥ 2` (the default 2 is not checked against `n`: on the
    dendrogram of a single leaf `cut_straight(d)` is an IndexError), with or without the reduced dendrogram
    (repaired code: a tree with an inversion is cut as it is given, not reordered). -/
theorem cutStraight_returns {D0 : Dendro α} (nc : Option Nat) (thr : Option α) (srt retD : Bool)
    {argsort : List Nat → List Nat} (hs : SortsDesc argsort) (hv : ValidDendro (D0.length + 1) D0 = true)
    (hk : match nc with
      | some k => 1 ≤ k ∧ k ≤ D0.length + 1
      | none => thr.isSome = true ∨ 2 ≤ D0.length + 1) :
    ∃ out, cutStraight D0 nc thr srt retD argsort = .ok out := by
  -- the dendrogram that is cut
  obtain ⟨D, hD, hvD, hlen⟩ : ∃ D, cutInput D0 retD = .ok D ∧ ValidDendro (D0.length + 1) D = true ∧
      D.length = D0.length := by
    unfold cutInput
    by_cases hc : (retD && !heightsSorted D0) = true
    · rw [if_pos hc]
      by_cases hm : noInversion (D0.length + 1) D0 = true
      · rw [if_pos hm]
        obtain ⟨D', hD', hvD', _⟩ := reorder_valid_core hv (by rw [← noInversion_eq]; exact hm)
        exact ⟨D', hD', hvD', reorderDendrogram_length hD'⟩
      · rw [if_neg hm]; exact ⟨D0, rfl, hv, rfl⟩
    · rw [if_neg hc]; exact ⟨D0, rfl, hv, rfl⟩
  -- the number of clusters
  obtain ⟨k, hke, hk1, hk2⟩ : ∃ k, effectiveK (D0.length + 1) nc thr = .ok k ∧ k ≤ D0.length + 1 ∧
      (1 < k → 2 ≤ D0.length + 1) := by
    unfold effectiveK
    cases nc with
    | some c =>
      simp only at hk
      refine ⟨c, ?_, hk.2, fun h => by omega⟩
      unfold checkNClusters
      have e1 : ¬ c > D0.length + 1 := by omega
      have e2 : ¬ c < 1 := by omega
      simp only [e1, e2, if_false, bind, Except.bind, pure, Except.pure]
    | none =>
      simp only at hk
      cases hthr : thr.isNone with
      | true =>
        have : thr.isSome = false := by cases thr <;> simp_all
        rcases hk with e | e
        · rw [this] at e; cases e
        · exact ⟨2, by simp [pure, Except.pure], e, fun _ => e⟩
      | false => exact ⟨D0.length + 1, by simp [pure, Except.pure], Nat.le_refl _, fun h => by omega⟩
  -- the cut height
  obtain ⟨cut, hcut⟩ : ∃ cut, cutHeight D (D0.length + 1) k thr = .ok cut := by
    unfold cutHeight
    by_cases hone : k > 1
    · rw [if_pos hone]
      have hl : (sortH (D.map (·.h))).length = D0.length := by
        rw [(sortH_perm _).length_eq, List.length_map, hlen]
      have hidx : D0.length + 1 - k < (sortH (D.map (·.h))).length := by
        have := hk2 hone; omega
      rw [List.getElem?_eq_getElem hidx]
      cases thr with
      | none => exact ⟨_, rfl⟩
      | some t => exact ⟨_, rfl⟩
    · rw [if_neg hone]; exact ⟨none, rfl⟩
  -- the loop and the labels
  have hvD' : ValidDendro (D.length + 1) D = true := by rw [hlen]; exact hvD
  obtain ⟨st, hst⟩ := mergeLoop_returns (D.length + 1) (fun r _ _ => belowCut cut r) D 0
    (initCluster (D.length + 1)) (valid_rows_ne hvD')
  obtain ⟨hinv, hne⟩ := mergeLoop_final hst
  obtain ⟨out, hout⟩ := getLabels_returns srt retD hs hvD' hinv hne
  refine ⟨out, ?_⟩
  unfold cutStraight
  rw [hlen] at hst
  simp only [bind, Except.bind, hD, hke, hcut, hst, hout]

/-- **cut_balanced with `return_dendrogram=True`** on a valid dendrogram: same statement. -/
theorem cutBalanced_dendro_valid {D : Dendro α} {m : Nat} {srt : Bool} {argsort : List Nat → List Nat}
    (hs : SortsDesc argsort) {out : CutOut α} (hv : ValidDendro (D.length + 1) D = true)
    (h : cutBalanced D m srt true argsort = .ok out) :
    ∃ cl R, SubtreeLabelling (D.length + 1) D out.labels srt cl ∧ out.dendro = some R ∧
      ValidDendroW (cl.map List.length) R = true ∧
      (R.map (fun (q : Row α) => q.h)).Sublist (D.map (fun (q : Row α) => q.h)) ∧
      (cl.map List.length).sum = D.length + 1 ∧
      (∀ (u : Nat) (ru : Row α), R[u]? = some ru → ∃ (t : Nat) (rt : Row α), D[t]? = some rt ∧ ru.h = rt.h ∧
        ∀ v, v < D.length + 1 → (v ∈ leaves (D.length + 1) D (D.length + 1 + t) ↔
          out.labels.getD v 0 ∈ leaves cl.length R (cl.length + u))) := by
  obtain ⟨_, _, st, hloop, hlab⟩ := cutBalanced_unfold h
  obtain ⟨hinv, hne⟩ := mergeLoop_final hloop
  obtain ⟨hsub, _⟩ := getLabels_subtrees hs hinv hne hlab
  obtain ⟨R, h1, h2, h3, h4, h5⟩ := reducedDendro_valid hs hv hinv hne hlab
  exact ⟨_, R, hsub, h1, h2, h3, h4, h5⟩

/-- non-vacuity: cap 2 on a caterpillar of 4 leaves: clusters {0,1}, {2}, {3}, reduced rows (0,1) then (3,2) -/
example : (cutBalanced (α := Nat) [⟨0, 1, 1, 2⟩, ⟨4, 2, 2, 3⟩, ⟨5, 3, 3, 4⟩] 2 true true
      argsortDesc).toOption.map (·.dendro) = some (some [⟨0, 1, 2, 3⟩, ⟨3, 2, 3, 4⟩]) ∧
    ValidDendroW [2, 1, 1] ([⟨0, 1, 2, 3⟩, ⟨3, 2, 3, 4⟩] : Dendro Nat) = true := by
  refine ⟨by decide, by decide⟩

end straightReordered

/-! ### AggregateGraph.merge -/

/-- **`AggregateGraph.merge`** (`merge_invariant`, shared by C07 and C08): on a dict of dicts whose rows have
    distinct keys, whose key structure and weights are symmetric, whose weights are non-negative and which stores
    no id `≥ next`, merging two distinct existing nodes `n1`, `n2` into the new node `next`
    * removes every entry of the rows and columns `n1`, `n2` (no dead key is left),
    * gives the new node the sums `w(n1, y) + w(n2, y)` (rows) and `w(x, n1) + w(x, n2)` (columns), and the
      self-loop `w(n1,n1) + w(n1,n2) + w(n2,n1) + w(n2,n2)`,
    * leaves every other entry unchanged,
    and the result satisfies the same invariant for `next + 1` (so the replay of a whole dendrogram can be followed). -/
theorem merge_invariant {nb : Dict (Dict Rat)} {next n1 n2 : Nat} (h : SkNet.Agg.NbInv nb next) (h12 : n1 ≠ n2)
    (h1 : n1 < next) (h2 : n2 < next) :
    SkNet.Agg.NbInv (SkNet.Agg.mergeNb nb n1 n2 next) (next + 1) ∧
    (∀ x y, SkNet.Agg.getEntry (SkNet.Agg.mergeNb nb n1 n2 next) x y =
      if x = n1 ∨ x = n2 ∨ y = n1 ∨ y = n2 then 0
      else if x = next ∧ y = next then
        0 + SkNet.Agg.getEntry nb n1 n1 + SkNet.Agg.getEntry nb n1 n2 + SkNet.Agg.getEntry nb n2 n1 +
          SkNet.Agg.getEntry nb n2 n2
      else if x = next then SkNet.Agg.getEntry nb n1 y + SkNet.Agg.getEntry nb n2 y
      else if y = next then SkNet.Agg.getEntry nb x n1 + SkNet.Agg.getEntry nb x n2
      else SkNet.Agg.getEntry nb x y) ∧
    (∀ x y, SkNet.Agg.K (SkNet.Agg.mergeNb nb n1 n2 next) x y =
      if x = n1 ∨ x = n2 ∨ y = n1 ∨ y = n2 then false
      else if x = next then (decide (y = next) || SkNet.Agg.K nb n1 y || SkNet.Agg.K nb n2 y)
      else if y = next then (SkNet.Agg.K nb n1 x || SkNet.Agg.K nb n2 x)
      else SkNet.Agg.K nb x y) := by
  have h4 : next ≠ n1 := by omega
  have h5 : next ≠ n2 := by omega
  obtain ⟨_, hW, hK⟩ := SkNet.Agg.mergeNb_spec nb h12 h4 h5 h.rows (fun x => h.fresh x next (Nat.le_refl _)) h.sym
  exact ⟨SkNet.Agg.nbInv_merge h h12 h1 h2, hW, hK⟩

/-- non-vacuity: a triangle 0-1-2 with weights, merging 0 and 1 into node 3 -/
example : SkNet.Agg.getEntry (SkNet.Agg.mergeNb
      ([(0, [(1, 2), (2, 1)]), (1, [(0, 2), (2, 3)]), (2, [(0, 1), (1, 3)])] : Dict (Dict Rat)) 0 1 3) 3 2 = 4 ∧
    SkNet.Agg.getEntry (SkNet.Agg.mergeNb
      ([(0, [(1, 2), (2, 1)]), (1, [(0, 2), (2, 3)]), (2, [(0, 1), (1, 3)])] : Dict (Dict Rat)) 0 1 3) 3 3 = 4 := by
  decide +kernel


/-! ### Dasgupta's cost and score -/

section dasgupta
open SkNet.HMetrics SkNet.Agg

/-- **Dasgupta's normalised cost and score lie in [0, 1]** (`dasgupta_score_range`), on the model of
    `get_sampling_distributions` / `dasgupta_cost` / `dasgupta_score` (the replay of `AggregateGraph.merge` along
    the dendrogram): for every square non-negative matrix with positive total weight, both node weightings
    (`uniform`, `degree`) and every valid dendrogram over its `n ≥ 2` nodes, the functions return, the edge sampling
    values are non-negative and sum to 1, every cluster weight is in [0, 1], hence
    `0 ≤ dasgupta_cost(normalized=True) ≤ 1` and `0 ≤ dasgupta_score ≤ 1`. -/
theorem dasgupta_score_range {n : Nat} {a : Mat} {D : Dendro α} (degree : Bool) (hn : 2 ≤ n) (hsq : Square n a)
    (hnn : ∀ i j, 0 ≤ a.get i j) (htot : 0 < a.total) (hv : ValidDendro n D = true) :
    ∃ c, dasguptaCost degree true n a D = .ok c ∧ 0 ≤ c ∧ c ≤ 1 ∧
      dasguptaScore degree n a D = .ok (1 - c) ∧ 0 ≤ 1 - c ∧ 1 - c ≤ 1 := by
  have hlen := valid_length hv
  have hvl : validLoop n 0 D (liveInit (List.replicate n 1)) = true := by
    unfold ValidDendro ValidDendroW at hv
    simp only [Bool.and_eq_true, List.length_replicate] at hv
    exact hv.2
  rw [validLoop_eq_isSome] at hvl
  obtain ⟨Lf, hLf⟩ := Option.isSome_iff_exists.mp hvl
  have hinit : LInv n 0 (liveInit (List.replicate n 1)) := by simpa using linv_init (List.replicate n 1)
  have hJ0 := jinv_init degree (by omega : 0 < n) hsq hnn htot
  have hk0 : Dict.keys (instantiate degree n a).outW = Dict.keys (liveInit (List.replicate n 1)) := by
    unfold instantiate AggGraph.init liveInit
    simp [Dict.keys, Function.comp_def]
  have hA0 : AccInv n (instantiate degree n a) { edge := [], node := [], weight := [] } := by
    refine ⟨?_, by simp, by simp, rfl⟩
    unfold psi
    have hkeys : Dict.keys (instantiate degree n a).outW = List.range n := by
      unfold instantiate AggGraph.init; simp [Dict.keys, Function.comp_def]
    rw [hkeys, S_congr (g := fun _ => 0) (by intro x hx; simp only [List.mem_range] at hx; simp [Nat.not_le.mpr hx])]
    simp [S_zero]
  obtain ⟨hJf, hkf, hAf⟩ := samplingLoop_spec D 0 _ _ _ Lf hJ0 hk0 hinit hLf hA0
  -- a single cluster is left: the last node created
  have hLfLen : Lf.length = 1 := by
    have := (liveAfter_linv D 0 _ Lf hinit hLf).2
    simp only [liveInit, List.length_map, List.length_range, List.length_replicate] at this
    omega
  obtain ⟨pre, r, hD⟩ : ∃ pre r, D = pre ++ [r] := by
    rcases List.eq_nil_or_concat D with h | ⟨pre, r, h⟩
    · subst h; simp at hlen; omega
    · exact ⟨pre, r, by rw [h, List.concat_eq_append]⟩
  have hkeysLf : Dict.keys Lf = [n + pre.length] := by
    subst hD
    rw [liveAfter_append] at hLf
    cases hLp : liveAfter n 0 pre (liveInit (List.replicate n 1)) with
    | none => simp [hLp] at hLf
    | some Lp =>
      simp only [hLp, Option.bind_some, Nat.zero_add, liveAfter] at hLf
      cases hs : liveStep n pre.length r Lp with
      | none => simp [hs] at hLf
      | some L1 =>
        simp only [hs, Option.bind_some, Option.some.injEq] at hLf
        subst hLf
        have hLpInv : LInv n pre.length Lp := by
          have := (liveAfter_linv pre 0 _ Lp hinit hLp).1
          simpa using this
        obtain ⟨_, _, _, hk⟩ := keys_liveStep hLpInv hs
        have hl : (Dict.keys L1).length = 1 := by simp [Dict.keys, hLfLen]
        rw [hk] at hl ⊢
        simp only [List.length_append, List.length_cons, List.length_nil] at hl
        have : ((Dict.keys Lp).filter (· != r.i)).filter (· != r.j) = [] :=
          List.eq_nil_of_length_eq_zero (by omega)
        rw [this]; rfl
  have hge : n ≤ n + pre.length := by omega
  -- the sum of the edge sampling values is the whole weight
  have hsum : (samplingLoop n D (instantiate degree n a) { edge := [], node := [], weight := [] }).edge.sum = 1 := by
    rw [← hAf.psiEq]
    unfold psi
    rw [hkf, hkeysLf]
    have hphi := hJf.phi
    rw [hkf, hkeysLf] at hphi
    simp only [S_cons, S_nil, add_zero, hge, if_true] at hphi ⊢
    exact hphi
  have hrange := dot_range _ _ hAf.edgeNonneg hAf.weightRange
  rw [hsum] at hrange
  have htake : D.take (n - 1) = D := List.take_of_length_le (by omega)
  have hcost : dasguptaCost degree true n a D =
      .ok (dot (samplingLoop n D (instantiate degree n a) { edge := [], node := [], weight := [] }).edge
        (samplingLoop n D (instantiate degree n a) { edge := [], node := [], weight := [] }).weight) := by
    unfold dasguptaCost getSamplingDistributions
    have e1 : (a.total == 0) = false := by
      have : a.total ≠ 0 := ne_of_gt htot
      simpa using this
    have e2 : ¬ n < 2 := by omega
    have e3 : ¬ D.length + 1 < n := by omega
    simp only [e1, Bool.false_and, Bool.false_eq_true, if_false, e2, e3, htake, if_true]
  refine ⟨_, hcost, ?_, ?_, ?_, ?_, ?_⟩
  · unfold dot; rw [sumR_eq_sum]; exact hrange.1
  · unfold dot; rw [sumR_eq_sum]; exact hrange.2
  · unfold dasguptaScore; rw [hcost]; rfl
  · unfold dot; rw [sumR_eq_sum]; linarith [hrange.2]
  · unfold dot; rw [sumR_eq_sum]; linarith [hrange.1]

/-- non-vacuity: a weighted triangle and a valid dendrogram over its 3 nodes; the normalised cost is 5/6 -/
example : Square 3 ([[0, 2, 1], [2, 0, 3], [1, 3, 0]] : Mat) ∧
    ValidDendro 3 ([⟨1, 2, 1, 2⟩, ⟨3, 0, 2, 3⟩] : Dendro Nat) = true ∧
    (dasguptaCost false true 3 [[0, 2, 1], [2, 0, 3], [1, 3, 0]]
      ([⟨1, 2, 1, 2⟩, ⟨3, 0, 2, 3⟩] : Dendro Nat)).toOption = some (5 / 6) := by
  refine ⟨⟨rfl, by decide⟩, by decide, by decide +kernel⟩

/-- **The Dasgupta cost is the one of its definition** (`dasgupta_eq_def`): for every square non-negative matrix
    with positive total weight, both node weightings and every valid dendrogram over its `n ≥ 2` nodes, the value
    computed by `dasgupta_cost` (the replay of `AggregateGraph.merge` along the dendrogram, `edge_sampling · weights`)
    is `Σ_{u,v} p(u,v) · π(u ∧ v)`, where `p` is the symmetrised, normalised edge weight, `u ∧ v` the first node of
    the dendrogram whose leaves contain both `u` and `v`, and `π` the weight of its leaf set — also in the
    unnormalised variants. -/
theorem dasgupta_eq_def {n : Nat} {a : Mat} {D : Dendro α} (degree normalized : Bool) (hn : 2 ≤ n)
    (hsq : Square n a) (hnn : ∀ i j, 0 ≤ a.get i j) (htot : 0 < a.total) (hv : ValidDendro n D = true) :
    dasguptaCost degree normalized n a D = .ok (dasguptaDefCost degree normalized n a D) := by
  have hlen := valid_length hv
  have hvl : validLoop n 0 D (sizesOf (initCluster n)) = true := by
    rw [sizesOf_initCluster]
    unfold ValidDendro ValidDendroW at hv
    simp only [Bool.and_eq_true, List.length_replicate] at hv
    exact hv.2
  have hJ0 := jinv_init degree (by omega : 0 < n) hsq hnn htot
  have hP : ∀ u v, (fun u v => (symmetrize n a).get u v / (symmetrize n a).total) u v =
      (fun u v => (symmetrize n a).get u v / (symmetrize n a).total) v u := by
    intro u v; simp only; rw [symmetrize_symm]
  obtain ⟨he, hw⟩ := samplingLoop_leaf (P := fun u v => (symmetrize n a).get u v / (symmetrize n a).total)
    (wr := fun x => (probsRow degree n a).getD x 0) (wc := fun x => (probsCol degree n a).getD x 0)
    D D [] (instantiate degree n a) (initCluster n) { edge := [], node := [], weight := [] }
    (by simp) hJ0 (leafInv_init degree n a) hvl rfl rfl
  have hdot : dot (samplingLoop n D (instantiate degree n a) { edge := [], node := [], weight := [] }).edge
      (samplingLoop n D (instantiate degree n a) { edge := [], node := [], weight := [] }).weight =
      dasguptaDef degree n a D := by
    rw [he, hw]
    unfold dot dasguptaDef
    rw [sumR_eq_sum, sumR_eq_sum, zip_map_mul, sum_flatMap_map]
    show S (List.range D.length) _ = _
    rw [S_congr (g := fun t => S (List.range n) (fun u => S (List.range n) (fun v =>
      if lcaRow n D u v = some t then
        (symmetrize n a).get u v / (symmetrize n a).total * clusterWeight degree n a D t else 0))) ?_]
    · rw [S_comm]
      apply S_congr; intro u _
      rw [S_comm]
      apply S_congr; intro v _
      refine (S_select D.length (lcaRow n D u v)
        (fun t => (symmetrize n a).get u v / (symmetrize n a).total * clusterWeight degree n a D t) ?_).trans ?_
      · intro t ht
        exact ((find?_range _ _ _).mp ht).1
      · cases lcaRow n D u v <;> rfl
    · intro t ht
      simp only [List.mem_range] at ht
      obtain ⟨hD, hl⟩ := split_at (List.getElem?_eq_getElem ht)
      have hv' : ValidDendro n (D.take t ++ D[t] :: D.drop (t + 1)) = true := by rw [← hD]; exact hv
      have e1 := edgeAt_eq hP hv'
      have e2 := weightAt_eq degree a hv'
      rw [← hD, hl] at e1 e2
      rw [e1, e2, ← S_mul_right]
      apply S_congr; intro u _
      rw [← S_mul_right]
      apply S_congr; intro v _
      split <;> simp
  have htake : D.take (n - 1) = D := List.take_of_length_le (by omega)
  unfold dasguptaCost getSamplingDistributions dasguptaDefCost
  have e1 : (a.total == 0) = false := by
    have : a.total ≠ 0 := ne_of_gt htot
    simpa using this
  have e2 : ¬ n < 2 := by omega
  have e3 : ¬ D.length + 1 < n := by omega
  simp only [e1, Bool.false_and, Bool.false_eq_true, if_false, e2, e3, htake, hdot]

/-- non-vacuity: on the weighted triangle above the definition gives 5/6 (normalised) and 5/6 · 3 (unnormalised,
    uniform weights) -/
example : dasguptaDefCost false true 3 [[0, 2, 1], [2, 0, 3], [1, 3, 0]]
      ([⟨1, 2, 1, 2⟩, ⟨3, 0, 2, 3⟩] : Dendro Nat) = 5 / 6 ∧
    dasguptaDefCost false false 3 [[0, 2, 1], [2, 0, 3], [1, 3, 0]]
      ([⟨1, 2, 1, 2⟩, ⟨3, 0, 2, 3⟩] : Dendro Nat) = 5 / 2 := by
  refine ⟨by decide +kernel, by decide +kernel⟩

/-- **`lcaRow` is the smallest cluster containing both nodes**: the first merge whose leaf set contains `u` and `v`
    is contained in every merge that contains both (leaf sets of a valid dendrogram are nested or disjoint), so it
    is the cluster of least size / volume containing both ends — the reading of the property text. -/
theorem lca_smallest {n : Nat} {D : Dendro α} (hv : ValidDendro n D = true) {u v t t' : Nat}
    (h : lcaRow n D u v = some t) (ht' : t' < D.length) (hu : u ∈ leaves n D (n + t'))
    (hv' : v ∈ leaves n D (n + t')) : ∀ x ∈ leaves n D (n + t), x ∈ leaves n D (n + t') := by
  obtain ⟨_, hp, hfirst⟩ := (find?_range _ _ _).mp h
  simp only [Bool.and_eq_true, List.contains_iff_mem] at hp
  have htt : t ≤ t' := by
    by_contra hlt
    have := hfirst t' (by omega)
    simp [hu, hv'] at this
  rcases Nat.lt_or_eq_of_le htt with hlt | he
  · rcases laminar_lt hv (x := n + t) (y := n + t') (by omega) (by omega) with hsub | hdis
    · exact hsub
    · exact absurd hu (hdis u hp.1)
  · subst he; exact fun x hx => hx

/-- **On a graph without self-loops the cost of the definition is a sum over pairs of distinct nodes**: the only
    place where the definition departs from the property text (a loop `(u, u)` is charged to the first merge
    containing `u`, not to the singleton `{u}`, as the code does) has weight zero. With `lca_smallest`:
    `dasgupta_cost` = Σ_{u ≠ v} p(u,v) · π(smallest cluster containing u and v). -/
theorem dasguptaDef_loopfree (degree : Bool) (n : Nat) (a : Mat) (D : Dendro α) (hloop : ∀ u, a.get u u = 0) :
    dasguptaDef degree n a D =
      sumR ((List.range n).flatMap fun u => (List.range n).map fun v =>
        if u = v then 0 else
          match lcaRow n D u v with
          | some t => (symmetrize n a).get u v / (symmetrize n a).total * clusterWeight degree n a D t
          | none => 0) := by
  unfold dasguptaDef
  have hterm : ∀ u v, (match lcaRow n D u v with
      | some t => (symmetrize n a).get u v / (symmetrize n a).total * clusterWeight degree n a D t
      | none => 0) =
      (if u = v then 0 else
        match lcaRow n D u v with
        | some t => (symmetrize n a).get u v / (symmetrize n a).total * clusterWeight degree n a D t
        | none => 0) := by
    intro u v
    by_cases e : u = v
    · subst e
      have h0 : (symmetrize n a).get u u = 0 := by
        rw [symmetrize_get]; split
        · rw [hloop u]; norm_num
        · rfl
      simp only [if_true, h0, zero_div, zero_mul]
      cases lcaRow n D u u <;> rfl
    · rw [if_neg e]
  show sumR ((List.range n).flatMap fun u => (List.range n).map fun v =>
      match lcaRow n D u v with
      | some t => (symmetrize n a).get u v / (symmetrize n a).total * clusterWeight degree n a D t
      | none => 0) = _
  have hf : (fun u => (List.range n).map fun v =>
      match lcaRow n D u v with
      | some t => (symmetrize n a).get u v / (symmetrize n a).total * clusterWeight degree n a D t
      | none => 0) =
      (fun u => (List.range n).map fun v =>
        if u = v then 0 else
          match lcaRow n D u v with
          | some t => (symmetrize n a).get u v / (symmetrize n a).total * clusterWeight degree n a D t
          | none => 0) := by
    funext u
    exact congrArg (fun f => (List.range n).map f) (funext fun v => hterm u v)
  rw [hf]

/-- **Dasgupta's cost and score do not depend on the numbering of the nodes** (`dasgupta_relabel_invariant`; the
    Dasgupta clause of C02). `π`, `πinv` are inverse permutations of the `n` nodes; the renumbered graph has entry
    `(i, j)` equal to the old entry `(πinv i, πinv j)` (`relabelMat`), the renumbered dendrogram has its leaf ids
    mapped by `π` and keeps its internal ids, heights and sizes (`relabelDendro`). For every square non-negative
    matrix with positive total weight and every valid dendrogram over its `n ≥ 2` nodes: the renumbered dendrogram is
    valid, and `dasgupta_cost` (uniform = sizes and degree = volumes weightings, normalised or not) and
    `dasgupta_score` return the same value on the renumbered input. -/
theorem dasgupta_relabel_invariant {n : Nat} {a : Mat} {D : Dendro α} {π πinv : Nat → Nat} (degree normalized : Bool)
    (hp : SkNet.WL.IsPerm n π πinv) (hn : 2 ≤ n) (hsq : Square n a) (hnn : ∀ i j, 0 ≤ a.get i j)
    (htot : 0 < a.total) (hv : ValidDendro n D = true) :
    ValidDendro n (relabelDendro n π D) = true ∧
    dasguptaCost degree normalized n (relabelMat n πinv a) (relabelDendro n π D) =
      dasguptaCost degree normalized n a D ∧
    dasguptaScore degree n (relabelMat n πinv a) (relabelDendro n π D) = dasguptaScore degree n a D := by
  have hv' := relabel_valid hp hv
  have hsq' := relabelMat_square n πinv a
  have htot' : (relabelMat n πinv a).total = a.total :=
    total_relabel hp hsq hsq' (fun u v hu hv => relabelMat_get_perm hp a hu hv)
  have hnn' : ∀ i j, 0 ≤ (relabelMat n πinv a).get i j := by
    intro i j
    rw [relabelMat_get]
    split
    · exact hnn _ _
    · exact le_refl _
  have hcost : ∀ nz : Bool, dasguptaCost degree nz n (relabelMat n πinv a) (relabelDendro n π D) =
      dasguptaCost degree nz n a D := by
    intro nz
    rw [dasgupta_eq_def degree nz hn hsq' hnn' (by rw [htot']; exact htot) hv',
      dasgupta_eq_def degree nz hn hsq hnn htot hv]
    unfold dasguptaDefCost
    rw [dasguptaDef_relabel hp degree hsq hv, htot']
  refine ⟨hv', hcost normalized, ?_⟩
  unfold dasguptaScore
  rw [hcost true]

/-- non-vacuity: the weighted triangle above renumbered by the cycle 0→1→2→0; the cost is again 5/6 -/
example : SkNet.WL.IsPerm 3 (fun i => (i + 1) % 3) (fun i => (i + 2) % 3) ∧
    (dasguptaCost false true 3 (relabelMat 3 (fun i => (i + 2) % 3) [[0, 2, 1], [2, 0, 3], [1, 3, 0]])
      (relabelDendro 3 (fun i => (i + 1) % 3) ([⟨1, 2, 1, 2⟩, ⟨3, 0, 2, 3⟩] : Dendro Nat))).toOption = some (5 / 6) ∧
    relabelDendro 3 (fun i => (i + 1) % 3) ([⟨1, 2, 1, 2⟩, ⟨3, 0, 2, 3⟩] : Dendro Nat) =
      [⟨2, 0, 1, 2⟩, ⟨3, 1, 2, 3⟩] := by
  refine ⟨⟨by decide, by decide, by decide, by decide⟩, by decide +kernel, by decide⟩

/-- **The tree sampling divergence is non-negative and its normalised value lies in [0, 1] — over the reals**
    (`tsd_nonneg`, `tsd_le_one`), on the model of `tree_sampling_divergence` (`tsdTerms`: the exact rational pairs
    `(edge_sampling[t], node_sampling[t])` of the score and `(A_uv, w_u · w_v)` of the mutual information, computed
    by the replay of `AggregateGraph.merge`), with the logarithms taken in ℝ (`klSum`, `tsdReal`).  The code and
    the driver evaluate the same expressions in float64: the theorem bounds the *real-valued* quantity; it says
    nothing about rounding.  On the pinned code the float quotient was far outside [0, 1] whenever the exact mutual
    information is 0 (rank-one adjacency: 1.94 for `[[6,9],[8,12]]`) — F22, repaired: the quotient is taken only
    above the threshold `τ = 1e-10` and clipped to [0, 1]; `tsdReal` has the same shape, and the clip never acts on
    the real value (last conjunct).
    For every square non-negative matrix with positive total weight, both weightings and every valid dendrogram
    over its `n ≥ 2` nodes: the function returns, `0 ≤ TSD ≤ mutual information`, hence for every threshold
    `0 ≤ τ ≤ 1`: `0 ≤ TSD(normalized=True) ≤ 1`, and it is `TSD / MI` when `MI > τ`.
    Proof: `edge_sampling[t]` and `node_sampling[t]` are the masses of the pairs of nodes whose first common merge
    is `t`, under the edge distribution and under the product of the node distributions (`tsd_lists`); a
    Kullback-Leibler divergence is non-negative and does not increase under a push-forward (log-sum inequality). -/
theorem tsd_range {n : Nat} {a : Mat} {D : Dendro α} (degree : Bool) (hn : 2 ≤ n) (hsq : Square n a)
    (hnn : ∀ i j, 0 ≤ a.get i j) (htot : 0 < a.total) (hv : ValidDendro n D = true) {τ : ℝ} (hτ0 : 0 ≤ τ)
    (hτ1 : τ ≤ 1) :
    ∃ T, tsdTerms degree n a D = .ok T ∧
      0 ≤ klSum T.score ∧ klSum T.score ≤ klSum T.mutualInfo ∧
      0 ≤ tsdReal T false τ ∧ 0 ≤ tsdReal T true τ ∧ tsdReal T true τ ≤ 1 ∧
      (τ < klSum T.mutualInfo → tsdReal T true τ = klSum T.score / klSum T.mutualInfo) := by
  obtain ⟨T, hT, h0, h1⟩ := tsd_bounds degree hn hsq hnn htot hv
  exact ⟨T, hT, h0, h1, tsdReal_range h0 h1 hτ0 hτ1⟩

/-- non-vacuity: the terms of the score on the weighted triangle: two merges, each with edge mass 1/2, node masses
    4/9 and 5/9 -/
example : (tsdTerms false 3 [[0, 2, 1], [2, 0, 3], [1, 3, 0]]
      ([⟨1, 2, 1, 2⟩, ⟨3, 0, 2, 3⟩] : Dendro Nat)).toOption.map (·.score) =
    some [(1 / 2, 4 / 9), (1 / 2, 5 / 9)] := by decide +kernel

end dasgupta




end SkNet.C08
