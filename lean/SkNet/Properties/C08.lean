/- C08 — property theorems (filled below). -/
import SkNet.Model.Cut
import SkNet.Spec.Cut

namespace SkNet.C08
open SkNet SkNet.Dendro SkNet.Cut

theorem initCluster_length (n : Nat) : (initCluster n).length = n := by simp [initCluster]

end SkNet.C08
