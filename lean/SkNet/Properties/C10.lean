/- C10 — property theorems (work in progress: filled below). -/
import SkNet.Model.Path
import SkNet.Spec.Path

namespace SkNet.C10
open SkNet SkNet.Path

theorem tab_len_example (n : Nat) : (tab n (fun v => v)).length = n := by simp

end SkNet.C10
