/-
C10 — Hop distances, shortest-path DAGs and search orders are exact.

Property theorems about the model `SkNet/Model/Path.lean` (which mirrors sknetwork/path/*.py and is tied to
the code by the correspondence harness tools/harness/c10.py).  Specification: `SkNet/Spec/Path.lean`
(`Walk`, `IsDist`, `Unreachable`).  Helper lemmas: `SkNet/Lemmas/Path.lean`.  Core Lean only.
-/
import SkNet.Lemmas.Path
import SkNet.Lemmas.Route
import SkNet.Lemmas.SpDag

namespace SkNet.C10
open SkNet SkNet.Path

attribute [-simp] List.getD_eq_getElem?_getD

/-! ## get_distances -/

/-- **bfs_exact** (with termination). For every number of nodes, every edge predicate and every source
mask, the frontier loop of `get_distances` — run with `n+1` rounds of fuel — returns (never runs out of
fuel) a vector of length `n` whose entry `v` is the length of a shortest walk from a source to `v`, and
`-1` exactly when no walk of any length reaches `v`. -/
theorem bfs_exact (n : Nat) (edge : Nat → Nat → Bool) (srcMask : List Bool) :
    ∃ dist, distancesFromMask n edge srcMask = some dist ∧
      Exact n edge (fun v => srcMask.getD v false) dist ∧ Bounded n dist := by
  unfold distancesFromMask
  exact bfsLoop_correct (n+1) 0 _ _ (inv_init srcMask) (by omega)

/-- The entries of an exact distance vector, read as the property states them. -/
theorem exact_entry {n : Nat} {edge : Nat → Nat → Bool} {src : Nat → Bool} {dist : List Int}
    (h : Exact n edge src dist) {v : Nat} (hv : v < n) :
    (dist.getD v (-1) = -1 ↔ Unreachable n edge src v) ∧
    (∀ d : Nat, dist.getD v (-1) = (d : Int) ↔ IsDist n edge src v d) := by
  rcases h.2 v hv with ⟨d, hd, hdist⟩ | ⟨hm, hun⟩
  · refine ⟨⟨fun h1 => ?_, fun hun => absurd hdist.1 (hun d)⟩, fun e => ⟨fun he => ?_, fun he => ?_⟩⟩
    · rw [hd] at h1; omega
    · have : d = e := by rw [hd] at he; omega
      subst this; exact hdist
    · -- two distances of the same node coincide
      have : d = e := by
        rcases Nat.lt_trichotomy d e with hlt | heq | hgt
        · exact absurd hdist.1 (he.2 d hlt)
        · exact heq
        · exact absurd he.1 (hdist.2 e hgt)
      subst this; exact hd
  · refine ⟨⟨fun _ => hun, fun _ => hm⟩, fun e => ⟨fun he => ?_, fun he => absurd he.1 (hun e)⟩⟩
    rw [hm] at he; omega

/-- Non-vacuity: the directed 3-cycle of the docstring, sources {0} and {0,2}. -/
example : distancesFromMask 3 (fun i j => j == (i+1) % 3) [true, false, false] = some [0, 1, 2] := by decide
example : distancesFromMask 3 (fun i j => j == (i+1) % 3) [true, false, true] = some [0, 1, 0] := by decide
example : distancesFromMask 3 (fun i j => i == 0 && j == 1) [true, false, false] = some [0, 1, -1] := by decide

/-- `get_distances` never reports exhausted fuel: whenever the argument routing succeeds, a result exists. -/
theorem getDistances_total (nRow nCol : Nat) (edge : Nat → Nat → Bool) (a : DistArgs) :
    getDistances nRow nCol edge a ≠ .ok none := by
  unfold getDistances
  cases hr : routeDistances nRow nCol a with
  | error e => simp [bind, Except.bind]
  | ok r =>
    obtain ⟨dist, hd, _, _⟩ := bfs_exact r.nNodes (routedEdge a r edge) r.mask
    simp only [bind, Except.bind, hd]
    split <;> simp [pure, Except.pure]

/-! ## the executable specification of the `spec` lines -/

/-- a hop distance is always smaller than the number of nodes -/
theorem isDist_lt {n : Nat} {edge : Nat → Nat → Bool} {src : Nat → Bool} {v d : Nat}
    (h : IsDist n edge src v d) : d < n := by
  obtain ⟨dist, _, hex, hb⟩ := bfs_exact n edge (tab n src)
  have hv : v < n := h.1.lt
  have hc : ∀ w, w < n → src w = (fun v => (tab n src).getD v false) w := by
    intro w hw; simp [hw]
  have h' : IsDist n edge (fun v => (tab n src).getD v false) v d := (IsDist.congr hc v d).1 h
  rcases hex.2 v hv with ⟨e, he, hde⟩ | ⟨_, hun⟩
  · have : d = e := by
      rcases Nat.lt_trichotomy d e with hlt | heq | hgt
      · exact absurd h'.1 (hde.2 d hlt)
      · exact heq
      · exact absurd hde.1 (h'.2 e hgt)
    subst this
    exact hb v hv d he
  · exact absurd h'.1 (hun d)

theorem walkLayer_iff (n : Nat) (edge : Nat → Nat → Bool) (src : Nat → Bool) (d v : Nat) :
    (walkLayer n edge src d).getD v false = true ↔ Walk n edge src d v := by
  induction d generalizing v with
  | zero =>
    rw [Walk.zero_iff]
    simp only [walkLayer, tab_getD]
    by_cases hv : v < n <;> simp [hv]
  | succ d ih =>
    rw [Walk.succ_iff]
    simp only [walkLayer, tab_getD]
    by_cases hv : v < n
    · simp only [hv, if_true, List.any_eq_true, List.mem_range, Bool.and_eq_true, true_and]
      constructor
      · rintro ⟨u, _, hu, he⟩; exact ⟨u, (ih u).1 hu, he⟩
      · rintro ⟨u, hu, he⟩; exact ⟨u, hu.lt, (ih u).2 hu, he⟩
    · simp [hv]

/-- **hopDist_spec**. The executable specification evaluated by the driver on the implementation's outputs
(`c10.spec_*` lines) computes exactly the hop distance of the propositional specification. -/
theorem hopDist_spec (n : Nat) (edge : Nat → Nat → Bool) (src : Nat → Bool) (v : Nat) :
    (∀ d : Nat, hopDist n edge src v = (d : Int) ↔ IsDist n edge src v d) ∧
    (hopDist n edge src v = -1 ↔ Unreachable n edge src v) := by
  unfold hopDist
  cases hf : findFirst (fun d => (walkLayer n edge src d).getD v false) 0 n with
  | some d =>
    obtain ⟨_, hdn, hfd, hmin⟩ := (findFirst_some _ n 0 d).1 hf
    have hdist : IsDist n edge src v d := by
      refine ⟨(walkLayer_iff n edge src d v).1 hfd, fun e he hw => ?_⟩
      have := hmin e (Nat.zero_le _) he
      rw [(walkLayer_iff n edge src e v).2 hw] at this
      exact Bool.noConfusion this
    refine ⟨fun e => ⟨fun h => ?_, fun h => ?_⟩, ⟨fun h => ?_, fun h => absurd hdist.1 (h d)⟩⟩
    · have : d = e := Int.ofNat.inj h
      subst this; exact hdist
    · have : d = e := by
        rcases Nat.lt_trichotomy d e with hlt | heq | hgt
        · exact absurd hdist.1 (h.2 d hlt)
        · exact heq
        · exact absurd h.1 (hdist.2 e hgt)
      subst this; rfl
    · simp at h
  | none =>
    have hnone := (findFirst_none _ n 0).1 hf
    have hun : Unreachable n edge src v := by
      intro d hw
      -- a reachable node has a hop distance, which is below n, where the scan found nothing
      have hex : ∃ e, IsDist n edge src v e := by
        clear hnone hf
        induction d using Nat.strongRecOn with
        | _ d ih =>
          by_cases hmin : ∀ d', d' < d → ¬ Walk n edge src d' v
          · exact ⟨d, hw, hmin⟩
          · have : ∃ d', d' < d ∧ Walk n edge src d' v := by
              apply Classical.byContradiction
              intro hcon
              exact hmin (fun d' hd' hw' => hcon ⟨d', hd', hw'⟩)
            obtain ⟨d', hd', hw'⟩ := this
            exact ih d' hd' hw'
      obtain ⟨e, he⟩ := hex
      have := hnone e (Nat.zero_le _) (by simpa using isDist_lt he)
      rw [(walkLayer_iff n edge src e v).2 he.1] at this
      exact Bool.noConfusion this
    refine ⟨fun e => ⟨fun h => ?_, fun h => absurd h.1 (hun e)⟩, ⟨fun _ => hun, fun _ => rfl⟩⟩
    simp at h

example : hopDist 3 (fun i j => j == (i+1) % 3) (fun v => v == 0) 2 = 2 := by decide

/-! ## argument routing (shared with C03) -/

/-- `mask[idx] = 1`: afterwards exactly the old nodes and the listed ones are set. -/
theorem setMask_spec {n : Nat} {mask : List Bool} {idx : List Nat} {m : List Bool}
    (h : setMask n mask idx = .ok m) :
    (∀ i ∈ idx, i < n) ∧ m.length = n ∧
    ∀ v, v < n → (m.getD v false = true ↔ mask.getD v false = true ∨ v ∈ idx) := by
  unfold setMask at h
  split at h
  · rename_i hall
    cases h
    refine ⟨fun i hi => by simpa using List.all_eq_true.1 hall i hi, by simp, fun v hv => ?_⟩
    simp [hv]
  · cases h

/-- `setMask` refuses exactly when an index is out of range (numpy's IndexError). -/
theorem setMask_error_iff {n : Nat} {mask : List Bool} {idx : List Nat} :
    setMask n mask idx = .error .indexError ↔ ∃ i ∈ idx, n ≤ i := by
  unfold setMask
  split
  · rename_i hall
    constructor
    · intro h; cases h
    · rintro ⟨i, hi, hn⟩
      have := List.all_eq_true.1 hall i hi
      simp at this; omega
  · rename_i hall
    constructor
    · intro _
      have hf : idx.all (· < n) = false := by simpa using hall
      obtain ⟨i, hi, hlt⟩ := List.all_eq_false.1 hf
      exact ⟨i, hi, by simpa using hlt⟩
    · intro _; rfl

/-- **distances_routing (plain graph)**. On a square matrix without any bipartite request, the mask handed
to the loop is exactly the source set, the graph is the input (transposed when asked), and a missing
`source` is the documented `ValueError`. -/
theorem route_plain (n : Nat) (a : DistArgs) (hrow : a.sourceRow = none) (hcol : a.sourceCol = none)
    (hfb : a.forceBipartite = false) :
    (a.source = none → routeDistances n n a = .error .valueError) ∧
    (∀ s, a.source = some s → (∀ i ∈ s, i < n) →
      ∃ m, routeDistances n n a = .ok ⟨false, n, n, m⟩ ∧ m.length = n ∧
        ∀ v, v < n → (m.getD v false = true ↔ v ∈ s)) := by
  constructor
  · intro hs
    simp [routeDistances, hrow, hcol, hfb, hs, throw, throwThe, MonadExceptOf.throw]
  · intro s hs hin
    have hall : s.all (· < n) = true := List.all_eq_true.2 (fun i hi => by simpa using hin i hi)
    refine ⟨tab n fun v => (tab n fun _ => false).getD v false || s.contains v, ?_, by simp, fun v hv => ?_⟩
    · simp [routeDistances, hrow, hcol, hfb, hs, bind, Except.bind, setMask, hall, pure, Except.pure]
    · simp [hv]

/-- **distances_routing (bipartite)**. With `source_row` / `source_col` (or `source` as alias of
`source_row`) on an `nRow × nCol` biadjacency matrix, the mask handed to the loop is the block-numbered
source set: row node `i` at `i`, column node `j` at `nRow + j`. -/
theorem route_bipartite (nRow nCol : Nat) (sr sc : List Nat)
    (hsr : ∀ i ∈ sr, i < nRow) (hsc : ∀ j ∈ sc, j < nCol) :
    ∃ m, routeDistances nRow nCol { sourceRow := some sr, sourceCol := some sc }
          = .ok ⟨true, nRow, nRow + nCol, m⟩ ∧ m.length = nRow + nCol ∧
      ∀ v, v < nRow + nCol →
        (m.getD v false = true ↔ (v ∈ sr ∨ (nRow ≤ v ∧ (v - nRow) ∈ sc))) := by
  have h1 : sr.all (· < nRow + nCol) = true :=
    List.all_eq_true.2 (fun i hi => by have := hsr i hi; simp; omega)
  have h2 : (sc.map (nRow + ·)).all (· < nRow + nCol) = true := by
    apply List.all_eq_true.2
    intro i hi
    obtain ⟨j, hj, rfl⟩ := List.mem_map.1 hi
    have := hsc j hj
    simp; omega
  refine ⟨tab (nRow + nCol) fun v =>
      (tab (nRow + nCol) fun v => (tab (nRow + nCol) fun _ => false).getD v false || sr.contains v).getD v false
        || (sc.map (nRow + ·)).contains v, ?_, ?_, ?_⟩
  · simp [routeDistances, bind, Except.bind, setMask, h1, h2, pure, Except.pure]
  · simp
  · intro v hv
    simp only [tab_getD, hv, if_true, Bool.or_eq_true, List.contains_eq_mem, decide_eq_true_eq,
      List.mem_map]
    constructor
    · rintro ((h | h) | ⟨j, hj, rfl⟩)
      · exact absurd h (by decide)
      · exact Or.inl h
      · right; exact ⟨by omega, by rwa [Nat.add_sub_cancel_left]⟩
    · rintro (h | ⟨hle, h⟩)
      · exact Or.inl (Or.inr h)
      · right; exact ⟨v - nRow, h, by omega⟩

/-- Non-vacuity of the routing theorems: a 2×3 biadjacency with a row source and a column source. -/
example : (routeDistances 2 3 { sourceRow := some [1], sourceCol := some [2] }).toOption.map (·.mask)
    = some [false, true, false, false, true] := by decide

/-- The block adjacency used for bipartite input is `[[0,B],[Bᵀ,0]]` with the rows first. -/
theorem blockEdge_spec (nRow : Nat) (b : Nat → Nat → Bool) (i j : Nat) :
    blockEdge nRow b i j = true ↔
      (i < nRow ∧ nRow ≤ j ∧ b i (j - nRow) = true) ∨ (nRow ≤ i ∧ j < nRow ∧ b j (i - nRow) = true) := by
  unfold blockEdge
  by_cases hi : i < nRow <;> by_cases hj : j < nRow <;> simp [hi, hj] <;> omega

/-- the block adjacency is symmetric (an undirected graph) -/
theorem blockEdge_symm (nRow : Nat) (b : Nat → Nat → Bool) (i j : Nat) :
    blockEdge nRow b i j = blockEdge nRow b j i := by
  unfold blockEdge
  by_cases hi : i < nRow <;> by_cases hj : j < nRow <;> simp [hi, hj]

/-- **get_distances, end to end (plain graph).** For a square matrix and a set of in-range sources, the
function returns one vector, which is exact for the source set. -/
theorem getDistances_plain_exact (n : Nat) (edge : Nat → Nat → Bool) (s : List Nat) (hs : ∀ i ∈ s, i < n) :
    ∃ d, getDistances n n edge { source := some s } = .ok (some (.single d)) ∧
      Exact n edge (fun v => s.contains v) d := by
  obtain ⟨m, hroute, _, hm⟩ := (route_plain n { source := some s } rfl rfl rfl).2 s rfl hs
  obtain ⟨d, hd, hex, _⟩ := bfs_exact n (routedEdge { source := some s } ⟨false, n, n, m⟩ edge) m
  refine ⟨d, ?_, ?_⟩
  · unfold getDistances
    simp only [hroute, bind, Except.bind, hd]
    rfl
  · have hedge : routedEdge { source := some s } ⟨false, n, n, m⟩ edge = edge := by
      simp [routedEdge]
    rw [hedge] at hex
    apply Exact.congr (src := fun v => m.getD v false) _ hex
    intro v hv
    apply Bool.eq_iff_iff.2
    rw [hm v hv]; simp

/-- **get_distances, end to end (bipartite).** With row and column sources on an `nRow × nCol`
biadjacency matrix, the two returned vectors are the exact distances in the block graph `[[0,B],[Bᵀ,0]]`
(rows first) from the block-numbered sources, split at `nRow`. -/
theorem getDistances_bipartite_exact (nRow nCol : Nat) (b : Nat → Nat → Bool) (sr sc : List Nat)
    (hsr : ∀ i ∈ sr, i < nRow) (hsc : ∀ j ∈ sc, j < nCol) :
    ∃ d, getDistances nRow nCol b { sourceRow := some sr, sourceCol := some sc }
          = .ok (some (.pair (d.take nRow) (d.drop nRow))) ∧
      Exact (nRow + nCol) (blockEdge nRow b)
        (fun v => sr.contains v || (decide (nRow ≤ v) && sc.contains (v - nRow))) d := by
  obtain ⟨m, hroute, _, hm⟩ := route_bipartite nRow nCol sr sc hsr hsc
  obtain ⟨d, hd, hex, _⟩ := bfs_exact (nRow + nCol)
    (routedEdge { sourceRow := some sr, sourceCol := some sc } ⟨true, nRow, nRow + nCol, m⟩ b) m
  refine ⟨d, ?_, ?_⟩
  · unfold getDistances
    simp only [hroute, bind, Except.bind, hd]
    rfl
  · have hedge : routedEdge { sourceRow := some sr, sourceCol := some sc } ⟨true, nRow, nRow + nCol, m⟩ b
        = blockEdge nRow b := by
      simp [routedEdge]
    rw [hedge] at hex
    apply Exact.congr (src := fun v => m.getD v false) _ hex
    intro v hv
    apply Bool.eq_iff_iff.2
    rw [hm v hv]; simp

/-- **route_spec**. The routing of `get_distances`, for every combination of `source`, `source_row`,
`source_col`, `transpose`, `force_bipartite` and every shape: which refusal comes first, and otherwise which
graph (plain or block, transposed or not) the loop runs on, with how many nodes, and exactly which nodes are
sources (row node `i` at `i`, column node `j` at `n_row + j`, `n_row` of the matrix after transposition;
`source` is an alias of `source_row` on bipartite input). -/
theorem route_spec (nRow0 nCol0 : Nat) (a : DistArgs) :
    (((routeSpec nRow0 nCol0 a).ValueError a) → routeDistances nRow0 nCol0 a = .error .valueError) ∧
    (¬ (routeSpec nRow0 nCol0 a).ValueError a → (routeSpec nRow0 nCol0 a).IndexError →
      routeDistances nRow0 nCol0 a = .error .indexError) ∧
    (¬ (routeSpec nRow0 nCol0 a).ValueError a → ¬ (routeSpec nRow0 nCol0 a).IndexError →
      ∃ m, routeDistances nRow0 nCol0 a =
          .ok ⟨(routeSpec nRow0 nCol0 a).bipartite, (routeSpec nRow0 nCol0 a).nRow, (routeSpec nRow0 nCol0 a).nNodes, m⟩ ∧
        m.length = (routeSpec nRow0 nCol0 a).nNodes ∧
        ∀ v, v < (routeSpec nRow0 nCol0 a).nNodes → m.getD v false = (routeSpec nRow0 nCol0 a).isSource v) := by
  generalize hs : routeSpec nRow0 nCol0 a = s
  have hn := route_normal nRow0 nCol0 a
  simp only [hs] at hn
  have hve : ((s.bipartite && a.source.isSome && a.sourceRow.isSome) || (s.rowSrc.isNone && s.colSrc.isNone)) = true
      ↔ s.ValueError a := by
    simp [RouteSpec.ValueError, Option.isNone_iff_eq_none, and_assoc]
  refine ⟨fun h => ?_, fun hnv hie => ?_, fun hnv hnie => ?_⟩
  · rw [hn, if_pos (hve.2 h)]
  · rw [hn, if_neg (fun h => hnv (hve.1 h))]
    rcases hie with ⟨i, hi, hle⟩ | ⟨j, hj, hle⟩
    · rw [setMask_error_iff.2 ⟨i, hi, hle⟩]; rfl
    · cases h1 : setMask s.nNodes (tab s.nNodes fun _ => false) (s.rowSrc.getD []) with
      | error e => rw [setMask_error_kind h1]; rfl
      | ok m1 =>
        simp only [Except.bind]
        rw [setMask_error_iff.2 ⟨s.nRow + j, List.mem_map.2 ⟨j, hj, rfl⟩, hle⟩]
  · rw [hn, if_neg (fun h => hnv (hve.1 h))]
    have hrow : ∀ i ∈ s.rowSrc.getD [], i < s.nNodes := fun i hi =>
      Nat.lt_of_not_le fun hle => hnie (Or.inl ⟨i, hi, hle⟩)
    have hcol : ∀ i ∈ (s.colSrc.getD []).map (s.nRow + ·), i < s.nNodes := fun i hi => by
      obtain ⟨j, hj, rfl⟩ := List.mem_map.1 hi
      exact Nat.lt_of_not_le fun hle => hnie (Or.inr ⟨j, hj, hle⟩)
    obtain ⟨m1, h1⟩ := setMask_ok_of (tab s.nNodes fun _ => false) hrow
    obtain ⟨m2, h2⟩ := setMask_ok_of m1 hcol
    refine ⟨m2, by rw [h1]; simp only [Except.bind]; rw [h2], (setMask_spec h2).2.1, fun v hv => ?_⟩
    apply Bool.eq_iff_iff.2
    rw [(setMask_spec h2).2.2 v hv, (setMask_spec h1).2.2 v hv]
    simp only [tab_getD, hv, if_true, RouteSpec.isSource, List.mem_map, Bool.or_eq_true, Bool.and_eq_true,
      List.contains_eq_mem, decide_eq_true_eq]
    constructor
    · rintro ((h | h) | ⟨j, hj, rfl⟩)
      · exact absurd h (by decide)
      · exact Or.inl h
      · exact Or.inr ⟨by omega, by rwa [Nat.add_sub_cancel_left]⟩
    · rintro (h | ⟨hle, h⟩)
      · exact Or.inl (Or.inr h)
      · exact Or.inr ⟨v - s.nRow, h, by omega⟩

/-- **getDistances_exact**. `get_distances`, end to end, for *every* argument combination the routing accepts
(plain or bipartite, transposed or not, `force_bipartite` set or implied, `source` alias, sources on one side
or both): one vector on a plain graph, the split `[:n_row]`, `[n_row:]` on a bipartite one, of the exact hop
distances in the routed graph from exactly the routed sources. -/
theorem getDistances_exact (nRow0 nCol0 : Nat) (edge0 : Nat → Nat → Bool) (a : DistArgs)
    (hv : ¬ (routeSpec nRow0 nCol0 a).ValueError a) (hi : ¬ (routeSpec nRow0 nCol0 a).IndexError) :
    ∃ d, getDistances nRow0 nCol0 edge0 a =
          .ok (some (if (routeSpec nRow0 nCol0 a).bipartite
            then .pair (d.take (routeSpec nRow0 nCol0 a).nRow) (d.drop (routeSpec nRow0 nCol0 a).nRow) else .single d)) ∧
      Exact (routeSpec nRow0 nCol0 a).nNodes
        (let m := if a.transpose then (fun i j => edge0 j i) else edge0
         if (routeSpec nRow0 nCol0 a).bipartite then blockEdge (routeSpec nRow0 nCol0 a).nRow m else m)
        (routeSpec nRow0 nCol0 a).isSource d := by
  obtain ⟨m, hroute, _, hm⟩ := (route_spec nRow0 nCol0 a).2.2 hv hi
  generalize routeSpec nRow0 nCol0 a = s at *
  obtain ⟨d, hd, hex, _⟩ := bfs_exact s.nNodes (routedEdge a ⟨s.bipartite, s.nRow, s.nNodes, m⟩ edge0) m
  refine ⟨d, ?_, ?_⟩
  · unfold getDistances
    simp only [hroute, bind, Except.bind, hd]
    split <;> rfl
  · exact Exact.congr (src := fun v => m.getD v false) hm hex

/-- Non-vacuity of `route_spec` / `getDistances_exact`: a 2×3 biadjacency, transposed (so 3 row nodes), `source` used as
alias of `source_row` together with a column source, flag implied; and a square matrix with the flag set. -/
example :
    ¬ (routeSpec 2 3 { source := some [2], sourceCol := some [1], transpose := true }).ValueError
        { source := some [2], sourceCol := some [1], transpose := true } ∧
    ¬ (routeSpec 2 3 { source := some [2], sourceCol := some [1], transpose := true }).IndexError ∧
    (routeDistances 2 3 { source := some [2], sourceCol := some [1], transpose := true }).toOption.map (·.mask)
      = some [false, false, true, false, true] ∧
    (routeSpec 2 2 { source := some [0], forceBipartite := true }).bipartite = true ∧
    (routeSpec 2 2 { source := some [0] }).bipartite = false ∧
    (routeSpec 2 2 { source := some [0], sourceRow := some [1] }).ValueError { source := some [0], sourceRow := some [1] } ∧
    (routeSpec 2 2 { source := some [2] }).IndexError := by decide

/-! ## get_dag -/

/-- **getDag_loop_any_values**. The loop `for value in np.unique(order)` of `get_dag` keeps exactly the stored edges
that go from a node of non-negative order to a node of strictly higher order — as a list, in storage order —
whatever list of values it iterates over, in whatever order and with whatever repetitions, as long as the
order of every stored row is among them (which is all that is assumed about `np.unique`). -/
theorem getDag_loop_any_values (es : List Entry) (order values : List Int)
    (hmem : ∀ e ∈ es, order.getD e.row 0 ∈ values) :
    pairsOf ((dagLoop order values es).filter (·.keep)) =
      pairsOf (es.filter fun e => e.keep && decide (0 ≤ order.getD e.row 0) &&
                                   decide (order.getD e.row 0 < order.getD e.col 0)) := by
  unfold pairsOf
  rw [dagLoop_eq_map]
  induction es with
  | nil => simp
  | cons e es ih =>
    have ih' := ih (fun x hx => hmem x (by simp [hx]))
    obtain ⟨h1, h2, h3⟩ := loopE_spec order values e
    have hk := killed_iff_of_mem order values e (hmem e (by simp))
    have hcond : (loopE order values e).keep =
        (e.keep && decide (0 ≤ order.getD e.row 0) && decide (order.getD e.row 0 < order.getD e.col 0)) := by
      apply Bool.eq_iff_iff.2
      rw [h3]
      simp only [Bool.and_eq_true, decide_eq_true_eq]
      constructor
      · rintro ⟨hkeep, hall⟩
        have hnot : ¬ (order.getD e.row 0 < 0 ∨ order.getD e.col 0 ≤ order.getD e.row 0) := by
          intro hc
          obtain ⟨v, hv, hkv⟩ := hk.2 hc
          rw [hall v hv] at hkv; exact Bool.noConfusion hkv
        refine ⟨⟨hkeep, ?_⟩, ?_⟩ <;> omega
      · rintro ⟨⟨hkeep, h0⟩, hlt⟩
        refine ⟨hkeep, fun v hv => ?_⟩
        cases hkv : kills order v e
        · rfl
        · have := hk.1 ⟨v, hv, hkv⟩
          omega
    simp only [List.map_cons, List.filter_cons]
    rw [hcond]
    split
    · simp only [List.map_cons, h1, h2]
      rw [ih']
    · exact ih'

/-- **getDag_exact**. `get_dag` (one mask over the stored entries) keeps exactly the stored edges that go from a
node of non-negative order to a node of strictly higher order, as a list in storage order. `order` must cover every
stored row and column index (the code raises `IndexError` otherwise; that branch is outside the model). -/
theorem getDag_exact (es : List Entry) (order : List Int) (_hrow : ∀ e ∈ es, e.row < order.length)
    (_hcol : ∀ e ∈ es, e.col < order.length) :
    pairsOf (getDagEntries es order) =
      pairsOf (es.filter fun e => e.keep && decide (0 ≤ order.getD e.row 0) &&
                                   decide (order.getD e.row 0 < order.getD e.col 0)) := by
  unfold getDagEntries pairsOf
  induction es with
  | nil => simp
  | cons e es ih =>
    have ih' := ih (fun x hx => _hrow x (by simp [hx])) (fun x hx => _hcol x (by simp [hx]))
    have hcond : (maskE order e).keep =
        (e.keep && decide (0 ≤ order.getD e.row 0) && decide (order.getD e.row 0 < order.getD e.col 0)) := by
      unfold maskE
      by_cases h1 : order.getD e.row 0 < 0
      · have : ¬ (0 ≤ order.getD e.row 0) := by omega
        simp [h1, this]
      · by_cases h2 : order.getD e.col 0 ≤ order.getD e.row 0
        · have : ¬ (order.getD e.row 0 < order.getD e.col 0) := by omega
          simp [h1, h2, this]
        · have h3 : 0 ≤ order.getD e.row 0 := by omega
          have h4 : order.getD e.row 0 < order.getD e.col 0 := by omega
          simp [h1, h2, h3, h4]
    have hrc : (maskE order e).row = e.row ∧ (maskE order e).col = e.col := by
      unfold maskE; split <;> simp
    simp only [List.map_cons, List.filter_cons]
    rw [hcond]
    split
    · simp only [List.map_cons, hrc.1, hrc.2]
      rw [ih']
    · exact ih'

/-- **getDag_onepass_eq_loop**. The one-pass mask of the current `get_dag` keeps the same edges, in the same order,
as the loop over `np.unique(order)` of the pinned version (a refinement between the two versions of the code: the
rewrite of /repo 25e6718d changed the cost, not the result). -/
theorem getDag_onepass_eq_loop (es : List Entry) (order : List Int) (hrow : ∀ e ∈ es, e.row < order.length)
    (hcol : ∀ e ∈ es, e.col < order.length) :
    pairsOf (getDagEntries es order) = pairsOf (getDagEntriesLoop es order) := by
  rw [getDag_exact es order hrow hcol]
  unfold getDagEntriesLoop
  exact (getDag_loop_any_values es order (unique order) fun e he => mem_unique_row order e (hrow e he)).symm

/-- **getDag_exact**, read edge by edge on an `n × n` graph: `(i,j)` is an edge of the result iff it is an
edge of the graph with `0 ≤ order i < order j`. -/
theorem getDag_edge_iff (n : Nat) (edge : Nat → Nat → Bool) (order : List Int) (hlen : order.length = n)
    (i j : Nat) :
    (i, j) ∈ pairsOf (getDagEntries (entriesOf n edge) order) ↔
      i < n ∧ j < n ∧ edge i j = true ∧ 0 ≤ order.getD i 0 ∧ order.getD i 0 < order.getD j 0 := by
  rw [getDag_exact _ _ (fun e he => by rw [hlen]; exact ((mem_entriesOf n edge e).1 he).1)
    (fun e he => by rw [hlen]; exact ((mem_entriesOf n edge e).1 he).2.1)]
  unfold pairsOf
  simp only [List.mem_map, List.mem_filter, Bool.and_eq_true, decide_eq_true_eq, Prod.mk.injEq]
  constructor
  · rintro ⟨e, ⟨he, ⟨_, h0⟩, hlt⟩, rfl, rfl⟩
    obtain ⟨hi, hj, hedge, _⟩ := (mem_entriesOf n edge e).1 he
    exact ⟨hi, hj, hedge, h0, hlt⟩
  · rintro ⟨hi, hj, hedge, h0, hlt⟩
    exact ⟨⟨i, j, true⟩, ⟨(mem_entriesOf n edge _).2 ⟨hi, hj, hedge, rfl⟩, ⟨rfl, h0⟩, hlt⟩, rfl, rfl⟩

example : pairsOf (getDagEntries (entriesOf 3 (fun i j => i != j)) [2, -1, 5]) = [(0, 2)] := by decide

/-! ## get_shortest_path -/

/-- along an edge the distance grows by at most one, and reachability propagates -/
theorem dist_edge {n : Nat} {edge : Nat → Nat → Bool} {src : Nat → Bool} {dist : List Int}
    (h : Exact n edge src dist) {i j : Nat} (hj : j < n) (he : edge i j = true) {d : Nat}
    (hi : IsDist n edge src i d) :
    ∃ e : Nat, e ≤ d + 1 ∧ IsDist n edge src j e ∧ dist.getD j (-1) = (e : Int) := by
  have hw : Walk n edge src (d+1) j := Walk.succ hi.1 he hj
  rcases h.2 j hj with ⟨e, he', hdist⟩ | ⟨_, hun⟩
  · refine ⟨e, ?_, hdist, he'⟩
    by_cases hle : e ≤ d + 1
    · exact hle
    · exact absurd hw (hdist.2 _ (by omega))
  · exact absurd hw (hun _)

/-- **shortestPathDag_exact**. With `order` = an exact distance vector, `get_dag` keeps exactly the edges
`(i,j)` of the graph with `i` reachable and `dist j = dist i + 1` (edges never skip a layer). -/
theorem shortestPathDag_exact (n : Nat) (edge : Nat → Nat → Bool) (src : Nat → Bool) (dist : List Int)
    (h : Exact n edge src dist) (i j : Nat) :
    (i, j) ∈ pairsOf (getDagEntries (entriesOf n edge) dist) ↔
      i < n ∧ j < n ∧ edge i j = true ∧
        ∃ d : Nat, IsDist n edge src i d ∧ IsDist n edge src j (d+1) := by
  rw [getDag_edge_iff n edge dist h.1]
  constructor
  · rintro ⟨hi, hj, he, h0, hlt⟩
    refine ⟨hi, hj, he, ?_⟩
    have hgi : dist.getD i 0 = dist.getD i (-1) := by
      rw [List.getD_eq_getElem?_getD, List.getD_eq_getElem?_getD, List.getElem?_eq_getElem (by rw [h.1]; exact hi)]
      rfl
    have hgj : dist.getD j 0 = dist.getD j (-1) := by
      rw [List.getD_eq_getElem?_getD, List.getD_eq_getElem?_getD, List.getElem?_eq_getElem (by rw [h.1]; exact hj)]
      rfl
    rw [hgi] at h0 hlt; rw [hgj] at hlt
    rcases h.2 i hi with ⟨d, hd, hdi⟩ | ⟨hm, _⟩
    · obtain ⟨e, hle, hdj, hej⟩ := dist_edge h hj he hdi
      rw [hd, hej] at hlt
      have : e = d + 1 := by omega
      subst this
      exact ⟨d, hdi, hdj⟩
    · omega
  · rintro ⟨hi, hj, he, d, hdi, hdj⟩
    refine ⟨hi, hj, he, ?_⟩
    have hgi : dist.getD i 0 = dist.getD i (-1) := by
      rw [List.getD_eq_getElem?_getD, List.getD_eq_getElem?_getD, List.getElem?_eq_getElem (by rw [h.1]; exact hi)]
      rfl
    have hgj : dist.getD j 0 = dist.getD j (-1) := by
      rw [List.getD_eq_getElem?_getD, List.getD_eq_getElem?_getD, List.getElem?_eq_getElem (by rw [h.1]; exact hj)]
      rfl
    rw [hgi, hgj, ((exact_entry h hi).2 d).2 hdi, ((exact_entry h hj).2 (d+1)).2 hdj]
    omega

/-- **get_shortest_path, end to end (plain graph).** The function returns an `n`-node graph whose edges are
exactly the edges `(i,j)` of the input with `i` reachable from the sources and `dist j = dist i + 1`. -/
theorem getShortestPath_plain_exact (n : Nat) (edge : Nat → Nat → Bool) (s : List Nat)
    (hs : ∀ i ∈ s, i < n) :
    ∃ ps, getShortestPath n n edge { source := some s } = .ok (some (n, ps)) ∧
      ∀ i j, (i, j) ∈ ps ↔ i < n ∧ j < n ∧ edge i j = true ∧
        ∃ d : Nat, IsDist n edge (fun v => s.contains v) i d ∧ IsDist n edge (fun v => s.contains v) j (d+1) := by
  obtain ⟨d, hd, hex⟩ := getDistances_plain_exact n edge s hs
  refine ⟨pairsOf (getDagEntries (entriesOf n edge) d), ?_, fun i j => shortestPathDag_exact n edge _ d hex i j⟩
  unfold getShortestPath
  simp only [hd, bind, Except.bind]
  simp [pure, Except.pure]

example : (getShortestPath 3 3 (fun i j => j == (i+1) % 3) { source := some [0] }).toOption
    = some (some (3, [(0, 1), (1, 2)])) := by decide

/-- **getShortestPath_exact**. `get_shortest_path`, end to end, for every argument combination the routing
accepts (square or rectangular input, `force_bipartite` set or implied by `source_row` / `source_col`, `source`
alias, sources on one side or both): the result has the nodes of the routed graph (`n` for a plain graph,
`n_row + n_col` for a bipartite one) and its edges are exactly the edges `(i,j)` of the routed graph with `i`
reachable from the routed sources and `dist j = dist i + 1`. -/
theorem getShortestPath_exact (nRow0 nCol0 : Nat) (edge0 : Nat → Nat → Bool) (a : PathArgs)
    (hv : ¬ (routeSpec nRow0 nCol0 a.toDist).ValueError a.toDist)
    (hi : ¬ (routeSpec nRow0 nCol0 a.toDist).IndexError) :
    ∃ ps, getShortestPath nRow0 nCol0 edge0 a = .ok (some ((routeSpec nRow0 nCol0 a.toDist).nNodes, ps)) ∧
      ∀ i j, (i, j) ∈ ps ↔
        i < (routeSpec nRow0 nCol0 a.toDist).nNodes ∧ j < (routeSpec nRow0 nCol0 a.toDist).nNodes ∧
        (if (routeSpec nRow0 nCol0 a.toDist).bipartite then blockEdge nRow0 edge0 else edge0) i j = true ∧
        ∃ d : Nat,
          IsDist (routeSpec nRow0 nCol0 a.toDist).nNodes
            (if (routeSpec nRow0 nCol0 a.toDist).bipartite then blockEdge nRow0 edge0 else edge0)
            (routeSpec nRow0 nCol0 a.toDist).isSource i d ∧
          IsDist (routeSpec nRow0 nCol0 a.toDist).nNodes
            (if (routeSpec nRow0 nCol0 a.toDist).bipartite then blockEdge nRow0 edge0 else edge0)
            (routeSpec nRow0 nCol0 a.toDist).isSource j (d+1) := by
  obtain ⟨d, hd, hex⟩ := getDistances_exact nRow0 nCol0 edge0 a.toDist hv hi
  have hrow : (routeSpec nRow0 nCol0 a.toDist).nRow = nRow0 := by simp [routeSpec, PathArgs.toDist]
  have hnn : (routeSpec nRow0 nCol0 a.toDist).nNodes =
      if (routeSpec nRow0 nCol0 a.toDist).bipartite then nRow0 + nCol0 else nRow0 := by
    simp [routeSpec, PathArgs.toDist]
  have hsq : (routeSpec nRow0 nCol0 a.toDist).bipartite = false → nRow0 = nCol0 := by
    simp [routeSpec, PathArgs.toDist]
  have htr : a.toDist.transpose = false := rfl
  simp only [htr, hrow] at hex hd
  generalize routeSpec nRow0 nCol0 a.toDist = s at *
  have hda : (DistArgs.mk a.source a.sourceRow a.sourceCol false a.forceBipartite) = a.toDist := rfl
  cases hb : s.bipartite
  · simp only [hb, Bool.false_eq_true, ↓reduceIte] at hex hd hnn ⊢
    refine ⟨pairsOf (getDagEntries (entriesOf nRow0 edge0) d), ?_, fun i j => ?_⟩
    · unfold getShortestPath
      rw [hda, hd]
      simp only [bind, Except.bind, hnn]
      simp [pure, Except.pure, hsq hb]
    · rw [hnn] at hex ⊢
      exact shortestPathDag_exact nRow0 edge0 _ d hex i j
  · simp only [hb, Bool.false_eq_true, ↓reduceIte] at hex hd hnn ⊢
    refine ⟨pairsOf (getDagEntries (entriesOf (nRow0 + nCol0) (blockEdge nRow0 edge0)) d), ?_, fun i j => ?_⟩
    · unfold getShortestPath
      rw [hda, hd]
      simp only [bind, Except.bind, hnn, List.take_append_drop]
      rfl
    · rw [hnn] at hex ⊢
      exact shortestPathDag_exact (nRow0 + nCol0) (blockEdge nRow0 edge0) _ d hex i j

/-- Non-vacuity: a 2×2 biadjacency with only a column source (flag implied), and the same matrix as a plain graph. -/
example :
    (getShortestPath 2 2 (fun i j => i == j) { sourceCol := some [0] }).toOption = some (some (4, [(2, 0)])) ∧
    (getShortestPath 2 2 (fun i j => i != j) { source := some [0] }).toOption = some (some (2, [(0, 1)])) := by decide

/-- **getDag_order_congr**. `get_dag` reads the order vector only through the test `0 ≤ order[i] < order[j]` on the
stored entries: two order vectors (of any magnitudes — what an integer dtype can or cannot hold plays no role) that agree
on this test for every stored entry give the same result, entry by entry and in the same storage order. -/
theorem getDag_order_congr (es : List Entry) (o o' : List Int)
    (h : ∀ e ∈ es, (0 ≤ o.getD e.row 0 ∧ o.getD e.row 0 < o.getD e.col 0) ↔
                   (0 ≤ o'.getD e.row 0 ∧ o'.getD e.row 0 < o'.getD e.col 0)) :
    getDagEntries es o = getDagEntries es o' := by
  unfold getDagEntries
  congr 1
  apply List.map_congr_left
  intro e he
  have hiff := h e he
  have hb : (decide (o.getD e.row 0 < 0) || decide (o.getD e.col 0 ≤ o.getD e.row 0)) =
            (decide (o'.getD e.row 0 < 0) || decide (o'.getD e.col 0 ≤ o'.getD e.row 0)) := by
    rw [Bool.eq_iff_iff]
    simp only [Bool.or_eq_true, decide_eq_true_eq]
    omega
  unfold maskE
  rw [hb]

/-- an order and the same order shifted and scaled (positive values kept positive) are interchangeable -/
example : getDagEntries (entriesOf 3 (fun i j => i != j)) [2, -1, 5] =
          getDagEntries (entriesOf 3 (fun i j => i != j)) [200, -7, 4000000000000] := by decide

/-- **get_dag with the default order** keeps exactly the edges `i → j` with `i < j`. -/
theorem getDag_default_exact (n : Nat) (edge : Nat → Nat → Bool) :
    ∃ ps, getDag n edge none none = .ok (some ps) ∧
      ∀ i j, (i, j) ∈ ps ↔ i < n ∧ j < n ∧ edge i j = true ∧ i < j := by
  refine ⟨_, rfl, fun i j => ?_⟩
  rw [getDag_edge_iff n edge _ (by simp)]
  constructor
  · rintro ⟨hi, hj, he, _, hlt⟩
    rw [tab_getD, tab_getD, if_pos hi, if_pos hj] at hlt
    exact ⟨hi, hj, he, by omega⟩
  · rintro ⟨hi, hj, he, hlt⟩
    rw [tab_getD, tab_getD, if_pos hi, if_pos hj]
    exact ⟨hi, hj, he, by omega, by omega⟩

/-- **get_dag with a source set** is the shortest-path DAG of that source set. -/
theorem getDag_source_exact (n : Nat) (edge : Nat → Nat → Bool) (s : List Nat) (hs : ∀ i ∈ s, i < n) :
    ∃ ps, getDag n edge (some s) none = .ok (some ps) ∧
      ∀ i j, (i, j) ∈ ps ↔ i < n ∧ j < n ∧ edge i j = true ∧
        ∃ d : Nat, IsDist n edge (fun v => s.contains v) i d ∧ IsDist n edge (fun v => s.contains v) j (d+1) := by
  obtain ⟨d, hd, hex⟩ := getDistances_plain_exact n edge s hs
  refine ⟨pairsOf (getDagEntries (entriesOf n edge) d), ?_, fun i j => shortestPathDag_exact n edge _ d hex i j⟩
  unfold getDag
  simp only [hd, bind, Except.bind]
  rfl

/-! ## breadth_first_search -/

/-- `perm` is what `np.argsort(d)` may return: a permutation of the indices along which `d` is non-decreasing -/
structure SortingPerm (d : List Int) (perm : List Nat) : Prop where
  isPerm : perm.Perm (List.range d.length)
  sorted : perm.Pairwise (fun a b => d.getD a 0 ≤ d.getD b 0)

/-- **bfsOrder_exact**. For *any* sorting permutation that `argsort` may return, `breadth_first_search`
lists exactly the nodes with a non-negative distance (the reachable ones, by `bfs_exact`), each once, in
non-decreasing distance. -/
theorem bfsOrder_exact (d : List Int) (perm : List Nat) (hp : SortingPerm d perm) :
    let out := bfsOrderWith d perm
    (∀ v, v ∈ out ↔ v < d.length ∧ 0 ≤ d.getD v 0) ∧ out.Nodup ∧
    out.Pairwise (fun a b => d.getD a 0 ≤ d.getD b 0) := by
  intro out
  -- the number of negative entries of d equals the number of indices of perm with a negative entry
  have hcount : (d.filter (· < 0)).length = (perm.filter fun a => decide (d.getD a 0 < 0)).length := by
    have h1 : (perm.filter fun a => decide (d.getD a 0 < 0)).length
        = ((List.range d.length).filter fun a => decide (d.getD a 0 < 0)).length :=
      (hp.isPerm.filter _).length_eq
    rw [h1, range_filter_length]
  obtain ⟨k, hk, htake, hdrop⟩ := pairwise_drop_prefix_neg d perm hp.sorted
  have hout : out = perm.drop k := by
    show bfsOrderWith d perm = _
    unfold bfsOrderWith
    rw [hcount, ← hk]
  refine ⟨fun v => ?_, ?_, ?_⟩
  · rw [hout]
    constructor
    · intro hv
      have hmem : v ∈ perm := List.mem_of_mem_drop hv
      exact ⟨List.mem_range.1 (hp.isPerm.mem_iff.1 hmem), hdrop v hv⟩
    · rintro ⟨hlt, h0⟩
      have hmem : v ∈ perm := hp.isPerm.mem_iff.2 (List.mem_range.2 hlt)
      rw [← List.take_append_drop k perm] at hmem
      rcases List.mem_append.1 hmem with h | h
      · have := htake v h; omega
      · exact h
  · rw [hout]
    have : perm.Nodup := hp.isPerm.nodup_iff.2 List.nodup_range
    exact this.sublist (List.drop_sublist k perm)
  · rw [hout]
    exact hp.sorted.sublist (List.drop_sublist k perm)

/-- the model's `argsort` is one of the permutations `np.argsort` may return -/
theorem argsort_sortingPerm (d : List Int) : SortingPerm d (argsort d) := by
  unfold argsort
  constructor
  · generalize List.range d.length = l
    induction l with
    | nil => simp
    | cons x xs ih => simp only [List.foldr_cons]; exact (insertBy_perm _ x _).trans (List.Perm.cons x ih)
  · generalize List.range d.length = l
    induction l with
    | nil => simp
    | cons x xs ih => simp only [List.foldr_cons]; exact insertBy_sorted _ x _ ih

/-- **breadth_first_search, end to end.** From an in-range source, the function lists exactly the nodes
reachable from it, each once, by non-decreasing hop distance. -/
theorem breadthFirstSearch_exact (n : Nat) (edge : Nat → Nat → Bool) (s : Nat) (hs : s < n) :
    ∃ out d, breadthFirstSearch n edge s = .ok (some out) ∧
      Exact n edge (fun v => [s].contains v) d ∧
      (∀ v, v ∈ out ↔ v < n ∧ ¬ Unreachable n edge (fun v => [s].contains v) v) ∧ out.Nodup ∧
      out.Pairwise (fun a b => d.getD a 0 ≤ d.getD b 0) := by
  obtain ⟨d, hd, hex⟩ := getDistances_plain_exact n edge [s] (by intro i hi; simp at hi; omega)
  have hb := bfsOrder_exact d (argsort d) (argsort_sortingPerm d)
  refine ⟨bfsOrderWith d (argsort d), d, ?_, hex, ?_, hb.2.1, hb.2.2⟩
  · unfold breadthFirstSearch
    simp only [hd, bind, Except.bind]
    rfl
  · intro v
    rw [hb.1 v, hex.1]
    constructor
    · rintro ⟨hv, h0⟩
      refine ⟨hv, fun hun => ?_⟩
      have hm := ((exact_entry hex hv).1).2 hun
      have : d.getD v 0 = d.getD v (-1) := by
        rw [List.getD_eq_getElem?_getD, List.getD_eq_getElem?_getD, List.getElem?_eq_getElem (by rw [hex.1]; exact hv)]; rfl
      omega
    · rintro ⟨hv, hre⟩
      refine ⟨hv, ?_⟩
      have : d.getD v 0 = d.getD v (-1) := by
        rw [List.getD_eq_getElem?_getD, List.getD_eq_getElem?_getD, List.getElem?_eq_getElem (by rw [hex.1]; exact hv)]; rfl
      rcases hex.2 v hv with ⟨e, he, _⟩ | ⟨_, hun⟩
      · rw [this, he]; omega
      · exact absurd hun hre

/-- the model's own `argsort` is a sorting permutation (so the theorem above is not vacuous) -/
example : SortingPerm [2, -1, 0, -1] (argsort [2, -1, 0, -1]) :=
  ⟨by decide, by decide⟩

/-! ## the shortest-path DAG as a graph of its own -/

/-- **spDag_preserves_dist**. The shortest-path DAG has the hop distances of the graph it was taken from:
for every node and every `d`, `d` is the hop distance from the sources in the DAG iff it is in the graph
(in particular the same nodes are reachable). -/
theorem spDag_preserves_dist {n : Nat} {edge : Nat → Nat → Bool} {src : Nat → Bool} {ps : List (Nat × Nat)}
    (h : IsSpDag n edge src ps) (v d : Nat) :
    IsDist n (pairEdge ps) src v d ↔ IsDist n edge src v d := by
  constructor
  · intro hd
    have hw := spDag_walk_sub h hd.1
    obtain ⟨e, hle, he⟩ := isDist_of_walk d hw
    have hwe := spDag_covers h e v he
    by_cases heq : e = d
    · exact heq ▸ he
    · exact absurd hwe (hd.2 e (by omega))
  · intro hd
    exact ⟨spDag_covers h d v hd, fun d' hlt hw' => hd.2 d' hlt (spDag_walk_sub h hw')⟩

/-- **spDag_acyclic**. The shortest-path DAG is a DAG: no walk of one or more of its edges returns to its
starting node. -/
theorem spDag_acyclic {n : Nat} {edge : Nat → Nat → Bool} {src : Nat → Bool} {ps : List (Nat × Nat)}
    (h : IsSpDag n edge src ps) (a k : Nat) : ¬ Walk n (pairEdge ps) (fun x => x == a) (k+1) a := by
  intro hw
  obtain ⟨d, hd1, hd2⟩ := spDag_walk_dist h hw
  have := isDist_unique hd1 hd2
  omega

/-- **getShortestPath_preserves_dist**: `get_shortest_path`, end to end, for every accepted argument
combination: the returned graph has exactly the hop distances (from the routed sources) of the routed graph and
contains no cycle. -/
theorem getShortestPath_preserves_dist (nRow0 nCol0 : Nat) (edge0 : Nat → Nat → Bool) (a : PathArgs)
    (hv : ¬ (routeSpec nRow0 nCol0 a.toDist).ValueError a.toDist)
    (hi : ¬ (routeSpec nRow0 nCol0 a.toDist).IndexError) :
    ∃ ps, getShortestPath nRow0 nCol0 edge0 a = .ok (some ((routeSpec nRow0 nCol0 a.toDist).nNodes, ps)) ∧
      (∀ v d, IsDist (routeSpec nRow0 nCol0 a.toDist).nNodes (pairEdge ps)
                (routeSpec nRow0 nCol0 a.toDist).isSource v d ↔
              IsDist (routeSpec nRow0 nCol0 a.toDist).nNodes
                (if (routeSpec nRow0 nCol0 a.toDist).bipartite then blockEdge nRow0 edge0 else edge0)
                (routeSpec nRow0 nCol0 a.toDist).isSource v d) ∧
      (∀ s k, ¬ Walk (routeSpec nRow0 nCol0 a.toDist).nNodes (pairEdge ps) (fun x => x == s) (k+1) s) := by
  obtain ⟨ps, hps, hiff⟩ := getShortestPath_exact nRow0 nCol0 edge0 a hv hi
  exact ⟨ps, hps, fun v d => spDag_preserves_dist hiff v d, fun s k => spDag_acyclic hiff s k⟩

/-- **getDag_source_preserves_dist**: `get_dag(adjacency, source)` (no `order`) returns a graph with exactly the hop
distances from the sources of the input, and without a cycle. -/
theorem getDag_source_preserves_dist (n : Nat) (edge : Nat → Nat → Bool) (s : List Nat) (hs : ∀ i ∈ s, i < n) :
    ∃ ps, getDag n edge (some s) none = .ok (some ps) ∧
      (∀ v d, IsDist n (pairEdge ps) (fun v => s.contains v) v d ↔ IsDist n edge (fun v => s.contains v) v d) ∧
      (∀ a k, ¬ Walk n (pairEdge ps) (fun x => x == a) (k+1) a) := by
  obtain ⟨ps, hps, hiff⟩ := getDag_source_exact n edge s hs
  exact ⟨ps, hps, fun v d => spDag_preserves_dist hiff v d, fun a k => spDag_acyclic hiff a k⟩

/-- Non-vacuity: on the directed 3-cycle with source 0 the returned graph is the path 0 → 1 → 2; node 2 is at
hop distance 2 in it (walk `0 → 1 → 2`, no shorter one). -/
example : (getShortestPath 3 3 (fun i j => j == (i+1) % 3) { source := some [0] }).toOption
      = some (some (3, [(0, 1), (1, 2)])) ∧
    pairEdge [(0, 1), (1, 2)] 1 2 = true ∧ pairEdge [(0, 1), (1, 2)] 2 0 = false := by decide

end SkNet.C10
