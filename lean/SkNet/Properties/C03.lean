/-
C03 — A biadjacency matrix is treated exactly as its bipartite block adjacency.

The main clause — fit on B = split of the fit on [[0,B],[Bᵀ,0]] with the stacked seeds, unsuffixed = row — is kept
visible as `bipartite_as_block_full` (a definition). What is proved of it are refinements INSIDE imported models — the
tie of those models' bipartite branches to the code is their owners' correspondence (C14's and C10's run lines):
  * Diffusion / Dirichlet (C14's `Heat.fit`): `diffusion_bipartite_as_block` (accepted inputs) and
    `diffusion_bipartite_errors` (refused inputs);
  * get_distances and get_shortest_path (C10's `Path.getDistances` / `getShortestPath`), every argument combination:
    `distances_bipartite_as_block`, `shortestPath_bipartite_as_block`, `distances_bipartite_refuse_alike`;
  * `bipartite_as_block_partial` records, by construction and without independent content, the shape
    `get_adjacency_values ; core ; _split_vars` that makes the clause true;
  * for all other estimators the clause is evaluated on the implementation by tools/harness/c03.py (fit on B versus fit
    on the block adjacency built with numpy).
The rest are theorems about the plumbing every estimator goes through (`SkNet/Model/Bipartite.lean`, tied to the code
by exact run lines): the block matrix as `sparse.bmat` builds it, get_values / stack_values / get_adjacency_values,
_split_vars. Lemmas: `SkNet/Lemmas/BipartiteBlock.lean`, `SkNet/Lemmas/BipartiteStack.lean`.
Theorems marked (definitional) restate a definition of the model in the vocabulary of the property; they carry no
independent content and are not counted among the ★ results in the status file.
-/
import SkNet.Model.Bipartite
import SkNet.Model.Heat
import SkNet.Lemmas.BipartiteBlock
import SkNet.Lemmas.BipartiteStack
import SkNet.Lemmas.BipartiteHeat
import SkNet.Lemmas.BipartitePath
import SkNet.Properties.C10

namespace SkNet.C03
open SkNet SkNet.Bip

attribute [-simp] List.getD_eq_getElem?_getD

/-! ## the decision -/

/-- (definitional) **bipartite decision** of `get_adjacency`: bipartite iff forced, or not square, or (directed input
not allowed and the matrix is not symmetric). -/
theorem isBipartite_iff (force square allowDirected symmetric : Bool) :
    isBipartite force square allowDirected symmetric = true ↔
      force = true ∨ square = false ∨ (allowDirected = false ∧ symmetric = false) := by
  cases force <;> cases square <;> cases allowDirected <;> cases symmetric <;> simp [isBipartite]

/-! ## the block matrices, as `sparse.bmat` builds them -/

/-- **denote_block**: the matrix that `bipartite2undirected` builds — `sparse.bmat([[None, B], [B.T, None]])` on the
stored entries of `B`, whatever their order, with duplicates and stored zeros — denotes `[[0,B],[Bᵀ,0]]` with the row
nodes first, `B` being the matrix the stored entries of the input denote. -/
theorem denote_block (c : Csr Rat) (i j : Nat) :
    denote (blockTriples c) i j = blockUndirected c.nRow (denote (triples c)) i j := by
  have hrow := triples_row_lt c
  unfold blockTriples
  rw [denote_append]
  unfold blockUndirected
  by_cases hi : i < c.nRow <;> by_cases hj : j < c.nRow <;> simp only [hi, hj, if_true, if_false]
  · -- both in the row part: nothing is stored there
    rw [denote_map_none, denote_map_none, Rat.add_zero]
    · intro e _; simp; intro _; omega
    · intro e _; simp; omega
  · -- (row i, column j - nRow): the entries of B
    rw [denote_map_none (f := fun e => (c.nRow + e.2.1, e.1, e.2.2)), Rat.add_zero]
    · apply denote_map
      · intro e; rfl
      · intro e _
        apply Bool.eq_iff_iff.2
        simp; intro _; omega
    · intro e _; simp; omega
  · -- (column i - nRow, row j): the entries of Bᵀ
    rw [denote_map_none (f := fun e => (e.1, c.nRow + e.2.1, e.2.2)), Rat.zero_add]
    · apply denote_map
      · intro e; rfl
      · intro e _
        apply Bool.eq_iff_iff.2
        simp; constructor
        · rintro ⟨h1, h2⟩; exact ⟨h2, by omega⟩
        · rintro ⟨h1, h2⟩; exact ⟨by omega, h1⟩
    · intro e he; simp; intro h; have := hrow e he; omega
  · -- both in the column part
    rw [denote_map_none, denote_map_none, Rat.add_zero]
    · intro e he; simp; intro _ h; have := hrow e he; omega
    · intro e he; simp; intro h; have := hrow e he; omega

/-- `bipartite2directed` builds `[[0,B],[0,0]]`. -/
theorem denote_blockDir (c : Csr Rat) (i j : Nat) :
    denote (blockDirTriples c) i j = blockDirected c.nRow (denote (triples c)) i j := by
  have hrow := triples_row_lt c
  unfold blockDirTriples blockDirected
  by_cases hi : i < c.nRow <;> by_cases hj : j < c.nRow <;> simp only [hi, hj, if_true, if_false]
  · rw [denote_map_none]; intro e _; simp; intro _; omega
  · apply denote_map
    · intro e; rfl
    · intro e _
      apply Bool.eq_iff_iff.2
      simp; intro _; omega
  · rw [denote_map_none]; intro e he; simp; intro h; have := hrow e he; omega
  · rw [denote_map_none]; intro e he; simp; intro h; have := hrow e he; omega

/-- Non-vacuity of `denote_block`: B = [[1, 2+3]] stored with unsorted indices and a duplicate. -/
example : dense 3 (blockTriples ⟨1, 2, #[0, 3], #[1, 0, 1], #[2, 1, 3]⟩) = [[0, 1, 5], [1, 0, 0], [5, 0, 0]] := by decide +kernel

/-- **get_adjacency**: when the input is treated as bipartite the result has `n_row + n_col` nodes and denotes the block
matrix (`[[0,B],[Bᵀ,0]]`, or `[[0,B],[0,0]]` with `force_directed`); otherwise the input is returned as it is. -/
theorem getAdjacency_spec (c : Csr Rat) (allowDirected forceBip forceDirected allowEmpty : Bool) (r : Adjacency)
    (h : getAdjacency c allowDirected forceBip forceDirected allowEmpty = .ok r) :
    r.bipartite = isBipartite forceBip (c.nRow == c.nCol) allowDirected (isSymmetric c) ∧
    (r.bipartite = true → r.nNodes = c.nRow + c.nCol ∧ ∀ i j, denote r.entries i j =
        (if forceDirected then blockDirected c.nRow (denote (triples c)) i j
         else blockUndirected c.nRow (denote (triples c)) i j)) ∧
    (r.bipartite = false → r.nNodes = c.nRow ∧ r.entries = triples c) := by
  unfold getAdjacency at h
  split at h
  · cases h
  · cases hb : isBipartite forceBip (c.nRow == c.nCol) allowDirected (isSymmetric c)
    · simp only [hb, Bool.false_eq_true, if_false] at h
      cases h
      exact ⟨rfl, fun h => by simp at h, fun _ => ⟨rfl, rfl⟩⟩
    · simp only [hb, if_true] at h
      cases h
      refine ⟨rfl, fun _ => ⟨rfl, fun i j => ?_⟩, fun h => by simp at h⟩
      cases forceDirected
      · simp [denote_block]
      · simp [denote_blockDir]

/-- Non-vacuity: a square non-symmetric matrix is bipartite for `allow_directed=False` (Spectral), not otherwise. -/
example : ((getAdjacency ⟨2, 2, #[0, 1, 1], #[1], #[1]⟩ false false false false).toOption.map (·.nNodes)) = some 4 ∧
    ((getAdjacency ⟨2, 2, #[0, 1, 1], #[1], #[1]⟩ true false false false).toOption.map (·.nNodes)) = some 2 := by decide +kernel

/-- (definitional) the four blocks of `[[0,B],[Bᵀ,0]]`, rows first. -/
theorem blockUndirected_spec (nRow : Nat) (b : Nat → Nat → Rat) :
    (∀ i j, i < nRow → j < nRow → blockUndirected nRow b i j = 0) ∧
    (∀ i j, i < nRow → blockUndirected nRow b i (nRow + j) = b i j) ∧
    (∀ i j, j < nRow → blockUndirected nRow b (nRow + i) j = b j i) ∧
    (∀ i j, blockUndirected nRow b (nRow + i) (nRow + j) = 0) := by
  refine ⟨?_, ?_, ?_, ?_⟩
  · intro i j hi hj; simp [blockUndirected, hi, hj]
  · intro i j hi
    have : ¬ (nRow + j < nRow) := by omega
    simp [blockUndirected, hi, this]
  · intro i j hj
    have : ¬ (nRow + i < nRow) := by omega
    simp [blockUndirected, hj, this]
  · intro i j
    have h1 : ¬ (nRow + i < nRow) := by omega
    have h2 : ¬ (nRow + j < nRow) := by omega
    simp [blockUndirected, h1, h2]

/-- the block adjacency is symmetric: the bipartite graph is undirected -/
theorem blockUndirected_symm (nRow : Nat) (b : Nat → Nat → Rat) (i j : Nat) :
    blockUndirected nRow b i j = blockUndirected nRow b j i := by
  unfold blockUndirected
  by_cases hi : i < nRow <;> by_cases hj : j < nRow <;> simp [hi, hj]

/-- the boolean block graph used by the path functions is the support of the block matrix -/
theorem blockEdge_eq_support (nRow : Nat) (b : Nat → Nat → Rat) (i j : Nat) :
    Path.blockEdge nRow (fun r c => b r c != 0) i j = (blockUndirected nRow b i j != 0) := by
  unfold Path.blockEdge blockUndirected
  by_cases hi : i < nRow <;> by_cases hj : j < nRow <;> simp [hi, hj]

/-- the block matrix of C14's model is this one -/
theorem heat_blockMat_eq : Heat.blockMat = blockUndirected := rfl

/-- (definitional) the blocks of `[[0,B],[0,0]]` -/
theorem blockDirected_spec (nRow : Nat) (b : Nat → Nat → Rat) :
    (∀ i j, i < nRow → blockDirected nRow b i (nRow + j) = b i j) ∧
    (∀ i j, j < nRow → blockDirected nRow b i j = 0) ∧
    (∀ i j, blockDirected nRow b (nRow + i) j = 0) := by
  refine ⟨?_, ?_, ?_⟩
  · intro i j hi
    have : ¬ (nRow + j < nRow) := by omega
    simp [blockDirected, hi, this]
  · intro i j hj; simp [blockDirected, hj]
  · intro i j
    have : ¬ (nRow + i < nRow) := by omega
    simp [blockDirected, this]

/-! ## get_values -/

/-- (definitional) an array (or list) of the right length is taken as it is; any other length is the `ValueError` -/
theorem getValues_arr (n : Nat) (l : List Rat) (d : Rat) :
    getValues n (some (.arr l)) d = if l.length = n then .ok l else .error .valueError := by
  unfold getValues
  by_cases h : l.length = n <;> simp [h]

/-- a dict with in-range keys gives a vector of length `n` holding at each key its (last) value and the
default everywhere else -/
theorem getValues_dict (n : Nat) (kv : List (Nat × Rat)) (d : Rat) (hne : kv ≠ [])
    (hin : ∀ p ∈ kv, p.1 < n) :
    ∃ x, getValues n (some (.dict kv)) d = .ok x ∧ x.length = n ∧
      ∀ i, i < n → x.getD i d = (dictLookup kv i).getD d :=
  ⟨_, getValues_dict_ok n kv d hne hin, by simp, fun i hi => by simp [hi]⟩

/-- Non-vacuity of `getValues_dict`: {2: 7, 0: 5} on 3 nodes, default -1. -/
example : [(2, (7 : Rat)), (0, 5)] ≠ [] ∧ (∀ p ∈ [(2, (7 : Rat)), (0, 5)], p.1 < 3) ∧
    (getValues 3 (some (.dict [(2, 7), (0, 5)])) (-1)).toOption = some [5, -1, 7] := by decide

/-- a key that is present gets one of its values; an absent key gets the default -/
theorem dictLookup_spec (kv : List (Nat × Rat)) (i : Nat) :
    (∀ v, dictLookup kv i = some v → (i, v) ∈ kv) ∧
    (dictLookup kv i = none ↔ ∀ p ∈ kv, p.1 ≠ i) := by
  unfold dictLookup
  constructor
  · intro v h
    cases hf : kv.reverse.find? (fun p => p.1 == i) with
    | none => simp [hf] at h
    | some p =>
      simp only [hf, Option.map_some, Option.some.injEq] at h
      have hmem := List.mem_of_find?_eq_some hf
      have hp := List.find?_some hf
      have hpi : p.1 = i := by simpa using hp
      have : p = (i, v) := by cases p; simp_all
      rw [← this]; exact List.mem_reverse.1 hmem
  · simp only [Option.map_eq_none_iff, List.find?_eq_none, List.mem_reverse]
    constructor
    · intro h p hp hpi; exact h p hp (by simp [hpi])
    · intro h p hp hpi; exact h p hp (by simpa using hpi)

/-- with distinct keys (a Python dict) the lookup returns *the* value of the key -/
theorem dictLookup_of_mem (kv : List (Nat × Rat)) (hnd : (kv.map (·.1)).Nodup) {i : Nat} {v : Rat}
    (h : (i, v) ∈ kv) : dictLookup kv i = some v := by
  cases hl : dictLookup kv i with
  | none => exact absurd rfl (((dictLookup_spec kv i).2.1 hl) (i, v) h)
  | some w =>
    have hw := (dictLookup_spec kv i).1 w hl
    have : w = v := by
      clear hl
      induction kv with
      | nil => simp at h
      | cons p ps ih =>
        simp only [List.map_cons, List.nodup_cons, List.mem_map, not_exists, not_and] at hnd
        rcases List.mem_cons.1 h with h1 | h1 <;> rcases List.mem_cons.1 hw with h2 | h2
        · rw [← h1] at h2; exact (Prod.mk.inj h2).2
        · exact absurd (by rw [← h1]) (hnd.1 (i, w) h2)
        · exact absurd (by rw [← h2]) (hnd.1 (i, v) h1)
        · exact ih hnd.2 h1 h2
    rw [this]

/-- Non-vacuity of `dictLookup_of_mem`. -/
example : ([(2, (7 : Rat)), (0, 5)].map (·.1)).Nodup ∧ ((0, (5 : Rat)) ∈ [(2, (7 : Rat)), (0, 5)]) ∧
    dictLookup [(2, 7), (0, 5)] 0 = some 5 := by decide

/-! ## stack_values and _split_vars -/

/-- **stack_split**: `stack_values` succeeds exactly when `get_values` accepts the row seeds on `n_row` nodes and the
column seeds on `n_col` nodes (after the documented `None` defaults); the stacked vector is then the row vector `r`
followed by the column vector `c`, and `_split_vars` gives back exactly these: `split(stack(r, c)) = (r, r, c)` — the
unsuffixed output is the row part. -/
theorem stack_split (nRow nCol : Nat) (vr vc : Option Values) (d : Rat) (x : List Rat) :
    stackValues nRow nCol vr vc d = .ok x ↔
      ∃ r c, getValues nRow (some (defaultedRow nRow vr vc d)) d = .ok r ∧
             getValues nCol (some (defaultedCol nCol vc d)) d = .ok c ∧
             x = r ++ c ∧ r.length = nRow ∧ c.length = nCol ∧ splitVars nRow x = (r, r, c) := by
  rw [stackValues_ok_iff]
  constructor
  · rintro ⟨r, c, hr, hc, rfl⟩
    have hlr := getValues_length hr
    exact ⟨r, c, hr, hc, rfl, hlr, getValues_length hc, by simp [splitVars, ← hlr]⟩
  · rintro ⟨r, c, hr, hc, hx, _⟩
    exact ⟨r, c, hr, hc, hx⟩

/-- Non-vacuity of `stack_split`: row seeds {0: 5} and column array [9, 8] on a 2×2 biadjacency. -/
example : (stackValues 2 2 (some (.dict [(0, 5)])) (some (.arr [9, 8])) (-1)).toOption = some [5, -1, 9, 8] ∧
    splitVars 2 [(5 : Rat), -1, 9, 8] = ([5, -1], [5, -1], [9, 8]) := by decide

/-- (definitional) `BaseClassifier._split_vars` on a plain graph hands out the whole vector three times. -/
theorem splitVarsClassifier_plain (nRow : Nat) (x : List Rat) : splitVarsClassifier false nRow x = (x, x, x) := rfl

/-- **stack addressing**: in the stacked vector, row node `i` sits at `i` and column node `j` at
`n_row + j`. -/
theorem stack_addr {nRow : Nat} {r c : List Rat} (hr : r.length = nRow) (d : Rat) :
    (∀ i, i < nRow → (r ++ c).getD i d = r.getD i d) ∧
    (∀ j, (r ++ c).getD (nRow + j) d = c.getD j d) := by
  constructor
  · intro i hi
    rw [List.getD_eq_getElem?_getD, List.getD_eq_getElem?_getD, List.getElem?_append_left (by omega)]
  · intro j
    rw [List.getD_eq_getElem?_getD, List.getD_eq_getElem?_getD,
      List.getElem?_append_right (by omega)]
    congr 2; omega

/-- **seeds address the same nodes in both forms — mixed dict seeds**: stacking a row dict and a column dict is
the same vector as handing the block adjacency one dict in which every column key `j` is renamed `n_row + j`. -/
theorem stack_dict_eq_block_dict (nRow nCol : Nat) (kr kc : List (Nat × Rat)) (d : Rat)
    (hr : kr ≠ []) (hc : kc ≠ []) (hrin : ∀ p ∈ kr, p.1 < nRow) (hcin : ∀ p ∈ kc, p.1 < nCol) :
    stackValues nRow nCol (some (.dict kr)) (some (.dict kc)) d =
      getValues (nRow + nCol) (some (.dict (kr ++ kc.map fun p => (nRow + p.1, p.2)))) d := by
  have hne : kr ++ kc.map (fun p => (nRow + p.1, p.2)) ≠ [] := by
    intro h; exact hr (List.append_eq_nil_iff.1 h).1
  have hin : ∀ p ∈ kr ++ kc.map (fun p => (nRow + p.1, p.2)), p.1 < nRow + nCol := by
    intro p hp
    rcases List.mem_append.1 hp with h | h
    · have := hrin p h; omega
    · obtain ⟨q, hq, rfl⟩ := List.mem_map.1 h
      have := hcin q hq; simp; omega
  rw [stackValues_eq (getValues_dict_ok nRow kr d hr hrin) (getValues_dict_ok nCol kc d hc hcin),
    getValues_dict_ok _ _ d hne hin, tab_append]
  congr 1
  apply tab_congr
  intro i _
  rw [dictLookup_append_shift nRow kr kc i hrin]
  by_cases hlt : i < nRow <;> simp [hlt]

/-- Non-vacuity: row seeds {0:5, 2:7}, column seed {1:9}, default -1, on a 3×2 biadjacency. -/
example : (stackValues 3 2 (some (.dict [(0, 5), (2, 7)])) (some (.dict [(1, 9)])) (-1)).toOption
    = some [5, -1, 7, -1, 9] := by decide

/-- **row-only dict seeds**: the row dict alone, handed to the block adjacency unchanged, gives the same vector (the
columns get the default value in both forms). -/
theorem stack_rowdict_eq_block_dict (nRow nCol : Nat) (kr : List (Nat × Rat)) (d : Rat)
    (hr : kr ≠ []) (hrin : ∀ p ∈ kr, p.1 < nRow) :
    stackValues nRow nCol (some (.dict kr)) none d = getValues (nRow + nCol) (some (.dict kr)) d := by
  have hin : ∀ p ∈ kr, p.1 < nRow + nCol := fun p hp => by have := hrin p hp; omega
  have hcd : getValues nCol (some (defaultedCol nCol none d)) d = .ok (tab nCol fun _ => d) :=
    getValues_arr_ok d (by simp)
  rw [stackValues_eq (vr := some (.dict kr)) (vc := none) (getValues_dict_ok nRow kr d hr hrin) hcd,
    getValues_dict_ok _ _ d hr hin, tab_append]
  congr 1
  apply tab_congr
  intro i _
  by_cases hlt : i < nRow
  · simp [hlt]
  · simp [hlt, dictLookup_none_of_ge hrin (Nat.le_of_not_lt hlt)]

/-- Non-vacuity: row seeds {1: 4} on a 2×2 biadjacency, default 0. -/
example : (stackValues 2 2 (some (.dict [(1, 4)])) none 0).toOption = some [0, 4, 0, 0] ∧
    (getValues 4 (some (.dict [(1, 4)])) 0).toOption = some [0, 4, 0, 0] := by decide

/-- **column-only dict seeds**: the column dict with every key `j` renamed `n_row + j` gives the same vector on the
block adjacency (the rows get the default value — not 1 — in both forms). -/
theorem stack_coldict_eq_block_dict (nRow nCol : Nat) (kc : List (Nat × Rat)) (d : Rat)
    (hc : kc ≠ []) (hcin : ∀ p ∈ kc, p.1 < nCol) :
    stackValues nRow nCol none (some (.dict kc)) d =
      getValues (nRow + nCol) (some (.dict (kc.map fun p => (nRow + p.1, p.2)))) d := by
  have hne : kc.map (fun p => (nRow + p.1, p.2)) ≠ [] := by
    intro h; exact hc (List.map_eq_nil_iff.1 h)
  have hin : ∀ p ∈ kc.map (fun p => (nRow + p.1, p.2)), p.1 < nRow + nCol := by
    intro p hp
    obtain ⟨q, hq, rfl⟩ := List.mem_map.1 hp
    have := hcin q hq; simp; omega
  have hrd : getValues nRow (some (defaultedRow nRow none (some (.dict kc)) d)) d = .ok (tab nRow fun _ => d) :=
    getValues_arr_ok d (by simp)
  rw [stackValues_eq (vr := none) (vc := some (.dict kc)) hrd (getValues_dict_ok nCol kc d hc hcin),
    getValues_dict_ok _ _ d hne hin, tab_append]
  congr 1
  apply tab_congr
  intro i _
  rw [dictLookup_shift]
  by_cases hlt : i < nRow <;> simp [hlt]

/-- Non-vacuity: column seed {0: 3} on a 2×2 biadjacency, default -1. -/
example : (stackValues 2 2 none (some (.dict [(0, 3)])) (-1)).toOption = some [-1, -1, 3, -1] ∧
    (getValues 4 (some (.dict [(2, 3)])) (-1)).toOption = some [-1, -1, 3, -1] := by decide

/-- **array seeds** (row only, column only, or both; `np.ndarray` or list): the block form is the row array followed by
the column array, the default value standing for the side that was not given. -/
theorem stack_arr_eq_block_arr (nRow nCol : Nat) (r c : Option (List Rat)) (d : Rat)
    (hsome : r.isSome = true ∨ c.isSome = true)
    (hr : ∀ l, r = some l → l.length = nRow) (hc : ∀ l, c = some l → l.length = nCol) :
    stackValues nRow nCol (r.map .arr) (c.map .arr) d =
      getValues (nRow + nCol)
        (some (.arr (r.getD (tab nRow fun _ => d) ++ c.getD (tab nCol fun _ => d)))) d := by
  cases r with
  | none =>
    cases c with
    | none => simp at hsome
    | some cl =>
      have hl := hc cl rfl
      simp only [Option.map_none, Option.map_some, Option.getD_none, Option.getD_some]
      rw [stackValues_eq (vr := none) (vc := some (.arr cl)) (r := tab nRow fun _ => d) (c := cl)
        (getValues_arr_ok d (by simp)) (getValues_arr_ok d hl), getValues_arr_ok d (by simp [hl])]
  | some rl =>
    have hlr := hr rl rfl
    cases c with
    | none =>
      simp only [Option.map_none, Option.map_some, Option.getD_none, Option.getD_some]
      rw [stackValues_eq (vr := some (.arr rl)) (vc := none) (r := rl) (c := tab nCol fun _ => d)
        (getValues_arr_ok d hlr) (getValues_arr_ok d (by simp)), getValues_arr_ok d (by simp [hlr])]
    | some cl =>
      have hl := hc cl rfl
      simp only [Option.map_some, Option.getD_some]
      rw [stackValues_eq (vr := some (.arr rl)) (vc := some (.arr cl)) (r := rl) (c := cl)
        (getValues_arr_ok d hlr) (getValues_arr_ok d hl), getValues_arr_ok d (by simp [hlr, hl])]

/-- Non-vacuity: a column array alone on a 2×3 biadjacency. -/
example : (stackValues 2 3 none (some (.arr [4, 5, 6])) (-1)).toOption = some [-1, -1, 4, 5, 6] := by decide

/-- **mixed array / dict seeds**: an array on one side and a dict on the other address the same nodes as one array on
the block adjacency, the dict side written out with the default value at the keys it does not mention. -/
theorem stack_mixed_eq_block_arr (nRow nCol : Nat) (l : List Rat) (kv : List (Nat × Rat)) (d : Rat) (hne : kv ≠ []) :
    (l.length = nRow → (∀ p ∈ kv, p.1 < nCol) →
      stackValues nRow nCol (some (.arr l)) (some (.dict kv)) d =
        getValues (nRow + nCol) (some (.arr (l ++ tab nCol fun j => (dictLookup kv j).getD d))) d) ∧
    (l.length = nCol → (∀ p ∈ kv, p.1 < nRow) →
      stackValues nRow nCol (some (.dict kv)) (some (.arr l)) d =
        getValues (nRow + nCol) (some (.arr ((tab nRow fun i => (dictLookup kv i).getD d) ++ l))) d) := by
  constructor
  · intro hl hin
    rw [stackValues_eq (vr := some (.arr l)) (vc := some (.dict kv)) (getValues_arr_ok d hl)
      (getValues_dict_ok nCol kv d hne hin), getValues_arr_ok d (by simp [hl])]
  · intro hl hin
    rw [stackValues_eq (vr := some (.dict kv)) (vc := some (.arr l)) (getValues_dict_ok nRow kv d hne hin)
      (getValues_arr_ok d hl), getValues_arr_ok d (by simp [hl])]

/-- Non-vacuity: row array [1, 0] with column dict {1: 2} on a 2×2 biadjacency. -/
example : (stackValues 2 2 (some (.arr [1, 0])) (some (.dict [(1, 2)])) (-1)).toOption = some [1, 0, -1, 2] := by decide

/-- **an empty dict is refused in both forms** (`np.min` of an empty array): on B as soon as it stands on one side —
whatever is given on the other — and on the block adjacency when it is given alone. So `values_row={}` beside
`values_col={0: 1}` is a ValueError on B although the *merged* block dict `{n_row + 0: 1}` would be accepted: the two
forms address the same nodes only for non-empty dicts (hypotheses `kr ≠ []`, `kc ≠ []` of the theorems above). -/
theorem emptydict_refused_both_forms (nRow nCol : Nat) (v : Option Values) (d : Rat) :
    stackValues nRow nCol (some (.dict [])) v d = .error .valueError ∧
    (∀ r, getValues nRow (some (defaultedRow nRow v (some (.dict [])) d)) d = .ok r →
      stackValues nRow nCol v (some (.dict [])) d = .error .valueError) ∧
    getValues (nRow + nCol) (some (.dict [])) d = .error .valueError := by
  refine ⟨?_, fun r hr => ?_, ?_⟩
  · simp [stackValues, defaultedRow, getValues, bind, Except.bind]
  · have hc : getValues nCol (some (defaultedCol nCol (some (.dict [])) d)) d = .error .valueError := by
      simp [defaultedCol, getValues]
    unfold stackValues
    simp only [bind, Except.bind, hr, hc]
  · simp [getValues]

/-- Non-vacuity / witness: on a 1×2 biadjacency the empty row dict is refused while the merged block dict {1: 1}
answers. -/
example : (stackValues 1 2 (some (.dict [])) (some (.dict [(0, 1)])) (-1)).toOption = none ∧
    (getValues 3 (some (.dict [(1, 1)])) (-1)).toOption = some [-1, 1, -1] := by decide

/-- (definitional) the documented default: no seeds at all means "ones on the rows, default on the columns" -/
theorem stack_default (nRow nCol : Nat) (d : Rat) :
    stackValues nRow nCol none none d = .ok ((tab nRow fun _ => (1 : Rat)) ++ tab nCol fun _ => d) :=
  stackValues_eq (vr := none) (vc := none) (getValues_arr_ok d (by simp)) (getValues_arr_ok d (by simp))

/-- **the row-only default is not the block default** (known findings F-C03-default-rows-*): with no seeds at all a
biadjacency matrix gets ones on the rows and the default value on the columns, whereas the block adjacency without
seeds gets ones everywhere; the two vectors differ as soon as there is a column and the default value is not 1
(it is 0 for PageRank, -1 for Diffusion / Dirichlet). -/
theorem stack_default_ne_block_default (nRow nCol : Nat) (d : Rat) (hcol : 0 < nCol) (hd : d ≠ 1) :
    stackValues nRow nCol none none d ≠ getValues (nRow + nCol) none d := by
  rw [stack_default, tab_append]
  simp only [getValues]
  intro h
  have h2 := congrArg (fun (x : Except PyErr (List Rat)) => match x with | .ok l => l.getD nRow 7 | .error _ => 7) h
  have hlt : nRow < nRow + nCol := by omega
  simp [hlt] at h2
  exact hd h2

/-- Non-vacuity / witness: B of shape 1×2, PageRank's default 0. -/
example : (stackValues 1 2 none none 0).toOption = some [1, 0, 0] ∧ (getValues 3 none 0).toOption = some [1, 1, 1] := by
  decide

/-- (definitional) only row seeds: the columns get the default value -/
theorem stack_row_only (nRow nCol : Nat) (v : Values) (d : Rat) (r : List Rat)
    (h : getValues nRow (some v) d = .ok r) :
    stackValues nRow nCol (some v) none d = .ok (r ++ tab nCol fun _ => d) :=
  stackValues_eq (vr := some v) (vc := none) h (getValues_arr_ok d (by simp))

/-- (definitional) only column seeds: the rows get the default value -/
theorem stack_col_only (nRow nCol : Nat) (v : Values) (d : Rat) (c : List Rat)
    (h : getValues nCol (some v) d = .ok c) :
    stackValues nRow nCol none (some v) d = .ok ((tab nRow fun _ => d) ++ c) :=
  stackValues_eq (vr := none) (vc := some v) (getValues_arr_ok d (by simp)) h

/-! ## get_adjacency_values -/

/-- giving `values_row` or `values_col` forces the bipartite treatment, whatever the shape -/
theorem adjValues_seeds_force (nRow nCol : Nat) (sym allowDir fb : Bool) (v vr vc : Option Values)
    (d : Rat) (w : Which) (hs : vr.isSome = true ∨ vc.isSome = true) (r : AdjValues)
    (h : getAdjacencyValues nRow nCol sym allowDir fb v vr vc d w = .ok r) :
    r.bipartite = true ∧ r.nNodes = nRow + nCol := by
  unfold getAdjacencyValues at h
  have hforce : (fb || vr.isSome || vc.isSome) = true := by
    rcases hs with h1 | h1 <;> simp [h1]
  simp only [hforce, isBipartite, Bool.true_or, if_true, bind, Except.bind] at h
  split at h
  · cases h
  · simp only [pure, Except.pure, Except.ok.injEq] at h
    subst h; exact ⟨rfl, rfl⟩

/-- Non-vacuity of `adjValues_seeds_force`: a square symmetric 2×2 matrix becomes a 4-node bipartite graph as soon as
column seeds are given. -/
example : ((getAdjacencyValues 2 2 true true false none none (some (.dict [(0, 1)])) (-1) .none).toOption.map
    fun r => (r.bipartite, r.nNodes, r.values)) = some (true, 4, [-1, -1, 1, -1]) := by decide

/-- **`values` is the alias of `values_row` on bipartite input** (defect F-C03-values-col-dropped, repaired in
7fc3a32a: the column seeds given together with `values` were dropped): when the input is treated as bipartite and no
`values_row` is given, `values=v, values_col=vc` is the same call as `values_row=v, values_col=vc`. -/
theorem adjValues_values_alias (nRow nCol : Nat) (sym allowDir fb : Bool) (v : Values) (vc : Option Values)
    (d : Rat) (w : Which) (hb : isBipartite (fb || vc.isSome) (nRow == nCol) allowDir sym = true) :
    getAdjacencyValues nRow nCol sym allowDir fb (some v) none vc d w =
      getAdjacencyValues nRow nCol sym allowDir fb none (some v) vc d w := by
  unfold getAdjacencyValues
  have h1 : isBipartite (fb || (none : Option Values).isSome || vc.isSome) (nRow == nCol) allowDir sym = true := by
    simpa using hb
  have h2 : isBipartite (fb || (some v).isSome || vc.isSome) (nRow == nCol) allowDir sym = true := by
    simp [isBipartite]
  simp only [h1, h2, if_true]

/-- Non-vacuity: the witness of the defect — `values={0: 1}`, `values_col={1: 5}` on a 2×2 biadjacency keeps the column
seed. -/
example : ((getAdjacencyValues 2 2 false true false (some (.dict [(0, 1)])) none (some (.dict [(1, 5)])) (-1) .none).toOption.map
    (·.values)) = some [1, -1, -1, 5] := by decide

/-! ## the main clause -/

/-- An estimator as the property sees it: what it returns for an adjacency matrix on `n` nodes with one seed vector
(one output value per node), and what it returns for a biadjacency matrix with row and column seeds: the unsuffixed,
the `*_row_` and the `*_col_` output. -/
structure Estimator (ε ρ : Type) where
  dflt : Rat
  fitAdj : (n : Nat) → (Nat → Nat → Rat) → Option Values → Except ε (List ρ)
  fitBip : (nRow nCol : Nat) → (Nat → Nat → Rat) → Option Values → Option Values →
    Except ε (List ρ × List ρ × List ρ)

/-- the clause of C03 for one estimator: whenever the seeds stack to `s`, the fit on `B` is the fit on
`[[0,B],[Bᵀ,0]]` with the seeds `s`, split at `n_row` (unsuffixed = row part) -/
def BipartiteAsBlock {ε ρ : Type} (E : Estimator ε ρ) : Prop :=
  ∀ (nRow nCol : Nat) (B : Nat → Nat → Rat) (vr vc : Option Values) (s : List Rat),
    stackValues nRow nCol vr vc E.dflt = .ok s →
    E.fitBip nRow nCol B vr vc =
      (E.fitAdj (nRow + nCol) (blockUndirected nRow B) (some (.arr s))).map (splitVars nRow)

/-- **The main clause of C03, at full strength** — for every estimator of the library (`lib`; the library is not a
Lean object, which is why this stays a definition): fit on B = split of the fit on the block adjacency. Not proved in
general: the models of most estimators (C04–C13) are not functions of `Model/Bipartite.lean`'s plumbing, and for
Louvain / Leiden with `modularity='dugue'`, for the no-seed default of PageRank / Dirichlet the clause is false
(known findings). It is evaluated on the implementation for every entry of the harness' table. -/
def bipartite_as_block_full {ε ρ : Type} (lib : Estimator ε ρ → Prop) : Prop :=
  ∀ E, lib E → BipartiteAsBlock E

/-- the estimator obtained by putting a core — a function of the adjacency matrix and one seed vector alone — behind
the shared plumbing: `get_adjacency_values` (block matrix, stacked seeds), the core, `_split_vars` -/
def viaBlock {ε ρ : Type} (d : Rat) (core : (n : Nat) → (Nat → Nat → Rat) → List Rat → Except ε (List ρ))
    (seedErr : PyErr → ε) : Estimator ε ρ where
  dflt := d
  fitAdj n A v := match getValues n v d with
    | .ok s => core n A s
    | .error e => .error (seedErr e)
  fitBip nRow nCol B vr vc := match stackValues nRow nCol vr vc d with
    | .ok s => (core (nRow + nCol) (blockUndirected nRow B) s).map (splitVars nRow)
    | .error e => .error (seedErr e)

/-- (by construction — no independent content) every estimator that has the shape
`get_adjacency_values ; core ; _split_vars` with a core that sees nothing but the adjacency matrix and the seed vector
satisfies the clause: `viaBlock` is built so. It only records *which* shape makes the clause true; that a given
estimator of the library has this shape is not proved here (it is what the harness evaluates on the implementation),
and several do not: Louvain / Leiden with `modularity='dugue'` and `_secondary_outputs` look at B again, KCenters reads
the `bipartite` flag (`center_position`) and, before fix 5d988740, scored its restarts on B. -/
theorem bipartite_as_block_partial {ε ρ : Type} (d : Rat)
    (core : (n : Nat) → (Nat → Nat → Rat) → List Rat → Except ε (List ρ)) (seedErr : PyErr → ε) :
    BipartiteAsBlock (viaBlock d core seedErr) := by
  intro nRow nCol B vr vc s hs
  have hs' : stackValues nRow nCol vr vc d = .ok s := hs
  have hlen := stackValues_length hs'
  simp only [viaBlock, hs', getValues_arr_ok d hlen]

/-- Non-vacuity: the "sum of the neighbours' seeds" core behind the plumbing, B = [[1, 1]], row seed {0: 3}. -/
example : ((viaBlock (ε := PyErr) 0 (fun n A s => .ok (tab n fun i => sumQ (tab n fun j => A i j * s.getD j 0))) id).fitBip
    1 2 (fun _ _ => 1) (some (.dict [(0, 3)])) none).toOption = some ([0], [0], [3, 3]) := by decide +kernel

/-! ### Diffusion and Dirichlet (the model of C14) -/

/-- **Diffusion and Dirichlet treat a biadjacency matrix as its block adjacency** — a refinement *inside* C14's model
(`SkNet/Model/Heat.lean`): whenever `get_adjacency_values` accepts the input and treats it as bipartite (rectangular,
`force_bipartite`, or `values_row` / `values_col` given — array, list or dict), `fit` on `B` returns exactly the split at
`n_row` of what `fit` returns on the block adjacency `[[0,B],[Bᵀ,0]]` when it is handed, as `values`, the stacked seed
vector `p.seeds` (the second call is routed as a plain graph, takes the array unchanged, runs the same iteration;
`n_iter ≤ 0` and the errors of the iteration are the same on both sides). C14's model *defines* its bipartite branch
as running on `blockMat`; that the code's branch does is C14's correspondence (run lines of c14.py), not this theorem.
The hypothesis `hp` excludes the seed errors (wrong length, empty dict, key out of range, empty matrix): for those see
`diffusion_bipartite_errors`. -/
theorem diffusion_bipartite_as_block (algo : Heat.Algo) (nRow nCol nnz : Nat) (B : Nat → Nat → Rat) (a : Heat.Args)
    (nIter : Int) (α : Rat) (p : Heat.Prepared)
    (hp : Heat.getAdjacencyValues nRow nCol nnz B a = .ok p) (hb : p.bipartite = true) :
    Heat.fit algo nRow nCol nnz B a nIter α =
      (Heat.fit algo (nRow + nCol) (nRow + nCol) nnz (blockUndirected nRow B)
          { values := .arr p.seeds, init := a.init } nIter α).map
        (fun o => Heat.splitVars true nRow o.values) := by
  obtain ⟨hnnz, hn, hadj, hlen⟩ := Bip.heat_prepared_bipartite hp hb
  -- the call on the block adjacency prepares the same graph and the same seeds
  have hp' : Heat.getAdjacencyValues (nRow + nCol) (nRow + nCol) nnz (blockUndirected nRow B)
      { values := .arr p.seeds, init := a.init } = .ok ⟨nRow + nCol, blockUndirected nRow B, p.seeds, false⟩ := by
    unfold Heat.getAdjacencyValues
    simp [hnnz, Heat.Values.isNone, Heat.getValues, hlen]
  have hfv : ∀ k, Heat.fitVector algo ⟨nRow + nCol, blockUndirected nRow B, p.seeds, false⟩ a.init k α =
      Heat.fitVector algo p a.init k α := by
    intro k
    obtain ⟨pn, padj, pseeds, pb⟩ := p
    simp only at hn hadj
    subst hn; subst hadj
    rfl
  unfold Heat.fit
  by_cases hit : nIter ≤ 0
  · simp [hit, Except.map]
  · simp only [hit, if_false, hp, hp', hfv]
    cases Heat.fitVector algo p a.init nIter.toNat α with
    | error e => rfl
    | ok v => simp [Except.map, Heat.splitVars, hb]

/-- **the refusals of Diffusion / Dirichlet on a biadjacency matrix are those of the stacking**: when
`get_adjacency_values` refuses the input (empty matrix, seeds of the wrong length, an empty dict on either side, a
key out of range), `fit` raises that very error (after the constructor's own check of `n_iter`) — nothing is computed,
no block form is involved. The block form with a *merged* dict may answer where B refuses (an empty dict on one
side: `emptydict_refused_both_forms`). -/
theorem diffusion_bipartite_errors (algo : Heat.Algo) (nRow nCol nnz : Nat) (B : Nat → Nat → Rat) (a : Heat.Args)
    (nIter : Int) (α : Rat) (e : Heat.PyErr)
    (hp : Heat.getAdjacencyValues nRow nCol nnz B a = .error e) :
    Heat.fit algo nRow nCol nnz B a nIter α = .error (if nIter ≤ 0 then .valueError else e) := by
  unfold Heat.fit
  by_cases hit : nIter ≤ 0
  · simp [hit]
  · simp [hit, hp]

/-- Non-vacuity: `values_row={}` beside a column seed on B = [[1, 1]] is refused with ValueError. -/
example : (Heat.fit .dirichlet 1 2 2 (fun _ _ => 1) { valuesRow := .dict [], valuesCol := .dict [(0, 4)] } 2 (1/2)).toOption
    = none := by decide +kernel

/-- Non-vacuity: Dirichlet, 2 rounds, on B = [[1, 1]] with the column seed {0: 4}; the flag is implied. -/
example :
    ((Heat.getAdjacencyValues 1 2 2 (fun _ _ => 1) { valuesCol := .dict [(0, 4)] }).toOption.map
      fun p => (p.bipartite, p.seeds)) = some (true, [-1, 4, -1]) ∧
    (Heat.fit .dirichlet 1 2 2 (fun _ _ => 1) { valuesCol := .dict [(0, 4)] } 2 (1/2)).toOption.map (·.valuesCol)
      = some (some [4, 4]) := by decide +kernel

/-! ### the path functions (the model of C10) -/

/-- **get_distances treats a biadjacency matrix as its block adjacency** (the main clause for `get_distances`, every
argument combination the routing accepts with bipartite treatment: rectangular input, `force_bipartite`, `source_row`
/ `source_col`, `source` as alias, transposed or not): the pair it returns is the split at `n_row` of the one vector
`get_distances` returns on the block graph `[[0,B],[Bᵀ,0]]` for the block-numbered sources (row source `i` at `i`,
column source `j` at `n_row + j`). -/
theorem distances_bipartite_as_block (nRow0 nCol0 : Nat) (edge0 : Nat → Nat → Bool) (a : Path.DistArgs)
    (hb : (Path.routeSpec nRow0 nCol0 a).bipartite = true)
    (hv : ¬ (Path.routeSpec nRow0 nCol0 a).ValueError a) (hi : ¬ (Path.routeSpec nRow0 nCol0 a).IndexError) :
    ∃ d, Path.getDistances (Path.routeSpec nRow0 nCol0 a).nNodes (Path.routeSpec nRow0 nCol0 a).nNodes
            (Path.blockEdge (Path.routeSpec nRow0 nCol0 a).nRow (if a.transpose then (fun i j => edge0 j i) else edge0))
            { source := some (Bip.blockSources (Path.routeSpec nRow0 nCol0 a)) } = .ok (some (.single d)) ∧
         Path.getDistances nRow0 nCol0 edge0 a =
            .ok (some (.pair (d.take (Path.routeSpec nRow0 nCol0 a).nRow) (d.drop (Path.routeSpec nRow0 nCol0 a).nRow))) := by
  obtain ⟨m, hroute, hmlen, hm⟩ := (C10.route_spec nRow0 nCol0 a).2.2 hv hi
  have hnn0 : (Path.routeSpec nRow0 nCol0 a).nNodes =
      if (Path.routeSpec nRow0 nCol0 a).bipartite then
        (Path.routeSpec nRow0 nCol0 a).nRow + (Path.routeSpec nRow0 nCol0 a).nCol
      else (Path.routeSpec nRow0 nCol0 a).nRow := rfl
  have hnn : (Path.routeSpec nRow0 nCol0 a).nNodes =
      (Path.routeSpec nRow0 nCol0 a).nRow + (Path.routeSpec nRow0 nCol0 a).nCol := by
    rw [hnn0, hb]; rfl
  clear hnn0
  generalize hs : Path.routeSpec nRow0 nCol0 a = s at *
  -- the plain call on the block graph
  let a' : Path.DistArgs := { source := some (Bip.blockSources s) }
  have hrow : ∀ i ∈ s.rowSrc.getD [], i < s.nNodes := fun i hi' =>
    Nat.lt_of_not_le fun hle => hi (Or.inl ⟨i, hi', hle⟩)
  have hcol : ∀ j ∈ s.colSrc.getD [], s.nRow + j < s.nNodes := fun j hj =>
    Nat.lt_of_not_le fun hle => hi (Or.inr ⟨j, hj, hle⟩)
  have hs' : Path.routeSpec s.nNodes s.nNodes a' =
      ⟨s.nNodes, s.nNodes, false, s.nNodes, some (Bip.blockSources s), none⟩ := by
    simp [Path.routeSpec, a']
  have hv' : ¬ (Path.routeSpec s.nNodes s.nNodes a').ValueError a' := by
    rw [hs']; simp [Path.RouteSpec.ValueError]
  have hi' : ¬ (Path.routeSpec s.nNodes s.nNodes a').IndexError := by
    rw [hs']
    simp only [Path.RouteSpec.IndexError, Option.getD_some, Option.getD_none, List.not_mem_nil, false_and, exists_false,
      or_false, not_exists, not_and, Nat.not_le]
    intro i hmem
    simp only [Bip.blockSources, List.mem_append, List.mem_map] at hmem
    rcases hmem with h | ⟨j, hj, rfl⟩
    · exact hrow i h
    · exact hcol j hj
  obtain ⟨m', hroute', hmlen', hm'⟩ := (C10.route_spec s.nNodes s.nNodes a').2.2 hv' hi'
  rw [hs'] at hroute' hmlen' hm'
  simp only at hroute' hmlen' hm'
  -- the two masks are the same list
  have hmm : m' = m := by
    apply List.ext_getElem?
    intro v
    by_cases hvn : v < s.nNodes
    · have e1 : m'[v]? = some (m'.getD v false) := by
        rw [List.getD_eq_getElem?_getD, List.getElem?_eq_getElem (by omega)]; rfl
      have e2 : m[v]? = some (m.getD v false) := by
        rw [List.getD_eq_getElem?_getD, List.getElem?_eq_getElem (by omega)]; rfl
      rw [e1, e2, hm' v hvn, hm v hvn]
      congr 1
      have : (⟨s.nNodes, s.nNodes, false, s.nNodes, some (Bip.blockSources s), none⟩ : Path.RouteSpec).isSource v =
          (Bip.blockSources s).contains v := by
        simp [Path.RouteSpec.isSource]
      rw [this, Bip.blockSources_contains s v]
    · rw [List.getElem?_eq_none (by omega), List.getElem?_eq_none (by omega)]
  subst hmm
  obtain ⟨d, hd, _, _⟩ := C10.bfs_exact s.nNodes
    (Path.blockEdge s.nRow (if a.transpose then (fun i j => edge0 j i) else edge0)) m'
  refine ⟨d, ?_, ?_⟩
  · unfold Path.getDistances
    simp only [hroute', bind, Except.bind, Path.routedEdge, a', Bool.false_eq_true, if_false, hd]
    rfl
  · unfold Path.getDistances
    simp only [hroute, bind, Except.bind, Path.routedEdge, hb, if_true, hd]
    rfl

/-- **the two forms refuse an out-of-range source alike**: when the routing of the call on `B` ends in the IndexError
(a row source `≥ n_row + n_col`, or a column source `j` with `n_row + j ≥ n_row + n_col`), `get_distances` on the block
graph with the block-numbered sources raises the IndexError as well. (The ValueErrors have no block counterpart:
"no source at all" and "`source` together with `source_row`" are statements about the keywords of the bipartite form.) -/
theorem distances_bipartite_refuse_alike (nRow0 nCol0 : Nat) (edge0 : Nat → Nat → Bool) (a : Path.DistArgs)
    (hv : ¬ (Path.routeSpec nRow0 nCol0 a).ValueError a) (hi : (Path.routeSpec nRow0 nCol0 a).IndexError) :
    Path.getDistances nRow0 nCol0 edge0 a = .error .indexError ∧
    Path.getDistances (Path.routeSpec nRow0 nCol0 a).nNodes (Path.routeSpec nRow0 nCol0 a).nNodes
        (Path.blockEdge (Path.routeSpec nRow0 nCol0 a).nRow (if a.transpose then (fun i j => edge0 j i) else edge0))
        { source := some (Bip.blockSources (Path.routeSpec nRow0 nCol0 a)) } = .error .indexError := by
  have h1 := (C10.route_spec nRow0 nCol0 a).2.1 hv hi
  generalize hs : Path.routeSpec nRow0 nCol0 a = s at *
  let a' : Path.DistArgs := { source := some (Bip.blockSources s) }
  have hs' : Path.routeSpec s.nNodes s.nNodes a' =
      ⟨s.nNodes, s.nNodes, false, s.nNodes, some (Bip.blockSources s), none⟩ := by
    simp [Path.routeSpec, a']
  have hv' : ¬ (Path.routeSpec s.nNodes s.nNodes a').ValueError a' := by
    rw [hs']; simp [Path.RouteSpec.ValueError]
  have hi' : (Path.routeSpec s.nNodes s.nNodes a').IndexError := by
    rw [hs']
    left
    simp only [Option.getD_some, Bip.blockSources, List.mem_append, List.mem_map]
    rcases hi with ⟨i, hmem, hle⟩ | ⟨j, hmem, hle⟩
    · exact ⟨i, Or.inl hmem, hle⟩
    · exact ⟨s.nRow + j, Or.inr ⟨j, hmem, rfl⟩, hle⟩
  have h2 := (C10.route_spec s.nNodes s.nNodes a').2.1 hv' hi'
  constructor
  · unfold Path.getDistances
    simp only [h1, bind, Except.bind]
  · unfold Path.getDistances
    simp only [a'] at h2
    simp only [h2, bind, Except.bind]

/-- Non-vacuity: on a 1×2 biadjacency the column source 2 is out of range (block node 1 + 2 = 3 of 3 nodes). -/
example : ¬ (Path.routeSpec 1 2 { sourceCol := some [2] }).ValueError { sourceCol := some [2] } ∧
    (Path.routeSpec 1 2 { sourceCol := some [2] }).IndexError := by decide

/-- Non-vacuity: a 2×3 biadjacency, transposed (3 row nodes), `source` as alias of `source_row` with a column
source: the block sources are [2, 3 + 1]. -/
example :
    (Path.routeSpec 2 3 { source := some [2], sourceCol := some [1], transpose := true }).bipartite = true ∧
    ¬ (Path.routeSpec 2 3 { source := some [2], sourceCol := some [1], transpose := true }).ValueError
        { source := some [2], sourceCol := some [1], transpose := true } ∧
    ¬ (Path.routeSpec 2 3 { source := some [2], sourceCol := some [1], transpose := true }).IndexError ∧
    Bip.blockSources (Path.routeSpec 2 3 { source := some [2], sourceCol := some [1], transpose := true }) = [2, 4] := by
  decide

/-- **get_shortest_path treats a biadjacency matrix as its block adjacency** (every argument combination with
bipartite treatment, in particular `source` together with `force_bipartite=True` — the call of defect F1): the DAG it
returns is the DAG `get_shortest_path` returns on the block graph `[[0,B],[Bᵀ,0]]` for the block-numbered sources,
on `n_row + n_col` nodes. -/
theorem shortestPath_bipartite_as_block (nRow0 nCol0 : Nat) (edge0 : Nat → Nat → Bool) (a : Path.PathArgs)
    (hb : (Path.routeSpec nRow0 nCol0 a.toDist).bipartite = true)
    (hv : ¬ (Path.routeSpec nRow0 nCol0 a.toDist).ValueError a.toDist)
    (hi : ¬ (Path.routeSpec nRow0 nCol0 a.toDist).IndexError) :
    Path.getShortestPath nRow0 nCol0 edge0 a =
      Path.getShortestPath (nRow0 + nCol0) (nRow0 + nCol0) (Path.blockEdge nRow0 edge0)
        { source := some (Bip.blockSources (Path.routeSpec nRow0 nCol0 a.toDist)) } ∧
    ∃ ps, Path.getShortestPath nRow0 nCol0 edge0 a = .ok (some (nRow0 + nCol0, ps)) := by
  obtain ⟨d, hblock, hbip⟩ := distances_bipartite_as_block nRow0 nCol0 edge0 a.toDist hb hv hi
  have hrow : (Path.routeSpec nRow0 nCol0 a.toDist).nRow = nRow0 := rfl
  have hcol : (Path.routeSpec nRow0 nCol0 a.toDist).nCol = nCol0 := rfl
  have hnn0 : (Path.routeSpec nRow0 nCol0 a.toDist).nNodes =
      if (Path.routeSpec nRow0 nCol0 a.toDist).bipartite then
        (Path.routeSpec nRow0 nCol0 a.toDist).nRow + (Path.routeSpec nRow0 nCol0 a.toDist).nCol
      else (Path.routeSpec nRow0 nCol0 a.toDist).nRow := rfl
  have hnn : (Path.routeSpec nRow0 nCol0 a.toDist).nNodes = nRow0 + nCol0 := by
    rw [hnn0, hb, hrow, hcol]; rfl
  have htr : a.toDist.transpose = false := rfl
  rw [hrow, hnn] at hblock
  rw [hrow] at hbip
  simp only [htr, Bool.false_eq_true, if_false] at hblock
  have hda : (Path.DistArgs.mk a.source a.sourceRow a.sourceCol false a.forceBipartite) = a.toDist := rfl
  constructor
  · unfold Path.getShortestPath
    rw [hda, hbip]
    simp only [hblock, bind, Except.bind, List.take_append_drop, pure, Except.pure]
    simp
  · refine ⟨Path.pairsOf (Path.getDagEntries (Path.entriesOf (nRow0 + nCol0) (Path.blockEdge nRow0 edge0)) d), ?_⟩
    unfold Path.getShortestPath
    rw [hda, hbip]
    simp only [bind, Except.bind, List.take_append_drop, pure, Except.pure]

/-- Non-vacuity: the call of defect F1 — `get_shortest_path(A, source=0, force_bipartite=True)` on a 2×2 matrix —
returns the DAG on 4 nodes. -/
example :
    (Path.routeSpec 2 2 ({ source := some [0], forceBipartite := true } : Path.PathArgs).toDist).bipartite = true ∧
    (Path.getShortestPath 2 2 (fun i j => i != j) { source := some [0], forceBipartite := true }).toOption
      = some (some (4, [(0, 3)])) := by decide

/-- **distances are exact on bipartite input**: for every accepted argument combination with bipartite treatment,
`get_distances` returns `(d[:n_row], d[n_row:])` with `d` the exact hop distances in the block graph from the
block-numbered sources (C10's `getDistances_exact`, read for bipartite input). -/
theorem distances_bipartite (nRow0 nCol0 : Nat) (edge0 : Nat → Nat → Bool) (a : Path.DistArgs)
    (hb : (Path.routeSpec nRow0 nCol0 a).bipartite = true)
    (hv : ¬ (Path.routeSpec nRow0 nCol0 a).ValueError a) (hi : ¬ (Path.routeSpec nRow0 nCol0 a).IndexError) :
    ∃ d, Path.getDistances nRow0 nCol0 edge0 a =
          .ok (some (.pair (d.take (Path.routeSpec nRow0 nCol0 a).nRow) (d.drop (Path.routeSpec nRow0 nCol0 a).nRow))) ∧
      Path.Exact (Path.routeSpec nRow0 nCol0 a).nNodes
        (Path.blockEdge (Path.routeSpec nRow0 nCol0 a).nRow (if a.transpose then (fun i j => edge0 j i) else edge0))
        (Path.routeSpec nRow0 nCol0 a).isSource d := by
  obtain ⟨d, hd, hex⟩ := C10.getDistances_exact nRow0 nCol0 edge0 a hv hi
  refine ⟨d, ?_, ?_⟩
  · simpa [hb] using hd
  · simpa [hb] using hex

/-- **the shortest-path DAG is exact on bipartite input** (C10's `getShortestPath_exact`, read for bipartite input):
its edges are exactly the edges `(i, j)` of the block graph with `i` reachable from the block-numbered sources and
`dist j = dist i + 1`. -/
theorem shortestPath_bipartite (nRow0 nCol0 : Nat) (edge0 : Nat → Nat → Bool) (a : Path.PathArgs)
    (hb : (Path.routeSpec nRow0 nCol0 a.toDist).bipartite = true)
    (hv : ¬ (Path.routeSpec nRow0 nCol0 a.toDist).ValueError a.toDist)
    (hi : ¬ (Path.routeSpec nRow0 nCol0 a.toDist).IndexError) :
    ∃ ps, Path.getShortestPath nRow0 nCol0 edge0 a = .ok (some ((Path.routeSpec nRow0 nCol0 a.toDist).nNodes, ps)) ∧
      ∀ i j, (i, j) ∈ ps ↔
        i < (Path.routeSpec nRow0 nCol0 a.toDist).nNodes ∧ j < (Path.routeSpec nRow0 nCol0 a.toDist).nNodes ∧
        Path.blockEdge nRow0 edge0 i j = true ∧
        ∃ k : Nat,
          Path.IsDist (Path.routeSpec nRow0 nCol0 a.toDist).nNodes (Path.blockEdge nRow0 edge0)
            (Path.routeSpec nRow0 nCol0 a.toDist).isSource i k ∧
          Path.IsDist (Path.routeSpec nRow0 nCol0 a.toDist).nNodes (Path.blockEdge nRow0 edge0)
            (Path.routeSpec nRow0 nCol0 a.toDist).isSource j (k+1) := by
  obtain ⟨ps, hps, hiff⟩ := C10.getShortestPath_exact nRow0 nCol0 edge0 a hv hi
  exact ⟨ps, hps, by simpa [hb] using hiff⟩

/-- Non-vacuity of `distances_bipartite` / `shortestPath_bipartite`: a 2×2 biadjacency with only a column source. -/
example :
    (Path.routeSpec 2 2 ({ sourceCol := some [0] } : Path.PathArgs).toDist).bipartite = true ∧
    ¬ (Path.routeSpec 2 2 ({ sourceCol := some [0] } : Path.PathArgs).toDist).ValueError
        ({ sourceCol := some [0] } : Path.PathArgs).toDist ∧
    ¬ (Path.routeSpec 2 2 ({ sourceCol := some [0] } : Path.PathArgs).toDist).IndexError ∧
    (Path.getShortestPath 2 2 (fun i j => i == j) { sourceCol := some [0] }).toOption = some (some (4, [(2, 0)])) := by
  decide

end SkNet.C03
