/-
C03 — A biadjacency matrix is treated exactly as its bipartite block adjacency.

Theorems about the bipartite plumbing that every estimator goes through (`SkNet/Model/Bipartite.lean`:
get_adjacency's decision, the block matrices, get_values / stack_values, get_adjacency_values, _split_vars)
and about the routing of the path functions (`SkNet/Model/Path.lean`, proved in `Properties/C10.lean`).
That each estimator really is `split ∘ fitAdjacency ∘ (block, stack)` is what the correspondence harness
tools/harness/c03.py checks on the implementation (fit on B versus fit on the block adjacency).
-/
import SkNet.Model.Bipartite
import SkNet.Properties.C10

namespace SkNet.C03
open SkNet SkNet.Bip

attribute [-simp] List.getD_eq_getElem?_getD

/-! ## the decision -/

/-- **bipartite decision** of `get_adjacency`: bipartite iff forced, or not square, or (directed input not
allowed and the matrix is not symmetric). -/
theorem isBipartite_iff (force square allowDirected symmetric : Bool) :
    isBipartite force square allowDirected symmetric = true ↔
      force = true ∨ square = false ∨ (allowDirected = false ∧ symmetric = false) := by
  cases force <;> cases square <;> cases allowDirected <;> cases symmetric <;> simp [isBipartite]

/-! ## the block matrices -/

/-- **denote_block**: `bipartite2undirected B = [[0,B],[Bᵀ,0]]`, rows first. -/
theorem blockUndirected_spec (nRow : Nat) (b : Nat → Nat → Rat) :
    (∀ i j, i < nRow → j < nRow → blockUndirected nRow b i j = 0) ∧
    (∀ i j, i < nRow → blockUndirected nRow b i (nRow + j) = b i j) ∧
    (∀ i j, j < nRow → blockUndirected nRow b (nRow + i) j = b j i) ∧
    (∀ i j, blockUndirected nRow b (nRow + i) (nRow + j) = 0) := by
  refine ⟨?_, ?_, ?_, ?_⟩
  · intro i j hi hj; simp [blockUndirected, hi, hj]
  · intro i j hi
    have : ¬ (nRow + j < nRow) := by omega
    simp [blockUndirected, hi, this]
  · intro i j hj
    have : ¬ (nRow + i < nRow) := by omega
    simp [blockUndirected, hj, this]
  · intro i j
    have h1 : ¬ (nRow + i < nRow) := by omega
    have h2 : ¬ (nRow + j < nRow) := by omega
    simp [blockUndirected, h1, h2]

/-- the block adjacency is symmetric: the bipartite graph is undirected -/
theorem blockUndirected_symm (nRow : Nat) (b : Nat → Nat → Rat) (i j : Nat) :
    blockUndirected nRow b i j = blockUndirected nRow b j i := by
  unfold blockUndirected
  by_cases hi : i < nRow <;> by_cases hj : j < nRow <;> simp [hi, hj]

/-- the boolean block graph used by the path functions is the support of the block matrix -/
theorem blockEdge_eq_support (nRow : Nat) (b : Nat → Nat → Rat) (i j : Nat) :
    Path.blockEdge nRow (fun r c => b r c != 0) i j = (blockUndirected nRow b i j != 0) := by
  unfold Path.blockEdge blockUndirected
  by_cases hi : i < nRow <;> by_cases hj : j < nRow <;> simp [hi, hj]

/-- `bipartite2directed B = [[0,B],[0,0]]` -/
theorem blockDirected_spec (nRow : Nat) (b : Nat → Nat → Rat) :
    (∀ i j, i < nRow → blockDirected nRow b i (nRow + j) = b i j) ∧
    (∀ i j, j < nRow → blockDirected nRow b i j = 0) ∧
    (∀ i j, blockDirected nRow b (nRow + i) j = 0) := by
  refine ⟨?_, ?_, ?_⟩
  · intro i j hi
    have : ¬ (nRow + j < nRow) := by omega
    simp [blockDirected, hi, this]
  · intro i j hj; simp [blockDirected, hj]
  · intro i j
    have : ¬ (nRow + i < nRow) := by omega
    simp [blockDirected, this]

/-! ## get_values -/

/-- an array (or list) of the right length is taken as it is; any other length is the `ValueError` -/
theorem getValues_arr (n : Nat) (l : List Rat) (d : Rat) :
    getValues n (some (.arr l)) d = if l.length = n then .ok l else .error .valueError := by
  unfold getValues
  by_cases h : l.length = n <;> simp [h]

/-- a dict with in-range keys gives a vector of length `n` holding at each key its (last) value and the
default everywhere else -/
theorem getValues_dict (n : Nat) (kv : List (Nat × Rat)) (d : Rat) (hne : kv ≠ [])
    (hin : ∀ p ∈ kv, p.1 < n) :
    ∃ x, getValues n (some (.dict kv)) d = .ok x ∧ x.length = n ∧
      ∀ i, i < n → x.getD i d = (dictLookup kv i).getD d := by
  have h1 : kv.isEmpty = false := by cases kv <;> simp_all
  have h2 : kv.all (fun p => p.1 < n) = true := List.all_eq_true.2 (fun p hp => by simpa using hin p hp)
  refine ⟨tab n fun i => (dictLookup kv i).getD d, ?_, by simp, fun i hi => by simp [hi]⟩
  simp [getValues, h1, h2]

/-- a key that is present gets one of its values; an absent key gets the default -/
theorem dictLookup_spec (kv : List (Nat × Rat)) (i : Nat) :
    (∀ v, dictLookup kv i = some v → (i, v) ∈ kv) ∧
    (dictLookup kv i = none ↔ ∀ p ∈ kv, p.1 ≠ i) := by
  unfold dictLookup
  constructor
  · intro v h
    cases hf : kv.reverse.find? (fun p => p.1 == i) with
    | none => simp [hf] at h
    | some p =>
      simp only [hf, Option.map_some, Option.some.injEq] at h
      have hmem := List.mem_of_find?_eq_some hf
      have hp := List.find?_some hf
      have hpi : p.1 = i := by simpa using hp
      have : p = (i, v) := by cases p; simp_all
      rw [← this]; exact List.mem_reverse.1 hmem
  · simp only [Option.map_eq_none_iff, List.find?_eq_none, List.mem_reverse]
    constructor
    · intro h p hp hpi; exact h p hp (by simp [hpi])
    · intro h p hp hpi; exact h p hp (by simpa using hpi)

/-- with distinct keys (a Python dict) the lookup returns *the* value of the key -/
theorem dictLookup_of_mem (kv : List (Nat × Rat)) (hnd : (kv.map (·.1)).Nodup) {i : Nat} {v : Rat}
    (h : (i, v) ∈ kv) : dictLookup kv i = some v := by
  cases hl : dictLookup kv i with
  | none => exact absurd rfl (((dictLookup_spec kv i).2.1 hl) (i, v) h)
  | some w =>
    have hw := (dictLookup_spec kv i).1 w hl
    -- two entries with the same key in a list with distinct keys are the same entry
    have : w = v := by
      clear hl
      induction kv with
      | nil => simp at h
      | cons p ps ih =>
        simp only [List.map_cons, List.nodup_cons, List.mem_map, not_exists, not_and] at hnd
        rcases List.mem_cons.1 h with h1 | h1 <;> rcases List.mem_cons.1 hw with h2 | h2
        · rw [← h1] at h2; exact (Prod.mk.inj h2).2
        · exact absurd (by rw [← h1]) (hnd.1 (i, w) h2)
        · exact absurd (by rw [← h2]) (hnd.1 (i, v) h1)
        · exact ih hnd.2 h1 h2
    rw [this]

/-! ## stack_values and _split_vars -/

/-- **stack_split**: whatever is stacked is a row part of length `n_row` followed by a column part of
length `n_col`, and `_split_vars` recovers exactly these parts (the unsuffixed output is the row part). -/
theorem stack_split (nRow nCol : Nat) (vr vc : Option Values) (d : Rat) (x : List Rat)
    (h : stackValues nRow nCol vr vc d = .ok x) :
    ∃ r c, x = r ++ c ∧ r.length = nRow ∧ c.length = nCol ∧ splitVars nRow x = (r, r, c) := by
  unfold stackValues at h
  simp only [bind, Except.bind] at h
  split at h
  · cases h
  · rename_i r hr
    split at h
    · cases h
    · rename_i c hc
      simp only [pure, Except.pure, Except.ok.injEq] at h
      have hlen : ∀ (n : Nat) (v : Values) (y : List Rat), getValues n (some v) d = .ok y → y.length = n := by
        intro n v y hy
        unfold getValues at hy
        cases v with
        | arr l =>
          simp only at hy
          split at hy
          · cases hy
          · rename_i hl; cases hy; simpa using hl
        | dict kv =>
          simp only at hy
          split at hy
          · cases hy
          · split at hy
            · cases hy; simp
            · cases hy
      have hrl := hlen _ _ _ hr
      have hcl := hlen _ _ _ hc
      refine ⟨r, c, h.symm, hrl, hcl, ?_⟩
      subst h
      simp [splitVars, ← hrl]

/-- **stack addressing**: in the stacked vector, row node `i` sits at `i` and column node `j` at
`n_row + j`. -/
theorem stack_addr {nRow : Nat} {r c : List Rat} (hr : r.length = nRow) (d : Rat) :
    (∀ i, i < nRow → (r ++ c).getD i d = r.getD i d) ∧
    (∀ j, (r ++ c).getD (nRow + j) d = c.getD j d) := by
  constructor
  · intro i hi
    rw [List.getD_eq_getElem?_getD, List.getD_eq_getElem?_getD, List.getElem?_append_left (by omega)]
  · intro j
    rw [List.getD_eq_getElem?_getD, List.getD_eq_getElem?_getD,
      List.getElem?_append_right (by omega)]
    congr 2; omega

/-- **seeds address the same nodes in both forms** (dict seeds): stacking a row dict and a column dict is
the same vector as handing the block adjacency one dict in which every column key `j` is renamed
`n_row + j`. -/
theorem stack_dict_eq_block_dict (nRow nCol : Nat) (kr kc : List (Nat × Rat)) (d : Rat)
    (hr : kr ≠ []) (hc : kc ≠ []) (hrin : ∀ p ∈ kr, p.1 < nRow) (hcin : ∀ p ∈ kc, p.1 < nCol) :
    stackValues nRow nCol (some (.dict kr)) (some (.dict kc)) d =
      getValues (nRow + nCol) (some (.dict (kr ++ kc.map fun p => (nRow + p.1, p.2)))) d := by
  obtain ⟨xr, hxr, hlr, her⟩ := getValues_dict nRow kr d hr hrin
  obtain ⟨xc, hxc, hlc, hec⟩ := getValues_dict nCol kc d hc hcin
  have hne : kr ++ kc.map (fun p => (nRow + p.1, p.2)) ≠ [] := by
    intro h; exact hr (List.append_eq_nil_iff.1 h).1
  have hin : ∀ p ∈ kr ++ kc.map (fun p => (nRow + p.1, p.2)), p.1 < nRow + nCol := by
    intro p hp
    rcases List.mem_append.1 hp with h | h
    · have := hrin p h; omega
    · obtain ⟨q, hq, rfl⟩ := List.mem_map.1 h
      have := hcin q hq; simp; omega
  obtain ⟨y, hy, hly, hey⟩ := getValues_dict (nRow + nCol) _ d hne hin
  have hstack : stackValues nRow nCol (some (.dict kr)) (some (.dict kc)) d = .ok (xr ++ xc) := by
    simp [stackValues, bind, Except.bind, hxr, hxc, pure, Except.pure]
  rw [hstack, hy]
  congr 1
  apply List.ext_getElem?
  intro i
  by_cases hi : i < nRow + nCol
  · have e1 : (xr ++ xc)[i]? = some ((xr ++ xc).getD i d) := by
      rw [List.getD_eq_getElem?_getD, List.getElem?_eq_getElem (by simp [hlr, hlc]; exact hi)]; rfl
    have e2 : y[i]? = some (y.getD i d) := by
      rw [List.getD_eq_getElem?_getD, List.getElem?_eq_getElem (by rw [hly]; exact hi)]; rfl
    rw [e1, e2, hey i hi]
    congr 1
    -- the lookup in the concatenated dict: later (column) entries win, and they only carry keys ≥ nRow
    have hlook : dictLookup (kr ++ kc.map fun p => (nRow + p.1, p.2)) i =
        if i < nRow then dictLookup kr i else dictLookup kc (i - nRow) := by
      unfold dictLookup
      rw [List.reverse_append, List.find?_append]
      by_cases hlt : i < nRow
      · have hnone : (kc.map fun p => (nRow + p.1, p.2)).reverse.find? (fun p => p.1 == i) = none := by
          rw [List.find?_eq_none]
          intro p hp
          obtain ⟨q, _, rfl⟩ := List.mem_map.1 (List.mem_reverse.1 hp)
          simp; omega
        simp [hnone, hlt]
      · have hkr : kr.reverse.find? (fun p => p.1 == i) = none := by
          rw [List.find?_eq_none]
          intro p hp
          have := hrin p (List.mem_reverse.1 hp)
          simp; omega
        simp only [hlt, if_false]
        rw [← List.map_reverse, List.find?_map]
        have hfun : ((fun p : Nat × Rat => p.1 == i) ∘ fun p : Nat × Rat => (nRow + p.1, p.2))
            = fun p => p.1 == i - nRow := by
          funext p
          simp only [Function.comp]
          apply Bool.eq_iff_iff.2
          simp; omega
        rw [hfun]
        cases hfc : kc.reverse.find? (fun p => p.1 == i - nRow) with
        | none => simp [hkr]
        | some q => simp
    rw [hlook]
    by_cases hlt : i < nRow
    · rw [(stack_addr hlr d).1 i hlt, her i hlt]; simp [hlt]
    · have hi' : i = nRow + (i - nRow) := by omega
      rw [hi', (stack_addr hlr d).2 (i - nRow), hec (i - nRow) (by omega)]
      have : ¬ (nRow + (i - nRow) < nRow) := by omega
      simp [this]
  · have h1 : (xr ++ xc).length ≤ i := by simp [hlr, hlc]; omega
    have h2 : y.length ≤ i := by rw [hly]; omega
    rw [List.getElem?_eq_none h1, List.getElem?_eq_none h2]

/-- Non-vacuity: row seeds {0:5, 2:7}, column seed {1:9}, default -1, on a 3×2 biadjacency. -/
example : (stackValues 3 2 (some (.dict [(0, 5), (2, 7)])) (some (.dict [(1, 9)])) (-1)).toOption
    = some [5, -1, 7, -1, 9] := by decide

/-- the documented default: no seeds at all means "ones on the rows, default on the columns" -/
theorem stack_default (nRow nCol : Nat) (d : Rat) :
    stackValues nRow nCol none none d = .ok ((tab nRow fun _ => (1 : Rat)) ++ tab nCol fun _ => d) := by
  simp [stackValues, bind, Except.bind, getValues, pure, Except.pure]

/-- only row seeds: the columns get the default value -/
theorem stack_row_only (nRow nCol : Nat) (v : Values) (d : Rat) (r : List Rat)
    (h : getValues nRow (some v) d = .ok r) :
    stackValues nRow nCol (some v) none d = .ok (r ++ tab nCol fun _ => d) := by
  have hd : getValues nCol (some (.arr (tab nCol fun _ => d))) d = .ok (tab nCol fun _ => d) := by
    simp [getValues]
  simp only [stackValues, bind, Except.bind, h, hd, pure, Except.pure]

/-- only column seeds: the rows get the default value -/
theorem stack_col_only (nRow nCol : Nat) (v : Values) (d : Rat) (c : List Rat)
    (h : getValues nCol (some v) d = .ok c) :
    stackValues nRow nCol none (some v) d = .ok ((tab nRow fun _ => d) ++ c) := by
  have hd : getValues nRow (some (.arr (tab nRow fun _ => d))) d = .ok (tab nRow fun _ => d) := by
    simp [getValues]
  simp only [stackValues, bind, Except.bind, h, hd, pure, Except.pure]

/-! ## get_adjacency_values -/

/-- giving `values_row` or `values_col` forces the bipartite treatment, whatever the shape -/
theorem adjValues_seeds_force (nRow nCol : Nat) (sym allowDir fb : Bool) (vr vc : Option Values)
    (d : Rat) (w : Which) (hs : vr.isSome = true ∨ vc.isSome = true) (r : AdjValues)
    (h : getAdjacencyValues nRow nCol sym allowDir fb none vr vc d w = .ok r) :
    r.bipartite = true ∧ r.nNodes = nRow + nCol := by
  unfold getAdjacencyValues at h
  have hforce : (fb || vr.isSome || vc.isSome) = true := by
    rcases hs with h1 | h1 <;> simp [h1]
  simp only [hforce, isBipartite, Bool.true_or, if_true, bind, Except.bind] at h
  split at h
  · cases h
  · simp only [pure, Except.pure, Except.ok.injEq] at h
    subst h; exact ⟨rfl, rfl⟩

/-! ## the path functions on a biadjacency matrix (routing; from C10) -/

/-- **distances_routing**: see `SkNet.C10.getDistances_bipartite_exact`. -/
theorem distances_bipartite (nRow nCol : Nat) (b : Nat → Nat → Bool) (sr sc : List Nat)
    (hsr : ∀ i ∈ sr, i < nRow) (hsc : ∀ j ∈ sc, j < nCol) :
    ∃ d, Path.getDistances nRow nCol b { sourceRow := some sr, sourceCol := some sc }
          = .ok (some (.pair (d.take nRow) (d.drop nRow))) ∧
      Path.Exact (nRow + nCol) (Path.blockEdge nRow b)
        (fun v => sr.contains v || (decide (nRow ≤ v) && sc.contains (v - nRow))) d :=
  C10.getDistances_bipartite_exact nRow nCol b sr sc hsr hsc

/-- **shortestPath_routing**: on a biadjacency matrix (with `force_bipartite`, or row/column sources)
`get_shortest_path` returns the shortest-path DAG of the *block* graph, on `n_row + n_col` nodes, from the
block-numbered sources. (On the pinned tree this was false: defect F1, repaired.) -/
theorem shortestPath_bipartite (nRow nCol : Nat) (b : Nat → Nat → Bool) (sr sc : List Nat)
    (hsr : ∀ i ∈ sr, i < nRow) (hsc : ∀ j ∈ sc, j < nCol) :
    ∃ ps, Path.getShortestPath nRow nCol b { sourceRow := some sr, sourceCol := some sc }
            = .ok (some (nRow + nCol, ps)) ∧
      ∀ i j, (i, j) ∈ ps ↔ i < nRow + nCol ∧ j < nRow + nCol ∧ Path.blockEdge nRow b i j = true ∧
        ∃ k : Nat,
          Path.IsDist (nRow + nCol) (Path.blockEdge nRow b)
            (fun v => sr.contains v || (decide (nRow ≤ v) && sc.contains (v - nRow))) i k ∧
          Path.IsDist (nRow + nCol) (Path.blockEdge nRow b)
            (fun v => sr.contains v || (decide (nRow ≤ v) && sc.contains (v - nRow))) j (k+1) := by
  obtain ⟨d, hd, hex⟩ := C10.getDistances_bipartite_exact nRow nCol b sr sc hsr hsc
  refine ⟨Path.pairsOf (Path.getDagEntries (Path.entriesOf (nRow + nCol) (Path.blockEdge nRow b)) d), ?_,
    fun i j => C10.shortestPathDag_exact (nRow + nCol) (Path.blockEdge nRow b) _ d hex i j⟩
  unfold Path.getShortestPath
  have : ({ source := none, sourceRow := some sr, sourceCol := some sc, forceBipartite := false } : Path.DistArgs)
      = { sourceRow := some sr, sourceCol := some sc } := rfl
  simp only [bind, Except.bind]
  rw [this, hd]
  simp [pure, Except.pure, List.take_append_drop]

end SkNet.C03
