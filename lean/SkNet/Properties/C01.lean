/-
C01 — Results do not depend on the container format; inputs are never modified.

(1) Containers: `sparse.csr_matrix(x)` (= `check_format`) denotes the same matrix for CSR (unsorted indices,
    duplicates), CSC, COO (duplicates add), LIL and dense input; containers that denote the same matrix have the
    same canonical CSR form; the stored order of a row's entries does not change what it denotes.
    Model: `SkNet/Model/Container.lean`, tied to scipy / check_format by the `c01.canon` run lines.
(2) Ownership: a program of `SkNet/Model/Ownership.lean` that passes the check `safeWith` never writes a
    caller's cell it does not declare, in any execution order, for any aliasing choice (`ownership_sound`).
    The programs are regenerated from the working tree on every run (tools/translate/effects.py ->
    `SkNet/Generated/Effects.lean`) and `Fn.ok` is decided for each of them (`Generated/EffectsCheck.lean`).
-/
import SkNet.Lemmas.Container
import SkNet.Lemmas.Ownership
import SkNet.Lemmas.WL

namespace SkNet.C01
open SkNet SkNet.Fmt SkNet.Own

attribute [-simp] List.getD_eq_getElem?_getD

/-! ## containers -/

/-- `check_format` keeps the shape. -/
theorem checkFormat_shape (c : Container) :
    (checkFormat c).nRow = c.nRow ∧ (checkFormat c).nCol = c.nCol := by
  cases c <;> simp [checkFormat, toCsrRows, Container.nRow, Container.nCol]

/-- **denote_checkFormat**. For every accepted container, the CSR matrix built by `check_format`
(`sparse.csr_matrix(x)`) has exactly the entries of the input: unsorted indices and duplicate entries of a CSR
input are kept, CSC is transposed, COO duplicates are summed, dense zeros are dropped. -/
theorem denote_checkFormat (c : Container) (i j : Nat) (hi : i < c.nRow) (hj : j < c.nCol) :
    denote (checkFormat c) i j = denote c i j := by
  cases c with
  | csr nCol rows => rfl
  | lil nCol rows => rfl
  | csc nRow cols =>
    simp only [checkFormat, toCsrRows, denote, Container.nRow, Container.nCol] at *
    rw [tab_getD]
    simp only [hi, if_true]
    rw [rowEntry_flatMap_cols cols i cols.length j]
    simp [hj]
  | coo nRow nCol es =>
    simp only [checkFormat, toCsrRows, denote, Container.nRow, Container.nCol] at *
    rw [tab_getD]
    simp only [hi, if_true]
    have h := rowEntry_range_filterMap
      (fun j => !((es.filter fun e => e.1 == i && e.2.1 == j).map (·.2.2)).isEmpty)
      (fun j => sumR ((es.filter fun e => e.1 == i && e.2.1 == j).map (·.2.2)))
      (by
        intro j hc
        have : ((es.filter fun e => e.1 == i && e.2.1 == j).map (·.2.2)) = [] := by
          simpa using hc
        rw [this]; rfl) nCol j
    simp only [hj, if_true] at h
    rw [← h]
    congr 1
    apply filterMap_congr'
    intro k _
    cases hk : ((es.filter fun e => e.1 == i && e.2.1 == k).map (·.2.2)).isEmpty <;> simp [hk]
  | dense nCol rows =>
    simp only [checkFormat, toCsrRows, denote, Container.nRow, Container.nCol] at *
    have hrow : (rows.map fun r => (List.range nCol).filterMap fun j =>
        if r.getD j 0 != 0 then some (j, r.getD j 0) else none).getD i []
        = (List.range nCol).filterMap fun j => if (rows.getD i []).getD j 0 != 0 then some (j, (rows.getD i []).getD j 0) else none := by
      rw [List.getD_eq_getElem?_getD, List.getD_eq_getElem?_getD, List.getElem?_map,
        List.getElem?_eq_getElem hi]
      rfl
    rw [hrow]
    have h := rowEntry_range_filterMap (fun j => (rows.getD i []).getD j 0 != 0) (fun j => (rows.getD i []).getD j 0)
      (by intro j hc; simpa using hc) nCol j
    simp only [hj, if_true] at h
    exact h

/-- the canonical form is a function of the denotation alone -/
theorem canon_of_denote (nCol : Nat) (rows rows' : Rows) (hlen : rows.length = rows'.length)
    (h : ∀ i j, i < rows.length → j < nCol → rowEntry (rows.getD i []) j = rowEntry (rows'.getD i []) j) :
    canon nCol rows = canon nCol rows' := by
  unfold canon
  apply List.ext_getElem?
  intro i
  rw [List.getElem?_map, List.getElem?_map]
  by_cases hi : i < rows.length
  · have hi' : i < rows'.length := hlen ▸ hi
    rw [List.getElem?_eq_getElem hi, List.getElem?_eq_getElem hi']
    simp only [Option.map_some, Option.some.injEq]
    apply filterMap_congr'
    intro j hj
    have hj' : j < nCol := List.mem_range.1 hj
    have := h i j hi hj'
    rw [List.getD_eq_getElem?_getD, List.getD_eq_getElem?_getD, List.getElem?_eq_getElem hi,
      List.getElem?_eq_getElem hi'] at this
    simp only [Option.getD_some] at this
    rw [this]
  · rw [List.getElem?_eq_none (Nat.le_of_not_lt hi), List.getElem?_eq_none (by rw [← hlen]; exact Nat.le_of_not_lt hi)]

/-- **sameGraph_canon**. Two containers of the same shape that denote the same matrix — whatever their
format, stored order, duplicates — are turned by `check_format` into CSR matrices with the *same* canonical
form (sorted indices, duplicates summed, zeros dropped). -/
theorem sameGraph_canon (c c' : Container) (hr : c.nRow = c'.nRow) (hc : c.nCol = c'.nCol)
    (hlen : (toCsrRows c).length = c.nRow) (hlen' : (toCsrRows c').length = c'.nRow)
    (h : ∀ i j, i < c.nRow → j < c.nCol → denote c i j = denote c' i j) :
    canon c.nCol (toCsrRows c) = canon c'.nCol (toCsrRows c') := by
  rw [← hc]
  apply canon_of_denote c.nCol _ _ (by rw [hlen, hlen', hr])
  intro i j hi hj
  rw [hlen] at hi
  have h1 : rowEntry ((toCsrRows c).getD i []) j = denote c i j := denote_checkFormat c i j hi hj
  have h2 : rowEntry ((toCsrRows c').getD i []) j = denote c' i j := denote_checkFormat c' i j (hr ▸ hi) (hc ▸ hj)
  rw [h1, h2, h i j hi hj]

/-- the length side condition of `sameGraph_canon` holds for every container whose row list has the declared
length (CSC / COO are tabulated over `nRow`) -/
theorem toCsrRows_length (c : Container) : (toCsrRows c).length = c.nRow := by
  cases c <;> simp [toCsrRows, Container.nRow]

/-- **unsorted indices**: permuting the stored entries of a row does not change the matrix. -/
theorem unsorted_same (nCol : Nat) (rows rows' : Rows) (hlen : rows.length = rows'.length)
    (hp : ∀ i, i < rows.length → (rows.getD i []).Perm (rows'.getD i [])) (i j : Nat) (hi : i < rows.length) :
    denote (.csr nCol rows) i j = denote (.csr nCol rows') i j := by
  simp only [denote]
  exact rowEntry_perm (hp i hi) j

/-- Non-vacuity: one graph as COO with a duplicate, as dense, as unsorted CSR — same canonical form. -/
example :
    canon 3 (toCsrRows (.coo 2 3 [(0, 2, 1), (0, 0, 2), (0, 2, 1), (1, 1, 5)])) = [[(0, 2), (2, 2)], [(1, 5)]] ∧
    canon 3 (toCsrRows (.dense 3 [[2, 0, 2], [0, 5, 0]])) = [[(0, 2), (2, 2)], [(1, 5)]] ∧
    canon 3 (toCsrRows (.csr 3 [[(2, 2), (0, 2)], [(1, 5)]])) = [[(0, 2), (2, 2)], [(1, 5)]] ∧
    canon 3 (toCsrRows (.csc 2 [[(0, 2)], [(1, 5)], [(0, 2)]])) = [[(0, 2), (2, 2)], [(1, 5)]] := by
  decide +kernel

/-! ## a kernel that walks `indptr / indices` directly: Weisfeiler-Lehman on unsorted indices -/

/-- **respects_denote (WL)**. The Weisfeiler-Lehman kernel reads the stored column indices of each row in
storage order; with a hash that identifies permutations (exact arithmetic) the colours do not depend on
that order: a CSR matrix with unsorted indices gives the same colours as the sorted one. -/
theorem wl_unsorted_same {H : Type} {ops : WL.HashOps H} (hx : WL.ExactOps ops) (adj adj' : List (List Nat))
    (hlen : adj.length = adj'.length)
    (hperm : ∀ i, i < adj.length → (adj.getD i []).Perm (adj'.getD i [])) (maxIter : Option Nat) :
    WL.colorWL ops adj maxIter = WL.colorWL ops adj' maxIter := by
  have htr : ∀ L : List Nat, WL.triples ops adj L = WL.triples ops adj' L := by
    intro L
    unfold WL.triples
    rw [← hlen]
    unfold tab
    apply List.map_congr_left
    intro i hi
    have hi' : i < adj.length := List.mem_range.1 hi
    have : ops.hashOf ((adj.getD i []).map fun j => L.getD j 0) = ops.hashOf ((adj'.getD i []).map fun j => L.getD j 0) :=
      (hx.hash_iff _ _).2 ((hperm i hi').map _)
    rw [this]
  have hround : ∀ L : List Nat, WL.round ops adj L = WL.round ops adj' L := by
    intro L
    unfold WL.round WL.roundAssign
    rw [htr L, hlen]
  have hcol : ∀ (m : Nat) (L : List Nat) (ch : Bool), WL.coloring ops adj m L ch = WL.coloring ops adj' m L ch := by
    intro m
    induction m with
    | zero => intro L ch; rfl
    | succ m ih =>
      intro L ch
      unfold WL.coloring
      cases ch with
      | false => rfl
      | true => simp only [if_true]; rw [hround L]; exact ih _ _
  unfold WL.colorWL
  rw [hlen]
  exact congrArg Prod.fst (hcol _ _ _)

/-! ## ownership -/

/-- **ownership_sound**. If an ownership program passes the check with some may-alias certificate, then in
every execution — statements in any order, any number of times, any aliasing choice at every `alias` — no
caller-owned cell is ever written except those the function declares it writes. For public entry points the
generated declaration is empty: nothing the caller passed in is modified (`sort_indices` excepted, as the
property says). -/
theorem ownership_sound (prog : Prog) (A : Cert) (declared : List Nat) (np : Nat)
    (h : safeWith prog A declared = true) (trace : List (Stmt × Nat)) (htr : ∀ e ∈ trace, e.1 ∈ prog)
    (p : Nat) (hp : p < np) (hnd : p ∉ declared) :
    (run (init np) trace).version.getD p 0 = 0 :=
  (good_run A declared np prog h trace (init np) htr (good_init A declared np)).untouched p hp hnd

/-- the decision procedure used on the generated programs is an instance -/
theorem safe_sound (prog : Prog) (declared : List Nat) (np : Nat) (h : safe prog declared = true)
    (trace : List (Stmt × Nat)) (htr : ∀ e ∈ trace, e.1 ∈ prog) (p : Nat) (hp : p < np) (hnd : p ∉ declared) :
    (run (init np) trace).version.getD p 0 = 0 :=
  ownership_sound prog (analyse prog) declared np h trace htr p hp hnd

/-- Non-vacuity, and the check is not trivially true: copying before writing is safe, writing through a
view of the argument is not. -/
example : safe [.bind 0 (.param 0), .bind 1 .fresh, .mutate 1] [] = true := by decide
example : safe [.bind 0 (.param 0), .bind 1 (.alias [0]), .mutate 1] [] = false := by decide
/-- the unsafe program really writes the caller's cell in some execution -/
example : (run (init 1) [(.bind 0 (.param 0), 0), (.bind 1 (.alias [0]), 0), (.mutate 1, 0)]).version = [1] := by
  decide

end SkNet.C01
