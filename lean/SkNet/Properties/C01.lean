/- C01 — placeholder, theorems follow. -/
import SkNet.Model.Basic
namespace SkNet.C01
open SkNet
theorem tab_len (n : Nat) : (tab n (fun v => v)).length = n := by simp
end SkNet.C01
