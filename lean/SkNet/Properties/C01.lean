/-
C01 — Results do not depend on the container format; inputs are never modified.

(1) Ingestion: `sparse.csr_matrix(x)` (= `check_format`) denotes the same matrix for CSR (unsorted indices,
    duplicates), CSC, COO (duplicates add), LIL and dense input, in exact arithmetic (`denote_checkFormat`) and in
    the arithmetic of the dtype — bool: or, intN / uintN: wrap-around (`denoteD_checkFormatD`, `denoteD_int_exact`);
    the stored order of a row's entries does not change what it denotes. Model: `SkNet/Model/Container.lean`, tied to
    scipy / check_format by the `c01.tocsr / c01.canon / c01.check` run lines. (`canon` is defined from the
    denotation: `canon_of_denote` and `sameGraph_canon` are corollaries of that definition, not results about scipy.)
(2) Consumers: `RespectsDenote f` — stored forms of one matrix give `f` the same output — for the consumers that have
    Lean models in other property files: proved for those reading the summed values (C11, C14 up to the emptiness
    test), proved under a hypothesis and refuted without it for the C10 edge predicate and the C02 WL adjacency lists.
(3) Ownership: a program of `SkNet/Model/Ownership.lean` whose certificate passes `safeWith` never writes a caller's
    cell it does not declare, in any execution order, for any aliasing choice (`ownership_sound`, `fn_ok_sound`).
    The programs and certificates are regenerated from the working tree on every run (tools/translate/effects.py ->
    `SkNet/Generated/Effects.lean`) and `Fn.ok` is decided for each of them (`Generated/EffectsCheck.lean`).
-/
import SkNet.Lemmas.Container
import SkNet.Lemmas.ContainerDType
import SkNet.Lemmas.ContainerConsumers
import SkNet.Lemmas.Ownership
import SkNet.Lemmas.WL
import SkNet.Model.Path
import SkNet.Model.Topology
import SkNet.Model.Heat
import SkNet.Model.Modularity

namespace SkNet.C01
open SkNet SkNet.Fmt SkNet.Own

attribute [-simp] List.getD_eq_getElem?_getD

/-! ## containers -/

/-- `check_format` keeps the shape. -/
theorem checkFormat_shape (c : Container) :
    (checkFormat c).nRow = c.nRow ∧ (checkFormat c).nCol = c.nCol := by
  cases c <;> simp [checkFormat, toCsrRows, Container.nRow, Container.nCol]

/-- **denote_checkFormat**. For every accepted container, the CSR matrix built by `check_format`
(`sparse.csr_matrix(x)`) has exactly the entries of the input: unsorted indices and duplicate entries of a CSR
input are kept, CSC is transposed, COO duplicates are summed, dense zeros are dropped. -/
theorem denote_checkFormat (c : Container) (i j : Nat) (hi : i < c.nRow) (hj : j < c.nCol) :
    denote (checkFormat c) i j = denote c i j := by
  cases c with
  | csr nCol rows => rfl
  | lil nCol rows => rfl
  | csc nRow cols =>
    simp only [checkFormat, toCsrRows, denote, Container.nRow, Container.nCol] at *
    rw [tab_getD]
    simp only [hi, if_true]
    rw [rowEntry_flatMap_cols cols i cols.length j]
    simp [hj]
  | coo nRow nCol es =>
    simp only [checkFormat, toCsrRows, denote, Container.nRow, Container.nCol] at *
    rw [tab_getD]
    simp only [hi, if_true]
    have h := rowEntry_range_filterMap
      (fun j => !((es.filter fun e => e.1 == i && e.2.1 == j).map (·.2.2)).isEmpty)
      (fun j => sumR ((es.filter fun e => e.1 == i && e.2.1 == j).map (·.2.2)))
      (by
        intro j hc
        have : ((es.filter fun e => e.1 == i && e.2.1 == j).map (·.2.2)) = [] := by
          simpa using hc
        rw [this]; rfl) nCol j
    simp only [hj, if_true] at h
    rw [← h]
    congr 1
    apply filterMap_congr'
    intro k _
    cases hk : ((es.filter fun e => e.1 == i && e.2.1 == k).map (·.2.2)).isEmpty <;> simp [hk]
  | dense nCol rows =>
    simp only [checkFormat, toCsrRows, denote, Container.nRow, Container.nCol] at *
    have hrow : (rows.map fun r => (List.range nCol).filterMap fun j =>
        if r.getD j 0 != 0 then some (j, r.getD j 0) else none).getD i []
        = (List.range nCol).filterMap fun j => if (rows.getD i []).getD j 0 != 0 then some (j, (rows.getD i []).getD j 0) else none := by
      rw [List.getD_eq_getElem?_getD, List.getD_eq_getElem?_getD, List.getElem?_map,
        List.getElem?_eq_getElem hi]
      rfl
    rw [hrow]
    have h := rowEntry_range_filterMap (fun j => (rows.getD i []).getD j 0 != 0) (fun j => (rows.getD i []).getD j 0)
      (by intro j hc; simpa using hc) nCol j
    simp only [hj, if_true] at h
    exact h

/-- **checkFormat_WF** (the second half of DESIGN's `denote_checkFormat`): the CSR matrix built from a well-formed
container stores only columns inside the shape. -/
theorem checkFormat_WF (dt : DType) (c : Container) (h : c.WF = true) : (checkFormatD dt c).WF = true := by
  cases c with
  | csr nCol rows => exact h
  | lil nCol rows => exact h
  | csc nRow cols =>
    simp only [checkFormatD, toCsrRowsD, toCsrRows, Container.WF, Container.nCol]
    apply List.all_eq_true.2
    intro r hr
    simp only [tab, List.mem_map, List.mem_range] at hr
    obtain ⟨i, _, rfl⟩ := hr
    apply List.all_eq_true.2
    intro p hp
    obtain ⟨j, hj, hp⟩ := List.mem_flatMap.1 hp
    obtain ⟨q, _, rfl⟩ := List.mem_map.1 hp
    simpa using List.mem_range.1 hj
  | coo nRow nCol es =>
    simp only [checkFormatD, toCsrRowsD, Container.WF, Container.nCol]
    apply List.all_eq_true.2
    intro r hr
    simp only [tab, List.mem_map, List.mem_range] at hr
    obtain ⟨i, _, rfl⟩ := hr
    apply List.all_eq_true.2
    intro p hp
    obtain ⟨j, hj, hp⟩ := List.mem_filterMap.1 hp
    split at hp
    · cases hp
    · injection hp with hp; subst hp; simpa using List.mem_range.1 hj
  | dense nCol rows =>
    simp only [checkFormatD, toCsrRowsD, toCsrRows, Container.WF, Container.nCol]
    apply List.all_eq_true.2
    intro r hr
    obtain ⟨r0, _, rfl⟩ := List.mem_map.1 hr
    apply List.all_eq_true.2
    intro p hp
    obtain ⟨j, hj, hp⟩ := List.mem_filterMap.1 hp
    split at hp
    · injection hp with hp; subst hp; simpa using List.mem_range.1 hj
    · cases hp

/-- `check_format` refuses exactly the matrices that store nothing (unless `allow_empty`), and otherwise returns the
CSR matrix of `denoteD_checkFormatD`. -/
theorem checkFormatE_spec (dt : DType) (allowEmpty : Bool) (c : Container) :
    checkFormatE dt allowEmpty c =
      if allowEmpty = false ∧ storedCount (toCsrRowsD dt c) = 0 then .error () else .ok (checkFormatD dt c) := by
  unfold checkFormatE
  cases allowEmpty <;> by_cases h : storedCount (toCsrRowsD dt c) = 0 <;> simp [h]

/-- the canonical form is a function of the denotation alone -/
theorem canon_of_denote (nCol : Nat) (rows rows' : Rows) (hlen : rows.length = rows'.length)
    (h : ∀ i j, i < rows.length → j < nCol → rowEntry (rows.getD i []) j = rowEntry (rows'.getD i []) j) :
    canon nCol rows = canon nCol rows' := by
  unfold canon
  apply List.ext_getElem?
  intro i
  rw [List.getElem?_map, List.getElem?_map]
  by_cases hi : i < rows.length
  · have hi' : i < rows'.length := hlen ▸ hi
    rw [List.getElem?_eq_getElem hi, List.getElem?_eq_getElem hi']
    simp only [Option.map_some, Option.some.injEq]
    apply filterMap_congr'
    intro j hj
    have hj' : j < nCol := List.mem_range.1 hj
    have := h i j hi hj'
    rw [List.getD_eq_getElem?_getD, List.getD_eq_getElem?_getD, List.getElem?_eq_getElem hi,
      List.getElem?_eq_getElem hi'] at this
    simp only [Option.getD_some] at this
    rw [this]
  · rw [List.getElem?_eq_none (Nat.le_of_not_lt hi), List.getElem?_eq_none (by rw [← hlen]; exact Nat.le_of_not_lt hi)]

/-- **sameGraph_canon**. Two containers of the same shape that denote the same matrix — whatever their
format, stored order, duplicates — are turned by `check_format` into CSR matrices with the *same* canonical
form (sorted indices, duplicates summed, zeros dropped). -/
theorem sameGraph_canon (c c' : Container) (hr : c.nRow = c'.nRow) (hc : c.nCol = c'.nCol)
    (hlen : (toCsrRows c).length = c.nRow) (hlen' : (toCsrRows c').length = c'.nRow)
    (h : ∀ i j, i < c.nRow → j < c.nCol → denote c i j = denote c' i j) :
    canon c.nCol (toCsrRows c) = canon c'.nCol (toCsrRows c') := by
  rw [← hc]
  apply canon_of_denote c.nCol _ _ (by rw [hlen, hlen', hr])
  intro i j hi hj
  rw [hlen] at hi
  have h1 : rowEntry ((toCsrRows c).getD i []) j = denote c i j := denote_checkFormat c i j hi hj
  have h2 : rowEntry ((toCsrRows c').getD i []) j = denote c' i j := denote_checkFormat c' i j (hr ▸ hi) (hc ▸ hj)
  rw [h1, h2, h i j hi hj]

/-- the length side condition of `sameGraph_canon` holds for every container whose row list has the declared
length (CSC / COO are tabulated over `nRow`) -/
theorem toCsrRows_length (c : Container) : (toCsrRows c).length = c.nRow := by
  cases c <;> simp [toCsrRows, Container.nRow]

/-- **unsorted indices**: permuting the stored entries of a row does not change the matrix. -/
theorem unsorted_same (nCol : Nat) (rows rows' : Rows) (hlen : rows.length = rows'.length)
    (hp : ∀ i, i < rows.length → (rows.getD i []).Perm (rows'.getD i [])) (i j : Nat) (hi : i < rows.length) :
    denote (.csr nCol rows) i j = denote (.csr nCol rows') i j := by
  simp only [denote]
  exact rowEntry_perm (hp i hi) j

/-- Non-vacuity: one graph as COO with a duplicate, as dense, as unsorted CSR — same canonical form. -/
example :
    canon 3 (toCsrRows (.coo 2 3 [(0, 2, 1), (0, 0, 2), (0, 2, 1), (1, 1, 5)])) = [[(0, 2), (2, 2)], [(1, 5)]] ∧
    canon 3 (toCsrRows (.dense 3 [[2, 0, 2], [0, 5, 0]])) = [[(0, 2), (2, 2)], [(1, 5)]] ∧
    canon 3 (toCsrRows (.csr 3 [[(2, 2), (0, 2)], [(1, 5)]])) = [[(0, 2), (2, 2)], [(1, 5)]] ∧
    canon 3 (toCsrRows (.csc 2 [[(0, 2)], [(1, 5)], [(0, 2)]])) = [[(0, 2), (2, 2)], [(1, 5)]] := by
  decide +kernel

/-! ## the conversions in the arithmetic of the dtype -/

/-- every stored value is a value of the dtype -/
def memD (dt : DType) (c : Container) : Prop := ∀ i j, ∀ v ∈ cell c i j, dt.mem v

/-- **denoteD_checkFormatD**. For a container of dtype `dt` (bool: `+` is or; intN / uintN: `+` wraps around; float:
exact, see `Model/Container.lean`) whose stored values are values of the dtype, the CSR matrix `check_format` builds
denotes — duplicates added up *in the dtype* — the same matrix as the input. The only arithmetic a conversion performs
is the summing of COO duplicates; no overflow hypothesis is needed because the model wraps like numpy does. -/
theorem denoteD_checkFormatD (dt : DType) (hv : dt.valid) (c : Container) (_hm : memD dt c) (i j : Nat)
    (hi : i < c.nRow) (hj : j < c.nCol) :
    denoteD dt (checkFormatD dt c) i j = denoteD dt c i j := by
  cases c with
  | csr nCol rows => rfl
  | lil nCol rows => rfl
  | csc nRow cols =>
    simp only [checkFormatD, toCsrRowsD, toCsrRows, denoteD, cell, Container.nRow, Container.nCol] at *
    rw [tab_getD]
    simp only [hi, if_true]
    rw [cell_flatMap_cols cols i cols.length j]
    simp [hj]
  | coo nRow nCol es =>
    simp only [checkFormatD, toCsrRowsD, denoteD, cell, Container.nRow, Container.nCol] at *
    rw [tab_getD]
    simp only [hi, if_true]
    have h := cell_range_filterMap
      (fun j => !((es.filter fun e => e.1 == i && e.2.1 == j).map (·.2.2)).isEmpty)
      (fun j => sumD dt ((es.filter fun e => e.1 == i && e.2.1 == j).map (·.2.2))) nCol j
    have hcongr : ((List.range nCol).filterMap fun j =>
          let vs := (es.filter fun e => e.1 == i && e.2.1 == j).map (·.2.2)
          if vs.isEmpty then none else some (j, sumD dt vs))
        = (List.range nCol).filterMap fun j =>
          if (!((es.filter fun e => e.1 == i && e.2.1 == j).map (·.2.2)).isEmpty) then
            some (j, sumD dt ((es.filter fun e => e.1 == i && e.2.1 == j).map (·.2.2))) else none := by
      apply filterMap_congr'
      intro k _
      cases hk : ((es.filter fun e => e.1 == i && e.2.1 == k).map (·.2.2)).isEmpty <;> simp [hk]
    rw [hcongr, h]
    cases hk : ((es.filter fun e => e.1 == i && e.2.1 == j).map (·.2.2)).isEmpty
    · simp only [hj, hk, Bool.not_false, and_self, if_true]
      exact sumD_single dt _ (sumD_mem dt hv _)
    · simp only [hk, Bool.not_true, Bool.false_eq_true, and_false, if_false]
      have : ((es.filter fun e => e.1 == i && e.2.1 == j).map (·.2.2)) = [] := by simpa using hk
      rw [this]
  | dense nCol rows =>
    simp only [checkFormatD, toCsrRowsD, toCsrRows, denoteD, cell, Container.nRow, Container.nCol] at *
    have hrow : (rows.map fun r => (List.range nCol).filterMap fun j =>
        if r.getD j 0 != 0 then some (j, r.getD j 0) else none).getD i []
        = (List.range nCol).filterMap fun j => if (rows.getD i []).getD j 0 != 0 then some (j, (rows.getD i []).getD j 0) else none := by
      rw [List.getD_eq_getElem?_getD, List.getD_eq_getElem?_getD, List.getElem?_map,
        List.getElem?_eq_getElem hi]
      rfl
    rw [hrow, cell_range_filterMap (fun j => (rows.getD i []).getD j 0 != 0) (fun j => (rows.getD i []).getD j 0) nCol j]
    simp [hj]

/-- the `float` instance of the dtype-aware model is the model without dtype -/
theorem denoteD_float (c : Container) (i j : Nat) : denoteD .float c i j = denote c i j := by
  cases c with
  | csr nCol rows => rfl
  | lil nCol rows => rfl
  | csc nRow cols => rfl
  | coo nRow nCol es => rfl
  | dense nCol rows =>
    simp only [denoteD, denote, cell]
    split
    · simp [sumD, DType.add, Rat.add_zero]
    · rename_i h
      have : (rows.getD i []).getD j 0 = 0 := by simpa using h
      rw [this]; rfl

/-- **the overflow hypothesis, explicit**: in an integer dtype the matrix a container denotes is the exact one as
long as, at every position, the exact sums of the stored duplicates (added one after the other, as scipy does) stay
inside the range of the dtype. Without the hypothesis the statement is false: see the `int8` example below. -/
theorem denoteD_int_exact (lo hi : Int) (c : Container) (i j : Nat) (hint : ∀ x ∈ cell c i j, x.den = 1)
    (hfit : ∀ k, k ≤ (cell c i j).length →
      (sumR ((cell c i j).drop k)).den = 1 ∧ lo ≤ (sumR ((cell c i j).drop k)).num ∧ (sumR ((cell c i j).drop k)).num ≤ hi) :
    denoteD (.int lo hi) c i j = denoteD .float c i j := by
  unfold denoteD
  rw [sumD_int_exact lo hi _ hint hfit]; rfl

/-- **unsorted indices, any dtype**: permuting the stored entries of a row does not change the matrix (the order in
which wrapped or boolean duplicates are added is immaterial). -/
theorem unsorted_sameD (dt : DType) (nCol : Nat) (rows rows' : Rows)
    (hp : ∀ i, i < rows.length → (rows.getD i []).Perm (rows'.getD i [])) (i j : Nat) (hi : i < rows.length) :
    denoteD dt (.csr nCol rows) i j = denoteD dt (.csr nCol rows') i j := by
  simp only [denoteD, cell]
  exact sumD_perm dt (((hp i hi).filter _).map _)

/-- what scipy does and exact arithmetic does not: a boolean COO matrix storing an entry twice holds `True` (not 2);
an int8 COO matrix storing 100 twice holds -56 (not 200); in both cases `check_format` keeps that denotation, and
200 is what the dtype-free model would say. -/
example :
    denoteD .bool (.coo 2 2 [(0, 1, 1), (0, 1, 1)]) 0 1 = 1 ∧
    toCsrRowsD .bool (.coo 2 2 [(0, 1, 1), (0, 1, 1)]) = [[(1, 1)], []] ∧
    denoteD int8 (.coo 2 2 [(0, 1, 100), (0, 1, 100)]) 0 1 = -56 ∧
    toCsrRowsD int8 (.coo 2 2 [(0, 1, 100), (0, 1, 100)]) = [[(1, -56)], []] ∧
    denoteD uint8 (.coo 2 2 [(0, 1, 200), (0, 1, 100)]) 0 1 = 44 ∧
    denote (.coo 2 2 [(0, 1, 100), (0, 1, 100)]) 0 1 = 200 := by
  decide +kernel

/-- the hypotheses of `denoteD_checkFormatD` and `denoteD_int_exact` are met by a concrete int8 COO matrix with
duplicates that do not overflow -/
example : (int8).valid ∧ denoteD int8 (checkFormatD int8 (.coo 1 2 [(0, 1, 50), (0, 1, 60)])) 0 1 = 110 := by
  refine ⟨⟨by decide, by decide⟩, by decide +kernel⟩

/-! ## consumers of the stored arrays: `respects_denote` -/

/-- DESIGN §5 (C01): a consumer `f` of the stored CSR rows *respects the denotation* when two well-formed stored row
lists of the same shape that denote the same matrix give the same output. -/
def RespectsDenote {β : Type} (f : Nat → Rows → β) : Prop :=
  ∀ (nCol : Nat) (rows rows' : Rows), rowsWF nCol rows = true → rowsWF nCol rows' = true → rows.length = rows'.length →
    (∀ i j, i < rows.length → j < nCol → valOf rows i j = valOf rows' i j) → f nCol rows = f nCol rows'

/-- **respects_denote, value consumers**. Every model that takes the matrix through `valOf` (the sum of the stored
entries of a position) respects the denotation — whatever it computes. -/
theorem respects_denote_val {β : Type} (F : Nat → (Nat → Nat → Rat) → β) :
    RespectsDenote fun nCol rows => F nCol (valOf rows) := by
  intro nCol rows rows' hw hw' hlen h
  show F nCol (valOf rows) = F nCol (valOf rows')
  rw [valOf_ext nCol rows rows' hw hw' hlen h]

/-- C11: `count_triangles` (sequential or any parallel schedule), `get_clustering_coefficient` and
`get_core_decomposition` (models of `Model/Topology.lean`) on a square matrix given by its stored rows. -/
theorem respects_denote_countTriangles (sched : Option Topology.Schedule) :
    RespectsDenote fun nCol rows => Topology.countTriangles rows.length nCol (valOf rows) sched := by
  intro nCol rows rows' hw hw' hlen h
  show Topology.countTriangles rows.length nCol (valOf rows) sched = Topology.countTriangles rows'.length nCol (valOf rows') sched
  rw [valOf_ext nCol rows rows' hw hw' hlen h, hlen]

theorem respects_denote_clusteringCoefficient (sched : Option Topology.Schedule) :
    RespectsDenote fun nCol rows => Topology.clusteringCoefficient rows.length nCol (valOf rows) sched := by
  intro nCol rows rows' hw hw' hlen h
  show Topology.clusteringCoefficient rows.length nCol (valOf rows) sched = Topology.clusteringCoefficient rows'.length nCol (valOf rows') sched
  rw [valOf_ext nCol rows rows' hw hw' hlen h, hlen]

theorem respects_denote_coreDecomposition :
    RespectsDenote fun nCol rows => Topology.getCoreDecomposition rows.length nCol (valOf rows) := by
  intro nCol rows rows' hw hw' hlen h
  show Topology.getCoreDecomposition rows.length nCol (valOf rows) = Topology.getCoreDecomposition rows'.length nCol (valOf rows')
  rw [valOf_ext nCol rows rows' hw hw' hlen h, hlen]

/-- number of stored entries (`nnz`): the one thing `check_format` reads that is not the denotation -/
abbrev storedNnz (rows : Rows) : Nat := storedCount rows

/-- C14: `Diffusion.fit` / `Dirichlet.fit` (model of `Model/Heat.lean`: get_adjacency_values, normalisation, the
iteration) read the values through `valOf` and, in `check_format`, whether anything is stored at all. -/
def heatConsumer (algo : Heat.Algo) (a : Heat.Args) (nIter : Int) (α : Rat) (nCol : Nat) (rows : Rows) :=
  Heat.fit algo rows.length nCol (storedNnz rows) (valOf rows) a nIter α

/-- `respects_denote` for the heat models as DESIGN states it; false — `respects_denote_heat_full_false`. -/
def respects_denote_heat_full : Prop :=
  ∀ algo a nIter α, RespectsDenote (heatConsumer algo a nIter α)

/-- what holds: same denotation and *both or neither* store an entry ⇒ same fit. -/
theorem respects_denote_heat_partial (algo : Heat.Algo) (a : Heat.Args) (nIter : Int) (α : Rat)
    (nCol : Nat) (rows rows' : Rows) (hw : rowsWF nCol rows = true) (hw' : rowsWF nCol rows' = true)
    (hlen : rows.length = rows'.length)
    (h : ∀ i j, i < rows.length → j < nCol → valOf rows i j = valOf rows' i j)
    (hnnz : storedNnz rows = 0 ↔ storedNnz rows' = 0) :
    heatConsumer algo a nIter α nCol rows = heatConsumer algo a nIter α nCol rows' := by
  unfold heatConsumer Heat.fit Heat.getAdjacencyValues
  rw [valOf_ext nCol rows rows' hw hw' hlen h, hlen]
  by_cases h0 : storedNnz rows = 0
  · have h0' := hnnz.1 h0
    simp [h0, h0']
  · have h0' : ¬ storedNnz rows' = 0 := fun e => h0 (hnnz.2 e)
    simp [h0, h0']

/-- the stored structure the heat models depend on: a matrix holding one explicit zero is accepted (and diffused),
the empty matrix of the same denotation is refused by `check_format` ('The input matrix is empty'). -/
theorem respects_denote_heat_full_false : ¬ respects_denote_heat_full := by
  intro h
  have := h .dirichlet {} 1 0 1 [[(0, 0)]] [[]] (by decide) (by decide) rfl
    (by intro i j hi hj
        have hi0 : i = 0 := by simp at hi; omega
        have hj0 : j = 0 := by omega
        subst hi0; subst hj0; decide +kernel)
  have e1 : heatConsumer .dirichlet {} 1 0 1 [[(0, 0)]] = .ok ⟨[1], none, none⟩ := by decide +kernel
  have e2 : heatConsumer .dirichlet {} 1 0 1 [[]] = .error .valueError := by rfl
  rw [e1, e2] at this
  cases this

/-- **consumers that also read `nnz`** (every entry point that starts with `check_format`): for *simple* stored forms
of one matrix — no column twice in a row, no stored zero, any stored order, e.g. what every conversion of a canonical
matrix produces — `nnz` is the same, so any model of the shape `F nCol nnz valOf` respects the denotation. -/
theorem respects_denote_val_nnz_simple {β : Type} (F : Nat → Nat → (Nat → Nat → Rat) → β) (nCol : Nat) (rows rows' : Rows)
    (hw : rowsWF nCol rows = true) (hw' : rowsWF nCol rows' = true) (hs : rowsSimple rows) (hs' : rowsSimple rows')
    (hlen : rows.length = rows'.length)
    (h : ∀ i j, i < rows.length → j < nCol → valOf rows i j = valOf rows' i j) :
    F nCol (storedCount rows) (valOf rows) = F nCol (storedCount rows') (valOf rows') := by
  have hv := valOf_ext nCol rows rows' hw hw' hlen h
  rw [storedCount_eq_of_simple rows rows' hs hs' hlen (fun i j => congrFun (congrFun hv i) j), hv]

/-- C05: `get_modularity` (model of `Model/Modularity.lean`) on simple stored forms. -/
theorem respects_denote_getModularity_simple (labels : List Int) (labelsCol : Option (List Int)) (w : Modularity.Weights) (γ : Rat)
    (nCol : Nat) (rows rows' : Rows)
    (hw : rowsWF nCol rows = true) (hw' : rowsWF nCol rows' = true) (hs : rowsSimple rows) (hs' : rowsSimple rows')
    (hlen : rows.length = rows'.length)
    (h : ∀ i j, i < rows.length → j < nCol → valOf rows i j = valOf rows' i j) :
    Modularity.getModularity rows.length nCol (storedCount rows) (valOf rows) labels labelsCol w γ
      = Modularity.getModularity rows'.length nCol (storedCount rows') (valOf rows') labels labelsCol w γ := by
  rw [hlen]
  exact respects_denote_val_nnz_simple (fun nc nnz v => Modularity.getModularity rows'.length nc nnz v labels labelsCol w γ)
    nCol rows rows' hw hw' hs hs' hlen h

/-- C11: `count_cliques` reads both the summed values (through `get_core_decomposition`) and the stored non-zero
pattern (through `get_dag`): on non-negative stored values it is a function of the denotation. -/
theorem respects_denote_countCliques_partial (k : Int) (nCol : Nat) (rows rows' : Rows)
    (hw : rowsWF nCol rows = true) (hw' : rowsWF nCol rows' = true) (hn : rowsNonneg rows) (hn' : rowsNonneg rows')
    (hlen : rows.length = rows'.length)
    (h : ∀ i j, i < rows.length → j < nCol → valOf rows i j = valOf rows' i j) :
    Topology.countCliquesEntry rows.length nCol (valOf rows) (edgeOf rows) k
      = Topology.countCliquesEntry rows'.length nCol (valOf rows') (edgeOf rows') k := by
  rw [edgeOf_ext nCol rows rows' hw hw' hn hn' hlen h, valOf_ext nCol rows rows' hw hw' hlen h, hlen]

example : rowsSimple [[(2, 1), (0, 3)], [(1, 5)]] := by
  intro r hr
  simp at hr
  rcases hr with rfl | rfl
  · refine ⟨by decide, ?_⟩
    intro p hp; simp at hp; rcases hp with rfl | rfl <;> decide
  · refine ⟨by decide, ?_⟩
    intro p hp; simp at hp; subst hp; decide

/-- C10: the path functions read `indices` and `data`: an edge is a stored entry with a non-zero value. -/
def distancesConsumer (a : Path.DistArgs) (nCol : Nat) (rows : Rows) :=
  Path.getDistances rows.length nCol (edgeOf rows) a

/-- `respects_denote` for `get_distances` as DESIGN states it; false — `respects_denote_distances_full_false`. -/
def respects_denote_distances_full : Prop := ∀ a, RespectsDenote (distancesConsumer a)

/-- what holds: on matrices with non-negative stored values (graph weights; duplicates and any stored order allowed)
the hop distances are a function of the denotation. -/
theorem respects_denote_distances_partial (a : Path.DistArgs) (nCol : Nat) (rows rows' : Rows)
    (hw : rowsWF nCol rows = true) (hw' : rowsWF nCol rows' = true) (hn : rowsNonneg rows) (hn' : rowsNonneg rows')
    (hlen : rows.length = rows'.length)
    (h : ∀ i j, i < rows.length → j < nCol → valOf rows i j = valOf rows' i j) :
    distancesConsumer a nCol rows = distancesConsumer a nCol rows' := by
  unfold distancesConsumer
  rw [edgeOf_ext nCol rows rows' hw hw' hn hn' hlen h, hlen]

/-- duplicates that cancel (2 and -2 stored at the same position) are an edge for `get_distances` although the
matrix is zero there: node 1 is at distance 1 from node 0 on one representation and unreachable on the other. -/
theorem respects_denote_distances_full_false : ¬ respects_denote_distances_full := by
  intro h
  have := h { source := some [0] } 2 [[(1, 2), (1, -2)], []] [[], []] (by decide) (by decide) rfl
    (by intro i j hi hj
        have : i = 0 ∨ i = 1 := by simp at hi; omega
        have : j = 0 ∨ j = 1 := by omega
        rcases ‹i = 0 ∨ i = 1› with rfl | rfl <;> rcases ‹j = 0 ∨ j = 1› with rfl | rfl <;> decide +kernel)
  have e1 : distancesConsumer { source := some [0] } 2 [[(1, 2), (1, -2)], []] = .ok (some (.single [0, 1])) := by rfl
  have e2 : distancesConsumer { source := some [0] } 2 [[], []] = .ok (some (.single [0, -1])) := by rfl
  rw [e1, e2] at this
  injection this with h1
  injection h1 with h2
  injection h2 with h3
  simp at h3

example : rowsNonneg [[(1, 2), (1, 1)], [(0, 3)]] ∧ rowsWF 2 [[(1, 2), (1, 1)], [(0, 3)]] = true := by
  refine ⟨?_, by decide⟩
  intro r hr p hp
  simp at hr
  rcases hr with rfl | rfl <;> simp at hp <;> rcases hp with rfl | rfl <;> decide

/-! ## a kernel that walks `indptr / indices` directly: Weisfeiler-Lehman on unsorted indices -/

/-- **respects_denote (WL), idealised hash**. The Weisfeiler-Lehman kernel reads the stored column indices of each
row in storage order; *with a hash that identifies permutations* (`WL.ExactOps`: `hashOf l = hashOf l' ↔ l.Perm l'`,
`apart a b ↔ a ≠ b`) the colours do not depend on that order. The compiled kernel does NOT satisfy `ExactOps`: it
adds float64 powers in storage order and separates hashes by `abs(h - h') > 1e-10` (`WL.floatOps`), so this theorem
is about the exact model only; for the float kernel the statement is `wl_unsorted_float_full` below (not proved;
property C02 records a hash collision of the float kernel as a finding, and the harness compares the real kernel on
shuffled indices on every run). -/
theorem wl_unsorted_same {H : Type} {ops : WL.HashOps H} (hx : WL.ExactOps ops) (adj adj' : List (List Nat))
    (hlen : adj.length = adj'.length)
    (hperm : ∀ i, i < adj.length → (adj.getD i []).Perm (adj'.getD i [])) (maxIter : Option Nat) :
    WL.colorWL ops adj maxIter = WL.colorWL ops adj' maxIter := by
  have htr : ∀ L : List Nat, WL.triples ops adj L = WL.triples ops adj' L := by
    intro L
    unfold WL.triples
    rw [← hlen]
    unfold tab
    apply List.map_congr_left
    intro i hi
    have hi' : i < adj.length := List.mem_range.1 hi
    have : ops.hashOf ((adj.getD i []).map fun j => L.getD j 0) = ops.hashOf ((adj'.getD i []).map fun j => L.getD j 0) :=
      (hx.hash_iff _ _).2 ((hperm i hi').map _)
    rw [this]
  have hround : ∀ L : List Nat, WL.round ops adj L = WL.round ops adj' L := by
    intro L
    unfold WL.round WL.roundAssign
    rw [htr L, hlen]
  have hcol : ∀ (m : Nat) (L : List Nat) (ch : Bool), WL.coloring ops adj m L ch = WL.coloring ops adj' m L ch := by
    intro m
    induction m with
    | zero => intro L ch; rfl
    | succ m ih =>
      intro L ch
      unfold WL.coloring
      cases ch with
      | false => rfl
      | true => simp only [if_true]; rw [hround L]; exact ih _ _
  unfold WL.colorWL
  rw [hlen]
  exact congrArg Prod.fst (hcol _ _ _)

/-- the float statement (not proved): the colours computed with the float64 hash and the 1e-10 separation of the
compiled kernel do not depend on the stored order. Storage order changes the float sum by round-off, so this needs a
margin hypothesis on the hashes that the kernel does not check. -/
def wl_unsorted_float_full : Prop :=
  ∀ (powers : Array Float) (adj adj' : List (List Nat)), adj.length = adj'.length →
    (∀ i, i < adj.length → (adj.getD i []).Perm (adj'.getD i [])) → ∀ maxIter,
    WL.colorWL (WL.floatOps powers) adj maxIter = WL.colorWL (WL.floatOps powers) adj' maxIter

/-- Non-vacuity of `wl_unsorted_same`: `WL.exactOps` is exact (`C02.exactOps_exact`); on the path 0-1-2 stored with
the middle row in either order the colours agree and are not constant. -/
example : WL.colorWL WL.exactOps [[1], [0, 2], [1]] none = WL.colorWL WL.exactOps [[1], [2, 0], [1]] none ∧
    WL.colorWL WL.exactOps [[1], [0, 2], [1]] none = [0, 1, 0] := by
  decide +kernel

/-- C02: the kernel's adjacency lists are the stored column indices. -/
def wlConsumer {H : Type} (ops : WL.HashOps H) (maxIter : Option Nat) (_nCol : Nat) (rows : Rows) :=
  WL.colorWL ops (adjOf rows) maxIter

/-- what holds (exact hash): two *simple* stored forms of a matrix — no column twice in a row, no stored zero, any
stored order — give the same colours. -/
theorem respects_denote_wl_partial {H : Type} {ops : WL.HashOps H} (hx : WL.ExactOps ops) (maxIter : Option Nat)
    (nCol : Nat) (rows rows' : Rows) (hs : rowsSimple rows) (hs' : rowsSimple rows') (hlen : rows.length = rows'.length)
    (h : ∀ i j, valOf rows i j = valOf rows' i j) :
    wlConsumer ops maxIter nCol rows = wlConsumer ops maxIter nCol rows' := by
  unfold wlConsumer
  apply wl_unsorted_same hx (adjOf rows) (adjOf rows') (by simp [adjOf, hlen])
  intro i hi
  exact adjOf_perm rows rows' hs hs' hlen h i (by simpa [adjOf] using hi)

/-- `respects_denote` for the WL colouring as DESIGN states it (exact hash); false: a stored zero is a neighbour. -/
def respects_denote_wl_full : Prop := ∀ maxIter, RespectsDenote (wlConsumer WL.exactOps maxIter)

theorem respects_denote_wl_full_false : ¬ respects_denote_wl_full := by
  intro h
  have := h none 3 [[(1, 1)], [(0, 1), (2, 0)], []] [[(1, 1)], [(0, 1)], []] (by decide) (by decide) rfl
    (by intro i j hi hj
        have hi' : i = 0 ∨ i = 1 ∨ i = 2 := by simp at hi; omega
        have hj' : j = 0 ∨ j = 1 ∨ j = 2 := by omega
        rcases hi' with rfl | rfl | rfl <;> rcases hj' with rfl | rfl | rfl <;> decide +kernel)
  revert this
  decide +kernel

/-! ## ownership -/

/-- **ownership_sound**. If an ownership program passes the check with some may-alias certificate, then in
every execution — statements in any order, any number of times, any aliasing choice at every `alias` — no
caller-owned cell is ever written except those the function declares it writes. For public entry points the
generated declaration is empty: nothing the caller passed in is modified (`sort_indices` excepted, as the
property says). -/
theorem ownership_sound (prog : Prog) (A : Cert) (declared : List Nat) (np : Nat)
    (h : safeWith prog A declared = true) (trace : List (Stmt × Nat)) (htr : ∀ e ∈ trace, e.1 ∈ prog)
    (p : Nat) (hp : p < np) (hnd : p ∉ declared) :
    (run (init np) trace).version.getD p 0 = 0 :=
  (good_run A declared np prog h trace (init np) htr (good_init A declared np)).untouched p hp hnd

/-- the decision procedure used on the generated programs is an instance -/
theorem safe_sound (prog : Prog) (declared : List Nat) (np : Nat) (h : safe prog declared = true)
    (trace : List (Stmt × Nat)) (htr : ∀ e ∈ trace, e.1 ∈ prog) (p : Nat) (hp : p < np) (hnd : p ∉ declared) :
    (run (init np) trace).version.getD p 0 = 0 :=
  ownership_sound prog (analyse prog) declared np h trace htr p hp hnd

/-- **fn_ok_sound**: what a discharged generated obligation means. `Fn.ok f` checks the certificate the translator
proposes for the program of `f` (`f.cert`, untrusted) and that a public entry point declares no write; then no
execution of the program — any order, any number of times, any aliasing choice — writes a caller's argument that `f`
does not declare, i.e. *any* argument when `f` is public (`sort_indices` excepted). -/
theorem fn_ok_sound (f : Fn) (h : f.ok = true) (np : Nat) (trace : List (Stmt × Nat)) (htr : ∀ e ∈ trace, e.1 ∈ f.prog)
    (p : Nat) (hp : p < np) (hnd : p ∉ f.writes) :
    (run (init np) trace).version.getD p 0 = 0 := by
  unfold Fn.ok at h
  simp only [Bool.and_eq_true] at h
  exact ownership_sound f.prog f.cert f.writes np h.1.1 trace htr p hp hnd

theorem fn_ok_public (f : Fn) (h : f.ok = true) (hpub : f.isPublic = true) : f.writes = [] := by
  unfold Fn.ok at h
  simp only [Bool.and_eq_true, Bool.or_eq_true, Bool.not_eq_true'] at h
  rcases h.2 with h2 | h2
  · rw [hpub] at h2; cases h2
  · simpa using h2

/-- Non-vacuity, and the check is not trivially true: copying before writing is safe, writing through a
view of the argument is not. -/
example : safe [.bind 0 (.param 0), .bind 1 .fresh, .mutate 1] [] = true := by decide
example : safe [.bind 0 (.param 0), .bind 1 (.alias [0]), .mutate 1] [] = false := by decide
/-- the unsafe program really writes the caller's cell in some execution -/
example : (run (init 1) [(.bind 0 (.param 0), 0), (.bind 1 (.alias [0]), 0), (.mutate 1, 0)]).version = [1] := by
  decide

end SkNet.C01
