/-
C01 — Results do not depend on the container format; inputs are never modified.

(1) Ingestion: `sparse.csr_matrix(x)` (= `check_format`) denotes the same matrix for CSR (unsorted indices,
    duplicates), CSC, COO (duplicates add), LIL and dense input, in exact arithmetic (`denote_checkFormat`) and in
    the arithmetic of the dtype — bool: or, intN / uintN: wrap-around (`denoteD_checkFormatD`, `denoteD_int_exact`);
    the stored order of a row's entries does not change what it denotes. Model: `SkNet/Model/Container.lean`, tied to
    scipy / check_format by the `c01.tocsr / c01.canon / c01.check` run lines. (`canon` is defined from the
    denotation: `canon_of_denote` and `sameGraph_canon` are corollaries of that definition, not results about scipy.)
(2) Consumers: `RespectsDenote f` — stored forms of one matrix give `f` the same output. The instances for the models of
    other properties live in `Properties/C01Consumers.lean` (a module of its own: a change of somebody else's model
    cannot break this file). For models that are handed the value function it is function extensionality; the results
    with content are about the two consumers that see the stored form: the C10 edge predicate and the C02 WL
    adjacency lists (each proved under a hypothesis and refuted without it).
(3) Ownership: a program of `SkNet/Model/Ownership.lean` whose certificate passes `safeWith` never writes a caller's
    cell it does not declare, in any execution order, for any aliasing choice (`ownership_sound`, `fn_ok_sound`).
    The programs and certificates are regenerated from the working tree on every run (tools/translate/effects.py ->
    `SkNet/Generated/Effects.lean`) and `Fn.ok` is decided for each of them (`Generated/EffectsCheck.lean`).
-/
import SkNet.Lemmas.Container
import SkNet.Lemmas.ContainerDType
import SkNet.Lemmas.ContainerConsumers
import SkNet.Lemmas.Ownership

namespace SkNet.C01
open SkNet SkNet.Fmt SkNet.Own

attribute [-simp] List.getD_eq_getElem?_getD

/-! ## containers -/

/-- `check_format` keeps the shape. -/
theorem checkFormat_shape (c : Container) :
    (checkFormat c).nRow = c.nRow ∧ (checkFormat c).nCol = c.nCol := by
  cases c <;> simp [checkFormat, toCsrRows, Container.nRow, Container.nCol]

/-- **denote_checkFormat**. For every accepted container, the CSR matrix built by `check_format`
(`sparse.csr_matrix(x)`) has exactly the entries of the input: unsorted indices and duplicate entries of a CSR
input are kept, CSC is transposed, COO duplicates are summed, dense zeros are dropped. -/
theorem denote_checkFormat (c : Container) (i j : Nat) (hi : i < c.nRow) (hj : j < c.nCol) :
    denote (checkFormat c) i j = denote c i j := by
  cases c with
  | csr nCol rows => rfl
  | lil nCol rows => rfl
  | csc nRow cols =>
    simp only [checkFormat, toCsrRows, denote, Container.nRow, Container.nCol] at *
    rw [tab_getD]
    simp only [hi, if_true]
    rw [rowEntry_flatMap_cols cols i cols.length j]
    simp [hj]
  | coo nRow nCol es =>
    simp only [checkFormat, toCsrRows, denote, Container.nRow, Container.nCol] at *
    rw [tab_getD]
    simp only [hi, if_true]
    have h := rowEntry_range_filterMap
      (fun j => !((es.filter fun e => e.1 == i && e.2.1 == j).map (·.2.2)).isEmpty)
      (fun j => sumR ((es.filter fun e => e.1 == i && e.2.1 == j).map (·.2.2)))
      (by
        intro j hc
        have : ((es.filter fun e => e.1 == i && e.2.1 == j).map (·.2.2)) = [] := by
          simpa using hc
        rw [this]; rfl) nCol j
    simp only [hj, if_true] at h
    rw [← h]
    congr 1
    apply filterMap_congr'
    intro k _
    cases hk : ((es.filter fun e => e.1 == i && e.2.1 == k).map (·.2.2)).isEmpty <;> simp [hk]
  | dense nCol rows =>
    simp only [checkFormat, toCsrRows, denote, Container.nRow, Container.nCol] at *
    have hrow : (rows.map fun r => (List.range nCol).filterMap fun j =>
        if r.getD j 0 != 0 then some (j, r.getD j 0) else none).getD i []
        = (List.range nCol).filterMap fun j => if (rows.getD i []).getD j 0 != 0 then some (j, (rows.getD i []).getD j 0) else none := by
      rw [List.getD_eq_getElem?_getD, List.getD_eq_getElem?_getD, List.getElem?_map,
        List.getElem?_eq_getElem hi]
      rfl
    rw [hrow]
    have h := rowEntry_range_filterMap (fun j => (rows.getD i []).getD j 0 != 0) (fun j => (rows.getD i []).getD j 0)
      (by intro j hc; simpa using hc) nCol j
    simp only [hj, if_true] at h
    exact h

/-- **checkFormat_WF** (the second half of DESIGN's `denote_checkFormat`): the CSR matrix built from a well-formed
container stores only columns inside the shape. -/
theorem checkFormat_WF (dt : DType) (c : Container) (h : c.WF = true) : (checkFormatD dt c).WF = true := by
  cases c with
  | csr nCol rows => exact h
  | lil nCol rows => exact h
  | csc nRow cols =>
    simp only [checkFormatD, toCsrRowsD, toCsrRows, Container.WF, Container.nCol]
    apply List.all_eq_true.2
    intro r hr
    simp only [tab, List.mem_map, List.mem_range] at hr
    obtain ⟨i, _, rfl⟩ := hr
    apply List.all_eq_true.2
    intro p hp
    obtain ⟨j, hj, hp⟩ := List.mem_flatMap.1 hp
    obtain ⟨q, _, rfl⟩ := List.mem_map.1 hp
    simpa using List.mem_range.1 hj
  | coo nRow nCol es =>
    simp only [checkFormatD, toCsrRowsD, Container.WF, Container.nCol]
    apply List.all_eq_true.2
    intro r hr
    simp only [tab, List.mem_map, List.mem_range] at hr
    obtain ⟨i, _, rfl⟩ := hr
    apply List.all_eq_true.2
    intro p hp
    obtain ⟨j, hj, hp⟩ := List.mem_filterMap.1 hp
    split at hp
    · cases hp
    · injection hp with hp; subst hp; simpa using List.mem_range.1 hj
  | dense nCol rows =>
    simp only [checkFormatD, toCsrRowsD, toCsrRows, Container.WF, Container.nCol]
    apply List.all_eq_true.2
    intro r hr
    obtain ⟨r0, _, rfl⟩ := List.mem_map.1 hr
    apply List.all_eq_true.2
    intro p hp
    obtain ⟨j, hj, hp⟩ := List.mem_filterMap.1 hp
    split at hp
    · injection hp with hp; subst hp; simpa using List.mem_range.1 hj
    · cases hp

/-- `check_format` refuses exactly the matrices that store nothing (unless `allow_empty`), and otherwise returns the
CSR matrix of `denoteD_checkFormatD`. -/
theorem checkFormatE_spec (dt : DType) (allowEmpty : Bool) (c : Container) :
    checkFormatE dt allowEmpty c =
      if allowEmpty = false ∧ storedCount (toCsrRowsD dt c) = 0 then .error () else .ok (checkFormatD dt c) := by
  unfold checkFormatE
  cases allowEmpty <;> by_cases h : storedCount (toCsrRowsD dt c) = 0 <;> simp [h]

/-- the canonical form is a function of the denotation alone -/
theorem canon_of_denote (nCol : Nat) (rows rows' : Rows) (hlen : rows.length = rows'.length)
    (h : ∀ i j, i < rows.length → j < nCol → rowEntry (rows.getD i []) j = rowEntry (rows'.getD i []) j) :
    canon nCol rows = canon nCol rows' := by
  unfold canon
  apply List.ext_getElem?
  intro i
  rw [List.getElem?_map, List.getElem?_map]
  by_cases hi : i < rows.length
  · have hi' : i < rows'.length := hlen ▸ hi
    rw [List.getElem?_eq_getElem hi, List.getElem?_eq_getElem hi']
    simp only [Option.map_some, Option.some.injEq]
    apply filterMap_congr'
    intro j hj
    have hj' : j < nCol := List.mem_range.1 hj
    have := h i j hi hj'
    rw [List.getD_eq_getElem?_getD, List.getD_eq_getElem?_getD, List.getElem?_eq_getElem hi,
      List.getElem?_eq_getElem hi'] at this
    simp only [Option.getD_some] at this
    rw [this]
  · rw [List.getElem?_eq_none (Nat.le_of_not_lt hi), List.getElem?_eq_none (by rw [← hlen]; exact Nat.le_of_not_lt hi)]

/-- **sameGraph_canon**. Two containers of the same shape that denote the same matrix — whatever their
format, stored order, duplicates — are turned by `check_format` into CSR matrices with the *same* canonical
form (sorted indices, duplicates summed, zeros dropped). -/
theorem sameGraph_canon (c c' : Container) (hr : c.nRow = c'.nRow) (hc : c.nCol = c'.nCol)
    (hlen : (toCsrRows c).length = c.nRow) (hlen' : (toCsrRows c').length = c'.nRow)
    (h : ∀ i j, i < c.nRow → j < c.nCol → denote c i j = denote c' i j) :
    canon c.nCol (toCsrRows c) = canon c'.nCol (toCsrRows c') := by
  rw [← hc]
  apply canon_of_denote c.nCol _ _ (by rw [hlen, hlen', hr])
  intro i j hi hj
  rw [hlen] at hi
  have h1 : rowEntry ((toCsrRows c).getD i []) j = denote c i j := denote_checkFormat c i j hi hj
  have h2 : rowEntry ((toCsrRows c').getD i []) j = denote c' i j := denote_checkFormat c' i j (hr ▸ hi) (hc ▸ hj)
  rw [h1, h2, h i j hi hj]

/-- the length side condition of `sameGraph_canon` holds for every container whose row list has the declared
length (CSC / COO are tabulated over `nRow`) -/
theorem toCsrRows_length (c : Container) : (toCsrRows c).length = c.nRow := by
  cases c <;> simp [toCsrRows, Container.nRow]

/-- **unsorted indices**: permuting the stored entries of a row does not change the matrix. -/
theorem unsorted_same (nCol : Nat) (rows rows' : Rows) (hlen : rows.length = rows'.length)
    (hp : ∀ i, i < rows.length → (rows.getD i []).Perm (rows'.getD i [])) (i j : Nat) (hi : i < rows.length) :
    denote (.csr nCol rows) i j = denote (.csr nCol rows') i j := by
  simp only [denote]
  exact rowEntry_perm (hp i hi) j

/-- Non-vacuity: one graph as COO with a duplicate, as dense, as unsorted CSR — same canonical form. -/
example :
    canon 3 (toCsrRows (.coo 2 3 [(0, 2, 1), (0, 0, 2), (0, 2, 1), (1, 1, 5)])) = [[(0, 2), (2, 2)], [(1, 5)]] ∧
    canon 3 (toCsrRows (.dense 3 [[2, 0, 2], [0, 5, 0]])) = [[(0, 2), (2, 2)], [(1, 5)]] ∧
    canon 3 (toCsrRows (.csr 3 [[(2, 2), (0, 2)], [(1, 5)]])) = [[(0, 2), (2, 2)], [(1, 5)]] ∧
    canon 3 (toCsrRows (.csc 2 [[(0, 2)], [(1, 5)], [(0, 2)]])) = [[(0, 2), (2, 2)], [(1, 5)]] := by
  decide +kernel

/-! ## the conversions in the arithmetic of the dtype -/

/-- **denoteD_checkFormatD**. For a container of dtype `dt` (bool: `+` is or; intN / uintN: `+` wraps around; float:
exact, see `Model/Container.lean`), the CSR matrix `check_format` builds
denotes — duplicates added up *in the dtype* — the same matrix as the input. The only arithmetic a conversion performs
is the summing of COO duplicates; no overflow hypothesis is needed because the model wraps like numpy does. -/
theorem denoteD_checkFormatD (dt : DType) (hv : dt.valid) (c : Container) (i j : Nat)
    (hi : i < c.nRow) (hj : j < c.nCol) :
    denoteD dt (checkFormatD dt c) i j = denoteD dt c i j := by
  cases c with
  | csr nCol rows => rfl
  | lil nCol rows => rfl
  | csc nRow cols =>
    simp only [checkFormatD, toCsrRowsD, toCsrRows, denoteD, cell, Container.nRow, Container.nCol] at *
    rw [tab_getD]
    simp only [hi, if_true]
    rw [cell_flatMap_cols cols i cols.length j]
    simp [hj]
  | coo nRow nCol es =>
    simp only [checkFormatD, toCsrRowsD, denoteD, cell, Container.nRow, Container.nCol] at *
    rw [tab_getD]
    simp only [hi, if_true]
    have h := cell_range_filterMap
      (fun j => !((es.filter fun e => e.1 == i && e.2.1 == j).map (·.2.2)).isEmpty)
      (fun j => sumD dt ((es.filter fun e => e.1 == i && e.2.1 == j).map (·.2.2))) nCol j
    have hcongr : ((List.range nCol).filterMap fun j =>
          let vs := (es.filter fun e => e.1 == i && e.2.1 == j).map (·.2.2)
          if vs.isEmpty then none else some (j, sumD dt vs))
        = (List.range nCol).filterMap fun j =>
          if (!((es.filter fun e => e.1 == i && e.2.1 == j).map (·.2.2)).isEmpty) then
            some (j, sumD dt ((es.filter fun e => e.1 == i && e.2.1 == j).map (·.2.2))) else none := by
      apply filterMap_congr'
      intro k _
      cases hk : ((es.filter fun e => e.1 == i && e.2.1 == k).map (·.2.2)).isEmpty <;> simp [hk]
    rw [hcongr, h]
    cases hk : ((es.filter fun e => e.1 == i && e.2.1 == j).map (·.2.2)).isEmpty
    · simp only [hj, hk, Bool.not_false, and_self, if_true]
      exact sumD_single dt _ (sumD_mem dt hv _)
    · simp only [hk, Bool.not_true, Bool.false_eq_true, and_false, if_false]
      have : ((es.filter fun e => e.1 == i && e.2.1 == j).map (·.2.2)) = [] := by simpa using hk
      rw [this]
  | dense nCol rows =>
    simp only [checkFormatD, toCsrRowsD, toCsrRows, denoteD, cell, Container.nRow, Container.nCol] at *
    have hrow : (rows.map fun r => (List.range nCol).filterMap fun j =>
        if r.getD j 0 != 0 then some (j, r.getD j 0) else none).getD i []
        = (List.range nCol).filterMap fun j => if (rows.getD i []).getD j 0 != 0 then some (j, (rows.getD i []).getD j 0) else none := by
      rw [List.getD_eq_getElem?_getD, List.getD_eq_getElem?_getD, List.getElem?_map,
        List.getElem?_eq_getElem hi]
      rfl
    rw [hrow, cell_range_filterMap (fun j => (rows.getD i []).getD j 0 != 0) (fun j => (rows.getD i []).getD j 0) nCol j]
    simp [hj]

/-- the `float` instance of the dtype-aware model is the model without dtype -/
theorem denoteD_float (c : Container) (i j : Nat) : denoteD .float c i j = denote c i j := by
  cases c with
  | csr nCol rows => rfl
  | lil nCol rows => rfl
  | csc nRow cols => rfl
  | coo nRow nCol es => rfl
  | dense nCol rows =>
    simp only [denoteD, denote, cell]
    split
    · simp [sumD, DType.add, Rat.add_zero]
    · rename_i h
      have : (rows.getD i []).getD j 0 = 0 := by simpa using h
      rw [this]; rfl

/-- **the overflow hypothesis, explicit**: in an integer dtype the matrix a container denotes is the exact one as
soon as, at every position, the exact *total* of the stored duplicates lies in the range of the dtype (wrap-around is a
ring morphism: intermediate overflows cancel, in whatever order scipy adds). Without the hypothesis the statement is
false: see the `int8` example below. -/
theorem denoteD_int_exact (lo hi : Int) (h0 : lo ≤ 0 ∧ 0 ≤ hi) (c : Container) (i j : Nat) (hint : ∀ x ∈ cell c i j, x.den = 1)
    (hfit : lo ≤ sumZ (cell c i j) ∧ sumZ (cell c i j) ≤ hi) :
    denoteD (.int lo hi) c i j = denoteD .float c i j := by
  unfold denoteD
  rw [sumD_int_exact_total lo hi h0 _ hint hfit]; rfl

/-- the hypothesis is about the total only: int8 entries 100, 100, -100 overflow on the way and still denote 100 -/
example : denoteD int8 (.coo 1 1 [(0, 0, 100), (0, 0, 100), (0, 0, -100)]) 0 0 = 100 := by decide +kernel

/-- **unsorted indices, any dtype**: permuting the stored entries of a row does not change the matrix (the order in
which wrapped or boolean duplicates are added is immaterial). -/
theorem unsorted_sameD (dt : DType) (nCol : Nat) (rows rows' : Rows)
    (hp : ∀ i, i < rows.length → (rows.getD i []).Perm (rows'.getD i [])) (i j : Nat) (hi : i < rows.length) :
    denoteD dt (.csr nCol rows) i j = denoteD dt (.csr nCol rows') i j := by
  simp only [denoteD, cell]
  exact sumD_perm dt (((hp i hi).filter _).map _)

/-- what scipy does and exact arithmetic does not: a boolean COO matrix storing an entry twice holds `True` (not 2);
an int8 COO matrix storing 100 twice holds -56 (not 200); in both cases `check_format` keeps that denotation, and
200 is what the dtype-free model would say. -/
example :
    denoteD .bool (.coo 2 2 [(0, 1, 1), (0, 1, 1)]) 0 1 = 1 ∧
    toCsrRowsD .bool (.coo 2 2 [(0, 1, 1), (0, 1, 1)]) = [[(1, 1)], []] ∧
    denoteD int8 (.coo 2 2 [(0, 1, 100), (0, 1, 100)]) 0 1 = -56 ∧
    toCsrRowsD int8 (.coo 2 2 [(0, 1, 100), (0, 1, 100)]) = [[(1, -56)], []] ∧
    denoteD uint8 (.coo 2 2 [(0, 1, 200), (0, 1, 100)]) 0 1 = 44 ∧
    denote (.coo 2 2 [(0, 1, 100), (0, 1, 100)]) 0 1 = 200 := by
  decide +kernel

/-- the hypotheses of `denoteD_checkFormatD` and `denoteD_int_exact` are met by a concrete int8 COO matrix with
duplicates that do not overflow -/
example : (int8).valid ∧ denoteD int8 (checkFormatD int8 (.coo 1 2 [(0, 1, 50), (0, 1, 60)])) 0 1 = 110 := by
  refine ⟨⟨by decide, by decide⟩, by decide +kernel⟩

/-! ## consumers of the stored arrays: `respects_denote` -/

/-- DESIGN §5 (C01): a consumer `f` of the stored CSR rows *respects the denotation* when two well-formed stored row
lists of the same shape that denote the same matrix give the same output. -/
def RespectsDenote {β : Type} (f : Nat → Rows → β) : Prop :=
  ∀ (nCol : Nat) (rows rows' : Rows), rowsWF nCol rows = true → rowsWF nCol rows' = true → rows.length = rows'.length →
    (∀ i j, i < rows.length → j < nCol → valOf rows i j = valOf rows' i j) → f nCol rows = f nCol rows'

/-- **respects_denote for models that are handed the value function** — this is function extensionality, not a
result about a kernel: the hypothesis of `RespectsDenote` *is* `valOf rows = valOf rows'` on the shape, `rowsWF` extends
it outside, so any `F` of `valOf` agrees, "whatever it computes". The instances in `Properties/C01Consumers.lean` for
count_triangles, the clustering coefficient, the core decomposition, count_cliques, get_modularity, Diffusion / Dirichlet
therefore only say that those *models* read the denotation — a fact of their type, created by the bridges of their
drivers (`Drive.C11.valMat` adds up duplicates and forgets the stored order before the model sees anything); the tie of
those models to kernels that walk `indptr / indices` of an unsorted or duplicate CSR is the run lines of C11 / C14 / C05
on such matrices, not this theorem. Only `edgeOf` (C10) and `adjOf` (C02 WL) see the stored form. -/
theorem respects_denote_val {β : Type} (F : Nat → (Nat → Nat → Rat) → β) :
    RespectsDenote fun nCol rows => F nCol (valOf rows) := by
  intro nCol rows rows' hw hw' hlen h
  show F nCol (valOf rows) = F nCol (valOf rows')
  rw [valOf_ext nCol rows rows' hw hw' hlen h]

/-- number of stored entries (`nnz`): the one thing `check_format` reads that is not the denotation -/
abbrev storedNnz (rows : Rows) : Nat := storedCount rows

/-- **consumers that also read `nnz`** (every entry point that starts with `check_format`): for *simple* stored forms
of one matrix — no column twice in a row, no stored zero, any stored order, e.g. what every conversion of a canonical
matrix produces — `nnz` is the same, so any model of the shape `F nCol nnz valOf` respects the denotation. -/
theorem respects_denote_val_nnz_simple {β : Type} (F : Nat → Nat → (Nat → Nat → Rat) → β) (nCol : Nat) (rows rows' : Rows)
    (hw : rowsWF nCol rows = true) (hw' : rowsWF nCol rows' = true) (hs : rowsSimple rows) (hs' : rowsSimple rows')
    (hlen : rows.length = rows'.length)
    (h : ∀ i j, i < rows.length → j < nCol → valOf rows i j = valOf rows' i j) :
    F nCol (storedCount rows) (valOf rows) = F nCol (storedCount rows') (valOf rows') := by
  have hv := valOf_ext nCol rows rows' hw hw' hlen h
  rw [storedCount_eq_of_simple rows rows' hs hs' hlen (fun i j => congrFun (congrFun hv i) j), hv]

example : rowsSimple [[(2, 1), (0, 3)], [(1, 5)]] := by
  intro r hr
  simp at hr
  rcases hr with rfl | rfl
  · refine ⟨by decide, ?_⟩
    intro p hp; simp at hp; rcases hp with rfl | rfl <;> decide
  · refine ⟨by decide, ?_⟩
    intro p hp; simp at hp; subst hp; decide

/-! ## ownership -/

/-- **ownership_sound**. If an ownership program passes the check with some may-alias certificate, then in
every execution — statements in any order, any number of times, any aliasing choice at every `alias` — no
caller-owned cell is ever written except those the function declares it writes. For public entry points the
generated declaration is empty: nothing the caller passed in is modified (`sort_indices` excepted, as the
property says). -/
theorem ownership_sound (prog : Prog) (A : Cert) (declared : List Nat) (np : Nat)
    (h : safeWith prog A declared = true) (trace : List (Stmt × Nat)) (htr : ∀ e ∈ trace, e.1 ∈ prog)
    (p : Nat) (hp : p < np) (hnd : p ∉ declared) :
    (run (init np) trace).version.getD p 0 = 0 :=
  (good_run A declared np prog h trace (init np) htr (good_init A declared np)).untouched p hp hnd

/-- the decision procedure used on the generated programs is an instance -/
theorem safe_sound (prog : Prog) (declared : List Nat) (np : Nat) (h : safe prog declared = true)
    (trace : List (Stmt × Nat)) (htr : ∀ e ∈ trace, e.1 ∈ prog) (p : Nat) (hp : p < np) (hnd : p ∉ declared) :
    (run (init np) trace).version.getD p 0 = 0 :=
  ownership_sound prog (analyse prog) declared np h trace htr p hp hnd

/-- **fn_ok_sound**: what a discharged generated obligation means. `Fn.ok f` checks the certificate the translator
proposes for the program of `f` (`f.cert`, untrusted) and that a public entry point declares no write; then no
execution of the program — any order, any number of times, any aliasing choice — writes a caller's argument that `f`
does not declare, i.e. *any* argument when `f` is public (`sort_indices` excepted). -/
theorem fn_ok_sound (f : Fn) (h : f.ok = true) (np : Nat) (trace : List (Stmt × Nat)) (htr : ∀ e ∈ trace, e.1 ∈ f.prog)
    (p : Nat) (hp : p < np) (hnd : p ∉ f.writes) :
    (run (init np) trace).version.getD p 0 = 0 := by
  unfold Fn.ok at h
  simp only [Bool.and_eq_true] at h
  exact ownership_sound f.prog f.cert f.writes np h.1.1 trace htr p hp hnd

theorem fn_ok_public (f : Fn) (h : f.ok = true) (hpub : f.isPublic = true) : f.writes = [] := by
  unfold Fn.ok at h
  simp only [Bool.and_eq_true, Bool.or_eq_true, Bool.not_eq_true'] at h
  rcases h.2 with h2 | h2
  · rw [hpub] at h2; cases h2
  · simpa using h2

/-- Non-vacuity, and the check is not trivially true: copying before writing is safe, writing through a
view of the argument is not. -/
example : safe [.bind 0 (.param 0), .bind 1 .fresh, .mutate 1] [] = true := by decide
example : safe [.bind 0 (.param 0), .bind 1 (.alias [0]), .mutate 1] [] = false := by decide
/-- the unsafe program really writes the caller's cell in some execution -/
example : (run (init 1) [(.bind 0 (.param 0), 0), (.bind 1 (.alias [0]), 0), (.mutate 1, 0)]).version = [1] := by
  decide

end SkNet.C01
