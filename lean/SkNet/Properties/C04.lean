/-
C04 — centrality scores equal their mathematical definitions, whatever the solver.

The model is SkNet/Model/Rank.lean (mirror of linalg/ppr_solver.py, diteration.pyx, push.pyx, polynome.py,
ranking/*.py); the specification is SkNet/Spec/Rank.lean.  All theorems are about `α := ℚ`; float rounding is
outside them (DESIGN 8).  `IsPageRank n w a y x` : `x` is the probability vector proportional to the solution of
`x = a Pᵀ x + (1-a) y`, `P` the transition matrix of the weights `w` with null rows on sinks.

Throughout, `g : Graph ℚ` is a CSR matrix (rows of stored `(column, value)` pairs), `entry g i j` its entry,
`g.Nonneg` : stored values `≥ 0`, `g.InRange` : stored columns `< g.n` (what scipy guarantees).
-/
import SkNet.Lemmas.RankPower
import SkNet.Lemmas.RankKatz
import SkNet.Lemmas.RankExists
import SkNet.Lemmas.RankSweep
import SkNet.Lemmas.RankBrandes
import SkNet.Lemmas.RankExt
import SkNet.Lemmas.RankCloseness
import SkNet.Lemmas.RankBrandesSpec
import Mathlib.Algebra.Order.Archimedean.Basic
import Mathlib.Algebra.Order.Chebyshev
import SkNet.Lemmas.RankEquiv
import SkNet.Lemmas.RankBetwSym

open Finset

namespace SkNet.C04
open SkNet SkNet.Rank SkNet.RankSpec SkNet.RankL1

/-! ## the specification is well posed -/

theorem transP_subStoch (n : ℕ) (w : ℕ → ℕ → ℚ) (hw : ∀ i j, 0 ≤ w i j) : SubStoch n (transP n w) where
  nonneg := by
    intro i j; unfold transP
    have h0 : 0 ≤ outW n w i := by unfold outW; rw [sumTo_eq]; exact sum_nonneg fun j _ => hw i j
    split
    · exact le_refl _
    · exact div_nonneg (hw i j) h0
  row_le := by
    intro i; unfold transP
    by_cases h : outW n w i = 0
    · simp [h]
    · simp only [h, if_false]
      rw [← sum_div]
      have : ∑ j ∈ range n, w i j = outW n w i := by unfold outW; rw [sumTo_eq]
      rw [this, div_self h]

theorem isPageRank_iff_isPR (n : ℕ) (w : ℕ → ℕ → ℚ) (a : ℚ) (y x : ℕ → ℚ) :
    IsPageRank n w a y x ↔ ∃ c, IsPR n (transP n w) a y x c := by
  have hd : ∀ i, dampedPT n w a x i = a * PT n (transP n w) x i := by
    intro i; unfold dampedPT PT; rw [sumTo_eq]
  unfold IsPageRank
  rw [sumTo_eq]
  constructor
  · rintro ⟨h0, h1, c, hc⟩
    exact ⟨c, h0, h1, fun i hi => by rw [hc i hi, hd]⟩
  · rintro ⟨c, h⟩
    exact ⟨h.nonneg, h.sum_one, c, fun i hi => by rw [hd]; exact h.eq i hi⟩

/-- ★ `prSpec_unique` : for non-negative weights, `0 ≤ a < 1` and a restart distribution `y`, there is at most one
    probability vector proportional to the solution of `x = a Pᵀ x + (1-a) y` (`I − a Pᵀ` is injective:
    `(1−a)‖d‖₁ ≤ ‖(I − a Pᵀ) d‖₁`). -/
theorem prSpec_unique (n : ℕ) (w : ℕ → ℕ → ℚ) (hw : ∀ i j, 0 ≤ w i j) (a : ℚ) (ha : 0 ≤ a) (ha1 : a < 1)
    (y : ℕ → ℚ) (hy : sumTo n y = 1) (x x' : ℕ → ℚ)
    (hx : IsPageRank n w a y x) (hx' : IsPageRank n w a y x') : ∀ i, i < n → x i = x' i := by
  rw [sumTo_eq] at hy
  obtain ⟨c, h⟩ := (isPageRank_iff_isPR n w a y x).mp hx
  obtain ⟨c', h'⟩ := (isPageRank_iff_isPR n w a y x').mp hx'
  exact (h.unique (transP_subStoch n w hw) ha ha1 hy h').2

/-- ★ `prSpec_exists` : under the same hypotheses the PageRank vector exists (`I − a Pᵀ` is injective on a
    finite-dimensional space, hence surjective; the solution is non-negative by the M-matrix argument and its sum
    is at least 1). With `prSpec_unique`: `prSpec a P y` is well defined. -/
theorem prSpec_exists (n : ℕ) (w : ℕ → ℕ → ℚ) (hw : ∀ i j, 0 ≤ w i j) (a : ℚ) (ha : 0 ≤ a) (ha1 : a < 1)
    (y : ℕ → ℚ) (hy0 : ∀ i, 0 ≤ y i) (hy : sumTo n y = 1) : ∃ x, IsPageRank n w a y x := by
  rw [sumTo_eq] at hy
  obtain ⟨π, c, h⟩ := exists_isPR (transP_subStoch n w hw) ha ha1 (fun i _ => hy0 i) hy
  exact ⟨π, (isPageRank_iff_isPR n w a y π).mpr ⟨c, h⟩⟩

/-- the executable form of the specification (used by the driver before it trusts an eliminated solution) is sound -/
theorem isPageRankB_sound (n : ℕ) (w : ℕ → ℕ → ℚ) (a : ℚ) (y x : ℕ → ℚ) (h : isPageRankB n w a y x = true) :
    IsPageRank n w a y x := by
  unfold isPageRankB at h
  simp only [Bool.and_eq_true, List.all_eq_true, List.mem_range, decide_eq_true_eq, beq_iff_eq] at h
  obtain ⟨⟨h0, h1⟩, h2⟩ := h
  exact ⟨h0, h1, _, h2⟩

/-- non-vacuity: the two-node graph `0 → 1`, `1 → {0, 1}` with `a = 1/2` and the uniform restart has the
    PageRank vector `(2/5, 3/5)`. -/
example : IsPageRank 2 (fun i j => if i = 0 then (if j = 1 then 1 else 0) else if i = 1 then (if j < 2 then 1 else 0) else 0)
    (1/2) (fun _ => 1/2) (fun i => if i = 0 then 2/5 else if i = 1 then 3/5 else 0) :=
  isPageRankB_sound _ _ _ _ _ (by decide +kernel)

/-- ★ `prSpec_is_surfer` : a probability vector is the PageRank vector iff it is a stationary distribution of the
    random surfer who follows an out-link with probability `a`, otherwise restarts from `y`, and always restarts
    from a node without out-links. -/
theorem prSpec_is_surfer (n : ℕ) (w : ℕ → ℕ → ℚ) (a : ℚ) (y : ℕ → ℚ) (hy : sumTo n y = 1)
    (x : ℕ → ℚ) : IsSurferStationary n w a y x ↔ IsPageRank n w a y x := by
  rw [sumTo_eq] at hy
  have hsink : ∀ i, outW n w i = 0 → ∀ j, transP n w i j = 0 := by
    intro i h j; unfold transP; simp [h]
  have hrow : ∀ i, ¬ outW n w i = 0 → ∑ j ∈ range n, transP n w i j = 1 := by
    intro i h; unfold transP
    simp only [h, if_false]
    rw [← sum_div]
    have : ∑ j ∈ range n, w i j = outW n w i := by unfold outW; rw [sumTo_eq]
    rw [this, div_self h]
  have hM : ∀ i j, surferM n w a y i j = surfer (transP n w) (fun i => outW n w i = 0) a y i j := by
    intro i j; unfold surferM surfer; rfl
  rw [isPageRank_iff_isPR]
  unfold IsSurferStationary
  rw [sumTo_eq]
  constructor
  · rintro ⟨h0, h1, hst⟩
    refine (stationary_iff_isPR (fun i => outW n w i = 0) hsink hrow h0 h1 hy).mp ?_
    intro j hj
    rw [hst j hj, sumTo_eq]
    exact sum_congr rfl fun i _ => by rw [hM]
  · rintro ⟨c, hpr⟩
    refine ⟨hpr.nonneg, hpr.sum_one, fun j hj => ?_⟩
    rw [(stationary_iff_isPR (fun i => outW n w i = 0) hsink hrow hpr.nonneg hpr.sum_one hy).mpr ⟨c, hpr⟩ j hj,
      sumTo_eq]
    exact sum_congr rfl fun i _ => by rw [hM]

/-! ## Ruffini–Horner, `solver='RH'`, Katz -/

/-- ★ `horner_eq_powersum` : `Polynome._matvec` evaluates `Σ_k coeffs[k] · Mᵏ x`, for every operator that acts on
    lists as the matrix `M` acts on vectors. -/
theorem horner_eq_powersum (n : ℕ) (M : ℕ → ℕ → ℚ) (mv : List ℚ → List ℚ) (hmv : ActsAs n mv M)
    (coeffs x out : List ℚ) (h : horner n mv coeffs x = some out) :
    ∀ i, i < n → out.getD i 0 = polyApply n M coeffs (fun j => x.getD j 0) i :=
  horner_eq_polyApply n M mv hmv coeffs x out h

/-- non-vacuity: the damped transposed transition operator of the model acts as its matrix -/
example (g : Graph ℚ) (a : ℚ) : ActsAs g.n (dampedT g a) (dampedM g a) := dampedT_actsAs g a

/-- ★ `rh_error` : `solver='RH'` with `n_iter = K` returns a vector within `2 a^{K+1}/(1−a)` (ℓ1) of the PageRank
    vector — the budget is sufficient once this is below the tolerance. -/
theorem rh_error (g : Graph ℚ) (hg : g.Nonneg) (hr : g.InRange) (a : ℚ) (ha : 0 ≤ a) (ha1 : a < 1)
    (y : List ℚ) (hy0 : ∀ i, 0 ≤ y.getD i 0) (hy1 : sumTo g.n (fun i => y.getD i 0) = 1)
    (π : ℕ → ℚ) (hπ : IsPageRank g.n (entry g) a (fun i => y.getD i 0) π) (K : ℕ) :
    sumTo g.n (fun i => |(rh g a y K).getD i 0 - π i|) ≤ 2 * (a ^ (K + 1) / (1 - a)) := by
  rw [sumTo_eq] at hy1 ⊢
  obtain ⟨c, h⟩ := (isPageRank_iff hg hr a _ π).mp hπ
  exact rh_close hg hr ha ha1 y hy0 hy1 h K

/-- ★ `katz_eq_def` : `Katz(damping_factor=a, path_length=K).scores_[i] = Σ_{k=1..K} aᵏ·#{walks of length k ending at i}`
    `= (Σ_{k=1..K} aᵏ (Aᵀ)ᵏ 1)_i` on the boolean adjacency. -/
theorem katz_eq_def (n : ℕ) (edge : ℕ → ℕ → Bool) (a : ℚ) (K : ℕ) :
    ∀ i, i < n → (katz n edge a K).getD i 0 = katzSpec n edge a K i :=
  katz_eq_spec n edge a K

/-! ## power iteration with the repaired `RandomSurferOperator` (F10) -/

/-- ★ `surfer_operator_fixed_point` (first half): one `_matvec` of the repaired operator is one step of the surfer
    chain, `x ↦ a Qᵀ x + (1−a)·y·Σx` with `Q` = transition matrix whose sink rows are replaced by `y`; the PageRank
    vector is a fixed point. -/
theorem surfer_operator_fixed_point (g : Graph ℚ) (hg : g.Nonneg) (hr : g.InRange) (a : ℚ)
    (y : List ℚ) (hy1 : sumTo g.n (fun i => y.getD i 0) = 1)
    (π : ℕ → ℚ) (hπ : IsPageRank g.n (entry g) a (fun i => y.getD i 0) π) (s : List ℚ)
    (hs : ∀ i, i < g.n → s.getD i 0 = π i) :
    ∀ i, i < g.n → (surferStep g a y s).getD i 0 = π i := by
  rw [sumTo_eq] at hy1
  obtain ⟨c, h⟩ := (isPageRank_iff hg hr a _ π).mp hπ
  intro i hi
  rw [surferStep_getD hg a y s i hi, stepF_congr g a (vec y) (vec s) π hs i]
  exact stepF_fixed hg hr hy1 h i hi

/-- ★ `piter_error` : `solver='piteration'` with `n_iter = K` and no early stop (`tol ≤ 0`) is within `2 a^K` (ℓ1) of
    the PageRank vector: each step contracts the ℓ1 distance to it by the factor `a`. -/
theorem piter_error (g : Graph ℚ) (hg : g.Nonneg) (hr : g.InRange) (a : ℚ) (ha : 0 ≤ a) (ha1 : a < 1)
    (y : List ℚ) (hy0 : ∀ i, 0 ≤ y.getD i 0) (hy1 : sumTo g.n (fun i => y.getD i 0) = 1)
    (π : ℕ → ℚ) (hπ : IsPageRank g.n (entry g) a (fun i => y.getD i 0) π) (tol : ℚ) (htol : tol ≤ 0) (K : ℕ) :
    sumTo g.n (fun i => |(piteration g a y K tol).getD i 0 - π i|) ≤ 2 * a ^ K := by
  rw [sumTo_eq] at hy1 ⊢
  obtain ⟨c, h⟩ := (isPageRank_iff hg hr a _ π).mp hπ
  exact piter_close hg hr ha ha1 y hy0 hy1 h htol K

/-- ★ `piter_stop_error` : with the stopping test, for every `n_iter = K` and every tolerance, the output of
    `solver='piteration'` is within `max (2 a^K) (2·tol/(1−a))` (ℓ1) of the PageRank vector: either `K` exact steps
    were made, or the step moved the current probability vector by less than `tol` (the very first test compares the
    unnormalised start `(1−a)·y` with the first iterate — their distance is exactly `a` — and then `y` is returned,
    which is within `2a < 2·tol`). -/
theorem piter_stop_error (g : Graph ℚ) (hg : g.Nonneg) (hr : g.InRange) (a : ℚ) (ha : 0 ≤ a) (ha1 : a < 1)
    (y : List ℚ) (hy0 : ∀ i, 0 ≤ y.getD i 0) (hy1 : sumTo g.n (fun i => y.getD i 0) = 1)
    (π : ℕ → ℚ) (hπ : IsPageRank g.n (entry g) a (fun i => y.getD i 0) π) (tol : ℚ) (K : ℕ) :
    sumTo g.n (fun i => |(piteration g a y K tol).getD i 0 - π i|) ≤ max (2 * a ^ K) (2 * tol / (1 - a)) := by
  rw [sumTo_eq] at hy1 ⊢
  obtain ⟨c, h⟩ := (isPageRank_iff hg hr a _ π).mp hπ
  exact piter_close_tol hg hr ha ha1 y hy0 hy1 h tol K

/-! ## the external solvers, as parameters with a contract -/

/-- ★ `bicgstab_contract` : `solver='bicgstab'` hands `(I − a Pᵀ) x = (1−a) y` to scipy; if what scipy returned satisfies
    the contract `‖(I − a Pᵀ)x − (1−a)y‖₁ ≤ ε` with `ε < (1−a)²`, the output `x / Σx` is within `2ε/((1−a)² − ε)` (ℓ1) of
    the PageRank vector (the harness checks scipy's residual on every run). -/
theorem bicgstab_contract (g : Graph ℚ) (hg : g.Nonneg) (hr : g.InRange) (a : ℚ) (ha : 0 ≤ a) (ha1 : a < 1)
    (y : List ℚ) (hy0 : ∀ i, 0 ≤ y.getD i 0) (hy1 : sumTo g.n (fun i => y.getD i 0) = 1)
    (π : ℕ → ℚ) (hπ : IsPageRank g.n (entry g) a (fun i => y.getD i 0) π) (x : List ℚ) (hlen : x.length = g.n) (ε : ℚ)
    (hres : sumTo g.n (fun i => |bicgstabResidual g a y x i|) ≤ ε) (hε : ε < (1 - a) * (1 - a)) :
    sumTo g.n (fun i => |(bicgstabBranch g.n x).getD i 0 - π i|) ≤ 2 * ε / ((1 - a) * (1 - a) - ε) := by
  rw [sumTo_eq] at hy1 hres ⊢
  obtain ⟨c, h⟩ := (isPageRank_iff hg hr a _ π).mp hπ
  exact bicgstab_close hg hr ha ha1 y hy0 hy1 h x hlen ε hres hε

/-- ★ `lanczos_contract` : if what ARPACK returned is an eigenvector of the (repaired) operator for the eigenvalue 1 with a
    non-zero sum, the output `|x| / Σ|x|` of `solver='lanczos'` is the PageRank vector. -/
theorem lanczos_contract (g : Graph ℚ) (hg : g.Nonneg) (hr : g.InRange) (a : ℚ) (ha : 0 ≤ a) (ha1 : a < 1)
    (y : List ℚ) (hy0 : ∀ i, 0 ≤ y.getD i 0) (hy1 : sumTo g.n (fun i => y.getD i 0) = 1)
    (π : ℕ → ℚ) (hπ : IsPageRank g.n (entry g) a (fun i => y.getD i 0) π) (x : List ℚ)
    (heig : ∀ i, i < g.n → (surferStep g a y x).getD i 0 = x.getD i 0) (hs : sumTo g.n (fun i => x.getD i 0) ≠ 0) :
    ∀ i, i < g.n → (lanczosBranch g.n x).getD i 0 = π i := by
  rw [sumTo_eq] at hy1 hs
  obtain ⟨c, h⟩ := (isPageRank_iff hg hr a _ π).mp hπ
  exact lanczos_exact hg hr ha ha1 y hy0 hy1 h x heig hs

/-- ★ `bicgstab_fallback` : `get_pagerank` tests what BiCGSTAB returned (`info == 0` and a true residual within the
    stopping rule); when the test fails (breakdown, no convergence, or scipy's recursively updated residual drifted from
    the true one) the scores are those of the direct solver: if that solution satisfies the system exactly the output is
    the PageRank vector, whatever BiCGSTAB returned. -/
theorem bicgstab_fallback (g : Graph ℚ) (hg : g.Nonneg) (hr : g.InRange) (a : ℚ) (ha : 0 ≤ a) (ha1 : a < 1)
    (y : List ℚ) (hy0 : ∀ i, 0 ≤ y.getD i 0) (hy1 : sumTo g.n (fun i => y.getD i 0) = 1)
    (π : ℕ → ℚ) (hπ : IsPageRank g.n (entry g) a (fun i => y.getD i 0) π) (info : ℤ) (rule : ℚ)
    (iter direct : List ℚ) (hrej : bicgstabAccept g a y info rule iter = false) (hlen : direct.length = g.n)
    (hdir : ∀ i, i < g.n → bicgstabResidual g a y direct i = 0) :
    ∀ i, i < g.n → (bicgstabBranch g.n (bicgstabScores g a y info rule iter direct)).getD i 0 = π i := by
  have hsc : bicgstabScores g a y info rule iter direct = direct := by
    unfold bicgstabScores; rw [hrej]; rfl
  rw [hsc]
  have hres : sumTo g.n (fun i => |bicgstabResidual g a y direct i|) ≤ 0 := by
    rw [sumTo_eq]; apply le_of_eq; apply sum_eq_zero; intro i hi; rw [hdir i (mem_range.mp hi)]; simp
  have h1a : 0 < (1 - a) * (1 - a) := by have : 0 < 1 - a := by linarith
                                         positivity
  have hb := bicgstab_contract g hg hr a ha ha1 y hy0 hy1 π hπ direct hlen 0 hres h1a
  rw [sumTo_eq] at hb
  simp only [mul_zero, zero_div] at hb
  have hz := (sum_eq_zero_iff_of_nonneg (fun i _ => abs_nonneg _)).mp (le_antisymm hb (sum_nonneg fun i _ => abs_nonneg _))
  intro i hi
  have h0 : (bicgstabBranch g.n direct).getD i 0 - π i = 0 := abs_eq_zero.mp (hz i (mem_range.mpr hi))
  linarith

/-- `info ≠ 0` is one way to fail the test -/
theorem bicgstabAccept_info (g : Graph ℚ) (a : ℚ) (y : List ℚ) (info : ℤ) (hinfo : info ≠ 0) (rule : ℚ) (iter : List ℚ) :
    bicgstabAccept g a y info rule iter = false := by
  unfold bicgstabAccept
  have : (info == 0) = false := by simpa using hinfo
  rw [this]; rfl

/-- ★ `bicgstab_checked` : an iterate that passes the test of `get_pagerank` (`info = 0` and `‖(I − aPᵀ)x − (1−a)y‖₂ ≤ rule`,
    `rule = max(tol, 1e-5‖b‖₂)`) has an ℓ1 residual of at most `√n · rule` (Cauchy–Schwarz): for every `ε` with
    `n·rule² ≤ ε²` and `ε < (1−a)²` the output is within `2ε/((1−a)² − ε)` of the PageRank vector.  The hypothesis of
    `bicgstab_contract` is established by the code, it is no longer an assumption on scipy. -/
theorem bicgstab_checked (g : Graph ℚ) (hg : g.Nonneg) (hr : g.InRange) (a : ℚ) (ha : 0 ≤ a) (ha1 : a < 1)
    (y : List ℚ) (hy0 : ∀ i, 0 ≤ y.getD i 0) (hy1 : sumTo g.n (fun i => y.getD i 0) = 1)
    (π : ℕ → ℚ) (hπ : IsPageRank g.n (entry g) a (fun i => y.getD i 0) π) (info : ℤ) (rule : ℚ)
    (iter direct : List ℚ) (hlen : iter.length = g.n) (hacc : bicgstabAccept g a y info rule iter = true)
    (ε : ℚ) (hε0 : 0 ≤ ε) (hnε : (g.n : ℚ) * (rule * rule) ≤ ε * ε) (hε : ε < (1 - a) * (1 - a)) :
    sumTo g.n (fun i => |(bicgstabBranch g.n (bicgstabScores g a y info rule iter direct)).getD i 0 - π i|)
      ≤ 2 * ε / ((1 - a) * (1 - a) - ε) := by
  have hsc : bicgstabScores g a y info rule iter direct = iter := by
    unfold bicgstabScores; rw [hacc]; rfl
  rw [hsc]
  unfold bicgstabAccept at hacc
  rw [Bool.and_eq_true] at hacc
  have h2 : ¬ rule * rule < bicgstabRes2sq g a y iter := by simpa using hacc.2
  have h2' : ∑ i ∈ range g.n, bicgstabResidual g a y iter i ^ 2 ≤ rule * rule := by
    have e : bicgstabRes2sq g a y iter = ∑ i ∈ range g.n, bicgstabResidual g a y iter i ^ 2 := by
      unfold bicgstabRes2sq; rw [map_range_sum]; apply sum_congr rfl; intro i _; ring
    rw [← e]; exact not_lt.mp h2
  have hcs : (∑ i ∈ range g.n, |bicgstabResidual g a y iter i|) ^ 2
      ≤ (g.n : ℚ) * ∑ i ∈ range g.n, bicgstabResidual g a y iter i ^ 2 := by
    have := sq_sum_le_card_mul_sum_sq (s := range g.n) (f := fun i => |bicgstabResidual g a y iter i|)
    simpa [sq_abs] using this
  have hS0 : 0 ≤ ∑ i ∈ range g.n, |bicgstabResidual g a y iter i| := sum_nonneg fun i _ => abs_nonneg _
  have hres : sumTo g.n (fun i => |bicgstabResidual g a y iter i|) ≤ ε := by
    rw [sumTo_eq]
    by_contra hlt
    have hlt := not_le.mp hlt
    have := mul_self_lt_mul_self hε0 hlt
    have hn0 : (0 : ℚ) ≤ g.n := Nat.cast_nonneg _
    have := mul_le_mul_of_nonneg_left h2' hn0
    nlinarith
  exact bicgstab_contract g hg hr a ha ha1 y hy0 hy1 π hπ iter hlen ε hres hε

/-- ★ `lanczos_residual_contract` : if the output `x` of `solver='lanczos'` (sum 1) is moved by the repaired operator by at
    most `r` in ℓ1 — the residual the harness measures on every run — it is within `r/(1−a)` of the PageRank vector. -/
theorem lanczos_residual_contract (g : Graph ℚ) (hg : g.Nonneg) (hr : g.InRange) (a : ℚ) (ha : 0 ≤ a) (ha1 : a < 1)
    (y : List ℚ) (hy0 : ∀ i, 0 ≤ y.getD i 0) (hy1 : sumTo g.n (fun i => y.getD i 0) = 1)
    (π : ℕ → ℚ) (hπ : IsPageRank g.n (entry g) a (fun i => y.getD i 0) π) (x : List ℚ)
    (hx1 : sumTo g.n (fun i => x.getD i 0) = 1) (r : ℚ)
    (hres : sumTo g.n (fun i => |(surferStep g a y x).getD i 0 - x.getD i 0|) ≤ r) :
    sumTo g.n (fun i => |x.getD i 0 - π i|) ≤ r / (1 - a) := by
  rw [sumTo_eq] at hy1 hx1 hres ⊢
  obtain ⟨c, h⟩ := (isPageRank_iff hg hr a _ π).mp hπ
  exact lanczos_residual hg hr ha ha1 y hy0 hy1 h x hx1 r hres

/-! ## restart weights -/

/-- a dict of restart weights becomes the array that holds the value of the last item with key `i` and `0` elsewhere; an
    empty dict (numpy's ValueError in `np.min`) and a key `≥ n` (IndexError) are refused. Keys are natural numbers: numpy's
    wrap-around of negative keys is outside the model. -/
theorem restart_dict (n : ℕ) (kv : List (ℕ × ℚ)) (v : List ℚ) (h : getValues n 0 (.dict kv) = .ok v) :
    kv ≠ [] ∧ (∀ p ∈ kv, p.1 < n) ∧ v.length = n ∧
    ∀ i, i < n → v.getD i 0 = match kv.reverse.find? (fun p => p.1 == i) with
                              | some p => p.2
                              | none => 0 :=
  getValues_dict n 0 kv v h


/-- ★ `restart_is_distribution` : the restart vector `get_adjacency_values(..., which='probs')` hands to `get_pagerank` is the
    distribution `w_i / Σ_j w_j` of the caller's non-negative weights (array form; `None` is the array of ones and a dict
    the array that is `0` off its keys: `getValues`). -/
theorem restart_is_distribution (n : ℕ) (v : List ℚ) (hlen : v.length = n) (h0 : ∀ i, 0 ≤ v.getD i 0) (hpos : 0 < v.sum) :
    (∀ i, i < n → (probs n v).getD i 0 = restartDist n (fun j => v.getD j 0) i) ∧
    (∀ i, 0 ≤ (probs n v).getD i 0) ∧ sumTo n (fun i => (probs n v).getD i 0) = 1 := by
  rw [sumTo_eq]; exact probs_dist n v hlen h0 hpos

/-! ## D-iteration -/

/-- ★ `diter_invariant` : for every sequence of atomic node activations, in any order,
    `(I − a Pᵀ)·scores + fluid = fluid₀` (`P` = the matrix of the data handed to the kernel). -/
theorem diter_invariant (g : Graph ℚ) (hr : g.InRange) (a r : ℚ) (F0 : ℕ → ℚ) (st : DState ℚ)
    (h : DInv g a F0 st) (ks : List ℕ) : DInv g a F0 (activate g a r st ks) :=
  h.activate hr r ks

/-- ★ `diter_mass` : under the same activations fluid and scores stay non-negative and `residu` stays the total
    fluid: it decreases by `(1−a)·sent` at a node with out-links and by `sent` at a sink. -/
theorem diter_mass (g : Graph ℚ) (hg : g.Nonneg) (hr : g.InRange) (hs : g.RowStoch) (a : ℚ) (ha : 0 ≤ a)
    (F0 : ℕ → ℚ) (st : DState ℚ) (hI : DInv g a F0 st) (hM : DMass g st) (ks : List ℕ) :
    DMass g (activate g a (1 - a) st ks) :=
  hM.activate hg hr hs ha ks hI

/-- the loop of the kernel is such a sequence of activations (sweeps `0, …, n−1`, stopped by the test on `residu`) -/
theorem diffusion_is_activations (g : Graph ℚ) (a r tol : ℚ) (K : ℕ) (st : DState ℚ) :
    ∃ ks : List ℕ, diterLoop g a r tol K st = activate g a r st ks :=
  diterLoop_activations g a r tol K st

/-- ★ `diter_error` : wherever the kernel stops, `(1−a)·‖z − scores‖₁ ≤ residu` for the solution `z` of
    `z − a Pᵀ z = fluid₀`; in particular the result depends on the schedule of atomic activations only through
    `residu`, and when the stopping test `residu < tol·(1−a)` has fired the distance is below `tol`. -/
theorem diter_error (g : Graph ℚ) (hg : g.Nonneg) (hr : g.InRange) (hs : g.RowStoch) (a : ℚ) (ha : 0 ≤ a)
    (hP : SubStoch g.n (entry g)) (fluid0 : List ℚ) (hlen : fluid0.length = g.n) (hf0 : ∀ i, 0 ≤ fluid0.getD i 0)
    (hsum : sumTo g.n (fun i => fluid0.getD i 0) = 1 - a) (K : ℕ) (tol : ℚ)
    (z : ℕ → ℚ) (hz : ∀ i, i < g.n → z i - a * PT g.n (entry g) z i = fluid0.getD i 0) :
    let st := diffusion g (tab g.n fun _ => 0) fluid0 a K tol
    (1 - a) * sumTo g.n (fun i => |z i - st.scores.getD i 0|) ≤ st.residu := by
  intro st
  rw [sumTo_eq] at hsum ⊢
  have hI0 : DInv g a (fun i => fluid0.getD i 0)
      { scores := tab g.n fun _ => 0, fluid := fluid0, residu := 1 - a } := by
    refine ⟨by simp, hlen, fun i hi => ?_⟩
    have : PT g.n (entry g) (fun j => (tab g.n fun _ => (0 : ℚ)).getD j 0) i = 0 := by
      unfold PT; apply sum_eq_zero; intro j _
      show entry g j i * (tab g.n fun _ => (0 : ℚ)).getD j 0 = 0
      rw [tab_getD]; simp
    show (tab g.n fun _ => (0 : ℚ)).getD i 0
      - a * PT g.n (entry g) (fun j => (tab g.n fun _ => (0 : ℚ)).getD j 0) i + fluid0.getD i 0 = fluid0.getD i 0
    rw [this, tab_getD, if_pos hi]; ring
  have hM0 : DMass g { scores := tab g.n fun _ => (0 : ℚ), fluid := fluid0, residu := 1 - a } :=
    ⟨hf0, fun i => by simp only [tab_getD]; split <;> exact le_refl _, hsum.symm⟩
  obtain ⟨ks, hks⟩ := diterLoop_activations g a (1 - a) tol K
    { scores := tab g.n fun _ => (0 : ℚ), fluid := fluid0, residu := 1 - a }
  have hst : st = activate g a (1 - a) { scores := tab g.n fun _ => (0 : ℚ), fluid := fluid0, residu := 1 - a } ks := hks
  rw [hst]
  exact diffusion_residual hP ha (hI0.activate hr (1 - a) ks) (hM0.activate hg hr hs ha ks hI0) z hz

/-- ★ `sweep_contracts` : one sweep over the nodes `0 … n−1` (each an atomic activation) leaves at most the fraction
    `a` of the fluid, so `K` sweeps leave at most `a^K`. -/
theorem diter_sweep_contracts (g : Graph ℚ) (hg : g.Nonneg) (hr : g.InRange) (hs : g.RowStoch)
    (hP : SubStoch g.n (entry g)) (a : ℚ) (ha : 0 ≤ a) (ha1 : a ≤ 1) (F0 : ℕ → ℚ) (st : DState ℚ)
    (hI : DInv g a F0 st) (hM : DMass g st) : (diterSweep g a (1 - a) st).residu ≤ a * st.residu :=
  sweep_contracts hg hr hs hP ha ha1 hI hM

/-- ★ `diteration_error` : `solver='diteration'` (normalisation of the adjacency, the kernel with its stopping test,
    final normalisation) with `n_iter = K ≥ 1` is within `2·max(tol, a^K)/(1−a)` (ℓ1) of the PageRank vector. -/
theorem diteration_error (g : Graph ℚ) (hg : g.Nonneg) (hr : g.InRange) (a : ℚ) (ha : 0 ≤ a) (ha1 : a < 1)
    (y : List ℚ) (hy0 : ∀ i, 0 ≤ y.getD i 0) (hy1 : sumTo g.n (fun i => y.getD i 0) = 1)
    (π : ℕ → ℚ) (hπ : IsPageRank g.n (entry g) a (fun i => y.getD i 0) π) (tol : ℚ) (K : ℕ) (hK : 0 < K) :
    sumTo g.n (fun i => |(diteration g a y K tol).getD i 0 - π i|) ≤ 2 * max tol (a ^ K) / (1 - a) := by
  rw [sumTo_eq] at hy1 ⊢
  obtain ⟨c, h⟩ := (isPageRank_iff hg hr a _ π).mp hπ
  exact diteration_close hg hr ha ha1 y hy0 hy1 h tol K hK

/-- non-vacuity of the hypotheses on the graph and the restart vector used by the solver theorems: the witness
    graph below (`0 → 1`, `1 → {0, 1}`), the uniform restart, damping 1/2, PageRank vector `(2/5, 3/5)`. -/
example : ∃ (g : Graph ℚ) (y : List ℚ) (π : ℕ → ℚ), g.Nonneg ∧ g.InRange ∧ (∀ i, 0 ≤ y.getD i 0) ∧
    sumTo g.n (fun i => y.getD i 0) = 1 ∧ IsPageRank g.n (entry g) (1/2) (fun i => y.getD i 0) π := by
  refine ⟨{ n := 2, row := fun i => if i = 0 then [(1, 1)] else if i = 1 then [(0, 1), (1, 1)] else [] },
    [1/2, 1/2], fun i => ([2/5, 3/5] : List ℚ).getD i 0, ?_, ?_, ?_, by decide +kernel,
    isPageRankB_sound _ _ _ _ _ (by decide +kernel)⟩
  · intro i p hp
    simp only at hp
    split at hp
    · simp at hp; subst hp; norm_num
    · split at hp
      · simp at hp; rcases hp with rfl | rfl <;> norm_num
      · simp at hp
  · intro i p hp
    simp only at hp
    split at hp
    · simp at hp; subst hp; norm_num
    · split at hp
      · simp at hp; rcases hp with rfl | rfl <;> norm_num
      · simp at hp
  · intro i
    by_cases h0 : i = 0
    · subst h0; norm_num
    · by_cases h1 : i = 1
      · subst h1; norm_num
      · have : 2 ≤ i := by omega
        rw [List.getD_eq_getElem?_getD, List.getElem?_eq_none (by simpa using this)]; simp

/-! ## "for every solver once its iteration budget is sufficient" -/

/-- ★ `pagerank_budget_suffices` : for every accuracy `ε > 0` there is an iteration budget `K₀` such that, for every
    `n_iter ≥ K₀` and no early stop, the three iterative solvers of the model — power iteration, Ruffini–Horner and
    D-iteration — all return a vector within `ε` (ℓ1) of the PageRank vector (bicgstab / lanczos: `bicgstab_contract`,
    `lanczos_contract`; push: `push_as_written_wrong`). -/
theorem pagerank_budget_suffices (g : Graph ℚ) (hg : g.Nonneg) (hr : g.InRange) (a : ℚ) (ha : 0 ≤ a) (ha1 : a < 1)
    (y : List ℚ) (hy0 : ∀ i, 0 ≤ y.getD i 0) (hy1 : sumTo g.n (fun i => y.getD i 0) = 1)
    (π : ℕ → ℚ) (hπ : IsPageRank g.n (entry g) a (fun i => y.getD i 0) π) (ε : ℚ) (hε : 0 < ε) :
    ∃ K₀ : ℕ, ∀ K, K₀ ≤ K →
      sumTo g.n (fun i => |(piteration g a y K 0).getD i 0 - π i|) ≤ ε ∧
      sumTo g.n (fun i => |(rh g a y K).getD i 0 - π i|) ≤ ε ∧
      sumTo g.n (fun i => |(diteration g a y K 0).getD i 0 - π i|) ≤ ε := by
  have h1a : 0 < 1 - a := by linarith
  obtain ⟨K₀, hK₀⟩ := exists_pow_lt_of_lt_one (show 0 < ε * (1 - a) / 2 by positivity) ha1
  refine ⟨K₀ + 1, fun K hK => ?_⟩
  have hpow : a ^ K ≤ ε * (1 - a) / 2 := by
    have : a ^ K ≤ a ^ K₀ := pow_le_pow_of_le_one ha (le_of_lt ha1) (by omega)
    linarith
  have hpow1 : a ^ (K + 1) ≤ a ^ K := pow_le_pow_of_le_one ha (le_of_lt ha1) (by omega)
  have hak : 0 ≤ a ^ K := pow_nonneg ha K
  have hb1 : 2 * a ^ K ≤ ε := by nlinarith
  have hb2 : 2 * a ^ K / (1 - a) ≤ ε := by
    rw [div_le_iff₀ h1a]; nlinarith
  refine ⟨?_, ?_, ?_⟩
  · exact (piter_error g hg hr a ha ha1 y hy0 hy1 π hπ 0 (le_refl 0) K).trans hb1
  · refine (rh_error g hg hr a ha ha1 y hy0 hy1 π hπ K).trans ?_
    have : 2 * (a ^ (K + 1) / (1 - a)) ≤ 2 * a ^ K / (1 - a) := by
      rw [mul_div_assoc]
      exact mul_le_mul_of_nonneg_left (div_le_div_of_nonneg_right hpow1 (le_of_lt h1a)) (by norm_num)
    linarith
  · refine (diteration_error g hg hr a ha ha1 y hy0 hy1 π hπ 0 K (by omega)).trans ?_
    rw [max_eq_right hak]; exact hb2

/-! ### why the sweep may not be a `prange` (F11, repaired) -/

/-- events of one iteration that executes `fluid[j] += x` as the compiled code does: a load, then a store -/
inductive RmwEv
  | load (it : Nat)          -- iteration `it` reads fluid[j] into its register
  | store (it : Nat)         -- iteration `it` writes register + its increment to fluid[j]
deriving DecidableEq

/-- shared cell, registers of the two iterations -/
structure RmwState where
  cell : Int
  reg : Nat → Int

/-- one event; `inc it` is the mass iteration `it` sends to the shared neighbour -/
def rmwStep (inc : Nat → Int) (s : RmwState) : RmwEv → RmwState
  | .load it => { s with reg := fun k => if k = it then s.cell else s.reg k }
  | .store it => { s with cell := s.reg it + inc it }

def rmwRun (inc : Nat → Int) (evs : List RmwEv) : Int :=
  (evs.foldl (rmwStep inc) { cell := 0, reg := fun _ => 0 }).cell

/-- a *test* (`decide` on a two-event literal of the toy `RmwState`, not a theorem about the model), kept as documentation of
    the defect F11 that was repaired by making the sweep sequential: two iterations of the
    former `prange` that push the masses 3 and 5 to a common neighbour `j` with `fluid[j] += …` executed as load-then-store
    keep both under the sequential schedule, and lose the mass 3 under the interleaving load₀ load₁ store₀ store₁ — the
    invariant of `diter_invariant` needs every activation to be atomic. -/
example :
    rmwRun (fun it => if it = 0 then 3 else 5) [.load 0, .store 0, .load 1, .store 1] = 8 ∧
    rmwRun (fun it => if it = 0 then 3 else 5) [.load 0, .load 1, .store 0, .store 1] = 5 := by
  constructor <;> decide

/-! ## closeness -/

/-- ★ `closeness_eq_def` : `Closeness.scores_[i] = (n−1) / Σ_j d(i,j)` where `d(i,·)` is the row of hop distances
    computed by `get_distances` (exact by C10), and `0` when some node is unreachable from `i`.  Guard `2 ≤ n`: for the graph
    with a single node the code evaluates `0/0` and returns `[nan]` (there is no other node; the driver answers `nan`). -/
theorem closeness_eq_def (n : ℕ) (hn : 1 < n) (dist : List (List ℤ)) (i : ℕ) (hi : i < n) :
    (closenessOf n dist : List ℚ).getD i 0
      = if (dist.getD i []).any (· < 0) then 0
        else ((n : ℚ) - 1) / (((dist.getD i []).foldl (· + ·) 0 : ℤ) : ℚ) :=
  closenessOf_eq n (by omega) dist i hi

/-- ★ `closeness_eq_spec` : `Closeness(method='exact')` (the distance loop never runs out of fuel) returns, for every node
    `i`, `(n−1)/Σ_j d(i,j)` where `d` is the hop distance of the walk-based specification of C10, and `0` when some node is
    unreachable from `i` (`2 ≤ n`, see `closeness_eq_def`). -/
theorem closeness_eq_spec (n : ℕ) (hn : 1 < n) (edge : ℕ → ℕ → Bool) :
    ∃ sc : List ℚ, closeness n edge = some sc ∧ ∀ i, i < n → sc.getD i 0 = closenessSpec n edge i :=
  SkNet.Rank.closeness_eq_spec n (by omega) edge

/-! ## HITS -/

/-- ○ HITS: when the leading singular vector returned by the solver is sign-definite, the score is its absolute value
    (that it is sign-definite is Perron–Frobenius, assumed; the harness checks the singular-pair equations on the outputs). -/
theorem hits_post_abs (v : List ℚ) (h : (∀ x ∈ v, 0 ≤ x) ∨ (∀ x ∈ v, x ≤ 0)) : hitsPost v = v.map fun x => |x| :=
  hitsPost_abs v h

/-- ★ `hits_post_sign` : what the (repaired) post-processing does on the vectors the SVD solver really returns — a
    non-negative singular vector `u` plus round-off `e` of either sign, up to a global sign: as soon as the positive entries
    of `w = u + e` carry more mass than the negative ones, `hitsPost w = hitsPost (−w) = max(w, 0)` entrywise, and every
    entry of the result is within `|e_i|` of `u_i`.  (The former rule counted entries instead of mass: noise on the null
    entries of `u` could outvote the entry carrying the mass, F-hits-sign.) -/
theorem hits_post_sign (u e : List ℚ) (hu : ∀ i, 0 ≤ u.getD i 0) (w : List ℚ) (hlen : w.length = u.length)
    (hw : ∀ i, i < w.length → w.getD i 0 = u.getD i 0 + e.getD i 0)
    (hmass : 0 - (w.filter fun x => decide (x < 0)).sum < (w.filter fun x => decide (0 < x)).sum) :
    hitsPost w = clip0 w ∧ hitsPost (w.map fun x => 0 - x) = clip0 w ∧
    ∀ i, i < u.length → |(clip0 w).getD i 0 - u.getD i 0| ≤ |e.getD i 0| := by
  obtain ⟨h1, h2⟩ := hitsPost_sign w hmass
  refine ⟨h1, h2, fun i hi => ?_⟩
  have hiw : i < w.length := by rw [hlen]; exact hi
  have hc : (clip0 w).getD i 0 = if w.getD i 0 < 0 then 0 else w.getD i 0 := by
    unfold clip0
    rw [List.getD_eq_getElem?_getD, List.getElem?_map, List.getD_eq_getElem?_getD, List.getElem?_eq_getElem hiw]
    simp
  rw [hc, hw i hiw]
  exact clip_noise _ _ (hu i)

/-- non-vacuity (the vector of F-hits-sign: one entry carries the mass, round-off of the other sign on the null entries) -/
example : hitsPost ([-1/1000000, 1, -1/1000000, -1/1000000] : List ℚ) = [0, 1, 0, 0] ∧
    hitsPost ([1/1000000, -1, 1/1000000, 1/1000000] : List ℚ) = [0, 1, 0, 0] := by decide +kernel

/-! ## Brandes, BFS phase -/

/-- the BFS of `Betweenness.fit` for one source starts from `Brandes.initState` and runs with fuel `n + 1` -/
theorem brandesSource_eq (n : ℕ) (nbr : ℕ → List ℕ) (scores : List ℚ) (source : ℕ) :
    brandesSource n nbr scores source =
      match brandesBfs nbr (n + 1) (Brandes.initState n source) with
      | none => none
      | some st => some (brandesBack source st.sigma st.preds st.seen (tab n fun _ => 0) scores).2 := rfl

/-- ★ `brandes_sigma` : for stored neighbours in range and a source in range, the `while` loop of the BFS phase
    terminates within the fuel `n + 1` (the model never answers `none`), and when it ends `dists[v]` is the hop
    distance of `v` from the source (`-1` exactly for the nodes no walk reaches) and `sigma[v]` is the number of
    shortest paths from the source to `v` (walks of length `dists[v]` along the stored neighbours, counted with
    multiplicity; `Brandes.paths_eq_walkCount` : the walk count of the specification when no neighbour is stored twice). -/
theorem brandes_sigma (n : ℕ) (nbr : ℕ → List ℕ) (hnbr : ∀ u, ∀ v ∈ nbr u, v < n) (src : ℕ) (hsrc : src < n) :
    ∃ st, brandesBfs nbr (n + 1) (Brandes.initState n src) = some st ∧
      ∀ v, v < n →
        (st.dists.getD v (-1) < 0 ∧ ∀ d, Brandes.paths n nbr src d v = 0) ∨
        (0 ≤ st.dists.getD v (-1) ∧ Brandes.IsDist n nbr src v (st.dists.getD v (-1)).toNat ∧
          st.sigma.getD v 0 = Brandes.paths n nbr src (st.dists.getD v (-1)).toNat v) := by
  obtain ⟨st, hst⟩ := Brandes.brandes_bfs_total hnbr hsrc
  exact ⟨st, hst, Brandes.brandes_sigma hnbr hsrc (n + 1) st hst⟩

/-- non-vacuity: the path `0 — 1 — 2` from the source 0: distances `0, 1, 2`, one shortest path each -/
example : (brandesBfs (fun i => if i = 0 then [1] else if i = 1 then [0, 2] else if i = 2 then [1] else []) 4
    (Brandes.initState 3 0)).map (fun st => (st.dists, st.sigma)) = some ([0, 1, 2], [1, 1, 1]) := by decide

/-- ★ `brandes_accumulation` : for one source, after the stack of processed nodes has been unwound, the array `delta`
    satisfies Brandes' recursion `delta[v] = Σ_w #(v in preds[w])·sigma[v]/sigma[w]·(1 + delta[w])` at every node and every
    node reached from the source (other than the source) has received its `delta`. -/
theorem brandes_accumulation (n : ℕ) (nbr : ℕ → List ℕ) (hnbr : ∀ u, ∀ v ∈ nbr u, v < n) (src : ℕ) (hsrc : src < n)
    (scores0 : List ℚ) (hlen : scores0.length = n) :
    ∃ (st : BState) (delta sc : List ℚ),
      brandesBfs nbr (n + 1) (Brandes.initState n src) = some st ∧ brandesSource n nbr scores0 src = some sc ∧
      sc.length = n ∧
      (∀ v, v < n → delta.getD v 0 = Brandes.recSum n st.sigma st.preds delta (fun _ => True) v) ∧
      (∀ v, v < n → sc.getD v 0 = scores0.getD v 0 +
        if 0 ≤ st.dists.getD v (-1) ∧ v ≠ src then delta.getD v 0 else 0) :=
  Brandes.brandesSource_spec hnbr hsrc scores0 hlen

/-- ★ `brandes_dependency` (Brandes' theorem, end to end): for adjacency lists in range without repeated neighbours,
    `Betweenness.fit` never runs out of fuel and the score of every node `v` is the ordered-pair sum
    `Σ_{s ≠ v ≠ t} σ_st(v)/σ_st` of the specification (`σ_st` = number of shortest `s`–`t` paths, `σ_st(v)` those through `v`,
    hop distances of C10) — halved when the adjacency is symmetric (`betweennessSpec`). -/
theorem brandes_dependency (n : ℕ) (nbr : ℕ → List ℕ) (hnbr : ∀ u, ∀ v ∈ nbr u, v < n) (hnd : ∀ u, (nbr u).Nodup)
    (symmetric : Bool) :
    ∃ sc : List ℚ, betweenness n nbr symmetric = some sc ∧ ∀ v, v < n →
      sc.getD v 0 = if symmetric then betweennessSpec n (Brandes.edgeOf nbr) v
                    else dependencySum n (Brandes.edgeOf nbr) v :=
  Brandes.betweenness_eq_spec hnbr hnd symmetric

/-- ★ `pairDep_symmetric`, `betweenness_undirected` (M2): on an undirected graph `σ_st(v)/σ_st = σ_ts(v)/σ_ts`, and half of Brandes'
    ordered-pair sum is the textbook sum over unordered pairs `{s, t}`. -/
theorem betweenness_undirected (n : ℕ) (nbr : ℕ → List ℕ) (hnbr : ∀ u, ∀ v ∈ nbr u, v < n) (hnd : ∀ u, (nbr u).Nodup)
    (hsym : Brandes.SymNbr n nbr) :
    (∀ s t v, s < n → t < n → v < n → pairDep n (Brandes.edgeOf nbr) s t v = pairDep n (Brandes.edgeOf nbr) t s v) ∧
    ∀ v, v < n → betweennessSpec n (Brandes.edgeOf nbr) v = betweennessUndirected n (Brandes.edgeOf nbr) v :=
  ⟨fun _ _ _ hs ht hv => Brandes.pairDep_sym hnbr hnd hsym hs ht hv,
   fun _ hv => Brandes.betweennessSpec_eq_undirected hnbr hnd hsym hv⟩

/-- ★ `betweenness_fit_eq_def` : `Betweenness.fit` end to end, on the graph of the non-zero entries (`edge i j` = entry `(i,j)` is
    not zero; `nnz` stored entries) of a weakly connected matrix: the run never exhausts its fuel, and the definition is selected
    by the graph itself — unordered-pair sums `Σ_{ {s,t}, s ≠ v ≠ t } σ_st(v)/σ_st` when the pattern is symmetric, Brandes'
    ordered-pair sums otherwise.  The path counters of the code are C doubles (after the repair): exact below 2⁵³, rounded
    beyond — float rounding is outside the theorem, as everywhere. -/
theorem betweenness_fit_eq_def (n nnz : ℕ) (edge : ℕ → ℕ → Bool) (hnnz : nnz ≠ 0)
    (hconn : weaklyConnected n edge = true) :
    ∃ sc : List ℚ, betweennessFit n nnz edge = .ok (some sc) ∧ ∀ v, v < n →
      sc.getD v 0 = if patternSymmetric n edge then betweennessUndirected n edge v else dependencySum n edge v :=
  Brandes.betweennessFit_eq_spec n nnz edge hnnz hconn

/-- non-vacuity: the directed path `0 → 1 → 2` (3 stored entries would be `nnz = 2`) -/
example : betweennessFit (α := ℚ) 3 2 (fun i j => decide (i + 1 = j)) = .ok (some [0, 1, 0]) := by decide +kernel

/-- non-vacuity: the path `0 — 1 — 2` : only the middle node lies between two others -/
example : (betweenness 3 (fun i => if i = 0 then [1] else if i = 1 then [0, 2] else if i = 2 then [1] else []) true
    : Option (List ℚ)) = some [0, 1, 0] := by decide +kernel

/-! ## renumbering the nodes renumbers the scores (the C04 share of C02)

`SkNet.WL.IsPerm n π πinv` : `π`, `πinv` are inverse bijections of `{0..n-1}`.  The renumbered graph is any weight function /
edge predicate / adjacency lists with `w' (π i) (π j) = w i j` on `{0..n-1}`. -/

/-- the cyclic shift of `{0,1,2}` used by the non-vacuity examples -/
theorem shift3_isPerm : SkNet.WL.IsPerm 3 (fun i => (i + 1) % 3) (fun i => (i + 2) % 3) :=
  ⟨by decide, by decide, by decide, by decide⟩

/-- a statement about pairs of nodes below 3, in the form `decide` can evaluate -/
theorem pairs3 {P : ℕ → ℕ → Prop} (h : ∀ i, i < 3 → ∀ j, j < 3 → P i j) : ∀ i j, i < 3 → j < 3 → P i j :=
  fun i j hi hj => h i hi j hj

/-- ★ `prSpec_equivariant` : the PageRank vector of the renumbered graph with the renumbered restart distribution is the
    renumbered PageRank vector, `z (π i) = x i`, for every `n` and every permutation (existence and uniqueness:
    `prSpec_exists`, `prSpec_unique`). -/
theorem prSpec_equivariant (n : ℕ) (π πinv : ℕ → ℕ) (hp : SkNet.WL.IsPerm n π πinv) (w w' : ℕ → ℕ → ℚ)
    (hw' : ∀ i j, 0 ≤ w' i j) (hww : ∀ i j, i < n → j < n → w' (π i) (π j) = w i j) (a : ℚ) (ha : 0 ≤ a) (ha1 : a < 1)
    (y y' : ℕ → ℚ) (hy : sumTo n y = 1) (hyy : ∀ i, i < n → y' (π i) = y i) (x z : ℕ → ℚ)
    (hx : IsPageRank n w a y x) (hz : IsPageRank n w' a y' z) : ∀ i, i < n → z (π i) = x i := by
  have hy' : sumTo n y' = 1 := by
    rw [← Equiv.sumTo_perm hp y', ← hy, sumTo_eq, sumTo_eq]
    exact sum_congr rfl fun j hj => hyy j (mem_range.mp hj)
  have hrel : IsPageRank n w' a y' (fun k => x (πinv k)) :=
    Equiv.isPageRank_relabel hp hww hyy (fun i hi => by show x (πinv (π i)) = x i; rw [hp.left i hi]) a hx
  intro i hi
  have := prSpec_unique n w' hw' a ha ha1 y' hy' z _ hz hrel (π i) (hp.lt i hi)
  rw [this]; show x (πinv (π i)) = x i; rw [hp.left i hi]

/-- the transport itself: a renumbered PageRank vector is a PageRank vector of the renumbered graph -/
theorem prSpec_relabel (n : ℕ) (π πinv : ℕ → ℕ) (hp : SkNet.WL.IsPerm n π πinv) (w w' : ℕ → ℕ → ℚ)
    (hww : ∀ i j, i < n → j < n → w' (π i) (π j) = w i j) (a : ℚ) (y y' x x' : ℕ → ℚ)
    (hyy : ∀ i, i < n → y' (π i) = y i) (hxx : ∀ i, i < n → x' (π i) = x i) (hx : IsPageRank n w a y x) :
    IsPageRank n w' a y' x' :=
  Equiv.isPageRank_relabel hp hww hyy hxx a hx

/-- non-vacuity: the graph `0 → 1` on 3 nodes and its shifted copy `1 → 2`, uniform restart, damping 1/2 -/
example : IsPageRank 3 (fun i j => if i = 1 ∧ j = 2 then 1 else 0) (1/2) (fun _ => 1/3)
    (fun k => ([2/7, 3/7, 2/7] : List ℚ).getD ((k + 2) % 3) 0) :=
  prSpec_relabel 3 _ _ shift3_isPerm (fun i j => if i = 0 ∧ j = 1 then 1 else 0) _
    (pairs3 (by decide +kernel)) (1/2) (fun _ => 1/3) _ (fun i => ([2/7, 3/7, 2/7] : List ℚ).getD i 0) _
    (fun _ _ => rfl) (by decide +kernel) (isPageRankB_sound _ _ _ _ _ (by decide +kernel))

/-- ★ every solver is equivariant up to its error bound: if two outputs are within `B` (ℓ1) of the PageRank vectors of a
    graph and of its renumbered copy, they are renumberings of each other up to `2B` — with `rh_error`, `piter_stop_error`,
    `diteration_error`, `bicgstab_contract` this covers the solvers of the model. -/
theorem solver_equivariant_up_to_bound (n : ℕ) (π πinv : ℕ → ℕ) (hp : SkNet.WL.IsPerm n π πinv) (x z u u' : ℕ → ℚ)
    (hzx : ∀ i, i < n → z (π i) = x i) (B : ℚ) (hu : sumTo n (fun i => |u i - x i|) ≤ B)
    (hu' : sumTo n (fun i => |u' i - z i|) ≤ B) : sumTo n (fun i => |u' (π i) - u i|) ≤ 2 * B := by
  rw [← Equiv.sumTo_perm hp (fun i => |u' i - z i|)] at hu'
  rw [sumTo_eq] at hu hu' ⊢
  calc ∑ i ∈ range n, |u' (π i) - u i| ≤ ∑ i ∈ range n, (|u' (π i) - z (π i)| + |u i - x i|) := by
        apply sum_le_sum; intro i hi
        have e : u' (π i) - u i = (u' (π i) - z (π i)) - (u i - x i) := by rw [hzx i (mem_range.mp hi)]; ring
        rw [e]; exact abs_sub _ _
    _ ≤ 2 * B := by rw [sum_add_distrib]; linarith

/-- ★ `katz_equivariant` : Katz scores (model and walk-count definition) of the renumbered graph are the renumbered scores -/
theorem katz_equivariant (n : ℕ) (π πinv : ℕ → ℕ) (hp : SkNet.WL.IsPerm n π πinv) (edge edge' : ℕ → ℕ → Bool)
    (he : ∀ i j, i < n → j < n → edge' (π i) (π j) = edge i j) (a : ℚ) (K : ℕ) :
    ∀ i, i < n → katzSpec n edge' a K (π i) = katzSpec n edge a K i ∧
      (katz n edge' a K).getD (π i) 0 = (katz n edge a K).getD i 0 := by
  intro i hi
  have h := Equiv.katzSpec_perm hp he a K hi
  exact ⟨h, by rw [katz_eq_def n edge' a K (π i) (hp.lt i hi), katz_eq_def n edge a K i hi, h]⟩

example : (katz 3 (fun i j => decide (i = 1 ∧ j = 2)) (1/2 : ℚ) 2).getD ((2 + 1) % 3) 0
    = (katz 3 (fun i j => decide (i = 0 ∧ j = 1)) (1/2 : ℚ) 2).getD 2 0 :=
  (katz_equivariant 3 _ _ shift3_isPerm _ _ (pairs3 (by decide)) (1/2) 2 2 (by decide)).2

/-- ★ `closeness_equivariant` : hop distances, the closeness of the specification and the output of `Closeness` are
    renumbered with the nodes -/
theorem closeness_equivariant (n : ℕ) (hn : 1 < n) (π πinv : ℕ → ℕ) (hp : SkNet.WL.IsPerm n π πinv)
    (edge edge' : ℕ → ℕ → Bool) (he : ∀ i j, i < n → j < n → edge' (π i) (π j) = edge i j) :
    (∀ s v, s < n → v < n → RankSpec.dist n edge' (π s) (π v) = RankSpec.dist n edge s v) ∧
    (∀ i, i < n → closenessSpec n edge' (π i) = closenessSpec n edge i) ∧
    ∃ sc sc' : List ℚ, closeness n edge = some sc ∧ closeness n edge' = some sc' ∧
      ∀ i, i < n → sc'.getD (π i) 0 = sc.getD i 0 := by
  refine ⟨fun s v hs hv => Equiv.dist_perm hp he hs hv, fun i hi => Equiv.closenessSpec_perm hp he hi, ?_⟩
  obtain ⟨sc, hsc, hval⟩ := closeness_eq_spec n hn edge
  obtain ⟨sc', hsc', hval'⟩ := closeness_eq_spec n hn edge'
  exact ⟨sc, sc', hsc, hsc', fun i hi => by
    rw [hval' (π i) (hp.lt i hi), hval i hi, Equiv.closenessSpec_perm hp he hi]⟩

example : closenessSpec 3 (fun i j => decide ((i + 1) % 3 = j)) ((0 + 1) % 3)
    = closenessSpec 3 (fun i j => decide ((i + 1) % 3 = j)) 0 :=
  (closeness_equivariant 3 (by decide) _ _ shift3_isPerm _ _ (pairs3 (by decide))).2.1 0 (by decide)

/-- ★ `betweenness_equivariant` : the shortest-path counts, the pair dependencies `σ_st(v)/σ_st`, Brandes' sums of the
    specification, and (with `brandes_dependency`) the output of `Betweenness.fit` on adjacency lists are renumbered with the
    nodes -/
theorem betweenness_equivariant (n : ℕ) (π πinv : ℕ → ℕ) (hp : SkNet.WL.IsPerm n π πinv)
    (nbr nbr' : ℕ → List ℕ) (hnbr : ∀ u, ∀ v ∈ nbr u, v < n) (hnbr' : ∀ u, ∀ v ∈ nbr' u, v < n)
    (hnd : ∀ u, (nbr u).Nodup) (hnd' : ∀ u, (nbr' u).Nodup)
    (he : ∀ i j, i < n → j < n → Brandes.edgeOf nbr' (π i) (π j) = Brandes.edgeOf nbr i j) (symmetric : Bool) :
    (∀ v, v < n → dependencySum n (Brandes.edgeOf nbr') (π v) = dependencySum n (Brandes.edgeOf nbr) v) ∧
    (∀ v, v < n → betweennessSpec n (Brandes.edgeOf nbr') (π v) = betweennessSpec n (Brandes.edgeOf nbr) v) ∧
    ∃ sc sc' : List ℚ, betweenness n nbr symmetric = some sc ∧ betweenness n nbr' symmetric = some sc' ∧
      ∀ v, v < n → sc'.getD (π v) 0 = sc.getD v 0 := by
  refine ⟨fun v hv => Equiv.dependencySum_perm hp he hv, fun v hv => Equiv.betweennessSpec_perm hp he hv, ?_⟩
  obtain ⟨sc, hsc, hval⟩ := brandes_dependency n nbr hnbr hnd symmetric
  obtain ⟨sc', hsc', hval'⟩ := brandes_dependency n nbr' hnbr' hnd' symmetric
  refine ⟨sc, sc', hsc, hsc', fun v hv => ?_⟩
  rw [hval' (π v) (hp.lt v hv), hval v hv]
  cases symmetric
  · simp only [Bool.false_eq_true, if_false]; exact Equiv.dependencySum_perm hp he hv
  · simp only [if_true]; exact Equiv.betweennessSpec_perm hp he hv

/-- the pair dependency itself -/
theorem pairDep_equivariant (n : ℕ) (π πinv : ℕ → ℕ) (hp : SkNet.WL.IsPerm n π πinv) (edge edge' : ℕ → ℕ → Bool)
    (he : ∀ i j, i < n → j < n → edge' (π i) (π j) = edge i j) (s t v : ℕ) (hs : s < n) (ht : t < n) (hv : v < n) :
    pairDep n edge' (π s) (π t) (π v) = pairDep n edge s t v :=
  Equiv.pairDep_perm hp he hs ht hv

/-- non-vacuity: the path `0 — 1 — 2` and its shifted copy `1 — 2 — 0` -/
example : ∃ sc sc' : List ℚ,
    betweenness 3 (fun i => if i = 0 then [1] else if i = 1 then [0, 2] else if i = 2 then [1] else []) true = some sc ∧
    betweenness 3 (fun i => if i = 1 then [2] else if i = 2 then [1, 0] else if i = 0 then [2] else []) true = some sc' ∧
    ∀ v, v < 3 → sc'.getD ((v + 1) % 3) 0 = sc.getD v 0 :=
  (betweenness_equivariant 3 _ _ shift3_isPerm _ _
    (by intro u v hv; split_ifs at hv <;> simp at hv <;> omega)
    (by intro u v hv; split_ifs at hv <;> simp at hv <;> omega)
    (by intro u; split_ifs <;> decide) (by intro u; split_ifs <;> decide)
    (pairs3 (by decide)) true).2.2

/-! ## push (F-push: the kernel as written does not compute PageRank) -/

/-- the two-node graph `0 → 1`, `1 → {0, 1}` -/
def pushWitness : Graph ℚ :=
  { n := 2, row := fun i => if i = 0 then [(1, 1)] else if i = 1 then [(0, 1), (1, 1)] else [] }

theorem pushWitness_nonneg : pushWitness.Nonneg := by
  intro i p hp
  unfold pushWitness at hp
  simp only at hp
  split at hp
  · simp at hp; subst hp; norm_num
  · split at hp
    · simp at hp; rcases hp with rfl | rfl <;> norm_num
    · simp at hp

/-- ★ `push_as_written_wrong` : on the witness graph (its transpose has the same rows), uniform restart, damping 1/2,
    the model of `push_pagerank` as written returns `(53/121, 68/121)` even at tolerance 0, which is not the PageRank
    vector `(2/5, 3/5)`. -/
theorem push_as_written_wrong :
    pushPagerank pushWitness pushWitness [1, 2] [1/2, 1/2] (1/2) 0 100 = some [53/121, 68/121] ∧
    ¬ IsPageRank 2 (entry pushWitness) (1/2) (fun _ => 1/2) (fun i => ([53/121, 68/121] : List ℚ).getD i 0) := by
  refine ⟨by decide +kernel, fun h => ?_⟩
  have hpr : IsPageRank 2 (entry pushWitness) (1/2) (fun _ => 1/2) (fun i => ([2/5, 3/5] : List ℚ).getD i 0) :=
    isPageRankB_sound _ _ _ _ _ (by decide +kernel)
  have := prSpec_unique 2 (entry pushWitness) (fun i j => entry_nonneg pushWitness_nonneg i j) (1/2) (by norm_num)
    (by norm_num) (fun _ => 1/2) (by decide +kernel) _ _ h hpr 0 (by norm_num)
  revert this
  decide +kernel

end SkNet.C04
