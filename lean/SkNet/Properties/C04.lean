/- C04 — property theorems (being filled). -/
import SkNet.Model.Rank
import SkNet.Spec.Rank

namespace SkNet.C04
open SkNet SkNet.Rank

/-- `Polynome.__init__` refuses an empty coefficient array. -/
theorem horner_empty (n : Nat) (mv : List Rat → List Rat) (x : List Rat) : horner n mv [] x = none := rfl

end SkNet.C04
