/-
C19 — GNN layers compute the documented message passing and consistent gradients.
Theorems about the model `SkNet/Model/Gnn.lean` instantiated at `ℝ` (`SkNet/Lemmas/GnnReal.lean`).
-/
import SkNet.Lemmas.GnnForward

namespace SkNet.C19
open SkNet SkNet.Gnn SkNet.Gnn.Mat Finset

/-- **forward_eq_def.** For every normalisation, self-embedding flag, activation, optional bias and all shapes for
which the products are defined, `Convolution.forward` returns exactly the documented `σ(N(A) X W + b)`:
entry `(i, k)` is the activation of row `i` of `Σ_j N(A)[i,j] · Σ_l X[j,l] W[l,k] + b[k]`, where `N(A)` is the
adjacency normalised by the (pseudo-inverted) row weights on the left, on the right or by their square roots on
both sides, plus the identity when `self_embeddings` is set.  (Adjacency and features enter through their
denotation, whatever the container: CSR with duplicates, unsorted CSR, CSC, dense.) -/
theorem forward_eq_def (cfg : LayerCfg) (n m d c : Nat) (a x w : Nat → Nat → ℝ) (b : Option (List ℝ))
    (hb : ∀ bl, b = some bl → bl.length = c)
    (hsq : cfg.norm = .right ∨ cfg.norm = .both → n = m) :
    forward cfg (mk' n m a) (mk' m d x) (mk' d c w) b
      = .ok (Spec.forward cfg (mk' n m a) (mk' m d x) (mk' d c w) b) := by
  unfold forward
  rw [normalize_mk' cfg.norm n m a hsq]
  simp only [bind, Except.bind]
  rw [selfLoops_mk', matmul_mk']
  dsimp only
  rw [matmul_mk']
  dsimp only
  have key : ∀ i, i < n → ∀ k, k < c →
      Spec.preAct cfg.norm cfg.selfEmb (mk' n m a) (mk' m d x) (mk' d c w) b i k =
        (∑ l ∈ range d, (∑ j ∈ range m, Spec.normEntry cfg.norm cfg.selfEmb (mk' n m a) i j * x j l) * w l k) +
          biasAt b k :=
    fun i _ k hk => preAct_mk' cfg.norm cfg.selfEmb (mk' n m a) m d c rfl x w b i k hk
  cases b with
  | none =>
    simp only [pure, Except.pure]
    rw [actOutput_mk']
    congr 1
    unfold Spec.forward
    simp only [mk'_r, mk'_c]
    apply mk'_congr
    intro i hi k hk
    apply actFn_congr _ _ _ _ _ k hk
    intro k' hk'
    rw [key i hi k' hk']
    simp [biasAt]
  | some bl =>
    have hlen : bl.length = c := hb bl rfl
    simp only [addBias, mk'_c, mk'_r, hlen, ne_eq, not_true_eq_false, ite_false, pure, Except.pure]
    rw [actOutput_mk']
    congr 1
    unfold Spec.forward
    simp only [mk'_r, mk'_c]
    apply mk'_congr
    intro i hi k hk
    apply actFn_congr _ _ _ _ _ k hk
    intro k' hk'
    rw [key i hi k' hk', get_mk'_of_lt _ hi hk']
    rfl

/-- non-vacuity: a 2-node graph with a bias, `both` normalisation (square, so the hypotheses hold) -/
example : (∀ bl, (some [1, 2] : Option (List ℝ)) = some bl → bl.length = 2) ∧
    ((Norm.both = .right ∨ Norm.both = .both) → (2 : Nat) = 2) := by
  refine ⟨?_, fun _ => rfl⟩
  intro bl h
  cases h
  rfl

/-- where the shapes do not fit (`right` / `both` on a rectangular matrix) the layer raises, as scipy does -/
theorem forward_rectangular_error (cfg : LayerCfg) (n m : Nat) (hnm : n ≠ m) (a : Nat → Nat → ℝ) (X W : Mat ℝ)
    (b : Option (List ℝ)) (h : cfg.norm = .right) :
    forward cfg (mk' n m a) X W b = .error .valueError := by
  unfold forward Gnn.normalize
  rw [h]
  simp only []
  rw [matmul_dim_error]
  · rfl
  · simp only [mk'_c, rowSums, pinvDiag, mk'_r, tab_length]
    exact fun h => hnm h.symm

end SkNet.C19
