/-
C19 — GNN layers compute the documented message passing and consistent gradients.
Theorems about the model `SkNet/Model/Gnn.lean` instantiated at `ℝ` (`SkNet/Lemmas/GnnReal.lean`).
-/
import SkNet.Lemmas.GnnLossModel
import SkNet.Lemmas.GnnPredict
import SkNet.Lemmas.GnnEquiv
import SkNet.Lemmas.GnnNetwork
import SkNet.Lemmas.GnnShapes
import SkNet.Lemmas.GnnRenumber

namespace SkNet.C19
open SkNet SkNet.Gnn SkNet.Gnn.Mat Finset

/-- **forward_eq_def.** For every normalisation, self-embedding flag, activation, optional bias and all shapes for
which the products are defined, `Convolution.forward` returns exactly `σ(N(A) X W + b)`: entry `(i, k)` is the
activation of row `i` of `Σ_j N(A)[i,j] · Σ_l X[j,l] W[l,k] + b[k]`.
`N(A)` (`Spec.normEntry`) is what the code computes, entry by entry; three readings of "the chosen degree
normalisation with optional self-embedding" are taken from the code, not from an outside definition, and are pinned by
the theorems `right_normalisation_columns`, `self_embedding_is_added_after_normalising`, `left_normalisation_rows`:
(1) all three normalisations divide by the **row** sums (out-weights), also `right`; (2) the self-embedding is added
*after* normalising, `N(A) + I`, not `N(A + I)`; (3) a node of weight 0 gets the pseudo-inverse 0.
Domain (`InDomain`): with `both` the row weights must be non-negative — the code takes `np.sqrt` and returns NaN rows
otherwise, which the real-number model does not describe.
The matrices are tabulated (`Mat.mk'`): adjacency and features enter through their denotation. -/
theorem forward_eq_def (cfg : LayerCfg) (n m d c : Nat) (a x w : Nat → Nat → ℝ) (b : Option (List ℝ))
    (hb : ∀ bl, b = some bl → bl.length = c)
    (hsq : cfg.norm = .right ∨ cfg.norm = .both → n = m)
    (_hdom : InDomain cfg.norm (mk' n m a)) :
    forward cfg (mk' n m a) (mk' m d x) (mk' d c w) b
      = .ok (Spec.forward cfg (mk' n m a) (mk' m d x) (mk' d c w) b) :=
  forward_tab cfg n m d c a x w b hb hsq

/-- non-vacuity: a 2-node graph with non-negative weights and a bias, `both` normalisation -/
example : (∀ bl, (some [1, 2] : Option (List ℝ)) = some bl → bl.length = 2) ∧
    ((Norm.both = .right ∨ Norm.both = .both) → (2 : Nat) = 2) ∧
    InDomain .both (mk' 2 2 fun i j => if i = j then (0 : ℝ) else 1) := by
  refine ⟨?_, fun _ => rfl, inDomain_of_nonneg _ _ _ _ fun i j => by split_ifs <;> norm_num⟩
  intro bl h
  cases h
  rfl

/-- where the shapes do not fit (`right` / `both` on a rectangular matrix) the layer raises, as scipy does -/
theorem forward_rectangular_error (cfg : LayerCfg) (n m : Nat) (hnm : n ≠ m) (a : Nat → Nat → ℝ) (X W : Mat ℝ)
    (b : Option (List ℝ)) (h : cfg.norm = .right) :
    forward cfg (mk' n m a) X W b = .error .valueError := by
  unfold forward Gnn.normalize
  rw [h]
  simp only []
  rw [matmul_dim_error]
  · rfl
  · simp only [mk'_c, rowSums, pinvDiag, mk'_r, tab_length]
    exact fun h => hnm h.symm

theorem forward_rectangular_error_both (cfg : LayerCfg) (n m : Nat) (hnm : n ≠ m) (a : Nat → Nat → ℝ) (X W : Mat ℝ)
    (b : Option (List ℝ)) (h : cfg.norm = .both) :
    forward cfg (mk' n m a) X W b = .error .valueError := by
  unfold forward Gnn.normalize
  rw [h]
  simp only [bind, Except.bind]
  rw [rowSums_mk', tab_map, pinvDiag_tab, diag_mul]
  simp only []
  rw [matmul_dim_error]
  simp only [mk'_c, mk'_r]
  exact fun h => hnm h.symm

/-- **forward_equivariant.** Renumbering the nodes permutes the rows of the output: for every renumbering `p` of the
`n` nodes, every `n × n` adjacency and *arbitrary* features, weight and bias, the layer applied to `(P A Pᵀ, P X)`
returns row `i` = row `p i` of the layer applied to `(A, X)` — and raises the same `ValueError` exactly when the layer
raises on `(A, X)` (shapes that do not fit: see the second example below).  For every normalisation, self-embedding
flag and activation; `both` on its domain. -/
theorem forward_equivariant (cfg : LayerCfg) (n : Nat) (A X W : Mat ℝ) (b : Option (List ℝ))
    (hAr : A.r = n) (hAc : A.c = n) (p : Nat → Nat) (hp : IsRenumbering n p) (_hdom : InDomain cfg.norm A) :
    forward cfg (renumberAdj n p A) (renumberRows p X) W b = (forward cfg A X W b).map (renumberRows p) :=
  forward_renumber cfg n A X W b hAr hAc p hp

/-- non-vacuity: the rotation `0 → 1 → 2 → 0` is a renumbering of 3 nodes -/
example : IsRenumbering 3 (fun i => (i + 1) % 3) := by
  unfold IsRenumbering
  decide

/-- non-vacuity of "errors included": three nodes but four feature rows — the shapes do not fit, the layer raises
(on the original and, by `forward_equivariant`, on the renumbered input) -/
example : forward ⟨.left, true, .relu⟩ (mk' 3 3 fun _ _ => (1 : ℝ)) (mk' 4 2 fun _ _ => 1) (mk' 2 2 fun _ _ => 1) none
    = .error .valueError := by
  rcases forward_cases ⟨.left, true, .relu⟩ (mk' 3 3 fun _ _ => (1 : ℝ)) (mk' 4 2 fun _ _ => 1) (mk' 2 2 fun _ _ => 1) none
    with ⟨h, _⟩ | ⟨_, h⟩
  · exact absurd h (by decide)
  · exact h

/-- **activation gradients.** For every activation (identity, ReLU, sigmoid, soft-max), every signal and direction,
`activation.gradient(signal, direction)[i, k]` is the derivative of `Σ_l direction[i, l] · output(signal)[i, l]` with
respect to `signal[i, k]`, i.e. the `(i, k)` entry of the Jacobian-transpose product (ReLU: away from the kink 0). -/
theorem activation_gradient_is_jacobian_transpose (act : Act) (n c : Nat) (s dd : Nat → Nat → ℝ) (i k : Nat)
    (hi : i < n) (hk : k < c) (hrelu : act = .relu → s i k ≠ 0) :
    ∃ G, actGradient act (mk' n c s) (mk' n c dd) = .ok G ∧
      HasDerivAt (fun t => ∑ l ∈ range c, dd i l * (actOutput act (mk' n c (updRow s i k t))).get i l)
        (G.get i k) (s i k) := by
  refine ⟨_, actGradient_eq_spec act n c s dd, ?_⟩
  have h := actGradient_hasDerivAt act n c s dd i k hi hk hrelu
  have hfun : (fun t => ∑ l ∈ range c, dd i l * (actOutput act (mk' n c (updRow s i k t))).get i l) =
      fun t => ∑ l ∈ range c, dd i l * Spec.actFn act c (Function.update (s i) k t) l := by
    funext t
    apply Finset.sum_congr rfl
    intro l hl
    rw [actOutput_mk', get_mk'_of_lt _ hi (mem_range.mp hl), updRow_self]
  rw [hfun]
  exact h

/-- … and of the whole inner product `⟨direction, output⟩ = Σ_{i', l} direction[i', l] · output[i', l]`: the rows
`i' ≠ i` of the output do not depend on `signal[i, k]` (every activation acts row by row), so the derivative of the full
sum is the same entry of `gradient`. -/
theorem activation_gradient_is_gradient_of_inner_product (act : Act) (n c : Nat) (s dd : Nat → Nat → ℝ) (i k : Nat)
    (hi : i < n) (hk : k < c) (hrelu : act = .relu → s i k ≠ 0) :
    ∃ G, actGradient act (mk' n c s) (mk' n c dd) = .ok G ∧
      HasDerivAt (fun t => ∑ i' ∈ range n, ∑ l ∈ range c,
          dd i' l * (actOutput act (mk' n c (updRow s i k t))).get i' l) (G.get i k) (s i k) := by
  obtain ⟨G, hG, hrow⟩ := activation_gradient_is_jacobian_transpose act n c s dd i k hi hk hrelu
  refine ⟨G, hG, ?_⟩
  have h := HasDerivAt.fun_sum (u := range n)
    (A := fun i' t => ∑ l ∈ range c, dd i' l * (actOutput act (mk' n c (updRow s i k t))).get i' l)
    (A' := fun i' => if i' = i then G.get i k else 0) (x := s i k)
    (by
      intro i' hi'
      by_cases h : i' = i
      · subst h
        simp only [if_true]
        exact hrow
      · simp only [if_neg h]
        have hconst : (fun t => ∑ l ∈ range c, dd i' l * (actOutput act (mk' n c (updRow s i k t))).get i' l) =
            fun _ => ∑ l ∈ range c, dd i' l * Spec.actFn act c (s i') l := by
          funext t
          apply Finset.sum_congr rfl
          intro l hl
          rw [actOutput_mk', get_mk'_of_lt _ (mem_range.mp hi') (mem_range.mp hl), updRow_of_ne s i k t h]
        rw [hconst]
        exact hasDerivAt_const _ _)
  refine h.congr_deriv ?_
  rw [Finset.sum_ite_eq']
  simp only [mem_range, hi, if_true]

/-- non-vacuity of the ReLU side condition -/
example : (Act.relu = .relu → (fun (_ _ : Nat) => (1 : ℝ)) 0 0 ≠ 0) := fun _ => one_ne_zero

/-- the Jacobian used by `Jᵀ d` is entry by entry the partial derivative of the activation (row-wise) -/
theorem jacobian_entries (act : Act) (c : Nat) (s : Nat → ℝ) (l k : Nat) (hk : k < c)
    (hrelu : act = .relu → s k ≠ 0) :
    HasDerivAt (fun t => Spec.actFn act c (Function.update s k t) l) (Spec.jac act c s l k) (s k) :=
  jac_hasDerivAt act c s l k hk hrelu

/-- **cross-entropy gradient.** `CrossEntropy.loss_gradient(signal, labels)[i, k]` equals `n` times the derivative of
the mean cross-entropy with respect to `signal[i, k]` (= soft-max minus one-hot), for every signal, every number of
channels and every label vector inside the channels. -/
theorem ce_gradient_is_n_times_derivative (n c : Nat) (s : Nat → Nat → ℝ) (labels : List Nat) (hn : 0 < n)
    (hlen : labels.length = n) (hlab : ∀ y ∈ labels, y < c) (i k : Nat) (hi : i < n) (hk : k < c) :
    ∃ G, ceLossGradient (mk' n c s) labels = .ok G ∧
      HasDerivAt (fun t => (n : ℝ) * Spec.ceLoss (mk' n c (updRow s i k t)) labels) (G.get i k) (s i k) := by
  refine ⟨_, ceLossGradient_eq_spec n c s labels hlen hlab, ?_⟩
  exact ceLoss_hasDerivAt n c s labels hn (fun j hj => getD_mem_lt labels c hlab j (hlen ▸ hj)) i k hi hk

/-- non-vacuity: two samples, three channels, labels `[2, 0]` -/
example : (0 < 2) ∧ ([2, 0] : List Nat).length = 2 ∧ ∀ y ∈ ([2, 0] : List Nat), y < 3 := by decide

/-- the value `CrossEntropy.loss` returns is that mean cross-entropy wherever the code's numerical clipping
(`[1e-10, 1 − 1e-10]`) is inactive on the label probabilities -/
theorem ce_loss_is_mean (n c : Nat) (s : Nat → Nat → ℝ) (labels : List Nat) (hlen : labels.length = n)
    (hlab : ∀ y ∈ labels, y < c)
    (hclip : ∀ i, i < n → (eps10 : ℝ) ≤ Spec.softmaxFn c (s i) (labels.getD i 0) ∧
      Spec.softmaxFn c (s i) (labels.getD i 0) ≤ 1 - eps10) :
    ceLoss (mk' n c s) labels = .ok (Spec.ceLoss (mk' n c s) labels) :=
  ceLoss_eq_spec n c s labels hlen hlab hclip

/-- **binary cross-entropy gradient, several channels** (the repaired code): `loss_gradient[i, k]` is `n` times the
derivative of the mean one-versus-rest binary cross-entropy, `σ(signal[i, k]) − 1{labels[i] = k}`. -/
theorem bce_gradient_is_n_times_derivative (n c : Nat) (hc : c ≠ 1) (s : Nat → Nat → ℝ) (labels : List Nat)
    (hn : 0 < n) (hlen : labels.length = n) (hlab : ∀ y ∈ labels, y < c) (i k : Nat) (hi : i < n) (hk : k < c) :
    ∃ G, bceLossGradient (mk' n c s) labels = .ok G ∧
      HasDerivAt (fun t => (n : ℝ) * Spec.bceLoss (mk' n c (updRow s i k t)) labels) (G.get i k) (s i k) := by
  refine ⟨_, bceLossGradient_eq_spec_several n c hc s labels hlen hlab, ?_⟩
  exact bceLoss_hasDerivAt n c s labels hn i k hi hk

/-- **binary cross-entropy gradient, one channel**, binary labels: `σ(signal[i, 0]) − labels[i]` -/
theorem bce_gradient_one_channel (n : Nat) (s : Nat → Nat → ℝ) (labels : List Nat)
    (hn : 0 < n) (hlen : labels.length = n) (hlab : ∀ y ∈ labels, y ≤ 1) (i : Nat) (hi : i < n) :
    ∃ G, bceLossGradient (mk' n 1 s) labels = .ok G ∧
      HasDerivAt (fun t => (n : ℝ) * Spec.bceLoss (mk' n 1 (updRow s i 0 t)) labels) (G.get i 0) (s i 0) := by
  refine ⟨_, bceLossGradient_eq_spec_one n s labels hlen hlab, ?_⟩
  exact bceLoss_hasDerivAt n 1 s labels hn i 0 hi (by decide)

/-- the side condition of `bce_gradient_one_channel` is needed: with one channel the loss reads a label as the binary
target `label > 0`, the gradient method subtracts the label as a number; for the (non-binary) label 2 it returns
`σ(0) − 2` where the derivative is `σ(0) − 1`.  One output channel means binary labels {0, 1}. -/
theorem bce_one_channel_needs_binary_labels :
    ∃ G, bceLossGradient (mk' 1 1 fun _ _ => (0 : ℝ)) [2] = .ok G ∧
      G.get 0 0 ≠ (Spec.bceGradient (mk' 1 1 fun _ _ => (0 : ℝ)) [2]).get 0 0 := by
  refine ⟨_, rfl, ?_⟩
  simp only [mk'_r]
  rw [get_mk'_of_lt _ (by decide) (by decide), actOutput_mk', get_mk'_of_lt _ (by decide) (by decide)]
  unfold Spec.bceGradient
  simp only [mk'_r, mk'_c]
  rw [get_mk'_of_lt _ (by decide) (by decide),
    actFn_congr .sigmoid 1 _ (fun _ => (0 : ℝ)) (get_row_eq 1 1 (fun _ _ => (0 : ℝ)) 0 (by decide)) 0 (by decide)]
  simp

/-- **F14 on the pinned tree** (kept as the witness of the repaired defect): the formula `(probs.T − labels).T` that
`BinaryCrossEntropy.loss_gradient` used for any number of channels is not the gradient with two channels. -/
theorem bce_pinned_formula_is_not_the_gradient :
    ∃ G, bceLossGradientPinned (mk' 1 2 fun _ _ => (0 : ℝ)) [1] = .ok G ∧
      G.get 0 0 ≠ (Spec.bceGradient (mk' 1 2 fun _ _ => (0 : ℝ)) [1]).get 0 0 :=
  bce_pinned_not_gradient

/-- **the layer returns a value exactly for the shapes on which the documented expression is defined**, and raises
`ValueError` (as numpy / scipy) otherwise.  Exact for a bias of the layer's own width, as `_initialize_weights` creates
it (numpy would also broadcast a bias of length 1). -/
theorem forward_defined_iff_shapes (cfg : LayerCfg) (A X W : Mat ℝ) (b : Option (List ℝ)) :
    ((∃ O, forward cfg A X W b = .ok O) ↔ Spec.shapesOk cfg.norm A X W b = true) ∧
      (Spec.shapesOk cfg.norm A X W b = false → forward cfg A X W b = .error .valueError) := by
  rcases forward_cases cfg A X W b with ⟨hok, O, hO⟩ | ⟨hbad, herr⟩
  · exact ⟨⟨fun _ => hok, fun _ => ⟨O, hO⟩⟩, fun h => absurd (hok.symm.trans h) (by decide)⟩
  · refine ⟨⟨fun ⟨O, hO⟩ => ?_, fun h => absurd (hbad.symm.trans h) (by decide)⟩, fun _ => herr⟩
    rw [herr] at hO
    cases hO

/-- `check_format` in front of the layer: the five accepted containers change nothing, any other container
(`csr_array`, `np.matrix`, `dok_matrix`, …) is a `TypeError` -/
theorem forward_container (k : Container) (cfg : LayerCfg) (A X W : Mat ℝ) (b : Option (List ℝ)) :
    (k ≠ .other → forwardIn k cfg A X W b = forward cfg A X W b) ∧
      forwardIn .other cfg A X W b = .error .typeError := by
  refine ⟨fun h => ?_, rfl⟩
  cases k <;> first | rfl | exact absurd rfl h

/-- **the network is the composition of the documented layers**: for layers whose weights have the width of their
input and whose biases have their own width (every adjacency in the domain of its normalisation),
`GNNClassifier.forward` returns the documented layers composed. -/
theorem gnn_forward_eq_def (n : Nat) (ls : List LayerFn)
    (hb : ∀ l ∈ ls, ∀ bl, l.b = some bl → bl.length = l.c)
    (_hdom : ∀ l ∈ ls, InDomain l.cfg.norm (mk' n n l.a)) :
    ∀ (d : Nat) (x : Nat → Nat → ℝ), ∃ O,
      gnnForward (buildLayers n id d ls) (mk' n d x) = .ok O ∧
      Spec.gnnForward (buildLayers n id d ls) (mk' n d x) = some O :=
  gnnForward_buildLayers n ls hb

/-- **the whole network is equivariant.** `GNNClassifier.forward` through any number of *arbitrary* layers (each with
its own, possibly sampled, `n × n` adjacency, normalisation, activation, weight and bias of any shape): renumbering the
nodes of every adjacency and of the features permutes the rows of the output in the same way, and the renumbered network
raises exactly when the original one does (`forward_equivariant` layer by layer). -/
theorem gnn_forward_equivariant (n : Nat) (p : Nat → Nat) (hp : IsRenumbering n p) (ls : List (Layer ℝ × Mat ℝ))
    (hsq : ∀ lA ∈ ls, lA.2.r = n ∧ lA.2.c = n) (_hdom : ∀ lA ∈ ls, InDomain lA.1.cfg.norm lA.2) (X : Mat ℝ) :
    gnnForward (renumberLayers n p ls) (renumberRows p X) = (gnnForward ls X).map (renumberRows p) :=
  gnnForward_renumber n p hp ls hsq X

/-- non-vacuity: a two-layer network whose biases have the layers' widths -/
example : ∀ l ∈ ([⟨⟨.both, true, .relu⟩, 2, fun _ _ => 1, some [0, 0], fun _ _ => 1⟩,
                   ⟨⟨.left, false, .softmax⟩, 3, fun _ _ => 1, none, fun _ _ => 1⟩] : List LayerFn),
    ∀ bl, l.b = some bl → bl.length = l.c := by
  intro l hl bl hb
  simp only [List.mem_cons, List.not_mem_nil, or_false] at hl
  rcases hl with h | h <;> subst h <;> simp at hb
  subst hb
  rfl

/-- **cross-entropy gradient against the code's own loss.** For every signal whose label probabilities lie strictly
inside the clipping interval `(1e-10, 1 − 1e-10)` of `CrossEntropy.loss`, `loss_gradient[i, k]` is `n` times the
derivative of the value `CrossEntropy.loss` itself returns (clipping included) with respect to `signal[i, k]`. -/
theorem ce_gradient_of_the_clipped_loss (n c : Nat) (s : Nat → Nat → ℝ) (labels : List Nat) (hn : 0 < n)
    (hlen : labels.length = n) (hlab : ∀ y ∈ labels, y < c)
    (hclip : ∀ i, i < n → (eps10 : ℝ) < Spec.softmaxFn c (s i) (labels.getD i 0) ∧
      Spec.softmaxFn c (s i) (labels.getD i 0) < 1 - eps10)
    (i k : Nat) (hi : i < n) (hk : k < c) :
    ∃ G, ceLossGradient (mk' n c s) labels = .ok G ∧
      HasDerivAt (fun t => (n : ℝ) * lossVal (ceLoss (mk' n c (updRow s i k t)) labels)) (G.get i k) (s i k) :=
  ⟨_, ceLossGradient_eq_spec n c s labels hlen hlab, ceLoss_model_hasDerivAt n c s labels hn hlen hlab hclip i k hi hk⟩

/-- non-vacuity: with two channels and signal 0 the label probability is 1/2, strictly inside the clipping interval -/
example : (eps10 : ℝ) < Spec.softmaxFn 2 (fun _ => (0 : ℝ)) 1 ∧ Spec.softmaxFn 2 (fun _ => (0 : ℝ)) 1 < 1 - eps10 := by
  have h : Spec.softmaxFn 2 (fun _ => (0 : ℝ)) 1 = 1 / 2 := by
    unfold Spec.softmaxFn
    rw [sumTo_eq]
    simp
  rw [h]
  unfold eps10
  simp only [num_frac]
  constructor <;> norm_num

/-- **binary cross-entropy gradient against the code's own loss** (repaired code, any number of channels): wherever all
sigmoid probabilities lie strictly inside `(1e-15, 1 − 1e-15)`, `loss_gradient[i, k]` is `n` times the derivative of
the value `BinaryCrossEntropy.loss` returns. With one channel the labels must be binary for the gradient method to
be that derivative (`bce_gradient_one_channel`). -/
theorem bce_gradient_of_the_clipped_loss (n c : Nat) (hc : c ≠ 1) (s : Nat → Nat → ℝ) (labels : List Nat) (hn : 0 < n)
    (hlen : labels.length = n) (hlab : ∀ y ∈ labels, y < c)
    (hclip : ∀ i, i < n → ∀ k, k < c → (eps15 : ℝ) < Real.sigmoid (s i k) ∧ Real.sigmoid (s i k) < 1 - eps15)
    (i k : Nat) (hi : i < n) (hk : k < c) :
    ∃ G, bceLossGradient (mk' n c s) labels = .ok G ∧
      HasDerivAt (fun t => (n : ℝ) * lossVal (bceLoss (mk' n c (updRow s i k t)) labels)) (G.get i k) (s i k) :=
  ⟨_, bceLossGradient_eq_spec_several n c hc s labels hlen hlab,
    bceLoss_model_hasDerivAt n c s labels hn hlen (fun _ => hlab) hclip i k hi hk⟩

/-- **soft-max output rows sum to 1** (output of a soft-max / cross-entropy layer, at least one channel) -/
theorem softmax_rows_sum_one (n c : Nat) (hc : 0 < c) (e : Nat → Nat → ℝ) (i : Nat) (hi : i < n) :
    ∑ k ∈ range c, (actOutput .softmax (mk' n c e)).get i k = 1 := by
  rw [actOutput_mk']
  have : ∀ k ∈ range c, (mk' n c fun i k => Spec.actFn .softmax c (e i) k).get i k = Spec.softmaxFn c (e i) k :=
    fun k hk => get_mk'_of_lt _ hi (mem_range.mp hk)
  rw [Finset.sum_congr rfl this]
  exact softmaxFn_sum_one c hc (e i)

/-- scipy's shifted soft-max (what the model executes) is the textbook soft-max -/
theorem softmax_shift_invariant (l : List ℝ) :
    softmaxRow l = l.map fun x => Real.exp x / (l.map Real.exp).sum :=
  softmaxRow_eq l

/-- **`predict_proba` returns distributions**: for the output of a cross-entropy (soft-max) or binary
cross-entropy (sigmoid) last layer with `c ≥ 1` channels, `predict_proba` has one row per node, `max(c, 2)` columns,
non-negative entries and rows summing to 1. -/
theorem predict_proba_rows_sum_one (loss : LossKind) (n c : Nat) (hc : 0 < c) (e : Nat → Nat → ℝ) (i : Nat)
    (hi : i < n) :
    (predictProba loss (actOutput (lossAct loss) (mk' n c e))).r = n ∧
    (predictProba loss (actOutput (lossAct loss) (mk' n c e))).c = (if c = 1 then 2 else c) ∧
    (∀ k, 0 ≤ (predictProba loss (actOutput (lossAct loss) (mk' n c e))).get i k) ∧
    ∑ k ∈ range (if c = 1 then 2 else c), (predictProba loss (actOutput (lossAct loss) (mk' n c e))).get i k = 1 :=
  predictProba_distribution loss n c hc e i hi

/-- **prediction_range.** `_compute_predictions` returns one label per node; with one channel it is the 0.5
threshold (a label in {0, 1}), otherwise the first maximiser of the output row, below the number of channels. -/
theorem prediction_range (n c : Nat) (hc : 0 < c) (o : Nat → Nat → ℝ) :
    ∃ labs, computePredictions (mk' n c o) = .ok labs ∧ labs.length = n ∧
      ∀ i, i < n → Spec.predictionOk c (o i) (labs.getD i 0) = true ∧ labs.getD i 0 < max c 2 :=
  computePredictions_spec n c hc o

/-- with no channel at all numpy's arg-max raises, and so does the model -/
theorem prediction_no_channel (n : Nat) (o : Nat → Nat → ℝ) :
    computePredictions (mk' n 0 o) = .error .valueError := by
  unfold computePredictions
  simp

/-- the summed stored value of column `j` in row `i` of a CSR matrix is the entry of the matrix it denotes -/
theorem entrySum_eq_csrToMat (m : Csr ℝ) (i j : Nat) (hi : i < m.nRow) (hj : j < m.nCol) :
    entrySum (csrEntries m i) j = (csrToMat m).get i j := by
  rw [csrToMat_get m i j hi hj]
  unfold entrySum
  simp only [beq_iff_eq]

/-- **sampler_subset.** For a CSR matrix `m` (whatever its stored form: unsorted rows, explicit zeros, un-summed —
even cancelling — duplicates; repaired code: `sum_duplicates` and `eliminate_zeros` before sampling) and every legal
draw of `np.random.choice` (`choiceOk`: distinct positions below `deg`, `min(deg, sample_size)` of them, where `deg` is
the number of neighbours = non-zero entries of row `i` of the matrix `m` denotes): row `i` of the sampled adjacency is a
sublist of the neighbours, without repetition, of size `min(deg, sample_size)`, and every kept column `j` is an edge of
the graph (`csrToMat m` has a non-zero entry at `(i, j)`): the sampled graph is a subgraph.  The kept entries get
weight 1 (the weights of the graph are not kept). -/
theorem sampler_subset (m : Csr ℝ) (choice : List (List Nat)) (k i : Nat) (hi : i < m.nRow)
    (hch : choiceOk (neighbours m.nCol (csrEntries m i)).length k (choice.getD i []) = true) :
    ((sampleRows m.nCol (tab m.nRow (csrEntries m)) choice).getD i []).Sublist (neighbours m.nCol (csrEntries m i)) ∧
      ((sampleRows m.nCol (tab m.nRow (csrEntries m)) choice).getD i []).length =
        min (neighbours m.nCol (csrEntries m i)).length k ∧
      ((sampleRows m.nCol (tab m.nRow (csrEntries m)) choice).getD i []).Nodup ∧
      ∀ j ∈ (sampleRows m.nCol (tab m.nRow (csrEntries m)) choice).getD i [], j < m.nCol ∧ (csrToMat m).get i j ≠ 0 := by
  have hrow : (tab m.nRow (csrEntries m)).getD i [] = csrEntries m i := by
    rw [tab_getD, if_pos hi]
  rw [sampleRows_getD m.nCol _ choice i (by simpa using hi), hrow]
  obtain ⟨h1, h2, h3, h4⟩ := sampleRow_spec m.nCol (csrEntries m i) (choice.getD i []) k hch
  refine ⟨h1, h2, h3, ?_⟩
  intro j hj
  obtain ⟨hjn, hne⟩ := h4 j hj
  exact ⟨hjn, by rwa [← entrySum_eq_csrToMat m i j hi hjn]⟩

/-- non-vacuity: degree 3, sample size 2, positions `[2, 0]` -/
example : choiceOk 3 2 [2, 0] = true := by decide

/-- **denotation.** The model of the layer reads its three matrices only through their shape and their entries inside
the shape: two `Mat` values with the same denotation give the same output, or the same error.  (This is a fact about
the model; that scipy's containers — CSR with un-summed duplicates, unsorted CSR, CSC, COO, LIL, dense — reach the layer
with the denotation the driver computes for them is *observed* by the harness on every run, not proved.) -/
theorem forward_depends_on_entries (cfg : LayerCfg) (A A' X X' W W' : Mat ℝ) (b : Option (List ℝ))
    (hA : SameEntries A A') (hX : SameEntries X X') (hW : SameEntries W W') :
    forward cfg A X W b = forward cfg A' X' W' b :=
  forward_congr cfg b hA hX hW

/-- non-vacuity: the same 1 × 1 matrix with and without a padding row -/
example : SameEntries (⟨1, 1, [[2]]⟩ : Mat ℝ) ⟨1, 1, [[2], []]⟩ := by
  refine ⟨rfl, rfl, ?_⟩
  intro i j hi hj
  have hi0 : i = 0 := by simpa using hi
  have hj0 : j = 0 := by simpa using hj
  subst hi0
  subst hj0
  rfl

/-- **the predicted label is a most probable one**: for the output `O` of a cross-entropy / binary cross-entropy last
layer, the label `_compute_predictions(O)` gives to node `i` maximises row `i` of `predict_proba` -/
theorem prediction_is_most_probable (loss : LossKind) (n c : Nat) (hc : 0 < c) (e : Nat → Nat → ℝ) :
    ∃ labs, computePredictions (actOutput (lossAct loss) (mk' n c e)) = .ok labs ∧
      ∀ i, i < n → ∀ k, k < (if c = 1 then 2 else c) →
        (predictProba loss (actOutput (lossAct loss) (mk' n c e))).get i k ≤
          (predictProba loss (actOutput (lossAct loss) (mk' n c e))).get i (labs.getD i 0) := by
  rw [actOutput_mk']
  obtain ⟨labs, hl, _, hspec⟩ := computePredictions_spec n c hc (fun i k => Spec.actFn (lossAct loss) c (e i) k)
  refine ⟨labs, hl, ?_⟩
  intro i hi k hk
  obtain ⟨hok, _⟩ := hspec i hi
  unfold predictProba
  simp only [mk'_c, mk'_r]
  by_cases h1 : c = 1
  · subst h1
    simp only [if_true] at hk ⊢
    unfold Spec.predictionOk at hok
    simp only [if_true, beq_iff_eq, num_lt, num_frac, decide_eq_true_eq] at hok
    have hO : (mk' n 1 fun i k => Spec.actFn (lossAct loss) 1 (e i) k).get i 0 = Spec.actFn (lossAct loss) 1 (e i) 0 :=
      get_mk'_of_lt _ hi (by decide)
    set o := Spec.actFn (lossAct loss) 1 (e i) 0 with ho
    have hP : ∀ k', k' < 2 → (mk' n 2 fun i k =>
          if k = 0 then 1 - (mk' n 1 fun i k => Spec.actFn (lossAct loss) 1 (e i) k).get i 0
          else (mk' n 1 fun i k => Spec.actFn (lossAct loss) 1 (e i) k).get i 0).get i k' =
        if k' = 0 then 1 - o else o := by
      intro k' hk'
      rw [get_mk'_of_lt _ hi hk', hO]
    by_cases hgt : ((1 : ℕ) : ℝ) / ((2 : ℕ) : ℝ) < o
    · rw [if_pos hgt] at hok
      rw [hok, hP k hk, hP 1 (by decide)]
      simp only [one_ne_zero, if_false]
      split_ifs
      · norm_num at hgt; linarith
      · exact le_refl _
    · rw [if_neg hgt] at hok
      rw [hok, hP k hk, hP 0 (by decide)]
      simp only [if_true]
      split_ifs
      · exact le_refl _
      · norm_num at hgt; linarith
  · simp only [h1, if_false] at hk ⊢
    unfold Spec.predictionOk at hok
    simp only [h1, if_false, Bool.and_eq_true, decide_eq_true_eq, List.all_eq_true, List.mem_range,
      Bool.not_eq_true', num_lt, decide_eq_false_iff_not, not_lt] at hok
    obtain ⟨hlt, hmax⟩ := hok
    have hrow : ∀ k', k' < c → (mk' n c fun i k => Spec.actFn (lossAct loss) c (e i) k).get i k' =
        Spec.actFn (lossAct loss) c (e i) k' := fun k' hk' => get_mk'_of_lt _ hi hk'
    cases loss with
    | crossEntropy =>
      simp only []
      rw [hrow k hk, hrow _ hlt]
      exact hmax k hk
    | binaryCrossEntropy =>
      simp only []
      rw [get_mk'_of_lt _ hi hk, get_mk'_of_lt _ hi hlt, hrow k hk, hrow _ hlt]
      have hsum : (sumTo c fun l => (mk' n c fun i k => Spec.actFn (lossAct .binaryCrossEntropy) c (e i) k).get i l)
          = ∑ l ∈ range c, Spec.actFn .sigmoid c (e i) l := by
        rw [sumTo_eq]
        exact Finset.sum_congr rfl fun l hl => hrow l (mem_range.mp hl)
      have hpos : 0 < ∑ l ∈ range c, Spec.actFn .sigmoid c (e i) l :=
        Finset.sum_pos (fun l _ => sigmoidFn_pos c (e i) l) ⟨0, mem_range.mpr hc⟩
      rw [hsum]
      exact div_le_div_of_nonneg_right (hmax k hk) hpos.le

/-- **CSR denotation**: two CSR matrices whose rows hold the same (column, value) pairs in any order (unsorted indices)
denote the same matrix (`csrToMat` sums what is stored), hence give the same output of the model. -/
theorem forward_csr_row_order_irrelevant (cfg : LayerCfg) (m m' : Csr ℝ) (X W : Mat ℝ) (b : Option (List ℝ))
    (hr : m.nRow = m'.nRow) (hc : m.nCol = m'.nCol)
    (h : ∀ i, i < m.nRow → (csrEntries m i).Perm (csrEntries m' i)) :
    forward cfg (csrToMat m) X W b = forward cfg (csrToMat m') X W b :=
  forward_depends_on_entries cfg _ _ X X W W b (csrToMat_perm m m' hr hc h) (SameEntries.refl X) (SameEntries.refl W)

/-- a value stored as two un-summed halves (duplicate entries of a CSR matrix) denotes the same entry -/
theorem csr_duplicates_are_summed (j c : Nat) (v : ℝ) (rest : List (Nat × ℝ)) :
    (((c, v / 2) :: (c, v / 2) :: rest).map fun e => if e.1 = j then e.2 else 0).sum =
      (((c, v) :: rest).map fun e => if e.1 = j then e.2 else 0).sum :=
  duplicate_entries_sum j c v rest

/-- **the self-embedding is added after normalising**: `N(A)` with the self-embedding is `I + N(A)` — the code
computes `N(A) + I`, not the `N(A + I)` of Kipf & Welling (a reading of "optional self-embedding" taken from the code) -/
theorem self_embedding_is_added_after_normalising (norm : Norm) (A : Mat ℝ) (i j : Nat) :
    Spec.normEntry norm true A i j = (if i = j then 1 else 0) + Spec.normEntry norm false A i j := by
  unfold Spec.normEntry
  by_cases h : i = j <;> simp [h]

/-- **`right` divides column `j` by the row sum of node `j`** (its out-weight, as the code does), so column `j` of
`N(A)` sums to in-weight / out-weight of `j` -/
theorem right_normalisation_columns (n : Nat) (a : Nat → Nat → ℝ) (j : Nat) (hj : j < n) :
    ∑ i ∈ range n, Spec.normEntry .right false (mk' n n a) i j =
      (∑ i ∈ range n, a i j) * pinv (∑ l ∈ range n, a j l) := by
  have h : ∀ i ∈ range n, Spec.normEntry .right false (mk' n n a) i j = a i j * pinv (∑ l ∈ range n, a j l) := by
    intro i hi
    simp only [Spec.normEntry, Bool.false_and, Bool.false_eq_true, if_false]
    rw [weight_mk' n n a j hj, get_mk'_of_lt a (mem_range.mp hi) hj]
  rw [Finset.sum_congr rfl h, Finset.sum_mul]

/-- … hence on a directed graph `right` makes neither the columns nor the rows of `N(A)` sum to 1: witness the
2-node digraph with weights `0 → 1 : 2`, `1 → 0 : 1` (column 0 sums to 1/2, row 0 to 2) -/
theorem right_normalisation_not_stochastic_on_digraphs :
    ∃ a : Nat → Nat → ℝ, (∀ i j, 0 ≤ a i j) ∧
      ∑ i ∈ range 2, Spec.normEntry .right false (mk' 2 2 a) i 0 ≠ 1 ∧
      ∑ j ∈ range 2, Spec.normEntry .right false (mk' 2 2 a) 0 j ≠ 1 := by
  refine ⟨fun i j => if i = 0 ∧ j = 1 then 2 else if i = 1 ∧ j = 0 then 1 else 0, ?_, ?_, ?_⟩
  · intro i j
    beta_reduce
    split_ifs <;> norm_num
  · rw [right_normalisation_columns 2 _ 0 (by decide)]
    simp [pinv]
  · have h : ∀ j ∈ range 2, Spec.normEntry .right false
        (mk' 2 2 fun i j => if i = 0 ∧ j = 1 then (2 : ℝ) else if i = 1 ∧ j = 0 then 1 else 0) 0 j =
        (if (0 : Nat) = 0 ∧ j = 1 then (2 : ℝ) else if (0 : Nat) = 1 ∧ j = 0 then 1 else 0) *
          pinv (∑ l ∈ range 2, if j = 0 ∧ l = 1 then (2 : ℝ) else if j = 1 ∧ l = 0 then 1 else 0) := by
      intro j hj
      simp only [Spec.normEntry, Bool.false_and, Bool.false_eq_true, if_false]
      rw [weight_mk' 2 2 _ j (mem_range.mp hj), get_mk'_of_lt _ (by decide) (mem_range.mp hj)]
      simp
    rw [Finset.sum_congr rfl h]
    simp [Finset.sum_range_succ, pinv]

/-- **left normalisation is the random-walk normalisation**: every row of `N(A)` (without self-embedding) with a
non-zero weight sums to 1, a row of weight 0 is 0 (pseudo-inverse) -/
theorem left_normalisation_rows (n m : Nat) (a : Nat → Nat → ℝ) (i : Nat) (hi : i < n) :
    ∑ j ∈ range m, Spec.normEntry .left false (mk' n m a) i j =
      if ∑ j ∈ range m, a i j = 0 then 0 else 1 := by
  have h : ∀ j ∈ range m, Spec.normEntry .left false (mk' n m a) i j = pinv (∑ j ∈ range m, a i j) * a i j := by
    intro j hj
    simp only [Spec.normEntry, Bool.false_and, Bool.false_eq_true, if_false]
    rw [weight_mk' n m a i hi, get_mk'_of_lt a hi (mem_range.mp hj)]
  rw [Finset.sum_congr rfl h, ← Finset.mul_sum]
  by_cases hw : ∑ j ∈ range m, a i j = 0
  · rw [if_pos hw, hw, mul_zero]
  · rw [if_neg hw, pinv_mul_self _ hw]

/-- **symmetric normalisation keeps symmetry**: for an undirected graph, `N(A)` under `both` is symmetric
(with or without the self-embedding) -/
theorem both_normalisation_symmetric (n : Nat) (a : Nat → Nat → ℝ) (hsym : ∀ i j, a i j = a j i) (se : Bool)
    (i j : Nat) (hi : i < n) (hj : j < n) :
    Spec.normEntry .both se (mk' n n a) i j = Spec.normEntry .both se (mk' n n a) j i := by
  have hb : (i == j) = (j == i) := by
    by_cases h : i = j
    · subst h; rfl
    · have h' : j ≠ i := fun e => h e.symm
      simp [h, h']
  simp only [Spec.normEntry]
  rw [get_mk'_of_lt a hi hj, get_mk'_of_lt a hj hi, hsym i j, hb]
  congr 1
  all_goals ring

/-- for an undirected graph the right normalisation is the transpose of the left one -/
theorem right_is_left_transposed (n : Nat) (a : Nat → Nat → ℝ) (hsym : ∀ i j, a i j = a j i) (se : Bool)
    (i j : Nat) (hi : i < n) (hj : j < n) :
    Spec.normEntry .right se (mk' n n a) i j = Spec.normEntry .left se (mk' n n a) j i := by
  have hb : (i == j) = (j == i) := by
    by_cases h : i = j
    · subst h; rfl
    · have h' : j ≠ i := fun e => h e.symm
      simp [h, h']
  simp only [Spec.normEntry]
  rw [get_mk'_of_lt a hi hj, get_mk'_of_lt a hj hi, hsym i j, hb]
  congr 1
  all_goals ring

/-- non-vacuity of the shape hypotheses used above -/
example : (2 : Nat) ≠ 3 ∧ (3 : Nat) ≠ 1 ∧ (∀ y ∈ ([2, 0] : List Nat), y < 3) ∧ (∀ y ∈ ([1, 0] : List Nat), y ≤ 1) := by
  decide

/-- non-vacuity of the clipping hypothesis of `bce_gradient_of_the_clipped_loss`: `σ(0) = 1/2` -/
example : (eps15 : ℝ) < Real.sigmoid 0 ∧ Real.sigmoid 0 < 1 - eps15 := by
  rw [Real.sigmoid_zero]
  unfold eps15
  simp only [num_frac]
  constructor <;> norm_num

/-! ### configuration: which layer a name, an activation, a loss and a normalisation select
(`isSage` / `isConv`: 'sage' / 'conv' occurs in the lower-cased layer name) -/

/-- `normalization=None` (documented: no normalisation; repaired — it raised) and any string other than 'left', 'right',
'both' mean "no normalisation" on a bare layer; `GNNClassifier` accepts `None` and refuses such strings -/
theorem normalization_none (s : String) :
    getNorm none = .none ∧ checkNormalizations [none] = .ok () ∧
      (getNorm (some s) = .none → checkNormalizations [some s] = .error .valueError) := by
  refine ⟨rfl, rfl, ?_⟩
  intro h
  unfold getNorm at h
  unfold checkNormalizations
  simp only [List.all_cons, List.all_nil, Bool.and_true]
  by_cases h1 : (s.toLower == "left") = true
  · simp [h1] at h
  · by_cases h2 : (s.toLower == "right") = true
    · simp [h1, h2] at h
    · by_cases h3 : (s.toLower == "both") = true
      · simp [h1, h2, h3] at h
      · simp [h1, h2, h3]

/-- a GraphSAGE layer always normalises on the left and adds the self-embedding, whatever was asked -/
theorem resolve_sage (isConv : Bool) (norm : Norm) (se : Bool) (c : Nat) (a : Act) :
    resolveParsed true isConv (.ok a) none norm se c = .ok ({ norm := .left, selfEmb := true, act := a }, none) := rfl

/-- a convolution layer keeps the requested normalisation and self-embedding flag -/
theorem resolve_conv (norm : Norm) (se : Bool) (c : Nat) (a : Act) :
    resolveParsed false true (.ok a) none norm se c = .ok ({ norm := norm, selfEmb := se, act := a }, none) := rfl

/-- any other layer name is refused, and so is an unknown activation or loss -/
theorem resolve_refusals (act : Except PyErr Act) (loss : Option (Except PyErr LossKind)) (norm : Norm) (se : Bool)
    (c : Nat) (isSage isConv : Bool) (e : PyErr) :
    resolveParsed false false act loss norm se c = .error .valueError ∧
    (isSage = true ∨ isConv = true → resolveParsed isSage isConv (.error e) none norm se c = .error e) ∧
    (isSage = true ∨ isConv = true → resolveParsed isSage isConv act (some (.error e)) norm se c = .error e) := by
  refine ⟨rfl, ?_, ?_⟩
  · intro h
    cases isSage <;> cases isConv <;> first | rfl | simp at h
  · intro h
    cases isSage <;> cases isConv <;> first | rfl | simp at h

/-- the last layer applies the activation of its loss (soft-max for cross-entropy, sigmoid for binary cross-entropy),
and a cross-entropy loss on a single output channel is replaced by the binary cross-entropy (`check_loss`): the
output of a fitted classifier is therefore a soft-max exactly when it has at least two channels and the
cross-entropy loss -/
theorem resolve_last_layer (isSage isConv : Bool) (h : isSage = true ∨ isConv = true) (act : Except PyErr Act)
    (k : LossKind) (norm : Norm) (se : Bool) (c : Nat) :
    ∃ cfg k', resolveParsed isSage isConv act (some (.ok k)) norm se c = .ok (cfg, some k') ∧
      cfg.act = lossAct k' ∧ k' = (if k = .crossEntropy ∧ c = 1 then .binaryCrossEntropy else k) := by
  have hk : (if (k == LossKind.crossEntropy && c == 1) = true then LossKind.binaryCrossEntropy else k)
      = (if k = .crossEntropy ∧ c = 1 then .binaryCrossEntropy else k) := by
    cases k <;> by_cases hc : c = 1 <;> simp [hc]
  cases isSage <;> cases isConv <;> first | exact ⟨_, _, rfl, rfl, hk⟩ | simp at h

end SkNet.C19
