/- C19 — property theorems (being filled). -/
import SkNet.Model.Gnn
import SkNet.Spec.Gnn

namespace SkNet.C19
open SkNet SkNet.Gnn

theorem placeholder_len (n : Nat) : (tab n (fun v => v)).length = n := by simp

end SkNet.C19
